// Package c15: safe mode never silently drops a field (property C15).
//
// Streams:
//   - inject: generated documents (harness/docgen) with an extra context of
//     look-alike terms, into which 0..3 members are injected at the top level, in
//     nested nodes, in array members, in members of named graphs (@container:@graph)
//     and of an explicit top-level @graph.  Injected members are either UNDEFINED
//     (fresh term, keyword-like "@zq", empty key, term mapped to null, term defined
//     only in a property-/type-scoped context and used outside its scope; value a
//     literal / object / array / null) or look-alikes that ARE defined (compact IRI
//     with a defined prefix, absolute IRI, unknown-scheme IRI, alias of @id, scoped
//     terms used inside their scope, @json-typed term holding arbitrary keys).
//   - setwrap: an undefined member inside a node that sits under the keyword @set.
//   - nonabs: members whose key contains ':' without being an absolute IRI
//     ("_:b", ":x") — json-gold's safe mode lets them pass and ToRDF drops them.
//   - illtyped / emptyobj / twoparents: documents JSON-LD accepts but entry building
//     cannot cover (unparsable typed literal, node without content, node with two
//     parents): no mode may report success.
//   - every successful merklization is checked for: entry count = facts stated,
//     every generated fact among the entries, every entry provable under the root;
//     clean documents are also merklized into caller-supplied trees (fresh, failing
//     Add, pre-populated).
//   - emptykey: the member "" under an absolute @vocab (defined; json-gold drops its value).
//   - every case also reads the document from io.Closer readers (io.NopCloser, a
//     temporary *os.File, a closer whose Close fails): implementation side only.
//   - credential: W3CCredential.Merklize / ToCoreClaim on a KYCAgeCredential with
//     and without an undefined member of credentialSubject (option plumbing).
//
// Every case runs MerklizeJSONLD under five option lists (none, safe, unsafe,
// [unsafe,safe], [safe,unsafe]), on the document and on the document without the
// undefined members, runs one attribution document per undefined member, and
// recomputes the root through the public primitives (json-gold Normalize with
// either SafeMode, EntriesFromRDF, AddEntriesToMerkleTree).  The same cases go to
// Coq (JsonLD/SafeRun.v), where the model decides definedness by itself.
package c15

import (
	"bytes"
	"context"
	"encoding/json"
	"errors"
	"fmt"
	"io"
	"math/big"
	"os"
	"path/filepath"
	"reflect"
	"sort"
	"strconv"
	"strings"
	"sync"
	"time"

	"github.com/iden3/go-merkletree-sql/v2"
	"github.com/iden3/go-merkletree-sql/v2/db/memory"
	"github.com/iden3/go-schema-processor/v2/loaders"
	"github.com/iden3/go-schema-processor/v2/merklize"
	"github.com/iden3/go-schema-processor/v2/verifiable"
	"github.com/piprate/json-gold/ld"

	"vharness/common"
	"vharness/coqgen"
	"vharness/ctxload"
	"vharness/docgen"
	"vharness/mzrun"
)

func init() { common.Register("C15", Run) }

const (
	lookNS   = "http://look.example/ns#"
	absNS    = "http://abs.example/"
	extraCtx = `{"lk":"http://look.example/ns#","lkid":"@id","lktype":"@type",
 "lkS":{"@id":"lk:S","@context":{"lkin":"lk:in"}},
 "LkT":{"@id":"lk:T","@context":{"lktp":"lk:tp"}},
 "lkdate":{"@id":"lk:date","@type":"http://www.w3.org/2001/XMLSchema#dateTime"},
 "lkbool":{"@id":"lk:bool","@type":"http://www.w3.org/2001/XMLSchema#boolean"},
 "lkint":{"@id":"lk:int","@type":"http://www.w3.org/2001/XMLSchema#integer"},
 "lknode":"lk:node","lkgraph":{"@id":"lk:graph","@container":"@graph"},"lkjson":{"@id":"lk:json","@type":"@json"},"lknul":null}`
)

// ---------------------------------------------------------------- case input

// Dropped names one member expansion drops: its path from the document root and
// whether json-gold's safe mode fails to report it (error ignored under @set).
type Dropped struct {
	Path      []any  `json:"path"`
	Swallowed bool   `json:"swallowed"`
	Kind      string `json:"kind"`
}

// CaseInput is everything needed to re-run a case (replay).
type CaseInput struct {
	Stream   string                     `json:"stream"`
	Doc      json.RawMessage            `json:"doc"`
	Contexts map[string]json.RawMessage `json:"contexts"` // remote contexts by URL
	Dropped  []Dropped                  `json:"dropped"`  // undefined in json-gold's sense (generator's knowledge)
	// members the property text wants rejected although json-gold lets them pass
	NonAbsolute [][]any       `json:"non_absolute"`
	Expected    int           `json:"expected_entries"` // entries of the document without Dropped/NonAbsolute; -1 = unknown
	Facts       []docgen.Fact `json:"facts"`            // facts of the generated base document (each must be an entry)
	MustFail    string        `json:"must_fail"`        // non-empty: no mode may merklize this document (why)
	EmptyKey    []any         `json:"empty_key"`        // a member "" made defined by an absolute @vocab
	Injected    []string      `json:"injected"`         // kinds, for the evidence
	Sites       []string      `json:"sites"`
}

type runObs struct {
	opts       []merklize.MerklizeOption
	defaultNil bool     // process-wide default loader is nil during the call
	loaderOpt  string   // "case": WithDocumentLoader(case loader); "nil": WithDocumentLoader(nil); "": no loader option
	spec       []string // "safe:true" ...
	out        mzrun.Outcome
	root       *big.Int
	n          int
	mz         *merklize.Merklizer
}

type ccase struct {
	trees    []treeRun
	flaky    []flakyRun
	in       CaseInput
	doc      any
	stripped any
	table    []tableRow
	runs     []runObs
	su       runObs
	dropped  []Dropped
	haveDrop bool
}

type tableRow struct {
	doc       any
	root      *big.Int // nil = error
	compactOK bool
	entriesOK bool          // EntriesFromRDF succeeded and every entry hashes
	entries   [][2]*big.Int // (key hash, value hash) of every entry
}

// treeRun: one merklization of the stripped document into a caller-supplied tree.
type treeRun struct {
	failAt int      // 0-based index of the Add call that fails; -1: none
	pre    *big.Int // key hash already present in the tree; nil: none
	obs    runObs
}

type drv struct {
	ctxNames   map[string]bool // every key occurring anywhere in the contexts of the document being generated
	defaultNil bool            // merklize.SetDocumentLoader(nil) is in force
	cfg        *common.Config
	rep        *common.Report
	loader     *ctxload.Loader
	cases      []*ccase
	nZ         int
}

// ---------------------------------------------------------------- JSON helpers

func parseJSON(b []byte) (any, error) {
	dec := json.NewDecoder(bytes.NewReader(b))
	dec.UseNumber()
	var v any
	if err := dec.Decode(&v); err != nil {
		return nil, err
	}
	return v, nil
}

func clone(v any) any {
	switch x := v.(type) {
	case map[string]any:
		m := make(map[string]any, len(x))
		for k, e := range x {
			m[k] = clone(e)
		}
		return m
	case []any:
		a := make([]any, len(x))
		for i, e := range x {
			a[i] = clone(e)
		}
		return a
	default:
		return v
	}
}

func marshal(v any) []byte {
	b, _ := json.Marshal(v)
	return b
}

// at returns the value at path (nil if absent).
func at(v any, path []any) any {
	for _, p := range path {
		switch k := p.(type) {
		case string:
			m, ok := v.(map[string]any)
			if !ok {
				return nil
			}
			v = m[k]
		case int:
			a, ok := v.([]any)
			if !ok || k < 0 || k >= len(a) {
				return nil
			}
			v = a[k]
		default:
			return nil
		}
	}
	return v
}

// removeAt deletes the object member named by path; false if it does not exist.
func removeAt(v any, path []any) bool {
	if len(path) == 0 {
		return false
	}
	parent := at(v, path[:len(path)-1])
	m, ok := parent.(map[string]any)
	k, isStr := path[len(path)-1].(string)
	if !ok || !isStr {
		return false
	}
	if _, has := m[k]; !has {
		return false
	}
	delete(m, k)
	return true
}

func normPath(p []any) []any {
	out := make([]any, len(p))
	for i, e := range p {
		switch x := e.(type) {
		case float64:
			out[i] = int(x)
		case json.Number:
			n, _ := x.Int64()
			out[i] = int(n)
		default:
			out[i] = e
		}
	}
	return out
}

func pathString(p []any) string {
	var s []string
	for _, e := range p {
		s = append(s, fmt.Sprint(e))
	}
	return strings.Join(s, "/")
}

// jsonCoq renders a JSON tree (numbers as json.Number) as a Coq term; object
// members in sorted key order (the order json-gold walks them).
func jsonCoq(f *coqgen.File, v any) string {
	switch x := v.(type) {
	case nil:
		return "JNull"
	case bool:
		return "JBool " + coqgen.Bool(x)
	case json.Number:
		return "JNum " + f.Str(x.String())
	case float64:
		return "JNum " + f.Str(string(marshal(x)))
	case string:
		return "JStr " + f.Str(x)
	case []any:
		var l []string
		for _, e := range x {
			l = append(l, jsonCoq(f, e))
		}
		return "JArr [" + strings.Join(l, "; ") + "]"
	case map[string]any:
		ks := make([]string, 0, len(x))
		for k := range x {
			ks = append(ks, k)
		}
		sort.Strings(ks)
		var l []string
		for _, k := range ks {
			l = append(l, "("+f.Str(k)+", "+jsonCoq(f, x[k])+")")
		}
		return "JObj [" + strings.Join(l, "; ") + "]"
	default:
		return "JStr " + f.Str(fmt.Sprintf("<?%T>", v))
	}
}

// ---------------------------------------------------------------- implementation runs

func (d *drv) merklize(doc []byte, spec []string) runObs {
	return d.merklizeWith(doc, "case", d.loader, spec)
}

// merklizeWith: loaderOpt "case" passes WithDocumentLoader(l), "nil" passes
// WithDocumentLoader(nil), "" passes no loader option (the process-wide default
// loader is used: see drv.defaultNil).
func (d *drv) merklizeWith(doc []byte, loaderOpt string, l ld.DocumentLoader, spec []string) runObs {
	var opts []merklize.MerklizeOption
	switch loaderOpt {
	case "case":
		opts = append(opts, merklize.WithDocumentLoader(l))
	case "nil":
		opts = append(opts, merklize.WithDocumentLoader(nil))
	}
	for _, s := range spec {
		switch s {
		case "safe:true":
			opts = append(opts, merklize.WithSafeMode(true))
		case "safe:false":
			opts = append(opts, merklize.WithSafeMode(false))
		}
	}
	mz, out := mzrun.Merklize(doc, opts...)
	r := runObs{opts: opts, spec: spec, out: out, loaderOpt: loaderOpt, defaultNil: d.defaultNil, mz: mz}
	if out.Class == "ok" {
		r.root = mz.Root().BigInt()
		r.n = len(mzrun.MapEntries(mz))
	}
	return r
}

// errCloser: a reader whose Close reports an error.
type errCloser struct{ io.Reader }

func (errCloser) Close() error { return errors.New("close failed") }

// merklizeReader runs MerklizeJSONLD with the document coming from a reader that is
// also an io.Closer: io.NopCloser, a temporary *os.File, or a closer whose Close fails.
func (d *drv) merklizeReader(doc []byte, kind string, spec []string) runObs {
	opts := []merklize.MerklizeOption{merklize.WithDocumentLoader(d.loader)}
	for _, s := range spec {
		switch s {
		case "safe:true":
			opts = append(opts, merklize.WithSafeMode(true))
		case "safe:false":
			opts = append(opts, merklize.WithSafeMode(false))
		}
	}
	r := runObs{opts: opts, spec: spec, loaderOpt: "case", defaultNil: d.defaultNil}
	var mz *merklize.Merklizer
	r.out = mzrun.Guard(30*time.Second, func() error {
		var in io.Reader
		switch kind {
		case "nopcloser":
			in = io.NopCloser(bytes.NewReader(doc))
		case "errcloser":
			in = errCloser{bytes.NewReader(doc)}
		default:
			f, err := os.CreateTemp(d.cfg.OutDir, "c15-doc-*.json")
			if err != nil {
				return fmt.Errorf("harness: %w", err)
			}
			defer func() { f.Close(); os.Remove(f.Name()) }()
			if _, err := f.Write(doc); err != nil {
				return fmt.Errorf("harness: %w", err)
			}
			if _, err := f.Seek(0, io.SeekStart); err != nil {
				return fmt.Errorf("harness: %w", err)
			}
			in = f
		}
		m, err := merklize.MerklizeJSONLD(context.Background(), in, opts...)
		if err != nil {
			return err
		}
		if m == nil {
			return errors.New("nil merklizer with nil error")
		}
		mz = m
		return nil
	})
	if r.out.Class == "ok" {
		r.root = mz.Root().BigInt()
		r.n = len(mzrun.MapEntries(mz))
	}
	return r
}

// scriptedLoader serves what the case loader serves until the failFrom-th call
// (1-based, counted over all URLs), and reports a fetch failure from then on;
// failFrom <= 0: never fails.  It records every call.
type scriptedLoader struct {
	mu       sync.Mutex
	inner    ld.DocumentLoader
	failFrom int
	log      []loadCall
}

type loadCall struct {
	URL    string `json:"url"`
	Served bool   `json:"served"`
}

func (l *scriptedLoader) LoadDocument(u string) (*ld.RemoteDocument, error) {
	l.mu.Lock()
	n := len(l.log) + 1
	fail := l.failFrom > 0 && n >= l.failFrom
	l.log = append(l.log, loadCall{URL: u, Served: !fail})
	l.mu.Unlock()
	if fail {
		return nil, ld.NewJsonLdError(ld.LoadingDocumentFailed, fmt.Errorf("scripted loader: connection refused (call %d)", n))
	}
	return l.inner.LoadDocument(u)
}

type flakyRun struct {
	FailFrom int        `json:"fail_from"`
	Safe     bool       `json:"safe"`
	Log      []loadCall `json:"log"`
	a1, a2   []string   // URLs served while Normalize / Compact ran
	modelled bool       // the two phases can be told apart and each URL has one answer per phase
	obs      runObs
}

func sameObs(a, b runObs) bool {
	if a.out.Class != b.out.Class {
		return false
	}
	if a.out.Class == "ok" {
		return a.root.Cmp(b.root) == 0
	}
	return true
}

func nquads(ds *ld.RDFDataset) string {
	s, err := (&ld.NQuadRDFSerializer{}).Serialize(ds)
	if err != nil {
		return "serialize error: " + err.Error()
	}
	lines := strings.Split(fmt.Sprint(s), "\n")
	sort.Strings(lines)
	return strings.Join(lines, "\n")
}

// primitives recomputes the root of doc without MerklizeJSONLD: json-gold
// Normalize (called with SafeMode true and false: it must not matter),
// EntriesFromRDF, AddEntriesToMerkleTree; and runs proc.Compact with SafeMode=false.
func (d *drv) primitives(rep *common.Report, doc []byte, input any) tableRow {
	var row tableRow
	var dsF, dsT *ld.RDFDataset
	var errF, errT error
	o := mzrun.Guard(30*time.Second, func() error {
		dsF, errF = mzrun.Normalize(doc, d.loader, false)
		dsT, errT = mzrun.Normalize(doc, d.loader, true)
		return nil
	})
	if o.Class != "ok" {
		rep.Count("primitives:" + o.Class)
		return row
	}
	switch {
	case (errF == nil) != (errT == nil):
		rep.Count("normalize-safe-mode-matters")
		rep.Fail("c15-normalize-forwards-safe-mode", fmt.Sprintf("json-gold Normalize depends on SafeMode (unsafe err=%v, safe err=%v): the model assumes it does not", errF, errT), input)
	case errF == nil && nquads(dsF) != nquads(dsT):
		rep.Fail("c15-normalize-forwards-safe-mode", "json-gold Normalize produced different datasets under SafeMode true/false", input)
	default:
		rep.Count("normalize-ignores-safe-mode")
	}
	if errF == nil {
		o = mzrun.Guard(30*time.Second, func() error {
			es, err := merklize.EntriesFromRDF(dsF)
			if err != nil {
				return err
			}
			row.entriesOK = true
			for _, e := range es {
				k, v, err := e.KeyValueMtEntries()
				if err != nil {
					row.entriesOK = false
					row.entries = nil
					return err
				}
				row.entries = append(row.entries, [2]*big.Int{k, v})
			}
			ctx := context.Background()
			mt, err := merkletree.NewMerkleTree(ctx, memory.NewMemoryStorage(), 40)
			if err != nil {
				return err
			}
			if err := merklize.AddEntriesToMerkleTree(ctx, merklize.MerkleTreeSQLAdapter(mt), es); err != nil {
				return err
			}
			row.root = mt.Root().BigInt()
			return nil
		})
	}
	o = mzrun.Guard(30*time.Second, func() error {
		var obj map[string]any
		if err := json.Unmarshal(doc, &obj); err != nil {
			return err
		}
		opts := ld.NewJsonLdOptions("")
		opts.Algorithm = ld.AlgorithmURDNA2015
		opts.DocumentLoader = d.loader
		_, err := ld.NewJsonLdProcessor().Compact(obj, nil, opts)
		return err
	})
	row.compactOK = o.Class == "ok"
	return row
}

func (d *drv) expand(doc []byte, safe bool) (any, error) {
	var res any
	var rerr error
	o := mzrun.Guard(30*time.Second, func() error {
		var obj map[string]any
		if err := json.Unmarshal(doc, &obj); err != nil {
			return err
		}
		opts := ld.NewJsonLdOptions("")
		opts.SafeMode = safe
		opts.DocumentLoader = d.loader
		r, err := ld.NewJsonLdProcessor().Expand(obj, opts)
		res, rerr = r, err
		return nil
	})
	if o.Class != "ok" {
		return nil, fmt.Errorf("%s: %s", o.Class, o.Msg)
	}
	return res, rerr
}

// ---------------------------------------------------------------- one case

var runSpecs = [][]string{nil, {"safe:true"}, {"safe:false"}, {"safe:false", "safe:true"}, {"safe:true", "safe:false"}}

// evalCase runs one case; it only touches the report passed in (cases are
// evaluated in parallel and merged in generation order).
func (d *drv) evalCase(rep *common.Report, in CaseInput) *ccase {
	rep.Evaluations++
	rep.Count("stream:" + in.Stream)
	for _, k := range in.Injected {
		rep.Count("inject:" + k)
	}
	for _, s := range in.Sites {
		rep.Count("site:" + s)
	}
	rep.Count(fmt.Sprintf("undefined-members:%d", len(in.Dropped)))
	for u, b := range in.Contexts {
		if d.loader.Raw(u) == nil {
			_ = d.loader.Add(u, b)
		}
	}
	doc, err := parseJSON(in.Doc)
	if err != nil {
		rep.Fail("c15-harness", "case document does not parse: "+err.Error(), in)
		return nil
	}
	for i := range in.Dropped {
		in.Dropped[i].Path = normPath(in.Dropped[i].Path)
	}
	for i := range in.NonAbsolute {
		in.NonAbsolute[i] = normPath(in.NonAbsolute[i])
	}
	c := &ccase{in: in, doc: doc, dropped: in.Dropped, haveDrop: true}
	stripped := clone(doc)
	for _, dr := range in.Dropped {
		if !removeAt(stripped, dr.Path) {
			rep.Fail("c15-harness", "dropped path not in document: "+pathString(dr.Path), in)
			return nil
		}
	}
	c.stripped = stripped
	docB, strB := marshal(doc), marshal(stripped)
	// text-level clean document: also without the non-absolute members
	clean := clone(stripped)
	for _, p := range in.NonAbsolute {
		removeAt(clean, p)
	}
	cleanB := marshal(clean)

	for _, spec := range runSpecs {
		c.runs = append(c.runs, d.merklize(docB, spec))
	}
	def, safe, unsafe := c.runs[0], c.runs[1], c.runs[2]
	for _, r := range c.runs {
		if r.out.Class == "panic" || r.out.Class == "hang" {
			rep.Fail("c15-"+r.out.Class, "MerklizeJSONLD: "+r.out.Msg, in)
			return nil
		}
	}
	rep.Count("safe:" + safe.out.Class)
	rep.Count("unsafe:" + unsafe.out.Class)

	// --- option plumbing
	if !sameObs(def, safe) {
		rep.Fail("c15-default-not-safe", fmt.Sprintf("MerklizeJSONLD without options (%s) differs from WithSafeMode(true) (%s)", def.out.Class, safe.out.Class), in)
	}
	if !sameObs(c.runs[3], safe) || !sameObs(c.runs[4], unsafe) {
		rep.Fail("c15-option-order", "the last WithSafeMode option does not win", in)
	}
	// --- loader configuration must not influence the mode
	noRemote := true
	if m, ok := doc.(map[string]any); ok {
		for _, cx := range ldArrayify(m["@context"]) {
			if _, isURL := cx.(string); isURL {
				noRemote = false
			}
		}
	}
	var cfgRuns []runObs
	switch {
	case d.defaultNil && noRemote:
		// merklize.SetDocumentLoader(nil) is in force; inline contexts never consult a loader
		cfgRuns = append(cfgRuns,
			d.merklizeWith(docB, "", nil, nil),
			d.merklizeWith(docB, "", nil, []string{"safe:true"}),
			d.merklizeWith(docB, "", nil, []string{"safe:false"}),
			d.merklizeWith(docB, "nil", nil, nil),
			d.merklizeWith(docB, "nil", nil, []string{"safe:false"}))
		rep.Count("loader-config:nil-default")
	case !d.defaultNil:
		// the process-wide default loader is the case loader: no loader option at all
		cfgRuns = append(cfgRuns,
			d.merklizeWith(docB, "", nil, nil),
			d.merklizeWith(docB, "", nil, []string{"safe:true"}),
			d.merklizeWith(docB, "", nil, []string{"safe:false"}))
		rep.Count("loader-config:default-loader")
	}
	for _, r := range cfgRuns {
		if r.out.Class == "panic" || r.out.Class == "hang" {
			rep.Fail("c15-"+r.out.Class, fmt.Sprintf("MerklizeJSONLD (default loader nil=%v, loader option %q, %v): %s", r.defaultNil, r.loaderOpt, r.spec, r.out.Msg), in)
			continue
		}
		want := safe
		if len(r.spec) > 0 && r.spec[len(r.spec)-1] == "safe:false" {
			want = unsafe
		}
		if !sameObs(r, want) {
			rep.Fail("c15-loader-config-changes-mode", fmt.Sprintf("MerklizeJSONLD with default loader nil=%v, loader option %q, options %v gives %s, the same options with an explicit loader give %s: the safe-mode setting depends on the loader configuration", r.defaultNil, r.loaderOpt, r.spec, r.out.Class, want.out.Class), in)
		}
		c.runs = append(c.runs, r)
	}
	// --- the kind of reader the document comes from must not matter (implementation
	// side only: the model has no notion of an input reader)
	for _, kind := range []string{"nopcloser", "file", "errcloser"} {
		r := d.merklizeReader(docB, kind, []string{"safe:true"})
		rep.Count("reader:" + kind + ":" + r.out.Class)
		if r.out.Class == "panic" || r.out.Class == "hang" {
			rep.Fail("c15-"+r.out.Class, "MerklizeJSONLD reading from "+kind+": "+r.out.Msg, in)
			continue
		}
		unsw := firstUnswallowed(in.Dropped)
		switch {
		case r.out.Class == "ok" && unsw != nil:
			what := fmt.Sprintf("safe mode returned success for a document with the undefined member %s when the document is read from an io.Closer (%s)", pathString(unsw), kind)
			if unsafe.out.Class == "ok" && r.root.Cmp(unsafe.root) == 0 {
				what += "; the field is silently dropped (root = root of the document without it)"
			}
			rep.Fail("c15-closer-input-hides-undefined", what, map[string]any{"stream": in.Stream, "doc": in.Doc, "contexts": in.Contexts,
				"dropped": in.Dropped, "non_absolute": in.NonAbsolute, "expected_entries": in.Expected, "injected": in.Injected,
				"sites": in.Sites, "reader": kind})
		case kind == "errcloser" && safe.out.Class == "ok":
			// a Close error may surface; a success must be the regular one
			if r.out.Class == "ok" && !sameObs(r, safe) {
				rep.Fail("c15-reader-kind-changes-result", "reading from a closer whose Close fails: success with a different root", in)
			}
		case !sameObs(r, safe):
			rep.Fail("c15-reader-kind-changes-result", fmt.Sprintf("safe mode reading from %s gives %s (%s), reading from a bytes.Reader gives %s", kind, r.out.Class, r.out.Msg, safe.out.Class), in)
		}
	}
	// --- a loader that stops answering in the middle of the call
	if !noRemote {
		d.flakyRuns(rep, c, docB, in, safe, unsafe)
	}
	// --- documents without undefined members: both modes succeed with equal roots
	c.su = d.merklize(strB, []string{"safe:false"})
	ss := d.merklize(strB, []string{"safe:true"})
	mustFail := in.MustFail != ""
	if mustFail {
		// JSON-LD accepts the document, entry building cannot cover it: no mode may report success
		for _, r := range append(append([]runObs{}, c.runs...), c.su, ss) {
			if r.out.Class == "ok" {
				rep.Fail("c15-unmerklizable-accepted", fmt.Sprintf("MerklizeJSONLD %v reports success (%d entries) for a document that cannot be covered (%s): fields are missing from the tree", r.spec, r.n, in.MustFail), in)
				break
			}
		}
	} else if c.su.out.Class != "ok" {
		rep.Fail("c15-clean-rejected", "document without undefined members rejected in unsafe mode: "+c.su.out.Msg, in)
	}
	if mustFail {
	} else if ss.out.Class != "ok" {
		rep.Fail("c15-clean-rejected", "document without undefined members rejected in safe mode: "+ss.out.Msg, in)
	} else if !sameObs(ss, c.su) {
		rep.Fail("c15-clean-modes-differ", "document without undefined members: roots differ between modes", in)
	}
	// --- safe mode rejects
	if len(in.Dropped) > 0 && safe.out.Class == "ok" {
		allSw := true
		for _, dr := range in.Dropped {
			allSw = allSw && dr.Swallowed
		}
		if allSw {
			rep.Fail("c15-set-swallows-invalid-property", fmt.Sprintf("safe mode accepted a document with an undefined member below @set (%s): json-gold ignores the error of the nested Expand", pathString(in.Dropped[0].Path)), in)
		} else {
			rep.Fail("c15-safe-accepted-undefined", "safe mode accepted a document with an undefined member at "+pathString(in.Dropped[0].Path), in)
		}
	}
	if len(in.Dropped) == 0 && len(in.NonAbsolute) == 0 && safe.out.Class != "ok" && !mustFail {
		rep.Fail("c15-safe-rejected-defined", "safe mode rejected a document whose members are all defined: "+safe.out.Msg, in)
	}
	// --- unsafe mode: success, exactly the merklization of the document without them
	if mustFail {
	} else if unsafe.out.Class != "ok" {
		rep.Fail("c15-unsafe-rejected", "unsafe mode rejected: "+unsafe.out.Msg, in)
	} else if c.su.out.Class == "ok" && !sameObs(unsafe, c.su) {
		rep.Fail("c15-unsafe-root-differs", "unsafe mode: root differs from the root of the document without the undefined members", in)
	}
	// --- attribution: each undefined member alone makes safe mode reject
	for i, dr := range in.Dropped {
		one := clone(doc)
		for j, o := range in.Dropped {
			if j != i {
				removeAt(one, o.Path)
			}
		}
		r := d.merklize(marshal(one), []string{"safe:true"})
		switch {
		case dr.Swallowed && r.out.Class == "ok":
			rep.Count("attribution:swallowed-accepted")
		case dr.Swallowed:
			c.haveDrop = false // the implementation no longer swallows: let the model speak
			rep.Count("attribution:swallowed-rejected")
		case r.out.Class == "ok":
			rep.Fail("c15-undefined-member-accepted", fmt.Sprintf("safe mode accepted the undefined member %s (%s) when it is the only one", pathString(dr.Path), dr.Kind), in)
		default:
			rep.Count("attribution:rejected")
		}
		// ... and in unsafe mode it is dropped: same root as without it
		ru := d.merklize(marshal(one), []string{"safe:false"})
		if ru.out.Class == "ok" && c.su.out.Class == "ok" && !sameObs(ru, c.su) {
			rep.Fail("c15-unsafe-root-differs", "unsafe mode: the member "+pathString(dr.Path)+" is not simply dropped", in)
		}
	}
	// --- members the text wants rejected but json-gold passes
	if len(in.NonAbsolute) > 0 {
		cs := d.merklize(cleanB, []string{"safe:true"})
		if ss.out.Class == "ok" {
			what := fmt.Sprintf("safe mode accepted the member %s, whose key does not expand to an absolute IRI", pathString(in.NonAbsolute[0]))
			if cs.out.Class == "ok" && cs.n == ss.n {
				what += fmt.Sprintf(", and silently dropped it (%d entries with and without it)", ss.n)
			}
			rep.Fail("c15-nonabsolute-property-dropped", what, in)
		}
	}
	// --- every field is covered: entry count of the accepted document
	if in.EmptyKey != nil && ss.out.Class == "ok" && ss.n == in.Expected-1 {
		rep.Fail("c15-empty-key-dropped", fmt.Sprintf("safe mode accepted the member %q, whose key expands to the absolute IRI of @vocab, and silently dropped its value (%d entries, %d facts): json-gold treats the active property \"\" as 'none'", pathString(in.EmptyKey), ss.n, in.Expected), in)
	} else if in.Expected >= 0 && len(in.NonAbsolute) == 0 && ss.out.Class == "ok" && ss.n != in.Expected {
		rep.Fail("c15-field-count", fmt.Sprintf("document states %d facts, safe-mode merklization has %d entries", in.Expected, ss.n), in)
	} else if in.EmptyKey == nil && len(in.NonAbsolute) == 0 {
		// --- post-condition of EVERY successful merklization: all fields are in the tree
		for i, r := range append(append([]runObs{}, c.runs...), c.su, ss) {
			if !d.postCondition(rep, r, in, i >= len(c.runs) || i == 2) {
				break
			}
		}
	}
	// --- caller-supplied trees: an Add that fails must fail the merklization
	if ss.out.Class == "ok" && ss.n > 0 && !mustFail {
		d.treeRuns(rep, c, strB, ss, in)
	}
	// --- primitives: root table for the model, Normalize ignores SafeMode
	c.table = append(c.table, tableRow{})
	c.table[0] = d.primitives(rep, docB, in)
	c.table[0].doc = doc
	if !reflect.DeepEqual(doc, stripped) {
		row := d.primitives(rep, strB, in)
		row.doc = stripped
		c.table = append(c.table, row)
	}
	last := c.table[len(c.table)-1]
	if c.su.out.Class == "ok" && (last.root == nil || last.root.Cmp(c.su.root) != 0) {
		rep.Fail("c15-primitive-root", "root recomputed through Normalize/EntriesFromRDF/AddEntriesToMerkleTree differs from MerklizeJSONLD's", in)
	}
	// --- interface assumption of the model: unsafe expansion ignores undefined members
	if len(in.Dropped) > 0 {
		e1, err1 := d.expand(docB, false)
		e2, err2 := d.expand(strB, false)
		if err1 != nil || err2 != nil || !reflect.DeepEqual(e1, e2) {
			rep.Fail("c15-expansion-keeps-undefined", "json-gold expansion (SafeMode=false) of the document and of the document without undefined members differ", in)
		} else {
			rep.Count("expand-ignores-undefined")
		}
	}
	rep.Sample(map[string]any{"doc": string(docB), "dropped": in.Dropped, "safe": safe.out.Class, "unsafe": unsafe.out.Class})
	return c
}

// postCondition: a successful merklization holds exactly the expected number of
// entries, every fact of the generated base document is among them, and (proofs =
// true) every entry has an existence proof with its value under the returned root.
// Returns false after reporting a failure.
func (d *drv) postCondition(rep *common.Report, r runObs, in CaseInput, proofs bool) bool {
	if r.out.Class != "ok" || r.mz == nil {
		return true
	}
	entries := mzrun.MapEntries(r.mz)
	if in.Expected >= 0 && len(entries) != in.Expected {
		rep.Fail("c15-field-count", fmt.Sprintf("MerklizeJSONLD %v reports success with %d entries, the document states %d facts", r.spec, len(entries), in.Expected), in)
		return false
	}
	if len(in.Facts) > 0 {
		have := map[docgen.Fact]int{}
		for _, v := range entries {
			have[docgen.Fact{Pattern: docgen.PatternOf(v.Parts), Value: docgen.RenderGoValue(v.Value), Datatype: v.Datatype}]++
		}
		for _, f := range in.Facts {
			if have[f] == 0 {
				// generator-side pitfall (also repaired at generation time, see correctedFacts;
				// kept here for stored inputs): an untyped integral native double is an xsd:integer
				if alt, ok := integralDoubleAsInteger(f); ok && have[alt] > 0 {
					have[alt]--
					continue
				}
				rep.Fail("c15-field-missing", fmt.Sprintf("MerklizeJSONLD %v reports success but the fact %+v of the document is not among the entries", r.spec, f), in)
				return false
			}
			have[f]--
		}
	}
	if !proofs {
		return true
	}
	for _, v := range entries {
		k, err1 := v.Entry.KeyMtEntry()
		val, err2 := v.Entry.ValueMtEntry()
		p, err3 := merklize.Options{}.NewPath(v.Parts...)
		if err1 != nil || err2 != nil || err3 != nil {
			rep.Fail("c15-leaf-not-provable", fmt.Sprintf("entry %v of an accepted document does not hash", v.Parts), in)
			return false
		}
		proof, pv, err := r.mz.Proof(context.Background(), p)
		if err != nil || proof == nil || !proof.Existence || pv == nil || !merkletree.VerifyProof(r.mz.Root(), proof, k, val) {
			rep.Fail("c15-leaf-not-provable", fmt.Sprintf("MerklizeJSONLD %v reports success but the field %v has no valid existence proof under the returned root", r.spec, v.Parts), in)
			return false
		}
	}
	return true
}

// integralDoubleAsInteger: the xsd:integer fact JSON-LD states for a native number the
// generator recorded as an xsd:double with an integral value ("3.73E2" -> 373).
func integralDoubleAsInteger(f docgen.Fact) (docgen.Fact, bool) {
	if f.Datatype != docgen.XSD+"double" || !strings.HasPrefix(f.Value, "str:") {
		return f, false
	}
	x, err := strconv.ParseFloat(strings.TrimPrefix(f.Value, "str:"), 64)
	if err != nil || x != float64(int64(x)) {
		return f, false
	}
	return docgen.Fact{Pattern: f.Pattern, Value: "int:" + strconv.FormatInt(int64(x), 10), Datatype: docgen.XSD + "integer"}, true
}

// failingTree fails the failAt-th Add (1-based) and behaves like the wrapped tree otherwise.
type failingTree struct {
	merklize.MerkleTree
	mu     sync.Mutex
	n      int
	failAt int
}

func (t *failingTree) Add(ctx context.Context, k, v *big.Int) error {
	t.mu.Lock()
	t.n++
	fail := t.n == t.failAt
	t.mu.Unlock()
	if fail {
		return errors.New("scripted tree: storage unavailable")
	}
	return t.MerkleTree.Add(ctx, k, v)
}

func newTree() merklize.MerkleTree {
	mt, err := merkletree.NewMerkleTree(context.Background(), memory.NewMemoryStorage(), 40)
	if err != nil {
		panic(err)
	}
	return merklize.MerkleTreeSQLAdapter(mt)
}

// treeRuns merklizes the (clean) document into caller-supplied trees: a fresh one,
// one whose k-th Add fails, one that already holds another value under one of the
// document's paths.
func (d *drv) treeRuns(rep *common.Report, c *ccase, docB []byte, ref runObs, in CaseInput) {
	run := func(t merklize.MerkleTree) runObs {
		mz, out := mzrun.Merklize(docB, merklize.WithDocumentLoader(d.loader), merklize.WithMerkleTree(t))
		r := runObs{spec: []string{"caller-tree"}, out: out, mz: mz}
		if out.Class == "ok" {
			r.root = mz.Root().BigInt()
			r.n = len(mzrun.MapEntries(mz))
		}
		return r
	}
	fresh := run(newTree())
	c.trees = append(c.trees, treeRun{failAt: -1, obs: fresh})
	rep.Count("tree:fresh:" + fresh.out.Class)
	if !sameObs(fresh, ref) {
		rep.Fail("c15-caller-tree-changes-result", "merklizing into a fresh caller-supplied tree differs from the default tree", in)
	} else if in.EmptyKey == nil && len(in.NonAbsolute) == 0 {
		d.postCondition(rep, fresh, in, true)
	}
	for _, at := range []int{1, 1 + d.hashPick(docB, ref.n)} {
		r := run(&failingTree{MerkleTree: newTree(), failAt: at})
		c.trees = append(c.trees, treeRun{failAt: at - 1, obs: r})
		rep.Count("tree:failing-add:" + r.out.Class)
		if r.out.Class == "ok" {
			rep.Fail("c15-tree-add-failure-ignored", fmt.Sprintf("MerklizeJSONLD reports success although Add #%d of the caller-supplied tree failed: a field of the document is not in the tree", at), in)
		}
	}
	// a tree that already holds a different value under one of the document's paths
	var keys []string
	ents := mzrun.MapEntries(ref.mz)
	for k := range ents {
		keys = append(keys, k)
	}
	sort.Strings(keys)
	e := ents[keys[d.hashPick(docB, len(keys))]]
	k, err1 := e.Entry.KeyMtEntry()
	v, err2 := e.Entry.ValueMtEntry()
	if err1 == nil && err2 == nil {
		t := newTree()
		other := new(big.Int).Add(v, big.NewInt(1))
		if err := t.Add(context.Background(), k, other); err == nil {
			r := run(t)
			c.trees = append(c.trees, treeRun{failAt: -1, pre: k, obs: r})
			rep.Count("tree:pre-populated:" + r.out.Class)
			if r.out.Class == "ok" {
				what := fmt.Sprintf("MerklizeJSONLD reports success into a tree that already holds another value under the path %v", e.Parts)
				if p, err := (merklize.Options{}).NewPath(e.Parts...); err == nil {
					if proof, _, err := r.mz.Proof(context.Background(), p); err == nil && proof != nil && !merkletree.VerifyProof(r.mz.Root(), proof, k, v) {
						what += ": the proof for that field does not hold the document's value"
					}
				}
				rep.Fail("c15-tree-add-failure-ignored", what, in)
			}
		}
	}
}

// hashPick: a deterministic index in [0,n) derived from the document (cases are
// evaluated in parallel: the shared PRNG is not used here).
func (d *drv) hashPick(doc []byte, n int) int {
	if n <= 0 {
		return 0
	}
	h := 0
	for _, b := range doc {
		h = (h*31 + int(b)) & 0x7fffffff
	}
	return h % n
}

// flakyRuns merklizes the document through scripted loaders that fail from the
// n-th fetch on, for every n up to the number of fetches of a whole call.
func (d *drv) flakyRuns(rep *common.Report, c *ccase, docB []byte, in CaseInput, safe, unsafe runObs) {
	// fetch sequence of a whole call: Normalize's expansion, then Compact's
	probe := &scriptedLoader{inner: d.loader}
	pr := d.merklizeWith(docB, "case", probe, []string{"safe:false"})
	total := len(probe.log)
	if pr.out.Class != "ok" || total == 0 || total%2 != 0 {
		rep.Count("flaky:no-probe")
		return
	}
	k := total / 2
	dup := map[string]bool{}
	halvesEqual, oncePerPhase := true, true
	for i := 0; i < k; i++ {
		if probe.log[i].URL != probe.log[k+i].URL {
			halvesEqual = false
		}
		if dup[probe.log[i].URL] {
			oncePerPhase = false
		}
		dup[probe.log[i].URL] = true
	}
	unswallowed := 0
	for _, dr := range in.Dropped {
		if !dr.Swallowed {
			unswallowed++
		}
	}
	for n := 1; n <= total; n++ {
		for _, sm := range []bool{true, false} {
			l := &scriptedLoader{inner: d.loader, failFrom: n}
			spec := []string{"safe:false"}
			if sm {
				spec = []string{"safe:true"}
			}
			r := d.merklizeWith(docB, "case", l, spec)
			fr := flakyRun{FailFrom: n, Safe: sm, Log: append([]loadCall{}, l.log...), obs: r, modelled: halvesEqual && oncePerPhase}
			for i, cl := range fr.Log {
				if !cl.Served {
					continue
				}
				if i < k {
					fr.a1 = append(fr.a1, cl.URL)
				} else {
					fr.a2 = append(fr.a2, cl.URL)
				}
			}
			phase := "normalize"
			if n > k {
				phase = "compact"
			}
			rep.Count("flaky:" + phase + ":" + r.out.Class)
			if r.out.Class == "panic" || r.out.Class == "hang" {
				rep.Fail("c15-"+r.out.Class, fmt.Sprintf("MerklizeJSONLD with a loader failing from fetch %d on: %s", n, r.out.Msg), in)
				continue
			}
			input := map[string]any{"stream": in.Stream, "doc": in.Doc, "contexts": in.Contexts, "dropped": in.Dropped,
				"non_absolute": in.NonAbsolute, "expected_entries": in.Expected, "injected": in.Injected, "sites": in.Sites,
				"flaky": map[string]any{"fail_from": n, "safe": sm, "fetches": fr.Log}}
			if sm && r.out.Class == "ok" && unswallowed > 0 {
				what := fmt.Sprintf("safe mode returned success for a document with the undefined member %s when the context fetch #%d of the call (during %s) failed", pathString(firstUnswallowed(in.Dropped)), n, phase)
				if unsafe.out.Class == "ok" && r.root.Cmp(unsafe.root) == 0 {
					what += "; the field is silently dropped (root = root of the document without it)"
				}
				rep.Fail("c15-load-failure-hides-undefined", what, input)
			} else if r.out.Class == "ok" {
				// a fetch failed and the call still succeeded: at least the result must be the regular one
				ref := unsafe
				if sm {
					ref = safe
				}
				if !sameObs(r, ref) {
					rep.Fail("c15-load-failure-changes-result", fmt.Sprintf("a loader failing from fetch %d on (during %s): success with a root different from the regular one", n, phase), input)
				}
			}
			c.flaky = append(c.flaky, fr)
		}
	}
}

func firstUnswallowed(ds []Dropped) []any {
	for _, dr := range ds {
		if !dr.Swallowed {
			return dr.Path
		}
	}
	return nil
}

// evalAll evaluates the inputs with a small worker pool and merges the results
// in input order (so that reports and shards do not depend on scheduling).
func (d *drv) evalAll(ins []CaseInput) {
	type res struct {
		rep *common.Report
		c   *ccase
	}
	out := make([]res, len(ins))
	sem := make(chan struct{}, 8)
	done := make(chan int, len(ins))
	for i := range ins {
		sem <- struct{}{}
		go func(i int) {
			defer func() { <-sem; done <- i }()
			r := common.NewReport("C15")
			out[i] = res{rep: r, c: d.evalCase(r, ins[i])}
		}(i)
	}
	for range ins {
		<-done
	}
	for i, r := range out {
		d.rep.Evaluations += r.rep.Evaluations
		d.rep.Distinct(string(ins[i].Doc))
		for k, v := range r.rep.Distribution {
			d.rep.Distribution[k] += v
		}
		d.rep.Failures = append(d.rep.Failures, r.rep.Failures...)
		if d.rep.Evaluations%41 == 0 {
			for _, s := range r.rep.Samples {
				d.rep.Sample(s)
			}
		}
		if r.c != nil {
			d.cases = append(d.cases, r.c)
		}
	}
}

// ---------------------------------------------------------------- generator

type site struct {
	path  []any
	kind  string
	obj   map[string]any
	graph bool
}

func appendPath(p []any, more ...any) []any {
	return append(append([]any{}, p...), more...)
}

func collectSites(obj map[string]any, t *docgen.TypeDef, path []any, kind string, graph bool, out *[]site) {
	*out = append(*out, site{path: path, kind: kind, obj: obj, graph: graph})
	if t == nil {
		return
	}
	for _, p := range t.Props {
		if p.Kind != "node" {
			continue
		}
		switch v := obj[p.Term].(type) {
		case map[string]any:
			k := "nested"
			if p.Graph {
				k = "graph-member"
			}
			collectSites(v, p.Child, appendPath(path, p.Term), k, graph || p.Graph, out)
		case []any:
			for i, e := range v {
				if m, ok := e.(map[string]any); ok {
					k := "array-member"
					if p.Graph {
						k = "graph-member"
					}
					collectSites(m, p.Child, appendPath(path, p.Term, i), k, graph || p.Graph, out)
				}
			}
		}
	}
}

func (d *drv) z() string {
	d.nZ++
	return fmt.Sprintf("zq%d", d.nZ)
}

func hasID(m map[string]any) bool {
	_, a := m["@id"]
	_, b := m["id"]
	_, c := m["lkid"]
	return a || b || c
}

var undefinedKinds = []string{"u-lit", "u-lit", "u-obj", "u-arr", "u-null", "u-kwalpha", "u-kwdigits", "u-empty", "u-nulterm",
	"u-scoped-out", "u-typescoped-out", "u-in-nest", "u-in-reverse", "u-embedded-out", "u-in-named-graph", "u-in-named-graph",
	"u-aliasword", "u-aliasword", "u-aliasword", "u-unloadable-ctx", "u-unloadable-ctx"}

// bare words that JSON-LD contexts commonly alias to keywords; injected only where
// no context of the document defines them: plain undefined terms
var aliasWords = []string{"id", "type", "value", "language", "graph", "set", "list", "context", "vocab", "base"}
var definedKinds = []string{"d-compact", "d-abs", "d-unknown-scheme", "d-alias", "d-scoped-in", "d-typescoped-in", "d-json",
	"d-embedded-ctx", "d-in-nest", "d-in-named-graph"}

// under an absolute @vocab every plain term is defined (vocab + term); what stays
// undefined: keyword-like "@abc" keys and terms mapped to null
var undefinedKindsVocab = []string{"u-kwalpha", "u-nulterm"}
var definedKindsVocab = []string{"d-compact", "d-abs", "d-scoped-in", "d-typescoped-in", "d-json", "d-embedded-ctx", "d-in-nest",
	"v-lit", "v-lit", "v-kwdigits", "v-scoped-out"}

// inject adds one member of the given kind to the site; returns the paths of the
// members expansion drops, and the number of entries the defined part adds.
func (d *drv) inject(s site, kind string) (dropped [][]any, extra int, ok bool) {
	r := d.cfg.Rng
	put := func(k string, v any) bool {
		if _, has := s.obj[k]; has {
			return false
		}
		s.obj[k] = v
		return true
	}
	lit := func() any {
		switch r.Intn(4) {
		case 0:
			return json.Number(fmt.Sprint(r.Intn(1000)))
		case 1:
			return r.Intn(2) == 0
		default:
			return fmt.Sprintf("v%d", r.Intn(100))
		}
	}
	// @type or its alias from the look-alike context
	typeKey := func() string { return []string{"@type", "lktype"}[r.Intn(2)] }
	switch kind {
	case "u-lit":
		k := d.z()
		return [][]any{appendPath(s.path, k)}, 0, put(k, lit())
	case "u-obj":
		k := d.z()
		var v any
		switch r.Intn(4) {
		case 0:
			v = map[string]any{absNS + "q": "x"}
		case 1:
			v = map[string]any{"@id": "urn:zq:" + k}
		case 2:
			v = map[string]any{d.z(): map[string]any{d.z(): json.Number("1")}}
		default:
			v = map[string]any{"lk:in": lit(), "@type": "LkT"}
		}
		return [][]any{appendPath(s.path, k)}, 0, put(k, v)
	case "u-arr":
		k := d.z()
		var v any
		switch r.Intn(3) {
		case 0:
			v = []any{}
		case 1:
			v = []any{json.Number("1"), "a", nil}
		default:
			v = []any{map[string]any{absNS + "q": "x"}, map[string]any{d.z(): true}}
		}
		return [][]any{appendPath(s.path, k)}, 0, put(k, v)
	case "u-null":
		k := d.z()
		return [][]any{appendPath(s.path, k)}, 0, put(k, nil)
	case "u-kwalpha":
		// keyword-like (^@[a-zA-Z]+$): expands to "" whatever the context says
		k := "@zq" + string(rune('a'+r.Intn(26))) + string(rune('a'+r.Intn(26)))
		return [][]any{appendPath(s.path, k)}, 0, put(k, lit())
	case "u-kwdigits":
		// "@zq12" has digits: not keyword-like, a plain undefined term
		k := "@" + d.z()
		return [][]any{appendPath(s.path, k)}, 0, put(k, lit())
	case "v-kwdigits":
		return nil, 1, put("@"+d.z(), "vk")
	case "v-lit":
		return nil, 1, put(d.z(), "vl")
	case "v-scoped-out":
		k := []string{"lkin", "lktp"}[r.Intn(2)]
		return nil, 1, put(k, "vs")
	case "u-unloadable-ctx":
		// the value carries its own remote @context that no loader can serve; expansion
		// never descends into the value of an undefined member, so it must not matter
		k := d.z()
		url := []string{"https://unloadable.example/ctx-" + k + ".jsonld", "ipfs://QmUnloadable" + k, "gopher://nowhere.example/" + k}[r.Intn(3)]
		inner := map[string]any{"@context": url, "name": "x"}
		var v any
		switch r.Intn(3) {
		case 0:
			v = inner
		case 1:
			v = []any{json.Number("1"), inner}
		default:
			v = map[string]any{d.z(): map[string]any{d.z(): []any{inner}}}
		}
		return [][]any{appendPath(s.path, k)}, 0, put(k, v)
	case "u-aliasword":
		var free []string
		for _, w := range aliasWords {
			if _, has := s.obj[w]; !has && !d.ctxNames[w] {
				free = append(free, w)
			}
		}
		if len(free) == 0 {
			return nil, 0, false
		}
		k := free[r.Intn(len(free))]
		var v any
		if (free[0] == "id" || free[0] == "type") && r.Intn(2) == 0 {
			// the two words credentials use most, with the value a keyword alias would take
			k = free[0]
			return [][]any{appendPath(s.path, k)}, 0, put(k, "urn:alias:"+d.z())
		}
		switch r.Intn(3) {
		case 0:
			v = lit()
		case 1:
			v = "urn:alias:" + d.z()
		default:
			v = map[string]any{"@id": "urn:alias:" + d.z(), "lk:a": "x"}
		}
		return [][]any{appendPath(s.path, k)}, 0, put(k, v)
	case "u-in-nest":
		k := d.z()
		return [][]any{appendPath(s.path, "@nest", k)}, 0, put("@nest", map[string]any{k: lit()})
	case "d-in-nest":
		return nil, 1, put("@nest", map[string]any{"lk:" + d.z(): "n"})
	case "u-in-named-graph":
		// a member of a node inside a named graph (@container: @graph)
		k := d.z()
		return [][]any{appendPath(s.path, "lkgraph", k)}, 1, put("lkgraph", map[string]any{"lk:a": "x", k: lit()})
	case "d-in-named-graph":
		return nil, 2, put("lkgraph", map[string]any{"lk:a": "x", "lk:" + d.z(): "y"})
	case "u-in-reverse":
		k := d.z()
		return [][]any{appendPath(s.path, "@reverse", k)}, 0, put("@reverse", map[string]any{k: map[string]any{"@id": "urn:r:" + k}})
	case "d-embedded-ctx":
		k := d.z()
		return nil, 1, put("lknode", map[string]any{"@context": map[string]any{k: "lk:" + k}, k: "e"})
	case "u-embedded-out":
		// the term is defined by the context embedded in the nested node only
		k := d.z()
		if _, has := s.obj[k]; has {
			return nil, 0, false
		}
		if !put("lknode", map[string]any{"@context": map[string]any{k: "lk:" + k}, k: "in"}) {
			return nil, 0, false
		}
		s.obj[k] = "out"
		return [][]any{appendPath(s.path, k)}, 1, true
	case "u-empty":
		return [][]any{appendPath(s.path, "")}, 0, put("", lit())
	case "u-nulterm":
		return [][]any{appendPath(s.path, "lknul")}, 0, put("lknul", lit())
	case "u-scoped-out":
		// lkin / lktp are defined only inside lkS / a node of type LkT
		k := []string{"lkin", "lktp"}[r.Intn(2)]
		return [][]any{appendPath(s.path, k)}, 0, put(k, lit())
	case "u-typescoped-out":
		// the type-scoped term lktp does not reach the nested node
		v := map[string]any{typeKey(): "LkT", "lktp": "in-scope", "lknode": map[string]any{"lktp": "out-of-scope", "lk:a": "kept"}}
		return [][]any{appendPath(s.path, "lknode", "lknode", "lktp")}, 3, put("lknode", v)
	case "d-compact":
		return nil, 1, put("lk:"+d.z(), "c")
	case "d-abs":
		return nil, 1, put(absNS+d.z(), "a")
	case "d-unknown-scheme":
		return nil, 1, put("zzscheme:"+d.z(), "u")
	case "d-alias":
		if hasID(s.obj) || s.graph {
			return nil, 0, false
		}
		extra := 1
		if len(s.path) == 0 || s.kind == "explicit-graph" {
			extra = 0
		}
		return nil, extra, put("lkid", "urn:lk:"+d.z())
	case "d-scoped-in":
		return nil, 1, put("lkS", map[string]any{"lkin": "s"})
	case "d-typescoped-in":
		return nil, 2, put("lknode", map[string]any{typeKey(): "LkT", "lktp": "t"})
	case "d-json":
		return nil, 1, put("lkjson", map[string]any{d.z(): json.Number("1"), "b": []any{true}})
	}
	return nil, 0, false
}

// withExtraContext appends the look-alike context to the document's @context.
func withExtraContext(obj map[string]any, vocab string) {
	var extra map[string]any
	_ = json.Unmarshal([]byte(extraCtx), &extra)
	if vocab != "" {
		extra["@vocab"] = vocab
	}
	switch c := obj["@context"].(type) {
	case []any:
		obj["@context"] = append(append([]any{}, c...), extra)
	case nil:
		obj["@context"] = extra
	default:
		obj["@context"] = []any{c, extra}
	}
}

func (d *drv) contextsOf(g *docgen.Gen, obj map[string]any) map[string]json.RawMessage {
	out := map[string]json.RawMessage{}
	for _, c := range ldArrayify(obj["@context"]) {
		if u, ok := c.(string); ok {
			if b, ok := g.CtxURLs[u]; ok {
				out[u] = b
			} else if b := d.loader.Raw(u); b != nil {
				out[u] = b
			}
		}
	}
	return out
}

// collectKeys records every object key occurring anywhere in v.
func collectKeys(v any, out map[string]bool) {
	switch x := v.(type) {
	case map[string]any:
		for k, e := range x {
			out[k] = true
			collectKeys(e, out)
		}
	case []any:
		for _, e := range x {
			collectKeys(e, out)
		}
	}
}

func ldArrayify(v any) []any {
	if a, ok := v.([]any); ok {
		return a
	}
	if v == nil {
		return nil
	}
	return []any{v}
}

// correctedFacts returns the generator's facts with one known expectation error of
// docgen.literal repaired (the same repair as c01.fixIntegralNativeDoubles): an UNTYPED
// native double f = (k+1)/64 is integral for 1 draw in 64; JSON then writes "373" and
// JSON-LD rightly types it xsd:integer, while the generator recorded an xsd:double fact
// ("3.73E2").  ok = false when the repaired fact coincides with another fact of the
// document (the set semantics of RDF would then merge them).
func correctedFacts(gd *docgen.Doc) ([]docgen.Fact, bool) {
	facts := append([]docgen.Fact{}, gd.Facts...)
	ok := true
	for _, l := range gd.Leaves {
		f, isF := l.Raw.(float64)
		if l.Kind != "native-double" || !isF || f != float64(int64(f)) {
			continue
		}
		for i := range facts {
			if facts[i] == l.Fact {
				nf := docgen.Fact{Pattern: facts[i].Pattern, Value: "int:" + strconv.FormatInt(int64(f), 10), Datatype: docgen.XSD + "integer"}
				for j := range facts {
					if j != i && facts[j] == nf {
						ok = false
					}
				}
				facts[i] = nf
				break
			}
		}
	}
	return facts, ok
}

// genCase builds one document of the given stream.
func (d *drv) genCase(g *docgen.Gen, stream string) (CaseInput, bool) {
	r := d.cfg.Rng
	gd := g.Valid(1 + r.Intn(3))
	v, err := parseJSON(gd.Bytes)
	if err != nil {
		return CaseInput{}, false
	}
	obj := v.(map[string]any)
	vocab := ""
	uKinds, dKinds := undefinedKinds, definedKinds
	if stream == "inject" || stream == "emptykey" {
		switch r.Intn(8) {
		case 0:
			vocab = "http://vocab.example/"
			uKinds, dKinds = undefinedKindsVocab, definedKindsVocab
		case 1:
			vocab = "rel/" // vocab + term has no ':' : everything stays undefined
		}
	}
	if stream == "emptykey" {
		vocab = "http://vocab.example/"
	}
	withExtraContext(obj, vocab)
	facts, factsOK := correctedFacts(gd)
	in := CaseInput{Stream: stream, Expected: len(facts), Facts: facts}
	if !factsOK {
		// the correction made two facts of one property coincide (RDF is a set): the
		// generator's account is not reliable for this document, count and facts are not checked
		in.Expected, in.Facts = -1, nil
	}
	if vocab != "" {
		in.Injected = append(in.Injected, "vocab:"+vocab)
	}
	var sites []site
	root := obj
	if r.Intn(6) == 0 {
		// explicit top-level @graph holding the node
		node := map[string]any{}
		for k, e := range obj {
			if k != "@context" {
				node[k] = e
			}
		}
		root = map[string]any{"@context": obj["@context"], "@graph": []any{node}}
		collectSites(node, gd.Root, []any{"@graph", 0}, "explicit-graph", false, &sites)
	} else {
		collectSites(obj, gd.Root, nil, "top", false, &sites)
	}
	in.Contexts = d.contextsOf(g, root)
	d.ctxNames = map[string]bool{}
	collectKeys(root["@context"], d.ctxNames)
	for _, b := range in.Contexts {
		if v, err := parseJSON(b); err == nil {
			collectKeys(v, d.ctxNames)
		}
	}
	pick := func() site { return sites[r.Intn(len(sites))] }
	switch stream {
	case "inject":
		nU := []int{0, 1, 1, 1, 2, 2, 3}[r.Intn(7)]
		nD := r.Intn(3)
		if nU == 0 && nD == 0 {
			nD = 1
		}
		for i := 0; i < nD; i++ {
			s := pick()
			k := dKinds[r.Intn(len(dKinds))]
			if _, extra, ok := d.inject(s, k); ok {
				in.Expected += extra
				in.Injected = append(in.Injected, k)
				in.Sites = append(in.Sites, "defined@"+s.kind)
			}
		}
		for i := 0; i < nU; i++ {
			s := pick()
			k := uKinds[r.Intn(len(uKinds))]
			if dr, extra, ok := d.inject(s, k); ok {
				in.Expected += extra
				for _, p := range dr {
					in.Dropped = append(in.Dropped, Dropped{Path: p, Kind: k})
				}
				in.Injected = append(in.Injected, k)
				in.Sites = append(in.Sites, "undefined@"+s.kind)
			}
		}
	case "setwrap":
		s := pick()
		k := d.z()
		if _, has := s.obj["lknode"]; has {
			return in, false
		}
		s.obj["lknode"] = map[string]any{"@set": []any{map[string]any{"lk:a": "x", k: json.Number("1")}}}
		in.Expected++
		in.Dropped = append(in.Dropped, Dropped{Path: appendPath(s.path, "lknode", "@set", 0, k), Swallowed: true, Kind: "u-under-set"})
		in.Injected = append(in.Injected, "u-under-set")
		in.Sites = append(in.Sites, "undefined@"+s.kind)
	case "illtyped":
		// JSON-LD accepts the literal, entry building cannot hash it
		s := pick()
		k := []string{"lkdate", "lkbool", "lkint"}[r.Intn(3)]
		v := ""
		switch k {
		case "lkdate":
			v = []string{"not-a-date", "2020-13-45"}[r.Intn(2)]
		case "lkbool":
			v = []string{"maybe", "yes"}[r.Intn(2)]
		default:
			v = []string{"twelve", "12abc"}[r.Intn(2)]
		}
		if _, has := s.obj[k]; has {
			return in, false
		}
		s.obj[k] = v
		in.MustFail = "ill-typed literal " + k + "=" + v
		in.Expected = -1
		in.Injected = append(in.Injected, "ill-typed:"+k)
		in.Sites = append(in.Sites, "defined@"+s.kind)
		if r.Intn(2) == 0 {
			// in unsafe mode next to an undefined property
			if dr, _, ok := d.inject(pick(), "u-lit"); ok {
				for _, p := range dr {
					in.Dropped = append(in.Dropped, Dropped{Path: p, Kind: "u-lit"})
				}
				in.Injected = append(in.Injected, "u-lit")
			}
		}
	case "emptyobj":
		// a property whose value is a node without content
		s := pick()
		if _, has := s.obj["lknode"]; has {
			return in, false
		}
		in.Expected = -1
		in.Sites = append(in.Sites, "defined@"+s.kind)
		switch r.Intn(3) {
		case 0:
			s.obj["lknode"] = map[string]any{}
			in.MustFail = "empty node object"
		case 1:
			s.obj["lknode"] = []any{map[string]any{}, map[string]any{}}
			in.MustFail = "array of empty node objects"
		default:
			k := d.z()
			s.obj["lknode"] = map[string]any{k: "only-undefined"}
			in.Dropped = append(in.Dropped, Dropped{Path: appendPath(s.path, "lknode", k), Kind: "u-only-member"})
			in.MustFail = "node object whose only member is undefined"
		}
		in.Injected = append(in.Injected, "empty-node")
	case "emptykey":
		// the key "" expands to the vocabulary IRI itself: defined, one more fact
		s := pick()
		if _, has := s.obj[""]; has {
			return in, false
		}
		s.obj[""] = "e"
		in.Expected++
		in.EmptyKey = appendPath(s.path, "")
		in.Injected = append(in.Injected, "v-empty")
		in.Sites = append(in.Sites, "defined@"+s.kind)
	case "nonabs":
		s := pick()
		k := []string{"_:" + d.z(), ":" + d.z(), ":"}[r.Intn(3)]
		if _, has := s.obj[k]; has {
			return in, false
		}
		s.obj[k] = "n"
		in.NonAbsolute = append(in.NonAbsolute, appendPath(s.path, k))
		in.Injected = append(in.Injected, "nonabsolute")
		in.Sites = append(in.Sites, "nonabsolute@"+s.kind)
	}
	// document order of the walk: sort dropped paths the way json-gold visits them
	sortDropped(in.Dropped)
	in.Doc = marshal(root)
	return in, true
}

func pathLess(a, b []any) bool {
	for i := 0; i < len(a) && i < len(b); i++ {
		switch x := a[i].(type) {
		case string:
			y, ok := b[i].(string)
			if !ok {
				return false
			}
			if x != y {
				return x < y
			}
		case int:
			y, ok := b[i].(int)
			if !ok {
				return true
			}
			if x != y {
				return x < y
			}
		}
	}
	return len(a) < len(b)
}

func sortDropped(ds []Dropped) {
	sort.SliceStable(ds, func(i, j int) bool { return pathLess(ds[i].Path, ds[j].Path) })
}

// ---------------------------------------------------------------- credential stream

const credentialJSON = `{
 "id": "urn:uuid:3a8d1822-a00e-11ee-8f57-a27b3ddbdc29",
 "@context": ["https://www.w3.org/2018/credentials/v1",
   "https://schema.iden3.io/core/jsonld/iden3proofs.jsonld",
   "https://raw.githubusercontent.com/iden3/claim-schema-vocab/main/schemas/json-ld/kyc-v3.json-ld"],
 "type": ["VerifiableCredential", "KYCAgeCredential"],
 "expirationDate": "2361-03-21T21:14:48+02:00",
 "issuanceDate": "2023-12-21T16:35:46.737547+02:00",
 "credentialSubject": {"birthday": 19960424, "documentType": 2,
   "id": "did:polygonid:polygon:mumbai:2qH2mPVRN7ZDCnEofjeh8Qd2Uo3YsEhTVhKhjB8xs4", "type": "KYCAgeCredential"},
 "credentialStatus": {"id": "https://rhs-staging.polygonid.me/node?state=f9dd6aa4e1abef52b6c94ab7eb92faf1a283b371d263e25ac835c9c04894741e",
   "revocationNonce": 74881362, "type": "Iden3ReverseSparseMerkleTreeProof"},
 "issuer": "did:polygonid:polygon:mumbai:2qLGnFZiHrhdNh5KwdkGvbCN1sR2pUaBpBahAXC3zf",
 "credentialSchema": {"id": "https://raw.githubusercontent.com/iden3/claim-schema-vocab/main/schemas/json/KYCAgeCredential-v3.json", "type": "JsonSchema2023"}
}`

type vcRun struct {
	class string
	msg   string
	root  *big.Int
	safe  bool
}

func (d *drv) vcMerklize(vc *verifiable.W3CCredential, opts ...merklize.MerklizeOption) vcRun {
	var out vcRun
	o := mzrun.Guard(30*time.Second, func() error {
		mz, err := vc.Merklize(context.Background(), opts...)
		if err != nil {
			return err
		}
		out.root = mz.Root().BigInt()
		out.safe = mz.VerifSafeMode()
		return nil
	})
	out.class, out.msg = o.Class, o.Msg
	return out
}

func (d *drv) vcClaim(vc *verifiable.W3CCredential, opts *verifiable.CoreClaimOptions) vcRun {
	var out vcRun
	o := mzrun.Guard(30*time.Second, func() error {
		_, err := vc.ToCoreClaim(context.Background(), opts)
		return err
	})
	out.class, out.msg = o.Class, o.Msg
	return out
}

// credParams fixes one credential case (also the replay format of this stream).
type credParams struct {
	Stream   string `json:"stream"`
	Key      string `json:"undefined_member"` // member of credentialSubject
	Value    any    `json:"value"`
	Birthday int    `json:"birthday"`
}

func (d *drv) credentialStream(n int, fixed *credParams) {
	rep := d.rep
	r := d.cfg.Rng
	// ToCoreClaim(nil) uses the package-level default loader
	merklize.SetDocumentLoader(d.loader)
	d.defaultNil = false
	defer func() { merklize.SetDocumentLoader(nil); d.defaultNil = true }()
	for i := 0; i < n; i++ {
		var clean, dirty verifiable.W3CCredential
		if err := json.Unmarshal([]byte(credentialJSON), &clean); err != nil {
			rep.Fail("c15-harness", "credential fixture: "+err.Error(), nil)
			return
		}
		_ = json.Unmarshal([]byte(credentialJSON), &dirty)
		input := credParams{Stream: "credential", Key: d.z(), Value: "x", Birthday: 19000101 + r.Intn(1000000)}
		switch r.Intn(3) {
		case 0:
			input.Value = map[string]any{"birthday": 1}
		case 1:
			input.Value = nil
		}
		if fixed != nil {
			input = *fixed
		}
		key, val, where := input.Key, input.Value, "credentialSubject"
		clean.CredentialSubject["birthday"] = input.Birthday
		dirty.CredentialSubject["birthday"] = input.Birthday
		dirty.CredentialSubject[key] = val
		rep.Evaluations++
		rep.Count("stream:credential")
		rep.Distinct(fmt.Sprint(input))
		ldr := merklize.WithDocumentLoader(d.loader)

		c0 := d.vcMerklize(&clean, ldr)
		if c0.class != "ok" {
			rep.Fail("c15-harness", "clean credential does not merklize: "+c0.msg, input)
			return
		}
		if !c0.safe {
			rep.Fail("c15-w3c-merklize-not-safe-by-default", "W3CCredential.Merklize without a safe-mode option returns a merklizer whose safe mode is off", input)
		}
		dDef := d.vcMerklize(&dirty, ldr)
		dSafe := d.vcMerklize(&dirty, ldr, merklize.WithSafeMode(true))
		dUnsafe := d.vcMerklize(&dirty, ldr, merklize.WithSafeMode(false))
		cUnsafe := d.vcMerklize(&clean, ldr, merklize.WithSafeMode(false))
		if dDef.class == "ok" {
			rep.Fail("c15-w3c-merklize-not-safe-by-default", "W3CCredential.Merklize (default options) accepted a credential with the undefined member "+where+"/"+key, input)
		}
		if dSafe.class == "ok" {
			rep.Fail("c15-w3c-merklize-ignores-option", "W3CCredential.Merklize(WithSafeMode(true)) accepted an undefined member", input)
		}
		if dUnsafe.class != "ok" {
			rep.Fail("c15-w3c-merklize-ignores-option", "W3CCredential.Merklize(WithSafeMode(false)) rejected: "+dUnsafe.msg, input)
		} else if dUnsafe.safe {
			rep.Fail("c15-w3c-merklize-ignores-option", "W3CCredential.Merklize(WithSafeMode(false)) returns a merklizer whose safe mode is on", input)
		} else if cUnsafe.class != "ok" || dUnsafe.root.Cmp(c0.root) != 0 || cUnsafe.root.Cmp(c0.root) != 0 {
			rep.Fail("c15-unsafe-root-differs", "W3CCredential.Merklize in unsafe mode: root differs from the root of the credential without the undefined member", input)
		}
		// ToCoreClaim: nil options and default MerklizerOpts are safe; MerklizerOpts are forwarded
		if k := d.vcClaim(&clean, nil); k.class != "ok" {
			rep.Count("tocoreclaim-clean:" + k.class)
			rep.Notes = appendOnce(rep.Notes, "ToCoreClaim on the clean credential fails in this environment: "+k.msg)
		} else {
			rep.Count("tocoreclaim-clean:ok")
			if k := d.vcClaim(&dirty, nil); k.class == "ok" {
				rep.Fail("c15-tocoreclaim-not-safe-by-default", "ToCoreClaim(nil options) accepted a credential with an undefined member", input)
			}
			if k := d.vcClaim(&dirty, &verifiable.CoreClaimOptions{SubjectPosition: verifiable.CredentialSubjectPositionIndex}); k.class == "ok" {
				rep.Fail("c15-tocoreclaim-not-safe-by-default", "ToCoreClaim(options without MerklizerOpts) accepted a credential with an undefined member", input)
			}
			if k := d.vcClaim(&dirty, &verifiable.CoreClaimOptions{SubjectPosition: verifiable.CredentialSubjectPositionIndex,
				MerklizerOpts: []merklize.MerklizeOption{merklize.WithSafeMode(false)}}); k.class != "ok" {
				rep.Fail("c15-tocoreclaim-ignores-option", "ToCoreClaim(MerklizerOpts: WithSafeMode(false)) rejected: "+k.msg, input)
			}
		}
		// the same documents through the Coq model
		cb, _ := json.Marshal(&dirty)
		var m map[string]any
		_ = json.Unmarshal(cb, &m)
		delete(m, "proof")
		ci := CaseInput{Stream: "credential-doc", Doc: marshal(m), Contexts: map[string]json.RawMessage{}, Expected: -1,
			Dropped: []Dropped{{Path: []any{"credentialSubject", key}, Kind: "u-credential"}}, Injected: []string{"u-credential"}, Sites: []string{"undefined@nested"}}
		for _, u := range clean.Context {
			ci.Contexts[u] = d.loader.Raw(u)
		}
		d.evalAll([]CaseInput{ci})
	}
}

func appendOnce(l []string, s string) []string {
	for _, x := range l {
		if x == s {
			return l
		}
	}
	return append(l, s)
}

// ---------------------------------------------------------------- shards

const shardSize = 30

func obsCoq(r runObs) string {
	switch r.out.Class {
	case "ok":
		return "ORoot " + coqgen.Limbs(r.root)
	case "err":
		return "OErr"
	case "panic":
		return "OPanic"
	default:
		return "OHang"
	}
}

func pathCoq(f *coqgen.File, p []any) string {
	var l []string
	for _, e := range p {
		switch x := e.(type) {
		case string:
			l = append(l, "RK "+f.Str(x))
		case int:
			l = append(l, fmt.Sprintf("RI %d", x))
		}
	}
	return "[" + strings.Join(l, "; ") + "]"
}

func (d *drv) writeShards() error {
	n := len(d.cases)
	for s := 0; s*shardSize < n; s++ {
		lo, hi := s*shardSize, (s+1)*shardSize
		if hi > n {
			hi = n
		}
		f := coqgen.NewFile("From GSP Require Import JsonLD.Safe JsonLD.SafeRun.")
		name := filepath.Join(d.cfg.OutDir, fmt.Sprintf("cases_C15_%03d.v", s))
		var cs []string
		for i := lo; i < hi; i++ {
			c := d.cases[i]
			var ld []string
			var urls []string
			for u := range c.in.Contexts {
				urls = append(urls, u)
			}
			sort.Strings(urls)
			for _, u := range urls {
				v, err := parseJSON(c.in.Contexts[u])
				if err != nil {
					continue
				}
				ld = append(ld, "("+f.Str(u)+", "+jsonCoq(f, v)+")")
			}
			var tbl []string
			for _, row := range c.table {
				r := "PErr"
				if row.root != nil {
					r = "PRoot " + coqgen.Limbs(row.root)
				}
				es := "None"
				if row.entriesOK {
					var l []string
					for _, kv := range row.entries {
						l = append(l, "("+coqgen.Limbs(kv[0])+", "+coqgen.Limbs(kv[1])+")")
					}
					es = "(Some [" + strings.Join(l, "; ") + "])"
				}
				tbl = append(tbl, fmt.Sprintf("(%s, %s, %s, %s)", jsonCoq(f, row.doc), r, coqgen.Bool(row.compactOK), es))
			}
			var trees []string
			for _, tr := range c.trees {
				fa, pre := "None", "None"
				if tr.failAt >= 0 {
					fa = fmt.Sprintf("(Some %d)", tr.failAt)
				}
				if tr.pre != nil {
					pre = "(Some " + coqgen.Limbs(tr.pre) + ")"
				}
				trees = append(trees, fmt.Sprintf("(%s, %s, %s)", fa, pre, obsCoq(tr.obs)))
			}
			var runs []string
			for _, r := range c.runs {
				var os []string
				switch r.loaderOpt {
				case "case":
					os = append(os, "RLoader")
				case "nil":
					os = append(os, "RNilLoader")
				}
				for _, sp := range r.spec {
					os = append(os, "RSafe "+strings.TrimPrefix(sp, "safe:"))
				}
				runs = append(runs, fmt.Sprintf("(%s, [%s], %s)", coqgen.Bool(r.defaultNil), strings.Join(os, "; "), obsCoq(r)))
			}
			var flaky []string
			for _, fr := range c.flaky {
				if !fr.modelled {
					continue
				}
				strs := func(l []string) string {
					var o []string
					for _, u := range l {
						o = append(o, f.Str(u))
					}
					return "[" + strings.Join(o, "; ") + "]"
				}
				flaky = append(flaky, fmt.Sprintf("(%s, %s, %s, %s)", strs(fr.a1), strs(fr.a2), coqgen.Bool(fr.Safe), obsCoq(fr.obs)))
			}
			dr := "None"
			if c.haveDrop {
				var l []string
				for _, x := range c.dropped {
					l = append(l, fmt.Sprintf("(%s, %s)", pathCoq(f, x.Path), coqgen.Bool(x.Swallowed)))
				}
				dr = "(Some [" + strings.Join(l, "; ") + "])"
			}
			cs = append(cs, fmt.Sprintf("mkc15 %d [%s]\n  (%s)\n  (%s)\n  [%s]\n  [%s]\n  [%s]\n  [%s] (%s) %s",
				i, strings.Join(ld, "; "), jsonCoq(f, c.doc), jsonCoq(f, c.stripped), strings.Join(tbl, ";\n   "),
				strings.Join(runs, "; "), strings.Join(flaky, "; "), strings.Join(trees, "; "), obsCoq(c.su), dr))
			d.rep.Case(name, i, c.in)
		}
		f.Add("Definition cases_ : list c15case := " + coqgen.List(cs) + ".")
		f.Add("Definition M := Eval vm_compute in c15_mismatches cases_.")
		f.Add("Print M.")
		if err := f.Write(name); err != nil {
			return err
		}
		d.rep.Shards = append(d.rep.Shards, name)
	}
	return nil
}

// ---------------------------------------------------------------- driver

func Run(cfg *common.Config) (*common.Report, error) {
	rep := common.NewReport("C15")
	rep.Correspondence = "JsonLD.SafeRun.c15_mismatches: MerklizeJSONLD / merklize_doc / strip_undefined / undefined_occ (JsonLD/Safe.v: own model of json-gold context processing and of the expansion walk up to the fate of every object key, option plumbing of merklize.go) vs merklize.MerklizeJSONLD under 5 option lists, on the document and on the document without its undefined members; roots of documents come from a table recorded through json-gold Normalize + EntriesFromRDF + AddEntriesToMerkleTree"
	rep.Rule = "documents from random schema trees (docgen: depth<=3, type-/property-scoped contexts, prefixes, id/type aliases, arrays, named graphs, inline or remote contexts) + a context of look-alike terms; 0..3 undefined members (10 kinds) and 0..2 defined look-alikes (7 kinds) injected at top level / nested / array member / named-graph member / explicit @graph; streams setwrap (undefined member below @set), nonabs (keys with ':' that are no absolute IRI), credential (W3CCredential.Merklize/ToCoreClaim). distinct = distinct document bytes; non-trivial = at least one injected member (every case)."
	d := &drv{cfg: cfg, rep: rep, loader: ctxload.New()}
	// The process-wide default loader is switched off for the whole run (every call
	// passes its loader explicitly, except the runs that test exactly this
	// configuration and the credential stream, which installs the case loader) and
	// is put back to the package's initial value at the end.
	merklize.SetDocumentLoader(nil)
	d.defaultNil = true
	defer merklize.SetDocumentLoader(loaders.NewDocumentLoader(nil, ""))
	if cfg.Replay != "" {
		var rf struct {
			Input CaseInput `json:"input"`
		}
		if err := common.ReadJSON(cfg.Replay, &rf); err != nil {
			return nil, err
		}
		if rf.Input.Stream == "credential" || len(rf.Input.Doc) == 0 {
			var cf struct {
				Input credParams `json:"input"`
			}
			if err := common.ReadJSON(cfg.Replay, &cf); err != nil {
				return nil, err
			}
			d.credentialStream(1, &cf.Input)
		} else {
			d.evalAll([]CaseInput{rf.Input})
		}
		for _, c := range d.cases {
			for _, r := range c.runs {
				fmt.Printf("replay: MerklizeJSONLD %v -> %s %s root=%v entries=%d\n", r.spec, r.out.Class, r.out.Msg, r.root, r.n)
			}
		}
		for _, f := range rep.Failures {
			fmt.Printf("replay: FAIL [%s] %s\n", f.Class, f.What)
		}
		return rep, d.writeShards()
	}
	g := docgen.New(cfg.Rng)
	gen := func(stream string, n int) {
		var ins []CaseInput
		for i := 0; i < n; {
			in, ok := d.genCase(g, stream)
			if !ok {
				continue
			}
			i++
			ins = append(ins, in)
		}
		d.evalAll(ins)
	}
	gen("inject", cfg.Pick(160, 2500))
	gen("setwrap", cfg.Pick(4, 40))
	gen("nonabs", cfg.Pick(6, 60))
	gen("emptykey", cfg.Pick(3, 30))
	gen("illtyped", cfg.Pick(8, 80))
	gen("emptyobj", cfg.Pick(6, 60))
	{
		// nodes with two parents: JSON-LD accepts them, no unique path exists
		var ins []CaseInput
		for i := 0; i < cfg.Pick(3, 30); i++ {
			sd := g.Shared()
			ins = append(ins, CaseInput{Stream: "twoparents", Doc: sd.Bytes, Expected: -1, MustFail: "node with two parents", Injected: []string{"shared-node"}})
		}
		d.evalAll(ins)
	}
	d.credentialStream(cfg.Pick(4, 40), nil)
	return rep, d.writeShards()
}
