package c02

// Short programs over real merklize.Path values and caller buffers with spare capacity, evaluated by
// coq/Merklizer/SliceModel.v (Go slices over a heap of arrays) in coq/Merklizer/SliceRun.v, plus an
// implementation-side oracle with plain value semantics: Path operations must never write into, or
// keep, an array somebody else holds.

import (
	"encoding/json"
	"fmt"
	"math/rand"
	"path/filepath"
	"strings"

	"github.com/iden3/go-schema-processor/v2/merklize"

	"vharness/common"
	"vharness/coqgen"
)

// op kinds
const (
	opMakeBuf = iota // a=len b=cap elems
	opSubBuf         // a=buf b=lo c=hi
	opSetBuf         // a=buf b=i c=x
	opNewPath        // a=buf
	opCopy           // a=path
	opAppend         // a=path b=buf
	opPrepend        // a=path b=buf
)

type SliceOp struct {
	K     int   `json:"k"`
	A     int   `json:"a"`
	B     int   `json:"b"`
	C     int   `json:"c"`
	Elems []int `json:"e,omitempty"`
}

type SliceProg struct {
	SliceOps []SliceOp `json:"slice_ops"`
	What     string    `json:"what,omitempty"`
}

// reference semantics: buffers are windows into base arrays (sub-buffers share), paths are values
type refBuf struct {
	base     *[]int
	off, len int
}

func ints(parts []any) []int {
	out := []int{}
	for _, p := range parts {
		switch x := p.(type) {
		case int:
			out = append(out, x)
		case nil:
			out = append(out, 0)
		default:
			out = append(out, -1)
		}
	}
	return out
}

// execSliceProg runs the program on real values; returns the final Parts() of every path, the final
// contents of every buffer, and the same from the reference semantics (ok=false: ill-formed program).
func execSliceProg(ops []SliceOp) (paths, bufs, wantPaths, wantBufs [][]int, ok bool) {
	var rb [][]any
	var rp []merklize.Path
	var wb []refBuf
	var wp [][]int
	for _, o := range ops {
		switch o.K {
		case opMakeBuf:
			if o.A > o.B || len(o.Elems) != o.A {
				return
			}
			b := make([]any, o.A, o.B)
			base := make([]int, o.B)
			for i, x := range o.Elems {
				b[i] = x
				base[i] = x
			}
			rb = append(rb, b)
			wb = append(wb, refBuf{&base, 0, o.A})
		case opSubBuf:
			if o.A >= len(rb) || o.B > o.C || o.C > len(rb[o.A]) {
				return
			}
			rb = append(rb, rb[o.A][o.B:o.C])
			wb = append(wb, refBuf{wb[o.A].base, wb[o.A].off + o.B, o.C - o.B})
		case opSetBuf:
			if o.A >= len(rb) || o.B >= len(rb[o.A]) {
				return
			}
			rb[o.A][o.B] = o.C
			(*wb[o.A].base)[wb[o.A].off+o.B] = o.C
		case opNewPath:
			if o.A >= len(rb) {
				return
			}
			p, err := merklize.NewPath(rb[o.A]...)
			if err != nil {
				return
			}
			rp = append(rp, p)
			wp = append(wp, append([]int{}, (*wb[o.A].base)[wb[o.A].off:wb[o.A].off+wb[o.A].len]...))
		case opCopy:
			if o.A >= len(rp) {
				return
			}
			rp = append(rp, rp[o.A])
			wp = append(wp, append([]int{}, wp[o.A]...))
		case opAppend, opPrepend:
			if o.A >= len(rp) || o.B >= len(rb) {
				return
			}
			arg := append([]int{}, (*wb[o.B].base)[wb[o.B].off:wb[o.B].off+wb[o.B].len]...)
			var err error
			if o.K == opAppend {
				err = rp[o.A].Append(rb[o.B]...)
				wp[o.A] = append(append([]int{}, wp[o.A]...), arg...)
			} else {
				err = rp[o.A].Prepend(rb[o.B]...)
				wp[o.A] = append(arg, wp[o.A]...)
			}
			if err != nil {
				return
			}
		default:
			return
		}
	}
	for i := range rp {
		paths = append(paths, ints(rp[i].Parts()))
		wantPaths = append(wantPaths, wp[i])
	}
	for i := range rb {
		bufs = append(bufs, ints(rb[i]))
		wantBufs = append(wantBufs, append([]int{}, (*wb[i].base)[wb[i].off:wb[i].off+wb[i].len]...))
	}
	return paths, bufs, wantPaths, wantBufs, true
}

func intsCoq(l [][]int) string {
	var out []string
	for _, x := range l {
		var e []string
		for _, v := range x {
			e = append(e, fmt.Sprint(v))
		}
		out = append(out, "["+strings.Join(e, ";")+"]")
	}
	return "[" + strings.Join(out, ";") + "]"
}

func (o SliceOp) coq() string {
	switch o.K {
	case opMakeBuf:
		var e []string
		for _, v := range o.Elems {
			e = append(e, fmt.Sprint(v))
		}
		return fmt.Sprintf("RMakeBuf %d %d [%s]", o.A, o.B, strings.Join(e, ";"))
	case opSubBuf:
		return fmt.Sprintf("RSubBuf %d %d %d", o.A, o.B, o.C)
	case opSetBuf:
		return fmt.Sprintf("RSetBuf %d %d %d", o.A, o.B, o.C)
	case opNewPath:
		return fmt.Sprintf("RNewPath %d", o.A)
	case opCopy:
		return fmt.Sprintf("RCopy %d", o.A)
	case opAppend:
		return fmt.Sprintf("RAppend %d %d", o.A, o.B)
	default:
		return fmt.Sprintf("RPrepend %d %d", o.A, o.B)
	}
}

// the shapes behind D35, D36 (1) and (2), seeded C02-j and a chain of both operations
func fixedSliceProgs() []SliceProg {
	mb := func(l, c int, e ...int) SliceOp { return SliceOp{K: opMakeBuf, A: l, B: c, Elems: e} }
	return []SliceProg{
		{What: "D36(1): two children completed from one prefix buffer with spare capacity", SliceOps: []SliceOp{
			mb(1, 4, 1), mb(1, 1, 51), mb(1, 1, 52), {K: opNewPath, A: 1}, {K: opNewPath, A: 2},
			{K: opPrepend, A: 0, B: 0}, {K: opPrepend, A: 1, B: 0}, {K: opSetBuf, A: 0, B: 0, C: 9}}},
		{What: "D36(2): Prepend on an empty path, argument overwritten afterwards", SliceOps: []SliceOp{
			mb(0, 0), mb(2, 2, 5, 6), {K: opNewPath, A: 0}, {K: opPrepend, A: 0, B: 1}, {K: opSetBuf, A: 1, B: 0, C: 99}}},
		{What: "D35: a copy extended, then the original extended", SliceOps: []SliceOp{
			mb(3, 3, 1, 2, 3), mb(1, 1, 7), mb(1, 1, 8), {K: opNewPath, A: 0}, {K: opAppend, A: 0, B: 1},
			{K: opCopy, A: 0}, {K: opAppend, A: 1, B: 1}, {K: opAppend, A: 0, B: 2}, {K: opCopy, A: 0}, {K: opPrepend, A: 2, B: 2}}},
		{What: "C02-j: NewPath / Append on empty from a buffer reused afterwards", SliceOps: []SliceOp{
			mb(2, 5, 40, 0 + 1), {K: opNewPath, A: 0}, {K: opSetBuf, A: 0, B: 1, C: 2}, {K: opNewPath, A: 0},
			mb(0, 0), {K: opNewPath, A: 1}, {K: opAppend, A: 2, B: 0}, {K: opSetBuf, A: 0, B: 0, C: 41}}},
		{What: "sub-buffers of one array as arguments", SliceOps: []SliceOp{
			mb(4, 6, 1, 2, 3, 4), {K: opSubBuf, A: 0, B: 1, C: 3}, {K: opSubBuf, A: 0, B: 0, C: 1}, {K: opNewPath, A: 1},
			{K: opPrepend, A: 0, B: 2}, {K: opCopy, A: 0}, {K: opAppend, A: 1, B: 1}, {K: opPrepend, A: 0, B: 1},
			{K: opSetBuf, A: 0, B: 1, C: 77}, {K: opSetBuf, A: 1, B: 1, C: 78}}},
	}
}

func randomSliceProg(r *rand.Rand, next *int) SliceProg {
	var ops []SliceOp
	type b struct{ len, cap int }
	var bufs []b
	nPaths := 0
	fresh := func() int { *next++; return 1 + *next%900 }
	addBuf := func() {
		l := r.Intn(4)
		c := l + r.Intn(4)
		o := SliceOp{K: opMakeBuf, A: l, B: c}
		for i := 0; i < l; i++ {
			o.Elems = append(o.Elems, fresh())
		}
		ops = append(ops, o)
		bufs = append(bufs, b{l, c})
	}
	addBuf()
	addBuf()
	n := 6 + r.Intn(9)
	for i := 0; i < n; i++ {
		switch k := r.Intn(10); {
		case k == 0:
			addBuf()
		case k == 1:
			s := r.Intn(len(bufs))
			hi := r.Intn(bufs[s].len + 1)
			lo := r.Intn(hi + 1)
			ops = append(ops, SliceOp{K: opSubBuf, A: s, B: lo, C: hi})
			bufs = append(bufs, b{hi - lo, bufs[s].cap - lo})
		case k == 2 || k == 3:
			s := r.Intn(len(bufs))
			if bufs[s].len > 0 {
				ops = append(ops, SliceOp{K: opSetBuf, A: s, B: r.Intn(bufs[s].len), C: fresh()})
			}
		case k == 4 || nPaths == 0:
			ops = append(ops, SliceOp{K: opNewPath, A: r.Intn(len(bufs))})
			nPaths++
		case k == 5:
			ops = append(ops, SliceOp{K: opCopy, A: r.Intn(nPaths)})
			nPaths++
		case k <= 7:
			ops = append(ops, SliceOp{K: opAppend, A: r.Intn(nPaths), B: r.Intn(len(bufs))})
		default:
			ops = append(ops, SliceOp{K: opPrepend, A: r.Intn(nPaths), B: r.Intn(len(bufs))})
		}
	}
	return SliceProg{SliceOps: ops}
}

// SliceStream runs the programs, evaluates the oracle and writes the shards for SliceRun.v.
func SliceStream(cfg *common.Config, rep *common.Report, prop string, progs []SliceProg) error {
	type cs struct {
		prog         SliceProg
		paths, bufs [][]int
	}
	var cases []cs
	for _, pg := range progs {
		paths, bufs, wp, wb, ok := execSliceProg(pg.SliceOps)
		if !ok {
			rep.Count("slice-program-ill-formed")
			continue
		}
		rep.Evaluations++
		rep.Count("slice-program")
		b, _ := json.Marshal(pg.SliceOps)
		rep.Distinct("slice|" + string(b))
		if fmt.Sprint(paths) != fmt.Sprint(wp) || fmt.Sprint(bufs) != fmt.Sprint(wb) {
			rep.Fail(strings.ToLower(prop)+"-path-arg-aliasing", fmt.Sprintf("Path operations aliased a caller's buffer or another Path: paths %v (expected %v), buffers %v (expected %v) %s", paths, wp, bufs, wb, pg.What), pg)
		}
		cases = append(cases, cs{pg, paths, bufs})
	}
	const size = 200
	for k := 0; k*size < len(cases); k++ {
		lo, hi := k*size, (k+1)*size
		if hi > len(cases) {
			hi = len(cases)
		}
		f := coqgen.NewFile("From GSP Require Import Merklizer.SliceModel Merklizer.SliceRun.")
		name := filepath.Join(cfg.OutDir, fmt.Sprintf("cases_%s_slice_%03d.v", prop, k))
		var l []string
		for i := lo; i < hi; i++ {
			var ops []string
			for _, o := range cases[i].prog.SliceOps {
				ops = append(ops, o.coq())
			}
			l = append(l, fmt.Sprintf("mksl %d [%s] %s %s", i, strings.Join(ops, "; "), intsCoq(cases[i].paths), intsCoq(cases[i].bufs)))
			rep.Case(name, i, cases[i].prog)
		}
		f.Add("Definition cases_ : list slcase := " + coqgen.List(l) + ".")
		f.Add("Definition M := Eval vm_compute in slmismatches cases_.")
		f.Add("Print M.")
		if err := f.Write(name); err != nil {
			return err
		}
		rep.Shards = append(rep.Shards, name)
	}
	return nil
}

// ReadSliceReplay recognises a stored slice program.
func ReadSliceReplay(cfg *common.Config) (SliceProg, bool) {
	var rf struct {
		Input SliceProg `json:"input"`
	}
	if common.ReadJSON(cfg.Replay, &rf) != nil || len(rf.Input.SliceOps) == 0 {
		return SliceProg{}, false
	}
	return rf.Input, true
}

// SliceProgs: the fixed shapes plus n random programs.
func SliceProgs(r *rand.Rand, n int) []SliceProg {
	progs := fixedSliceProgs()
	next := 0
	for i := 0; i < n; i++ {
		progs = append(progs, randomSliceProg(r, &next))
	}
	return progs
}
