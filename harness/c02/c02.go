// Package c02: every leaf is provable and every absent path is provably absent
// (property C02).  The scenario machinery (one merklizer + a script of caller
// steps + everything the implementation returned, rendered as a Coq case for
// Merklizer/Run.v) is exported because C16 runs the same machinery under more
// hashers and with more kinds of derived objects.
package c02

import (
	"context"
	"encoding/json"
	"fmt"
	"math/big"
	"math/rand"
	"path/filepath"
	"sort"
	"strings"
	"time"

	"github.com/iden3/go-iden3-crypto/constants"
	"github.com/iden3/go-iden3-crypto/poseidon"
	"github.com/iden3/go-merkletree-sql/v2"
	"github.com/iden3/go-merkletree-sql/v2/db/memory"
	"github.com/iden3/go-schema-processor/v2/merklize"
	"github.com/piprate/json-gold/ld"

	"vharness/common"
	"vharness/coqgen"
	"vharness/ctxload"
	"vharness/docgen"
	"vharness/floats"
	"vharness/hashers"
	"vharness/mzrun"
)

func init() { common.Register("C02", Run) }

// ---------- hashers ----------

// Families: index 0 is the repository's own PoseidonHasher.
func Families() []merklize.Hasher {
	q := new(big.Int).Set(constants.Q)
	m61, _ := new(big.Int).SetString("2305843009213693951", 10)
	return []merklize.Hasher{
		merklize.PoseidonHasher{},
		hashers.Mod{P: q, SaltBytes: []byte("salt:"), Name: "salted-hashbytes"},
		hashers.Mod{P: q, SaltElem: big.NewInt(7), Name: "wrapped-hash"},
		hashers.Mod{P: q, SaltBytes: []byte("s2|"), SaltElem: big.NewInt(11), Name: "both"},
		hashers.Mod{P: big.NewInt(65521), Name: "mod65521"},
		hashers.Mod{P: big.NewInt(2147483647), Name: "mod2^31-1"},
		hashers.Mod{P: m61, Name: "mod2^61-1"},
		// Prime() hands out the stored modulus itself: in-place arithmetic on it corrupts the hasher
		hashers.Mod{P: big.NewInt(2147483647), Name: "mod2^31-1-shared", ShareP: true},
		hashers.Mod{P: new(big.Int).Set(constants.Q), SaltBytes: []byte("sp:"), Name: "salted-shared", ShareP: true},
	}
}

func FamilyName(i int) string {
	return []string{"poseidon", "salted-hashbytes", "wrapped-hash", "both", "mod65521", "mod2^31-1", "mod2^61-1", "mod2^31-1-shared", "salted-shared"}[i]
}

// Counting counts every call that reaches the wrapped hasher.
type Counting struct {
	Inner merklize.Hasher
	N     int
}

func (c *Counting) Hash(in []*big.Int) (*big.Int, error) { c.N++; return c.Inner.Hash(in) }
func (c *Counting) HashBytes(b []byte) (*big.Int, error)  { c.N++; return c.Inner.HashBytes(b) }
func (c *Counting) Prime() *big.Int                       { c.N++; return c.Inner.Prime() }

// ---------- a scenario ----------

type Input struct {
	Doc    json.RawMessage   `json:"doc"`
	Ctx    map[string]string `json:"ctx,omitempty"` // remote contexts the document refers to
	Hasher int               `json:"hasher"`
	Cfg    bool              `json:"cfg"` // WithHasher given
	Extra  bool              `json:"extra"`
	// DSLevel: the Coq case carries the normalised dataset instead of the entries
	// (value conversion under the hasher's prime is then evaluated by the model)
	DSLevel bool `json:"ds_level,omitempty"`
	// DocPaths: dotted document paths (compact terms / indices) handed to the resolvers
	DocPaths []string `json:"doc_paths,omitempty"`
	// CtxBytes / TypeTerm / FieldPaths: inputs of Options.PathFromContext(ctx, Type.field)
	// and Options.FieldPathFromContext(ctx, Type, field)
	CtxBytes   json.RawMessage `json:"ctx_bytes,omitempty"`
	TypeTerm   string          `json:"type_term,omitempty"`
	FieldPaths []string        `json:"field_paths,omitempty"`
	// ReplayPath: set only when replaying a failing input that names one path
	ReplayPath []any `json:"replay_path,omitempty"`
	ReplayPK   int   `json:"replay_pk,omitempty"`
	// RngSeed seeds the scenario's own random choices (non-member paths, ...), so that a
	// replay re-runs exactly the same steps
	RngSeed int64 `json:"rng_seed"`
	// SetHasher histories: DefaultFamily is installed with merklize.SetHasher BEFORE the merklizer is
	// built (0 = Poseidon); SetAfter-1 is installed AFTER it is built and before any query (0 = none)
	// MustResolve: every DocPath / FieldPath names a leaf of the document: the resolvers must succeed
	// and the resolved path must have an existence proof
	MustResolve bool `json:"must_resolve,omitempty"`
	// Restored: afterwards the merklizer is marshalled, restored with MerklizerFromBytes under the same
	// options, and the member / non-member oracle runs again on the restored merklizer
	Restored bool `json:"restored,omitempty"`
	// TwinFirst: the print-twins of the member paths are queried BEFORE the members (else after)
	TwinFirst bool `json:"twin_first,omitempty"`
	DefaultFamily int `json:"default_family,omitempty"`
	SetAfter      int `json:"set_after,omitempty"`
}

type Scen struct {
	In      Input
	Cfg     bool
	Rc      *hashers.Recorder // configured hasher (recorded)
	Rd      *hashers.Recorder // package default hasher while the scenario runs (recorded + counted)
	Rd2     *hashers.Recorder // package default hasher installed after the merklizer was built (or nil)
	DefCnt  *Counting
	Entries []mzrun.EntryView
	Mz      *merklize.Merklizer
	Out     mzrun.Outcome
	HL, HM  [][3]*big.Int
	DS      *ld.RDFDataset
	Order   []string
	Fr      *floats.Rec
	steps   []func(f *coqgen.File) string
	Members map[string]mzrun.EntryView
	NoCoq   string // reason why no Coq case is emitted ("" = emit)
	// shared-tree scenarios: this Scen is merklizer number Idx of Parent
	Parent  *Shared
	Idx     int
	Foreign map[string]bool // keys other parties put into the shared tree
	used    map[string]int
}

// Quota: in the quick tier the expensive per-path families run for the first n paths of a scenario only.
func (e *Env) Quota(s *Scen, name string, n int) bool {
	if e.Cfg.Thorough() {
		return true
	}
	if s.used == nil {
		s.used = map[string]int{}
	}
	s.used[name]++
	return s.used[name] <= n
}

type Env struct {
	Cfg    *common.Config
	Rep    *common.Report
	Loader *ctxload.Loader
	Prop   string // classifier prefix: "c02" / "c16"
}

func (s *Scen) hasher() merklize.Hasher {
	if s.Cfg {
		return s.Rc
	}
	return s.Rd
}

func (s *Scen) opts() merklize.Options { return s.Mz.Options() }

func bigOrNil(h *merkletree.Hash) *big.Int {
	if h == nil {
		return nil
	}
	return h.BigInt()
}

// treeTables recomputes every node hash of mt from the node's children.
func treeTables(mt *merkletree.MerkleTree) (hl, hm [][3]*big.Int, err error) {
	var werr error
	err = mt.Walk(context.Background(), nil, func(n *merkletree.Node) {
		switch n.Type {
		case merkletree.NodeTypeMiddle:
			l, r := n.ChildL.BigInt(), n.ChildR.BigInt()
			h, e := poseidon.Hash([]*big.Int{l, r})
			if e != nil {
				werr = e
				return
			}
			hm = append(hm, [3]*big.Int{l, r, h})
		case merkletree.NodeTypeLeaf:
			k, v := n.Entry[0].BigInt(), n.Entry[1].BigInt()
			h, e := poseidon.Hash([]*big.Int{k, v, big.NewInt(1)})
			if e != nil {
				werr = e
				return
			}
			hl = append(hl, [3]*big.Int{k, v, h})
		}
	})
	if err == nil {
		err = werr
	}
	return
}

func ValueAny(v merklize.Value) any {
	switch {
	case v.IsBigInt():
		x, _ := v.AsBigInt()
		return x
	case v.IsBool():
		x, _ := v.AsBool()
		return x
	case v.IsTime():
		x, _ := v.AsTime()
		return x
	case v.IsString():
		x, _ := v.AsString()
		return x
	case v.IsInt64():
		x, _ := v.AsInt64()
		return x
	}
	return fmt.Sprintf("<?%T>", v)
}

func sameValue(a, b any) bool {
	switch x := a.(type) {
	case *big.Int:
		y, ok := b.(*big.Int)
		return ok && x.Cmp(y) == 0
	case time.Time:
		y, ok := b.(time.Time)
		return ok && x.Equal(y) && x.Nanosecond() == y.Nanosecond()
	default:
		return a == b
	}
}

func rzCoq(z *big.Int, err error) string {
	if err != nil || z == nil {
		return "RZErr"
	}
	return "(RZ " + coqgen.Limbs(z) + ")"
}

func rkvCoq(k, v *big.Int, err error) string {
	if err != nil || k == nil || v == nil {
		return "RKVErr"
	}
	return fmt.Sprintf("(RKV %s %s)", coqgen.Limbs(k), coqgen.Limbs(v))
}

// RhCoq renders a recorder with the constructor function mkrh (no record syntax).
func RhCoq(r *hashers.Recorder, f *coqgen.File) string {
	s := r.Coq(f)
	s = strings.Replace(s, "{| rh_prime := ", "(mkrh (", 1)
	s = strings.Replace(s, ";\n rh_hash := ", ") (", 1)
	s = strings.Replace(s, ";\n rh_bytes := ", ") (", 1)
	if strings.HasSuffix(s, " |}") {
		s = s[:len(s)-3] + "))"
	}
	return s
}

// RfCoq renders the float tables with a constructor function (no record syntax).
func RfCoq(r *floats.Rec, f *coqgen.File) string {
	s := r.Coq(f)
	s = strings.Replace(s, "{| rf_parse := ", "mkrf (", 1)
	s = strings.Replace(s, ";\n rf_canon := ", ") (", 1)
	s = strings.Replace(s, ";\n rf_of_int := ", ") (", 1)
	if strings.HasSuffix(s, " |}") {
		s = s[:len(s)-3] + ")"
	}
	return s
}

// NewScen merklizes the document (twice: with the merklizer's own tree, whose
// merklizer is then used for every query, and with a tree the harness holds, from
// which the node hashes are recomputed) and reads the entries.
func (e *Env) NewScen(in Input) *Scen {
	fam := Families()
	s := &Scen{In: in, Cfg: in.Cfg, Members: map[string]mzrun.EntryView{}}
	s.Rc = hashers.NewRecorder(fam[in.Hasher])
	s.DefCnt = &Counting{Inner: fam[in.DefaultFamily]}
	s.Rd = hashers.NewRecorder(s.DefCnt)
	merklize.SetHasher(s.Rd)
	opts := []merklize.MerklizeOption{merklize.WithDocumentLoader(e.Loader)}
	if s.Cfg {
		opts = append(opts, merklize.WithHasher(s.Rc))
	}
	if in.Hasher%2 == 0 {
		// ignored because a document loader is given (documented); must not change anything
		opts = append(opts, merklize.WithIPFSGateway("http://ipfs.invalid"), merklize.WithIPFSClient(nil))
	}
	s.Mz, s.Out = mzrun.Merklize(in.Doc, opts...)
	e.Rep.Count("merklize:" + s.Out.Class)
	if s.Out.Class == "panic" || s.Out.Class == "hang" {
		e.Rep.Fail(e.Prop+"-"+s.Out.Class, "MerklizeJSONLD: "+s.Out.Msg, in)
		s.NoCoq = s.Out.Class
		return s
	}
	// entries as MerklizeJSONLD computes them
	ds, err := mzrun.Normalize(in.Doc, e.Loader, true)
	if err != nil {
		s.NoCoq = "normalize-error"
		if s.Out.Class == "ok" {
			e.Rep.Fail(e.Prop+"-harness", "harness normalisation failed where MerklizeJSONLD succeeded: "+err.Error(), in)
		}
		return s
	}
	s.DS, s.Order, s.Fr = ds, mzrun.GraphOrder(ds, e.Cfg.Rng.Shuffle), floats.New()
	for _, lex := range mzrun.DoubleLexicals(ds) {
		s.Fr.AddStr(lex)
	}
	var eo mzrun.Outcome
	s.Entries, eo = mzrun.Entries(ds, s.hasher())
	if eo.Class != "ok" {
		if !(in.DSLevel && eo.Class == "err" && s.Out.Class == "err") {
			s.NoCoq = "entries-" + eo.Class
		}
		if s.Out.Class == "ok" {
			e.Rep.Fail(e.Prop+"-harness", "EntriesFromRDFWithHasher failed where MerklizeJSONLD succeeded: "+eo.Msg, in)
		}
		return s
	}
	if s.Out.Class != "ok" {
		return s // model must fail too (duplicate keys, unhashable part, ...)
	}
	// second run on a tree we can walk
	mt, err := merkletree.NewMerkleTree(context.Background(), memory.NewMemoryStorage(), 40)
	if err != nil {
		s.NoCoq = "tree"
		return s
	}
	mz2, o2 := mzrun.Merklize(in.Doc, append(opts, merklize.WithMerkleTree(merklize.MerkleTreeSQLAdapter(mt)))...)
	if o2.Class != "ok" || mz2.Root().BigInt().Cmp(s.Mz.Root().BigInt()) != 0 {
		e.Rep.Fail(e.Prop+"-given-tree", "MerklizeJSONLD with a caller-provided empty tree differs from the run with its own tree: "+o2.Msg, in)
		s.NoCoq = "given-tree"
		return s
	}
	s.HL, s.HM, err = treeTables(mt)
	if err != nil {
		s.NoCoq = "tree-walk"
		e.Rep.Fail(e.Prop+"-harness", "tree walk failed: "+err.Error(), in)
		return s
	}
	// the merklizer's entry map holds exactly the listed entries, under their keys, with the configured hasher
	m := mzrun.MapEntries(s.Mz)
	if len(m) != len(s.Entries) {
		e.Rep.Fail(e.Prop+"-entry-map", fmt.Sprintf("%d entries listed, %d stored", len(s.Entries), len(m)), in)
	}
	for _, v := range s.Entries {
		k, err := v.Entry.KeyMtEntry()
		if err != nil {
			e.Rep.Fail(e.Prop+"-entry-map", "key of a stored entry does not hash", in)
			continue
		}
		st, ok := m[k.String()]
		if !ok || !sameValue(st.Value, v.Value) || st.Datatype != v.Datatype || docgen.PatternOf(st.Parts) != docgen.PatternOf(v.Parts) || fmt.Sprint(st.Parts) != fmt.Sprint(v.Parts) {
			e.Rep.Fail(e.Prop+"-entry-map", fmt.Sprintf("entry %v is not stored under its key", v.Parts), in)
		}
		s.Members[k.String()] = v
		vv := st.Entry.VerifView()
		if ok && s.Cfg && (vv.Hasher != merklize.Hasher(s.Rc) || vv.KeyHasher != merklize.Hasher(s.Rc)) {
			e.Rep.Fail(e.Prop+"-entry-hasher", fmt.Sprintf("stored entry %v does not carry the configured hasher (value hasher set=%v)", v.Parts, vv.HasHasher), in)
		}
	}
	// the application changes the package default AFTER the merklizer exists: the merklizer keeps the
	// hasher it was built with
	if in.SetAfter > 0 && !s.Cfg {
		s.Rd2 = hashers.NewRecorder(fam[in.SetAfter-1])
		merklize.SetHasher(s.Rd2)
	}
	if !s.Cfg && s.Mz.Hasher() != merklize.Hasher(s.Rd) {
		e.Rep.Fail(e.Prop+"-hasher-fixed-at-construction", "Merklizer.Hasher() is not the package default hasher that was in force when the merklizer was built", in)
	}
	return s
}

// primeCheck: encoding values must not change the configured hasher's modulus (a hasher may hand
// out its stored modulus from Prime()).  Several negative Go ints are encoded in sequence first.
func (e *Env) primeCheck(s *Scen) {
	if !s.Cfg || s.Mz == nil || s.Out.Class != "ok" {
		return
	}
	want := Families()[s.In.Hasher].Prime()
	for _, v := range []any{int64(-3), int64(-70000), -5, int64(-1)} {
		var h *big.Int
		var err error
		if iv, isInt := v.(int); isInt {
			p, _ := s.opts().NewPath("urn:prime-check")
			var ent merklize.RDFEntry
			if ent, err = s.opts().NewRDFEntry(p, iv); err == nil {
				h, err = ent.ValueMtEntry()
			}
			v = int64(iv)
		} else {
			var x merklize.Value
			if x, err = s.Mz.MkValue(v); err == nil {
				if i64, aerr := x.AsInt64(); aerr != nil || i64 != v.(int64) || !x.IsInt64() {
					e.Rep.Fail(e.Prop+"-value-int64", "MkValue(int64).AsInt64 does not return the value", s.In)
				}
				h, err = x.MtEntry()
			}
		}
		exp := new(big.Int).Add(want, big.NewInt(v.(int64)))
		if err != nil || h == nil || h.Cmp(exp) != 0 {
			e.Rep.Fail(e.Prop+"-negative-int-encoding", fmt.Sprintf("Go integer %v is not encoded as prime+v under the configured hasher (got %v, prime %v)", v, h, want), s.In)
			break
		}
	}
	if got := s.Rc.Inner.Prime(); got.Cmp(want) != 0 {
		e.Rep.Fail(e.Prop+"-hasher-prime-mutated", fmt.Sprintf("the configured hasher's modulus changed from %v to %v while values were encoded", want, got), s.In)
	}
}

// ResolvedLeaf: a path one of the resolvers produced for a document path.  With MustResolve the
// resolver must succeed and (leaf = true) the path must have an existence proof.
func (e *Env) ResolvedLeaf(s *Scen, pk int, api, arg string, p merklize.Path, err error, leaf bool) {
	in := map[string]any{"scenario": s.In, "api": api, "arg": arg}
	if err != nil {
		e.Rep.Count("resolver-error:" + api)
		if s.In.MustResolve {
			e.Rep.Fail(e.Prop+"-leaf-not-resolvable", fmt.Sprintf("%s(%q) fails for a leaf of the document: %v", api, arg, err), in)
		}
		return
	}
	if s.In.MustResolve {
		if k, kerr := p.MtEntry(); leaf && kerr == nil {
			if _, ok := s.Members[k.String()]; !ok {
				e.Rep.Fail(e.Prop+"-resolved-leaf-not-provable", fmt.Sprintf("%s(%q) = %v is not the path of any entry: the leaf has no existence proof", api, arg, p.Parts()), in)
			}
		}
	}
	if leaf {
		e.ProofPath(s, pk, p, "resolved-doc-path")
	} else {
		e.PathObjKeyStep(s, pk, p)
	}
}

// FixedInputs: hand-written documents whose every listed path is a leaf.  (1) terms that START with a
// digit (they are terms, not array indices) next to real array indices; (2) a node with two types whose
// earlier-sorting type's scoped context re-declares the other type's term with another scoped context
// (JSON-LD: every type-scoped context is looked up in the context active BEFORE any of them applied).
func FixedInputs(hasher int, cfg bool, rng *rand.Rand) []Input {
	x := "http://www.w3.org/2001/XMLSchema#"
	v := docgen.Vocab
	ctx1 := map[string]any{"@version": 1.1,
		"Acct": map[string]any{"@id": v + "Acct", "@context": map[string]any{
			"2faEnabled": map[string]any{"@id": v + "2faEnabled", "@type": x + "boolean"},
			"3dsVersion": map[string]any{"@id": v + "3dsVersion", "@type": x + "string"},
			"4codes":     map[string]any{"@id": v + "4codes", "@type": x + "integer"},
			"7seas": map[string]any{"@id": v + "7seas", "@context": map[string]any{
				"1stMate": map[string]any{"@id": v + "1stMate", "@type": x + "string"},
				"9lives":  map[string]any{"@id": v + "9lives", "@type": x + "integer"}}},
		}}}
	doc1 := map[string]any{"@context": ctx1, "@id": "urn:acct:1", "@type": "Acct",
		"2faEnabled": true, "3dsVersion": "2.1.0", "4codes": []any{11, 22, 33},
		"7seas": map[string]any{"1stMate": "Smee", "9lives": 9}}
	b1, _ := json.Marshal(doc1)
	c1, _ := json.Marshal(map[string]any{"@context": ctx1})
	in1 := Input{Doc: b1, Hasher: hasher, Cfg: cfg, RngSeed: rng.Int63(), MustResolve: true,
		DocPaths: []string{"2faEnabled", "3dsVersion", "4codes.0", "4codes.2", "7seas.1stMate", "7seas.9lives"},
		CtxBytes: c1, TypeTerm: "Acct", FieldPaths: []string{"2faEnabled", "3dsVersion", "7seas.1stMate", "7seas.9lives"}}
	doc2 := `{"@context": {"@version": 1.1,
  "title": {"@id": "` + v + `title", "@type": "` + x + `string"},
  "staff": {"@id": "` + v + `staff"},
  "Person": {"@id": "` + v + `Person", "@context": {"name": {"@id": "` + v + `personName", "@type": "` + x + `string"}}},
  "Employee": {"@id": "` + v + `Employee", "@context": {
      "badge": {"@id": "` + v + `badge", "@type": "` + x + `integer"},
      "Person": {"@id": "` + v + `ContactPerson", "@context": {"name": {"@id": "` + v + `contactName", "@type": "` + x + `string"}}}}}},
 "@id": "urn:org:acme", "title": "ACME",
 "staff": {"@id": "urn:org:alice", "@type": ["Employee", "Person"], "name": "Alice", "badge": 7}}`
	in2 := Input{Doc: []byte(doc2), Hasher: hasher, Cfg: cfg, RngSeed: rng.Int63(), MustResolve: true,
		DocPaths: []string{"title", "staff.name", "staff.badge"}}
	// (3) an array-valued property `line` next to the property `line1`, `line0`; nested a.b next to nothing
	ctx3 := map[string]any{"@version": 1.1,
		"line":  map[string]any{"@id": v + "line", "@type": x + "string"},
		"line0": map[string]any{"@id": v + "line0", "@type": x + "string"},
		"line1": map[string]any{"@id": v + "line1", "@type": x + "integer"},
		"box":   map[string]any{"@id": v + "box"},
		"lid":   map[string]any{"@id": v + "lid", "@type": x + "string"}}
	doc3 := map[string]any{"@context": ctx3, "@id": "urn:twins:1", "line": []any{"first", "second", "third"},
		"line0": "not the first", "line1": 111, "box": map[string]any{"lid": "closed"}}
	b3, _ := json.Marshal(doc3)
	in3 := Input{Doc: b3, Hasher: hasher, Cfg: cfg, RngSeed: rng.Int63(), MustResolve: true,
		DocPaths: []string{"line.0", "line.1", "line.2", "line0", "line1", "box.lid"}}
	in4 := in3
	in4.TwinFirst, in4.RngSeed = true, rng.Int63()
	// (4) a node whose types are NOT written in lexicographic order and whose type-scoped contexts define
	// the same term differently (JSON-LD applies them in lexicographic order: the later-sorting type wins)
	doc5 := `{"@context": {"@version": 1.1,
  "pet": {"@id": "` + v + `pet"},
  "Animal": {"@id": "` + v + `Animal", "@context": {"name": {"@id": "` + v + `animalName", "@type": "` + x + `string"},
                                                    "legs": {"@id": "` + v + `legs", "@type": "` + x + `integer"}}},
  "Pet": {"@id": "` + v + `Pet", "@context": {"name": {"@id": "` + v + `petName", "@type": "` + x + `string"}}}},
 "@id": "urn:zoo:1", "pet": {"@id": "urn:zoo:rex", "@type": ["Pet", "Animal"], "name": "Rex", "legs": 4}}`
	in5 := Input{Doc: []byte(doc5), Hasher: hasher, Cfg: cfg, RngSeed: rng.Int63(), MustResolve: true,
		DocPaths: []string{"pet.name", "pet.legs"}}
	if !cfg {
		in1.Hasher, in2.Hasher, in3.Hasher, in4.Hasher, in5.Hasher = 0, 0, 0, 0, 0
	}
	return []Input{in1, in2, in3, in4, in5}
}

// HVCase: one standalone merklize.HashValueWithHasher(h, datatype, value) call (integers only: no
// primitive hash is involved, the model needs the hasher's prime alone).
type HVCase struct {
	In  map[string]any
	H   *hashers.Recorder
	DT  string
	V   any // string | int64
	Out *big.Int
}

func (c *HVCase) ReplayInput() any { return c.In }
func (c *HVCase) Coq(f *coqgen.File, id int) string {
	v := ""
	switch x := c.V.(type) {
	case string:
		v = "RGStr " + f.Str(x)
	case int64:
		v = "RGInt " + coqgen.SNumI(x)
	}
	o := "VErr"
	if c.Out != nil {
		o = "(VOk " + coqgen.Limbs(c.Out) + ")"
	}
	return fmt.Sprintf("mkv %d %s (mkrf [] [] []) %s (%s) %s", id, RhCoq(c.H, f), f.Str(c.DT), v, o)
}

// PrintTwins: distinct paths that PRINT alike (fmt.Sprint of the parts): an integer index k vs the
// string part "k"; [.., P, k] vs [.., P+"k"]; [.., A, B] vs [.., A+B].
func PrintTwins(parts []any) [][]any {
	var out [][]any
	for i, x := range parts {
		if k, ok := x.(int); ok {
			t := clone(parts)
			t[i] = fmt.Sprint(k)
			out = append(out, t)
			if i > 0 {
				if prev, isStr := parts[i-1].(string); isStr {
					t2 := append(clone(parts[:i-1]), prev+fmt.Sprint(k))
					out = append(out, append(t2, parts[i+1:]...))
				}
			}
		}
		if a, ok := x.(string); ok && i+1 < len(parts) {
			if b, ok2 := parts[i+1].(string); ok2 {
				t := append(clone(parts[:i]), a+b)
				out = append(out, append(t, parts[i+2:]...))
			}
		}
	}
	return out
}

func (e *Env) twinQueries(s *Scen) {
	seen := map[string]bool{}
	for _, v := range s.Entries {
		for _, t := range PrintTwins(v.Parts) {
			k := fmt.Sprintf("%#v", t)
			if seen[k] {
				continue
			}
			seen[k] = true
			e.Proof(s, 0, t, "print-twin")
			e.EntryStep(s, 0, t)
		}
	}
}

// ArgSliceChecks: several Paths built from ONE argument slice that the caller keeps mutating
// (NewPath / Options.NewPath / Append on an empty path), all built first, queried afterwards:
// each Path must still denote what it was built from.
func (e *Env) ArgSliceChecks(s *Scen, member []any) {
	n := len(member)
	if n == 0 || !e.Quota(s, "argslice", 2) {
		return
	}
	type built struct {
		p    merklize.Path
		pk   int
		want []any
		fam  string
	}
	var bs []built
	for api := 0; api < 3; api++ {
		if api == 1 && (s.Cfg || s.Rd2 != nil) {
			continue // package-level NewPath pins the default hasher: only comparable when that is the merklizer's
		}
		parts := clone(member)
		mk := func(fam string) {
			var p merklize.Path
			var err error
			switch api {
			case 0:
				p, err = s.opts().NewPath(parts...)
			case 1:
				p, err = merklize.NewPath(parts...)
			default:
				p, err = s.opts().NewPath()
				if err == nil {
					err = p.Append(parts...)
				}
			}
			if err == nil {
				pk := 0
				if api == 1 {
					pk = 1
				}
				bs = append(bs, built{p, pk, clone(parts), fam})
			}
		}
		mk("arg-slice-member")
		// siblings / absent variants written into the SAME slice
		last := n - 1
		switch x := parts[last].(type) {
		case int:
			for _, idx := range []int{x + 1, x + 50, x + 51} {
				parts[last] = idx
				mk("arg-slice-variant")
			}
		case string:
			parts[last] = x + "-absent"
			mk("arg-slice-variant")
			parts[last] = 0
			mk("arg-slice-variant")
		}
		parts[0] = "urn:overwritten"
	}
	// Prepend: several children completed from ONE reused prefix buffer with spare capacity, and from an
	// argument slice mutated afterwards (also Prepend on an empty path); all built first, queried afterwards
	if n >= 2 {
		for cut := 1; cut < n && cut <= 2; cut++ {
			buf := make([]any, cut, cut+4)
			copy(buf, member[:cut])
			child, err1 := s.opts().NewPath(member[cut:]...)
			sib, err2 := s.opts().NewPath(append(clone(member[cut:]), "urn:arg-slice:sibling")...)
			if err1 != nil || err2 != nil {
				continue
			}
			_ = child.Prepend(buf...)
			_ = sib.Prepend(buf...) // with in-place append this overwrites the tail child got
			third, _ := s.opts().NewPath(7)
			_ = third.Prepend(buf...)
			bs = append(bs, built{child, 0, clone(member), "arg-slice-member"},
				built{sib, 0, append(clone(member), "urn:arg-slice:sibling"), "arg-slice-variant"},
				built{third, 0, append(clone(member[:cut]), 7), "arg-slice-variant"})
			buf[0] = "urn:overwritten"
		}
	}
	{
		xs := clone(member)
		empty, err := s.opts().NewPath()
		if err == nil {
			_ = empty.Prepend(xs...)
			bs = append(bs, built{empty, 0, clone(member), "arg-slice-member"})
			xs[0] = "urn:overwritten"
			if n > 1 {
				xs[n-1] = "urn:overwritten"
			}
		}
	}
	in := map[string]any{"scenario": s.In, "path": member, "pk": 0, "family": "arg-slice"}
	for _, b := range bs {
		e.Rep.Count("path-arg-slice")
		if fmt.Sprintf("%#v", b.p.Parts()) != fmt.Sprintf("%#v", b.want) {
			e.Rep.Fail(e.Prop+"-path-arg-aliasing", fmt.Sprintf("a Path built from %v reads %v after the caller reused its argument slice", b.want, b.p.Parts()), in)
			continue
		}
		e.ProofPath(s, b.pk, b.p, b.fam)
	}
}

// BuildChecks: a member path assembled with NewPath + Append + Prepend in every split, and copies of
// a Path value mutated independently, must have the same parts, key and proof as the path built in one go.
func (e *Env) BuildChecks(s *Scen, parts []any) {
	if !e.Quota(s, "build", 2) {
		return
	}
	n := len(parts)
	one, err := s.opts().NewPath(parts...)
	if err != nil || n == 0 {
		return
	}
	k1, kerr := one.MtEntry()
	if kerr != nil {
		return
	}
	in := map[string]any{"scenario": s.In, "path": parts, "pk": 0, "family": "built"}
	same := func(a []any) bool { return fmt.Sprintf("%#v", a) == fmt.Sprintf("%#v", parts) }
	probe := e.Cfg.Rng.Intn(n + 1)
	for i := 0; i <= n; i++ {
		for j := i; j <= n; j++ {
			p, _ := s.opts().NewPath(parts[i:j]...)
			aerr := p.Append(parts[j:]...)
			perr := p.Prepend(parts[:i]...)
			e.Rep.Count("path-built")
			k, err := p.MtEntry()
			switch {
			case aerr != nil || perr != nil:
				e.Rep.Fail(e.Prop+"-path-build-error", "Append / Prepend of string / int parts failed", in)
			case !same(p.Parts()):
				e.Rep.Fail(e.Prop+"-path-build-order", fmt.Sprintf("NewPath(%v).Append(%v).Prepend(%v) has parts %v", parts[i:j], parts[j:], parts[:i], p.Parts()), in)
			case err != nil || k.Cmp(k1) != 0:
				e.Rep.Fail(e.Prop+"-path-build-key", fmt.Sprintf("NewPath(%v).Append(%v).Prepend(%v) hashes differently from the path built in one go", parts[i:j], parts[j:], parts[:i]), in)
			}
			if i == probe && (j == i || j == n) {
				e.ProofPath(s, 0, p, "built")
			}
			// the same with the path USED between the steps (a stale memo of the key must not survive)
			m, _ := s.opts().NewPath(parts[i:j]...)
			_, _ = m.MtEntry()
			_ = m.Append(parts[j:]...)
			if j > i || j < n {
				_, _, _ = s.Mz.Proof(context.Background(), m)
			}
			_ = m.Prepend(parts[:i]...)
			mk, merr := m.MtEntry()
			if !same(m.Parts()) || merr != nil || mk.Cmp(k1) != 0 {
				e.Rep.Fail(e.Prop+"-path-build-key", fmt.Sprintf("NewPath(%v), MtEntry, Append(%v), Proof, Prepend(%v): parts %v / key differ from the path built in one go", parts[i:j], parts[j:], parts[:i], m.Parts()), in)
			} else if i == probe && i > 0 {
				e.ProofPath(s, 0, m, "built")
			}
			// copies mutated independently: the original must not change
			if j < n || i > 0 {
				q, _ := s.opts().NewPath(parts[i:j]...)
				_ = q.Append(parts[j:]...)
				before := fmt.Sprintf("%#v", q.Parts())
				c1, c2 := q, q
				_ = c1.Prepend("urn:alias:a", 7)
				_ = c2.Append("urn:alias:b")
				_ = c1.Prepend("urn:alias:c")
				if fmt.Sprintf("%#v", q.Parts()) != before {
					e.Rep.Fail(e.Prop+"-path-aliasing", fmt.Sprintf("mutating copies of a Path changed the original: %s -> %#v", before, q.Parts()), in)
				}
				if len(c1.Parts()) != len(q.Parts())+3 || fmt.Sprint(c1.Parts()[:3]) != fmt.Sprint([]any{"urn:alias:c", "urn:alias:a", 7}) {
					e.Rep.Fail(e.Prop+"-path-build-order", fmt.Sprintf("Prepend(a, 7) then Prepend(c) on a copy gives %v", c1.Parts()), in)
				}
			}
		}
	}
}

// MutationBuilt: the path assembled child first by single-part Prepends, or root first by single-part
// Appends, with MtEntry / Entry / JSONLDType calls between the steps; then the full Proof oracle.
func (e *Env) MutationBuilt(s *Scen, parts []any, family string) {
	n := len(parts)
	if n < 2 || !e.Quota(s, "mutation:"+family, 2) {
		return
	}
	one, err := s.opts().NewPath(parts...)
	if err != nil {
		return
	}
	k1, kerr := one.MtEntry()
	in := map[string]any{"scenario": s.In, "path": parts, "pk": 0, "family": family}
	pre, _ := s.opts().NewPath(parts[n-1])
	for i := n - 2; i >= 0; i-- {
		_, _ = pre.MtEntry()
		_, _ = s.Mz.Entry(pre)
		_ = pre.Prepend(parts[i])
	}
	app, _ := s.opts().NewPath(parts[0])
	for i := 1; i < n; i++ {
		_, _ = app.MtEntry()
		_, _ = s.Mz.JSONLDType(app)
		_ = app.Append(parts[i])
	}
	for wi, p := range []merklize.Path{pre, app} {
		e.Rep.Count("path-built-by-mutation")
		k, err := p.MtEntry()
		if fmt.Sprintf("%#v", p.Parts()) != fmt.Sprintf("%#v", parts) {
			e.Rep.Fail(e.Prop+"-path-build-order", fmt.Sprintf("path built by single-part %s has parts %v, expected %v", []string{"Prepends", "Appends"}[wi], p.Parts(), parts), in)
		} else if (err == nil) != (kerr == nil) || (err == nil && k.Cmp(k1) != 0) {
			e.Rep.Fail(e.Prop+"-path-build-key", fmt.Sprintf("path %v built by single-part %s with lookups between the steps hashes differently from the path built in one go", parts, []string{"Prepends", "Appends"}[wi]), in)
		} else {
			e.ProofPath(s, 0, p, family)
		}
	}
}

// LocalRng makes the scenario's random choices depend only on its stored seed.
func (e *Env) LocalRng(seed int64) func() {
	old := e.Cfg.Rng
	e.Cfg.Rng = rand.New(rand.NewSource(seed))
	return func() { e.Cfg.Rng = old }
}

// Close runs the path named by a replayed failing input (if any), restores the package
// default hasher and evaluates the counting oracle.
func (e *Env) Close(s *Scen) {
	e.primeCheck(s)
	if s.In.ReplayPath != nil && s.Out.Class == "ok" && s.NoCoq == "" {
		e.Proof(s, s.In.ReplayPK, s.In.ReplayPath, "replay")
		e.EntryStep(s, s.In.ReplayPK, s.In.ReplayPath)
	}
	merklize.SetHasher(merklize.PoseidonHasher{})
	if s.Cfg && s.DefCnt.N != 0 {
		e.Rep.Fail(e.Prop+"-default-hasher-called", fmt.Sprintf("the package default hasher was called %d time(s) although a hasher is configured", s.DefCnt.N), s.In)
	}
}

func (s *Scen) path(pk int, parts []any) (merklize.Path, error) {
	if pk == 0 {
		return s.opts().NewPath(parts...)
	}
	return merklize.NewPath(parts...)
}

func (s *Scen) add(fn func(f *coqgen.File) string) {
	if s.Parent != nil {
		idx := s.Idx
		s.Parent.steps = append(s.Parent.steps, func(f *coqgen.File) string {
			return fmt.Sprintf("RGOn %d (%s)", idx, fn(f))
		})
		return
	}
	s.steps = append(s.steps, fn)
}

func clone(parts []any) []any { return append([]any{}, parts...) }

// Proof step: runs Merklizer.Proof and the C02 oracles; member = the path's key is a stored key.
func (e *Env) Proof(s *Scen, pk int, parts []any, family string) {
	p, err := s.path(pk, clone(parts))
	if err != nil {
		return
	}
	e.ProofPath(s, pk, p, family)
}

// ProofPath: the same for a Path object produced by any API (pk names it, see PathObjKeyStep).
func (e *Env) ProofPath(s *Scen, pk int, p merklize.Path, family string) {
	parts := clone(p.Parts())
	for _, x := range parts {
		if i, ok := x.(int); ok && i < 0 {
			return
		}
	}
	e.Rep.Evaluations++
	e.Rep.Count("proof:" + family)
	key, kerr := p.MtEntry()
	proof, val, perr := s.Mz.Proof(context.Background(), p)
	var scen any = s.In
	if s.Parent != nil {
		scen = s.Parent.In
	}
	in := map[string]any{"scenario": scen, "path": parts, "pk": pk, "family": family}
	if kerr != nil {
		if perr == nil {
			e.Rep.Fail(e.Prop+"-unhashable-path", "Proof succeeded for a path whose key cannot be computed", in)
		}
		s.add(func(f *coqgen.File) string {
			return fmt.Sprintf("RProof %d %s RPErr", pk, mzrun.PartsCoq(f, parts))
		})
		return
	}
	mem, isMember := s.Members[key.String()]
	// a path of a stored entry built through the merklizer's own options (or, while the package
	// default is still the hasher the merklizer was built with, by the package constructor) must
	// hash to the entry's key
	if (family == "member" || family == "shared-member" || family == "built" || family == "arg-slice-member" || family == "restored-member") &&
		!isMember && (pk != 1 || (s.Rd2 == nil && !s.Cfg)) {
		e.Rep.Fail(e.Prop+"-member-key", fmt.Sprintf("path %v of a stored entry (api %d) does not hash to the key the entry is stored under", parts, pk), in)
	}
	if perr != nil && !isMember && s.Foreign[key.String()] {
		// the shared tree holds this key for somebody else: Proof reports its assertion error
		e.Rep.Count("foreign-key-error")
		s.add(func(f *coqgen.File) string {
			return fmt.Sprintf("RProof %d %s RPErr", pk, mzrun.PartsCoq(f, parts))
		})
		return
	}
	if perr != nil {
		e.Rep.Fail(e.Prop+"-proof-error", fmt.Sprintf("Proof failed for a hashable path (member=%v): %v", isMember, perr), in)
		s.add(func(f *coqgen.File) string {
			return fmt.Sprintf("RProof %d %s RPErr", pk, mzrun.PartsCoq(f, parts))
		})
		return
	}
	var vh *big.Int
	var vherr error
	var vany any
	hasVal := val != nil
	if hasVal {
		vh, vherr = val.MtEntry()
		vany = ValueAny(val)
	}
	vfv := big.NewInt(0)
	if hasVal && vherr == nil {
		vfv = vh
	}
	verified := merkletree.VerifyProof(s.Mz.Root(), proof, key, vfv)
	// ---- property oracles (implementation alone) ----
	if isMember {
		e.Rep.Count("member")
		switch {
		case !proof.Existence:
			e.Rep.Fail(e.Prop+"-member-nonexistence", fmt.Sprintf("entry %v got a non-existence proof", parts), in)
		case !hasVal:
			e.Rep.Fail(e.Prop+"-member-novalue", fmt.Sprintf("entry %v: existence proof without a Value", parts), in)
		case vherr != nil:
			e.Rep.Fail(e.Prop+"-member-valuehash", fmt.Sprintf("entry %v: returned Value does not hash: %v", parts, vherr), in)
		case !sameValue(vany, mem.Value):
			e.Rep.Fail(e.Prop+"-member-wrong-value", fmt.Sprintf("entry %v: Value %v is not the entry's value %v", parts, docgen.RenderGoValue(vany), docgen.RenderGoValue(mem.Value)), in)
		case !verified:
			e.Rep.Fail(e.Prop+"-member-verify", fmt.Sprintf("entry %v: proof does not verify against Root() for (key, hash of the returned Value)", parts), in)
		}
	} else {
		e.Rep.Count("nonmember")
		switch {
		case proof.Existence:
			e.Rep.Fail(e.Prop+"-nonmember-existence", fmt.Sprintf("path %v is not an entry but got an existence proof", parts), in)
		case hasVal:
			e.Rep.Fail(e.Prop+"-nonmember-value", fmt.Sprintf("path %v: non-existence proof came with a Value", parts), in)
		case !verified:
			e.Rep.Fail(e.Prop+"-nonmember-verify", fmt.Sprintf("path %v: non-existence proof does not verify against Root()", parts), in)
		}
	}
	if hasVal && !proof.Existence {
		e.Rep.Fail(e.Prop+"-value-with-nonexistence", fmt.Sprintf("path %v: Value returned with a non-existence proof", parts), in)
	}
	// Entry / JSONLDType succeed exactly for paths with an existence proof
	_, eerr := s.Mz.Entry(p)
	_, terr := s.Mz.JSONLDType(p)
	if (eerr == nil) != proof.Existence || (terr == nil) != proof.Existence {
		e.Rep.Fail(e.Prop+"-entry-iff", fmt.Sprintf("path %v: existence=%v but Entry ok=%v, JSONLDType ok=%v", parts, proof.Existence, eerr == nil, terr == nil), in)
	}
	// ---- observation for the model ----
	var sibs []*big.Int
	for _, h := range proof.AllSiblings() {
		sibs = append(sibs, h.BigInt())
	}
	var auxK, auxV *big.Int
	if proof.NodeAux != nil {
		auxK, auxV = bigOrNil(proof.NodeAux.Key), bigOrNil(proof.NodeAux.Value)
	}
	ex := proof.Existence
	s.add(func(f *coqgen.File) string {
		var ss []string
		for _, x := range sibs {
			ss = append(ss, coqgen.Limbs(x))
		}
		aux := "None"
		if auxK != nil && auxV != nil {
			aux = fmt.Sprintf("(Some (%s, %s))", coqgen.Limbs(auxK), coqgen.Limbs(auxV))
		}
		v := "None"
		if hasVal {
			v = fmt.Sprintf("(Some (%s, %s))", mzrun.ValueCoq(f, vany), rzCoq(vh, vherr))
		}
		return fmt.Sprintf("RProof %d %s (RPOk %s [%s] %s %s %s %s)", pk, mzrun.PartsCoq(f, parts),
			coqgen.Bool(ex), strings.Join(ss, ";"), aux, v, coqgen.Limbs(key), coqgen.Bool(verified))
	})
}

// EntryStep observes Merklizer.Entry + KeyValueMtEntries and JSONLDType.
func (e *Env) EntryStep(s *Scen, pk int, parts []any) {
	parts = clone(parts)
	e.Rep.Evaluations++
	p, err := s.path(pk, parts)
	if err != nil {
		return
	}
	ent, eerr := s.Mz.Entry(p)
	tp, terr := s.Mz.JSONLDType(p)
	var k, v *big.Int
	var kverr error
	var view mzrun.EntryView
	if eerr == nil {
		k, v, kverr = ent.KeyValueMtEntries()
		view = mzrun.View(ent)
	}
	s.add(func(f *coqgen.File) string {
		if eerr != nil {
			return fmt.Sprintf("REntry %d %s None", pk, mzrun.PartsCoq(f, parts))
		}
		return fmt.Sprintf("REntry %d %s (Some (%s, %s, %s))", pk, mzrun.PartsCoq(f, parts),
			mzrun.ValueCoq(f, view.Value), f.Str(view.Datatype), rkvCoq(k, v, kverr))
	})
	s.add(func(f *coqgen.File) string {
		if terr != nil {
			return fmt.Sprintf("RType %d %s None", pk, mzrun.PartsCoq(f, parts))
		}
		return fmt.Sprintf("RType %d %s (Some %s)", pk, mzrun.PartsCoq(f, parts), f.Str(tp))
	})
}

// NewEntryStep: path and entry created through the merklizer's Options.
func (e *Env) NewEntryStep(s *Scen, parts []any, v any) {
	parts = clone(parts)
	e.Rep.Evaluations++
	o := s.opts()
	p, err := o.NewPath(parts...)
	if err != nil {
		return
	}
	ent, nerr := o.NewRDFEntry(p, v)
	var k, val *big.Int
	var kverr error
	if nerr == nil {
		k, val, kverr = ent.KeyValueMtEntries()
	}
	s.add(func(f *coqgen.File) string {
		if nerr != nil {
			return fmt.Sprintf("RNewEntry %s (%s) None", mzrun.PartsCoq(f, parts), mzrun.ValueCoq(f, v))
		}
		return fmt.Sprintf("RNewEntry %s (%s) (Some %s)", mzrun.PartsCoq(f, parts), mzrun.ValueCoq(f, v), rkvCoq(k, val, kverr))
	})
}

// ValueStep: mz.MkValue(v).MtEntry().
func (e *Env) ValueStep(s *Scen, v any) {
	e.Rep.Evaluations++
	x, err := s.Mz.MkValue(v)
	if err != nil {
		return
	}
	h, herr := x.MtEntry()
	s.add(func(f *coqgen.File) string {
		return fmt.Sprintf("RValue (%s) %s", mzrun.ValueCoq(f, v), rzCoq(h, herr))
	})
}

func (e *Env) RootStep(s *Scen) {
	r := s.Mz.Root().BigInt()
	s.add(func(f *coqgen.File) string { return "RRoot " + coqgen.Limbs(r) })
}

// PathObjKeyStep observes the key of a Path object produced by one of the resolvers
// (ResolveDocPath, Options.NewPathFromDocument, ...): the model's claim is that such a
// Path stores the same hasher as Options.NewPath.
// pk names the API that produced the path (Merklizer/Run.v pkind_of): 0 Options.NewPath,
// 2 PathFromContext, 3 FieldPathFromContext, 4 NewPathFromDocument, 5 ResolveDocPath.
func (e *Env) PathObjKeyStep(s *Scen, pk int, p merklize.Path) {
	parts := clone(p.Parts())
	for _, x := range parts {
		if i, ok := x.(int); ok && i < 0 {
			return
		}
	}
	k, kerr := p.MtEntry()
	s.add(func(f *coqgen.File) string {
		return fmt.Sprintf("RPathKey %d %s %s", pk, mzrun.PartsCoq(f, parts), rzCoq(k, kerr))
	})
}

func (e *Env) PathKeyStep(s *Scen, pk int, parts []any) {
	parts = clone(parts)
	p, err := s.path(pk, parts)
	if err != nil {
		return
	}
	k, kerr := p.MtEntry()
	s.add(func(f *coqgen.File) string {
		return fmt.Sprintf("RPathKey %d %s %s", pk, mzrun.PartsCoq(f, parts), rzCoq(k, kerr))
	})
}

// ---------- non-member path families ----------

func vocabIRI(r interface{ Intn(int) int }) string {
	return fmt.Sprintf("%sabsent%d", docgen.Vocab, r.Intn(1000))
}

// NonMembers returns candidate paths of the five families (the caller classifies by key).
func (e *Env) NonMembers(s *Scen, perFamily int) map[string][][]any {
	r := e.Cfg.Rng
	out := map[string][][]any{}
	var mem [][]any
	for _, v := range s.Entries {
		mem = append(mem, v.Parts)
	}
	if len(mem) == 0 {
		out["unrelated"] = [][]any{{vocabIRI(r)}}
		return out
	}
	pick := func() []any { return mem[r.Intn(len(mem))] }
	for i := 0; i < perFamily; i++ {
		// proper prefixes
		m := pick()
		if len(m) > 1 {
			out["prefix"] = append(out["prefix"], clone(m[:1+r.Intn(len(m)-1)]))
		}
		// one-part extensions
		m = pick()
		if r.Intn(2) == 0 {
			out["extension"] = append(out["extension"], append(clone(m), vocabIRI(r)))
		} else {
			out["extension"] = append(out["extension"], append(clone(m), r.Intn(2)))
		}
		// one IRI changed
		m = clone(pick())
		var strPos []int
		for j, p := range m {
			if _, ok := p.(string); ok {
				strPos = append(strPos, j)
			}
		}
		if len(strPos) > 0 {
			j := strPos[r.Intn(len(strPos))]
			if r.Intn(2) == 0 {
				m[j] = m[j].(string) + "x"
			} else {
				m[j] = vocabIRI(r)
			}
			out["iri-changed"] = append(out["iri-changed"], m)
		}
		// unrelated
		switch r.Intn(4) {
		case 0:
			out["unrelated"] = append(out["unrelated"], []any{vocabIRI(r)})
		case 1:
			out["unrelated"] = append(out["unrelated"], []any{vocabIRI(r), r.Intn(3), vocabIRI(r)})
		case 2:
			out["unrelated"] = append(out["unrelated"], []any{r.Intn(5)})
		default:
			out["unrelated"] = append(out["unrelated"], []any{"urn:unrelated", vocabIRI(r)})
		}
	}
	// sibling indices n and n+1: for every array (same prefix, integer at the same position)
	type grp struct {
		prefix []any
		tails  [][]any
		max    int
	}
	groups := map[string]*grp{}
	for _, m := range mem {
		for j, p := range m {
			if idx, ok := p.(int); ok {
				k := fmt.Sprint(m[:j])
				g := groups[k]
				if g == nil {
					g = &grp{prefix: clone(m[:j]), max: -1}
					groups[k] = g
				}
				if idx > g.max {
					g.max = idx
				}
				g.tails = append(g.tails, clone(m[j+1:]))
			}
		}
	}
	var gk []string
	for k := range groups {
		gk = append(gk, k)
	}
	sort.Strings(gk)
	for _, k := range gk {
		g := groups[k]
		n := g.max + 1
		tail := g.tails[r.Intn(len(g.tails))]
		for _, idx := range []int{n, n + 1} {
			out["sibling-index"] = append(out["sibling-index"], append(append(clone(g.prefix), idx), tail...))
		}
	}
	// single-valued member read as an array element
	m := pick()
	out["sibling-index"] = append(out["sibling-index"], append(clone(m), 0), append(clone(m), 1))
	return out
}

// ---------- rendering ----------

func tabCoq(t [][3]*big.Int) string {
	var l []string
	for _, e := range t {
		l = append(l, fmt.Sprintf("(%s,%s,%s)", coqgen.Limbs(e[0]), coqgen.Limbs(e[1]), coqgen.Limbs(e[2])))
	}
	return "[" + strings.Join(l, ";") + "]"
}

func (s *Scen) Coq(f *coqgen.File, id int) string {
	var es []string
	for _, v := range s.Entries {
		es = append(es, mzrun.EntryCoq(f, v))
	}
	mo := "RMErr"
	var steps []string
	if s.Out.Class == "ok" {
		mo = "(RMOk " + coqgen.Limbs(s.Mz.Root().BigInt()) + ")"
		for _, fn := range s.steps {
			steps = append(steps, fn(f))
		}
	}
	if s.Rd2 != nil {
		return fmt.Sprintf("mkh %d\n %s\n %s\n %s\n %s\n [%s]\n %s\n [%s]", id,
			RhCoq(s.Rd, f), RhCoq(s.Rd2, f), tabCoq(s.HL), tabCoq(s.HM),
			strings.Join(es, ";\n  "), mo, strings.Join(steps, ";\n  "))
	}
	if s.In.DSLevel {
		return fmt.Sprintf("mkd %d %s\n %s\n %s\n %s\n %s\n (%s)\n %s\n %s\n [%s]", id, coqgen.Bool(s.Cfg),
			RhCoq(s.Rc, f), RhCoq(s.Rd, f), tabCoq(s.HL), tabCoq(s.HM), RfCoq(s.Fr, f),
			mzrun.DatasetCoq(f, s.DS, s.Order), mo, strings.Join(steps, ";\n  "))
	}
	return fmt.Sprintf("mkm %d %s\n %s\n %s\n %s\n %s\n [%s]\n %s\n [%s]", id, coqgen.Bool(s.Cfg),
		RhCoq(s.Rc, f), RhCoq(s.Rd, f), tabCoq(s.HL), tabCoq(s.HM),
		strings.Join(es, ";\n  "), mo, strings.Join(steps, ";\n  "))
}

// CoqCase is anything that renders as one `mcase` term.
type CoqCase interface {
	Coq(f *coqgen.File, id int) string
	ReplayInput() any
}

func (s *Scen) ReplayInput() any { return s.In }

type Shards struct {
	Env   *Env
	Scens []CoqCase
	Size  int
}

func (sh *Shards) Add(s *Scen) {
	if s.NoCoq != "" {
		sh.Env.Rep.Count("no-coq-case:" + s.NoCoq)
		return
	}
	sh.Scens = append(sh.Scens, s)
}

func (sh *Shards) AddCase(c CoqCase) { sh.Scens = append(sh.Scens, c) }

func (sh *Shards) Write(prop string) error {
	n := len(sh.Scens)
	size := sh.Size
	if size == 0 {
		size = 12
	}
	for k := 0; k*size < n; k++ {
		lo, hi := k*size, (k+1)*size
		if hi > n {
			hi = n
		}
		f := coqgen.NewFile("From GSP Require Import Value.Time Value.Model Value.Run RDF.Model RDF.Run SMT.Model Merklizer.Model Merklizer.Script Merklizer.Run.")
		name := filepath.Join(sh.Env.Cfg.OutDir, fmt.Sprintf("cases_%s_%03d.v", prop, k))
		var cs []string
		for i := lo; i < hi; i++ {
			cs = append(cs, sh.Scens[i].Coq(f, i))
			sh.Env.Rep.Case(name, i, sh.Scens[i].ReplayInput())
		}
		f.Add("Definition cases_ : list mcase := " + coqgen.List(cs) + ".")
		f.Add("Definition M := Eval vm_compute in mmismatches " + coqgen.Limbs(constants.Q) + " cases_.")
		f.Add("Print M.")
		if err := f.Write(name); err != nil {
			return err
		}
		sh.Env.Rep.Shards = append(sh.Env.Rep.Shards, name)
	}
	return nil
}

// ---------- a caller-provided tree shared by several merklizers ----------

type SharedInput struct {
	Shared  bool              `json:"shared"`
	Docs    []json.RawMessage `json:"docs"`
	Ctx     map[string]string `json:"ctx,omitempty"`
	Hasher  int               `json:"hasher"`
	Cfg     bool              `json:"cfg"`
	RngSeed int64             `json:"rng_seed"`
}

type Shared struct {
	In     SharedInput
	Rc, Rd *hashers.Recorder
	DefCnt *Counting
	MT     *merkletree.MerkleTree
	Adp    merklize.MerkleTree
	Mzs    []*Scen
	HL, HM [][3]*big.Int
	seen   map[string]bool
	steps  []func(f *coqgen.File) string
	InTree map[string]bool // every key the shared tree holds
}

func (sh *Shared) ReplayInput() any { return sh.In }

func (sh *Shared) Coq(f *coqgen.File, id int) string {
	var steps []string
	for _, fn := range sh.steps {
		steps = append(steps, fn(f))
	}
	return fmt.Sprintf("mks %d\n %s\n %s\n %s\n %s\n [%s]", id, RhCoq(sh.Rc, f), RhCoq(sh.Rd, f),
		tabCoq(sh.HL), tabCoq(sh.HM), strings.Join(steps, ";\n  "))
}

func (e *Env) NewShared(in SharedInput) (*Shared, error) {
	sh := &Shared{In: in, seen: map[string]bool{}, InTree: map[string]bool{}}
	sh.Rc = hashers.NewRecorder(Families()[in.Hasher])
	sh.DefCnt = &Counting{Inner: merklize.PoseidonHasher{}}
	sh.Rd = hashers.NewRecorder(sh.DefCnt)
	merklize.SetHasher(sh.Rd)
	mt, err := merkletree.NewMerkleTree(context.Background(), memory.NewMemoryStorage(), 40)
	if err != nil {
		return nil, err
	}
	sh.MT, sh.Adp = mt, merklize.MerkleTreeSQLAdapter(mt)
	return sh, nil
}

func (e *Env) CloseShared(sh *Shared) {
	merklize.SetHasher(merklize.PoseidonHasher{})
	if sh.In.Cfg && sh.DefCnt.N != 0 {
		e.Rep.Fail(e.Prop+"-default-hasher-called", fmt.Sprintf("the package default hasher was called %d time(s) although a hasher is configured", sh.DefCnt.N), sh.In)
	}
}

// snapshot records the node hashes of the tree as it is now (earlier roots stay in the tables).
func (sh *Shared) snapshot() error {
	hl, hm, err := treeTables(sh.MT)
	if err != nil {
		return err
	}
	for _, x := range hl {
		k := "l" + x[0].String() + "," + x[1].String()
		if !sh.seen[k] {
			sh.seen[k] = true
			sh.HL = append(sh.HL, x)
		}
	}
	for _, x := range hm {
		k := "m" + x[0].String() + "," + x[1].String()
		if !sh.seen[k] {
			sh.seen[k] = true
			sh.HM = append(sh.HM, x)
		}
	}
	return nil
}

func (sh *Shared) hasher() merklize.Hasher {
	if sh.In.Cfg {
		return sh.Rc
	}
	return sh.Rd
}

func (sh *Shared) refreshForeign() {
	for _, s := range sh.Mzs {
		s.Foreign = map[string]bool{}
		for k := range sh.InTree {
			if _, own := s.Members[k]; !own {
				s.Foreign[k] = true
			}
		}
	}
}

// MerklizeInto merklizes doc into the shared tree; returns the new merklizer's Scen or nil.
func (e *Env) MerklizeInto(sh *Shared, doc []byte) *Scen {
	ds, err := mzrun.Normalize(doc, e.Loader, true)
	if err != nil {
		e.Rep.Count("shared:normalize-error")
		return nil
	}
	views, eo := mzrun.Entries(ds, sh.hasher())
	if eo.Class != "ok" {
		e.Rep.Count("shared:entries-" + eo.Class)
		return nil
	}
	opts := []merklize.MerklizeOption{merklize.WithDocumentLoader(e.Loader), merklize.WithMerkleTree(sh.Adp)}
	if sh.In.Cfg {
		opts = append(opts, merklize.WithHasher(sh.Rc))
	}
	mz, out := mzrun.Merklize(doc, opts...)
	e.Rep.Count("shared:merklize-" + out.Class)
	if out.Class == "panic" || out.Class == "hang" {
		e.Rep.Fail(e.Prop+"-"+out.Class, "MerklizeJSONLD on a shared tree: "+out.Msg, sh.In)
	}
	ok := out.Class == "ok"
	cfg := sh.In.Cfg
	sh.steps = append(sh.steps, func(f *coqgen.File) string {
		var es []string
		for _, v := range views {
			es = append(es, mzrun.EntryCoq(f, v))
		}
		return fmt.Sprintf("RGMerk %s [%s] %s", coqgen.Bool(cfg), strings.Join(es, ";\n    "), coqgen.Bool(ok))
	})
	_ = sh.snapshot()
	// which keys did the tree take (also on a failing run: the leaves added before the failure stay)
	for _, v := range views {
		k, err := v.Entry.KeyMtEntry()
		if err != nil {
			continue
		}
		if p, _, err := sh.MT.GenerateProof(context.Background(), k, nil); err == nil && p.Existence {
			sh.InTree[k.String()] = true
		}
	}
	var s *Scen
	if ok {
		s = &Scen{In: Input{Doc: doc, Hasher: sh.In.Hasher, Cfg: cfg}, Cfg: cfg, Rc: sh.Rc, Rd: sh.Rd, DefCnt: sh.DefCnt,
			Entries: views, Mz: mz, Out: out, Members: map[string]mzrun.EntryView{}, Parent: sh, Idx: len(sh.Mzs)}
		for _, v := range views {
			if k, err := v.Entry.KeyMtEntry(); err == nil {
				s.Members[k.String()] = v
			}
		}
		sh.Mzs = append(sh.Mzs, s)
	}
	sh.refreshForeign()
	return s
}

// DirectAdd: somebody else adds a leaf to the shared tree.
func (e *Env) DirectAdd(sh *Shared, k, v *big.Int) {
	err := sh.MT.Add(context.Background(), k, v)
	ok := err == nil
	sh.steps = append(sh.steps, func(f *coqgen.File) string {
		return fmt.Sprintf("RGAdd %s %s %s", coqgen.SNum(k), coqgen.SNum(v), coqgen.Bool(ok))
	})
	if ok {
		sh.InTree[k.String()] = true
	}
	_ = sh.snapshot()
	sh.refreshForeign()
}

// probe: Root() and proofs of merklizer s (members, non-members, one foreign path) right now.
func (e *Env) probe(sh *Shared, s *Scen, all bool) {
	e.RootStep(s)
	r := e.Cfg.Rng
	for i, v := range s.Entries {
		if all || i < 2 {
			e.Proof(s, 0, v.Parts, "shared-member")
		}
	}
	nm := e.NonMembers(s, 1)
	var fams []string
	for k := range nm {
		fams = append(fams, k)
	}
	sort.Strings(fams)
	for _, fam := range fams {
		for _, parts := range nm[fam] {
			if all || r.Intn(3) == 0 {
				e.Proof(s, 0, parts, "shared-"+fam)
			}
		}
	}
	// a path of another merklizer on the same tree
	for _, o := range sh.Mzs {
		if o != s && len(o.Entries) > 0 {
			e.Proof(s, 0, o.Entries[r.Intn(len(o.Entries))].Parts, "shared-foreign")
			break
		}
	}
	e.RootStep(s)
}

// DisjointDoc builds a small untyped document whose property IRIs all carry `tag`, so that its
// paths are disjoint from those of every other document.
func DisjointDoc(r *rand.Rand, tag string) []byte {
	x := "http://www.w3.org/2001/XMLSchema#"
	ctx := map[string]any{}
	doc := map[string]any{"@id": "urn:shared:" + tag}
	n := 2 + r.Intn(4)
	for i := 0; i < n; i++ {
		term := fmt.Sprintf("%s_p%d", tag, i)
		iri := docgen.Vocab + term
		switch r.Intn(6) {
		case 0:
			ctx[term] = map[string]any{"@id": iri, "@type": x + "string"}
			doc[term] = fmt.Sprintf("text %d", r.Intn(100))
		case 1:
			ctx[term] = map[string]any{"@id": iri, "@type": x + "integer"}
			doc[term] = fmt.Sprint(r.Intn(2000) - 1000)
		case 2:
			ctx[term] = map[string]any{"@id": iri, "@type": x + "boolean"}
			doc[term] = r.Intn(2) == 0
		case 3:
			ctx[term] = map[string]any{"@id": iri, "@type": x + "dateTime"}
			doc[term] = time.Unix(int64(1500000000+r.Intn(200000000)), 0).UTC().Format(time.RFC3339)
		case 4:
			ctx[term] = map[string]any{"@id": iri, "@type": x + "string"}
			doc[term] = []any{"a" + fmt.Sprint(r.Intn(9)), "b" + fmt.Sprint(r.Intn(9)), "c"}
		default:
			inner := fmt.Sprintf("%s_q%d", tag, i)
			ctx[term] = map[string]any{"@id": iri}
			ctx[inner] = map[string]any{"@id": docgen.Vocab + inner, "@type": x + "string"}
			doc[term] = map[string]any{inner: "nested"}
		}
	}
	doc["@context"] = ctx
	b, _ := json.Marshal(doc)
	return b
}

// SharedScenario: A merklized, Root() read, the tree grows (direct Add, document B, maybe C, A again),
// and after every growth the earlier merklizers must still prove their entries against THEIR Root().
func (e *Env) SharedScenario(in SharedInput) *Shared {
	defer e.LocalRng(in.RngSeed)()
	sh, err := e.NewShared(in)
	if err != nil {
		return nil
	}
	defer e.CloseShared(sh)
	r := e.Cfg.Rng
	rnd := func() *big.Int {
		z := new(big.Int).Rand(r, constants.Q)
		return z
	}
	for di, doc := range in.Docs {
		s := e.MerklizeInto(sh, doc)
		if s != nil {
			e.probe(sh, s, false)
		}
		if di == 0 || r.Intn(2) == 0 {
			e.DirectAdd(sh, rnd(), rnd())
		}
		for _, o := range sh.Mzs {
			e.probe(sh, o, o != s)
		}
	}
	// the first document once more: its paths are taken (error; the tree must not change)
	if len(in.Docs) > 0 {
		e.MerklizeInto(sh, in.Docs[0])
		for _, o := range sh.Mzs {
			e.probe(sh, o, false)
		}
	}
	return sh
}

// restoredVariant: MarshalBinary -> MerklizerFromBytes with the same options; the restored merklizer
// must have the same root and answer every member / non-member query like the original (the Coq model
// evaluates the new steps on the SAME model merklizer).
func (e *Env) restoredVariant(s *Scen) {
	b, err := s.Mz.MarshalBinary()
	if err != nil {
		e.Rep.Fail(e.Prop+"-restore-error", "MarshalBinary failed: "+err.Error(), s.In)
		return
	}
	opts := []merklize.MerklizeOption{merklize.WithDocumentLoader(e.Loader)}
	if s.Cfg {
		opts = append(opts, merklize.WithHasher(s.Rc))
	}
	mz2, err := merklize.MerklizerFromBytes(b, opts...)
	if err != nil {
		e.Rep.Fail(e.Prop+"-restore-error", "MerklizerFromBytes with the same options failed: "+err.Error(), s.In)
		return
	}
	e.Rep.Count("restored-merklizer")
	if mz2.Root().BigInt().Cmp(s.Mz.Root().BigInt()) != 0 {
		e.Rep.Fail(e.Prop+"-restored-root", "the merklizer restored from bytes with the same options has a different root", s.In)
	}
	s.Mz = mz2
	e.RootStep(s)
	for _, v := range s.Entries {
		e.Proof(s, 0, v.Parts, "restored-member")
		e.EntryStep(s, 0, v.Parts)
	}
	nm := e.NonMembers(s, 1)
	var fams []string
	for k := range nm {
		fams = append(fams, k)
	}
	sort.Strings(fams)
	for _, fam := range fams {
		for _, parts := range nm[fam] {
			e.Proof(s, 0, parts, "restored-"+fam)
		}
	}
}

// ---------- the C02 driver ----------

func (e *Env) c02Scenario(in Input) *Scen {
	defer e.LocalRng(in.RngSeed)()
	s := e.NewScen(in)
	defer e.Close(s)
	if s.Out.Class != "ok" || s.NoCoq != "" {
		return s
	}
	e.Rep.Count(fmt.Sprintf("hasher:%s cfg=%v", FamilyName(in.Hasher), in.Cfg))
	e.RootStep(s)
	if in.TwinFirst {
		e.twinQueries(s)
	}
	// ALL member paths
	for vi, v := range s.Entries {
		pk := 0
		if !s.Cfg && e.Cfg.Rng.Intn(3) == 0 {
			pk = 1 // merklize.NewPath: same (default) hasher when none is configured
		}
		e.Proof(s, pk, v.Parts, "member")
		e.EntryStep(s, pk, v.Parts)
		if len(v.Parts) <= 5 {
			e.BuildChecks(s, v.Parts)
		}
		_ = vi
		e.ArgSliceChecks(s, v.Parts)
		e.MutationBuilt(s, v.Parts, "built")
	}
	// the print-twins again (or for the first time) after every member was looked up
	e.twinQueries(s)
	// non-member families
	nm := e.NonMembers(s, e.Cfg.Pick(2, 4))
	var fams []string
	for k := range nm {
		fams = append(fams, k)
	}
	sort.Strings(fams)
	for _, fam := range fams {
		for _, parts := range nm[fam] {
			e.Proof(s, 0, parts, fam)
			if e.Cfg.Rng.Intn(2) == 0 {
				e.EntryStep(s, 0, parts)
			}
			e.MutationBuilt(s, parts, "built-"+fam)
		}
	}
	// paths the merklizer resolves from the document itself
	for _, dp := range in.DocPaths {
		p, err := s.Mz.ResolveDocPath(dp)
		e.ResolvedLeaf(s, 5, "Merklizer.ResolveDocPath", dp, p, err, true)
		if in.MustResolve || e.Cfg.Rng.Intn(2) == 0 {
			p, err = s.Mz.Options().NewPathFromDocument(in.Doc, dp)
			e.ResolvedLeaf(s, 4, "Options.NewPathFromDocument", dp, p, err, true)
		}
	}
	if len(in.CtxBytes) > 0 && in.TypeTerm != "" {
		for _, fp := range in.FieldPaths {
			p, err := s.Mz.Options().FieldPathFromContext(in.CtxBytes, in.TypeTerm, fp)
			e.ResolvedLeaf(s, 3, "Options.FieldPathFromContext", in.TypeTerm+" / "+fp, p, err, true)
			p, err = s.Mz.Options().PathFromContext(in.CtxBytes, in.TypeTerm+"."+fp)
			e.ResolvedLeaf(s, 2, "Options.PathFromContext", in.TypeTerm+"."+fp, p, err, false)
		}
	}
	// the empty path: its key cannot be computed
	if e.Cfg.Rng.Intn(4) == 0 {
		e.Proof(s, 0, []any{}, "empty")
		e.EntryStep(s, 0, []any{})
	}
	if in.Restored && (s.Cfg || in.SetAfter == 0) {
		e.restoredVariant(s)
	}
	return s
}

func loadCtx(l *ctxload.Loader, g *docgen.Gen) map[string]string {
	m := map[string]string{}
	for u, b := range g.CtxURLs {
		if l.Raw(u) == nil {
			_ = l.Add(u, b)
		}
		m[u] = string(b)
	}
	return m
}

func ctxFor(doc []byte, all map[string]string) map[string]string {
	out := map[string]string{}
	for u, b := range all {
		if strings.Contains(string(doc), u) {
			out[u] = b
		}
	}
	return out
}

func ReadReplay(cfg *common.Config, l *ctxload.Loader) (Input, error) {
	var rf struct {
		Input json.RawMessage `json:"input"`
	}
	var in Input
	if err := common.ReadJSON(cfg.Replay, &rf); err != nil {
		return in, err
	}
	// failing inputs wrap the scenario; disagreeing cases are the scenario itself
	var w struct {
		Scenario *Input `json:"scenario"`
		Path     []any  `json:"path"`
		PK       int    `json:"pk"`
	}
	if json.Unmarshal(rf.Input, &w) == nil && w.Scenario != nil {
		in = *w.Scenario
		if w.Path != nil {
			in.ReplayPK = w.PK
			in.ReplayPath = []any{}
			for _, x := range w.Path {
				if fl, ok := x.(float64); ok {
					in.ReplayPath = append(in.ReplayPath, int(fl))
				} else {
					in.ReplayPath = append(in.ReplayPath, x)
				}
			}
		}
	} else if err := json.Unmarshal(rf.Input, &in); err != nil {
		return in, err
	}
	for u, b := range in.Ctx {
		if l.Raw(u) == nil {
			_ = l.Add(u, []byte(b))
		}
	}
	return in, nil
}

// ReadSharedReplay recognises a stored shared-tree scenario (possibly wrapped by a failing path).
func ReadSharedReplay(cfg *common.Config, l *ctxload.Loader) (SharedInput, bool) {
	var rf struct {
		Input json.RawMessage `json:"input"`
	}
	var in SharedInput
	if common.ReadJSON(cfg.Replay, &rf) != nil {
		return in, false
	}
	var w struct {
		Scenario json.RawMessage `json:"scenario"`
	}
	raw := rf.Input
	if json.Unmarshal(rf.Input, &w) == nil && len(w.Scenario) > 0 {
		var probe SharedInput
		if json.Unmarshal(w.Scenario, &probe) == nil && probe.Shared {
			raw = w.Scenario
		}
	}
	if json.Unmarshal(raw, &in) != nil || !in.Shared {
		return in, false
	}
	for u, b := range in.Ctx {
		if l.Raw(u) == nil {
			_ = l.Add(u, []byte(b))
		}
	}
	return in, true
}

func Run(cfg *common.Config) (*common.Report, error) {
	rep := common.NewReport("C02")
	rep.Correspondence = "Merklizer.Run.mmismatches: merklize_from_entries + Script.run_step (mz_proof, mz_entry, mz_jsonld_type, mz_root, t_verify; coq/Merklizer/Model.v, Script.v) vs merklize.MerklizeJSONLD, Merklizer.Proof / Entry / JSONLDType / Root and merkletree.VerifyProof, on the entries of the same document with recorded primitive hash tables"
	rep.Rule = "documents from docgen (random schema trees, depth<=3; scoped contexts, arrays, named graphs, IRI/blank objects, every literal kind) and odd shapes; hasher: none configured (package default) or configured {poseidon, salted HashBytes, prime 65521, prime 2^31-1}; per merklizer ALL member paths (Proof, Entry, JSONLDType) and non-member paths of five families (proper prefixes, one-part extensions, sibling index n / n+1 and index on a scalar, one IRI changed, unrelated) plus the empty path. distinct = distinct (document, hasher, configured) triples; every merklizer has >= 1 entry. | slice programs: 6-14 random operations {make a buffer with spare capacity, sub-slice it, overwrite a cell, NewPath(buf...), copy a Path value, Append(buf...), Prepend(buf...)} on real merklize.Path values plus the fixed shapes of D35 / D36 / C02-j, evaluated by Merklizer.SliceRun.slmismatches (SliceModel.run_ops) and by a value-semantics oracle."
	e := &Env{Cfg: cfg, Rep: rep, Loader: ctxload.New(), Prop: "c02"}
	sh := &Shards{Env: e, Size: 10}
	if cfg.Replay != "" {
		if pg, ok := ReadSliceReplay(cfg); ok {
			paths, bufs, wp, wb, wf := execSliceProg(pg.SliceOps)
			fmt.Printf("replay: slice program well-formed=%v paths=%v expected=%v buffers=%v expected=%v\n", wf, paths, wp, bufs, wb)
			return rep, SliceStream(cfg, rep, "C02", []SliceProg{pg})
		}
		if sin, ok := ReadSharedReplay(cfg, e.Loader); ok {
			if s := e.SharedScenario(sin); s != nil {
				fmt.Printf("replay: shared-tree scenario, %d documents, %d merklizers, %d steps\n", len(sin.Docs), len(s.Mzs), len(s.steps))
				sh.AddCase(s)
			}
			return rep, sh.Write("C02")
		}
		in, err := ReadReplay(cfg, e.Loader)
		if err != nil {
			return nil, err
		}
		s := e.c02Scenario(in)
		fmt.Printf("replay: merklize=%s %s; %d entries; %d steps; no-coq=%q\n", s.Out.Class, s.Out.Msg, len(s.Entries), len(s.steps), s.NoCoq)
		sh.Add(s)
		return rep, sh.Write("C02")
	}
	g := docgen.New(cfg.Rng)
	hs := []int{0, 0, 1, 4, 5, 7, 8}
	n := cfg.Pick(90, 1500)
	for i := 0; i < n; i++ {
		var doc *docgen.Doc
		if i%10 == 9 {
			doc = g.Odd()
		} else {
			doc = g.Valid(1 + cfg.Rng.Intn(3))
		}
		all := loadCtx(e.Loader, g)
		hi := hs[cfg.Rng.Intn(len(hs))]
		in := Input{Doc: doc.Bytes, Ctx: ctxFor(doc.Bytes, all), Hasher: hi, Cfg: i%3 != 0, DSLevel: i%4 == 1, RngSeed: cfg.Rng.Int63(), TwinFirst: i%2 == 1, Restored: i%4 == 2}
		if !in.Cfg {
			in.Hasher = 0
			switch (i / 3) % 3 {
			case 1: // the application selected its hasher with SetHasher before building
				in.DefaultFamily = []int{1, 3, 5}[cfg.Rng.Intn(3)]
			case 2: // ... or changes it after the merklizer exists
				in.DefaultFamily = []int{0, 2}[cfg.Rng.Intn(2)]
				in.SetAfter = 1 + []int{1, 5, 0}[cfg.Rng.Intn(3)]
				if in.SetAfter-1 == in.DefaultFamily {
					in.SetAfter = 2
				}
				in.DSLevel = false
			}
		}
		for li, lf := range doc.Leaves {
			if li < 5 {
				in.DocPaths = append(in.DocPaths, strings.Join(lf.DocPath, "."))
			}
		}
		rep.Distinct(fmt.Sprintf("%s|%d|%v", doc.Bytes, in.Hasher, in.Cfg))
		for f := range doc.Features {
			rep.Count("feature:" + f)
		}
		s := e.c02Scenario(in)
		if doc.Expect == "ok" && s.Out.Class != "ok" && in.Hasher < 4 && (in.Cfg || in.DefaultFamily < 4) {
			rep.Fail("c02-valid-rejected", "valid document rejected: "+s.Out.Msg, in)
		}
		if s.Out.Class == "ok" && s.NoCoq == "" {
			rep.Count(fmt.Sprintf("entries:%d", bucket(len(s.Entries))))
			if i%17 == 0 {
				rep.Sample(map[string]any{"doc": string(doc.Bytes), "hasher": FamilyName(in.Hasher), "configured": in.Cfg, "entries": len(s.Entries), "steps": len(s.steps)})
			}
		}
		sh.Add(s)
	}
	// hand-written documents whose listed paths are all leaves (digit-leading terms, re-declared type term)
	for i, hi := range []int{0, 1, 5} {
		for _, in := range FixedInputs(hi, i > 0, cfg.Rng) {
			in.Restored = true
			rep.Distinct(fmt.Sprintf("fixed|%s|%d|%v", in.Doc, in.Hasher, in.Cfg))
			rep.Count("fixed-document")
			s := e.c02Scenario(in)
			if s.Out.Class != "ok" {
				rep.Fail("c02-valid-rejected", "hand-written valid document rejected: "+s.Out.Msg, in)
			}
			sh.Add(s)
		}
	}
	// shared caller-provided tree: two or three merklizers, growth between Root() / Proof calls
	for i := 0; i < cfg.Pick(12, 150); i++ {
		nd := 2 + cfg.Rng.Intn(2)
		sin := SharedInput{Shared: true, Hasher: hs[cfg.Rng.Intn(len(hs))], Cfg: i%3 != 0, Ctx: map[string]string{}, RngSeed: cfg.Rng.Int63()}
		if !sin.Cfg {
			sin.Hasher = 0
		}
		for j := 0; j < nd; j++ {
			// the first document is a generated one; the others have disjoint paths, except that
			// now and then a second generated document collides with the first (partial growth, error)
			if j == 0 || (j == nd-1 && cfg.Rng.Intn(4) == 0) {
				doc := g.Valid(1 + cfg.Rng.Intn(2))
				all := loadCtx(e.Loader, g)
				for u, b := range ctxFor(doc.Bytes, all) {
					sin.Ctx[u] = b
				}
				sin.Docs = append(sin.Docs, doc.Bytes)
			} else {
				sin.Docs = append(sin.Docs, DisjointDoc(cfg.Rng, fmt.Sprintf("sh%d_%d", i, j)))
			}
		}
		rep.Distinct(fmt.Sprintf("shared|%s|%d|%v", sin.Docs, sin.Hasher, sin.Cfg))
		rep.Count("shared-scenario")
		if s := e.SharedScenario(sin); s != nil {
			rep.Count(fmt.Sprintf("shared-merklizers:%d", len(s.Mzs)))
			sh.AddCase(s)
		}
	}
	// Path values, copies and caller buffers at the level of Go slices (Merklizer/SliceModel.v)
	if err := SliceStream(cfg, rep, "C02", SliceProgs(cfg.Rng, cfg.Pick(400, 6000))); err != nil {
		return nil, err
	}
	return rep, sh.Write("C02")
}

func bucket(n int) int {
	switch {
	case n <= 2:
		return n
	case n <= 5:
		return 5
	case n <= 10:
		return 10
	case n <= 20:
		return 20
	default:
		return 99
	}
}
