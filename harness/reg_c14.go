package main

import (
	_ "vharness/c14"
)
