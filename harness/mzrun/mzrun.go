// Package mzrun: shared plumbing for the merklization properties — running
// json-gold normalisation, EntriesFromRDFWithHasher and MerklizeJSONLD under a
// watchdog, turning datasets / entries into Coq terms.
package mzrun

import (
	"bytes"
	"context"
	"encoding/json"
	"fmt"
	"math/big"
	"sort"
	"strings"
	"time"

	"github.com/iden3/go-schema-processor/v2/merklize"
	"github.com/piprate/json-gold/ld"

	"vharness/coqgen"
)

// EntryView is a projected observable of one RDFEntry.
type EntryView struct {
	Parts     []any  // string | int
	Value     any    // *big.Int | bool | string | time.Time | int64
	Datatype  string
	HasHasher bool
	Entry     merklize.RDFEntry
}

func View(e merklize.RDFEntry) EntryView {
	v := e.VerifView()
	return EntryView{Parts: v.KeyParts, Value: v.Value, Datatype: v.Datatype, HasHasher: v.HasHasher, Entry: e}
}

// Outcome of a guarded call.
type Outcome struct {
	Class string // ok | err | panic | hang
	Msg   string
}

// Guard runs f under recover and a watchdog.
func Guard(timeout time.Duration, f func() error) Outcome {
	ch := make(chan Outcome, 1)
	go func() {
		defer func() {
			if r := recover(); r != nil {
				ch <- Outcome{Class: "panic", Msg: fmt.Sprint(r)}
			}
		}()
		if err := f(); err != nil {
			ch <- Outcome{Class: "err", Msg: err.Error()}
			return
		}
		ch <- Outcome{Class: "ok"}
	}()
	select {
	case o := <-ch:
		return o
	case <-time.After(timeout):
		return Outcome{Class: "hang", Msg: "no result after " + timeout.String()}
	}
}

// Normalize runs URDNA2015 exactly as MerklizeJSONLD does (public API only).
func Normalize(doc []byte, loader ld.DocumentLoader, safe bool) (*ld.RDFDataset, error) {
	var obj map[string]any
	if err := json.Unmarshal(doc, &obj); err != nil {
		return nil, err
	}
	proc := ld.NewJsonLdProcessor()
	opts := ld.NewJsonLdOptions("")
	opts.Algorithm = ld.AlgorithmURDNA2015
	opts.SafeMode = safe
	opts.DocumentLoader = loader
	n, err := proc.Normalize(obj, opts)
	if err != nil {
		return nil, err
	}
	ds, ok := n.(*ld.RDFDataset)
	if !ok {
		return nil, fmt.Errorf("normalize returned %T", n)
	}
	return ds, nil
}

// Entries runs EntriesFromRDFWithHasher under the watchdog.
func Entries(ds *ld.RDFDataset, h merklize.Hasher) ([]EntryView, Outcome) {
	var out []EntryView
	o := Guard(20*time.Second, func() error {
		es, err := merklize.EntriesFromRDFWithHasher(ds, h)
		if err != nil {
			return err
		}
		for _, e := range es {
			out = append(out, View(e))
		}
		return nil
	})
	return out, o
}

// Merklize runs MerklizeJSONLD under the watchdog.
func Merklize(doc []byte, opts ...merklize.MerklizeOption) (*merklize.Merklizer, Outcome) {
	var mz *merklize.Merklizer
	o := Guard(30*time.Second, func() error {
		m, err := merklize.MerklizeJSONLD(context.Background(), bytes.NewReader(doc), opts...)
		if err != nil {
			return err
		}
		if m == nil {
			return fmt.Errorf("nil merklizer with nil error")
		}
		mz = m
		return nil
	})
	return mz, o
}

// MapEntries returns the merklizer's entries map (hook).
func MapEntries(mz *merklize.Merklizer) map[string]EntryView {
	out := map[string]EntryView{}
	mz.VerifEntries(func(k string, e merklize.RDFEntry) { out[k] = View(e) })
	return out
}

// ---- Coq rendering ----

func nodeCoq(f *coqgen.File, n ld.Node) string {
	switch x := n.(type) {
	case *ld.IRI:
		return "NIri " + f.Str(x.Value)
	case *ld.BlankNode:
		return "NBlank " + f.Str(x.Attribute)
	case *ld.Literal:
		return fmt.Sprintf("NLit %s %s", f.Str(x.Value), f.Str(x.Datatype))
	default:
		return "NIri " + f.Str(fmt.Sprintf("<?%T>", n))
	}
}

// DatasetCoq renders ds.Graphs in the given graph order (the Go map order is
// arbitrary; the model must not depend on it, and the order is varied on purpose).
func DatasetCoq(f *coqgen.File, ds *ld.RDFDataset, order []string) string {
	var gs []string
	for _, g := range order {
		var qs []string
		for _, q := range ds.Graphs[g] {
			gn := "None"
			if q.Graph != nil {
				gn = "(Some (" + nodeCoq(f, q.Graph) + "))"
			}
			qs = append(qs, fmt.Sprintf("mkq (%s) (%s) (%s) %s", nodeCoq(f, q.Subject), nodeCoq(f, q.Predicate), nodeCoq(f, q.Object), gn))
		}
		gs = append(gs, fmt.Sprintf("(%s, [%s])", f.Str(g), strings.Join(qs, ";\n    ")))
	}
	return "[" + strings.Join(gs, ";\n  ") + "]"
}

// GraphOrder returns the graph names of ds, shuffled by perm (nil = sorted).
func GraphOrder(ds *ld.RDFDataset, shuffle func(n int, swap func(i, j int))) []string {
	var names []string
	for g := range ds.Graphs {
		names = append(names, g)
	}
	sort.Strings(names)
	if shuffle != nil {
		shuffle(len(names), func(i, j int) { names[i], names[j] = names[j], names[i] })
	}
	return names
}

func ValueCoq(f *coqgen.File, v any) string {
	switch x := v.(type) {
	case bool:
		return "RXBool " + coqgen.Bool(x)
	case string:
		return "RXStr " + f.Str(x)
	case int64:
		return "RXInt64 " + coqgen.SNumI(x)
	case int:
		return "RXInt64 " + coqgen.SNumI(int64(x))
	case *big.Int:
		return "RXBig " + coqgen.SNum(x)
	case time.Time:
		return fmt.Sprintf("RXTime %s %s", coqgen.SNumI(x.Unix()), coqgen.SNumI(int64(x.Nanosecond())))
	default:
		return "RXStr " + f.Str(fmt.Sprintf("<?%T>", v))
	}
}

func PartsCoq(f *coqgen.File, parts []any) string {
	var ps []string
	for _, p := range parts {
		switch x := p.(type) {
		case string:
			ps = append(ps, "RPS "+f.Str(x))
		case int:
			if x < 0 {
				ps = append(ps, "RPS "+f.Str(fmt.Sprintf("<negative %d>", x)))
			} else {
				ps = append(ps, fmt.Sprintf("RPI %d", x))
			}
		default:
			ps = append(ps, "RPS "+f.Str(fmt.Sprintf("<?%T>", p)))
		}
	}
	return "[" + strings.Join(ps, ";") + "]"
}

func EntryCoq(f *coqgen.File, e EntryView) string {
	return fmt.Sprintf("(%s, %s, %s)", PartsCoq(f, e.Parts), ValueCoq(f, e.Value), f.Str(e.Datatype))
}

func EntriesObsCoq(f *coqgen.File, es []EntryView, o Outcome) string {
	switch o.Class {
	case "ok":
		var l []string
		for _, e := range es {
			l = append(l, EntryCoq(f, e))
		}
		return "ROEntries [" + strings.Join(l, ";\n    ") + "]"
	case "err":
		return "ROErr"
	case "panic":
		return "ROPanic"
	default:
		return "ROHang"
	}
}

// DoubleLexicals lists the lexical forms of xsd:double literals of a dataset
// (their ParseFloat/canonical answers must be recorded for the model).
func DoubleLexicals(ds *ld.RDFDataset) []string {
	var out []string
	for _, qs := range ds.Graphs {
		for _, q := range qs {
			if l, ok := q.Object.(*ld.Literal); ok && l.Datatype == ld.XSDDouble {
				out = append(out, l.Value)
			}
		}
	}
	return out
}
