package main

import (
	_ "vharness/c08"
)
