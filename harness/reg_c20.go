package main

import (
	_ "vharness/c20"
)
