// Package credgen: shared generator of W3C credentials for the claim properties
// (C05, C06, C17).  Schemas are JSON-LD contexts registered with the offline
// loader (harness/ctxload); a schema is either merklized (no serialization
// attribute) or serialized (an `iden3_serialization` attribute naming up to four
// field paths).  Credentials come with / without subject id and expiration.
//
// The package also extracts, through the PUBLIC API only and independently of
// ToCoreClaim, the view of a credential that the Coq model Claim/Model.v takes
// as input (RawValue of the two type paths, Merkle root, field encodings,
// subject id, expiration, JSON-LD term definitions) and renders it as Coq terms.
package credgen

import (
	"bytes"
	"context"
	"encoding/hex"
	"encoding/json"
	"fmt"
	"io"
	"math"
	"math/big"
	"net/http"
	"reflect"
	"sort"
	"strings"
	"sync"
	"time"

	core "github.com/iden3/go-iden3-core/v2"
	"github.com/iden3/go-iden3-core/v2/w3c"
	"github.com/iden3/go-schema-processor/v2/merklize"
	"github.com/iden3/go-schema-processor/v2/verifiable"
	"github.com/piprate/json-gold/ld"

	"vharness/coqgen"
	"vharness/ctxload"
	"vharness/hashers"
)

const (
	XSD   = "http://www.w3.org/2001/XMLSchema#"
	VCIRI = "https://www.w3.org/2018/credentials#VerifiableCredential"
)

// Field is one property of the generated subject type.
type Field struct {
	Path     string `json:"path"`     // dotted path below credentialSubject
	Datatype string `json:"datatype"` // xsd local name
}

// Fields are the five field paths that serialization attributes may name.
var Fields = []Field{
	{"price", "double"},
	{"count", "integer"},
	{"name", "string"},
	{"info.insured", "boolean"},
	{"info.since", "dateTime"},
}

// FieldPaths returns the paths of Fields.
func FieldPaths() []string {
	var out []string
	for _, f := range Fields {
		out = append(out, f.Path)
	}
	return out
}

// ExtraType is another type term living in the same context document (to
// exercise the lookup loop: array-shaped scoped contexts, other attributes).
type ExtraType struct {
	Name    string `json:"name"`
	IRI     string `json:"iri"`
	Shape   string `json:"shape"`         // "map" | "array" | "none" (no @context) | "string" (term is a plain IRI string)
	SerAttr string `json:"ser,omitempty"` // for Shape map
}

// Schema describes one context document.
type Schema struct {
	URL           string      `json:"url"`
	TypeName      string      `json:"type_name"`
	TypeIRI       string      `json:"type_iri"`
	Ser           *string     `json:"ser"`                       // nil = merklized schema (no attribute)
	SerRaw        any         `json:"ser_raw,omitempty"`         // non-string attribute value (overrides Ser)
	TypeIDWritten string      `json:"type_id_written,omitempty"` // how the type's @id is spelled in the document (a compact IRI using a prefix of an EARLIER context); "" = TypeIRI
	Unprotected   bool        `json:"unprotected,omitempty"`     // no @protected at the top: a later context may redefine the type
	CtxShape      string      `json:"ctx_shape"`                 // "map" (default) | "array": the type's scoped context is wrapped in an array
	Extra         []ExtraType `json:"extra,omitempty"`
	Doc           []byte      `json:"-"`
}

func scopedContext(vocab string, ser any) map[string]any {
	m := map[string]any{
		"@propagate": true,
		"@protected": true,
		"vocab":      vocab,
		"xsd":        XSD,
		"price":      map[string]any{"@id": "vocab:price", "@type": "xsd:double"},
		"count":      map[string]any{"@id": "vocab:count", "@type": "xsd:integer"},
		"name":       map[string]any{"@id": "vocab:name", "@type": "xsd:string"},
		"spare":      map[string]any{"@id": "vocab:spare", "@type": "xsd:string"},
		"info": map[string]any{
			"@id": "vocab:info",
			"@context": map[string]any{
				"insured": map[string]any{"@id": "vocab:insured", "@type": "xsd:boolean"},
				"since":   map[string]any{"@id": "vocab:since", "@type": "xsd:dateTime"},
			},
		},
	}
	if ser != nil {
		m["iden3_serialization"] = ser
	}
	return m
}

// BuildDoc renders the context document of s.
func (s *Schema) BuildDoc() []byte {
	var ser any
	if s.Ser != nil {
		ser = *s.Ser
	}
	if s.SerRaw != nil {
		ser = s.SerRaw
	}
	vocab := s.TypeIRI + "#"
	var sc any = scopedContext(vocab, ser)
	if s.CtxShape == "array" {
		sc = []any{sc}
	}
	written := s.TypeIRI
	if s.TypeIDWritten != "" {
		written = s.TypeIDWritten
	}
	top := map[string]any{
		"@version": 1.1,
		"id":       "@id",
		"type":     "@type",
		s.TypeName: map[string]any{"@id": written, "@context": sc},
	}
	if !s.Unprotected {
		top["@protected"] = true
	}
	for _, e := range s.Extra {
		switch e.Shape {
		case "map":
			var es any
			if e.SerAttr != "" {
				es = e.SerAttr
			}
			top[e.Name] = map[string]any{"@id": e.IRI, "@context": scopedContext(e.IRI+"#", es)}
		case "array":
			top[e.Name] = map[string]any{"@id": e.IRI, "@context": []any{map[string]any{"zz": e.IRI + "#zz"}}}
		case "none":
			top[e.Name] = map[string]any{"@id": e.IRI}
		default:
			top[e.Name] = e.IRI
		}
	}
	b, _ := json.Marshal(map[string]any{"@context": []any{top}})
	s.Doc = b
	return b
}

// Env owns the offline loader.
type Env struct {
	Loader *ctxload.Loader
	Space  string // path segment of generated schema URLs (distinct environments use distinct URL spaces)
	// Mode selects how MerklizeOpts lets the merklizer find documents: "" = WithDocumentLoader(Loader);
	// "ipfs-client" = WithIPFSClient(stub) only; "ipfs-gateway" = WithIPFSGateway(GatewayURL) only
	// (the stub HTTP transport must be installed: InstallGateway).  In the IPFS modes only ipfs://
	// context URLs resolve (Spec.CtxIPFS).
	Mode string
	ipfs *ipfsState
	n    int
}

// GatewayURL is the IPFS gateway served by the stub HTTP transport.
const GatewayURL = "http://ipfs-gateway.test"

type ipfsState struct {
	mu    sync.RWMutex
	paths map[string]string // ipfs path (the URL without "ipfs://") -> the URL whose document it serves
}

// IPFSURL is the ipfs:// address under which the document of url is published.
func IPFSURL(url string) string {
	h := Keccak256([]byte(url))
	return "ipfs://Qm" + hex.EncodeToString(h[:22])
}

// ServeIPFS publishes the documents of the given URLs (as the loader has them) on the stub IPFS.
func (e *Env) ServeIPFS(urls ...string) {
	e.ipfs.mu.Lock()
	defer e.ipfs.mu.Unlock()
	for _, u := range urls {
		e.ipfs.paths[strings.TrimPrefix(IPFSURL(u), "ipfs://")] = u
	}
}

func (e *Env) ipfsDoc(path string) ([]byte, bool) {
	e.ipfs.mu.RLock()
	u, ok := e.ipfs.paths[strings.Trim(path, "/")]
	e.ipfs.mu.RUnlock()
	if !ok {
		return nil, false
	}
	b := e.Loader.Raw(u)
	return b, b != nil
}

// WithMode: the same documents, reached another way.
func (e *Env) WithMode(mode string) *Env {
	c := *e
	c.Mode = mode
	return &c
}

// stub IPFS node (loaders.IPFSClient)
type ipfsClient struct{ e *Env }

func (c ipfsClient) Cat(url string) (io.ReadCloser, error) {
	b, ok := c.e.ipfsDoc(url)
	if !ok {
		return nil, fmt.Errorf("stub ipfs: no such object %s", url)
	}
	return io.NopCloser(bytes.NewReader(b)), nil
}

// stub HTTP transport: the gateway, and nothing else
type gatewayTransport struct{ e *Env }

func (t gatewayTransport) RoundTrip(r *http.Request) (*http.Response, error) {
	const pfx = "/ipfs/"
	if r.URL.Scheme+"://"+r.URL.Host != GatewayURL || !strings.HasPrefix(r.URL.Path, pfx) {
		return nil, fmt.Errorf("stub transport: no network (%s)", r.URL)
	}
	b, ok := t.e.ipfsDoc(r.URL.Path[len(pfx):])
	if !ok {
		return &http.Response{StatusCode: 404, Body: io.NopCloser(bytes.NewReader(nil)), Header: http.Header{}, Request: r}, nil
	}
	h := http.Header{}
	h.Set("Content-Type", "application/ld+json")
	return &http.Response{StatusCode: 200, Body: io.NopCloser(bytes.NewReader(b)), Header: h, Request: r}, nil
}

// InstallGateway makes http.DefaultClient (which the repository's loader uses for a gateway) talk to
// the stub only.  Process-wide: for driver processes.
func InstallGateway(e *Env) { http.DefaultClient = &http.Client{Transport: gatewayTransport{e}} }

// viewLoader resolves documents for the harness's own view of a credential, whatever the mode.
type viewLoader struct{ e *Env }

func (l viewLoader) LoadDocument(u string) (*ld.RemoteDocument, error) {
	if strings.HasPrefix(u, "ipfs://") {
		b, ok := l.e.ipfsDoc(u[len("ipfs://"):])
		if !ok {
			return nil, ld.NewJsonLdError(ld.LoadingDocumentFailed, fmt.Errorf("stub ipfs: no such object %s", u))
		}
		var v any
		if err := json.Unmarshal(b, &v); err != nil {
			return nil, ld.NewJsonLdError(ld.LoadingDocumentFailed, err)
		}
		return &ld.RemoteDocument{DocumentURL: u, Document: v}, nil
	}
	return l.e.Loader.LoadDocument(u)
}

// A context that only declares prefixes / a vocabulary: schemas whose type @id is written as
// `acme:Name` depend on it being listed EARLIER in the credential's @context array.
const (
	URLPrefixCtx = "https://schemas.example/shared/prefixes.json-ld"
	AcmeNS       = "https://acme.example/ns#"
	URLNoiseCtx  = "https://schemas.example/shared/noise.json-ld"
)

var (
	prefixCtxInner = map[string]any{"acme": AcmeNS, "acmeAlias": map[string]any{"@id": "acme:alias"}}
	noiseCtxInner  = map[string]any{"noiseTerm": "https://noise.example/ns#term", "noise": "https://noise.example/ns#"}
)

// PrefixCtxInner returns the inner context object of URLPrefixCtx (for combined schema documents).
func PrefixCtxInner() map[string]any { return prefixCtxInner }

func newEnv(space string) *Env {
	e := &Env{Loader: ctxload.New(), Space: space, ipfs: &ipfsState{paths: map[string]string{}}}
	for u, inner := range map[string]any{URLPrefixCtx: prefixCtxInner, URLNoiseCtx: noiseCtxInner} {
		b, _ := json.Marshal(map[string]any{"@context": inner})
		if err := e.Loader.Add(u, b); err != nil {
			panic(err)
		}
	}
	return e
}

func NewEnv() *Env { return newEnv("gen") }

// NewEnvIn: an environment whose schema URLs live under another path segment.
func NewEnvIn(space string) *Env { return newEnv(space) }

// MerklizeOpts are the options every call must carry to stay offline.
func (e *Env) MerklizeOpts() []merklize.MerklizeOption {
	switch e.Mode {
	case "ipfs-client":
		return []merklize.MerklizeOption{merklize.WithIPFSClient(ipfsClient{e})}
	case "ipfs-gateway":
		return []merklize.MerklizeOption{merklize.WithIPFSGateway(GatewayURL)}
	}
	return []merklize.MerklizeOption{merklize.WithDocumentLoader(e.Loader)}
}

// SaltedHasher: a custom hasher (Poseidon with salts) for options that carry merklize.WithHasher.
func SaltedHasher() merklize.Hasher {
	q, _ := new(big.Int).SetString("21888242871839275222246405745257275088548364400416034343698204186575808495617", 10)
	return hashers.Mod{P: q, SaltBytes: []byte("salt"), SaltElem: big.NewInt(7), Name: "salted"}
}

// MerklizeOptsFor: the merklizer options an options value carries.
func (e *Env) MerklizeOptsFor(o Opts) []merklize.MerklizeOption {
	m := e.MerklizeOpts()
	if o.Salted {
		m = append(m, merklize.WithHasher(SaltedHasher()))
	}
	return m
}

// Register builds the document of s and serves it at s.URL.
func (e *Env) Register(s *Schema) error {
	return e.Loader.Add(s.URL, s.BuildDoc())
}

// NewSchema allocates a fresh URL / type and registers the schema.
func (e *Env) NewSchema(ser *string) *Schema {
	e.n++
	s := &Schema{
		URL:      fmt.Sprintf("https://schemas.example/%s/%d.json-ld", e.Space, e.n),
		TypeName: fmt.Sprintf("GenType%d", e.n),
		TypeIRI:  fmt.Sprintf("urn:uuid:00000000-0000-4000-8000-%012d", e.n),
		Ser:      ser,
		CtxShape: "map",
	}
	if err := e.Register(s); err != nil {
		panic(err)
	}
	return s
}

// SerAttr renders an attribute from a slot assignment (empty string = unassigned).
func SerAttr(indexA, indexB, valueA, valueB string) string {
	var parts []string
	for _, kv := range [][2]string{{"slotIndexA", indexA}, {"slotIndexB", indexB}, {"slotValueA", valueA}, {"slotValueB", valueB}} {
		if kv[1] != "" {
			parts = append(parts, kv[0]+"="+kv[1])
		}
	}
	return "iden3:v1:" + strings.Join(parts, "&")
}

// DID kinds: valid iden3 / polygonid identifiers and strings that are not.
func MakeDID(seed int64) string {
	methods := []core.DIDMethod{core.DIDMethodIden3, core.DIDMethodPolygonID}
	chains := [][2]string{{"polygon", "mumbai"}, {"polygon", "main"}, {"polygon", "amoy"}}
	m := methods[int(seed&1)]
	ch := chains[int((seed>>1)%int64(len(chains)))]
	typ, err := core.BuildDIDType(m, core.Blockchain(ch[0]), core.NetworkID(ch[1]))
	if err != nil {
		typ, _ = core.BuildDIDType(core.DIDMethodIden3, core.Polygon, core.Mumbai)
	}
	st := new(big.Int).Mul(big.NewInt(seed+12345), big.NewInt(1_000_000_007))
	did, err := core.NewDIDFromIdenState(typ, st)
	if err != nil {
		panic(err)
	}
	return did.String()
}

// Spec of one credential.
type Spec struct {
	Schema        *Schema   `json:"schema"`
	Subject       any       `json:"subject"`                  // nil = no id; string DID; anything else is written as is
	SubjectNull   bool      `json:"subject_null"`             // "id": null
	Expiration    *int64    `json:"expiration,omitempty"`     // Unix seconds of the expiration instant (floor)
	ExpNanos      int64     `json:"exp_nanos,omitempty"`      // nanoseconds past that second (0 <= n < 1e9): a fractional expirationDate
	ExpOffsetMin  int       `json:"exp_offset_min,omitempty"` // the date is written with this zone offset
	Omit          []string  `json:"omit,omitempty"`           // field paths left out
	NoSubjectType bool      `json:"no_subject_type"`          // credentialSubject has no "type": the top-level type pair decides
	TopTypes      []string  `json:"top_types,omitempty"`      // override of the top-level "type" array
	Values        [5]string `json:"values"`                   // price, count, name, insured, since ("" = default)
	ExtraCtx      []string  `json:"extra_ctx,omitempty"`      // more context URLs
	CtxIPFS       bool      `json:"ctx_ipfs,omitempty"`       // every @context URL is written as the ipfs:// address of the same document
	PreCtx        []string  `json:"pre_ctx,omitempty"`        // context URLs listed BEFORE the schema's (after credentials/v1)
	Override      *Schema   `json:"override,omitempty"`       // a context listed right AFTER the schema's that redefines the type (same name and IRI, other attribute)
	Poison        string    `json:"poison,omitempty"`         // a Go value json.Marshal rejects, put into CredentialSubject after decoding: nan | inf | chan | func | marshaler
	WithProof     bool      `json:"with_proof,omitempty"`     // the credential carries a BJJSignature2021 proof (whose core claim is ProofClaim())
	SubjectTypes  []string  `json:"subject_types,omitempty"`  // credentialSubject.type written as this array instead of the type name
	Undefined     bool      `json:"undefined,omitempty"`      // credentialSubject carries a property no context defines (merklizes only with safe mode off)
	// AltSchema: the document a SECOND document loader serves at Schema.URL (same URL, type
	// name and type IRI, other attribute).  nil = the second loader serves the same document.
	AltSchema *Schema `json:"alt_schema,omitempty"`
}

type Cred struct {
	Spec Spec
	JSON []byte
	VC   verifiable.W3CCredential
}

func val(s, def string) string {
	if s == "" {
		return def
	}
	return s
}

// Build renders the credential document and decodes it into the library's struct.
func Build(sp Spec) (*Cred, error) {
	omit := map[string]bool{}
	for _, o := range sp.Omit {
		omit[o] = true
	}
	cs := map[string]any{}
	if sp.SubjectTypes != nil {
		cs["type"] = sp.SubjectTypes
	} else if !sp.NoSubjectType {
		cs["type"] = sp.Schema.TypeName
	}
	if sp.SubjectNull {
		cs["id"] = nil
	} else if sp.Subject != nil {
		cs["id"] = sp.Subject
	}
	if !omit["price"] {
		cs["price"] = val(sp.Values[0], "123.52")
	}
	if !omit["count"] {
		var n json.Number = json.Number(val(sp.Values[1], "42"))
		cs["count"] = n
	}
	if !omit["name"] {
		cs["name"] = val(sp.Values[2], "Alice")
	}
	if sp.Undefined {
		cs["undefinedProperty"] = "x"
	}
	info := map[string]any{}
	if !omit["info.insured"] {
		info["insured"] = val(sp.Values[3], "true") == "true"
	}
	if !omit["info.since"] {
		info["since"] = val(sp.Values[4], "2021-03-04T05:06:07Z")
	}
	if len(info) > 0 {
		cs["info"] = info
	}
	top := sp.TopTypes
	if top == nil {
		top = []string{"VerifiableCredential", sp.Schema.TypeName}
	}
	ctxs := append([]string{ctxload.URLCredentialsV1}, sp.PreCtx...)
	ctxs = append(ctxs, sp.Schema.URL)
	if sp.Override != nil {
		ctxs = append(ctxs, sp.Override.URL)
	}
	ctxs = append(ctxs, sp.ExtraCtx...)
	if sp.CtxIPFS {
		for i := range ctxs {
			ctxs[i] = IPFSURL(ctxs[i])
		}
	}
	doc := map[string]any{
		"@context":          ctxs,
		"id":                "urn:uuid:8a2a7b06-3c7f-4e0b-9d52-5b6f9c0d1e2f",
		"type":              top,
		"issuer":            "did:iden3:polygon:mumbai:wyFiV4w71QgWPn6bYLsZoysFay66gKtVa9kfu6yMZ",
		"issuanceDate":      "2023-01-02T03:04:05Z",
		"credentialSubject": cs,
		"credentialSchema":  map[string]any{"id": "https://schemas.example/gen/schema.json", "type": "JsonSchemaValidator2018"},
	}
	if sp.Expiration != nil {
		doc["expirationDate"] = time.Unix(*sp.Expiration, sp.ExpNanos).In(time.FixedZone("", sp.ExpOffsetMin*60)).Format(time.RFC3339Nano)
	}
	b, err := json.Marshal(doc)
	if err != nil {
		return nil, err
	}
	c := &Cred{Spec: sp, JSON: b}
	if err := json.Unmarshal(b, &c.VC); err != nil {
		return nil, err
	}
	switch sp.Poison {
	case "nan":
		c.VC.CredentialSubject["poison"] = math.NaN()
	case "inf":
		c.VC.CredentialSubject["poison"] = math.Inf(1)
	case "chan":
		c.VC.CredentialSubject["poison"] = poisonChan
	case "func":
		c.VC.CredentialSubject["poison"] = poisonFunc
	case "marshaler":
		c.VC.CredentialSubject["poison"] = failingMarshaler{}
	}
	if sp.WithProof {
		h, _ := ProofClaim().Hex()
		c.VC.Proof = verifiable.CredentialProofs{&verifiable.BJJSignatureProof2021{
			Type:      verifiable.BJJSignatureProofType,
			CoreClaim: h,
			Signature: strings.Repeat("0", 128),
		}}
	}
	return c, nil
}

var (
	poisonChan = make(chan int)
	poisonFunc = func() {}
)

type failingMarshaler struct{}

func (failingMarshaler) MarshalJSON() ([]byte, error) {
	return nil, fmt.Errorf("this value does not marshal")
}

// ProofClaim is the core claim recorded in the proof of WithProof credentials.
func ProofClaim() *core.Claim {
	cl, err := core.NewClaim(core.SchemaHash{1, 2, 3, 4, 5, 6, 7, 8, 9, 10, 11, 12, 13, 14, 15, 16},
		core.WithRevocationNonce(424242), core.WithVersion(7), core.WithFlagUpdatable(true),
		core.WithIndexDataInts(big.NewInt(11), big.NewInt(22)), core.WithValueDataInts(big.NewInt(33), big.NewInt(44)))
	if err != nil {
		panic(err)
	}
	return cl
}

// SubjectEqual compares two credentialSubject maps, telling apart what reflect.DeepEqual cannot
// (NaN equals NaN here; functions by code pointer).
func SubjectEqual(a, b map[string]any) bool {
	if len(a) != len(b) || (a == nil) != (b == nil) {
		return false
	}
	for k, x := range a {
		y, ok := b[k]
		if !ok {
			return false
		}
		fx, okx := x.(float64)
		fy, oky := y.(float64)
		switch {
		case okx && oky && math.IsNaN(fx) && math.IsNaN(fy):
		case x != nil && y != nil && reflect.TypeOf(x).Kind() == reflect.Func && reflect.TypeOf(y).Kind() == reflect.Func:
			if reflect.ValueOf(x).Pointer() != reflect.ValueOf(y).Pointer() {
				return false
			}
		default:
			if !reflect.DeepEqual(x, y) {
				return false
			}
		}
	}
	return true
}

// SameCredential: deep comparison of two credentials (every field, proofs included).
func SameCredential(a, b *verifiable.W3CCredential) bool {
	x, y := *a, *b
	sa, sb := x.CredentialSubject, y.CredentialSubject
	x.CredentialSubject, y.CredentialSubject = nil, nil
	return reflect.DeepEqual(x, y) && SubjectEqual(sa, sb)
}

// ---------- the model's view of a credential ----------

// RawV mirrors Claim.Model.rawv.
type RawV struct {
	Kind string // "str" | "arr" | "other"
	Str  string
	Arr  []RawV
}

func toRawV(v any) RawV {
	switch x := v.(type) {
	case string:
		return RawV{Kind: "str", Str: x}
	case []any:
		r := RawV{Kind: "arr"}
		for _, e := range x {
			r.Arr = append(r.Arr, toRawV(e))
		}
		return r
	default:
		return RawV{Kind: "other"}
	}
}

func (r RawV) Coq(f *coqgen.File) string {
	switch r.Kind {
	case "str":
		return "RVStr " + f.Str(r.Str)
	case "arr":
		var l []string
		for _, e := range r.Arr {
			l = append(l, e.Coq(f))
		}
		return "RVArr [" + strings.Join(l, "; ") + "]"
	default:
		return "RVOther"
	}
}

// Term mirrors Claim.Model.term.
type Term struct {
	Name   string
	IsMap  bool
	HasCtx bool
	CtxMap bool    // @context is a map
	Ser    *string // its iden3_serialization when that is a string
	ID     string
}

func (t Term) Coq(f *coqgen.File) string {
	ctx := "None"
	if t.HasCtx {
		if t.CtxMap {
			if t.Ser != nil {
				ctx = "(Some (CtxMap (Some " + f.Str(*t.Ser) + ")))"
			} else {
				ctx = "(Some (CtxMap None))"
			}
		} else {
			ctx = "(Some CtxOther)"
		}
	}
	return fmt.Sprintf("mk_term %s %s %s %s", f.Str(t.Name), coqgen.Bool(t.IsMap), ctx, f.Str(t.ID))
}

// TermsOf projects the term definitions of a parsed JSON-LD context, in the
// order Go's map iteration happens to produce (the model must not depend on it).
func TermsOf(ldCtx *ld.Context) ([]Term, bool) {
	td, ok := ldCtx.AsMap()["termDefinitions"]
	if !ok {
		return nil, false
	}
	m, ok := td.(map[string]any)
	if !ok {
		return nil, false
	}
	var out []Term
	for name, def := range m {
		t := Term{Name: name}
		dm, ok := def.(map[string]any)
		if ok {
			t.IsMap = true
			if c, ok := dm["@context"]; ok {
				t.HasCtx = true
				if cm, ok := c.(map[string]any); ok {
					t.CtxMap = true
					if s, ok := cm["iden3_serialization"].(string); ok {
						t.Ser = &s
					}
				}
			}
			t.ID, _ = dm["@id"].(string)
		}
		out = append(out, t)
	}
	return out, true
}

func TermsCoq(f *coqgen.File, ts []Term, ok bool) string {
	if !ok {
		return "None"
	}
	var l []string
	for _, t := range ts {
		l = append(l, t.Coq(f))
	}
	return "(Some [" + strings.Join(l, ";\n     ") + "])"
}

// View is everything the model reads from a credential.
type View struct {
	MzOK     bool
	CsType   *RawV
	TopType  *RawV
	Root     *big.Int
	Fields   map[string]*big.Int // nil value = the lookup failed
	Subject  *string             // fmt.Sprintf("%v", id)
	Exp      *int64              // vc.Expiration.Unix()
	ExpNanos int64               // vc.Expiration.Nanosecond()
	Terms    []Term
	CtxOK    bool
}

// ViewOf computes the view with separate public-API calls (never ToCoreClaim).
func (e *Env) ViewOf(vc *verifiable.W3CCredential, paths []string) View {
	return e.ViewOfWith(vc, paths, e.MerklizeOpts())
}

// ViewOfWith: the view under the given merklizer options (document loader, hasher, safe mode).
func (e *Env) ViewOfWith(vc *verifiable.W3CCredential, paths []string, mzOpts []merklize.MerklizeOption) View {
	v := View{Fields: map[string]*big.Int{}}
	if id := vc.CredentialSubject["id"]; id != nil {
		s := fmt.Sprintf("%v", id)
		v.Subject = &s
	}
	if vc.Expiration != nil {
		u := vc.Expiration.Unix()
		v.Exp = &u
		v.ExpNanos = int64(vc.Expiration.Nanosecond())
	}
	mz, err := vc.Merklize(context.Background(), mzOpts...)
	if err != nil {
		return v
	}
	v.MzOK = true
	o := mz.Options()
	if p, err := o.NewPath("https://www.w3.org/2018/credentials#credentialSubject", "@type"); err == nil {
		if x, err := mz.RawValue(p); err == nil {
			r := toRawV(x)
			v.CsType = &r
		}
	}
	if p, err := o.NewPath("@type"); err == nil {
		if x, err := mz.RawValue(p); err == nil {
			r := toRawV(x)
			v.TopType = &r
		}
	}
	v.Root = mz.Root().BigInt()
	for _, fp := range paths {
		if fp == "" {
			continue
		}
		v.Fields[fp] = nil
		p, err := mz.ResolveDocPath("credentialSubject." + fp)
		if err != nil {
			continue
		}
		en, err := mz.Entry(p)
		if err != nil {
			continue
		}
		x, err := en.ValueMtEntry()
		if err != nil {
			continue
		}
		v.Fields[fp] = x
	}
	var ctxs []any
	if vc.Context != nil {
		ctxs = make([]any, len(vc.Context))
		for i := range vc.Context {
			ctxs[i] = vc.Context[i]
		}
	}
	// the harness's own JSON-LD options (not the merklizer's): same documents, the environment's loader
	jo := ld.NewJsonLdOptions("")
	jo.DocumentLoader = viewLoader{e}
	ldCtx, err := ld.NewContext(nil, jo).Parse(ctxs)
	if err == nil {
		v.Terms, v.CtxOK = TermsOf(ldCtx)
		if !v.CtxOK {
			// "termDefinitions" missing is an error of its own in the implementation; the model has one class for both
			v.CtxOK = false
		}
	}
	return v
}

func optRawV(f *coqgen.File, r *RawV) string {
	if r == nil {
		return "None"
	}
	return "(Some (" + r.Coq(f) + "))"
}

// Coq renders `mk_cred ...`.
func (v View) Coq(f *coqgen.File) string {
	mz := "None"
	if v.MzOK {
		var keys []string
		for k := range v.Fields {
			keys = append(keys, k)
		}
		sort.Strings(keys)
		var fl []string
		for _, k := range keys {
			fl = append(fl, fmt.Sprintf("(%s, %s)", f.Str(k), coqgen.OptLimbs(v.Fields[k])))
		}
		mz = fmt.Sprintf("(Some (mk_mz %s %s %s [%s]))", optRawV(f, v.CsType), optRawV(f, v.TopType), coqgen.Limbs(v.Root), strings.Join(fl, "; "))
	}
	subj := "None"
	if v.Subject != nil {
		subj = "(Some " + f.Str(*v.Subject) + ")"
	}
	exp := "None"
	if v.Exp != nil {
		exp = "(Some (" + coqgen.SNumI(*v.Exp) + ", " + coqgen.Limbs(big.NewInt(v.ExpNanos)) + "))"
	}
	return fmt.Sprintf("mk_cred_t %s %s %s %s", mz, subj, exp, TermsCoq(f, v.Terms, v.CtxOK))
}

// ---------- primitive oracles ----------

// Keccak is the Keccak-256 digest of s read as a big-endian number (computed
// by this package's own implementation, not through the repository's wrapper).
func Keccak(s string) *big.Int {
	return new(big.Int).SetBytes(Keccak256([]byte(s)))
}

// DIDToID is w3c.ParseDID followed by core.IDFromDID; the 31 identifier bytes
// read little-endian; nil = one of the two calls failed.
func DIDToID(s string) *big.Int {
	did, err := w3c.ParseDID(s)
	if err != nil {
		return nil
	}
	id, err := core.IDFromDID(*did)
	if err != nil {
		return nil
	}
	return LE(id[:])
}

// LE reads bytes as a little-endian number.
func LE(b []byte) *big.Int {
	r := make([]byte, len(b))
	for i := range b {
		r[len(b)-1-i] = b[i]
	}
	return new(big.Int).SetBytes(r)
}

// Oracles accumulates the primitive tables of one shard.
type Oracles struct {
	keccak map[string]*big.Int
	did    map[string]*big.Int
	hasDID map[string]bool
}

func NewOracles() *Oracles {
	return &Oracles{keccak: map[string]*big.Int{}, did: map[string]*big.Int{}, hasDID: map[string]bool{}}
}

// Note records what the model may ask about this view.
func (o *Oracles) Note(v View) {
	for _, r := range []*RawV{v.CsType, v.TopType} {
		if r == nil {
			continue
		}
		var walk func(x RawV)
		walk = func(x RawV) {
			if x.Kind == "str" {
				if _, ok := o.keccak[x.Str]; !ok {
					o.keccak[x.Str] = Keccak(x.Str)
				}
			}
			for _, y := range x.Arr {
				walk(y)
			}
		}
		walk(*r)
	}
	if v.Subject != nil && !o.hasDID[*v.Subject] {
		o.hasDID[*v.Subject] = true
		o.did[*v.Subject] = DIDToID(*v.Subject)
	}
}

func (o *Oracles) Coq(f *coqgen.File) string {
	var ks, ds []string
	var kk, dk []string
	for k := range o.keccak {
		kk = append(kk, k)
	}
	sort.Strings(kk)
	for _, k := range kk {
		ks = append(ks, fmt.Sprintf("(%s, %s)", f.Str(k), coqgen.Limbs(o.keccak[k])))
	}
	for k := range o.hasDID {
		dk = append(dk, k)
	}
	sort.Strings(dk)
	for _, k := range dk {
		ds = append(ds, fmt.Sprintf("(%s, %s)", f.Str(k), coqgen.OptLimbs(o.did[k])))
	}
	return "mk_raw_oracles [" + strings.Join(ks, ";\n  ") + "] [" + strings.Join(ds, ";\n  ") + "]"
}

// ---------- claims ----------

// Slots decodes the 8 raw slot integers from the claim's binary form with the
// harness's own decoder (32 little-endian bytes per slot), not core's getters.
func Slots(c *core.Claim) ([8]*big.Int, error) {
	var out [8]*big.Int
	b, err := c.MarshalBinary()
	if err != nil {
		return out, err
	}
	if len(b) != 256 {
		return out, fmt.Errorf("claim binary has %d bytes", len(b))
	}
	for i := 0; i < 8; i++ {
		out[i] = LE(b[32*i : 32*i+32])
	}
	return out, nil
}

// Opts mirrors verifiable.CoreClaimOptions without the merklizer options.
type Opts struct {
	RevNonce uint64 `json:"nonce"`
	Version  uint32 `json:"version"`
	Subject  string `json:"subject_pos"`
	Root     string `json:"root_pos"`
	Upd      bool   `json:"updatable"`
	Loader   int    `json:"loader,omitempty"` // which document loader the MerklizerOpts carry (drivers with several loaders)
	Salted   bool   `json:"salted,omitempty"` // the MerklizerOpts also carry WithHasher(SaltedHasher())
}

func (o Opts) Coq(f *coqgen.File) string {
	return fmt.Sprintf("mk_opts %s %s %s %s %s", coqgen.Limbs(new(big.Int).SetUint64(o.RevNonce)),
		coqgen.Limbs(new(big.Int).SetUint64(uint64(o.Version))), f.Str(o.Subject), f.Str(o.Root), coqgen.Bool(o.Upd))
}

func (e *Env) Real(o Opts) *verifiable.CoreClaimOptions {
	return &verifiable.CoreClaimOptions{RevNonce: o.RevNonce, Version: o.Version, SubjectPosition: o.Subject,
		MerklizedRootPosition: o.Root, Updatable: o.Upd, MerklizerOpts: e.MerklizeOptsFor(o)}
}

func FromReal(o *verifiable.CoreClaimOptions) Opts {
	return Opts{RevNonce: o.RevNonce, Version: o.Version, Subject: o.SubjectPosition, Root: o.MerklizedRootPosition, Upd: o.Updatable}
}
