package credgen

import (
	"encoding/binary"
	"encoding/hex"
	"math/bits"
)

// An independent Keccak-256 (original padding 0x01, as used by Ethereum and by
// the repository's utils.Keccak256), so that the schema-hash oracle does not
// rest on the code under test.  Checked against known answers at start-up.

var keccakRC = [24]uint64{
	0x0000000000000001, 0x0000000000008082, 0x800000000000808A, 0x8000000080008000,
	0x000000000000808B, 0x0000000080000001, 0x8000000080008081, 0x8000000000008009,
	0x000000000000008A, 0x0000000000000088, 0x0000000080008009, 0x000000008000000A,
	0x000000008000808B, 0x800000000000008B, 0x8000000000008089, 0x8000000000008003,
	0x8000000000008002, 0x8000000000000080, 0x000000000000800A, 0x800000008000000A,
	0x8000000080008081, 0x8000000000008080, 0x0000000080000001, 0x8000000080008008,
}
var keccakRot = [24]int{1, 3, 6, 10, 15, 21, 28, 36, 45, 55, 2, 14, 27, 41, 56, 8, 25, 43, 62, 18, 39, 61, 20, 44}
var keccakPi = [24]int{10, 7, 11, 17, 18, 3, 5, 16, 8, 21, 24, 4, 15, 23, 19, 13, 12, 2, 20, 14, 22, 9, 6, 1}

func keccakF(st *[25]uint64) {
	for round := 0; round < 24; round++ {
		var bc [5]uint64
		for i := 0; i < 5; i++ {
			bc[i] = st[i] ^ st[i+5] ^ st[i+10] ^ st[i+15] ^ st[i+20]
		}
		for i := 0; i < 5; i++ {
			t := bc[(i+4)%5] ^ bits.RotateLeft64(bc[(i+1)%5], 1)
			for j := 0; j < 25; j += 5 {
				st[j+i] ^= t
			}
		}
		t := st[1]
		for i := 0; i < 24; i++ {
			j := keccakPi[i]
			b := st[j]
			st[j] = bits.RotateLeft64(t, keccakRot[i])
			t = b
		}
		for j := 0; j < 25; j += 5 {
			for i := 0; i < 5; i++ {
				bc[i] = st[j+i]
			}
			for i := 0; i < 5; i++ {
				st[j+i] ^= (^bc[(i+1)%5]) & bc[(i+2)%5]
			}
		}
		st[0] ^= keccakRC[round]
	}
}

// Keccak256 of msg.
func Keccak256(msg []byte) []byte {
	const rate = 136
	var st [25]uint64
	p := append([]byte{}, msg...)
	p = append(p, 0x01)
	for len(p)%rate != 0 {
		p = append(p, 0)
	}
	p[len(p)-1] |= 0x80
	for off := 0; off < len(p); off += rate {
		for i := 0; i < rate/8; i++ {
			st[i] ^= binary.LittleEndian.Uint64(p[off+8*i:])
		}
		keccakF(&st)
	}
	out := make([]byte, 32)
	for i := 0; i < 4; i++ {
		binary.LittleEndian.PutUint64(out[8*i:], st[i])
	}
	return out
}

func init() {
	for msg, want := range map[string]string{
		"":    "c5d2460186f7233c927e7db2dcc703c0e500b653ca82273b7bfad8045d85a470",
		"abc": "4e03657aea45a94fc7d47ba826c8d667c0d1e6e33a64a036ec44f58fa12d6c45",
		// 200 bytes: crosses the 136-byte rate
		string(make([]byte, 200)): "",
	} {
		got := hex.EncodeToString(Keccak256([]byte(msg)))
		if want != "" && got != want {
			panic("credgen: Keccak-256 self-test failed for " + msg + ": " + got)
		}
	}
	// go-iden3-core documents: Keccak256(auth schema id), last 16 bytes = cca3371a6cb1b715004407e325bd993c
	h := Keccak256([]byte("https://schema.iden3.io/core/jsonld/auth.jsonld#AuthBJJCredential"))
	if hex.EncodeToString(h[16:]) != "cca3371a6cb1b715004407e325bd993c" {
		panic("credgen: Keccak-256 self-test failed for the auth schema id")
	}
}
