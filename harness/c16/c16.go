// Package c16: a configured hasher is honoured end to end (property C16).
// Hashers {poseidon, salted HashBytes, wrapped Hash, both, primes 65521 / 2^31-1 /
// 2^61-1} x documents x derived objects.  Uses the scenario machinery of c02.
package c16

import (
	"bytes"
	"context"
	"encoding/json"
	"fmt"
	"math/big"
	"sort"
	"strconv"
	"strings"
	"time"

	"github.com/iden3/go-merkletree-sql/v2"
	"github.com/iden3/go-schema-processor/v2/merklize"

	"vharness/c02"
	"vharness/common"
	"vharness/ctxload"
	"vharness/docgen"
	"vharness/hashers"
	"vharness/mzrun"
)

func init() { common.Register("C16", Run) }

const xsd = "http://www.w3.org/2001/XMLSchema#"

// independent recomputation of a path key with the RAW hasher (not through the merklizer)
func indepKey(h merklize.Hasher, parts []any) (*big.Int, error) {
	var in []*big.Int
	for _, p := range parts {
		switch x := p.(type) {
		case string:
			z, err := h.HashBytes([]byte(x))
			if err != nil {
				return nil, err
			}
			in = append(in, z)
		case int:
			in = append(in, big.NewInt(int64(x)))
		}
	}
	return h.Hash(in)
}

// independent recomputation of a leaf value with the RAW hasher, from the property text:
// strings through HashBytes, booleans Hash([0|1]), integers v / prime+v, instants ns mod prime
func indepValue(h merklize.Hasher, v any) (*big.Int, error) {
	switch x := v.(type) {
	case string:
		return h.HashBytes([]byte(x))
	case bool:
		if x {
			return h.Hash([]*big.Int{big.NewInt(1)})
		}
		return h.Hash([]*big.Int{big.NewInt(0)})
	case int64:
		z := big.NewInt(x)
		if x < 0 {
			z.Add(z, h.Prime())
		}
		return z, nil
	case *big.Int:
		z := new(big.Int).Set(x)
		if x.Sign() < 0 {
			z.Add(z, h.Prime())
		}
		return z, nil
	case time.Time:
		z := new(big.Int).Mul(big.NewInt(x.Unix()), big.NewInt(1_000_000_000))
		z.Add(z, big.NewInt(int64(x.Nanosecond())))
		return z.Mod(z, h.Prime()), nil
	}
	return nil, fmt.Errorf("unknown value kind %T", v)
}

type drv struct {
	e   *c02.Env
	rep *common.Report
	cfg *common.Config
}

func sampleValues(r interface{ Intn(int) int }, p *big.Int) []any {
	half := new(big.Int).Rsh(new(big.Int).Sub(p, big.NewInt(1)), 1)
	return []any{
		"a string", "", true, false, int64(0), int64(7 + r.Intn(100)), int64(-1 - r.Intn(100)), 5,
		time.Unix(int64(1600000000+r.Intn(100000000)), int64(r.Intn(1000000000))).UTC(),
		big.NewInt(int64(r.Intn(1000))), new(big.Int).Neg(big.NewInt(int64(1 + r.Intn(1000)))),
		new(big.Int).Set(half), new(big.Int).Neg(half), new(big.Int).Neg(new(big.Int).Add(half, big.NewInt(1))),
		new(big.Int).Sub(p, big.NewInt(1)), new(big.Int).Set(p),
	}
}

// scenario: everything a caller derives from a configured merklizer
func (d *drv) scenario(in c02.Input) *c02.Scen {
	e := d.e
	defer e.LocalRng(in.RngSeed)()
	s := e.NewScen(in)
	defer e.Close(s)
	if s.Out.Class != "ok" || s.NoCoq != "" {
		return s
	}
	raw := c02.Families()[in.Hasher] // the hasher itself, not the recorder the merklizer holds
	if !in.Cfg {
		raw = c02.Families()[in.DefaultFamily] // the package default in force when the merklizer was built
	}
	r := d.cfg.Rng
	d.rep.Count(fmt.Sprintf("hasher:%s cfg=%v", c02.FamilyName(in.Hasher), in.Cfg))
	e.RootStep(s)
	if in.Cfg && s.Mz.Hasher() != merklize.Hasher(s.Rc) {
		d.rep.Fail("c16-hasher-accessor", "Merklizer.Hasher() is not the configured hasher", in)
	}
	ctx := context.Background()
	for _, v := range s.Entries {
		e.Proof(s, 0, v.Parts, "member")
		e.EntryStep(s, 0, v.Parts)
		e.PathKeyStep(s, 0, v.Parts)
		if len(v.Parts) <= 5 {
			e.BuildChecks(s, v.Parts)
		}
		e.ArgSliceChecks(s, v.Parts)
		e.MutationBuilt(s, v.Parts, "built")
		fin := map[string]any{"scenario": in, "path": v.Parts}
		if !in.Cfg && in.SetAfter == 0 {
			// package-level constructors pin the LIVE package default, which is this merklizer's hasher
			e.Proof(s, 1, v.Parts, "member")
			pp, _ := merklize.NewPath(v.Parts...)
			ne, nerr := merklize.NewRDFEntry(pp, v.Value)
			k0, _ := indepKey(raw, v.Parts)
			iv, ierr := indepValue(raw, v.Value)
			if nerr == nil && k0 != nil {
				nk, nv, kverr := ne.KeyValueMtEntries()
				if kverr != nil || nk.Cmp(k0) != 0 || (ierr == nil && nv.Cmp(iv) != 0) {
					d.rep.Fail("c16-package-constructor-hasher", fmt.Sprintf("merklize.NewRDFEntry(merklize.NewPath(%v), v) does not hash with the package default hasher selected by SetHasher", v.Parts), fin)
				}
			}
			if hv, herr := merklize.HashValue(v.Datatype, hashValueArg(v.Value)); herr == nil && ierr == nil && v.Datatype != "" && hv.Cmp(iv) != 0 {
				if _, isStr := v.Value.(string); isStr {
					d.rep.Fail("c16-package-constructor-hasher", fmt.Sprintf("merklize.HashValue of the string value of %v does not use the package default hasher", v.Parts), fin)
				}
			}
		}
		// keys and values handed out == recomputed with the raw configured hasher
		p, _ := s.Mz.Options().NewPath(v.Parts...)
		k1, err1 := p.MtEntry()
		k0, err0 := indepKey(raw, v.Parts)
		if err0 != nil || err1 != nil || k0.Cmp(k1) != 0 {
			d.rep.Fail("c16-key-not-by-configured-hasher", fmt.Sprintf("key of %v from Options().NewPath differs from the configured hasher's own result", v.Parts), fin)
			continue
		}
		sk, _ := v.Entry.KeyMtEntry()
		sv, _ := v.Entry.ValueMtEntry()
		iv, ierr := indepValue(raw, v.Value)
		if sk == nil || sk.Cmp(k0) != 0 {
			d.rep.Fail("c16-key-not-by-configured-hasher", fmt.Sprintf("stored entry %v: KeyMtEntry differs from the configured hasher's own result", v.Parts), fin)
		}
		if ierr != nil || sv == nil || sv.Cmp(iv) != 0 {
			d.rep.Fail("c16-value-not-by-configured-hasher", fmt.Sprintf("stored entry %v: ValueMtEntry differs from the configured hasher's own result", v.Parts), fin)
		}
		proof, val, perr := s.Mz.Proof(ctx, p)
		if perr != nil || val == nil {
			d.rep.Fail("c16-proof", fmt.Sprintf("no existence proof + Value for entry %v", v.Parts), fin)
			continue
		}
		vh, _ := val.MtEntry()
		if vh == nil || ierr != nil || vh.Cmp(iv) != 0 {
			d.rep.Fail("c16-value-not-by-configured-hasher", fmt.Sprintf("entry %v: the returned Value's MtEntry differs from the configured hasher's own result", v.Parts), fin)
		}
		if ierr == nil && !merkletree.VerifyProof(s.Mz.Root(), proof, k0, iv) {
			d.rep.Fail("c16-leaf-not-by-configured-hasher", fmt.Sprintf("entry %v: proof does not verify for (key, value hash) recomputed with the configured hasher", v.Parts), fin)
		}
		// entry re-created through Options hashes identically
		ne, nerr := s.Mz.Options().NewRDFEntry(p, v.Value)
		if nerr == nil {
			nk, nv, kverr := ne.KeyValueMtEntries()
			if kverr != nil || nk.Cmp(k0) != 0 || (ierr == nil && nv.Cmp(iv) != 0) {
				d.rep.Fail("c16-options-entry-differs", fmt.Sprintf("entry %v re-created through Options() hashes differently", v.Parts), fin)
			}
		}
	}
	// EVERY path-producing API reachable from Options / the merklizer: the returned Path must
	// hash with the configured hasher; when its parts are those of a stored entry, its key must be
	// the entry's key and Proof must return a verifying existence proof
	byParts := map[string]mzrun.EntryView{}
	for _, v := range s.Entries {
		byParts[fmt.Sprintf("%#v", v.Parts)] = v
	}
	type producer struct {
		name string
		pk   int
		arg  string
		mk   func() (merklize.Path, error)
	}
	var prods []producer
	optsList := []struct {
		name string
		o    merklize.Options
	}{{"mz.Options()", s.Mz.Options()}}
	if in.Cfg {
		optsList = append(optsList, struct {
			name string
			o    merklize.Options
		}{"Options{Hasher}", merklize.Options{Hasher: s.Rc, DocumentLoader: e.Loader}})
	}
	for _, dp := range in.DocPaths {
		dp := dp
		prods = append(prods, producer{"Merklizer.ResolveDocPath", 5, dp, func() (merklize.Path, error) { return s.Mz.ResolveDocPath(dp) }})
		for _, ol := range optsList {
			o := ol.o
			prods = append(prods, producer{ol.name + ".NewPathFromDocument", 4, dp, func() (merklize.Path, error) { return o.NewPathFromDocument(in.Doc, dp) }})
		}
	}
	if len(in.CtxBytes) > 0 && in.TypeTerm != "" {
		for _, fp := range in.FieldPaths {
			fp := fp
			for _, ol := range optsList {
				o := ol.o
				prods = append(prods,
					producer{ol.name + ".PathFromContext", 2, in.TypeTerm + "." + fp, func() (merklize.Path, error) { return o.PathFromContext(in.CtxBytes, in.TypeTerm+"."+fp) }},
					producer{ol.name + ".FieldPathFromContext", 3, in.TypeTerm + " / " + fp, func() (merklize.Path, error) { return o.FieldPathFromContext(in.CtxBytes, in.TypeTerm, fp) }})
			}
		}
		for _, ol := range optsList {
			o := ol.o
			prods = append(prods, producer{ol.name + ".PathFromContext", 2, in.TypeTerm, func() (merklize.Path, error) { return o.PathFromContext(in.CtxBytes, in.TypeTerm) }})
		}
	}
	if !in.Cfg && in.SetAfter == 0 && len(in.Ctx) == 0 {
		// package-level resolvers (inline contexts only: they use the package default document loader)
		for _, dp := range in.DocPaths {
			dp := dp
			prods = append(prods, producer{"merklize.NewPathFromDocument", 1, dp, func() (merklize.Path, error) { return merklize.NewPathFromDocument(in.Doc, dp) }})
		}
		if len(in.CtxBytes) > 0 && in.TypeTerm != "" {
			for _, fp := range in.FieldPaths {
				fp := fp
				prods = append(prods,
					producer{"merklize.NewPathFromContext", 1, in.TypeTerm + "." + fp, func() (merklize.Path, error) { return merklize.NewPathFromContext(in.CtxBytes, in.TypeTerm+"."+fp) }},
					producer{"merklize.NewFieldPathFromContext", 1, in.TypeTerm + " / " + fp, func() (merklize.Path, error) { return merklize.NewFieldPathFromContext(in.CtxBytes, in.TypeTerm, fp) }})
			}
		}
	}
	for _, pr := range prods {
		p, err := pr.mk()
		if err != nil {
			d.rep.Count("path-api-error:" + pr.name)
			continue
		}
		d.rep.Count("path-api:" + pr.name)
		d.rep.Evaluations++
		e.PathObjKeyStep(s, pr.pk, p)
		fin := map[string]any{"scenario": in, "api": pr.name, "arg": pr.arg}
		k, kerr := p.MtEntry()
		k0, err0 := indepKey(raw, p.Parts())
		if (kerr == nil) != (err0 == nil) || (kerr == nil && k.Cmp(k0) != 0) {
			d.rep.Fail("c16-resolved-path-hasher", fmt.Sprintf("the path %v returned by %s(%q) does not hash with the merklizer's hasher", p.Parts(), pr.name, pr.arg), fin)
			continue
		}
		// the path completed by the caller with Prepend / Append (copies mutated independently)
		if kerr == nil {
			orig := append([]any{}, p.Parts()...)
			q1, q2 := p, p
			_ = q1.Prepend("urn:subject:1", 2)
			_ = q2.Prepend("urn:subject:2")
			_ = q2.Append(docgen.Vocab+"tail", 0)
			w1 := append([]any{"urn:subject:1", 2}, orig...)
			w2 := append(append([]any{"urn:subject:2"}, orig...), docgen.Vocab+"tail", 0)
			for qi, q := range []merklize.Path{q1, q2} {
				want := [][]any{w1, w2}[qi]
				qk, qerr := q.MtEntry()
				wk, werr := indepKey(raw, want)
				switch {
				case fmt.Sprintf("%#v", q.Parts()) != fmt.Sprintf("%#v", want):
					d.rep.Fail("c16-path-build-order", fmt.Sprintf("%s(%q) then Prepend/Append on a copy: parts %v, expected %v", pr.name, pr.arg, q.Parts(), want), fin)
				case qerr != nil || werr != nil || qk.Cmp(wk) != 0:
					d.rep.Fail("c16-path-build-key", fmt.Sprintf("%s(%q) extended with Prepend/Append no longer hashes with the configured hasher", pr.name, pr.arg), fin)
				}
			}
			if fmt.Sprintf("%#v", p.Parts()) != fmt.Sprintf("%#v", orig) {
				d.rep.Fail("c16-path-aliasing", fmt.Sprintf("%s(%q): mutating copies changed the original path %v -> %v", pr.name, pr.arg, orig, p.Parts()), fin)
			}
			e.PathObjKeyStep(s, pr.pk, q1)
		}
		if v, isEntry := byParts[fmt.Sprintf("%#v", p.Parts())]; isEntry && kerr == nil {
			d.rep.Count("path-api-member:" + pr.name)
			sk, _ := v.Entry.KeyMtEntry()
			proof, val, perr := s.Mz.Proof(ctx, p)
			switch {
			case sk == nil || sk.Cmp(k) != 0:
				d.rep.Fail("c16-resolved-path-key", fmt.Sprintf("%s(%q): key differs from the key the entry %v is stored under", pr.name, pr.arg, v.Parts), fin)
			case perr != nil || !proof.Existence || val == nil:
				d.rep.Fail("c16-resolved-path-proof", fmt.Sprintf("%s(%q): no existence proof for the stored entry %v", pr.name, pr.arg, v.Parts), fin)
			default:
				if vh, _ := val.MtEntry(); vh == nil || !merkletree.VerifyProof(s.Mz.Root(), proof, k, vh) {
					d.rep.Fail("c16-resolved-path-proof", fmt.Sprintf("%s(%q): proof for %v does not verify", pr.name, pr.arg, v.Parts), fin)
				}
			}
		}
	}
	// non-members (a few), derived objects of every value kind
	nm := e.NonMembers(s, 1)
	var fams []string
	for k := range nm {
		fams = append(fams, k)
	}
	sort.Strings(fams)
	for _, fam := range fams {
		for _, parts := range nm[fam] {
			e.Proof(s, 0, parts, fam)
		}
	}
	vals := sampleValues(r, raw.Prime())
	for i := 0; i < 5; i++ {
		v := vals[r.Intn(len(vals))]
		parts := []any{docgen.Vocab + "derived", r.Intn(3)}
		if r.Intn(8) == 0 {
			parts = []any{}
		}
		e.NewEntryStep(s, parts, v)
		if _, isInt := v.(int); !isInt {
			e.ValueStep(s, v)
		}
	}
	// restored from bytes with the same hasher: same root, proofs verify
	if in.Cfg && len(s.Entries) > 0 {
		b, merr := s.Mz.MarshalBinary()
		if merr == nil {
			mz2, rerr := merklize.MerklizerFromBytes(b, merklize.WithHasher(s.Rc))
			switch {
			case rerr != nil:
				d.rep.Fail("c16-restore-error", "MerklizerFromBytes with the same hasher failed: "+rerr.Error(), in)
			case mz2.Root().BigInt().Cmp(s.Mz.Root().BigInt()) != 0:
				d.rep.Fail("c16-restored-root", "merklizer restored from bytes with the same hasher has a different root", in)
			default:
				v := s.Entries[r.Intn(len(s.Entries))]
				p, _ := mz2.Options().NewPath(v.Parts...)
				proof, val, perr := mz2.Proof(ctx, p)
				k, _ := p.MtEntry()
				if perr != nil || val == nil || k == nil {
					d.rep.Fail("c16-restored-proof", fmt.Sprintf("restored merklizer: no existence proof for %v", v.Parts), in)
				} else if vh, _ := val.MtEntry(); vh == nil || !merkletree.VerifyProof(s.Mz.Root(), proof, k, vh) {
					d.rep.Fail("c16-restored-proof", fmt.Sprintf("restored merklizer: proof of %v does not verify against the original root", v.Parts), in)
				}
			}
		}
	}
	return s
}

// boundary documents: one integer literal at the edge of the range of the hasher's prime
func boundaryDocs(p *big.Int) []struct {
	Doc    []byte
	Accept bool
	What   string
} {
	half := new(big.Int).Rsh(new(big.Int).Sub(p, big.NewInt(1)), 1)
	one := big.NewInt(1)
	type c struct {
		dt     string
		v      *big.Int
		accept bool
	}
	cs := []c{
		{"integer", new(big.Int).Set(half), true},
		{"integer", new(big.Int).Add(half, one), false},
		{"integer", new(big.Int).Neg(half), true},
		{"integer", new(big.Int).Neg(new(big.Int).Add(half, one)), false},
		{"positiveInteger", new(big.Int).Sub(p, one), true},
		{"positiveInteger", new(big.Int).Set(p), false},
		{"nonNegativeInteger", new(big.Int).Sub(p, one), true},
		{"nonNegativeInteger", new(big.Int).Set(p), false},
		{"negativeInteger", new(big.Int).Neg(half), true},
		{"negativeInteger", new(big.Int).Neg(new(big.Int).Add(half, one)), false},
		{"nonPositiveInteger", new(big.Int).Neg(new(big.Int).Add(half, one)), false},
		{"integer", big.NewInt(-3), true},
	}
	var out []struct {
		Doc    []byte
		Accept bool
		What   string
	}
	for _, x := range cs {
		doc := map[string]any{
			"@context": map[string]any{"n": map[string]any{"@id": docgen.Vocab + "n", "@type": xsd + x.dt},
				"s": map[string]any{"@id": docgen.Vocab + "s", "@type": xsd + "string"}},
			"@id": "urn:boundary", "n": x.v.String(), "s": "text",
		}
		b, _ := json.Marshal(doc)
		out = append(out, struct {
			Doc    []byte
			Accept bool
			What   string
		}{b, x.accept, fmt.Sprintf("xsd:%s %s", x.dt, x.v)})
	}
	return out
}

// fixedInput: type-scoped context with a nested property-scoped one; every field is reachable by
// PathFromContext, FieldPathFromContext, NewPathFromDocument and ResolveDocPath.
func fixedInput(hi int, seed int64) c02.Input {
	v := docgen.Vocab
	ctx := map[string]any{
		"@version": 1.1,
		"Person": map[string]any{"@id": v + "Person", "@context": map[string]any{
			"name": map[string]any{"@id": v + "name", "@type": xsd + "string"},
			"age":  map[string]any{"@id": v + "age", "@type": xsd + "integer"},
			"member": map[string]any{"@id": v + "member", "@type": xsd + "boolean"},
			"since": map[string]any{"@id": v + "since", "@type": xsd + "dateTime"},
			"address": map[string]any{"@id": v + "address", "@context": map[string]any{
				"city": map[string]any{"@id": v + "city", "@type": xsd + "string"},
				"zip":  map[string]any{"@id": v + "zip", "@type": xsd + "integer"}}},
		}},
	}
	doc := map[string]any{"@context": ctx, "@id": "urn:person:1", "@type": "Person",
		"name": "Ann", "age": -41, "member": true, "since": "2021-03-04T05:06:07Z",
		"address": map[string]any{"city": "Zug", "zip": 6300}}
	b, _ := json.Marshal(doc)
	cb, _ := json.Marshal(map[string]any{"@context": ctx})
	fields := []string{"name", "age", "member", "since", "address.city", "address.zip"}
	return c02.Input{Doc: b, Hasher: hi, Cfg: true, RngSeed: seed, DSLevel: hi%2 == 0,
		DocPaths: fields, CtxBytes: cb, TypeTerm: "Person", FieldPaths: fields}
}

// hashValueBoundary: merklize.HashValueWithHasher(h, xsd integer type, v) at the edges of the ranges of
// h's prime p: accepted exactly for lo <= v <= hi of the type, encoded as v / p+v.
func (d *drv) hashValueBoundary(hi int, sh *c02.Shards) {
	h := c02.Families()[hi]
	p := h.Prime()
	half := new(big.Int).Rsh(new(big.Int).Sub(p, big.NewInt(1)), 1)
	add := func(a *big.Int, k int64) *big.Int { return new(big.Int).Add(a, big.NewInt(k)) }
	neg := func(a *big.Int) *big.Int { return new(big.Int).Neg(a) }
	type rng struct {
		dt     string
		lo, hi *big.Int
	}
	rs := []rng{
		{"integer", neg(half), half},
		{"positiveInteger", big.NewInt(1), add(p, -1)},
		{"nonNegativeInteger", big.NewInt(0), add(p, -1)},
		{"negativeInteger", neg(half), big.NewInt(-1)},
		{"nonPositiveInteger", neg(half), big.NewInt(0)},
	}
	vals := []*big.Int{half, add(half, 1), add(half, 2), add(p, -2), add(p, -1), new(big.Int).Set(p), add(p, 1),
		neg(half), add(neg(half), -1), add(neg(half), -3), big.NewInt(-1), big.NewInt(0), big.NewInt(1),
		add(half, -1), add(neg(half), 1)}
	for _, r := range rs {
		for _, v := range vals {
			var args []any
			args = append(args, v.String())
			if v.IsInt64() {
				args = append(args, v.Int64())
			}
			for _, a := range args {
				rc := hashers.NewRecorder(c02.Families()[hi])
				got, err := merklize.HashValueWithHasher(rc, xsd+r.dt, a)
				d.rep.Evaluations++
				d.rep.Count("hashvalue-boundary")
				in := map[string]any{"hash_value": true, "hasher": hi, "datatype": xsd + r.dt, "value": fmt.Sprint(a), "go_int": fmt.Sprintf("%T", a) == "int64"}
				inRange := v.Cmp(r.lo) >= 0 && v.Cmp(r.hi) <= 0
				want := new(big.Int).Set(v)
				if v.Sign() < 0 {
					want.Add(want, p)
				}
				switch {
				case inRange && (err != nil || got == nil || got.Cmp(want) != 0):
					d.rep.Fail("c16-hashvalue-int-range", fmt.Sprintf("HashValueWithHasher(%s, xsd:%s, %v): in range of the hasher's prime %v but result %v, %v", c02.FamilyName(hi), r.dt, a, p, got, err), in)
				case !inRange && err == nil:
					d.rep.Fail("c16-hashvalue-int-range", fmt.Sprintf("HashValueWithHasher(%s, xsd:%s, %v) = %v: outside the range of the hasher's prime %v but accepted", c02.FamilyName(hi), r.dt, a, got, p), in)
				}
				var out *big.Int
				if err == nil {
					out = got
				}
				sh.AddCase(&c02.HVCase{In: in, H: rc, DT: xsd + r.dt, V: a, Out: out})
			}
		}
	}
}

func hashValueArg(v any) any {
	if b, ok := v.(*big.Int); ok {
		return b.String()
	}
	return v
}

func (d *drv) boundary(hi int, sh *c02.Shards) {
	p := c02.Families()[hi].Prime()
	for _, bd := range boundaryDocs(p) {
		in := c02.Input{Doc: bd.Doc, Hasher: hi, Cfg: true, DSLevel: true, RngSeed: d.cfg.Rng.Int63()}
		d.rep.Distinct(fmt.Sprintf("%s|%d|b", bd.Doc, hi))
		d.rep.Count("boundary")
		s := d.scenario(in)
		if (s.Out.Class == "ok") != bd.Accept {
			d.rep.Fail("c16-int-range", fmt.Sprintf("%s under prime %s: accepted=%v, the configured hasher's range says %v", bd.What, p, s.Out.Class == "ok", bd.Accept), in)
		}
		sh.Add(s)
	}
}

func Run(cfg *common.Config) (*common.Report, error) {
	rep := common.NewReport("C16")
	rep.Correspondence = "Merklizer.Run.mmismatches: merklize_from_entries / merklize_ds + Script.run_step (path keys, proofs, values, entries and new entries through the merklizer's options; coq/Merklizer/Model.v, Script.v) evaluated with the CONFIGURED hasher's recorded primitive tables and the (empty when configured) table of the package default hasher, vs merklize.MerklizeJSONLD(WithHasher), Options().NewPath / NewRDFEntry, MkValue, Proof, Entry, Root"
	rep.Rule = "hashers {poseidon, salted HashBytes, wrapped Hash, both, primes 65521, 2^31-1, 2^61-1} configured with WithHasher (plus unconfigured controls) x docgen documents x derived objects (all member paths: key, proof, Value, entry, re-created entry; non-member paths; new entries and values of every Go kind incl. range-edge big integers; restore from bytes) and integer-boundary documents per prime (dataset-level cases). A counting recorder is installed as package default (merklize.SetHasher) for every scenario and restored afterwards. distinct = distinct (document, hasher, configured)."
	e := &c02.Env{Cfg: cfg, Rep: rep, Loader: ctxload.New(), Prop: "c16"}
	d := &drv{e: e, rep: rep, cfg: cfg}
	sh := &c02.Shards{Env: e, Size: 10}
	if cfg.Replay != "" {
		var hv struct {
			Input struct {
				HashValue bool   `json:"hash_value"`
				Hasher    int    `json:"hasher"`
				Datatype  string `json:"datatype"`
				Value     string `json:"value"`
				GoInt     bool   `json:"go_int"`
			} `json:"input"`
		}
		if common.ReadJSON(cfg.Replay, &hv) == nil && hv.Input.HashValue {
			var a any = hv.Input.Value
			if hv.Input.GoInt {
				z, _ := new(big.Int).SetString(hv.Input.Value, 10)
				a = z.Int64()
			}
			rc := hashers.NewRecorder(c02.Families()[hv.Input.Hasher])
			got, err := merklize.HashValueWithHasher(rc, hv.Input.Datatype, a)
			fmt.Printf("replay: HashValueWithHasher(%s, %s, %v) = %v, %v (prime %v)\n", c02.FamilyName(hv.Input.Hasher), hv.Input.Datatype, a, got, err, rc.Prime())
			d.hashValueBoundary(hv.Input.Hasher, sh)
			return rep, sh.Write("C16")
		}
		if sin, ok := c02.ReadSharedReplay(cfg, e.Loader); ok {
			if s := e.SharedScenario(sin); s != nil {
				fmt.Printf("replay: shared-tree scenario, %d documents, %d merklizers\n", len(sin.Docs), len(s.Mzs))
				sh.AddCase(s)
			}
			return rep, sh.Write("C16")
		}
		in, err := c02.ReadReplay(cfg, e.Loader)
		if err != nil {
			return nil, err
		}
		s := d.scenario(in)
		fmt.Printf("replay: merklize=%s %s; %d entries; no-coq=%q; default hasher calls=%d\n", s.Out.Class, s.Out.Msg, len(s.Entries), s.NoCoq, s.DefCnt.N)
		sh.Add(s)
		return rep, sh.Write("C16")
	}
	g := docgen.New(cfg.Rng)
	nfam := len(c02.Families())
	n := cfg.Pick(70, 1400)
	for i := 0; i < n; i++ {
		doc := g.Valid(1 + cfg.Rng.Intn(3))
		all := map[string]string{}
		for u, b := range g.CtxURLs {
			if e.Loader.Raw(u) == nil {
				_ = e.Loader.Add(u, b)
			}
			if bytes.Contains(doc.Bytes, []byte(u)) {
				all[u] = string(b)
			}
		}
		in := c02.Input{Doc: doc.Bytes, Ctx: all, Hasher: i % nfam, Cfg: i%10 != 9, DSLevel: i%5 == 0, RngSeed: cfg.Rng.Int63()}
		seenFP := map[string]bool{}
		for li, lf := range doc.Leaves {
			if li < 6 {
				in.DocPaths = append(in.DocPaths, strings.Join(lf.DocPath, "."))
				var terms []string
				for _, t := range lf.DocPath {
					if _, err := strconv.Atoi(t); err != nil {
						terms = append(terms, t)
					}
				}
				if fp := strings.Join(terms, "."); fp != "" && !seenFP[fp] {
					seenFP[fp] = true
					in.FieldPaths = append(in.FieldPaths, fp)
				}
			}
		}
		if c, ok := doc.Obj["@context"]; ok && doc.Root != nil {
			in.CtxBytes, _ = json.Marshal(map[string]any{"@context": c})
			in.TypeTerm = doc.Root.Term
		}
		if !in.Cfg {
			in.Hasher = 0
		}
		switch i % 10 {
		case 3, 6: // SetHasher(B) first, nothing configured: everything follows the live default
			in.Cfg, in.Hasher, in.DefaultFamily, in.DSLevel = false, 0, 1+cfg.Rng.Intn(nfam-1), false
		case 4, 8: // built under A, then SetHasher(B), then the queries
			in.Cfg, in.Hasher, in.DSLevel = false, 0, false
			in.DefaultFamily = []int{0, 2, 5}[cfg.Rng.Intn(3)]
			in.SetAfter = 1 + []int{1, 3, 4, 6}[cfg.Rng.Intn(4)]
		}
		rep.Distinct(fmt.Sprintf("%s|%d|%v|%d|%d", doc.Bytes, in.Hasher, in.Cfg, in.DefaultFamily, in.SetAfter))
		s := d.scenario(in)
		eff := in.Hasher
		if !in.Cfg {
			eff = in.DefaultFamily
		}
		if doc.Expect == "ok" && s.Out.Class != "ok" && (eff < 4 || eff == 8) {
			rep.Fail("c16-valid-rejected", "valid document rejected under a full-size hasher: "+s.Out.Msg, in)
		}
		if s.Out.Class == "ok" && i%13 == 0 {
			rep.Sample(map[string]any{"doc": string(doc.Bytes), "hasher": c02.FamilyName(in.Hasher), "configured": in.Cfg, "entries": len(s.Entries)})
		}
		sh.Add(s)
	}
	for hi := 0; hi < nfam; hi++ {
		if cfg.Thorough() || hi == 0 || hi >= 4 || hi == 2 {
			d.boundary(hi, sh)
		}
	}
	// a fixed typed document whose every field resolves through every path API, under every hasher
	for hi := 0; hi < nfam; hi++ {
		in := fixedInput(hi, cfg.Rng.Int63())
		rep.Distinct(fmt.Sprintf("fixed|%d", hi))
		rep.Count("fixed-typed-document")
		sh.Add(d.scenario(in))
		// the same document with the hasher selected through SetHasher only, and with a later SetHasher
		in2 := fixedInput(0, cfg.Rng.Int63())
		in2.Cfg, in2.DefaultFamily, in2.DSLevel = false, hi, false
		rep.Count("sethasher-before-build")
		sh.Add(d.scenario(in2))
		in3 := fixedInput(0, cfg.Rng.Int63())
		in3.Cfg, in3.DefaultFamily, in3.SetAfter, in3.DSLevel = false, hi, 1+(hi+1)%nfam, false
		rep.Count("sethasher-after-build")
		sh.Add(d.scenario(in3))
	}
	// the hand-written must-resolve documents of C02 under configured hashers
	for _, hi := range []int{2, 4, 8} {
		for _, in := range c02.FixedInputs(hi, true, cfg.Rng) {
			rep.Distinct(fmt.Sprintf("fixed2|%s|%d", in.Doc, hi))
			rep.Count("fixed-document")
			sh.Add(d.scenario(in))
		}
	}
	// standalone HashValueWithHasher: the given hasher's PRIME decides the integer range
	for hi := 0; hi < nfam; hi++ {
		if cfg.Thorough() || hi == 0 || (hi >= 4 && hi <= 7) {
			d.hashValueBoundary(hi, sh)
		}
	}
	// several configured merklizers on one caller-provided tree (every hasher family)
	for i := 0; i < cfg.Pick(nfam, 10*nfam); i++ {
		sin := c02.SharedInput{Shared: true, Hasher: i % nfam, Cfg: true, Ctx: map[string]string{}, RngSeed: cfg.Rng.Int63()}
		doc := g.Valid(1 + cfg.Rng.Intn(2))
		for u, b := range g.CtxURLs {
			if e.Loader.Raw(u) == nil {
				_ = e.Loader.Add(u, b)
			}
			if bytes.Contains(doc.Bytes, []byte(u)) {
				sin.Ctx[u] = string(b)
			}
		}
		sin.Docs = append(sin.Docs, doc.Bytes, c02.DisjointDoc(cfg.Rng, fmt.Sprintf("c16s%d", i)))
		rep.Distinct(fmt.Sprintf("shared|%s|%d", sin.Docs, sin.Hasher))
		rep.Count("shared-scenario")
		if s := e.SharedScenario(sin); s != nil {
			sh.AddCase(s)
		}
	}
	_ = mzrun.Outcome{}
	return rep, sh.Write("C16")
}
