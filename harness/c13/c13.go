// Package c13: binary serialization round-trips to an observationally equal
// merklizer (property C13).
//
// Originals: merklizers of docgen documents (all literal kinds the documents can
// express: big integers incl. negatives, booleans, strings, times with offsets and
// nanoseconds) and merklizers restored from hand-built gob streams (additionally
// int64 values, large / negative big integers, times with odd zone offsets),
// under the default hasher and two custom hashers.  For each original:
//
//   - the real gob stream is parsed into its typed content (order, count, tags,
//     payload types) and compared with the Coq wire model evaluated on the same
//     entries and the same map order;
//   - restore with the same hasher: root, entry map (keys, parts, values incl.
//     zone offset, datatypes, hashers), source document, compacted document, safe
//     mode, and for every member path and several non-member paths Proof (flag,
//     siblings, aux, VerifyProof against the root, Value kind and hash), RawValue,
//     JSONLDType, Entry, ResolveDocPath;
//   - 20 repeated marshals (different map orders) all restore to the same root;
//   - restore into a caller-provided tree: matching / empty / unrelated;
//   - restore under the other hasher configuration (model comparison);
//   - single-entry round trips on a zero receiver and on an Options receiver.
package c13

import (
	"bytes"
	"context"
	"encoding/gob"
	"encoding/json"
	"fmt"
	"io"
	"math"
	"math/big"
	"os"
	"os/exec"
	"path/filepath"
	"reflect"
	"sort"
	"strings"
	"syscall"
	"time"

	"github.com/iden3/go-iden3-crypto/constants"
	"github.com/iden3/go-iden3-crypto/poseidon"
	"github.com/iden3/go-merkletree-sql/v2"
	"github.com/iden3/go-merkletree-sql/v2/db/memory"
	"github.com/iden3/go-schema-processor/v2/merklize"

	"vharness/common"
	"vharness/coqgen"
	"vharness/ctxload"
	"vharness/docgen"
	"vharness/hashers"
	"vharness/mzrun"
)

func init() { common.Register("C13", Run) }

// CraftedEntry describes one entry of a hand-built stream (replayable).
type CraftedEntry struct {
	Parts    []any  `json:"parts"` // string | int (float64 after a JSON round trip)
	Kind     string `json:"kind"`  // int64 | big | bool | string | time
	Val      string `json:"val"`   // decimal / true|false / the string / RFC3339Nano
	Datatype string `json:"datatype"`
}

type Input struct {
	Stream   string                     `json:"stream"`
	Doc      json.RawMessage            `json:"doc,omitempty"`
	Crafted  []CraftedEntry             `json:"crafted,omitempty"`
	Hasher   int                        `json:"hasher"`
	Cfg      bool                       `json:"cfg"` // WithHasher given
	Contexts map[string]json.RawMessage `json:"contexts,omitempty"`
	DocPaths []string                   `json:"doc_paths,omitempty"`
	Unsafe   bool                       `json:"unsafe,omitempty"` // original built with WithSafeMode(false) / stream written with safeMode=false
}

func families() []merklize.Hasher {
	p61, _ := new(big.Int).SetString("2305843009213693951", 10)
	return []merklize.Hasher{
		hashers.Default(),
		hashers.Mod{P: new(big.Int).Set(constants.Q), SaltBytes: []byte("salt:"), SaltElem: big.NewInt(77), Name: "salted"},
		hashers.Mod{P: p61, SaltBytes: []byte("m61:"), Name: "mod2^61-1"},
	}
}

type drv struct {
	cfg    *common.Config
	rep    *common.Report
	loader *ctxload.Loader
	// pub: the package default loader during the run; it knows only the standard public contexts,
	// NOT the generated https://ctx.example/N contexts that only `loader` (WithDocumentLoader) serves
	pub    *ctxload.Loader
	gen    *docgen.Gen
	scens  []*scen
	orders map[int]int
	// hugeOK: a child process (address space capped) has shown that a declared count of 2^40 is
	// rejected without allocating; only then is that stream also fed to MerklizerFromBytes in-process
	hugeOK     bool
	hugeProbes int
	// blobs of earlier scenarios, kept across later MarshalBinary calls of OTHER merklizers
	held []heldBlob
	tiny *merklize.Merklizer
}

// heldBlob: a MarshalBinary result that the caller keeps while other merklizers are serialized.
type heldBlob struct {
	b    []byte // the slice MarshalBinary returned
	copy []byte // its content at that time
	root *big.Int
	opts []merklize.MerklizeOption
	in   Input
}

const tinyDoc = `{"@context":{"p":{"@id":"http://ex.org/v#tiny","@type":"http://www.w3.org/2001/XMLSchema#string"}},"@id":"urn:tiny","p":"x"}`

// checkHeld: a blob handed out earlier must still hold the same bytes and restore to the same root.
func (d *drv) checkHeld(h heldBlob, when string) {
	if !bytes.Equal(h.b, h.copy) {
		d.rep.Fail("c13-blob-overwritten", "the byte slice returned by an earlier MarshalBinary changed "+when+" (it aliases memory that a later MarshalBinary of another merklizer wrote to)", h.in)
		return
	}
	m, o := fromBytes(h.b, h.opts...)
	if o.Class != "ok" || m.Root().BigInt().Cmp(h.root) != 0 {
		// the bytes are unchanged: not aliasing, the restore itself misbehaves
		d.rep.Fail("c13-restore-"+o.Class, "an (unchanged) blob kept across later MarshalBinary calls does not restore to its merklizer "+when+": "+o.Msg, h.in)
	}
}

// ---- typed content of a real gob stream ----

type blob struct{ b []byte }

func (x *blob) UnmarshalBinary(b []byte) error { x.b = append([]byte(nil), b...); return nil }
func (x blob) MarshalBinary() ([]byte, error)  { return x.b, nil }

type wireEntry struct {
	key     string
	ver     int
	parts   []any
	tag     uint8
	payload any // int64 | bool | string | time.Time | *big.Int
	dt      string
	blob    []byte // the entry's own MarshalBinary output as found in the stream
}

type wireObs struct {
	ver     int
	src     []byte
	comp    []byte
	root    *big.Int
	n       int
	entries []wireEntry
	safe    bool
	inlen   int
}

func parseEntry(b []byte) (we wireEntry, err error) {
	dec := gob.NewDecoder(bytes.NewReader(b))
	if err = dec.Decode(&we.ver); err != nil {
		return we, fmt.Errorf("entry version: %w", err)
	}
	if err = dec.Decode(&we.parts); err != nil {
		return we, fmt.Errorf("entry parts: %w", err)
	}
	if err = dec.Decode(&we.tag); err != nil {
		return we, fmt.Errorf("entry tag: %w", err)
	}
	switch we.tag {
	case 0:
		var x int64
		err = dec.Decode(&x)
		we.payload = x
	case 1:
		var x bool
		err = dec.Decode(&x)
		we.payload = x
	case 2:
		var x string
		err = dec.Decode(&x)
		we.payload = x
	case 3:
		var x time.Time
		err = dec.Decode(&x)
		we.payload = x
	case 4:
		var x *big.Int
		err = dec.Decode(&x)
		we.payload = x
	default:
		err = fmt.Errorf("unknown tag %d", we.tag)
	}
	if err != nil {
		return we, fmt.Errorf("entry payload under tag %d: %w", we.tag, err)
	}
	if err = dec.Decode(&we.dt); err != nil {
		return we, fmt.Errorf("entry datatype: %w", err)
	}
	return we, nil
}

func parseWire(b []byte) (w *wireObs, err error) {
	defer func() {
		if r := recover(); r != nil {
			err = fmt.Errorf("panic while parsing the stream: %v", r)
		}
	}()
	w = &wireObs{inlen: len(b)}
	dec := gob.NewDecoder(bytes.NewReader(b))
	if err = dec.Decode(&w.ver); err != nil {
		return nil, fmt.Errorf("version: %w", err)
	}
	if err = dec.Decode(&w.src); err != nil {
		return nil, fmt.Errorf("srcDoc: %w", err)
	}
	if err = dec.Decode(&w.comp); err != nil {
		return nil, fmt.Errorf("compacted: %w", err)
	}
	if err = dec.Decode(&w.root); err != nil {
		return nil, fmt.Errorf("root: %w", err)
	}
	if err = dec.Decode(&w.n); err != nil {
		return nil, fmt.Errorf("count: %w", err)
	}
	for i := 0; i < w.n && i < len(b); i++ {
		var key string
		if err = dec.Decode(&key); err != nil {
			return nil, fmt.Errorf("key %d: %w", i, err)
		}
		var bl blob
		if err = dec.Decode(&bl); err != nil {
			return nil, fmt.Errorf("entry %d: %w", i, err)
		}
		we, e := parseEntry(bl.b)
		if e != nil {
			return nil, fmt.Errorf("entry %d: %w", i, e)
		}
		we.key = key
		we.blob = bl.b
		w.entries = append(w.entries, we)
	}
	if err = dec.Decode(&w.safe); err != nil {
		return nil, fmt.Errorf("safeMode: %w", err)
	}
	var extra bool
	if e := dec.Decode(&extra); e != io.EOF {
		return nil, fmt.Errorf("trailing data in the stream (%v)", e)
	}
	return w, nil
}

// ---- scenario ----

type restoreObs struct {
	cfg    int    // 0 none, 1 WithHasher(Rc)
	tree   string // none | same | empty | leaf
	leafK  *big.Int
	leafV  *big.Int
	ok     bool
	root   *big.Int
	ents   map[string]mzrun.EntryView
	tamper int // see BinaryRun.tamper_wire
	ep     int // entry point, see BinaryRun.rrestore
	mk     []mkObs
	ps     []pObs
}

// pObs: Proof / JSONLDType of one path on a restored merklizer (compared with the model in the shards)
type pObs struct {
	parts   []any
	proofOK bool
	ex      bool
	vh      *big.Int
	dt      *string
}

func pathObs(m *merklize.Merklizer, paths [][]any) []pObs {
	var out []pObs
	for _, parts := range paths {
		skip := false
		for _, p := range parts {
			if i, ok := p.(int); ok && i < 0 {
				skip = true
			}
		}
		if skip {
			continue
		}
		po := pObs{parts: parts}
		g := mzrun.Guard(10*time.Second, func() error {
			p, err := m.Options().NewPath(parts...)
			if err != nil {
				return err
			}
			if pr, v, err := m.Proof(context.Background(), p); err == nil && pr != nil {
				po.proofOK, po.ex = true, pr.Existence
				if v != nil {
					h, herr := v.MtEntry()
					if herr != nil {
						return herr
					}
					po.vh = h
				}
			}
			if dt, err := m.JSONLDType(p); err == nil {
				po.dt = &dt
			}
			return nil
		})
		if g.Class == "ok" {
			out = append(out, po)
		}
	}
	return out
}

func (d *drv) somePaths(ents map[string]mzrun.EntryView) [][]any {
	ps := d.pathsFor(ents)
	if len(ps) <= 8 {
		return ps
	}
	return append(append([][]any{}, ps[:5]...), ps[len(ps)-3:]...)
}

// mkObs: MkValue(v).MtEntry() on a restored merklizer (compared with the model in the shards)
type mkObs struct {
	v     any
	class string // ok | err | panic
	h     *big.Int
}

func mkValues(m *merklize.Merklizer) []mkObs {
	var out []mkObs
	for _, v := range []any{int64(-5), "mk value", true, big.NewInt(-12345)} {
		o := mkObs{v: v}
		g := mzrun.Guard(10*time.Second, func() error {
			x, err := m.MkValue(v)
			if err != nil {
				return err
			}
			h, err := x.MtEntry()
			o.h = h
			return err
		})
		o.class = g.Class
		if g.Class == "ok" && o.h == nil {
			o.class = "panic"
		}
		out = append(out, o)
	}
	return out
}

type singleObs struct {
	e     mzrun.EntryView
	recv  int
	ok    bool
	out   mzrun.EntryView
	k, v  *big.Int
	kvErr bool
}

type scen struct {
	in      Input
	rc, rd  *hashers.Recorder
	entries []mzrun.EntryView // sorted by key
	wire    *wireObs
	rest    []restoreObs
	singles []singleObs
	hl, hm  [][3]*big.Int
	seenHL  map[string]bool
	seenHM  map[string]bool
}

func (s *scen) hasherOf(cfg bool) merklize.Hasher {
	if cfg {
		return s.rc
	}
	return s.rd
}

func (s *scen) addTables(mt *merkletree.MerkleTree) error {
	var werr error
	err := mt.Walk(context.Background(), nil, func(n *merkletree.Node) {
		switch n.Type {
		case merkletree.NodeTypeMiddle:
			l, r := n.ChildL.BigInt(), n.ChildR.BigInt()
			key := l.String() + "," + r.String()
			if s.seenHM[key] {
				return
			}
			h, e := poseidon.Hash([]*big.Int{l, r})
			if e != nil {
				werr = e
				return
			}
			s.seenHM[key] = true
			s.hm = append(s.hm, [3]*big.Int{l, r, h})
		case merkletree.NodeTypeLeaf:
			k, v := n.Entry[0].BigInt(), n.Entry[1].BigInt()
			s.addLeaf(k, v)
		}
	})
	if err == nil {
		err = werr
	}
	return err
}

func (s *scen) addLeaf(k, v *big.Int) {
	key := k.String() + "," + v.String()
	if s.seenHL[key] {
		return
	}
	h, e := poseidon.Hash([]*big.Int{k, v, big.NewInt(1)})
	if e != nil {
		return
	}
	s.seenHL[key] = true
	s.hl = append(s.hl, [3]*big.Int{k, v, h})
}

func newTree() *merkletree.MerkleTree {
	mt, err := merkletree.NewMerkleTree(context.Background(), memory.NewMemoryStorage(), 40)
	if err != nil {
		panic(err)
	}
	return mt
}

// treeOf builds a tree from the entries' key/value hashes (the tree is a canonical
// function of the leaf set, so its nodes are the nodes of any tree with these leaves).
func treeOf(ents map[string]mzrun.EntryView) (*merkletree.MerkleTree, error) {
	mt := newTree()
	keys := make([]string, 0, len(ents))
	for k := range ents {
		keys = append(keys, k)
	}
	sort.Strings(keys)
	for _, k := range keys {
		kk, vv, err := ents[k].Entry.KeyValueMtEntries()
		if err != nil {
			return nil, err
		}
		if err := mt.Add(context.Background(), kk, vv); err != nil {
			return nil, err
		}
	}
	return mt, nil
}

func sameParts(a, b []any) bool {
	if len(a) != len(b) {
		return false
	}
	for i := range a {
		if reflect.TypeOf(a[i]) != reflect.TypeOf(b[i]) || a[i] != b[i] {
			return false
		}
	}
	return true
}

// sameValue: same Go kind and content; for times also nanoseconds and zone offset.
func sameValue(a, b any) (bool, string) {
	switch x := a.(type) {
	case time.Time:
		y, ok := b.(time.Time)
		if !ok {
			return false, "kind"
		}
		if !x.Equal(y) || x.UnixNano() != y.UnixNano() || x.Nanosecond() != y.Nanosecond() {
			return false, "time-instant"
		}
		_, ox := x.Zone()
		_, oy := y.Zone()
		if ox != oy {
			return false, "time-zone"
		}
		return true, ""
	case *big.Int:
		y, ok := b.(*big.Int)
		if !ok {
			return false, "kind"
		}
		return x.Cmp(y) == 0, "bigint"
	default:
		if reflect.TypeOf(a) != reflect.TypeOf(b) {
			return false, "kind"
		}
		return a == b, "value"
	}
}

func entsOf(mz *merklize.Merklizer) map[string]mzrun.EntryView { return mzrun.MapEntries(mz) }

func sortedKeys(m map[string]mzrun.EntryView) []string {
	ks := make([]string, 0, len(m))
	for k := range m {
		ks = append(ks, k)
	}
	sort.Strings(ks)
	return ks
}

func fromBytes(b []byte, opts ...merklize.MerklizeOption) (mz *merklize.Merklizer, out mzrun.Outcome) {
	out = mzrun.Guard(30*time.Second, func() error {
		m, err := merklize.MerklizerFromBytes(b, opts...)
		if err != nil {
			return err
		}
		mz = m
		return nil
	})
	return
}

func marshal(mz *merklize.Merklizer) (b []byte, out mzrun.Outcome) {
	out = mzrun.Guard(30*time.Second, func() error {
		x, err := mz.MarshalBinary()
		b = x
		return err
	})
	return
}

// compareEntries: restored entry map vs original (keys, parts, values, datatypes, hashers).
func (d *drv) compareEntries(s *scen, a, b map[string]mzrun.EntryView, want merklize.Hasher, what string) {
	if len(a) != len(b) {
		d.rep.Fail("c13-entries", fmt.Sprintf("%s: %d entries before, %d after", what, len(a), len(b)), s.in)
		return
	}
	for k, ea := range a {
		eb, ok := b[k]
		if !ok {
			d.rep.Fail("c13-entries", fmt.Sprintf("%s: entry %v (key %s) missing after restore", what, ea.Parts, k), s.in)
			return
		}
		if !sameParts(ea.Parts, eb.Parts) {
			d.rep.Fail("c13-entry-parts", fmt.Sprintf("%s: parts %v became %v", what, ea.Parts, eb.Parts), s.in)
			return
		}
		if ok, why := sameValue(ea.Value, eb.Value); !ok {
			d.rep.Fail("c13-entry-"+why, fmt.Sprintf("%s: value of %v: %v (%T) became %v (%T)", what, ea.Parts, ea.Value, ea.Value, eb.Value, eb.Value), s.in)
			return
		}
		if ea.Datatype != eb.Datatype {
			d.rep.Fail("c13-entry-datatype", fmt.Sprintf("%s: datatype of %v: %q became %q", what, ea.Parts, ea.Datatype, eb.Datatype), s.in)
			return
		}
		vv := eb.Entry.VerifView()
		if want != nil && (vv.Hasher != want || vv.KeyHasher != want) {
			d.rep.Fail("c13-entry-hasher", fmt.Sprintf("%s: restored entry %v does not carry the configured hasher", what, ea.Parts), s.in)
			return
		}
		ka, va, e1 := ea.Entry.KeyValueMtEntries()
		kb, vb, e2 := eb.Entry.KeyValueMtEntries()
		if (e1 == nil) != (e2 == nil) || (e1 == nil && (ka.Cmp(kb) != 0 || va.Cmp(vb) != 0)) {
			d.rep.Fail("c13-entry-hash", fmt.Sprintf("%s: key/value hashes of %v changed", what, ea.Parts), s.in)
			return
		}
		if e2 == nil && kb.String() != k {
			d.rep.Fail("c13-entry-key", fmt.Sprintf("%s: entry %v stored under key %s but hashes to %s", what, ea.Parts, k, kb), s.in)
			return
		}
	}
}

func errClass(err error) string {
	if err != nil {
		return "err"
	}
	return "ok"
}

func proofStr(p *merkletree.Proof) string {
	if p == nil {
		return "<nil>"
	}
	var sb strings.Builder
	fmt.Fprintf(&sb, "ex=%v;", p.Existence)
	for _, s := range p.AllSiblings() {
		sb.WriteString(s.BigInt().String() + ",")
	}
	if p.NodeAux != nil {
		fmt.Fprintf(&sb, ";aux=%v/%v", bi(p.NodeAux.Key), bi(p.NodeAux.Value))
	}
	return sb.String()
}

func bi(h *merkletree.Hash) string {
	if h == nil {
		return "nil"
	}
	return h.BigInt().String()
}

func valueDesc(v merklize.Value) string {
	if v == nil {
		return "<none>"
	}
	h, err := v.MtEntry()
	return fmt.Sprintf("kinds=%v%v%v%v%v hash=%v err=%v", v.IsBool(), v.IsBigInt(), v.IsInt64(), v.IsTime(), v.IsString(), h, err != nil)
}

// fullObserve: Hasher() non-nil and the expected one, MkValue hashes, and the per-path
// observables (incl. MtEntry of the proofs' Values) of a restored merklizer vs the original;
// a panic anywhere is a failure class of its own.
func (d *drv) fullObserve(s *scen, m1, m2 *merklize.Merklizer, want merklize.Hasher, ents map[string]mzrun.EntryView, what string) {
	o := mzrun.Guard(60*time.Second, func() error {
		if m2.Hasher() == nil {
			d.rep.Fail("c13-hasher", what+": Hasher() of the restored merklizer is nil", s.in)
		} else if m2.Hasher() != want {
			d.rep.Fail("c13-hasher", what+": the restored merklizer does not hold the expected hasher", s.in)
		}
		tm := time.Unix(-86400*365, 123456789).UTC()
		for _, v := range []any{int64(-5), int64(7), true, "mk value", tm, big.NewInt(-12345), big.NewInt(99)} {
			a, e1 := m1.MkValue(v)
			b, e2 := m2.MkValue(v)
			if (e1 == nil) != (e2 == nil) {
				d.rep.Fail("c13-mkvalue", fmt.Sprintf("%s: MkValue(%v): %v vs %v", what, v, e1, e2), s.in)
				continue
			}
			if e1 != nil {
				continue
			}
			if valueDesc(a) != valueDesc(b) {
				d.rep.Fail("c13-mkvalue", fmt.Sprintf("%s: MkValue(%v): %s vs %s", what, v, valueDesc(a), valueDesc(b)), s.in)
			}
		}
		ps := d.pathsFor(ents)
		d.comparePaths(s, m1, m2, ps[:min(10, len(ps))], what)
		return nil
	})
	if o.Class != "ok" {
		d.rep.Fail("c13-observe-"+o.Class, what+": observing the restored merklizer: "+o.Msg, s.in)
	}
}

// comparePaths: per-path observables on original vs restored.
func (d *drv) comparePaths(s *scen, m1, m2 *merklize.Merklizer, paths [][]any, what string) {
	ctx := context.Background()
	for _, parts := range paths {
		p1, e1 := m1.Options().NewPath(parts...)
		p2, e2 := m2.Options().NewPath(parts...)
		if e1 != nil || e2 != nil {
			if (e1 == nil) != (e2 == nil) {
				d.rep.Fail("c13-path", fmt.Sprintf("%s: NewPath(%v) %v vs %v", what, parts, e1, e2), s.in)
			}
			continue
		}
		k1, ke1 := p1.MtEntry()
		k2, ke2 := p2.MtEntry()
		if (ke1 == nil) != (ke2 == nil) || (ke1 == nil && k1.Cmp(k2) != 0) {
			d.rep.Fail("c13-path-key", fmt.Sprintf("%s: path %v hashes differently through the restored merklizer's options", what, parts), s.in)
			continue
		}
		d.rep.Evaluations++
		pr1, v1, pe1 := m1.Proof(ctx, p1)
		pr2, v2, pe2 := m2.Proof(ctx, p2)
		if errClass(pe1) != errClass(pe2) {
			d.rep.Fail("c13-proof", fmt.Sprintf("%s: Proof(%v): %v vs %v", what, parts, pe1, pe2), s.in)
		} else if pe1 == nil {
			if pr1.Existence != pr2.Existence {
				d.rep.Fail("c13-proof-existence", fmt.Sprintf("%s: Proof(%v) existence %v vs %v", what, parts, pr1.Existence, pr2.Existence), s.in)
			} else if proofStr(pr1) != proofStr(pr2) {
				d.rep.Fail("c13-proof-siblings", fmt.Sprintf("%s: Proof(%v) differs: %s vs %s", what, parts, proofStr(pr1), proofStr(pr2)), s.in)
			}
			if valueDesc(v1) != valueDesc(v2) {
				d.rep.Fail("c13-proof-value", fmt.Sprintf("%s: Value of Proof(%v): %s vs %s", what, parts, valueDesc(v1), valueDesc(v2)), s.in)
			}
			vh := big.NewInt(0)
			if v2 != nil {
				if h, err := v2.MtEntry(); err == nil {
					vh = h
				}
			}
			if ke2 == nil && !merkletree.VerifyProof(m2.Root(), pr2, k2, vh) {
				d.rep.Fail("c13-proof-verify", fmt.Sprintf("%s: proof of %v from the restored merklizer does not verify against its root", what, parts), s.in)
			}
			if ke2 == nil && !merkletree.VerifyProof(m1.Root(), pr2, k2, vh) {
				d.rep.Fail("c13-proof-verify", fmt.Sprintf("%s: proof of %v from the restored merklizer does not verify against the ORIGINAL root", what, parts), s.in)
			}
		}
		r1, re1 := m1.RawValue(p1)
		r2, re2 := m2.RawValue(p2)
		if errClass(re1) != errClass(re2) || !reflect.DeepEqual(r1, r2) {
			d.rep.Fail("c13-rawvalue", fmt.Sprintf("%s: RawValue(%v): %v (%v) vs %v (%v)", what, parts, r1, re1, r2, re2), s.in)
		}
		t1, te1 := m1.JSONLDType(p1)
		t2, te2 := m2.JSONLDType(p2)
		if errClass(te1) != errClass(te2) || t1 != t2 {
			d.rep.Fail("c13-jsonldtype", fmt.Sprintf("%s: JSONLDType(%v): %q (%v) vs %q (%v)", what, parts, t1, te1, t2, te2), s.in)
		}
		_, ee1 := m1.Entry(p1)
		_, ee2 := m2.Entry(p2)
		if errClass(ee1) != errClass(ee2) {
			d.rep.Fail("c13-entry-lookup", fmt.Sprintf("%s: Entry(%v): %v vs %v", what, parts, ee1, ee2), s.in)
		}
	}
	for _, dp := range s.in.DocPaths {
		a, e1 := m1.ResolveDocPath(dp)
		b, e2 := m2.ResolveDocPath(dp)
		d.rep.Count("resolve:" + errClass(e1))
		if errClass(e1) != errClass(e2) || !sameParts(a.Parts(), b.Parts()) {
			d.rep.Fail("c13-resolve", fmt.Sprintf("%s: ResolveDocPath(%q): %v (%v) vs %v (%v)", what, dp, a.Parts(), e1, b.Parts(), e2), s.in)
			continue
		}
		if e1 == nil {
			ka, _ := a.MtEntry()
			kb, _ := b.MtEntry()
			if ka == nil || kb == nil || ka.Cmp(kb) != 0 {
				d.rep.Fail("c13-resolve", fmt.Sprintf("%s: ResolveDocPath(%q) paths hash differently", what, dp), s.in)
			}
		}
	}
}

func (d *drv) pathsFor(ents map[string]mzrun.EntryView) [][]any {
	var out [][]any
	keys := sortedKeys(ents)
	for _, k := range keys {
		out = append(out, ents[k].Parts)
	}
	// non-member families
	for i := 0; i < 6 && len(keys) > 0; i++ {
		parts := ents[keys[d.cfg.Rng.Intn(len(keys))]].Parts
		if len(parts) > 1 {
			out = append(out, append([]any{}, parts[:len(parts)-1]...))
		}
		out = append(out, append(append([]any{}, parts...), "http://ex.org/v#nope"))
		out = append(out, append(append([]any{}, parts...), 0))
		if idx, ok := parts[len(parts)-1].(int); ok {
			out = append(out, append(append([]any{}, parts[:len(parts)-1]...), idx+7))
		}
	}
	out = append(out, []any{"http://ex.org/v#unrelated"}, []any{"http://ex.org/v#unrelated", 3})
	return out
}

// scenario runs everything for one original merklizer.
func (d *drv) scenario(in Input) {
	fam := families()
	s := &scen{in: in, seenHL: map[string]bool{}, seenHM: map[string]bool{}}
	s.rc = hashers.NewRecorder(fam[in.Hasher])
	s.rd = hashers.NewRecorder(merklize.PoseidonHasher{})
	merklize.SetHasher(s.rd)
	defer merklize.SetHasher(merklize.PoseidonHasher{})
	base := []merklize.MerklizeOption{merklize.WithDocumentLoader(d.loader)}
	optsFor := func(cfg bool) []merklize.MerklizeOption {
		o := append([]merklize.MerklizeOption{}, base...)
		if cfg {
			o = append(o, merklize.WithHasher(s.rc))
		}
		return o
	}
	want := s.hasherOf(in.Cfg)

	var m1 *merklize.Merklizer
	if in.Stream == "crafted" {
		stream, err := craftedStream(in.Crafted, want, !in.Unsafe)
		if err != nil {
			d.rep.Count("crafted-unbuildable")
			return
		}
		var o mzrun.Outcome
		m1, o = fromBytes(stream, optsFor(in.Cfg)...)
		d.rep.Count("crafted:restore:" + o.Class)
		if o.Class != "ok" {
			d.rep.Fail("c13-crafted-rejected", "a well-formed hand-built stream was rejected: "+o.Msg, in)
			return
		}
	} else {
		var o mzrun.Outcome
		o1 := optsFor(in.Cfg)
		if in.Unsafe {
			o1 = append(o1, merklize.WithSafeMode(false))
		}
		m1, o = mzrun.Merklize(in.Doc, o1...)
		d.rep.Count("merklize:" + o.Class)
		if o.Class != "ok" {
			return
		}
	}
	ents1 := entsOf(m1)
	for _, k := range sortedKeys(ents1) {
		s.entries = append(s.entries, ents1[k])
		d.rep.Count(fmt.Sprintf("value-kind:%T", ents1[k].Value))
	}
	d.rep.Distinct(fmt.Sprintf("%s|%d|%v|%d", in.Stream, in.Hasher, in.Cfg, len(ents1)) + string(in.Doc) + fmt.Sprint(in.Crafted))

	// the original's tree (for the node-hash tables and as the "matching" caller tree)
	t1, err := treeOf(ents1)
	if err != nil || t1.Root().BigInt().Cmp(m1.Root().BigInt()) != 0 {
		d.rep.Fail("c13-harness-tree", fmt.Sprintf("tree rebuilt from the entries has another root: %v", err), in)
		return
	}
	if err := s.addTables(t1); err != nil {
		return
	}

	b1, mo := marshal(m1)
	if mo.Class != "ok" {
		d.rep.Fail("c13-marshal-"+mo.Class, "MarshalBinary: "+mo.Msg, in)
		return
	}
	// the caller keeps b1 while OTHER merklizers are serialized (sequence: marshal A, marshal B, restore A)
	held := heldBlob{b: b1, copy: append([]byte(nil), b1...), root: m1.Root().BigInt(), opts: optsFor(in.Cfg), in: in}
	if d.tiny == nil {
		d.tiny, _ = mzrun.Merklize([]byte(tinyDoc), merklize.WithDocumentLoader(d.loader))
	}
	if d.tiny != nil {
		for i := 0; i < 6; i++ {
			if i%2 == 0 {
				_, _ = d.tiny.MarshalBinary()
			} else {
				_, _ = marshal(d.tiny)
			}
		}
		d.checkHeld(held, "after a smaller merklizer was serialized")
	}
	for _, h := range d.held {
		d.checkHeld(h, "after the next documents were serialized")
	}
	d.held = append(d.held, held)
	if len(d.held) > 2 {
		d.held = d.held[1:]
	}
	w, err := parseWire(held.copy)
	if err != nil {
		d.rep.Fail("c13-wire-format", "the stream does not have the documented typed layout: "+err.Error(), in)
		return
	}
	s.wire = w
	if w.n != len(ents1) || len(w.entries) != len(ents1) {
		d.rep.Fail("c13-wire-count", fmt.Sprintf("stream declares %d entries, holds %d, merklizer has %d", w.n, len(w.entries), len(ents1)), in)
	}
	if w.root.Cmp(m1.Root().BigInt()) != 0 {
		d.rep.Fail("c13-wire-root", "recorded root differs from Root()", in)
	}

	// (a) restore with the same hasher, no tree
	m2, o2 := fromBytes(b1, optsFor(in.Cfg)...)
	if o2.Class != "ok" {
		d.rep.Fail("c13-restore-"+o2.Class, "MerklizerFromBytes(own MarshalBinary) failed: "+o2.Msg, in)
		// the model predicts success: the case goes into the shards with the observed error
		s.rest = append(s.rest, restoreObs{cfg: b2i(in.Cfg), tree: "none", ok: false})
		d.scens = append(d.scens, s)
		return
	}
	ents2 := entsOf(m2)
	s.rest = append(s.rest, restoreObs{cfg: b2i(in.Cfg), tree: "none", ok: true, root: m2.Root().BigInt(), ents: ents2, mk: mkValues(m2), ps: pathObs(m2, d.somePaths(ents1))})
	if m1.Root().BigInt().Cmp(m2.Root().BigInt()) != 0 {
		d.rep.Fail("c13-root", fmt.Sprintf("root %s became %s", m1.Root().BigInt(), m2.Root().BigInt()), in)
	}
	d.compareEntries(s, ents1, ents2, want, "restore")
	if m2.Hasher() != want {
		d.rep.Fail("c13-hasher", "restored merklizer does not hold the configured hasher", in)
	}
	if m1.VerifSafeMode() != m2.VerifSafeMode() {
		d.rep.Fail("c13-safemode", "safe mode flag changed", in)
	}
	if !bytes.Equal(m1.VerifSrcDoc(), m2.VerifSrcDoc()) {
		d.rep.Fail("c13-srcdoc", "source document changed", in)
	}
	if !reflect.DeepEqual(m1.VerifCompacted(), m2.VerifCompacted()) {
		d.rep.Fail("c13-compacted", "compacted document changed", in)
	}
	d.comparePaths(s, m1, m2, d.pathsFor(ents1), "restore")
	// the restored merklizer pins its hasher: a later merklize.SetHasher changes nothing
	if !in.Cfg {
		late := hashers.NewRecorder(hashers.Mod{P: new(big.Int).Set(constants.Q), SaltBytes: []byte("late:"), SaltElem: big.NewInt(4242), Name: "late"})
		merklize.SetHasher(late)
		if m2.Hasher() != want {
			d.rep.Fail("c13-hasher-not-pinned", "after merklize.SetHasher the merklizer restored without WithHasher reports another Hasher()", in)
		}
		d.compareEntries(s, ents1, entsOf(m2), want, "after SetHasher")
		ps := d.pathsFor(ents1)
		d.comparePaths(s, m1, m2, ps[:min(6, len(ps))], "after SetHasher")
		for i, k := range sortedKeys(ents1) {
			if i >= 6 {
				break
			}
			p, err := m2.Options().NewPath(ents1[k].Parts...)
			if err != nil {
				continue
			}
			pr, _, err := m2.Proof(context.Background(), p)
			if err != nil || pr == nil || !pr.Existence {
				d.rep.Fail("c13-hasher-not-pinned", fmt.Sprintf("after merklize.SetHasher the restored merklizer no longer proves its member %v (%v)", ents1[k].Parts, err), in)
				break
			}
		}
		merklize.SetHasher(s.rd)
	}

	// second generation: restored -> bytes -> restored
	if b2, o := marshal(m2); o.Class == "ok" {
		if m3, o3 := fromBytes(b2, optsFor(in.Cfg)...); o3.Class != "ok" || m3.Root().BigInt().Cmp(m1.Root().BigInt()) != 0 {
			d.rep.Fail("c13-second-generation", "a restored merklizer does not round-trip again: "+o3.Msg, in)
		} else {
			d.compareEntries(s, ents1, entsOf(m3), want, "second generation")
		}
	} else {
		d.rep.Fail("c13-second-generation", "MarshalBinary of a restored merklizer failed: "+o.Msg, in)
	}

	// (a') the method called directly on a zero Merklizer (no options: package default hasher).
	// The option-less entry points resolve contexts through the package default loader: for
	// them (only) the full offline loader is installed as the default.
	merklize.SetDocumentLoader(d.loader)
	if !in.Cfg {
		var mdir merklize.Merklizer
		o := mzrun.Guard(30*time.Second, func() error { return mdir.UnmarshalBinary(b1) })
		if o.Class != "ok" {
			d.rep.Fail("c13-restore-"+o.Class, "(&Merklizer{}).UnmarshalBinary(own MarshalBinary) failed: "+o.Msg, in)
		} else {
			if mdir.Root().BigInt().Cmp(m1.Root().BigInt()) != 0 {
				d.rep.Fail("c13-root", "direct UnmarshalBinary on a zero Merklizer restores another root", in)
			}
			d.compareEntries(s, ents1, entsOf(&mdir), want, "direct UnmarshalBinary")
			if mdir.VerifSafeMode() != m1.VerifSafeMode() {
				d.rep.Fail("c13-safemode", "direct UnmarshalBinary: safe mode flag changed", in)
			}
			s.rest = append(s.rest, restoreObs{ep: 1, tree: "none", ok: true, root: mdir.Root().BigInt(), ents: entsOf(&mdir), mk: mkValues(&mdir), ps: pathObs(&mdir, d.somePaths(ents1))})
			d.fullObserve(s, m1, &mdir, want, ents1, "zero-value UnmarshalBinary")
		}
		// encoding/gob on the Merklizer itself
		var gbuf bytes.Buffer
		var mg merklize.Merklizer
		o = mzrun.Guard(30*time.Second, func() error {
			if err := gob.NewEncoder(&gbuf).Encode(m1); err != nil {
				return err
			}
			return gob.NewDecoder(&gbuf).Decode(&mg)
		})
		if o.Class != "ok" {
			d.rep.Fail("c13-restore-"+o.Class, "gob Encode/Decode of the Merklizer failed: "+o.Msg, in)
		} else {
			if mg.Root().BigInt().Cmp(m1.Root().BigInt()) != 0 {
				d.rep.Fail("c13-root", "gob round trip of the Merklizer restores another root", in)
			}
			d.compareEntries(s, ents1, entsOf(&mg), want, "gob round trip")
			s.rest = append(s.rest, restoreObs{ep: 2, tree: "none", ok: true, root: mg.Root().BigInt(), ents: entsOf(&mg), mk: mkValues(&mg), ps: pathObs(&mg, d.somePaths(ents1))})
			d.fullObserve(s, m1, &mg, want, ents1, "gob round trip")
		}
	}
	// MerklizerFromBytes without any option (default-hasher originals only)
	if !in.Cfg {
		if mb, o := fromBytes(b1); o.Class != "ok" {
			d.rep.Fail("c13-restore-"+o.Class, "MerklizerFromBytes(blob) without options failed: "+o.Msg, in)
		} else {
			d.compareEntries(s, ents1, entsOf(mb), want, "MerklizerFromBytes without options")
			s.rest = append(s.rest, restoreObs{ep: 3, tree: "none", ok: true, root: mb.Root().BigInt(), ents: entsOf(mb), mk: mkValues(mb), ps: pathObs(mb, d.somePaths(ents1))})
			d.fullObserve(s, m1, mb, want, ents1, "MerklizerFromBytes without options")
		}
	}
	merklize.SetDocumentLoader(d.pub)
	d.fullObserve(s, m1, m2, want, ents1, "restore")

	// (b) repeated marshals: different map orders, same outcome
	orders := map[string]bool{}
	for i := 0; i < 20; i++ {
		bx, o := marshal(m1)
		if o.Class != "ok" {
			d.rep.Fail("c13-marshal-"+o.Class, "repeated MarshalBinary: "+o.Msg, in)
			break
		}
		if wi, err := parseWire(bx); err == nil {
			var ks []string
			for _, e := range wi.entries {
				ks = append(ks, e.key)
			}
			orders[strings.Join(ks, ",")] = true
		}
		mi, oi := fromBytes(bx, optsFor(in.Cfg)...)
		if oi.Class != "ok" {
			d.rep.Fail("c13-restore-"+oi.Class, fmt.Sprintf("marshal #%d does not restore: %s", i, oi.Msg), in)
			break
		}
		if mi.Root().BigInt().Cmp(m1.Root().BigInt()) != 0 {
			d.rep.Fail("c13-root", fmt.Sprintf("marshal #%d restores to another root", i), in)
			break
		}
		if i%5 == 0 {
			d.compareEntries(s, ents1, entsOf(mi), want, fmt.Sprintf("marshal #%d", i))
		}
	}
	d.orders[len(orders)]++

	// (c) caller-provided trees
	withTree := func(mt *merkletree.MerkleTree) []merklize.MerklizeOption {
		return append(optsFor(in.Cfg), merklize.WithMerkleTree(merklize.MerkleTreeSQLAdapter(mt)))
	}
	{ // matching
		before := t1.Root().BigInt()
		m, o := fromBytes(b1, withTree(t1)...)
		ro := restoreObs{cfg: b2i(in.Cfg), tree: "same", ok: o.Class == "ok"}
		if o.Class != "ok" {
			d.rep.Fail("c13-given-tree-rejected", "restore into a tree that already has the recorded root failed: "+o.Msg, in)
		} else {
			ro.root, ro.ents = m.Root().BigInt(), entsOf(m)
			if m.Root().BigInt().Cmp(m1.Root().BigInt()) != 0 || t1.Root().BigInt().Cmp(before) != 0 {
				d.rep.Fail("c13-given-tree-touched", "restore into a matching tree changed the root", in)
			}
			d.compareEntries(s, ents1, ro.ents, want, "matching tree")
			d.comparePaths(s, m1, m, d.pathsFor(ents1)[:min(4, len(ents1))], "matching tree")
		}
		s.rest = append(s.rest, ro)
	}
	{ // empty
		mt := newTree()
		m, o := fromBytes(b1, withTree(mt)...)
		ro := restoreObs{cfg: b2i(in.Cfg), tree: "empty", ok: o.Class == "ok"}
		if o.Class == "ok" {
			ro.root, ro.ents = m.Root().BigInt(), entsOf(m)
			if len(ents1) > 0 {
				d.rep.Fail("c13-given-tree-accepted", "restore into an EMPTY caller tree succeeded although the recorded root is not the empty root", in)
			}
		} else if o.Class != "err" {
			d.rep.Fail("c13-restore-"+o.Class, "restore into an empty tree: "+o.Msg, in)
		} else if len(ents1) == 0 {
			d.rep.Fail("c13-given-tree-rejected", "empty merklizer does not restore into an empty tree: "+o.Msg, in)
		}
		if mt.Root().BigInt().Sign() != 0 {
			d.rep.Fail("c13-given-tree-touched", "a failed / root-checked restore wrote into the caller's tree", in)
		}
		s.rest = append(s.rest, ro)
	}
	{ // unrelated
		mt := newTree()
		k := new(big.Int).Rand(d.cfg.Rng, constants.Q)
		v := new(big.Int).Rand(d.cfg.Rng, constants.Q)
		_ = mt.Add(context.Background(), k, v)
		s.addLeaf(k, v)
		before := mt.Root().BigInt()
		m, o := fromBytes(b1, withTree(mt)...)
		ro := restoreObs{cfg: b2i(in.Cfg), tree: "leaf", leafK: k, leafV: v, ok: o.Class == "ok"}
		if o.Class == "ok" {
			ro.root, ro.ents = m.Root().BigInt(), entsOf(m)
			d.rep.Fail("c13-given-tree-accepted", "restore into an UNRELATED caller tree succeeded", in)
		} else if o.Class != "err" {
			d.rep.Fail("c13-restore-"+o.Class, "restore into an unrelated tree: "+o.Msg, in)
		}
		if mt.Root().BigInt().Cmp(before) != 0 {
			d.rep.Fail("c13-given-tree-touched", "a rejected restore wrote into the caller's tree", in)
		}
		s.rest = append(s.rest, ro)
	}

	// (d) the other hasher configuration (no property oracle: compared with the model)
	{
		m, o := fromBytes(b1, optsFor(!in.Cfg)...)
		ro := restoreObs{cfg: b2i(!in.Cfg), tree: "none", ok: o.Class == "ok"}
		if o.Class == "ok" {
			ro.root, ro.ents = m.Root().BigInt(), entsOf(m)
			if t, err := treeOf(ro.ents); err == nil {
				_ = s.addTables(t)
			}
			d.rep.Count("other-hasher:ok")
		} else {
			d.rep.Count("other-hasher:" + o.Class)
			if o.Class != "err" {
				d.rep.Fail("c13-restore-"+o.Class, "restore under another hasher: "+o.Msg, in)
			}
		}
		s.rest = append(s.rest, ro)
	}

	// (d') tampered streams: every one must be an error (never a panic, hang or success)
	for tc := 0; tc <= 5; tc++ {
		tb, err := encodeWire(w, tc, -1, nil)
		if err != nil {
			continue
		}
		if tc == 5 && !d.hugeOK {
			if d.hugeProbes >= 3 {
				d.rep.Count("huge-count:skipped")
				continue
			}
			d.hugeProbes++
			cls, msg := d.probeHuge(tb)
			d.rep.Count("huge-count-probe:" + cls)
			if cls != "err" {
				d.rep.Fail("c13-restore-"+cls, "declared entry count 2^40 (child process, address space capped at 8 GiB): "+msg, in)
				continue
			}
			d.hugeOK = true
		}
		m, o := fromBytes(tb, optsFor(in.Cfg)...)
		ro := restoreObs{cfg: b2i(in.Cfg), tree: "none", ok: o.Class == "ok", tamper: tc}
		d.rep.Evaluations++
		switch {
		case tc == 0:
			// the harness' own re-encoding of the unchanged content must restore like the original bytes
			if o.Class != "ok" || m.Root().BigInt().Cmp(m1.Root().BigInt()) != 0 {
				d.rep.Fail("c13-reencoded-rejected", "a re-encoding of the same typed content does not restore: "+o.Msg, in)
			}
		case tc == 3 && w.n == 0:
			// count -1 on an empty merklizer is tamper 4
		case o.Class == "ok":
			d.rep.Fail("c13-tampered-accepted", fmt.Sprintf("stream with tamper #%d (1 version, 2 count+1, 3 count-1, 4 count=-1, 5 count=2^40) was accepted", tc), in)
		case o.Class != "err":
			d.rep.Fail("c13-restore-"+o.Class, fmt.Sprintf("stream with tamper #%d: %s", tc, o.Msg), in)
		}
		if o.Class == "ok" {
			ro.root, ro.ents = m.Root().BigInt(), entsOf(m)
		}
		s.rest = append(s.rest, ro)
	}
	if len(w.entries) > 0 {
		i := d.cfg.Rng.Intn(len(w.entries))
		e := w.entries[i]
		variants := map[string][]byte{
			"entry version 2":           entryBlob(2, e.parts, e.tag, e.payload, e.dt),
			"unknown entry type 9":      entryBlob(e.ver, e.parts, 9, e.payload, e.dt),
			"int64 under the bool tag":  entryBlob(e.ver, e.parts, 1, int64(7), e.dt),
			"string under the time tag": entryBlob(e.ver, e.parts, 3, "2020-01-01", e.dt),
			"truncated entry":           e.blob[:len(e.blob)/2],
		}
		names := make([]string, 0, len(variants))
		for k := range variants {
			names = append(names, k)
		}
		sort.Strings(names)
		for _, name := range names {
			if variants[name] == nil {
				continue
			}
			tb, err := encodeWire(w, 0, i, variants[name])
			if err != nil {
				continue
			}
			_, o := fromBytes(tb, optsFor(in.Cfg)...)
			d.rep.Evaluations++
			if o.Class == "ok" {
				d.rep.Fail("c13-tampered-accepted", "stream with a malformed entry ("+name+") was accepted", in)
			} else if o.Class != "err" {
				d.rep.Fail("c13-restore-"+o.Class, "stream with a malformed entry ("+name+"): "+o.Msg, in)
			}
		}
		// a truncated stream
		if _, o := fromBytes(b1[:len(b1)*2/3], optsFor(in.Cfg)...); o.Class != "err" {
			d.rep.Fail("c13-restore-"+o.Class, "truncated stream: "+o.Class+" "+o.Msg, in)
		}
	}

	// (e) single-entry round trips
	d.singles(s, in)

	d.scens = append(d.scens, s)
}

func b2i(b bool) int {
	if b {
		return 1
	}
	return 0
}

func min(a, b int) int {
	if a < b {
		return a
	}
	return b
}

// singles: RDFEntry.MarshalBinary / UnmarshalBinary on their own.
func (d *drv) singles(s *scen, in Input) {
	var pool []mzrun.EntryView
	for i, e := range s.entries {
		if i < 6 || d.cfg.Rng.Intn(4) == 0 {
			pool = append(pool, e)
		}
	}
	// synthetic values of every kind, through the public constructor
	p, _ := merklize.Options{Hasher: s.hasherOf(in.Cfg)}.NewPath("http://ex.org/v#single", d.cfg.Rng.Intn(9))
	prime := s.hasherOf(in.Cfg).Prime()
	half := new(big.Int).Rsh(prime, 1)
	// sub-minute offsets only positive: go1.23's time.Time.UnmarshalBinary reads the seconds byte of a
	// negative sub-minute offset as unsigned (FixedZone(-1) comes back as +255 s, instant preserved);
	// such zones cannot come out of an xsd:dateTime (RFC 3339 offsets are hh:mm)
	off := []int{0, 3600, -7200, 19800, 5025, 59}[d.cfg.Rng.Intn(6)]
	tm := time.Unix(d.cfg.Rng.Int63n(4e9)-1e9, d.cfg.Rng.Int63n(1e9)).In(time.FixedZone("", off))
	farYear := []int{1, 1066, 2300, 9999}[d.cfg.Rng.Intn(4)]
	tmFar := time.Date(farYear, 6, 15, 12, 30, 45, 123456789, time.FixedZone("", 3600)) // outside 1677..2262
	bound := int64(math.MaxInt64)
	if half.IsInt64() {
		bound = half.Int64()
	}
	for _, v := range []any{int64(d.cfg.Rng.Int63n(bound)), -int64(d.cfg.Rng.Int63n(bound)), int(d.cfg.Rng.Intn(1000)), true, false,
		"single ünï", tm, tmFar, new(big.Int).Neg(new(big.Int).Rand(d.cfg.Rng, half)), new(big.Int).Sub(prime, big.NewInt(1))} {
		e, err := merklize.Options{Hasher: s.hasherOf(in.Cfg)}.NewRDFEntry(p, v)
		if err == nil {
			pool = append(pool, mzrun.View(e))
		}
	}
	// stand-alone entries: every entry is encoded first and ALL blobs are kept while the others
	// are encoded; only then are they compared with their snapshots and decoded
	blobs := make([][]byte, len(pool))
	snaps := make([][]byte, len(pool))
	for i, ev := range pool {
		e := ev.Entry
		b, err := e.MarshalBinary()
		if err != nil {
			d.rep.Fail("c13-single-marshal", fmt.Sprintf("RDFEntry.MarshalBinary(%v): %v", ev.Parts, err), in)
			continue
		}
		blobs[i], snaps[i] = b, append([]byte(nil), b...)
	}
	for i := range pool {
		if blobs[i] != nil && !bytes.Equal(blobs[i], snaps[i]) {
			d.rep.Fail("c13-entry-blob-overwritten", fmt.Sprintf("the byte slice returned by RDFEntry.MarshalBinary(%v) changed when other entries were encoded afterwards", pool[i].Parts), in)
			break
		}
	}
	var reused merklize.RDFEntry // one receiver decoded into again and again
	for i, ev := range pool {
		e := ev.Entry
		b := blobs[i]
		if b == nil {
			continue
		}
		if o := mzrun.Guard(10*time.Second, func() error { return reused.UnmarshalBinary(b) }); o.Class != "ok" {
			d.rep.Fail("c13-single-"+o.Class, fmt.Sprintf("decoding %v into a reused receiver: %s", ev.Parts, o.Msg), in)
		} else {
			rv := mzrun.View(reused)
			okv, _ := sameValue(ev.Value, rv.Value)
			if !sameParts(ev.Parts, rv.Parts) || !okv || ev.Datatype != rv.Datatype {
				d.rep.Fail("c13-entry-reused-receiver", fmt.Sprintf("entry %v (%v, datatype %q) decoded into a receiver that held another entry reads %v (%v, datatype %q)",
					ev.Parts, ev.Value, ev.Datatype, rv.Parts, rv.Value, rv.Datatype), in)
			}
		}
		for recv := 0; recv <= 1; recv++ {
			// a zero receiver uses the package default hasher: hashes are comparable with the
			// original's only when the original used it too (model comparison otherwise)
			var e2 merklize.RDFEntry
			if recv == 1 {
				pp, _ := merklize.Options{Hasher: s.rc}.NewPath("")
				e2, _ = merklize.Options{Hasher: s.rc}.NewRDFEntry(pp, "")
			}
			o := mzrun.Guard(10*time.Second, func() error { return e2.UnmarshalBinary(b) })
			so := singleObs{e: ev, recv: recv, ok: o.Class == "ok"}
			d.rep.Evaluations++
			if o.Class != "ok" {
				d.rep.Fail("c13-single-"+o.Class, fmt.Sprintf("RDFEntry round trip of %v (%T): %s", ev.Parts, ev.Value, o.Msg), in)
				s.singles = append(s.singles, so)
				continue
			}
			so.out = mzrun.View(e2)
			k, v, kerr := e2.KeyValueMtEntries()
			so.k, so.v, so.kvErr = k, v, kerr != nil
			if !sameParts(ev.Parts, so.out.Parts) {
				d.rep.Fail("c13-entry-parts", fmt.Sprintf("single entry: parts %v became %v", ev.Parts, so.out.Parts), in)
			}
			if ok, why := sameValue(ev.Value, so.out.Value); !ok {
				d.rep.Fail("c13-entry-"+why, fmt.Sprintf("single entry %v: %v (%T) became %v (%T)", ev.Parts, ev.Value, ev.Value, so.out.Value, so.out.Value), in)
			}
			if ev.Datatype != so.out.Datatype {
				d.rep.Fail("c13-entry-datatype", fmt.Sprintf("single entry %v: datatype %q became %q", ev.Parts, ev.Datatype, so.out.Datatype), in)
			}
			// same hasher on both sides => same hashes
			sameHasher := (recv == 1 && in.Cfg) || (recv == 0 && !in.Cfg)
			if sameHasher {
				k0, v0, e0 := e.KeyValueMtEntries()
				if (e0 == nil) != (kerr == nil) || (e0 == nil && (k0.Cmp(k) != 0 || v0.Cmp(v) != 0)) {
					d.rep.Fail("c13-entry-hash", fmt.Sprintf("single entry %v: key/value hashes changed", ev.Parts), in)
				}
			}
			s.singles = append(s.singles, so)
		}
	}
}

// deepPair returns two property IRIs whose single-part path keys (default Poseidon hasher)
// agree on at least their 31 lowest bits but not on 39: a known pair is re-verified, a birthday
// search over generated names runs only if it no longer holds.
func deepPair() (string, string, int) {
	key := func(iri string) *big.Int {
		p, err := merklize.Options{Hasher: merklize.PoseidonHasher{}}.NewPath(iri)
		if err != nil {
			return nil
		}
		k, err := p.MtEntry()
		if err != nil {
			return nil
		}
		return k
	}
	shared := func(a, b *big.Int) int {
		n := 0
		for n < 64 && a.Bit(n) == b.Bit(n) {
			n++
		}
		return n
	}
	const base = "https://example.com/vocab#field"
	a, b := base+"10223", base+"25948"
	if ka, kb := key(a), key(b); ka != nil && kb != nil {
		if n := shared(ka, kb); n >= 31 && n < 39 {
			return a, b, n
		}
	}
	seen := map[uint64]string{}
	for i := 0; i < 200000; i++ {
		iri := fmt.Sprintf("%s%d", base, i)
		k := key(iri)
		if k == nil {
			continue
		}
		low := new(big.Int).And(k, big.NewInt(1<<31-1)).Uint64()
		if other, ok := seen[low]; ok {
			if n := shared(k, key(other)); n >= 31 && n < 39 {
				return other, iri, n
			}
		}
		seen[low] = iri
	}
	return "", "", 0
}

// ---- hand-built streams ----

func craftedValue(c CraftedEntry) (any, error) {
	switch c.Kind {
	case "int64":
		var x int64
		_, err := fmt.Sscan(c.Val, &x)
		return x, err
	case "big":
		z, ok := new(big.Int).SetString(c.Val, 10)
		if !ok {
			return nil, fmt.Errorf("bad big")
		}
		return z, nil
	case "bool":
		return c.Val == "true", nil
	case "time":
		return time.Parse(time.RFC3339Nano, c.Val)
	default:
		return c.Val, nil
	}
}

func normParts(ps []any) []any {
	out := make([]any, len(ps))
	for i, p := range ps {
		if f, ok := p.(float64); ok {
			out[i] = int(f)
		} else {
			out[i] = p
		}
	}
	return out
}

// craftedStream writes the stream exactly as Merklizer.MarshalBinary lays it out.
func craftedStream(cs []CraftedEntry, h merklize.Hasher, safe bool) ([]byte, error) {
	var entries []merklize.RDFEntry
	for _, c := range cs {
		v, err := craftedValue(c)
		if err != nil {
			return nil, err
		}
		p, err := merklize.Options{Hasher: h}.NewPath(normParts(c.Parts)...)
		if err != nil {
			return nil, err
		}
		e, err := merklize.Options{Hasher: h}.NewRDFEntry(p, v)
		if err != nil {
			return nil, err
		}
		// the datatype travels inside the entry blob: round-trip the entry once with the datatype patched in
		eb, err := patchDatatype(e, c.Datatype, h)
		if err != nil {
			return nil, err
		}
		entries = append(entries, eb)
	}
	mt := newTree()
	if err := merklize.AddEntriesToMerkleTree(context.Background(), merklize.MerkleTreeSQLAdapter(mt), entries); err != nil {
		return nil, err
	}
	var buf bytes.Buffer
	enc := gob.NewEncoder(&buf)
	steps := []any{1, []byte(`{}`), []byte(`{}`), mt.Root().BigInt(), len(entries)}
	for _, x := range steps {
		if err := enc.Encode(x); err != nil {
			return nil, err
		}
	}
	for i := range entries {
		k, err := entries[i].KeyMtEntry()
		if err != nil {
			return nil, err
		}
		if err := enc.Encode(k.String()); err != nil {
			return nil, err
		}
		if err := enc.Encode(&entries[i]); err != nil {
			return nil, err
		}
	}
	if err := enc.Encode(safe); err != nil {
		return nil, err
	}
	return buf.Bytes(), nil
}

// encodeWire re-encodes a parsed stream with one field changed (BinaryRun.tamper_wire),
// or with one entry blob replaced.
func encodeWire(w *wireObs, tamper int, blobAt int, newBlob []byte) ([]byte, error) {
	ver, n := w.ver, w.n
	switch tamper {
	case 1:
		ver = 2
	case 2:
		n++
	case 3:
		n--
	case 4:
		n = -1
	case 5:
		n = 1 << 40
	}
	var buf bytes.Buffer
	enc := gob.NewEncoder(&buf)
	for _, x := range []any{ver, w.src, w.comp, w.root, n} {
		if err := enc.Encode(x); err != nil {
			return nil, err
		}
	}
	for i, e := range w.entries {
		if err := enc.Encode(e.key); err != nil {
			return nil, err
		}
		b := blob{b: e.blob}
		if i == blobAt {
			b = blob{b: newBlob}
		}
		if err := enc.Encode(&b); err != nil {
			return nil, err
		}
	}
	if err := enc.Encode(w.safe); err != nil {
		return nil, err
	}
	return buf.Bytes(), nil
}

// entryBlob writes an entry blob with arbitrary version / tag / payload.
func entryBlob(ver int, parts []any, tag uint8, payload any, dt string) []byte {
	var buf bytes.Buffer
	enc := gob.NewEncoder(&buf)
	for _, x := range []any{ver, parts, tag, payload, dt} {
		if err := enc.Encode(x); err != nil {
			return nil
		}
	}
	return buf.Bytes()
}

// patchDatatype re-encodes the entry blob with another datatype string (the
// public API has no setter): version, parts, tag, payload are copied verbatim.
func patchDatatype(e merklize.RDFEntry, dt string, h merklize.Hasher) (merklize.RDFEntry, error) {
	if dt == "" {
		return e, nil
	}
	b, err := e.MarshalBinary()
	if err != nil {
		return e, err
	}
	we, err := parseEntry(b)
	if err != nil {
		return e, err
	}
	var buf bytes.Buffer
	enc := gob.NewEncoder(&buf)
	if err := enc.Encode(we.ver); err != nil {
		return e, err
	}
	if err := enc.Encode(we.parts); err != nil {
		return e, err
	}
	if err := enc.Encode(we.tag); err != nil {
		return e, err
	}
	if err := enc.Encode(we.payload); err != nil {
		return e, err
	}
	if err := enc.Encode(dt); err != nil {
		return e, err
	}
	pp, _ := merklize.Options{Hasher: h}.NewPath("")
	out, _ := merklize.Options{Hasher: h}.NewRDFEntry(pp, "")
	if err := out.UnmarshalBinary(buf.Bytes()); err != nil {
		return e, err
	}
	return out, nil
}

func (d *drv) craftedSpec(prime *big.Int) []CraftedEntry {
	r := d.cfg.Rng
	n := []int{0, 1, 2, 3, 5, 8, 12}[r.Intn(7)]
	half := new(big.Int).Rsh(prime, 1)
	dts := []string{"", docgen.XSD + "integer", docgen.XSD + "boolean", docgen.XSD + "string", docgen.XSD + "dateTime", docgen.XSD + "double", docgen.Vocab + "customType"}
	var out []CraftedEntry
	for i := 0; i < n; i++ {
		parts := []any{fmt.Sprintf("%sp%d", docgen.Vocab, r.Intn(4))}
		switch r.Intn(3) {
		case 0:
			parts = append(parts, i)
		case 1:
			parts = append(parts, i, fmt.Sprintf("%sq%d", docgen.Vocab, r.Intn(3)))
		default:
			parts = append(parts, fmt.Sprintf("%sr%d", docgen.Vocab, i))
		}
		c := CraftedEntry{Parts: parts, Datatype: dts[r.Intn(len(dts))]}
		switch r.Intn(6) {
		case 0:
			c.Kind = "int64"
			bound := int64(math.MaxInt64)
			if half.IsInt64() {
				bound = half.Int64()
			}
			v := r.Int63n(bound)
			switch r.Intn(4) {
			case 0:
				v = -v
			case 1:
				v = []int64{0, 1, -1, bound - 1, -(bound - 1)}[r.Intn(5)]
			}
			c.Val = fmt.Sprint(v)
		case 1:
			c.Kind = "big"
			z := new(big.Int).Rand(r, half)
			switch r.Intn(4) {
			case 0:
				z.Neg(z)
			case 1:
				z.Sub(prime, big.NewInt(int64(1+r.Intn(3))))
			case 2:
				z.Neg(new(big.Int).Sub(half, big.NewInt(int64(r.Intn(3)))))
			}
			c.Val = z.String()
		case 2:
			c.Kind = "bool"
			c.Val = fmt.Sprint(r.Intn(2) == 0)
		case 3:
			c.Kind = "time"
			off := []int{0, 0, 3600, -7200, 19800, 5025, -86399, 50400}[r.Intn(8)]
			t := time.Unix(r.Int63n(8e9)-4e9, r.Int63n(1e9)).In(time.FixedZone("", off))
			if r.Intn(3) == 0 {
				t = time.Unix(r.Int63n(8e9)-4e9, 0).UTC()
			}
			if r.Intn(3) == 0 {
				// instants outside the int64-nanosecond range 1677..2262
				y := []int{1, 1066, 1600, 2300, 9999}[r.Intn(5)]
				t = time.Date(y, time.Month(1+r.Intn(12)), 1+r.Intn(28), r.Intn(24), r.Intn(60), r.Intn(60), r.Intn(1e9), time.FixedZone("", off/60*60))
			}
			c.Val = t.Format(time.RFC3339Nano)
			if off%60 != 0 {
				// RFC3339 cannot spell second-granular offsets: keep minute precision in the spec
				t = t.In(time.FixedZone("", off/60*60))
				c.Val = t.Format(time.RFC3339Nano)
			}
		default:
			c.Kind = "string"
			c.Val = []string{"a", "hello world", "ünï ✓", "with \"quotes\"", "0", "true", strings.Repeat("z", 70), "\x00bin\xff"}[r.Intn(8)]
		}
		out = append(out, c)
	}
	return out
}

// ---- Coq rendering ----

func tabCoq(t [][3]*big.Int) string {
	var l []string
	for _, e := range t {
		l = append(l, fmt.Sprintf("(%s,%s,%s)", coqgen.Limbs(e[0]), coqgen.Limbs(e[1]), coqgen.Limbs(e[2])))
	}
	return "[" + strings.Join(l, ";") + "]"
}

func rhCoq(r *hashers.Recorder, f *coqgen.File) string {
	s := r.Coq(f)
	s = strings.Replace(s, "{| rh_prime := ", "(mkrh (", 1)
	s = strings.Replace(s, ";\n rh_hash := ", ") (", 1)
	s = strings.Replace(s, ";\n rh_bytes := ", ") (", 1)
	if strings.HasSuffix(s, " |}") {
		s = s[:len(s)-3] + "))"
	}
	return s
}

func payloadCoq(f *coqgen.File, v any) string {
	switch x := v.(type) {
	case int64:
		return "RWInt64 " + coqgen.SNumI(x)
	case bool:
		return "RWBool " + coqgen.Bool(x)
	case string:
		return "RWStr " + f.Str(x)
	case time.Time:
		return fmt.Sprintf("RWTime %s %s", coqgen.SNumI(x.Unix()), coqgen.SNumI(int64(x.Nanosecond())))
	case *big.Int:
		return "RWBig " + coqgen.SNum(x)
	}
	return "RWStr " + f.Str(fmt.Sprintf("<?%T>", v))
}

func (s *scen) coq(f *coqgen.File, id int) string {
	var es []string
	for _, v := range s.entries {
		es = append(es, mzrun.EntryCoq(f, v))
	}
	var wes []string
	for _, e := range s.wire.entries {
		k, _ := new(big.Int).SetString(e.key, 10)
		if k == nil {
			k = big.NewInt(0)
		}
		wes = append(wes, fmt.Sprintf("mkrwe %s %d %s %d (%s) %s", coqgen.Limbs(k), e.ver, mzrun.PartsCoq(f, e.parts), e.tag, payloadCoq(f, e.payload), f.Str(e.dt)))
	}
	w := fmt.Sprintf("(mkrw %d %s %d\n  [%s]\n  %s %d)", s.wire.ver, coqgen.Limbs(s.wire.root), s.wire.n, strings.Join(wes, ";\n   "), coqgen.Bool(s.wire.safe), s.wire.inlen)
	var rs []string
	for _, r := range s.rest {
		t := "RTNone"
		switch r.tree {
		case "same":
			t = "RTSame"
		case "empty":
			t = "RTEmpty"
		case "leaf":
			t = fmt.Sprintf("(RTLeaf %s %s)", coqgen.Limbs(r.leafK), coqgen.Limbs(r.leafV))
		}
		o := "BOErr"
		if r.ok {
			var l []string
			for _, k := range sortedKeys(r.ents) {
				kk, _ := new(big.Int).SetString(k, 10)
				l = append(l, fmt.Sprintf("(%s, %s)", coqgen.Limbs(kk), mzrun.EntryCoq(f, r.ents[k])))
			}
			var mk []string
			for _, x := range r.mk {
				ob := "MKErr"
				switch x.class {
				case "ok":
					ob = "(MKOk " + coqgen.Limbs(x.h) + ")"
				case "err":
				default:
					ob = "MKPanic"
				}
				mk = append(mk, fmt.Sprintf("(%s, %s)", mzrun.ValueCoq(f, x.v), ob))
			}
			var ps []string
			for _, x := range r.ps {
				vh, dt := "None", "None"
				if x.vh != nil {
					vh = "(Some " + coqgen.Limbs(x.vh) + ")"
				}
				if x.dt != nil {
					dt = "(Some " + f.Str(*x.dt) + ")"
				}
				ps = append(ps, fmt.Sprintf("mkpo %s %s %s %s %s", mzrun.PartsCoq(f, x.parts), coqgen.Bool(x.proofOK), coqgen.Bool(x.ex), vh, dt))
			}
			o = fmt.Sprintf("(BOOk %s [%s] [%s]\n    [%s])", coqgen.Limbs(r.root), strings.Join(l, ";\n    "), strings.Join(mk, "; "), strings.Join(ps, ";\n     "))
		}
		rs = append(rs, fmt.Sprintf("mkrr %d %d %s %d %s", r.ep, r.cfg, t, r.tamper, o))
	}
	var ss []string
	for _, x := range s.singles {
		o := "None"
		if x.ok {
			kv := "RKVErr"
			if !x.kvErr {
				kv = fmt.Sprintf("(RKV %s %s)", coqgen.Limbs(x.k), coqgen.Limbs(x.v))
			}
			o = fmt.Sprintf("(Some (%s, %s))", mzrun.EntryCoq(f, x.out), kv)
		}
		ss = append(ss, fmt.Sprintf("mkrs %s %d %s", mzrun.EntryCoq(f, x.e), x.recv, o))
	}
	return fmt.Sprintf("mkb %d %s\n %s\n %s\n %s\n %s\n [%s]\n %s\n [%s]\n [%s]", id, coqgen.Bool(s.in.Cfg),
		rhCoq(s.rc, f), rhCoq(s.rd, f), tabCoq(s.hl), tabCoq(s.hm), strings.Join(es, ";\n  "), w,
		strings.Join(rs, ";\n  "), strings.Join(ss, ";\n  "))
}

const shardSize = 10

func (d *drv) writeShards() error {
	n := len(d.scens)
	for k := 0; k*shardSize < n; k++ {
		lo, hi := k*shardSize, (k+1)*shardSize
		if hi > n {
			hi = n
		}
		f := coqgen.NewFile("From GSP Require Import Value.Time Value.Model Value.Run RDF.Model RDF.Run SMT.Model Merklizer.Model Merklizer.Binary Merklizer.BinaryRun.")
		name := filepath.Join(d.cfg.OutDir, fmt.Sprintf("cases_C13_%03d.v", k))
		var cs []string
		for i := lo; i < hi; i++ {
			cs = append(cs, d.scens[i].coq(f, i))
			d.rep.Case(name, i, d.scens[i].in)
		}
		f.Add("Definition cases_ : list bcase := " + coqgen.List(cs) + ".")
		f.Add("Definition M := Eval vm_compute in bmismatches " + coqgen.Limbs(constants.Q) + " cases_.")
		f.Add("Print M.")
		if err := f.Write(name); err != nil {
			return err
		}
		d.rep.Shards = append(d.rep.Shards, name)
	}
	return nil
}

func (d *drv) contextsOf(doc []byte) map[string]json.RawMessage {
	out := map[string]json.RawMessage{}
	for u, b := range d.gen.CtxURLs {
		if strings.Contains(string(doc), u) {
			out[u] = json.RawMessage(b)
		}
	}
	if len(out) == 0 {
		return nil
	}
	return out
}

func docPaths(doc *docgen.Doc) []string {
	var out []string
	for i, l := range doc.Leaves {
		if i >= 8 {
			break
		}
		out = append(out, strings.Join(l.DocPath, "."))
	}
	out = append(out, "nope", "nope.0", "")
	return out
}

// probeHuge restores the stream in a child process whose address space is capped, so that an
// unbounded allocation kills the child, not the harness.
func (d *drv) probeHuge(stream []byte) (class, msg string) {
	f := filepath.Join(d.cfg.OutDir, "huge-count.bin")
	if err := os.WriteFile(f, stream, 0o600); err != nil {
		return "harness", err.Error()
	}
	defer os.Remove(f)
	tmp, err := os.MkdirTemp(d.cfg.OutDir, "probe")
	if err != nil {
		return "harness", err.Error()
	}
	defer os.RemoveAll(tmp)
	cmd := exec.Command(os.Args[0], "-prop", "C13", "-out", tmp)
	cmd.Env = append(os.Environ(), "VERIF_C13_PROBE="+f)
	out, err := cmd.CombinedOutput()
	text := string(out)
	switch {
	case strings.Contains(text, "PROBE:err"):
		return "err", ""
	case strings.Contains(text, "PROBE:ok"):
		return "ok", "the stream was accepted"
	case strings.Contains(text, "PROBE:panic"):
		return "panic", lastLine(text)
	default:
		if len(text) > 300 {
			text = text[:300]
		}
		return "oom", fmt.Sprintf("child died (%v): %s", err, text)
	}
}

func lastLine(s string) string {
	ls := strings.Split(strings.TrimSpace(s), "\n")
	return ls[len(ls)-1]
}

func probeChild(path string) {
	lim := &syscall.Rlimit{Cur: 8 << 30, Max: 8 << 30}
	_ = syscall.Setrlimit(syscall.RLIMIT_AS, lim)
	b, err := os.ReadFile(path)
	if err != nil {
		fmt.Println("PROBE:harness", err)
		return
	}
	_, o := fromBytes(b)
	fmt.Println("PROBE:"+o.Class, o.Msg)
}

func Run(cfg *common.Config) (*common.Report, error) {
	rep := common.NewReport("C13")
	if p := os.Getenv("VERIF_C13_PROBE"); p != "" {
		probeChild(p)
		return rep, nil
	}
	rep.Correspondence = "Merklizer.BinaryRun.bmismatches: marshal / unmarshal / entry_marshal / entry_unmarshal (Merklizer/Binary.v) vs the typed content of the real gob stream of Merklizer.MarshalBinary, merklize.MerklizerFromBytes (hasher and tree options) and RDFEntry.MarshalBinary/UnmarshalBinary"
	rep.Rule = "originals: merklizers of docgen documents and merklizers restored from hand-built streams (int64, big integers incl. negatives and p-1, bool, string incl. non-UTF-8 bytes, times with zone offsets and nanoseconds; 0..12 entries) x {default hasher, salted Poseidon, Poseidon mod 2^61-1} x {WithHasher given or not}; per original: 1 restore compared on every observable, 20 repeated marshals, 3 caller trees, the other hasher configuration, a later SetHasher, tampered streams (version, count +1/-1/-1/2^40 — the last first in a child process with capped address space —, malformed entries, truncation), originals with safe mode off, single-entry round trips (zero receiver and Options receiver). evaluations = per-path observable comparisons + single-entry round trips; distinct = distinct (document/stream, hasher, cfg); non-trivial = at least one entry."
	d := &drv{cfg: cfg, rep: rep, loader: ctxload.New(), gen: docgen.New(cfg.Rng), orders: map[int]int{}}
	// restores through entry points that take no options (zero-value UnmarshalBinary, gob,
	// MerklizerFromBytes(blob)) resolve contexts through the package default loader
	d.pub = ctxload.New()
	merklize.SetDocumentLoader(d.pub)
	if cfg.Replay != "" {
		var rf struct {
			Input Input `json:"input"`
		}
		if err := common.ReadJSON(cfg.Replay, &rf); err != nil {
			return nil, err
		}
		for u, b := range rf.Input.Contexts {
			_ = d.loader.Add(u, b)
		}
		d.scenario(rf.Input)
		for _, f := range rep.Failures {
			fmt.Printf("replay: [%s] %s\n", f.Class, f.What)
		}
		if len(rep.Failures) == 0 {
			fmt.Println("replay: round trip is observationally equal on this input")
		}
		return rep, d.writeShards()
	}
	fam := families()
	nDoc := cfg.Pick(45, 500)
	for i := 0; i < nDoc; i++ {
		doc := d.gen.Valid(1 + cfg.Rng.Intn(3))
		for u, b := range d.gen.CtxURLs {
			if d.loader.Raw(u) == nil {
				_ = d.loader.Add(u, b)
			}
		}
		hi := i % len(fam)
		in := Input{Stream: "docgen", Doc: json.RawMessage(doc.Bytes), Hasher: hi, Cfg: hi != 0 || i%2 == 0,
			Contexts: d.contextsOf(doc.Bytes), DocPaths: docPaths(doc), Unsafe: i%4 == 1}
		d.scenario(in)
		if i%17 == 0 {
			rep.Sample(map[string]any{"stream": "docgen", "doc": string(doc.Bytes), "hasher": hi, "cfg": in.Cfg})
		}
	}
	// two root properties whose path keys share their 31 lowest bits: the leaves sit at depth
	// >= 32 of the 40-level tree; a restored tree must have room for them too
	if a, b, bits := deepPair(); a != "" {
		rep.Count(fmt.Sprintf("deep-pair:shared-low-bits:%d", bits))
		for _, cfgd := range []bool{false, true} {
			doc := fmt.Sprintf(`{"@id":"urn:deep:1","@type":"https://example.com/vocab#Thing",%q:"first",%q:{"@value":"-12345678901234567890123","@type":"http://www.w3.org/2001/XMLSchema#integer"},"https://example.com/vocab#flag":true,"https://example.com/vocab#list":["a","b"]}`, a, b)
			d.scenario(Input{Stream: "deep-pair", Doc: json.RawMessage(doc), Hasher: 0, Cfg: cfgd, DocPaths: []string{"nope"}})
		}
	} else {
		rep.Count("deep-pair:none-found")
	}
	nCraft := cfg.Pick(30, 300)
	for i := 0; i < nCraft; i++ {
		hi := i % len(fam)
		spec := d.craftedSpec(fam[hi].Prime())
		in := Input{Stream: "crafted", Crafted: spec, Hasher: hi, Cfg: hi != 0 || i%2 == 0, Unsafe: i%3 == 1}
		if in.Crafted == nil {
			in.Crafted = []CraftedEntry{}
		}
		d.scenario(in)
		if i%13 == 0 {
			rep.Sample(map[string]any{"stream": "crafted", "entries": spec, "hasher": hi, "cfg": in.Cfg})
		}
	}
	for k, v := range d.orders {
		rep.Distribution[fmt.Sprintf("distinct-stream-orders-in-20-marshals:%d", k)] = v
	}
	rep.Notes = append(rep.Notes,
		"gob byte format and encoding/json round trip of the compacted document are trusted (modelled as a typed wire / identity) and compared differentially on every run",
		"zone offsets of time values are compared on the implementation side only (the model's time value is the instant)")
	return rep, d.writeShards()
}
