// vharness: runs /repo's implementation on generated inputs, evaluates the
// implementation-side property oracles, and writes Coq case files for the
// model/implementation correspondence check.  Built with -tags verif against
// the current working tree of /repo (replace directive in go.mod).
package main

import (
	"flag"
	"fmt"
	"math/rand"
	"os"

	"vharness/common"
)

func main() {
	prop := flag.String("prop", "", "property id (C01..C20)")
	seed := flag.Int64("seed", 1, "PRNG seed")
	tier := flag.String("tier", "quick", "quick|thorough")
	out := flag.String("out", "", "output directory")
	replay := flag.String("replay", "", "replay file")
	flag.Parse()
	if *prop == "" || *out == "" {
		fmt.Fprintln(os.Stderr, "usage: vharness -prop Cxx -out DIR [-seed N] [-tier quick|thorough] [-replay F]")
		os.Exit(2)
	}
	d, err := common.Lookup(*prop)
	if err != nil {
		fmt.Fprintln(os.Stderr, err)
		os.Exit(2)
	}
	if err := os.MkdirAll(*out, 0o755); err != nil {
		fmt.Fprintln(os.Stderr, err)
		os.Exit(2)
	}
	cfg := &common.Config{Property: *prop, Seed: *seed, Tier: *tier, OutDir: *out, Replay: *replay,
		Rng: rand.New(rand.NewSource(*seed))}
	rep, err := d(cfg)
	if err != nil {
		fmt.Fprintln(os.Stderr, "harness error:", err)
		os.Exit(3)
	}
	if err := rep.Write(*out); err != nil {
		fmt.Fprintln(os.Stderr, err)
		os.Exit(3)
	}
}
