// vharness: runs /repo's implementation on generated inputs, evaluates the
// implementation-side property oracles, and writes Coq case files for the
// model/implementation correspondence check.  Built with -tags verif against
// the current working tree of /repo (replace directive in go.mod).
// Drivers register themselves from reg_*.go.
package main

import "vharness/common"

func main() { common.Main() }
