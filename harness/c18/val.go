package c18

// JSON values with exact number literals and ordered members: rendering to JSON
// text, order-preserving parsing of JSON text, rendering as Coq terms for
// Schema/Run.v, and JSON equality (used by generators only).

import (
	"bytes"
	"encoding/json"
	"fmt"
	"io"
	"math/big"
	"strconv"
	"strings"

	"vharness/coqgen"
)

type kind int

const (
	kNull kind = iota
	kBool
	kNum
	kStr
	kArr
	kObj
)

type Member struct {
	K string
	V *Val
}

type Val struct {
	K   kind
	B   bool
	Lit string // number literal exactly as written in the JSON text
	S   string
	A   []*Val
	O   []Member
}

func Null() *Val                { return &Val{K: kNull} }
func Bool(b bool) *Val          { return &Val{K: kBool, B: b} }
func Str(s string) *Val         { return &Val{K: kStr, S: s} }
func NumLit(l string) *Val      { return &Val{K: kNum, Lit: l} }
func Int(i int64) *Val          { return &Val{K: kNum, Lit: strconv.FormatInt(i, 10)} }
func Arr(a ...*Val) *Val        { return &Val{K: kArr, A: a} }
func Obj(m ...Member) *Val      { return &Val{K: kObj, O: m} }
func M(k string, v *Val) Member { return Member{K: k, V: v} }

func (v *Val) Get(k string) *Val {
	for _, m := range v.O {
		if m.K == k {
			return m.V
		}
	}
	return nil
}

// Set replaces or appends a member (objects only) and returns v.
func (v *Val) Set(k string, x *Val) *Val {
	for i, m := range v.O {
		if m.K == k {
			v.O[i].V = x
			return v
		}
	}
	v.O = append(v.O, Member{k, x})
	return v
}

func (v *Val) Del(k string) {
	for i, m := range v.O {
		if m.K == k {
			v.O = append(v.O[:i:i], v.O[i+1:]...)
			return
		}
	}
}

func (v *Val) Clone() *Val {
	c := *v
	if v.A != nil {
		c.A = make([]*Val, len(v.A))
		for i, x := range v.A {
			c.A[i] = x.Clone()
		}
	}
	if v.O != nil {
		c.O = make([]Member, len(v.O))
		for i, m := range v.O {
			c.O[i] = Member{m.K, m.V.Clone()}
		}
	}
	return &c
}

func quote(s string) string {
	var b bytes.Buffer
	e := json.NewEncoder(&b)
	e.SetEscapeHTML(false)
	_ = e.Encode(s)
	return strings.TrimRight(b.String(), "\n")
}

func (v *Val) write(sb *strings.Builder) {
	switch v.K {
	case kNull:
		sb.WriteString("null")
	case kBool:
		if v.B {
			sb.WriteString("true")
		} else {
			sb.WriteString("false")
		}
	case kNum:
		sb.WriteString(v.Lit)
	case kStr:
		sb.WriteString(quote(v.S))
	case kArr:
		sb.WriteString("[")
		for i, x := range v.A {
			if i > 0 {
				sb.WriteString(",")
			}
			x.write(sb)
		}
		sb.WriteString("]")
	case kObj:
		sb.WriteString("{")
		for i, m := range v.O {
			if i > 0 {
				sb.WriteString(",")
			}
			sb.WriteString(quote(m.K))
			sb.WriteString(":")
			m.V.write(sb)
		}
		sb.WriteString("}")
	}
}

func (v *Val) Text() string {
	var sb strings.Builder
	v.write(&sb)
	return sb.String()
}

// Parse decodes one JSON document keeping member order and number literals.
// ok=false when the text is not exactly one well-formed JSON document.
func Parse(text string) (*Val, bool) {
	if !json.Valid([]byte(text)) {
		return nil, false
	}
	dec := json.NewDecoder(strings.NewReader(text))
	dec.UseNumber()
	v, err := parseVal(dec)
	if err != nil {
		return nil, false
	}
	if _, err := dec.Token(); err != io.EOF {
		return nil, false
	}
	return v, true
}

func parseVal(dec *json.Decoder) (*Val, error) {
	t, err := dec.Token()
	if err != nil {
		return nil, err
	}
	switch x := t.(type) {
	case nil:
		return Null(), nil
	case bool:
		return Bool(x), nil
	case json.Number:
		return NumLit(string(x)), nil
	case string:
		return Str(x), nil
	case json.Delim:
		switch x {
		case '[':
			a := &Val{K: kArr, A: []*Val{}}
			for dec.More() {
				e, err := parseVal(dec)
				if err != nil {
					return nil, err
				}
				a.A = append(a.A, e)
			}
			if _, err := dec.Token(); err != nil {
				return nil, err
			}
			return a, nil
		case '{':
			o := &Val{K: kObj, O: []Member{}}
			for dec.More() {
				kt, err := dec.Token()
				if err != nil {
					return nil, err
				}
				k, ok := kt.(string)
				if !ok {
					return nil, fmt.Errorf("key")
				}
				e, err := parseVal(dec)
				if err != nil {
					return nil, err
				}
				o.O = append(o.O, Member{k, e})
			}
			if _, err := dec.Token(); err != nil {
				return nil, err
			}
			return o, nil
		}
	}
	return nil, fmt.Errorf("unexpected token %v", t)
}

// HasDupKeys reports whether some object in v has two members with one name
// (the Coq model reads member lists first-match, Go maps keep the last one).
func (v *Val) HasDupKeys() bool {
	switch v.K {
	case kArr:
		for _, x := range v.A {
			if x.HasDupKeys() {
				return true
			}
		}
	case kObj:
		seen := map[string]bool{}
		for _, m := range v.O {
			if seen[m.K] || m.V.HasDupKeys() {
				return true
			}
			seen[m.K] = true
		}
	}
	return false
}

// decompose a JSON number literal into mantissa and decimal exponent: value = mant * 10^exp
func litParts(lit string) (mant *big.Int, exp int, ok bool) {
	s := lit
	neg := false
	if strings.HasPrefix(s, "-") {
		neg, s = true, s[1:]
	}
	e := 0
	if i := strings.IndexAny(s, "eE"); i >= 0 {
		x, err := strconv.Atoi(s[i+1:])
		if err != nil {
			return nil, 0, false
		}
		e, s = x, s[:i]
	}
	if i := strings.IndexByte(s, '.'); i >= 0 {
		e -= len(s) - i - 1
		s = s[:i] + s[i+1:]
	}
	m, good := new(big.Int).SetString(s, 10)
	if !good {
		return nil, 0, false
	}
	if neg {
		m.Neg(m)
	}
	return m, e, true
}

func litRat(lit string) *big.Rat {
	m, e, ok := litParts(lit)
	if !ok {
		return nil
	}
	r := new(big.Rat).SetInt(m)
	p := new(big.Int).Exp(big.NewInt(10), big.NewInt(int64(abs(e))), nil)
	if e >= 0 {
		return r.Mul(r, new(big.Rat).SetInt(p))
	}
	return r.Quo(r, new(big.Rat).SetInt(p))
}

func abs(x int) int {
	if x < 0 {
		return -x
	}
	return x
}

// float64Exact: the literal denotes a value the float64 decoding of the wrapper
// preserves (what santhosh-tekuri sees is the shortest decimal of the float64).
func float64Exact(lit string) bool {
	f, err := strconv.ParseFloat(lit, 64)
	if err != nil {
		return false
	}
	seen, ok := new(big.Rat).SetString(fmt.Sprint(f))
	if !ok {
		return false
	}
	want := litRat(lit)
	return want != nil && seen.Cmp(want) == 0
}

// AllFloatExact: every number in v survives the float64 decoding.
func (v *Val) AllFloatExact() bool {
	switch v.K {
	case kNum:
		return float64Exact(v.Lit)
	case kArr:
		for _, x := range v.A {
			if !x.AllFloatExact() {
				return false
			}
		}
	case kObj:
		for _, m := range v.O {
			if !m.V.AllFloatExact() {
				return false
			}
		}
	}
	return true
}

var two62 = new(big.Int).Lsh(big.NewInt(1), 62)

// Coq renders v with the constructor functions of Schema/Run.v.
func (v *Val) Coq(f *coqgen.File) string {
	switch v.K {
	case kNull:
		return "jn"
	case kBool:
		return "jb " + coqgen.Bool(v.B)
	case kNum:
		m, e, ok := litParts(v.Lit)
		if !ok {
			return "jn"
		}
		if e == 0 && m.CmpAbs(two62) < 0 {
			if m.Sign() >= 0 {
				return "ji " + m.String()
			}
			return "jni " + new(big.Int).Abs(m).String()
		}
		return fmt.Sprintf("jd %s %s %s %d", coqgen.Bool(m.Sign() < 0), coqgen.Limbs(m), coqgen.Bool(e < 0), abs(e))
	case kStr:
		return "js " + f.Str(v.S)
	case kArr:
		parts := make([]string, len(v.A))
		for i, x := range v.A {
			parts[i] = wrap(x.Coq(f))
		}
		return "ja [" + strings.Join(parts, "; ") + "]"
	default:
		parts := make([]string, len(v.O))
		for i, m := range v.O {
			parts[i] = "(" + f.Str(m.K) + ", " + m.V.Coq(f) + ")"
		}
		return "jo [" + strings.Join(parts, "; ") + "]"
	}
}

func wrap(s string) string {
	if strings.ContainsAny(s, " ") {
		return "(" + s + ")"
	}
	return s
}

// Equal: JSON equality (numbers by value, objects unordered) — generator side only.
func Equal(a, b *Val) bool {
	if a.K != b.K {
		return false
	}
	switch a.K {
	case kNull:
		return true
	case kBool:
		return a.B == b.B
	case kNum:
		x, y := litRat(a.Lit), litRat(b.Lit)
		return x != nil && y != nil && x.Cmp(y) == 0
	case kStr:
		return a.S == b.S
	case kArr:
		if len(a.A) != len(b.A) {
			return false
		}
		for i := range a.A {
			if !Equal(a.A[i], b.A[i]) {
				return false
			}
		}
		return true
	default:
		if len(a.O) != len(b.O) {
			return false
		}
		for _, m := range a.O {
			w := b.Get(m.K)
			if w == nil || !Equal(m.V, w) {
				return false
			}
		}
		return true
	}
}
