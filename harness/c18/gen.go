package c18

// Generators: schemas over the structural vocabulary together with instances
// that conform by construction and instances with exactly one injected violation.

import (
	"fmt"
	"math/big"
	"math/rand"
	"strconv"
	"strings"
)

type draft int

const (
	d7 draft = iota
	d2020
)

var d7URLs = []string{"http://json-schema.org/draft-07/schema#", "http://json-schema.org/draft-07/schema", "https://json-schema.org/draft-07/schema#"}
var d2020URLs = []string{"https://json-schema.org/draft/2020-12/schema", "https://json-schema.org/draft/2020-12/schema#", "http://json-schema.org/draft/2020-12/schema", "https://json-schema.org/schema"}

// node: a schema with generators of conforming / violating instances.
type node struct {
	sch     *Val
	typ     string          // string integer number boolean null array object enum
	alts    map[string]bool // type families accepted through a disjunction at this node
	valid   func() *Val
	bad     []badgen
	wrapped int  // number of wrappers applied so far
	vac     bool // carries keywords of other type families
}

type badgen struct {
	what string
	gen  func() *Val
}

type sgen struct {
	rng   *rand.Rand
	d     draft
	defs  []Member // hoisted definitions
	defsK string   // "definitions" or "$defs"
	nref  int
	feat  map[string]int // features used by the current schema (distribution)
}

func family(t string) string {
	if t == "integer" {
		return "number"
	}
	return t
}

var families = []string{"string", "number", "boolean", "null", "array", "object"}

func canon(fam string) *Val {
	switch fam {
	case "string":
		return Str("wrong-type")
	case "number":
		return NumLit("12345.5")
	case "boolean":
		return Bool(true)
	case "null":
		return Null()
	case "array":
		return Arr(Int(1), Str("w"))
	default:
		return Obj(M("wrongType", Int(1)))
	}
}

func (g *sgen) pick(n int) int    { return g.rng.Intn(n) }
func (g *sgen) coin(pct int) bool { return g.rng.Intn(100) < pct }
func (g *sgen) use(f string)      { g.feat[f]++ }

// a type family that is neither the node's own nor one of its alternatives
func (g *sgen) otherFamily(n *node) (string, bool) {
	var c []string
	for _, f := range families {
		if f != family(n.typ) && !n.alts[f] {
			c = append(c, f)
		}
	}
	if len(c) == 0 {
		return "", false
	}
	return c[g.pick(len(c))], true
}

func (g *sgen) addWrongType(n *node) {
	if n.typ == "enum" {
		return
	}
	n.bad = append(n.bad, badgen{"wrong-type", func() *Val {
		f, ok := g.otherFamily(n)
		if !ok {
			return nil
		}
		return canon(f)
	}})
}

// ---------------------------------------------------------------- strings

type patSpec struct {
	pat  string
	good func(r *rand.Rand) string
	bad  []string
}

func rep(r *rand.Rand, alphabet []string, lo, hi int) string {
	n := lo + r.Intn(hi-lo+1)
	var sb strings.Builder
	for i := 0; i < n; i++ {
		sb.WriteString(alphabet[r.Intn(len(alphabet))])
	}
	return sb.String()
}

var lower = strings.Split("abcdefghijklmnopqrstuvwxyz", "")
var digits = strings.Split("0123456789", "")
var mixed = []string{"a", "b", "z", "Q", "7", "_", "-", " ", "é", "ß", "λ", "世", "😀", ".", "x"}

var patterns = []patSpec{
	{"^[a-z]+$", func(r *rand.Rand) string { return rep(r, lower, 1, 6) }, []string{"", "A1", "ab1", "abc d", "é"}},
	{"^[0-9]{2,4}$", func(r *rand.Rand) string { return rep(r, digits, 2, 4) }, []string{"1", "12345", "12a", ""}},
	{"ab", func(r *rand.Rand) string { return rep(r, mixed, 0, 3) + "ab" + rep(r, mixed, 0, 3) }, []string{"ba", "a-b", "", "aéb"}},
	{"(foo|bar)+x", func(r *rand.Rand) string {
		return rep(r, lower, 0, 2) + rep(r, []string{"foo", "bar"}, 1, 3) + "x" + rep(r, mixed, 0, 2)
	}, []string{"fox", "barfo", "x", "foo-x"}},
	{"^\\d+\\.\\d$", func(r *rand.Rand) string { return rep(r, digits, 1, 4) + "." + rep(r, digits, 1, 1) }, []string{"1.55", "15", ".5", "1x5", "v1.5"}},
	{"[^a-c]z", func(r *rand.Rand) string {
		return rep(r, lower, 0, 2) + rep(r, []string{"d", "Q", "é", "9", "\n"}, 1, 1) + "z"
	}, []string{"az", "bz", "z", "cz"}},
	{"^é+z", func(r *rand.Rand) string { return rep(r, []string{"é"}, 1, 4) + "z" + rep(r, mixed, 0, 2) }, []string{"ez", "z", "aéz"}},
	{"^a.c$", func(r *rand.Rand) string { return "a" + rep(r, []string{"b", "é", "😀", " ", "."}, 1, 1) + "c" }, []string{"ac", "a\nc", "abbc", "xabc"}},
	{"colou?r", func(r *rand.Rand) string { return rep(r, lower, 0, 2) + rep(r, []string{"color", "colour"}, 1, 1) }, []string{"colouur", "colr", ""}},
	{"^(a|bc)*$", func(r *rand.Rand) string { return rep(r, []string{"a", "bc"}, 0, 4) }, []string{"b", "ab", "abcb", "x"}},
	{"^[A-Z][a-z_]*[0-9]?$", func(r *rand.Rand) string {
		return rep(r, []string{"A", "K", "Z"}, 1, 1) + rep(r, []string{"a", "m", "z", "_"}, 0, 4) + rep(r, digits, 0, 1)
	}, []string{"a", "Ab12", "AB", ""}},
	{"x{2,}y", func(r *rand.Rand) string { return rep(r, []string{"x"}, 2, 5) + "y" }, []string{"xy", "y", "xxz"}},
	{"^\\w+@\\w+\\.(com|org)$", func(r *rand.Rand) string {
		return rep(r, lower, 1, 4) + "@" + rep(r, lower, 1, 4) + "." + rep(r, []string{"com", "org"}, 1, 1)
	}, []string{"a@b.net", "@b.com", "a b@c.com", "a@b.com "}},
	{"\\$[0-9]+", func(r *rand.Rand) string { return "cost $" + rep(r, digits, 1, 3) }, []string{"$", "5$", "$x"}},
}

func (g *sgen) stringNode() *node {
	n := &node{typ: "string", alts: map[string]bool{}}
	n.sch = Obj(M("type", Str("string")))
	if g.coin(45) {
		p := patterns[g.pick(len(patterns))]
		g.use("pattern")
		n.sch.Set("pattern", Str(p.pat))
		n.valid = func() *Val { return Str(p.good(g.rng)) }
		n.bad = append(n.bad, badgen{"pattern", func() *Val { return Str(p.bad[g.pick(len(p.bad))]) }})
	} else {
		lo := g.pick(4)
		hi := lo + g.pick(5)
		hasMin, hasMax := g.coin(70), g.coin(70)
		if hasMin {
			g.use("minLength")
			n.sch.Set("minLength", g.countLit(lo))
		}
		if hasMax {
			g.use("maxLength")
			n.sch.Set("maxLength", g.countLit(hi))
		}
		n.valid = func() *Val {
			l := lo + g.pick(hi-lo+1)
			if g.coin(30) {
				if hasMin && g.coin(50) {
					l = lo
				} else if hasMax {
					l = hi
				}
			}
			return Str(rep(g.rng, mixed, l, l))
		}
		if hasMin && lo > 0 {
			n.bad = append(n.bad, badgen{"minLength", func() *Val { return Str(rep(g.rng, mixed, lo-1, lo-1)) }})
		}
		if hasMax {
			n.bad = append(n.bad, badgen{"maxLength", func() *Val {
				// multi-byte characters only: the bound is in code points, not bytes
				return Str(rep(g.rng, []string{"é", "世", "😀", "a"}, hi+1, hi+1+g.pick(2)))
			}})
		}
	}
	g.addWrongType(n)
	return n
}

// a count keyword value, occasionally spelled 3.0 / 3e0
func (g *sgen) countLit(c int) *Val {
	switch g.pick(12) {
	case 0:
		return NumLit(strconv.Itoa(c) + ".0")
	case 1:
		return NumLit(strconv.Itoa(c) + "e0")
	}
	return Int(int64(c))
}

// ---------------------------------------------------------------- numbers

// a rational rendered as a JSON literal: k / den with den in {1,2,4,8,10}
type dec struct {
	k   int64
	den int64
}

func (d dec) lit(r *rand.Rand, fancy bool) string {
	x := new(big.Rat).SetFrac64(d.k, d.den)
	if x.IsInt() {
		s := x.Num().String()
		if fancy {
			switch r.Intn(10) {
			case 0:
				return s + ".0"
			case 1:
				return s + "e0"
			case 2:
				return s + ".00E+0"
			case 3:
				if strings.HasSuffix(s, "0") && len(s) > 1 && s != "-0" {
					return s[:len(s)-1] + "e1" // 20 = 2e1
				}
				if s == "0" {
					return "0e1"
				}
				return s + "0e-1" // 7 = 70e-1
			case 4:
				if s == "0" {
					return "-0"
				}
			}
		}
		return s
	}
	return x.FloatString(3)[:len(x.FloatString(3))-trailingZeros(x.FloatString(3))]
}

func trailingZeros(s string) int {
	n := 0
	for i := len(s) - 1; i >= 0 && s[i] == '0'; i-- {
		n++
	}
	return n
}

func (g *sgen) numberNode(integer bool) *node {
	n := &node{alts: map[string]bool{}}
	den := int64(1)
	if integer {
		n.typ = "integer"
		n.sch = Obj(M("type", Str("integer")))
	} else {
		n.typ = "number"
		n.sch = Obj(M("type", Str("number")))
		den = []int64{2, 4, 8, 10, 1}[g.pick(5)]
	}
	// work in units of 1/den
	lo := int64(g.pick(41)-20) * den
	if integer && g.coin(8) {
		lo = int64(1) << 52 // large, but every integer in reach is exact in float64
	}
	span := int64(6+g.pick(30)) * den
	hi := lo + span
	step := int64(0) // multipleOf in units of 1/den
	if g.coin(35) {
		if integer {
			step = []int64{2, 3, 5, 10}[g.pick(4)]
		} else {
			step = []int64{1, 2, 3, den, 5}[g.pick(5)]
		}
		g.use("multipleOf")
		n.sch.Set("multipleOf", NumLit(dec{step, den}.lit(g.rng, true)))
	}
	lowKind, highKind := g.pick(3), g.pick(3) // 0 none 1 inclusive 2 exclusive
	if lowKind == 1 {
		g.use("minimum")
		n.sch.Set("minimum", NumLit(dec{lo, den}.lit(g.rng, true)))
	} else if lowKind == 2 {
		g.use("exclusiveMinimum")
		n.sch.Set("exclusiveMinimum", NumLit(dec{lo, den}.lit(g.rng, true)))
	}
	if highKind == 1 {
		g.use("maximum")
		n.sch.Set("maximum", NumLit(dec{hi, den}.lit(g.rng, true)))
	} else if highKind == 2 {
		g.use("exclusiveMaximum")
		n.sch.Set("exclusiveMaximum", NumLit(dec{hi, den}.lit(g.rng, true)))
	}
	okVal := func(k int64) bool {
		if lowKind == 1 && k < lo || lowKind == 2 && k <= lo {
			return false
		}
		if highKind == 1 && k > hi || highKind == 2 && k >= hi {
			return false
		}
		if step != 0 && k%step != 0 {
			return false
		}
		if integer && k%den != 0 {
			return false
		}
		return true
	}
	var goods []int64
	for k := lo - 2*den; k <= hi+2*den; k++ {
		if okVal(k) {
			goods = append(goods, k)
		}
	}
	if len(goods) == 0 { // cannot happen with span >= 6 and step <= 10, but stay safe
		n.sch.Del("multipleOf")
		step = 0
		for k := lo + 1; k < hi; k++ {
			goods = append(goods, k)
		}
	}
	n.valid = func() *Val {
		var k int64
		switch g.pick(4) {
		case 0:
			k = goods[0]
		case 1:
			k = goods[len(goods)-1]
		default:
			k = goods[g.pick(len(goods))]
		}
		return NumLit(dec{k, den}.lit(g.rng, true))
	}
	if lowKind != 0 {
		n.bad = append(n.bad, badgen{"below-" + []string{"", "minimum", "exclusiveMinimum"}[lowKind], func() *Val {
			k := lo - int64(g.pick(3))*maxi(step, 1)
			if lowKind == 1 {
				k = lo - int64(1+g.pick(3))*maxi(step, 1)
			}
			if step != 0 {
				k -= mod(k, step) // keep it a multiple so that only the bound is violated when possible
				if lowKind == 1 && k >= lo || lowKind == 2 && k > lo {
					k -= step
				}
			}
			if integer {
				k -= mod(k, den)
			}
			return NumLit(dec{k, den}.lit(g.rng, false))
		}})
	}
	if highKind != 0 {
		n.bad = append(n.bad, badgen{"above-" + []string{"", "maximum", "exclusiveMaximum"}[highKind], func() *Val {
			k := hi + int64(g.pick(3))*maxi(step, 1)
			if highKind == 1 {
				k = hi + int64(1+g.pick(3))*maxi(step, 1)
			}
			if step != 0 {
				k += mod(-k, step)
				if highKind == 1 && k <= hi || highKind == 2 && k < hi {
					k += step
				}
			}
			return NumLit(dec{k, den}.lit(g.rng, false))
		}})
	}
	if step > 1 {
		n.bad = append(n.bad, badgen{"multipleOf", func() *Val {
			k := goods[g.pick(len(goods))] + 1 + int64(g.pick(int(step-1)))
			if integer {
				k = goods[g.pick(len(goods))] + 1
			}
			return NumLit(dec{k, den}.lit(g.rng, false))
		}})
	}
	if integer {
		n.bad = append(n.bad, badgen{"not-integer", func() *Val {
			k := goods[g.pick(len(goods))]
			return NumLit(strconv.FormatInt(k, 10) + []string{".5", ".25", ".125"}[g.pick(3)])
		}})
	}
	g.addWrongType(n)
	return n
}

func maxi(a, b int64) int64 {
	if a > b {
		return a
	}
	return b
}

func mod(a, m int64) int64 {
	if m == 0 {
		return 0
	}
	r := a % m
	if r < 0 {
		r += m
	}
	return r
}

// ---------------------------------------------------------------- enum / const

func (g *sgen) someValue(depth int) *Val {
	switch g.pick(8) {
	case 0:
		return Null()
	case 1:
		return Bool(g.coin(50))
	case 2:
		return Int(int64(g.pick(20) - 5))
	case 3:
		return NumLit(dec{int64(g.pick(40) - 10), 4}.lit(g.rng, false))
	case 4:
		return Str(rep(g.rng, mixed, 0, 4))
	case 5:
		if depth > 0 {
			return Arr(g.someValue(depth-1), g.someValue(depth-1))
		}
		return Arr()
	case 6:
		if depth > 0 {
			return Obj(M("p", g.someValue(depth-1)), M("q", g.someValue(depth-1)))
		}
		return Obj()
	}
	return Str("v" + strconv.Itoa(g.pick(50)))
}

// an equal value written differently: number spelling, member order
func (g *sgen) respell(v *Val) *Val {
	c := v.Clone()
	switch c.K {
	case kNum:
		if r := litRat(c.Lit); r != nil && r.IsInt() && g.coin(50) {
			c.Lit = r.Num().String() + []string{".0", "e0", ".000"}[g.pick(3)]
		}
	case kArr:
		for i := range c.A {
			c.A[i] = g.respell(c.A[i])
		}
	case kObj:
		for i := range c.O {
			c.O[i].V = g.respell(c.O[i].V)
		}
		g.rng.Shuffle(len(c.O), func(i, j int) { c.O[i], c.O[j] = c.O[j], c.O[i] })
	}
	return c
}

// a value close to v but not JSON-equal to it
func (g *sgen) perturb(v *Val) *Val {
	c := v.Clone()
	switch c.K {
	case kNull:
		return Bool(false)
	case kBool:
		if g.coin(50) {
			return Bool(!c.B)
		}
		return Int(0)
	case kNum:
		if g.coin(30) {
			return Str(c.Lit) // "1" is not 1
		}
		r := litRat(c.Lit)
		r.Add(r, big.NewRat(1, 4))
		return NumLit(r.FloatString(2))
	case kStr:
		if g.coin(50) {
			return Str(c.S + "x")
		}
		return Str(strings.ToUpper(c.S) + "_")
	case kArr:
		if len(c.A) == 0 || g.coin(30) {
			c.A = append(c.A, Null())
			return c
		}
		if g.coin(40) && len(c.A) >= 2 && !Equal(c.A[0], c.A[1]) {
			c.A[0], c.A[1] = c.A[1], c.A[0] // arrays are ordered
			return c
		}
		i := g.pick(len(c.A))
		c.A[i] = g.perturb(c.A[i])
		return c
	default:
		if len(c.O) == 0 || g.coin(30) {
			c.O = append(c.O, M("extra", Int(1)))
			return c
		}
		i := g.pick(len(c.O))
		if g.coin(30) {
			c.O = append(c.O[:i:i], c.O[i+1:]...)
			return c
		}
		c.O[i].V = g.perturb(c.O[i].V)
		return c
	}
}

func (g *sgen) enumNode() *node {
	n := &node{typ: "enum", alts: map[string]bool{}}
	if g.coin(40) {
		g.use("const")
		c := g.someValue(2)
		n.sch = Obj(M("const", c))
		n.valid = func() *Val { return g.respell(c) }
		n.bad = append(n.bad, badgen{"const", func() *Val { return g.perturb(c) }})
		return n
	}
	g.use("enum")
	var vals []*Val
	for i, k := 0, 1+g.pick(4); i < k; i++ {
		v := g.someValue(2)
		dup := false
		for _, w := range vals {
			dup = dup || Equal(v, w)
		}
		if dup && g.d == d7 {
			continue // draft-07 requires unique enum members; 2020-12 does not
		}
		vals = append(vals, v)
	}
	n.sch = Obj(M("enum", Arr(vals...)))
	n.valid = func() *Val { return g.respell(vals[g.pick(len(vals))]) }
	n.bad = append(n.bad, badgen{"enum", func() *Val {
		for try := 0; try < 20; try++ {
			c := g.perturb(vals[g.pick(len(vals))])
			hit := false
			for _, v := range vals {
				if Equal(c, v) {
					hit = true
				}
			}
			if !hit {
				return c
			}
		}
		return nil
	}})
	return n
}

func (g *sgen) simpleNode(typ string) *node {
	n := &node{typ: typ, alts: map[string]bool{}}
	n.sch = Obj(M("type", Str(typ)))
	switch typ {
	case "boolean":
		n.valid = func() *Val { return Bool(g.coin(50)) }
	default:
		n.valid = func() *Val { return Null() }
	}
	g.addWrongType(n)
	return n
}

// ---------------------------------------------------------------- arrays

func (g *sgen) arrayNode(depth int) *node {
	n := &node{typ: "array", alts: map[string]bool{}}
	n.sch = Obj(M("type", Str("array")))
	if g.coin(45) {
		// tuple: prefixItems + items (2020-12) / items[] + additionalItems (draft-07)
		var pre []*node
		for i, k := 0, 1+g.pick(3); i < k; i++ {
			pre = append(pre, g.node(depth-1))
		}
		restKind := g.pick(4) // 0 absent 1 false 2 schema 3 true
		var rest *node
		var preS []*Val
		for _, p := range pre {
			preS = append(preS, p.sch)
		}
		restKey := "items"
		if g.d == d7 {
			g.use("items[]")
			n.sch.Set("items", Arr(preS...))
			restKey = "additionalItems"
		} else {
			g.use("prefixItems")
			n.sch.Set("prefixItems", Arr(preS...))
		}
		switch restKind {
		case 1:
			g.use(restKey + ":false")
			n.sch.Set(restKey, Bool(false))
		case 2:
			g.use(restKey + ":schema")
			rest = g.node(depth - 1)
			n.sch.Set(restKey, rest.sch)
		case 3:
			n.sch.Set(restKey, Bool(true))
		}
		build := func(k int) []*Val { // k elements, all conforming
			var a []*Val
			for i := 0; i < k; i++ {
				if i < len(pre) {
					a = append(a, pre[i].valid())
				} else if rest != nil {
					a = append(a, rest.valid())
				} else {
					a = append(a, g.someValue(1))
				}
			}
			return a
		}
		n.valid = func() *Val {
			k := g.pick(len(pre) + 1) // shorter tuples are fine
			if restKind != 1 && g.coin(50) {
				k = len(pre) + g.pick(3)
			} else if g.coin(50) {
				k = len(pre)
			}
			return Arr(build(k)...)
		}
		for i := range pre {
			i := i
			if len(pre[i].bad) > 0 {
				n.bad = append(n.bad, badgen{"tuple-item", func() *Val {
					a := build(len(pre))
					b := pre[i].bad[g.pick(len(pre[i].bad))].gen()
					if b == nil {
						return nil
					}
					a[i] = b
					return Arr(a...)
				}})
			}
		}
		if restKind == 1 {
			n.bad = append(n.bad, badgen{"tuple-extra", func() *Val { return Arr(append(build(len(pre)), g.someValue(1))...) }})
		}
		if rest != nil && len(rest.bad) > 0 {
			n.bad = append(n.bad, badgen{"tuple-rest", func() *Val {
				a := build(len(pre) + 1 + g.pick(2))
				b := rest.bad[g.pick(len(rest.bad))].gen()
				if b == nil {
					return nil
				}
				a[len(pre)+g.pick(len(a)-len(pre))] = b
				return Arr(a...)
			}})
		}
	} else {
		item := g.node(depth - 1)
		g.use("items")
		n.sch.Set("items", item.sch)
		lo := g.pick(3)
		hi := lo + 1 + g.pick(3)
		hasMin, hasMax := g.coin(60), g.coin(60)
		if hasMin {
			g.use("minItems")
			n.sch.Set("minItems", g.countLit(lo))
		}
		if hasMax {
			g.use("maxItems")
			n.sch.Set("maxItems", g.countLit(hi))
		}
		if g.d == d7 && g.coin(20) {
			n.sch.Set("additionalItems", Bool(false)) // ignored beside a schema-valued items
		}
		build := func(k int) []*Val {
			var a []*Val
			for i := 0; i < k; i++ {
				a = append(a, item.valid())
			}
			return a
		}
		n.valid = func() *Val { return Arr(build(lo + g.pick(hi-lo+1))...) }
		if hasMin && lo > 0 {
			n.bad = append(n.bad, badgen{"minItems", func() *Val { return Arr(build(lo - 1)...) }})
		}
		if hasMax {
			n.bad = append(n.bad, badgen{"maxItems", func() *Val { return Arr(build(hi + 1)...) }})
		}
		if len(item.bad) > 0 {
			n.bad = append(n.bad, badgen{"item", func() *Val {
				a := build(hi)
				b := item.bad[g.pick(len(item.bad))].gen()
				if b == nil {
					return nil
				}
				a[g.pick(len(a))] = b
				return Arr(a...)
			}})
		}
	}
	g.addWrongType(n)
	return n
}

// ---------------------------------------------------------------- objects

type prop struct {
	name string
	n    *node
	req  bool
}

var propNames = []string{"id", "name", "age", "tags", "birthday", "documentType", "email", "score", "ok", "meta", "addr", "count", "é", "a/b", "x~y", "$id2", "type"}

func (g *sgen) objectNode(depth int, isRoot bool) *node {
	n := &node{typ: "object", alts: map[string]bool{}}
	n.sch = Obj(M("type", Str("object")))
	names := append([]string{}, propNames...)
	g.rng.Shuffle(len(names), func(i, j int) { names[i], names[j] = names[j], names[i] })
	var props []prop
	k := 1 + g.pick(4)
	if isRoot {
		k = 2 + g.pick(4)
	}
	for i := 0; i < k; i++ {
		props = append(props, prop{names[i], g.node(depth - 1), g.coin(50)})
	}
	if g.coin(90) {
		g.use("properties")
		var ms []Member
		for _, p := range props {
			ms = append(ms, M(p.name, p.n.sch))
		}
		n.sch.Set("properties", Obj(ms...))
	} else {
		// no "properties": the values are unconstrained
		for i := range props {
			props[i].n = &node{typ: "enum", valid: func() *Val { return g.someValue(1) }}
		}
	}
	var req []*Val
	for _, p := range props {
		if p.req {
			req = append(req, Str(p.name))
		}
	}
	if len(req) > 0 || g.coin(20) {
		g.use("required")
		if req == nil {
			req = []*Val{}
		}
		n.sch.Set("required", Arr(req...))
	}
	addKind := g.pick(4) // 0 absent 1 false 2 schema 3 true
	if n.sch.Get("properties") == nil && (addKind == 1 || addKind == 2) {
		addKind = 0 // every member would be an additional one
	}
	var addl *node
	switch addKind {
	case 1:
		g.use("additionalProperties:false")
		n.sch.Set("additionalProperties", Bool(false))
	case 2:
		g.use("additionalProperties:schema")
		addl = g.node(depth - 1)
		n.sch.Set("additionalProperties", addl.sch)
	case 3:
		n.sch.Set("additionalProperties", Bool(true))
	}
	extraNames := []string{"x1", "x2", "zz", "Name", "ids"}
	build := func(force string, drop string, extras int) *Val {
		var ms []Member
		for _, p := range props {
			if p.name == drop {
				continue
			}
			if p.req || p.name == force || g.coin(60) {
				ms = append(ms, M(p.name, p.n.valid()))
			}
		}
		if addKind != 1 {
			for i := 0; i < extras; i++ {
				if addl != nil {
					ms = append(ms, M(extraNames[i], addl.valid()))
				} else {
					ms = append(ms, M(extraNames[i], g.someValue(1)))
				}
			}
		}
		g.rng.Shuffle(len(ms), func(i, j int) { ms[i], ms[j] = ms[j], ms[i] })
		return Obj(ms...)
	}
	n.valid = func() *Val { return build("", "", g.pick(3)) }
	for _, p := range props {
		p := p
		if p.req {
			n.bad = append(n.bad, badgen{"required", func() *Val { return build("", p.name, g.pick(2)) }})
		}
		if len(p.n.bad) > 0 {
			n.bad = append(n.bad, badgen{"property", func() *Val {
				o := build(p.name, "", g.pick(2))
				b := p.n.bad[g.pick(len(p.n.bad))].gen()
				if b == nil {
					return nil
				}
				o.Set(p.name, b)
				return o
			}})
		}
	}
	if addKind == 1 {
		n.bad = append(n.bad, badgen{"additionalProperties:false", func() *Val {
			o := build("", "", 0)
			o.O = append(o.O, M(extraNames[g.pick(len(extraNames))], g.someValue(1)))
			return o
		}})
	}
	if addl != nil && len(addl.bad) > 0 {
		n.bad = append(n.bad, badgen{"additionalProperties:schema", func() *Val {
			o := build("", "", 1)
			b := addl.bad[g.pick(len(addl.bad))].gen()
			if b == nil {
				return nil
			}
			o.O = append(o.O, M("x2", b))
			return o
		}})
	}
	if !isRoot {
		g.addWrongType(n)
	}
	return n
}

// recursive list through a $ref cycle that descends into the instance
func (g *sgen) recListNode(depth int) *node {
	g.use("$ref-recursive")
	n := &node{typ: "object", alts: map[string]bool{}}
	leaf := g.leafNode()
	g.nref++
	name := fmt.Sprintf("list%d", g.nref)
	ref := "#/" + g.defsK + "/" + name
	def := Obj(M("type", Str("object")),
		M("properties", Obj(M("v", leaf.sch), M("next", Obj(M("$ref", Str(ref)))))),
		M("required", Arr(Str("v"))), M("additionalProperties", Bool(false)))
	g.defs = append(g.defs, M(name, def))
	n.sch = Obj(M("$ref", Str(ref)))
	var build func(k int, badAt int) *Val
	build = func(k int, badAt int) *Val {
		var v *Val
		if badAt == 0 {
			v = leaf.bad[g.pick(len(leaf.bad))].gen()
			if v == nil {
				return nil
			}
		} else {
			v = leaf.valid()
		}
		o := Obj(M("v", v))
		if k > 1 {
			nx := build(k-1, badAt-1)
			if nx == nil {
				return nil
			}
			o.O = append(o.O, M("next", nx))
		}
		return o
	}
	n.valid = func() *Val { return build(1+g.pick(4), -1) }
	if len(leaf.bad) > 0 {
		n.bad = append(n.bad, badgen{"rec-deep-value", func() *Val { k := 1 + g.pick(4); return build(k, g.pick(k)) }})
	}
	n.bad = append(n.bad, badgen{"rec-missing", func() *Val {
		o := build(2+g.pick(2), -1)
		o.Get("next").Del("v")
		return o
	}})
	g.addWrongType(n)
	return n
}

// ---------------------------------------------------------------- combinators

func (g *sgen) leafNode() *node {
	switch g.pick(10) {
	case 0, 1, 2:
		return g.stringNode()
	case 3, 4:
		return g.numberNode(true)
	case 5, 6:
		return g.numberNode(false)
	case 7:
		return g.simpleNode([]string{"boolean", "null"}[g.pick(2)])
	default:
		return g.enumNode()
	}
}

func (g *sgen) baseNode(depth int) *node {
	if depth <= 0 {
		return g.leafNode()
	}
	switch g.pick(10) {
	case 0, 1:
		return g.arrayNode(depth)
	case 2, 3:
		return g.objectNode(depth, false)
	case 4:
		return g.recListNode(depth)
	default:
		return g.leafNode()
	}
}

// a schema every conforming instance of n also satisfies
func (g *sgen) weaker(n *node) *Val {
	switch g.pick(5) {
	case 0:
		return Bool(true)
	case 1:
		return Obj()
	case 2:
		if n.typ != "enum" {
			ts := []*Val{Str(family(n.typ))}
			for f := range n.alts {
				ts = append(ts, Str(f))
			}
			if len(ts) == 1 {
				return Obj(M("type", ts[0]))
			}
			return Obj(M("type", Arr(ts...)))
		}
		return Obj()
	case 3:
		return Obj(M("not", Bool(false)))
	}
	return Obj(M("anyOf", Arr(Bool(false), Bool(true))))
}

func (g *sgen) node(depth int) *node {
	n := g.baseNode(depth)
	for rounds := 0; rounds < 2; rounds++ {
		g.wrap(n, true)
	}
	return n
}

func (g *sgen) wrap(n *node, allowDisj bool) {
	disj := allowDisj && n.typ != "enum" && len(n.alts) == 0
	r := g.pick(100)
	if r >= 45 {
		defer func() { n.wrapped++ }()
	}
	switch {
	case r < 45:
		return
	case r < 53: // allOf beside / around
		g.use("allOf")
		if g.coin(50) && n.sch.K == kObj && n.sch.Get("allOf") == nil {
			n.sch.Set("allOf", Arr(g.weaker(n), g.weaker(n)))
		} else {
			n.sch = Obj(M("allOf", Arr(n.sch, g.weaker(n))))
		}
	case r < 61 && disj: // anyOf with an alternative of another type
		g.use("anyOf")
		u, _ := g.otherFamily(n)
		n.alts[u] = true
		alt := Obj(M("type", Str(u)))
		if g.coin(50) {
			n.sch = Obj(M("anyOf", Arr(alt, n.sch)))
		} else {
			n.sch = Obj(M("anyOf", Arr(n.sch, Bool(false), alt)))
		}
		g.orCanon(n, u)
	case r < 69 && disj: // oneOf
		g.use("oneOf")
		u, _ := g.otherFamily(n)
		n.alts[u] = true
		if g.coin(50) {
			n.sch = Obj(M("oneOf", Arr(n.sch, Obj(M("type", Str(u))))))
			g.orCanon(n, u)
		} else {
			// a u-typed instance matches two branches
			v, _ := g.otherFamily(n)
			n.alts[v] = true
			n.sch = Obj(M("oneOf", Arr(Obj(M("type", Str(u))), n.sch, Obj(M("type", Arr(Str(u), Str(v)))))))
			g.orCanon(n, v)
			n.bad = append(n.bad, badgen{"oneOf-two", func() *Val { return canon(u) }})
		}
	case r < 75: // not
		g.use("not")
		if n.typ != "enum" && g.coin(50) {
			u, ok := g.otherFamily(n)
			if ok && n.sch.K == kObj && n.sch.Get("not") == nil {
				n.sch.Set("not", Obj(M("type", Str(u))))
				return
			}
		}
		g.forbidOne(n, func(c *Val) {
			if n.sch.K == kObj && n.sch.Get("not") == nil && n.sch.Get("$ref") == nil {
				n.sch.Set("not", Obj(M("const", c)))
			} else {
				n.sch = Obj(M("allOf", Arr(n.sch, Obj(M("not", Obj(M("enum", Arr(c))))))))
			}
		})
	case r < 79: // not not
		g.use("not-not")
		n.sch = Obj(M("not", Obj(M("not", n.sch))))
	case r < 90: // $ref to a definition
		g.use("$ref")
		g.nref++
		name := fmt.Sprintf("d%d", g.nref)
		g.defs = append(g.defs, M(name, n.sch))
		n.sch = Obj(M("$ref", Str("#/"+g.defsK+"/"+name)))
		if g.d == d7 {
			if g.coin(60) {
				// siblings of $ref are ignored in draft-07: a contradiction beside it changes nothing
				g.use("$ref-sibling-ignored")
				switch g.pick(3) {
				case 0:
					n.sch.Set("not", Obj())
				case 1:
					n.sch.Set("enum", Arr(Str("never-this-value")))
				default:
					n.sch.Set("maxItems", Int(0)).Set("maxLength", Int(0)).Set("maximum", Int(-99999)).Set("type", Str("number"))
				}
			}
		} else if g.coin(60) {
			// 2020-12: siblings of $ref apply
			g.use("$ref-sibling-applies")
			g.forbidOne(n, func(c *Val) { n.sch.Set("not", Obj(M("const", c))) })
		}
	case r < 95 && disj && n.wrapped == 0 && !n.vac && n.sch.K == kObj && n.sch.Get("type") != nil && n.sch.Get("type").K == kStr: // type list
		g.use("type-list")
		u, _ := g.otherFamily(n)
		n.alts[u] = true
		n.sch.Set("type", Arr(n.sch.Get("type"), Str(u)))
		g.orCanon(n, u)
	default: // keywords that do not apply to this node's type
		if n.typ == "enum" || n.sch.K != kObj || n.sch.Get("$ref") != nil || len(n.alts) > 0 || n.wrapped > 0 {
			return
		}
		n.vac = true
		g.use("vacuous-keyword")
		switch family(n.typ) {
		case "string":
			n.sch.Set("minimum", Int(1000)).Set("minItems", Int(7))
		case "number":
			n.sch.Set("minLength", Int(50)).Set("required", Arr(Str("zz")))
		case "array":
			n.sch.Set("maxLength", Int(0)).Set("multipleOf", Int(7))
		case "object":
			n.sch.Set("maxItems", Int(0)).Set("pattern", Str("^never$"))
		default:
			n.sch.Set("minLength", Int(5)).Set("maximum", Int(-1)).Set("maxItems", Int(0))
		}
	}
}

// conforming instances may now also be the canonical value of family u
func (g *sgen) orCanon(n *node, u string) {
	old := n.valid
	n.valid = func() *Val {
		if g.coin(25) {
			return canon(u)
		}
		return old()
	}
}

// forbid one specific conforming instance c (apply adds the constraint);
// c becomes a violating instance and is avoided by valid()
func (g *sgen) forbidOne(n *node, apply func(c *Val)) {
	old := n.valid
	c := old()
	// the node must still have a conforming instance different from c
	var other *Val
	for try := 0; try < 30; try++ {
		if x := old(); !Equal(x, c) {
			other = x
			break
		}
	}
	if other == nil {
		return
	}
	apply(c)
	n.valid = func() *Val {
		for try := 0; try < 50; try++ {
			if x := old(); !Equal(x, c) {
				return x
			}
		}
		return other
	}
	n.bad = append(n.bad, badgen{"not-const", func() *Val { return g.respell(c) }})
}

// ---------------------------------------------------------------- root

type scenario struct {
	d      draft
	schema *Val
	root   *node
	feat   map[string]int
}

func newScenario(rng *rand.Rand, d draft) *scenario {
	g := &sgen{rng: rng, d: d, feat: map[string]int{}}
	g.defsK = "definitions"
	if d == d2020 && g.coin(70) {
		g.defsK = "$defs"
	}
	root := g.objectNode(2+g.pick(2), true)
	for g.coin(30) {
		// wrappers on the root; the data is always an object, so no disjunction with another type
		g.wrap(root, false)
	}
	sch := root.sch
	if sch.K != kObj {
		sch = Obj(M("allOf", Arr(sch)))
	}
	var ms []Member
	switch d {
	case d7:
		ms = append(ms, M("$schema", Str(d7URLs[g.pick(len(d7URLs))])))
	default:
		if g.coin(70) {
			ms = append(ms, M("$schema", Str(d2020URLs[g.pick(len(d2020URLs))])))
		} else {
			g.use("no-$schema")
		}
	}
	if g.coin(25) {
		g.use("$id")
		ms = append(ms, M("$id", Str(freshID("scenario"))))
	}
	if g.coin(50) {
		g.use("$metadata")
		ms = append(ms, M("$metadata", Obj(M("uris", Obj(M("jsonLdContext", Str("https://example.org/ctx.jsonld")))),
			M("type", Int(5)), M("required", Str("not-an-array")), M("version", Str("1.0")))))
	}
	if g.coin(30) {
		ms = append(ms, M("title", Str("generated")), M("description", Str("schema for C18")))
	}
	if g.coin(25) {
		g.use("unknown-member")
		ms = append(ms, M("x-internal", Arr(Int(1), Obj(M("minLength", Int(-1))))), M("foo", Null()))
	}
	ms = append(ms, sch.O...)
	if len(g.defs) > 0 {
		ms = append(ms, M(g.defsK, Obj(g.defs...)))
	}
	rng.Shuffle(len(ms), func(i, j int) { ms[i], ms[j] = ms[j], ms[i] })
	return &scenario{d: d, schema: Obj(ms...), root: root, feat: g.feat}
}
