package c18

// History independence: several validations in ONE process with schema texts that
// share one "$id" (revisions of a schema), the same text twice, a valid revision
// followed by an invalid one and vice versa, in both orders.  Every verdict is
// compared with the verdict expected for THAT schema text (and, in the shard,
// with the model's fresh verdict): the i-th result must not depend on earlier calls.

import (
	"fmt"
)

var idCounter int

func freshID(tag string) string {
	idCounter++
	return fmt.Sprintf("https://example.com/schemas/c18/%s-%d.json", tag, idCounter)
}

func (g *gen) historyStream(scs []*scenario, pairs int) {
	hdr := map[string]string{
		"draft-07": `"$schema":"http://json-schema.org/draft-07/schema#",`,
		"2020-12":  `"$schema":"https://json-schema.org/draft/2020-12/schema",`,
		"default":  ``,
	}
	mk := func(h, id string, maximum int) string {
		idm := ""
		if id != "" {
			idm = fmt.Sprintf(`"$id":%q,`, id)
		}
		return fmt.Sprintf(`{"$metadata":{"uris":{"jsonLdContext":"https://example.com/ctx.jsonld"}},%s%s"type":"object","properties":{"age":{"type":"integer","minimum":0,"maximum":%d}},"required":["age"]}`, h, idm, maximum)
	}
	var prefix []Call
	call := func(mode int, schema, data string, expect int, kind string) {
		g.add(&Input{Mode: mode, Schema: schema, Data: data, Expect: expect, Kind: "history:" + kind, Prefix: append([]Call{}, prefix...)})
		prefix = append(prefix, Call{mode, schema, data})
	}
	for name, h := range hdr {
		for mode := 0; mode <= 1; mode++ {
			prefix = nil
			// strict revision first, relaxed second, strict again
			id := freshID("strict-first-" + name)
			strict, relaxed := mk(h, id, 100), mk(h, id, 200)
			call(mode, strict, `{"age":150}`, cInvalid, "strict-first")
			call(mode, relaxed, `{"age":150}`, cValid, "strict-first")
			call(mode, strict, `{"age":150}`, cInvalid, "strict-first")
			call(mode, relaxed, `{"age":250}`, cInvalid, "strict-first")
			// relaxed first
			id = freshID("relaxed-first-" + name)
			strict, relaxed = mk(h, id, 100), mk(h, id, 200)
			call(mode, relaxed, `{"age":150}`, cValid, "relaxed-first")
			call(mode, strict, `{"age":150}`, cInvalid, "relaxed-first")
			call(mode, relaxed, `{"age":150}`, cValid, "relaxed-first")
			// valid revision, then an invalid schema under the same $id, then the valid one again
			id = freshID("then-invalid-" + name)
			valid := mk(h, id, 200)
			invalid := fmt.Sprintf(`{%s"$id":%q,"type":"objekt"}`, h, id)
			call(mode, valid, `{"age":150}`, cValid, "valid-then-invalid-schema")
			call(mode, invalid, `{"age":150}`, cSchemaErr, "valid-then-invalid-schema")
			call(mode, valid, `{"age":350}`, cInvalid, "valid-then-invalid-schema")
			// invalid schema first
			id = freshID("invalid-first-" + name)
			valid = mk(h, id, 200)
			invalid = fmt.Sprintf(`{%s"$id":%q,"required":"age"}`, h, id)
			call(mode, invalid, `{"age":150}`, cSchemaErr, "invalid-schema-then-valid")
			call(mode, valid, `{"age":150}`, cValid, "invalid-schema-then-valid")
			call(mode, valid, `{}`, cInvalid, "invalid-schema-then-valid")
			// the same text twice (with and without $id), different data
			for _, id := range []string{freshID("same-text-" + name), ""} {
				s := mk(h, id, 100)
				call(mode, s, `{"age":50}`, cValid, "same-text-twice")
				call(mode, s, `{"age":150}`, cInvalid, "same-text-twice")
				call(mode, s, `{"age":50}`, cValid, "same-text-twice")
				call(mode, s, `[50]`, cDataType, "same-text-twice")
				call(mode, s, `null`, cOtherErr, "same-text-twice")
			}
			// no $id: two different texts
			call(mode, mk(h, "", 100), `{"age":150}`, cInvalid, "no-id-two-texts")
			call(mode, mk(h, "", 200), `{"age":150}`, cValid, "no-id-two-texts")
			// same $id, different draft of the same revision (draft-sensitive sibling of $ref)
			id = freshID("draft-switch-" + name)
			body := fmt.Sprintf(`"$id":%q,"definitions":{"n":{"type":"integer"}},"properties":{"age":{"$ref":"#/definitions/n","maximum":100}}}`, id)
			call(mode, `{"$schema":"http://json-schema.org/draft-07/schema#",`+body, `{"age":150}`, cValid, "same-id-other-draft")
			call(mode, `{"$schema":"https://json-schema.org/draft/2020-12/schema",`+body, `{"age":150}`, cInvalid, "same-id-other-draft")
			call(mode, `{"$schema":"http://json-schema.org/draft-07/schema#",`+body, `{"age":150}`, cValid, "same-id-other-draft")
		}
	}
	// generated schemas: two different scenarios of one draft declare one $id; their instances alternate
	rng := g.cfg.Rng
	for i := 0; i < pairs && len(scs) >= 2; i++ {
		a := scs[rng.Intn(len(scs))]
		b := scs[rng.Intn(len(scs))]
		if a == b || a.d != b.d {
			continue
		}
		prefix = nil
		id := freshID("generated")
		sa, sb := a.schema.Clone().Set("$id", Str(id)).Text(), b.schema.Clone().Set("$id", Str(id)).Text()
		g.rep.Count("history:generated-pair")
		for round := 0; round < 2; round++ {
			for _, x := range []struct {
				sc *scenario
				st string
			}{{a, sa}, {b, sb}} {
				call(0, x.st, x.sc.root.valid().Text(), cValid, "generated-shared-id:conforming")
				if len(x.sc.root.bad) > 0 {
					if v := x.sc.root.bad[rng.Intn(len(x.sc.root.bad))].gen(); v != nil && v.K == kObj {
						call(0, x.st, v.Text(), cInvalid, "generated-shared-id:violation")
					}
				}
			}
		}
	}
}
