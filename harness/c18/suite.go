package c18

// Hand-transcribed conformance cases in the style of the official
// JSON-Schema-Test-Suite (which is not available offline): each schema S is
// applied to the member "x" of the data object, expectations come from the
// specification text, not from either implementation.

type suiteCase struct {
	name   string
	drafts string // "7", "2020" or "both"
	schema string // schema for member x
	root   string // extra root members (definitions), without braces, may be ""
	tests  []suiteTest
}

type suiteTest struct {
	inst  string
	valid bool
}

func t(inst string, valid bool) suiteTest { return suiteTest{inst, valid} }

var suite = []suiteCase{
	{"type-integer", "both", `{"type":"integer"}`, "", []suiteTest{t(`1`, true), t(`1.0`, true), t(`1.1`, false), t(`"1"`, false), t(`{}`, false), t(`[]`, false), t(`true`, false), t(`null`, false)}},
	{"type-number", "both", `{"type":"number"}`, "", []suiteTest{t(`1`, true), t(`1.0`, true), t(`1.1`, true), t(`"1"`, false), t(`null`, false)}},
	{"type-string", "both", `{"type":"string"}`, "", []suiteTest{t(`""`, true), t(`"1"`, true), t(`1`, false), t(`{}`, false)}},
	{"type-list", "both", `{"type":["integer","string"]}`, "", []suiteTest{t(`1`, true), t(`"foo"`, true), t(`1.1`, false), t(`{}`, false), t(`null`, false)}},
	{"type-null", "both", `{"type":"null"}`, "", []suiteTest{t(`null`, true), t(`0`, false), t(`""`, false), t(`false`, false), t(`[]`, false)}},
	{"type-boolean", "both", `{"type":"boolean"}`, "", []suiteTest{t(`true`, true), t(`false`, true), t(`0`, false), t(`"true"`, false), t(`null`, false)}},
	{"type-array-object", "both", `{"type":["array","object"]}`, "", []suiteTest{t(`[1]`, true), t(`{"a":1}`, true), t(`1`, false), t(`"a"`, false)}},
	{"properties", "both", `{"properties":{"foo":{"type":"integer"},"bar":{"type":"string"}}}`, "", []suiteTest{
		t(`{"foo":1,"bar":"baz"}`, true), t(`{"foo":1,"bar":{}}`, false), t(`{"foo":[],"bar":{}}`, false), t(`{"quux":[]}`, true), t(`[]`, true), t(`12`, true)}},
	{"properties-boolean", "both", `{"properties":{"foo":true,"bar":false}}`, "", []suiteTest{t(`{}`, true), t(`{"foo":1}`, true), t(`{"bar":2}`, false), t(`{"foo":1,"bar":2}`, false)}},
	{"additionalProperties-false", "both", `{"properties":{"foo":{},"bar":{}},"additionalProperties":false}`, "", []suiteTest{
		t(`{"foo":1}`, true), t(`{"foo":1,"bar":2,"quux":"boom"}`, false), t(`[1,2,3]`, true), t(`"foobarbaz"`, true), t(`12`, true)}},
	{"additionalProperties-schema", "both", `{"properties":{"foo":{},"bar":{}},"additionalProperties":{"type":"boolean"}}`, "", []suiteTest{
		t(`{"foo":1}`, true), t(`{"foo":1,"bar":2,"quux":true}`, true), t(`{"foo":1,"bar":2,"quux":12}`, false)}},
	{"additionalProperties-alone", "both", `{"additionalProperties":{"type":"boolean"}}`, "", []suiteTest{t(`{"foo":true}`, true), t(`{"foo":1}`, false), t(`{}`, true)}},
	{"required", "both", `{"properties":{"foo":{},"bar":{}},"required":["foo"]}`, "", []suiteTest{t(`{"foo":1}`, true), t(`{"bar":1}`, false), t(`[]`, true), t(`""`, true), t(`12`, true)}},
	{"required-empty", "both", `{"properties":{"foo":{}},"required":[]}`, "", []suiteTest{t(`{}`, true)}},
	{"required-escaped", "both", `{"required":["foo\nbar","foo\"bar","foo\\bar"]}`, "", []suiteTest{
		t(`{"foo\nbar":1,"foo\"bar":1,"foo\\bar":1}`, true), t(`{"foo\nbar":"1","foo\"bar":"1"}`, false)}},
	{"items-schema", "both", `{"items":{"type":"integer"}}`, "", []suiteTest{t(`[1,2,3]`, true), t(`[1,"x"]`, false), t(`{"foo":"bar"}`, true), t(`[]`, true)}},
	{"items-boolean", "both", `{"items":false}`, "", []suiteTest{t(`[]`, true), t(`[1]`, false), t(`"x"`, true)}},
	{"items-array-d7", "7", `{"items":[{"type":"integer"},{"type":"string"}]}`, "", []suiteTest{
		t(`[1,"foo"]`, true), t(`["foo",1]`, false), t(`[1]`, true), t(`[1,"foo",true]`, true), t(`[]`, true), t(`{"0":"invalid","1":"valid"}`, true)}},
	{"additionalItems-false-d7", "7", `{"items":[{},{},{}],"additionalItems":false}`, "", []suiteTest{t(`[]`, true), t(`[1,2,3]`, true), t(`[1,2,3,4]`, false)}},
	{"additionalItems-schema-d7", "7", `{"items":[{}],"additionalItems":{"type":"integer"}}`, "", []suiteTest{t(`[null,2,3,4]`, true), t(`[null,2,3,"foo"]`, false)}},
	{"additionalItems-without-items-d7", "7", `{"additionalItems":false}`, "", []suiteTest{t(`[1,2,3,4,5]`, true)}},
	{"additionalItems-with-schema-items-d7", "7", `{"items":{},"additionalItems":false}`, "", []suiteTest{t(`[1,2,3,4,5]`, true)}},
	{"prefixItems", "2020", `{"prefixItems":[{"type":"integer"},{"type":"string"}]}`, "", []suiteTest{
		t(`[1,"foo"]`, true), t(`["foo",1]`, false), t(`[1]`, true), t(`[1,"foo",true]`, true), t(`[]`, true), t(`{"0":"invalid"}`, true)}},
	{"prefixItems-items-false", "2020", `{"prefixItems":[{},{},{}],"items":false}`, "", []suiteTest{t(`[]`, true), t(`[1,2,3]`, true), t(`[1,2,3,4]`, false)}},
	{"prefixItems-items-schema", "2020", `{"prefixItems":[{"type":"string"}],"items":{"type":"integer"}}`, "", []suiteTest{t(`["x",2,3]`, true), t(`["x",2,"y"]`, false), t(`[3]`, false)}},
	{"prefixItems-ignored-d7", "7", `{"prefixItems":[{"type":"integer"}]}`, "", []suiteTest{t(`["not an integer"]`, true)}},
	{"additionalItems-ignored-2020", "2020", `{"prefixItems":[{}],"additionalItems":false}`, "", []suiteTest{t(`[1,2,3]`, true)}},
	{"enum-simple", "both", `{"enum":[1,2,3]}`, "", []suiteTest{t(`1`, true), t(`4`, false), t(`"1"`, false)}},
	{"enum-heterogeneous", "both", `{"enum":[6,"foo",[],true,{"foo":12}]}`, "", []suiteTest{
		t(`[]`, true), t(`null`, false), t(`{"foo":false}`, false), t(`{"foo":12}`, true), t(`{"foo":12,"boo":42}`, false), t(`6.0`, true)}},
	{"enum-false-vs-zero", "both", `{"enum":[false]}`, "", []suiteTest{t(`false`, true), t(`0`, false), t(`0.0`, false)}},
	{"enum-zero-vs-false", "both", `{"enum":[0]}`, "", []suiteTest{t(`false`, false), t(`0`, true), t(`0.0`, true), t(`-0`, true)}},
	{"enum-one-vs-true", "both", `{"enum":[1]}`, "", []suiteTest{t(`true`, false), t(`1`, true), t(`1.0`, true)}},
	{"enum-array-order", "both", `{"enum":[[false]]}`, "", []suiteTest{t(`[false]`, true), t(`[0]`, false), t(`[0.0]`, false)}},
	{"enum-nul", "both", `{"enum":["hello\u0000there"]}`, "", []suiteTest{t(`"hello\u0000there"`, true), t(`"hellothere"`, false)}},
	{"const-number", "both", `{"const":2}`, "", []suiteTest{t(`2`, true), t(`2.0`, true), t(`5`, false), t(`"a"`, false)}},
	{"const-object", "both", `{"const":{"foo":"bar","baz":"bax"}}`, "", []suiteTest{
		t(`{"foo":"bar","baz":"bax"}`, true), t(`{"baz":"bax","foo":"bar"}`, true), t(`{"foo":"bar"}`, false), t(`[1,2]`, false)}},
	{"const-array", "both", `{"const":[{"foo":"bar"}]}`, "", []suiteTest{t(`[{"foo":"bar"}]`, true), t(`[2]`, false), t(`[1,2,3]`, false)}},
	{"const-null", "both", `{"const":null}`, "", []suiteTest{t(`null`, true), t(`0`, false), t(`""`, false)}},
	{"const-false", "both", `{"const":false}`, "", []suiteTest{t(`false`, true), t(`0`, false), t(`0.0`, false)}},
	{"const-one", "both", `{"const":1}`, "", []suiteTest{t(`true`, false), t(`1`, true), t(`1.0`, true)}},
	{"const-minus-two", "both", `{"const":-2.0}`, "", []suiteTest{t(`-2`, true), t(`2`, false), t(`-2.0`, true), t(`2.0`, false), t(`-2.00001`, false)}},
	{"const-2pow53", "both", `{"const":9007199254740992}`, "", []suiteTest{t(`9007199254740992`, true), t(`9007199254740992.0`, true), t(`9007199254740990`, false)}},
	{"const-nested-number-spelling", "both", `{"const":{"a":[1,2.50,{"b":1e2}]}}`, "", []suiteTest{t(`{"a":[1.0,2.5,{"b":100}]}`, true), t(`{"a":[1,2.5,{"b":101}]}`, false), t(`{"a":[2.5,1,{"b":100}]}`, false)}},
	{"minimum", "both", `{"minimum":1.1}`, "", []suiteTest{t(`2.6`, true), t(`1.1`, true), t(`0.6`, false), t(`"x"`, true)}},
	{"minimum-signed", "both", `{"minimum":-2}`, "", []suiteTest{t(`-1`, true), t(`0`, true), t(`-2`, true), t(`-2.0`, true), t(`-2.0001`, false), t(`-3`, false)}},
	{"maximum", "both", `{"maximum":3.0}`, "", []suiteTest{t(`2.6`, true), t(`3.0`, true), t(`3.5`, false), t(`"x"`, true)}},
	{"maximum-300", "both", `{"maximum":300}`, "", []suiteTest{t(`299.97`, true), t(`300`, true), t(`300.00`, true), t(`300.5`, false)}},
	{"exclusiveMinimum", "both", `{"exclusiveMinimum":1.1}`, "", []suiteTest{t(`1.2`, true), t(`1.1`, false), t(`0.6`, false), t(`"x"`, true)}},
	{"exclusiveMaximum", "both", `{"exclusiveMaximum":3.0}`, "", []suiteTest{t(`2.2`, true), t(`3.0`, false), t(`3.5`, false), t(`"x"`, true)}},
	{"multipleOf-int", "both", `{"multipleOf":2}`, "", []suiteTest{t(`10`, true), t(`7`, false), t(`"foo"`, true), t(`0`, true), t(`-4`, true)}},
	{"multipleOf-number", "both", `{"multipleOf":1.5}`, "", []suiteTest{t(`0`, true), t(`4.5`, true), t(`35`, false)}},
	{"multipleOf-small", "both", `{"multipleOf":0.0001}`, "", []suiteTest{t(`0.0075`, true), t(`0.00751`, false)}},
	{"multipleOf-huge", "both", `{"type":"integer","multipleOf":0.123456789}`, "", []suiteTest{t(`1e308`, false)}},
	{"multipleOf-float-int", "both", `{"type":"integer","multipleOf":0.5}`, "", []suiteTest{t(`4`, true), t(`4.5`, false)}},
	{"minLength", "both", `{"minLength":2}`, "", []suiteTest{t(`"foo"`, true), t(`"fo"`, true), t(`"f"`, false), t(`1`, true), t(`"💩"`, false)}},
	{"maxLength", "both", `{"maxLength":2}`, "", []suiteTest{t(`"f"`, true), t(`"fo"`, true), t(`"foo"`, false), t(`100`, true), t(`"💩💩"`, true)}},
	{"minLength-decimal", "both", `{"minLength":2.0}`, "", []suiteTest{t(`"foo"`, true), t(`"f"`, false)}},
	{"minItems", "both", `{"minItems":1}`, "", []suiteTest{t(`[1,2]`, true), t(`[1]`, true), t(`[]`, false), t(`""`, true)}},
	{"maxItems", "both", `{"maxItems":2}`, "", []suiteTest{t(`[1]`, true), t(`[1,2]`, true), t(`[1,2,3]`, false), t(`"foobar"`, true)}},
	{"pattern", "both", `{"pattern":"^a*$"}`, "", []suiteTest{t(`"aaa"`, true), t(`"abc"`, false), t(`true`, true), t(`123`, true), t(`1.0`, true), t(`{}`, true), t(`[]`, true), t(`null`, true), t(`""`, true)}},
	{"pattern-not-anchored", "both", `{"pattern":"a+"}`, "", []suiteTest{t(`"xxaayy"`, true), t(`"xxyy"`, false)}},
	{"allOf", "both", `{"allOf":[{"properties":{"bar":{"type":"integer"}},"required":["bar"]},{"properties":{"foo":{"type":"string"}},"required":["foo"]}]}`, "", []suiteTest{
		t(`{"foo":"baz","bar":2}`, true), t(`{"foo":"baz"}`, false), t(`{"bar":2}`, false), t(`{"foo":"baz","bar":"quux"}`, false)}},
	{"allOf-with-base", "both", `{"properties":{"bar":{"type":"integer"}},"required":["bar"],"allOf":[{"properties":{"foo":{"type":"string"}},"required":["foo"]},{"properties":{"baz":{"type":"null"}},"required":["baz"]}]}`, "", []suiteTest{
		t(`{"foo":"quux","bar":2,"baz":null}`, true), t(`{"foo":"quux","baz":null}`, false), t(`{"bar":2,"baz":null}`, false), t(`{"bar":2}`, false)}},
	{"allOf-booleans", "both", `{"allOf":[true,false]}`, "", []suiteTest{t(`"foo"`, false)}},
	{"allOf-empty-schema", "both", `{"allOf":[{}]}`, "", []suiteTest{t(`1`, true)}},
	{"allOf-anyOf-oneOf", "both", `{"allOf":[{"multipleOf":2}],"anyOf":[{"multipleOf":3}],"oneOf":[{"multipleOf":5}]}`, "", []suiteTest{
		t(`1`, false), t(`5`, false), t(`3`, false), t(`15`, false), t(`2`, false), t(`10`, false), t(`6`, false), t(`30`, true)}},
	{"anyOf", "both", `{"anyOf":[{"type":"integer"},{"minimum":2}]}`, "", []suiteTest{t(`1`, true), t(`2.5`, true), t(`3`, true), t(`1.5`, false)}},
	{"anyOf-booleans", "both", `{"anyOf":[true,false]}`, "", []suiteTest{t(`"foo"`, true)}},
	{"anyOf-all-false", "both", `{"anyOf":[false,false]}`, "", []suiteTest{t(`"foo"`, false)}},
	{"anyOf-with-base", "both", `{"type":"string","anyOf":[{"maxLength":2},{"minLength":4}]}`, "", []suiteTest{t(`3`, false), t(`"foobar"`, true), t(`"foo"`, false)}},
	{"oneOf", "both", `{"oneOf":[{"type":"integer"},{"minimum":2}]}`, "", []suiteTest{t(`1`, true), t(`2.5`, true), t(`3`, false), t(`1.5`, false)}},
	{"oneOf-all-true", "both", `{"oneOf":[true,true,true]}`, "", []suiteTest{t(`"foo"`, false)}},
	{"oneOf-one-true", "both", `{"oneOf":[true,false,false]}`, "", []suiteTest{t(`"foo"`, true)}},
	{"oneOf-all-false", "both", `{"oneOf":[false,false,false]}`, "", []suiteTest{t(`"foo"`, false)}},
	{"oneOf-with-base", "both", `{"type":"string","oneOf":[{"minLength":2},{"maxLength":4}]}`, "", []suiteTest{t(`3`, false), t(`"foobar"`, true), t(`"foo"`, false)}},
	{"oneOf-required", "both", `{"type":"object","oneOf":[{"required":["foo","bar"]},{"required":["foo","baz"]}]}`, "", []suiteTest{
		t(`{"bar":2}`, false), t(`{"foo":1,"bar":2}`, true), t(`{"foo":1,"baz":3}`, true), t(`{"foo":1,"bar":2,"baz":3}`, false)}},
	{"not", "both", `{"not":{"type":"integer"}}`, "", []suiteTest{t(`"foo"`, true), t(`1`, false)}},
	{"not-types", "both", `{"not":{"type":["integer","boolean"]}}`, "", []suiteTest{t(`"foo"`, true), t(`1`, false), t(`true`, false)}},
	{"not-object", "both", `{"not":{"type":"object","properties":{"foo":{"type":"string"}}}}`, "", []suiteTest{t(`1`, true), t(`{"foo":1}`, true), t(`{"foo":"bar"}`, false)}},
	{"not-forbidden-property", "both", `{"properties":{"foo":{"not":{}}}}`, "", []suiteTest{t(`{"foo":1,"bar":2}`, false), t(`{"bar":1,"baz":2}`, true)}},
	{"not-true", "both", `{"not":true}`, "", []suiteTest{t(`"foo"`, false)}},
	{"not-false", "both", `{"not":false}`, "", []suiteTest{t(`"foo"`, true)}},
	{"not-not", "both", `{"not":{"not":{}}}`, "", []suiteTest{t(`"foo"`, true)}},
	{"ref-sibling-d7", "7", `{"$ref":"#/definitions/reffed","maxItems":2}`, `"definitions":{"reffed":{"type":"array"}}`, []suiteTest{t(`[]`, true), t(`[1,2,3]`, true), t(`"string"`, false)}},
	{"ref-sibling-2020", "2020", `{"$ref":"#/$defs/reffed","maxItems":2}`, `"$defs":{"reffed":{"type":"array"}}`, []suiteTest{t(`[]`, true), t(`[1,2,3]`, false), t(`"string"`, false)}},
	{"ref-nested-2020", "2020", `{"$ref":"#/$defs/c"}`, `"$defs":{"a":{"type":"integer"},"b":{"$ref":"#/$defs/a"},"c":{"$ref":"#/$defs/b"}}`, []suiteTest{t(`5`, true), t(`"a"`, false)}},
	{"ref-nested-d7", "7", `{"$ref":"#/definitions/c"}`, `"definitions":{"a":{"type":"integer"},"b":{"$ref":"#/definitions/a"},"c":{"$ref":"#/definitions/b"}}`, []suiteTest{t(`5`, true), t(`"a"`, false)}},
	{"ref-boolean-true", "both", `{"$ref":"#/definitions/bool"}`, `"definitions":{"bool":true}`, []suiteTest{t(`"foo"`, true)}},
	{"ref-boolean-false", "both", `{"$ref":"#/definitions/bool"}`, `"definitions":{"bool":false}`, []suiteTest{t(`"foo"`, false)}},
	{"property-named-ref", "both", `{"properties":{"$ref":{"type":"string"}}}`, "", []suiteTest{t(`{"$ref":"a"}`, true), t(`{"$ref":2}`, false)}},
	{"ref-to-root", "both", `{"$ref":"#"}`, `"additionalProperties":false`, []suiteTest{t(`{"x":{}}`, true), t(`{"x":{"x":{}}}`, true), t(`{"y":1}`, false), t(`{"x":{"y":1}}`, false)}},
	{"unknown-keyword", "both", `{"type":"integer","x-unknown":{"type":"string"},"$metadata":5}`, "", []suiteTest{t(`1`, true), t(`"a"`, false)}},
	{"definitions-in-2020", "2020", `{"$ref":"#/definitions/i"}`, `"definitions":{"i":{"type":"integer"}}`, []suiteTest{t(`1`, true), t(`"a"`, false)}},
}

func (g *gen) suiteStream() {
	for _, sc := range suite {
		var hdrs []string
		if sc.drafts == "7" || sc.drafts == "both" {
			hdrs = append(hdrs, `"$schema":"http://json-schema.org/draft-07/schema#",`)
		}
		if sc.drafts == "2020" || sc.drafts == "both" {
			hdrs = append(hdrs, `"$schema":"https://json-schema.org/draft/2020-12/schema",`, ``)
		}
		for _, h := range hdrs {
			root := ""
			if sc.root != "" {
				root = "," + sc.root
			}
			schema := `{` + h + `"properties":{"x":` + sc.schema + `}` + root + `}`
			for _, tc := range sc.tests {
				exp := cInvalid
				if tc.valid {
					exp = cValid
				}
				g.add(&Input{Schema: schema, Data: `{"x":` + tc.inst + `}`, Expect: exp, Kind: "suite:" + sc.name})
			}
		}
	}
}
