package c18

// Large-integer numeric keywords (beyond 2^53, up to 2^64 and beyond, written as exact
// integers in the schema text) combined with "$metadata" / other unknown top-level
// members.  The instances are exactly preserved by the wrapper's float64 decoding
// (their literal is the shortest decimal of a float64), and sit between the true
// bound M and the value M' that M would have after a float64 round trip.  Each schema
// is validated with and without the annotation blocks: the verdicts must be equal
// (and equal to the model's).

import (
	"fmt"
	"math/big"
	"strconv"
)

// roundTrip: the integer a float64 round trip (parse, print shortest) turns M into
func roundTrip(m *big.Int) *big.Int {
	f, err := strconv.ParseFloat(m.String(), 64)
	if err != nil {
		return nil
	}
	r, ok := new(big.Rat).SetString(fmt.Sprint(f))
	if !ok || !r.IsInt() {
		return nil
	}
	return new(big.Int).Set(r.Num())
}

func pow2(k uint) *big.Int { return new(big.Int).Lsh(big.NewInt(1), k) }

func (g *gen) bigNumberStream() {
	add := func(x *big.Int, d int64) *big.Int { return new(big.Int).Add(x, big.NewInt(d)) }
	ten20, _ := new(big.Int).SetString("100000000000000000001", 10)
	odd, _ := new(big.Int).SetString("12345678901234567891", 10)
	ms := []*big.Int{
		add(pow2(53), 1), add(pow2(53), 3), add(pow2(63), 1), add(pow2(64), -1), add(pow2(64), 1), add(pow2(65), 1),
		ten20, odd, new(big.Int).Neg(add(pow2(53), 1)), new(big.Int).Neg(add(pow2(64), -1)),
	}
	extras := []struct{ name, members string }{
		{"plain", ``},
		{"$metadata", `"$metadata":{"uris":{"jsonLdContext":"https://example.com/ctx.jsonld"},"version":"1.0","type":"Example"},`},
		{"unknown-member", `"x-note":{"maximum":1,"n":[1,2.5]},`},
		{"$metadata+unknown", `"x-note":[1],"$metadata":{"uris":{"jsonLdContext":"https://example.com/ctx.jsonld"}},`},
	}
	hdrs := []string{`"$schema":"http://json-schema.org/draft-07/schema#",`, `"$schema":"https://json-schema.org/draft/2020-12/schema",`}
	type probe struct {
		kw, val, inst string
		expect        int
	}
	for mi, m := range ms {
		mr := roundTrip(m)
		if mr == nil || mr.Cmp(m) == 0 {
			continue
		}
		M, Mr := m.String(), mr.String()
		far := roundTrip(new(big.Int).Mul(m, big.NewInt(4))) // same sign, well beyond M, float64-exact
		var ps []probe
		above := mr.Cmp(m) > 0
		if above { // M < M'
			ps = append(ps, probe{"maximum", M, Mr, cInvalid}, probe{"exclusiveMaximum", M, Mr, cInvalid},
				probe{"minimum", M, Mr, cValid}, probe{"exclusiveMinimum", M, Mr, cValid})
		} else { // M' < M
			ps = append(ps, probe{"minimum", M, Mr, cInvalid}, probe{"exclusiveMinimum", M, Mr, cInvalid},
				probe{"maximum", M, Mr, cValid}, probe{"exclusiveMaximum", M, Mr, cValid})
		}
		ps = append(ps,
			probe{"const", M, Mr, cInvalid},
			probe{"enum", `["a",` + M + `,null]`, Mr, cInvalid},
			probe{"enum", `[` + Mr + `,` + M + `]`, Mr, cValid},
			probe{"const", Mr, Mr, cValid},
			probe{"maximum", M, "1000", map[bool]int{true: cValid, false: cInvalid}[m.Sign() > 0]},
		)
		if m.Sign() > 0 {
			ps = append(ps, probe{"multipleOf", M, Mr, cInvalid}, probe{"multipleOf", M, "0", cValid})
			if far != nil {
				ps = append(ps, probe{"maximum", M, far.String(), cInvalid}, probe{"minimum", M, far.String(), cValid})
			}
		}
		for pi, p := range ps {
			h := hdrs[(mi+pi)%2]
			var first int
			for ei, ex := range extras {
				schema := `{` + h + ex.members + `"type":"object","properties":{"n":{"` + p.kw + `":` + p.val + `}},"required":["n"]}`
				in := &Input{Schema: schema, Data: `{"n":` + p.inst + `}`, Expect: p.expect, Kind: "big-number:" + p.kw + ":" + ex.name}
				cls := g.add(in)
				// the same pair through the Processor facade: identical outcome class required
				fin := *in
				fin.Mode, fin.Kind = 1, "big-number-facade:"+p.kw+":"+ex.name
				if fcls := g.add(&fin); fcls != cls {
					g.rep.Fail("c18-facade-changes-verdict",
						fmt.Sprintf("%s: verdict %s through Processor.ValidateData, %s through json.Validator", ex.name, className[fcls], className[cls]), &fin)
				}
				if ei == 0 {
					first = cls
				} else if cls != first {
					g.rep.Fail("c18-unknown-member-changes-verdict",
						fmt.Sprintf("%s: verdict %s with the block, %s without it", ex.name, className[cls], className[first]), in)
				}
			}
		}
	}
}
