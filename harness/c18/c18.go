// Package c18: data validation agrees with the JSON Schema specification (C18).
// Runs /repo's json.Validator.ValidateData (and the processor facade) on generated
// (schema, data) pairs; evaluates implementation-side oracles (instances that
// conform by construction are accepted, injected violations rejected, invalid
// schemas / non-object data / malformed JSON reported as errors); writes shards on
// which the Coq reference validator (Schema/Model.v) is evaluated and compared.
package c18

import (
	"context"
	ej "encoding/json"
	"errors"
	"fmt"
	"path/filepath"
	"sort"
	"strings"

	core "github.com/iden3/go-iden3-core/v2"
	jsonv "github.com/iden3/go-schema-processor/v2/json"
	"github.com/iden3/go-schema-processor/v2/processor"
	jsonproc "github.com/iden3/go-schema-processor/v2/processor/json"
	"github.com/iden3/go-schema-processor/v2/verifiable"
	"github.com/piprate/json-gold/ld"
	jsonschema "github.com/santhosh-tekuri/jsonschema/v5"

	"vharness/common"
	"vharness/coqgen"
)

func init() { common.Register("C18", Run) }

// outcome classes (Schema/Run.v class_of_res)
const (
	cValid       = 0
	cInvalid     = 1
	cDataSyntax  = 3
	cNoValidator = 4
	cDataType    = 5
	cSchemaErr   = 7
	cOtherErr    = 8
	cPanic       = 10
)

var className = map[int]string{cValid: "valid", cInvalid: "invalid", cDataSyntax: "data-syntax-error", cNoValidator: "no-validator",
	cDataType: "data-not-object-error", cSchemaErr: "schema-error", cOtherErr: "other-error", cPanic: "panic"}

// Input is one call on the implementation (also the replay format).
type Input struct {
	Mode   int    `json:"mode"` // 0 Validator.ValidateData, 1 Processor with validator, 2 Processor without validator
	Schema string `json:"schema"`
	Data   string `json:"data"`
	Expect int    `json:"expect"` // class expected by construction
	Kind   string `json:"kind"`   // what the generator did
	Stream string `json:"stream"` // normal | kf-number-precision | kf-empty-enum
	NoCoq  bool   `json:"no_coq,omitempty"`
	// calls made earlier in the same process that a replay must repeat first (history cases)
	Prefix []Call `json:"prefix,omitempty"`
	// mode 4: schemas loaded (Processor.Load) AFTER the case's schema and BEFORE ValidateData
	LoadAfter []string `json:"load_after,omitempty"`
}

type Call struct {
	Mode   int    `json:"mode"`
	Schema string `json:"schema"`
	Data   string `json:"data"`
}

func classify(err error) int {
	if err == nil {
		return cValid
	}
	var se *jsonschema.SchemaError
	var ve *jsonschema.ValidationError
	var il jsonschema.InfiniteLoopError
	var syn *ej.SyntaxError
	var ute *ej.UnmarshalTypeError
	switch {
	case errors.As(err, &se), errors.As(err, &il):
		return cSchemaErr
	case errors.As(err, &ve):
		return cInvalid
	case errors.As(err, &syn):
		return cDataSyntax
	case errors.As(err, &ute):
		return cDataType
	}
	return cOtherErr
}

// exactClass: the library's verdict when the data is decoded with UseNumber (no float64 rounding)
func exactClass(in *Input) (cls int) {
	defer func() {
		if r := recover(); r != nil {
			cls = cPanic
		}
	}()
	sch, err := jsonschema.CompileString("temp.json", in.Schema)
	if err != nil {
		return cSchemaErr
	}
	dec := ej.NewDecoder(strings.NewReader(in.Data))
	dec.UseNumber()
	var v any
	if err := dec.Decode(&v); err != nil {
		return cDataSyntax
	}
	return classify(sch.Validate(v))
}

// stubLoader serves one schema text the way the real loaders do (decoded JSON document)
type stubLoader struct{ text string }

func (l stubLoader) LoadDocument(u string) (*ld.RemoteDocument, error) {
	var doc interface{}
	if err := ej.Unmarshal([]byte(l.text), &doc); err != nil {
		return nil, err
	}
	return &ld.RemoteDocument{DocumentURL: u, Document: doc}, nil
}

type mapLoader map[string]string

func (l mapLoader) LoadDocument(u string) (*ld.RemoteDocument, error) {
	text, ok := l[u]
	if !ok {
		return nil, errors.New("not served")
	}
	return stubLoader{text}.LoadDocument(u)
}

type noParser struct{}

func (noParser) ParseClaim(ctx context.Context, c verifiable.W3CCredential, o *processor.CoreClaimOptions) (*core.Claim, error) {
	return nil, errors.New("unused")
}
func (noParser) GetFieldSlotIndex(field, typeName string, schema []byte) (int, error) {
	return 0, errors.New("unused")
}

func runImpl(in *Input) (cls int, msg string) {
	defer func() {
		if r := recover(); r != nil {
			cls, msg = cPanic, fmt.Sprint(r)
		}
	}()
	var err error
	switch in.Mode {
	case 0:
		err = jsonv.Validator{}.ValidateData([]byte(in.Data), []byte(in.Schema))
	case 1:
		p := jsonproc.New(processor.WithValidator(jsonv.Validator{}), processor.WithParser(noParser{}))
		err = p.ValidateData([]byte(in.Data), []byte(in.Schema))
	case 3:
		// facade path Load -> ValidateData: the schema is served by a stub document loader
		p := jsonproc.New(processor.WithValidator(jsonv.Validator{}), processor.WithParser(noParser{}),
			processor.WithDocumentLoader(stubLoader{in.Schema}))
		loaded, lerr := p.Load(context.Background(), "https://example.com/schemas/served.json")
		if lerr != nil {
			return cOtherErr, "Load: " + lerr.Error()
		}
		err = p.ValidateData([]byte(in.Data), loaded)
	case 4:
		// Load(A), Load(B), [Load(C)], then ValidateData(data, bytes returned for A)
		served := map[string]string{"https://example.com/schemas/A.json": in.Schema}
		urls := []string{"https://example.com/schemas/A.json"}
		for i, o := range in.LoadAfter {
			u := fmt.Sprintf("https://example.com/schemas/other-%d.json", i)
			served[u] = o
			urls = append(urls, u)
		}
		p := jsonproc.New(processor.WithValidator(jsonv.Validator{}), processor.WithParser(noParser{}),
			processor.WithDocumentLoader(mapLoader(served)))
		loadedA, lerr := p.Load(context.Background(), urls[0])
		if lerr != nil {
			return cOtherErr, "Load: " + lerr.Error()
		}
		snapshot := append([]byte{}, loadedA...)
		for _, u := range urls[1:] {
			if _, lerr := p.Load(context.Background(), u); lerr != nil {
				return cOtherErr, "Load: " + lerr.Error()
			}
		}
		err = p.ValidateData([]byte(in.Data), loadedA)
		if string(snapshot) != string(loadedA) {
			c := classify(err)
			return c, "loaded-schema-overwritten: the bytes returned by Load changed after later Load calls"
		}
	default:
		p := jsonproc.New(processor.WithParser(noParser{}))
		err = p.ValidateData([]byte(in.Data), []byte(in.Schema))
		if err != nil && classify(err) == cOtherErr {
			return cNoValidator, err.Error()
		}
	}
	if err != nil {
		msg = err.Error()
		if len(msg) > 300 {
			msg = msg[:300]
		}
	}
	return classify(err), msg
}

type gen struct {
	cfg   *common.Config
	rep   *common.Report
	cases []*Input
	obs   []int
}

func (g *gen) add(in *Input) int {
	if in.Stream == "" {
		in.Stream = "normal"
	}
	if in.Stream == "normal" {
		if d, ok := Parse(in.Data); ok && !d.AllFloatExact() {
			// a number in the data does not survive the float64 decoding of the wrapper (D16)
			in.Stream = "kf-number-precision"
		}
	}
	cls, msg := runImpl(in)
	g.cases = append(g.cases, in)
	g.obs = append(g.obs, cls)
	g.rep.Evaluations++
	g.rep.Distinct(fmt.Sprintf("%d|%s|%s", in.Mode, in.Schema, in.Data))
	g.rep.Count(fmt.Sprintf("%s:%s:expect-%s", in.Stream, in.Kind, className[in.Expect]))
	g.oracle(in, cls, msg)
	return cls
}

// implementation-side oracle: the verdict expected by construction
func (g *gen) oracle(in *Input, cls int, msg string) {
	if strings.HasPrefix(msg, "loaded-schema-overwritten") {
		g.rep.Fail("c18-loaded-schema-overwritten", in.Kind+": "+msg+"; verdict "+className[cls]+", expected "+className[in.Expect], in)
		return
	}
	if cls == in.Expect {
		return
	}
	what := fmt.Sprintf("%s: expected %s by construction, ValidateData gave %s (%s)", in.Kind, className[in.Expect], className[cls], msg)
	switch {
	case cls == cPanic:
		g.rep.Fail("c18-panic", what, in)
	case in.Stream == "kf-number-precision" && exactClass(in) == in.Expect:
		// the library itself gives the expected verdict when the data keeps its exact numbers
		// (json.Number): the deviation is exactly the float64 decoding in the wrapper (D16)
		g.rep.Fail("c18-number-precision", what, in)
	case in.Stream == "kf-empty-enum":
		g.rep.Fail("c18-empty-enum", what, in)
	case in.Mode != 0 && in.Kind == "facade-no-validator":
		g.rep.Fail("c18-facade", what, in)
	case in.Kind == "schema-trailing-garbage":
		g.rep.Fail("c18-schema-trailing-garbage", what, in)
	case in.Kind == "data-null":
		g.rep.Fail("c18-null-data-accepted", what, in)
	case in.Expect == cValid && cls == cInvalid:
		g.rep.Fail("c18-rejects-conforming", what, in)
	case in.Expect == cInvalid && cls == cValid:
		g.rep.Fail("c18-accepts-violation", what, in)
	case in.Expect >= cDataSyntax && (cls == cValid || cls == cInvalid):
		g.rep.Fail("c18-error-not-reported", what, in)
	case in.Expect >= cDataSyntax:
		g.rep.Fail("c18-wrong-error-class", what, in)
	default:
		g.rep.Fail("c18-unexpected-error", what, in)
	}
}

// ------------------------------------------------------------------ streams

func (g *gen) pairStream(n int) []*scenario {
	var keep []*scenario
	for i := 0; i < n; i++ {
		d := d7
		if i%2 == 1 {
			d = d2020
		}
		sc := newScenario(g.cfg.Rng, d)
		st := sc.schema.Text()
		dn := []string{"draft-07", "2020-12"}[d]
		for f, c := range sc.feat {
			if c > 0 {
				g.rep.Count("schema-feature:" + dn + ":" + f)
			}
		}
		for k := 0; k < 2; k++ {
			v := sc.root.valid()
			g.add(&Input{Schema: st, Data: v.Text(), Expect: cValid, Kind: "conforming"})
		}
		bad := sc.root.bad
		g.cfg.Rng.Shuffle(len(bad), func(i, j int) { bad[i], bad[j] = bad[j], bad[i] })
		took := 0
		for _, b := range bad {
			if took >= 4 {
				break
			}
			v := b.gen()
			if v == nil || v.K != kObj {
				continue
			}
			took++
			g.add(&Input{Schema: st, Data: v.Text(), Expect: cInvalid, Kind: "violation:" + b.what})
		}
		keep = append(keep, sc)
	}
	return keep
}

type defect struct {
	name string
	key  string
	val  string // JSON text
	only int    // -1 both drafts, else the draft it applies to
	ok   int    // draft in which the member is simply ignored (-1: none)
}

var defects = []defect{
	{"type-number", "type", `5`, -1, -1},
	{"type-unknown-name", "type", `"strng"`, -1, -1},
	{"type-empty-array", "type", `[]`, -1, -1},
	{"type-duplicate", "type", `["string","string"]`, -1, -1},
	{"type-array-nonstring", "type", `["string",5]`, -1, -1},
	{"required-not-array", "required", `"a"`, -1, -1},
	{"required-nonstring", "required", `[1]`, -1, -1},
	{"required-duplicate", "required", `["a","a"]`, -1, -1},
	{"minLength-negative", "minLength", `-1`, -1, -1},
	{"minLength-string", "minLength", `"x"`, -1, -1},
	{"maxLength-fraction", "maxLength", `1.5`, -1, -1},
	{"maxItems-negative", "maxItems", `-2`, -1, -1},
	{"minItems-bool", "minItems", `true`, -1, -1},
	{"properties-array", "properties", `[]`, -1, -1},
	{"properties-value-number", "properties", `{"a":5}`, -1, -1},
	{"properties-nested-bad", "properties", `{"a":{"properties":{"b":{"type":"nope"}}}}`, -1, -1},
	{"additionalProperties-number", "additionalProperties", `5`, -1, -1},
	{"enum-not-array", "enum", `5`, -1, -1},
	{"enum-empty-draft7", "enum", `[]`, int(d7), -1},
	{"enum-duplicate-draft7", "enum", `[1,"a",1.0]`, int(d7), -1},
	{"allOf-empty", "allOf", `[]`, -1, -1},
	{"anyOf-object", "anyOf", `{}`, -1, -1},
	{"oneOf-number-member", "oneOf", `[5]`, -1, -1},
	{"not-number", "not", `5`, -1, -1},
	{"not-array", "not", `[]`, -1, -1},
	{"multipleOf-zero", "multipleOf", `0`, -1, -1},
	{"multipleOf-negative", "multipleOf", `-2`, -1, -1},
	{"minimum-string", "minimum", `"1"`, -1, -1},
	{"exclusiveMaximum-bool", "exclusiveMaximum", `true`, -1, -1},
	{"pattern-number", "pattern", `5`, -1, -1},
	{"items-array-2020", "items", `[{"type":"string"}]`, int(d2020), -1},
	{"items-number", "items", `5`, -1, -1},
	{"prefixItems-empty", "prefixItems", `[]`, int(d2020), int(d7)},
	{"prefixItems-object", "prefixItems", `{}`, int(d2020), int(d7)},
	{"additionalItems-number", "additionalItems", `5`, int(d7), int(d2020)},
	{"$ref-number", "$ref", `5`, -1, -1},
	{"$ref-dangling", "$ref", `"#/definitions/missing"`, -1, -1},
	{"definitions-bad-entry", "definitions", `{"bad":{"type":5}}`, -1, -1},
	{"$defs-bad-entry", "$defs", `{"bad":{"type":5}}`, int(d2020), int(d7)},
	{"title-number", "title", `5`, -1, -1},
}

// inject a defect into a compiling schema: at the root or into a first-level property schema
func (g *gen) invalidSchemaStream(scs []*scenario, n int) {
	rng := g.cfg.Rng
	for i := 0; i < n; i++ {
		sc := scs[rng.Intn(len(scs))]
		df := defects[rng.Intn(len(defects))]
		applies := df.only == -1 || df.only == int(sc.d)
		ignored := df.ok == int(sc.d)
		if !applies && !ignored {
			continue
		}
		bad, _ := Parse(df.val)
		s := sc.schema.Clone()
		where := "root"
		target := s
		if ps := s.Get("properties"); ps != nil && len(ps.O) > 0 && rng.Intn(100) < 60 && df.key != "definitions" && df.key != "$defs" {
			m := ps.O[rng.Intn(len(ps.O))]
			if m.V.K == kObj {
				target, where = m.V, "property"
			}
		}
		if target == s && (df.key == "definitions" || df.key == "$defs") && s.Get(df.key) != nil {
			// keep the existing definitions, add the bad one
			target = s.Get(df.key)
			target.Set("bad", bad.Get("bad"))
		} else {
			target.Set(df.key, bad)
		}
		data := sc.root.valid()
		in := &Input{Schema: s.Text(), Data: data.Text(), Expect: cSchemaErr, Kind: "invalid-schema:" + df.name + "@" + where}
		if ignored {
			// the other draft does not know the keyword: the member is ignored, the verdict is unchanged
			in.Expect, in.Kind = cValid, "ignored-in-draft:"+df.name+"@"+where
		}
		g.add(in)
	}
	// fixed cases
	obj := `{"a":1}`
	fixed := []struct{ name, schema string }{
		{"root-number", `5`}, {"root-array", `[]`}, {"root-string", `"x"`}, {"root-null", `null`},
		{"$schema-number", `{"$schema":5}`}, {"$schema-unknown-url", `{"$schema":"http://example.com/my-schema"}`},
		{"$schema-not-uri", `{"$schema":"not a uri"}`},
		{"ref-loop-root", `{"$ref":"#"}`},
		{"ref-loop-root-d7", `{"$schema":"http://json-schema.org/draft-07/schema#","$ref":"#"}`},
		{"ref-loop-defs", `{"$schema":"http://json-schema.org/draft-07/schema#","definitions":{"a":{"$ref":"#/definitions/b"},"b":{"$ref":"#/definitions/a"}},"properties":{"a":{"$ref":"#/definitions/a"}}}`},
		{"ref-loop-not", `{"$defs":{"a":{"not":{"$ref":"#/$defs/a"}}},"properties":{"a":{"$ref":"#/$defs/a"}}}`},
		{"ref-loop-allOf", `{"$defs":{"a":{"allOf":[{"type":"integer"},{"$ref":"#/$defs/a"}]}},"properties":{"a":{"$ref":"#/$defs/a"}}}`},
	}
	fixed = append(fixed, []struct{ name, schema string }{
		// the loop / the dangling reference is in a branch this instance never reaches: still a compile error
		{"ref-loop-unexercised", `{"properties":{"zz":{"$ref":"#/$defs/a"}},"$defs":{"a":{"$ref":"#/$defs/a"}}}`},
		{"ref-loop-unexercised-anyOf", `{"$schema":"http://json-schema.org/draft-07/schema#","properties":{"zz":{"type":"object","properties":{"q":{"$ref":"#/definitions/a"}}}},"definitions":{"a":{"anyOf":[{"type":"string"},{"$ref":"#/definitions/b"}]},"b":{"not":{"$ref":"#/definitions/a"}}}}`},
		{"ref-dangling-indirect", `{"properties":{"zz":{"$ref":"#/$defs/a"}},"$defs":{"a":{"properties":{"q":{"$ref":"#/$defs/missing"}}}}}`},
		{"ref-dangling-unexercised", `{"$schema":"http://json-schema.org/draft-07/schema#","properties":{"zz":{"items":{"$ref":"#/definitions/missing"}}}}`},
	}...)
	for _, fx := range fixed {
		g.add(&Input{Schema: fx.schema, Data: obj, Expect: cSchemaErr, Kind: "invalid-schema:" + fx.name})
	}
	// definitions are compiled lazily: what is never referenced may loop or dangle;
	// a cycle that descends into the instance (through properties) is a legitimate recursive schema
	for _, fx := range []struct {
		name, schema, data string
		expect             int
	}{
		{"lazy-unreferenced-loop", `{"$defs":{"a":{"$ref":"#/$defs/b"},"b":{"$ref":"#/$defs/a"}}}`, obj, cValid},
		{"lazy-unreferenced-dangling", `{"$schema":"http://json-schema.org/draft-07/schema#","definitions":{"a":{"$ref":"#/definitions/missing"}}}`, obj, cValid},
		{"recursive-through-properties", `{"$defs":{"n":{"type":"object","properties":{"next":{"$ref":"#/$defs/n"},"v":{"type":"integer"}},"required":["v"]}},"properties":{"a":{"$ref":"#/$defs/n"}}}`, `{"a":{"v":1,"next":{"v":2,"next":{"v":3}}}}`, cValid},
		{"recursive-through-properties", `{"$defs":{"n":{"type":"object","properties":{"next":{"$ref":"#/$defs/n"},"v":{"type":"integer"}},"required":["v"]}},"properties":{"a":{"$ref":"#/$defs/n"}}}`, `{"a":{"v":1,"next":{"v":2,"next":{"v":"3"}}}}`, cInvalid},
		{"recursive-root", `{"type":"object","properties":{"child":{"$ref":"#"},"n":{"type":"integer"}},"additionalProperties":false}`, `{"n":1,"child":{"child":{"n":2}}}`, cValid},
		{"recursive-root", `{"type":"object","properties":{"child":{"$ref":"#"},"n":{"type":"integer"}},"additionalProperties":false}`, `{"n":1,"child":{"child":{"m":2}}}`, cInvalid},
		{"recursive-items", `{"$schema":"http://json-schema.org/draft-07/schema#","definitions":{"t":{"type":"array","items":{"$ref":"#/definitions/t"}}},"properties":{"a":{"$ref":"#/definitions/t"}}}`, `{"a":[[],[[]],[[[],[]]]]}`, cValid},
		{"recursive-items", `{"$schema":"http://json-schema.org/draft-07/schema#","definitions":{"t":{"type":"array","items":{"$ref":"#/definitions/t"}}},"properties":{"a":{"$ref":"#/definitions/t"}}}`, `{"a":[[],[[]],[[[],[1]]]]}`, cInvalid},
	} {
		g.add(&Input{Schema: fx.schema, Data: fx.data, Expect: fx.expect, Kind: fx.name})
	}
	// patterns Go's regexp rejects: the implementation must report a schema error (not panic);
	// the Coq model has no notion of "Go rejects this pattern" -> implementation-side only
	for _, p := range []string{`(`, `[a`, `a**`, "a\\", `a{2,1}`, `(?=a)`, `\1`, `a{1001}`} {
		s := Obj(M("properties", Obj(M("a", Obj(M("pattern", Str(p)))))))
		g.add(&Input{Schema: s.Text(), Data: obj, Expect: cSchemaErr, Kind: "invalid-schema:pattern-syntax", NoCoq: true})
	}
	// deep recursion: the fuel the model needs grows with the depth of the instance
	{
		const recSchema = `{"$defs":{"n":{"type":"object","properties":{"next":{"$ref":"#/$defs/n"},"v":{"type":"integer"}},"required":["v"],"additionalProperties":false}},"properties":{"a":{"$ref":"#/$defs/n"}}}`
		for _, depth := range []int{70, 150} {
			for _, leaf := range []string{`{"v":0}`, `{"v":"x"}`} {
				inner := leaf
				for i := 1; i < depth; i++ {
					inner = fmt.Sprintf(`{"v":%d,"next":%s}`, i, inner)
				}
				exp := cValid
				if strings.Contains(leaf, `"x"`) {
					exp = cInvalid
				}
				g.add(&Input{Schema: recSchema, Data: `{"a":` + inner + `}`, Expect: exp, Kind: "recursive-deep"})
			}
		}
	}
	// boolean root schemas
	g.add(&Input{Schema: `true`, Data: obj, Expect: cValid, Kind: "root-true"})
	g.add(&Input{Schema: `false`, Data: obj, Expect: cInvalid, Kind: "root-false"})
	g.add(&Input{Schema: `{}`, Data: `{}`, Expect: cValid, Kind: "root-empty"})
}

func (g *gen) badInputStream(scs []*scenario, n int) {
	rng := g.cfg.Rng
	nonObj := []string{`[]`, `[{"a":1}]`, `1`, `-2.5`, `"str"`, `true`, `false`, `""`, `[null]`}
	malformed := []string{`{"a":1`, `{"a":1} x`, `{a:1}`, ``, `{"a":01}`, `{"a":1,}`, `{"a":'x'}`, `{"a":1}}`, `nul`, `{"a":tru}`, `{"a":"\x"}`, "{\"a\":\"\x01\"}", `{"a":1}{"b":2}`, `{"a":+1}`, `{"a":.5}`}
	badSchemas := []string{`{} x`, `{}}`, `{"type":"object"}]`, `{},`, `{} tru`, `{}:`, `{"type":"object"} {}`, `{"type":"object"`, ``, `{type:"object"}`, `{"type":"object",}`, `tru`, `{"a":01}`}
	for i := 0; i < n; i++ {
		sc := scs[rng.Intn(len(scs))]
		st := sc.schema.Text()
		switch i % 5 {
		case 0:
			g.add(&Input{Schema: st, Data: nonObj[rng.Intn(len(nonObj))], Expect: cDataType, Kind: "data-not-object"})
		case 1:
			g.add(&Input{Schema: st, Data: `null`, Expect: cOtherErr, Kind: "data-null"})
		case 2:
			g.add(&Input{Schema: st, Data: malformed[rng.Intn(len(malformed))], Expect: cDataSyntax, Kind: "data-malformed"})
		case 3:
			bs := badSchemas[rng.Intn(len(badSchemas))]
			kind := "schema-malformed"
			if p, ok := Parse(firstValue(bs)); ok && p != nil && firstValue(bs) != bs {
				kind = "schema-trailing-garbage"
			}
			g.add(&Input{Schema: bs, Data: sc.root.valid().Text(), Expect: cOtherErr, Kind: kind})
		default:
			// both wrong: the schema text is checked first
			g.add(&Input{Schema: badSchemas[rng.Intn(len(badSchemas))], Data: malformed[rng.Intn(len(malformed))], Expect: cOtherErr, Kind: "schema-and-data-malformed"})
		}
	}
	// schema trailing garbage after a schema that would reject the data (regression for cd81e14)
	for _, t := range []string{` x`, `}`, `]`, `,`, ` tru`, `:`} {
		g.add(&Input{Schema: `{"type":"object","required":["zz"]}` + t, Data: `{"a":1}`, Expect: cOtherErr, Kind: "schema-trailing-garbage"})
		g.add(&Input{Schema: `{}` + t, Data: `{"a":1}`, Expect: cOtherErr, Kind: "schema-trailing-garbage"})
	}
	// data that is fine but null-ish members
	g.add(&Input{Schema: `{"properties":{"a":{"type":"null"}},"required":["a"]}`, Data: `{"a":null}`, Expect: cValid, Kind: "null-member"})
	g.add(&Input{Schema: `{"type":"object"}`, Data: ` null `, Expect: cOtherErr, Kind: "data-null"})
	g.add(&Input{Schema: `{"type":"null"}`, Data: `null`, Expect: cOtherErr, Kind: "data-null"})
	g.add(&Input{Schema: `false`, Data: `null`, Expect: cOtherErr, Kind: "data-null"})
	g.add(&Input{Schema: `5`, Data: `null`, Expect: cOtherErr, Kind: "data-null"}) // null check precedes compilation
	g.add(&Input{Schema: `5`, Data: `[1]`, Expect: cDataType, Kind: "data-not-object"})
}

// the first JSON value of a text (used to tell "trailing garbage" from other malformed schemas)
func firstValue(s string) string {
	dec := ej.NewDecoder(strings.NewReader(s))
	var raw ej.RawMessage
	if err := dec.Decode(&raw); err != nil {
		return ""
	}
	return string(raw)
}

func (g *gen) facadeStream(n int) {
	k := len(g.cases)
	rng := g.cfg.Rng
	for i := 0; i < n && k > 0; i++ {
		src := g.cases[rng.Intn(k)]
		if src.Stream != "normal" || src.Mode != 0 {
			continue
		}
		c := *src
		if i%3 == 2 {
			c.Mode, c.Expect, c.Kind = 2, cNoValidator, "facade-no-validator"
		} else {
			c.Mode, c.Kind = 1, "facade:"+src.Kind
		}
		g.add(&c)
	}
}

// known finding D16: data numbers are decoded into float64
func (g *gen) precisionStream() {
	type pc struct {
		schema, data string
		expect       int
	}
	cases := []pc{
		{`{"properties":{"a":{"maximum":9007199254740992}}}`, `{"a":9007199254740993}`, cInvalid},
		{`{"properties":{"a":{"const":9007199254740992}}}`, `{"a":9007199254740993}`, cInvalid},
		{`{"properties":{"a":{"enum":[9007199254740993]}}}`, `{"a":9007199254740993}`, cValid},
		{`{"properties":{"a":{"exclusiveMinimum":0.1}}}`, `{"a":0.1000000000000000000001}`, cValid},
		{`{"properties":{"a":{"multipleOf":3}}}`, `{"a":9007199254740993}`, cValid},
		{`{"$schema":"http://json-schema.org/draft-07/schema#","properties":{"a":{"type":"integer"}}}`, `{"a":9007199254740992.5}`, cInvalid},
		{`{}`, `{"a":1e400}`, cValid},
		{`{"properties":{"a":{"type":"number","minimum":1e399}}}`, `{"a":1e400}`, cValid},
		{`{"properties":{"a":{"not":{"const":0}}}}`, `{"a":1e-400}`, cValid},
	}
	for _, c := range cases {
		g.add(&Input{Schema: c.schema, Data: c.data, Expect: c.expect, Kind: "number-beyond-float64", Stream: "kf-number-precision"})
	}
}

// known finding D17: "enum": [] under 2020-12 accepts everything in the dependency
func (g *gen) emptyEnumStream() {
	for _, s := range []string{
		`{"$schema":"https://json-schema.org/draft/2020-12/schema","properties":{"a":{"enum":[]}}}`,
		`{"properties":{"a":{"type":"integer","enum":[]}},"required":["a"]}`,
		`{"$defs":{"none":{"enum":[]}},"properties":{"a":{"$ref":"#/$defs/none"}}}`,
		`{"properties":{"a":{"anyOf":[{"enum":[]},{"type":"string"}]}}}`,
	} {
		g.add(&Input{Schema: s, Data: `{"a":1}`, Expect: cInvalid, Kind: "empty-enum", Stream: "kf-empty-enum"})
	}
	// the member is absent: nothing to reject, both agree
	g.add(&Input{Schema: `{"properties":{"a":{"enum":[]}}}`, Data: `{"b":1}`, Expect: cValid, Kind: "empty-enum-not-reached"})
	g.add(&Input{Schema: `{"properties":{"a":{"not":{"enum":[]}}}}`, Data: `{"a":1}`, Expect: cValid, Kind: "empty-enum", Stream: "kf-empty-enum"})
}

// ------------------------------------------------------------------ shards

const shardSize = 350

func optTerm(f *coqgen.File, text string) (string, bool) {
	v, ok := Parse(text)
	if !ok {
		return "None", true
	}
	if v.HasDupKeys() {
		return "", false
	}
	return "(Some (" + v.Coq(f) + "))", true
}

func (g *gen) writeShards() error {
	var idx []int
	for i, in := range g.cases {
		if !in.NoCoq {
			idx = append(idx, i)
		}
	}
	for s := 0; s*shardSize < len(idx); s++ {
		lo, hi := s*shardSize, (s+1)*shardSize
		if hi > len(idx) {
			hi = len(idx)
		}
		f := coqgen.NewFile("From Coq Require Import QArith.", "From GSP Require Import Schema.Json Schema.Regex Schema.Model Schema.Run.")
		name := filepath.Join(g.cfg.OutDir, fmt.Sprintf("cases_C18_%03d.v", s))
		schemaName := map[string]string{}
		var defs, cs []string
		for _, i := range idx[lo:hi] {
			in := g.cases[i]
			sn, ok := schemaName[in.Schema]
			if !ok {
				t, good := optTerm(f, in.Schema)
				if !good {
					continue
				}
				sn = fmt.Sprintf("sch%d", len(schemaName))
				schemaName[in.Schema] = sn
				defs = append(defs, fmt.Sprintf("Definition %s : option json := %s.", sn, t))
			}
			dt, good := optTerm(f, in.Data)
			if !good {
				continue
			}
			// the model is compared with the implementation; on the known-finding streams with the
			// verdict expected by construction (the implementation is known to deviate there)
			obs := g.obs[i]
			if in.Stream != "normal" {
				obs = in.Expect
			}
			cm := in.Mode
			if cm == 3 || cm == 4 {
				cm = 1 // Load must hand back the served schema: same model as the facade on the served text
			}
			cs = append(cs, fmt.Sprintf("mkc %d %d %s %s %d", i, cm, sn, dt, obs))
			g.rep.Case(name, i, in)
		}
		f.Add(defs...)
		f.Add("Definition cases_ : list scase := " + coqgen.List(cs) + ".")
		f.Add("Definition M := Eval vm_compute in smismatches cases_.")
		f.Add("Print M.")
		if err := f.Write(name); err != nil {
			return err
		}
		g.rep.Shards = append(g.rep.Shards, name)
	}
	return nil
}

// text shards: the Coq model receives the very bytes the implementation received and
// decides JSON well-formedness itself (Schema/JsonText.v); the harness's own decoding
// (used for the term shards) is checked against the Coq parser on the same texts.
const textLimit = 700
const textShardSize = 300

func (g *gen) writeTextShards() error {
	var idx []int
	for i, in := range g.cases {
		if !in.NoCoq && len(in.Schema)+len(in.Data) <= textLimit {
			idx = append(idx, i)
		}
	}
	for s := 0; s*textShardSize < len(idx); s++ {
		lo, hi := s*textShardSize, (s+1)*textShardSize
		if hi > len(idx) {
			hi = len(idx)
		}
		f := coqgen.NewFile("From Coq Require Import QArith.", "From GSP Require Import Schema.Json Schema.JsonText Schema.Regex Schema.Model Schema.Run.")
		name := filepath.Join(g.cfg.OutDir, fmt.Sprintf("cases_C18_txt_%03d.v", s))
		var cs, ps []string
		checked := map[string]bool{}
		for _, i := range idx[lo:hi] {
			in := g.cases[i]
			obs := g.obs[i]
			if in.Stream != "normal" {
				obs = in.Expect
			}
			cm := in.Mode
			if cm == 3 || cm == 4 {
				cm = 1
			}
			cs = append(cs, fmt.Sprintf("mkt %d %d %s %s %d", i, cm, f.Str(in.Schema), f.Str(in.Data), obs))
			g.rep.Case(name, i, in)
			for _, text := range []string{in.Schema, in.Data} {
				if checked[text] {
					continue
				}
				checked[text] = true
				if t, good := optTerm(f, text); good {
					ps = append(ps, fmt.Sprintf("(%d, %s, %s)", i, f.Str(text), t))
				}
			}
		}
		f.Add("Definition cases_ : list tcase := " + coqgen.List(cs) + ".")
		f.Add("Definition checks_ : list (int * string * option json) := " + coqgen.List(ps) + ".")
		f.Add("Definition M := Eval vm_compute in (tmismatches cases_ ++ pmismatches checks_)%list.")
		f.Add("Print M.")
		if err := f.Write(name); err != nil {
			return err
		}
		g.rep.Shards = append(g.rep.Shards, name)
	}
	return nil
}

func Run(cfg *common.Config) (*common.Report, error) {
	rep := common.NewReport("C18")
	rep.Correspondence = "Schema.Run.smismatches: validate_data / processor_validate_data (Schema/Model.v: compile_root + validate) vs json.Validator.ValidateData / processor.Processor.ValidateData (outcome class: valid, invalid, data syntax error, data not an object, schema error, other error, no validator)"
	rep.Rule = "generated schemas over type/properties/required/additionalProperties/items/additionalItems/prefixItems/enum/const/bounds/multipleOf/lengths/pattern/allOf/anyOf/oneOf/not/$ref (draft-07 and 2020-12 via $schema, or no $schema), 2 instances conforming by construction and up to 4 instances with one injected violation each; schemas with one injected defect; non-object / null / malformed data; malformed schema text; facade calls; histories of calls in one process with schema revisions sharing one $id (each verdict must equal the fresh verdict for that text). distinct = distinct (mode, schema text, data text); every case is non-trivial (the schema has at least one constraining keyword or the input is an error case)."
	g := &gen{cfg: cfg, rep: rep}
	if cfg.Replay != "" {
		return replay(cfg, g)
	}
	scs := g.pairStream(cfg.Pick(110, 3000))
	g.invalidSchemaStream(scs, cfg.Pick(90, 2500))
	g.badInputStream(scs, cfg.Pick(40, 600))
	g.facadeStream(cfg.Pick(36, 600))
	g.precisionStream()
	g.emptyEnumStream()
	g.suiteStream()
	g.historyStream(scs, cfg.Pick(12, 300))
	g.bigNumberStream()
	g.loadStream(scs, cfg.Pick(40, 600))
	g.refDataStream()
	g.interleavedLoadStream(scs, cfg.Pick(20, 300))
	for i, in := range g.cases {
		if i%83 == 0 {
			rep.Sample(map[string]any{"input": in, "observed": className[g.obs[i]]})
		}
	}
	var kinds []string
	for k := range rep.Distribution {
		kinds = append(kinds, k)
	}
	sort.Strings(kinds)
	rep.Notes = append(rep.Notes,
		"known-finding streams (kf-*) are compared in Coq against the verdict expected by construction, not against the implementation",
		"patterns rejected by Go's regexp are checked on the implementation only (schema error expected)",
		"cases_C18_txt_*: cases whose texts are at most 700 bytes are ALSO evaluated from the raw bytes (validate_text: the Coq model parses the JSON text itself); the harness decoding of every such text is compared with the Coq parser")
	if err := g.writeShards(); err != nil {
		return nil, err
	}
	if err := g.writeTextShards(); err != nil {
		return nil, err
	}
	return rep, nil
}

func replay(cfg *common.Config, g *gen) (*common.Report, error) {
	var rf struct {
		Input Input `json:"input"`
	}
	if err := common.ReadJSON(cfg.Replay, &rf); err != nil {
		return nil, err
	}
	in := rf.Input
	for _, c := range in.Prefix {
		runImpl(&Input{Mode: c.Mode, Schema: c.Schema, Data: c.Data})
	}
	cls := g.add(&in)
	g.rep.Sample(map[string]any{"input": in, "observed": className[cls]})
	fmt.Printf("replay: mode=%d kind=%s schema=%s data=%s -> %s (expected %s)\n", in.Mode, in.Kind, in.Schema, in.Data, className[cls], className[in.Expect])
	if err := g.writeShards(); err != nil {
		return nil, err
	}
	if err := g.writeTextShards(); err != nil {
		return nil, err
	}
	return g.rep, nil
}
