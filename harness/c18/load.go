package c18

import "fmt"

// Facade path Processor.Load -> Processor.ValidateData with a stub document loader
// that serves the generated schema text.  What Load returns must be semantically the
// served schema: the verdict is compared with the direct call on the served text,
// with the expectation, and (in the shard) with the model run on the served text.
// Schema numbers are float64-exact (the loader decodes into float64).
func (g *gen) loadStream(scs []*scenario, n int) {
	rng := g.cfg.Rng
	both := func(schema, data string, expect int, kind string) {
		direct := g.add(&Input{Mode: 1, Schema: schema, Data: data, Expect: expect, Kind: "load-direct:" + kind})
		in := &Input{Mode: 3, Schema: schema, Data: data, Expect: expect, Kind: "load:" + kind}
		if cls := g.add(in); cls != direct {
			g.rep.Fail("c18-load-changes-schema", fmt.Sprintf("verdict %s with the schema returned by Load, %s with the served text", className[cls], className[direct]), in)
		}
	}
	bigs := []string{"9007199254740992", "9223372036854775808", "18446744073709551616", "36893488147419103232",
		"-9223372036854775808", "-18446744073709551616", "4611686018427387904", "1e19", "2.5", "-0.125", "1000000"}
	hdrs := []string{`"$schema":"http://json-schema.org/draft-07/schema#",`, `"$schema":"https://json-schema.org/draft/2020-12/schema",`, ``}
	for i, b := range bigs {
		h := hdrs[i%3]
		neg := b[0] == '-'
		mk := func(kw, val string) string {
			return `{` + h + `"$metadata":{"version":"1.0"},"type":"object","properties":{"n":{"` + kw + `":` + val + `}},"required":["n"]}`
		}
		small, smallNeg := `{"n":1000}`, `{"n":-1000}`
		if b == "2.5" || b == "-0.125" || b == "1000000" {
			both(mk("maximum", b), `{"n":-7}`, cValid, "small-bound")
			both(mk("minimum", b), `{"n":-7}`, cInvalid, "small-bound")
			both(mk("const", b), `{"n":`+b+`}`, cValid, "small-bound")
			continue
		}
		if !neg {
			both(mk("maximum", b), small, cValid, "big-maximum")
			both(mk("exclusiveMaximum", b), small, cValid, "big-maximum")
			both(mk("minimum", b), small, cInvalid, "big-minimum")
			both(mk("maximum", b), smallNeg, cValid, "big-maximum")
		} else {
			both(mk("minimum", b), smallNeg, cValid, "big-minimum")
			both(mk("exclusiveMinimum", b), smallNeg, cValid, "big-minimum")
			both(mk("maximum", b), smallNeg, cInvalid, "big-maximum")
		}
		both(mk("const", b), small, cInvalid, "big-const")
		both(mk("enum", `[`+b+`,1000]`), small, cValid, "big-enum")
		both(mk("enum", `[`+b+`,"x"]`), small, cInvalid, "big-enum")
		both(mk("multipleOf", "1000"), small, cValid, "multipleOf")
	}
	for i := 0; i < n && len(scs) > 0; i++ {
		sc := scs[rng.Intn(len(scs))]
		st := sc.schema.Text()
		both(st, sc.root.valid().Text(), cValid, "generated:conforming")
		if len(sc.root.bad) > 0 {
			if v := sc.root.bad[rng.Intn(len(sc.root.bad))].gen(); v != nil && v.K == kObj {
				both(st, v.Text(), cInvalid, "generated:violation")
			}
		}
	}
}

// "$ref" as DATA: under const / enum a member named "$ref" is part of a JSON value, not a reference
func (g *gen) refDataStream() {
	hdrs := []string{`"$schema":"http://json-schema.org/draft-07/schema#",`, `"$schema":"https://json-schema.org/draft/2020-12/schema",`, ``}
	for _, h := range hdrs {
		for _, target := range []string{"other.json", "https://example.com/person.json#/definitions/age", "#/nowhere", "urn:x:y"} {
			link := fmt.Sprintf(`{"$ref":%q}`, target)
			sc := `{` + h + `"type":"object","properties":{"link":{"const":` + link + `}},"required":["link"]}`
			se := `{` + h + `"type":"object","properties":{"link":{"enum":[1,` + link + `,{"$ref":5}]}}}`
			g.add(&Input{Schema: sc, Data: `{"link":` + link + `}`, Expect: cValid, Kind: "ref-as-data:const"})
			g.add(&Input{Schema: sc, Data: `{"link":{"$ref":"something else"}}`, Expect: cInvalid, Kind: "ref-as-data:const"})
			g.add(&Input{Schema: se, Data: `{"link":` + link + `}`, Expect: cValid, Kind: "ref-as-data:enum"})
			g.add(&Input{Schema: se, Data: `{"link":{"$ref":5}}`, Expect: cValid, Kind: "ref-as-data:enum"})
			g.add(&Input{Schema: se, Data: `{"link":{"$ref":"#"}}`, Expect: cInvalid, Kind: "ref-as-data:enum"})
		}
	}
	// a self-contained schema that refers to its own definitions through its "$id":
	// absolute, relative to the "$id", and to the document root
	type idc struct{ hdr, defs string }
	for _, c := range []idc{
		{`"$schema":"http://json-schema.org/draft-07/schema#",`, "definitions"},
		{`"$schema":"https://json-schema.org/draft/2020-12/schema",`, "$defs"},
		{``, "$defs"},
		{`"$schema":"https://json-schema.org/draft/2020-12/schema",`, "definitions"},
	} {
		id := freshID("person")
		seg := id[len("https://example.com/schemas/c18/"):]
		for _, ref := range []string{id + "#/" + c.defs + "/age", seg + "#/" + c.defs + "/age", "#/" + c.defs + "/age"} {
			sch := fmt.Sprintf(`{%s"$id":%q,"type":"object","properties":{"age":{"$ref":%q},"child":{"$ref":%q}},"required":["age"],"%s":{"age":{"type":"integer","minimum":0,"maximum":150}}}`,
				c.hdr, id, ref, id+"#", c.defs)
			g.add(&Input{Schema: sch, Data: `{"age":42}`, Expect: cValid, Kind: "ref-through-$id"})
			g.add(&Input{Schema: sch, Data: `{"age":151}`, Expect: cInvalid, Kind: "ref-through-$id"})
			g.add(&Input{Schema: sch, Data: `{"age":1,"child":{"age":2,"child":{"age":"x"}}}`, Expect: cInvalid, Kind: "ref-through-$id"})
			g.add(&Input{Schema: sch, Data: `{"age":1,"child":{"age":2,"child":{"age":3}}}`, Expect: cValid, Kind: "ref-through-$id"})
		}
		// a dangling definition behind the document's own $id is still a compile error
		bad := fmt.Sprintf(`{%s"$id":%q,"properties":{"age":{"$ref":%q}}}`, c.hdr, id, id+"#/"+c.defs+"/missing")
		g.add(&Input{Schema: bad, Data: `{"age":42}`, Expect: cSchemaErr, Kind: "ref-through-$id:dangling"})
	}
}

// Load(A), Load(B), [Load(C)], then ValidateData against the bytes returned for A: what
// Load returned must stay A (no aliasing of a reused buffer).  Equal and different
// serialized lengths.
func (g *gen) interleavedLoadStream(scs []*scenario, n int) {
	mk := func(maximum int, pad string) string {
		return fmt.Sprintf(`{"type":"object","properties":{"age":{"type":"integer","maximum":%d}},"required":["age"],"title":%q}`, maximum, pad)
	}
	a, b := mk(100, "rev"), mk(200, "rev") // equal serialized length
	longer, shorter := mk(200, "a much longer title than the first revision has"), `{"type":"object"}`
	bad := `{"type":"objekt","title":"same length as nothing in particular"}`
	for _, c := range []struct {
		schema string
		after  []string
		data   string
		expect int
	}{
		{a, []string{b}, `{"age":150}`, cInvalid}, {b, []string{a}, `{"age":150}`, cValid},
		{a, []string{b, a, b}, `{"age":150}`, cInvalid}, {a, []string{longer}, `{"age":150}`, cInvalid},
		{a, []string{longer}, `{"age":50}`, cValid}, {longer, []string{a}, `{"age":150}`, cValid},
		{longer, []string{shorter}, `{"age":250}`, cInvalid}, {a, []string{shorter}, `{"age":50}`, cValid},
		{a, []string{shorter, longer}, `{"age":150}`, cInvalid}, {a, []string{bad}, `{"age":50}`, cValid},
		{bad, []string{a}, `{"age":50}`, cSchemaErr}, {a, nil, `{"age":150}`, cInvalid},
	} {
		g.add(&Input{Mode: 4, Schema: c.schema, LoadAfter: c.after, Data: c.data, Expect: c.expect, Kind: "load-interleaved"})
	}
	rng := g.cfg.Rng
	for i := 0; i < n && len(scs) >= 2; i++ {
		x, y, z := scs[rng.Intn(len(scs))], scs[rng.Intn(len(scs))], scs[rng.Intn(len(scs))]
		after := []string{y.schema.Text()}
		if i%2 == 0 {
			after = append(after, z.schema.Text())
		}
		g.add(&Input{Mode: 4, Schema: x.schema.Text(), LoadAfter: after, Data: x.root.valid().Text(), Expect: cValid, Kind: "load-interleaved:generated"})
		if len(x.root.bad) > 0 {
			if v := x.root.bad[rng.Intn(len(x.root.bad))].gen(); v != nil && v.K == kObj {
				g.add(&Input{Mode: 4, Schema: x.schema.Text(), LoadAfter: after, Data: v.Text(), Expect: cInvalid, Kind: "load-interleaved:generated"})
			}
		}
	}
}
