// Package floats records the primitive float operations the implementation relies
// on (strconv.ParseFloat, json-gold's canonical double, float64(int)) as tables
// for the Coq model, which never computes with floats itself.
package floats

import (
	"fmt"
	"math"
	"math/big"
	"sort"
	"strconv"

	"github.com/piprate/json-gold/ld"

	"vharness/coqgen"
)

type Rec struct {
	parse map[string]*uint64 // nil = error
	canon map[uint64]string
	ofInt map[string]uint64
}

func New() *Rec {
	return &Rec{parse: map[string]*uint64{}, canon: map[uint64]string{}, ofInt: map[string]uint64{}}
}

func (fr *Rec) AddBits(b uint64) {
	for i := 0; i < 3; i++ {
		if _, ok := fr.canon[b]; ok {
			return
		}
		c := ld.GetCanonicalDouble(math.Float64frombits(b))
		fr.canon[b] = c
		f, err := strconv.ParseFloat(c, 64)
		if err != nil {
			fr.parse[c] = nil
			return
		}
		nb := math.Float64bits(f)
		fr.parse[c] = &nb
		b = nb
	}
}

func (fr *Rec) AddStr(s string) {
	if _, ok := fr.parse[s]; ok {
		return
	}
	f, err := strconv.ParseFloat(s, 64)
	if err != nil {
		fr.parse[s] = nil
		return
	}
	b := math.Float64bits(f)
	fr.parse[s] = &b
	fr.AddBits(b)
}

func (fr *Rec) AddInt(v *big.Int, unsigned bool) {
	var f float64
	if unsigned {
		f = float64(v.Uint64())
	} else {
		f = float64(v.Int64())
	}
	b := math.Float64bits(f)
	fr.ofInt[v.String()] = b
	fr.AddBits(b)
}

func BitsBig(b uint64) *big.Int { return new(big.Int).SetUint64(b) }

func (fr *Rec) Coq(f *coqgen.File) string {
	var ps, cs, is []string
	pk := make([]string, 0, len(fr.parse))
	for k := range fr.parse {
		pk = append(pk, k)
	}
	sort.Strings(pk)
	for _, k := range pk {
		v := fr.parse[k]
		if v == nil {
			ps = append(ps, fmt.Sprintf("(%s, None)", f.Str(k)))
		} else {
			ps = append(ps, fmt.Sprintf("(%s, Some %s)", f.Str(k), coqgen.Limbs(BitsBig(*v))))
		}
	}
	ck := make([]uint64, 0, len(fr.canon))
	for b := range fr.canon {
		ck = append(ck, b)
	}
	sort.Slice(ck, func(i, j int) bool { return ck[i] < ck[j] })
	for _, b := range ck {
		cs = append(cs, fmt.Sprintf("(%s, %s)", coqgen.Limbs(BitsBig(b)), f.Str(fr.canon[b])))
	}
	ik := make([]string, 0, len(fr.ofInt))
	for k := range fr.ofInt {
		ik = append(ik, k)
	}
	sort.Strings(ik)
	for _, k := range ik {
		z, _ := new(big.Int).SetString(k, 10)
		is = append(is, fmt.Sprintf("(%s, %s)", coqgen.SNum(z), coqgen.Limbs(BitsBig(fr.ofInt[k]))))
	}
	return fmt.Sprintf("{| rf_parse := %s;\n rf_canon := %s;\n rf_of_int := %s |}",
		coqgen.List(ps), coqgen.List(cs), coqgen.List(is))
}
