package main

import (
	_ "vharness/c11"
)
