module vharness

go 1.21

require (
	github.com/iden3/go-iden3-core/v2 v2.3.1
	github.com/iden3/go-iden3-crypto v0.0.17
	github.com/iden3/go-merkletree-sql/v2 v2.0.4
	github.com/iden3/go-schema-processor/v2 v2.0.0
	github.com/piprate/json-gold v0.5.1-0.20241210232033-19254b3ec65b
	github.com/pquerna/cachecontrol v0.0.0-20180517163645-1555304b9b35
	github.com/santhosh-tekuri/jsonschema/v5 v5.3.0
)

require (
	github.com/dchest/blake512 v1.0.0 // indirect
	github.com/mr-tron/base58 v1.2.0 // indirect
	github.com/pkg/errors v0.9.1 // indirect
	golang.org/x/crypto v0.12.0 // indirect
	golang.org/x/sys v0.15.0 // indirect
)

replace github.com/iden3/go-schema-processor/v2 => /repo
