package main

import (
	_ "vharness/c12"
)
