package main

import (
	_ "vharness/c04"
)
