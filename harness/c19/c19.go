// Package c19: document loader freshness and routing (property C19).
//
// The REAL loader (loaders.NewDocumentLoader) is driven through random histories
// {origin serves version v at key k with cache headers p | origin fails | load u |
// time passes} under every configuration (cache default / off / memory engine with
// embedded documents / third-party engine, IPFS client / gateway / both / none).
// The HTTP client's transport and the IPFS client are a scripted origin with a
// request log; time is virtual: a CacheEngine wrapper shifts expiry times by the
// simulated elapsed time (the loader reads time.Now() directly; lifetimes and ticks
// are multiples of 1000 s, so real milliseconds cannot flip a comparison).
//
// Per history the driver (1) evaluates implementation-side property oracles that do
// not use the Coq model, (2) writes the history, the observations (per-load outcome,
// requests per load, final cache contents) and the recorded answers of the
// primitives (cachecontrol.CachableResponse per header set, http.NewRequest per
// URL) into a case file evaluated by Loader/Run.v inside Coq.
package c19

import (
	"encoding/json"
	"errors"
	"fmt"
	"io"
	"math"
	"net/http"
	"path/filepath"
	"sort"
	"strings"
	"time"

	"github.com/iden3/go-schema-processor/v2/loaders"
	"github.com/piprate/json-gold/ld"
	"github.com/pquerna/cachecontrol"
	"github.com/pquerna/cachecontrol/cacheobject"

	"vharness/common"
	"vharness/coqgen"
)

func init() { common.Register("C19", Run) }

// ---------------------------------------------------------------- inputs

// Policy is a set of cache headers (kind numbers are those of Loader/Run.v policy_of).
type Policy struct {
	K int   `json:"k"`
	N int64 `json:"n,omitempty"`
}

const (
	pMaxAge = iota
	pSMaxAge
	pPublicMaxAge
	pExpiresDate
	pExpires
	pNoStore
	pPrivate
	pPrivateMaxAge
	pNone
	pNoCache
	pExpiresInvalid
	pMalformed
	pBadDate
	pNoStoreMaxAge
	pMustRevalidate
	pNoCacheMaxAge
	pRaw // N = index into rawSets
	nPolicyKinds
)

// rawSets: header sets the Coq model knows by number only (PRaw id): other letter case, white space,
// quoted arguments, several Cache-Control lines.  Each entry is the list of Cache-Control header LINES.
// Append only (the index is part of replay files).
var rawSets = [][]string{
	0:  {"No-Cache, max-age=3000"},
	1:  {"max-age=3000, NO-CACHE"},
	2:  {" no-cache , max-age=3000 "},
	3:  {`no-cache="set-cookie", max-age=3000`},
	4:  {"NO-STORE"},
	5:  {"No-Store, max-age=3000"},
	6:  {"Private"},
	7:  {"PRIVATE, MAX-AGE=3000"},
	8:  {"MAX-AGE=3000"},
	9:  {"Max-Age=1000"},
	10: {"S-MaxAge=2000"},
	11: {"max-age=3000", "no-cache"},
	12: {"max-age=3000", "no-store"},
	13: {"no-store", "max-age=3000"},
	14: {"public", "max-age=2000"},
	15: {`max-age="3000"`},
	16: {"max-age=3000,no-cache"},
	17: {"max-age=3000 , No-Store"},
	18: {"Must-Revalidate, Max-Age=2000"},
	19: {"NO-CACHE"},
	20: {"max-age=3000", "PRIVATE"},
	21: {"max-age=2000,\tNo-Cache"},
	22: {"S-MAXAGE=1000, max-age=5000"},
	23: {"Public, Max-Age=3000"},
}

// lineIDs: every distinct Cache-Control line text of rawSets gets a number; the Coq model knows a line
// only by that number, and a comma-joined text by the sequence of the numbers of its lines.
var lineIDs = func() map[string]int {
	m := map[string]int{}
	for _, set := range rawSets {
		for _, l := range set {
			if _, ok := m[l]; !ok {
				m[l] = len(m) + 1
			}
		}
	}
	return m
}()

// coqLines renders the header lines of a raw set as a list of singleton texts, coqText the joined text.
func (p Policy) coqLines() string {
	var parts []string
	for _, l := range p.rawLines() {
		parts = append(parts, fmt.Sprintf("[%d]", lineIDs[l]))
	}
	return "[" + strings.Join(parts, ";") + "]"
}

func (p Policy) coqText() string {
	var parts []string
	for _, l := range p.rawLines() {
		parts = append(parts, fmt.Sprint(lineIDs[l]))
	}
	return "[" + strings.Join(parts, ";") + "]"
}

func (p Policy) rawLines() []string {
	if p.K == pRaw && p.N >= 0 && int(p.N) < len(rawSets) {
		return rawSets[p.N]
	}
	return nil
}

func (p Policy) name() string {
	if p.K == pRaw {
		return "raw:" + strings.Join(p.rawLines(), " | ")
	}
	if p.K >= 0 && p.K < len(policyNames) {
		return policyNames[p.K]
	}
	return fmt.Sprintf("kind-%d", p.K)
}

// verdict: what RFC 7234 says about a header set (directive names are case-insensitive, OWS around
// list members is ignored, arguments may be quoted, several header lines are one comma-joined list).
// Written from the RFC, independent of the library and of the loader.
type verdict struct {
	forbid     bool  // no-store or private: a shared cache must not store
	revalidate bool  // no-cache: must not be reused without validation
	nofresh    bool  // no explicit freshness information
	ambiguous  bool  // the RFC leaves it open: nothing is judged
	life       int64 // freshness lifetime when there is one
}

func splitDirectives(s string) []string {
	var out []string
	var cur strings.Builder
	quoted := false
	for i := 0; i < len(s); i++ {
		c := s[i]
		switch {
		case c == '"':
			quoted = !quoted
			cur.WriteByte(c)
		case c == ',' && !quoted:
			out = append(out, cur.String())
			cur.Reset()
		default:
			cur.WriteByte(c)
		}
	}
	return append(out, cur.String())
}

func parseCacheControl(lines []string) verdict {
	v := verdict{nofresh: true}
	var maxAge, sMaxAge *int64
	for _, d := range splitDirectives(strings.Join(lines, ", ")) {
		d = strings.Trim(d, " \t")
		if d == "" {
			continue
		}
		name, arg, hasArg := d, "", false
		if i := strings.IndexByte(d, '='); i >= 0 {
			name, arg, hasArg = strings.Trim(d[:i], " \t"), strings.Trim(d[i+1:], " \t"), true
		}
		arg = strings.Trim(arg, `"`)
		switch strings.ToLower(name) {
		case "no-store", "private":
			v.forbid = true
		case "no-cache":
			if hasArg {
				v.ambiguous = true // field-specific form: reuse without the listed fields is allowed
			} else {
				v.revalidate = true
			}
		case "max-age", "s-maxage":
			var n int64
			if _, err := fmt.Sscanf(arg, "%d", &n); err != nil || fmt.Sprint(n) != arg {
				v.ambiguous = true
				continue
			}
			if strings.ToLower(name) == "max-age" {
				if maxAge != nil && *maxAge != n {
					v.ambiguous = true
				}
				maxAge = &n
			} else {
				if sMaxAge != nil && *sMaxAge != n {
					v.ambiguous = true
				}
				sMaxAge = &n
			}
		}
	}
	switch {
	case sMaxAge != nil:
		v.nofresh, v.life = false, *sMaxAge
	case maxAge != nil:
		v.nofresh, v.life = false, *maxAge
	}
	return v
}

// spec: the RFC's verdict on the header set; firstLineOnly = on the text of the first Cache-Control
// line alone (what h.Get("Cache-Control") hands to the library).
func (p Policy) spec(firstLineOnly bool) verdict {
	switch p.K {
	case pMaxAge, pSMaxAge, pPublicMaxAge, pExpiresDate, pExpires, pMustRevalidate:
		return verdict{life: p.N}
	case pBadDate:
		return verdict{ambiguous: true, life: p.N}
	case pNoStore, pPrivate:
		return verdict{forbid: true, nofresh: true}
	case pPrivateMaxAge, pNoStoreMaxAge:
		return verdict{forbid: true, life: p.N}
	case pNoCache:
		return verdict{revalidate: true, nofresh: true}
	case pNoCacheMaxAge:
		return verdict{revalidate: true, life: p.N}
	case pRaw:
		lines := p.rawLines()
		if firstLineOnly && len(lines) > 1 {
			lines = lines[:1]
		}
		return parseCacheControl(lines)
	}
	return verdict{nofresh: true} // none, Expires: 0, max-age=oops
}

// laterLineMatters: the header set has several Cache-Control lines and the RFC's verdict changes when
// only the first one is read
func (p Policy) laterLineMatters() bool {
	if len(p.rawLines()) < 2 {
		return false
	}
	a, b := p.spec(false), p.spec(true)
	return a.forbid != b.forbid || a.revalidate != b.revalidate || a.nofresh != b.nofresh || a.life != b.life
}

var policyNames = []string{"max-age", "s-maxage", "public,max-age", "expires+date", "expires", "no-store", "private",
	"private,max-age", "none", "no-cache", "expires-invalid", "malformed", "bad-date", "no-store,max-age",
	"must-revalidate,max-age", "no-cache,max-age"}

func (p Policy) hasN() bool {
	switch p.K {
	case pNoStore, pPrivate, pNone, pNoCache, pExpiresInvalid, pMalformed:
		return false
	}
	return true // pRaw: N is the index of the header set
}

func (p Policy) canon() Policy {
	if !p.hasN() {
		p.N = 0
	}
	return p
}

// headers builds the header set the origin sends at real time now.
func (p Policy) headers(now time.Time) http.Header {
	h := http.Header{}
	cc := func(s string) { h.Set("Cache-Control", s) }
	date := func(t time.Time) string { return t.UTC().Format(http.TimeFormat) }
	switch p.K {
	case pMaxAge:
		cc(fmt.Sprintf("max-age=%d", p.N))
	case pSMaxAge:
		cc(fmt.Sprintf("s-maxage=%d", p.N))
	case pPublicMaxAge:
		cc(fmt.Sprintf("public, max-age=%d", p.N))
	case pExpiresDate:
		h.Set("Date", date(now))
		h.Set("Expires", date(now.Add(time.Duration(p.N)*time.Second)))
	case pExpires:
		h.Set("Expires", date(now.Add(time.Duration(p.N)*time.Second)))
	case pNoStore:
		cc("no-store")
	case pPrivate:
		cc("private")
	case pPrivateMaxAge:
		cc(fmt.Sprintf("private, max-age=%d", p.N))
	case pNone:
	case pNoCache:
		cc("no-cache")
	case pExpiresInvalid:
		h.Set("Expires", "0")
	case pMalformed:
		cc("max-age=oops")
	case pBadDate:
		cc(fmt.Sprintf("max-age=%d", p.N))
		h.Set("Date", "garbage")
	case pNoStoreMaxAge:
		cc(fmt.Sprintf("no-store, max-age=%d", p.N))
	case pMustRevalidate:
		cc(fmt.Sprintf("must-revalidate, max-age=%d", p.N))
	case pNoCacheMaxAge:
		cc(fmt.Sprintf("no-cache, max-age=%d", p.N))
	case pRaw:
		for _, l := range p.rawLines() {
			h.Add("Cache-Control", l)
		}
	}
	return h
}

// specPermits: may a shared cache reuse a 200 response with these headers without
// contacting the origin, and for how long.  ambiguous = the RFC leaves it open, nothing is checked.
func (p Policy) specPermits() (ok bool, lifetime int64, ambiguous bool) {
	v := p.spec(false)
	if v.forbid || v.revalidate || v.nofresh {
		return false, 0, v.ambiguous
	}
	return true, v.life, v.ambiguous
}

func (p Policy) forbidsStore() bool { return p.spec(false).forbid }

// Op is one step of a history.
type Op struct {
	T    string  `json:"t"` // serve | down | load | tick
	U    string  `json:"u,omitempty"`
	Code int     `json:"code,omitempty"`
	JSON bool    `json:"json,omitempty"`
	V    int     `json:"v,omitempty"`
	P    *Policy `json:"p,omitempty"`
	Dt   int64   `json:"dt,omitempty"`
	Alt  string  `json:"alt,omitempty"` // serve: Link rel=alternate target (observation stream only)
	CT   string  `json:"ct,omitempty"`  // serve with Alt: Content-Type of the response (default text/html)
}

// jsonMediaType: is the media type of a Content-Type header, parameters stripped, application/json or
// application/*+json (then an alternate link is not followed).  Written from the JSON-LD spec text,
// not with mime.ParseMediaType.
func jsonMediaType(ct string) bool {
	if i := strings.IndexByte(ct, ';'); i >= 0 {
		ct = ct[:i]
	}
	ct = strings.ToLower(strings.TrimSpace(ct))
	if ct == "application/json" {
		return true
	}
	if !strings.HasPrefix(ct, "application/") || !strings.HasSuffix(ct, "+json") {
		return false
	}
	for _, c := range ct[len("application/") : len(ct)-len("+json")] {
		if !(c == '_' || c >= '0' && c <= '9' || c >= 'a' && c <= 'z') {
			return false
		}
	}
	return true
}

func (op Op) contentType() string {
	if op.CT == "" {
		return "text/html"
	}
	return op.CT
}

type Emb struct {
	U string `json:"u"`
	V int    `json:"v"`
}

// Cfg: Mode 0 default engine (no option), 1 WithCacheEngine(nil), 2 memory engine (+embedded),
// 3 third-party engine, 4 third-party engine whose Get fails, 5 whose Set fails.
type Cfg struct {
	Mode int    `json:"mode"`
	Emb  []Emb  `json:"emb,omitempty"`
	Cli  bool   `json:"cli"`
	GW   string `json:"gw"`
}

// EOp is one step of an engine-level case (Set/Get directly on the cache engine).
type EOp struct {
	T  string `json:"t"` // set | get | raw | tick
	K  string `json:"k,omitempty"`
	V  int    `json:"v,omitempty"`
	Dt int64  `json:"dt,omitempty"`
}

// Input is one case: a loader history, an engine-level script, or a history of the observation
// stream with rel=alternate Link headers (compared with the model, never judged by the oracles).
type Input struct {
	Kind string `json:"kind"` // history | engine | linkobs
	Cfg  Cfg    `json:"cfg"`
	Ops  []Op   `json:"ops,omitempty"`
	EOps []EOp  `json:"eops,omitempty"`
}

// ---------------------------------------------------------------- scripted origin

type answer struct {
	down bool
	code int
	json bool
	v    int
	pol  Policy
	alt  string
	ct   string
}

var notFound = answer{code: 404, json: false, pol: Policy{K: pNone}}

type request struct {
	node bool
	key  string
	at   int64 // virtual seconds
	ans  answer
}

type vclock struct{ offset time.Duration }

func (c *vclock) seconds() int64 { return int64(c.offset / time.Second) }

// requestBudget: the origin answers this many requests per load and refuses the next one, so that
// a cycle of alternate links cannot exhaust the stack of the real loader.  = run_fuel + 1 of Loader/Run.v.
const requestBudget = 8

type origin struct {
	clk       *vclock
	at        map[string]answer
	reqs      []request
	answered  int  // requests answered during the current load
	exhausted bool // the budget ran out during the current load
}

func (o *origin) overBudget() bool {
	if o.answered >= requestBudget {
		o.exhausted = true
		return true
	}
	o.answered++
	return false
}

func (o *origin) lookup(key string) answer {
	if a, ok := o.at[key]; ok {
		return a
	}
	return notFound
}

func bodyOf(a answer) string {
	if a.json {
		return fmt.Sprintf(`{"v":%d}`, a.v)
	}
	return "<html>this is not JSON"
}

// RoundTrip implements http.RoundTripper.
func (o *origin) RoundTrip(req *http.Request) (*http.Response, error) {
	if o.overBudget() {
		return nil, errors.New("scripted origin: request budget of this load exhausted")
	}
	key := req.URL.String()
	a := o.lookup(key)
	o.reqs = append(o.reqs, request{node: false, key: key, at: o.clk.seconds(), ans: a})
	if a.down {
		return nil, errors.New("scripted origin: connection refused")
	}
	body := bodyOf(a)
	h := a.pol.headers(time.Now())
	h.Set("Content-Type", "application/json")
	if a.alt != "" {
		h.Set("Content-Type", a.ct)
		h.Set("Link", fmt.Sprintf(`<%s>; rel="alternate"; type="application/ld+json"`, a.alt))
	}
	return &http.Response{
		Status: fmt.Sprintf("%d scripted", a.code), StatusCode: a.code,
		Proto: "HTTP/1.1", ProtoMajor: 1, ProtoMinor: 1,
		Header: h, Body: io.NopCloser(strings.NewReader(body)), ContentLength: int64(len(body)),
		Request: req,
	}, nil
}

// ipfsNode is the fake loaders.IPFSClient answering from the same origin under "ipfs://<path>".
type ipfsNode struct{ o *origin }

func (n ipfsNode) Cat(path string) (io.ReadCloser, error) {
	if n.o.overBudget() {
		return nil, errors.New("scripted ipfs node: request budget of this load exhausted")
	}
	key := "ipfs://" + path
	a := n.o.lookup(key)
	n.o.reqs = append(n.o.reqs, request{node: true, key: key, at: n.o.clk.seconds(), ans: a})
	if a.down {
		return nil, errors.New("scripted ipfs node: unreachable")
	}
	if a.code != 200 {
		return nil, fmt.Errorf("scripted ipfs node: status %d", a.code)
	}
	return io.NopCloser(strings.NewReader(bodyOf(a))), nil
}

// ---------------------------------------------------------------- virtual clock + engines

// vcEngine wraps a CacheEngine: entries it stored are kept in the virtual time frame
// (real + simulated offset at Set) and translated back at Get, so that the loader's
// expireTime.After(time.Now()) compares virtual expiry with virtual now.  Entries that are
// not its own (embedded documents, which Get returns with time.Now()+1h) pass unchanged.
type vcEngine struct {
	inner loaders.CacheEngine
	clk   *vclock
	mine  map[string]*ld.RemoteDocument
}

func (e *vcEngine) Get(key string) (*ld.RemoteDocument, time.Time, error) {
	doc, exp, err := e.inner.Get(key)
	if err != nil {
		return doc, exp, err
	}
	if doc != nil && e.mine[key] == doc && !exp.IsZero() {
		exp = exp.Add(-e.clk.offset)
	}
	return doc, exp, nil
}

func (e *vcEngine) Set(key string, doc *ld.RemoteDocument, exp time.Time) error {
	if !exp.IsZero() {
		exp = exp.Add(e.clk.offset)
	}
	e.mine[key] = doc
	return e.inner.Set(key, doc, exp)
}

// mapEngine is the "third-party" engine: a plain map, optionally failing.
type mapEngine struct {
	m              map[string]loaders.VerifCacheEntry
	getErr, setErr bool
}

func (e *mapEngine) Get(key string) (*ld.RemoteDocument, time.Time, error) {
	if e.getErr {
		return nil, time.Time{}, errors.New("third-party engine: get failed")
	}
	if c, ok := e.m[key]; ok {
		return c.Doc, c.ExpireTime, nil
	}
	return nil, time.Time{}, loaders.ErrCacheMiss
}

func (e *mapEngine) Set(key string, doc *ld.RemoteDocument, exp time.Time) error {
	if e.setErr {
		return errors.New("third-party engine: set failed")
	}
	e.m[key] = loaders.VerifCacheEntry{Doc: doc, ExpireTime: exp}
	return nil
}

// world = one loader under one configuration.
type world struct {
	cfg    Cfg
	clk    *vclock
	org    *origin
	loader ld.DocumentLoader
	engine loaders.CacheEngine // what Get is called on for the dump (nil: cache off)
	raw    func() (map[string]loaders.VerifCacheEntry, bool)
	r0     time.Time
}

func buildEngine(cfg Cfg, clk *vclock) (eng loaders.CacheEngine, raw func() (map[string]loaders.VerifCacheEntry, bool), err error) {
	switch cfg.Mode {
	case 2:
		var opts []loaders.MemoryCacheEngineOption
		for _, e := range cfg.Emb {
			opts = append(opts, loaders.WithEmbeddedDocumentBytes(e.U, []byte(fmt.Sprintf(`{"v":%d}`, e.V))))
		}
		inner, err := loaders.NewMemoryCacheEngine(opts...)
		if err != nil {
			return nil, nil, err
		}
		return &vcEngine{inner: inner, clk: clk, mine: map[string]*ld.RemoteDocument{}},
			func() (map[string]loaders.VerifCacheEntry, bool) { return loaders.VerifMemoryCacheEntries(inner) }, nil
	case 3, 4, 5:
		inner := &mapEngine{m: map[string]loaders.VerifCacheEntry{}, getErr: cfg.Mode == 4, setErr: cfg.Mode == 5}
		return &vcEngine{inner: inner, clk: clk, mine: map[string]*ld.RemoteDocument{}},
			func() (map[string]loaders.VerifCacheEntry, bool) { return inner.m, true }, nil
	}
	return nil, nil, nil
}

func newWorld(cfg Cfg) (*world, error) {
	w := &world{cfg: cfg, clk: &vclock{}, r0: time.Now()}
	w.org = &origin{clk: w.clk, at: map[string]answer{}}
	opts := []loaders.DocumentLoaderOption{loaders.WithHTTPClient(&http.Client{Transport: w.org})}
	switch cfg.Mode {
	case 0:
	case 1:
		opts = append(opts, loaders.WithCacheEngine(nil))
	default:
		eng, raw, err := buildEngine(cfg, w.clk)
		if err != nil {
			return nil, err
		}
		w.engine, w.raw = eng, raw
		opts = append(opts, loaders.WithCacheEngine(eng))
	}
	var cli loaders.IPFSClient
	if cfg.Cli {
		cli = ipfsNode{w.org}
	}
	w.loader = loaders.NewDocumentLoader(cli, cfg.GW, opts...)
	if cfg.Mode == 0 {
		eng, ok := loaders.VerifLoaderCacheEngine(w.loader)
		if !ok || eng == nil {
			return nil, errors.New("default loader has no cache engine")
		}
		w.engine = eng
		w.raw = func() (map[string]loaders.VerifCacheEntry, bool) { return loaders.VerifMemoryCacheEntries(eng) }
	}
	return w, nil
}

// ---------------------------------------------------------------- observations

type loadObs struct {
	ok        bool
	v         int
	panic     bool
	exhausted bool
	msg       string
	reqs      []request
}

type dumpObs struct {
	hit  bool
	err  bool
	v    int
	zero bool
	exp  int64 // virtual seconds, rounded to 100 s
}

func versionOf(doc *ld.RemoteDocument) (int, bool) {
	if doc == nil {
		return 0, false
	}
	m, ok := doc.Document.(map[string]interface{})
	if !ok {
		return 0, false
	}
	f, ok := m["v"].(float64)
	if !ok {
		return 0, false
	}
	return int(f), true
}

func round100(d time.Duration) int64 {
	return int64(math.Round(d.Seconds()/100)) * 100
}

func (w *world) load(u string) (o loadObs) {
	before := len(w.org.reqs)
	w.org.answered, w.org.exhausted = 0, false
	defer func() {
		if r := recover(); r != nil {
			o = loadObs{panic: true, msg: fmt.Sprint(r)}
		}
		o.reqs = append([]request(nil), w.org.reqs[before:]...)
		o.exhausted = w.org.exhausted
	}()
	doc, err := w.loader.LoadDocument(u)
	if err != nil {
		return loadObs{msg: err.Error()}
	}
	v, ok := versionOf(doc)
	if !ok {
		return loadObs{ok: true, v: -1, msg: "document without version"}
	}
	return loadObs{ok: true, v: v}
}

// dumpGet: engine.Get(key) at the end, expiry in virtual seconds.
func (w *world) dumpGet(key string) dumpObs {
	if w.engine == nil {
		return dumpObs{}
	}
	doc, exp, err := w.engine.Get(key)
	if errors.Is(err, loaders.ErrCacheMiss) {
		return dumpObs{}
	}
	if err != nil {
		return dumpObs{err: true}
	}
	v, _ := versionOf(doc)
	if exp.IsZero() {
		return dumpObs{hit: true, v: v, zero: true}
	}
	return dumpObs{hit: true, v: v, exp: round100(exp.Sub(w.r0) + w.clk.offset)}
}

// dumpRaw: the raw map; stored expiries are already in the virtual frame.
func (w *world) dumpRaw(keys []string) ([]dumpObs, bool) {
	if w.raw == nil {
		return nil, false
	}
	m, ok := w.raw()
	if !ok {
		return nil, false
	}
	out := make([]dumpObs, len(keys))
	for i, k := range keys {
		c, ok := m[k]
		if !ok {
			continue
		}
		v, _ := versionOf(c.Doc)
		if c.ExpireTime.IsZero() {
			out[i] = dumpObs{hit: true, v: v, zero: true}
		} else {
			out[i] = dumpObs{hit: true, v: v, exp: round100(c.ExpireTime.Sub(w.r0))}
		}
	}
	return out, true
}

// ---------------------------------------------------------------- routing expectation (decision table)

type routeExp struct {
	reject bool
	node   bool
	key    string
}

func expectedRoute(cfg Cfg, u string) routeExp {
	switch {
	case strings.HasPrefix(u, "http://"), strings.HasPrefix(u, "https://"):
		return routeExp{key: u}
	case strings.HasPrefix(u, "ipfs://"):
		rest := u[len("ipfs://"):]
		if cfg.Cli {
			return routeExp{node: true, key: u}
		}
		if cfg.GW != "" {
			gw := cfg.GW
			for strings.HasSuffix(gw, "/") {
				gw = gw[:len(gw)-1]
			}
			for strings.HasPrefix(rest, "/") {
				rest = rest[1:]
			}
			return routeExp{key: gw + "/ipfs/" + rest}
		}
	}
	return routeExp{reject: true}
}

func (c Cfg) embedded(key string) (int, bool) {
	if c.Mode != 2 {
		return 0, false
	}
	// the last option wins (a Go map assignment)
	v, ok := 0, false
	for _, e := range c.Emb {
		if e.U == key {
			v, ok = e.V, true
		}
	}
	return v, ok
}

// ---------------------------------------------------------------- one history

type result struct {
	in     Input
	loads  []loadObs
	keys   []string
	dump   []dumpObs
	raw    []dumpObs
	hasRaw bool
}

type gen struct {
	cfg   *common.Config
	rep   *common.Report
	cases []*result
	ecs   []*eresult
	pols  map[Policy]bool
	urls  map[string]bool
}

func (g *gen) fail(class, what string, in Input) {
	g.rep.Fail(class, what, in)
}

func (g *gen) runHistory(in Input) (*result, error) {
	w, err := newWorld(in.Cfg)
	if err != nil {
		return nil, err
	}
	res := &result{in: in}
	keyset := map[string]bool{}
	var recv []request // every response the loader received so far
	for i, op := range in.Ops {
		switch op.T {
		case "serve":
			p := Policy{K: pNone}
			if op.P != nil {
				p = op.P.canon()
			}
			g.pols[p] = true
			w.org.at[op.U] = answer{code: op.Code, json: op.JSON, v: op.V, pol: p, alt: op.Alt, ct: op.contentType()}
			keyset[op.U] = true
			if op.Alt != "" {
				keyset[op.Alt] = true
				if rt := expectedRoute(in.Cfg, op.Alt); !rt.reject {
					keyset[rt.key] = true
				}
			}
		case "down":
			w.org.at[op.U] = answer{down: true}
			keyset[op.U] = true
		case "tick":
			w.clk.offset += time.Duration(op.Dt) * time.Second
		case "load":
			keyset[op.U] = true
			rt := expectedRoute(in.Cfg, op.U)
			if !rt.reject {
				keyset[rt.key] = true
				if !rt.node {
					g.urls[rt.key] = true
				}
			}
			o := w.load(op.U)
			res.loads = append(res.loads, o)
			if in.Kind == "linkobs" {
				g.observeLinkLoad(in, rt, o)
			} else {
				g.checkLoad(in, i, op.U, rt, o, recv, w)
			}
			recv = append(recv, o.reqs...)
		default:
			return nil, fmt.Errorf("unknown op %q", op.T)
		}
	}
	for k := range keyset {
		res.keys = append(res.keys, k)
	}
	sort.Strings(res.keys)
	for _, k := range res.keys {
		res.dump = append(res.dump, w.dumpGet(k))
	}
	res.raw, res.hasRaw = w.dumpRaw(res.keys)
	if in.Kind != "linkobs" {
		g.checkFinal(in, res, recv, w)
	}
	return res, nil
}

// observeLinkLoad: histories with rel=alternate links are outside the property's quantifier; what
// happens there is only counted (observations O-L1, O-L2 of the report), never reported as a failure.
func (g *gen) observeLinkLoad(in Input, rt routeExp, o loadObs) {
	switch {
	case o.panic:
		g.rep.Count("linkobs-panic")
	case o.exhausted:
		g.rep.Count("linkobs-O-L1-load-exhausted-the-request-budget")
	case len(o.reqs) > 1:
		g.rep.Count("linkobs-load-followed-alternate-links")
	}
	if !o.ok || len(o.reqs) != 0 || rt.reject {
		return
	}
	if _, isEmb := in.Cfg.embedded(rt.key); isEmb {
		return
	}
	// returned without any request: what did the response that carried this version say?
	for _, op := range in.Ops {
		if op.T == "serve" && op.JSON && op.V == o.v && op.U != rt.key && op.P != nil {
			if ok, _, _ := op.P.canon().specPermits(); !ok {
				g.rep.Count("linkobs-O-L2-alternate-document-reused-against-its-own-headers")
			}
			return
		}
	}
}

// checkLoad: the property evaluated on what was observed, independent of the Coq model.
func (g *gen) checkLoad(in Input, idx int, u string, rt routeExp, o loadObs, recv []request, w *world) {
	where := fmt.Sprintf("op %d load %q", idx, u)
	if o.panic {
		g.fail("c19-panic", where+": LoadDocument panicked: "+o.msg, in)
		return
	}
	// routing
	switch {
	case rt.reject:
		if o.ok || len(o.reqs) != 0 {
			g.fail("c19-route-unsupported-not-rejected", fmt.Sprintf("%s: unsupported scheme or unconfigured ipfs: ok=%v requests=%d", where, o.ok, len(o.reqs)), in)
			return
		}
	default:
		if len(o.reqs) > 1 {
			g.fail("c19-route-many-requests", fmt.Sprintf("%s: %d requests", where, len(o.reqs)), in)
			return
		}
		for _, r := range o.reqs {
			if r.node != rt.node || r.key != rt.key {
				cls := "c19-route-wrong-key"
				if r.node != rt.node {
					cls = "c19-route-wrong-client"
				}
				g.fail(cls, fmt.Sprintf("%s: request went to node=%v key=%q, expected node=%v key=%q", where, r.node, r.key, rt.node, rt.key), in)
				return
			}
		}
		if rt.node && len(o.reqs) != 1 {
			g.fail("c19-route-wrong-client", fmt.Sprintf("%s: the IPFS client was not asked", where), in)
			return
		}
	}
	if rt.reject {
		return
	}
	// embedded documents
	if ev, isEmb := in.Cfg.embedded(rt.key); isEmb && !rt.node {
		switch {
		case len(o.reqs) != 0:
			g.fail("c19-embedded-requested", where+": a request was issued for an embedded document", in)
		case !o.ok:
			g.fail("c19-embedded-not-served", where+": embedded document not returned: "+o.msg, in)
		case o.v != ev:
			g.fail("c19-embedded-overwritten", fmt.Sprintf("%s: embedded version %d, returned %d", where, ev, o.v), in)
		}
		return
	}
	if !o.ok {
		return // an error is always allowed by the property
	}
	now := w.clk.seconds()
	if len(o.reqs) == 1 {
		a := o.reqs[0].ans
		switch {
		case a.down || a.code != 200 || !a.json:
			g.fail("c19-failure-returned", fmt.Sprintf("%s: returned version %d although the response was a failure (down=%v code=%d json=%v)", where, o.v, a.down, a.code, a.json), in)
		case a.v != o.v:
			g.fail("c19-wrong-doc", fmt.Sprintf("%s: origin sent version %d, loader returned %d", where, a.v, o.v), in)
		}
		return
	}
	// no request: must be justified by an earlier response at the same key
	var seen, good, failureOnly, nocache, forbidden, expired, laterLine bool
	for _, r := range recv {
		if r.key != rt.key || r.node != rt.node || r.ans.down || !r.ans.json || r.ans.v != o.v {
			continue
		}
		seen = true
		if r.ans.code != 200 {
			failureOnly = true
			continue
		}
		ok, life, amb := r.ans.pol.specPermits()
		switch {
		case amb:
			good = true
		case !ok && r.ans.pol.laterLineMatters():
			laterLine = true
		case !ok && r.ans.pol.K == pNoCacheMaxAge:
			nocache = true
		case !ok:
			forbidden = true
		case now < r.at+life:
			good = true
		default:
			expired = true
		}
	}
	switch {
	case good:
	case rt.node:
		g.fail("c19-unknown-doc", fmt.Sprintf("%s: version %d returned without asking the IPFS client", where, o.v), in)
	case !seen:
		g.fail("c19-unknown-doc", fmt.Sprintf("%s: version %d returned without a request, never received at %q", where, o.v, rt.key), in)
	case expired:
		g.fail("c19-stale-served", fmt.Sprintf("%s: version %d returned from the cache at t=%d after its lifetime ended", where, o.v, now), in)
	case forbidden:
		g.fail("c19-forbidden-reused", fmt.Sprintf("%s: version %d reused although its response forbade / did not permit caching", where, o.v), in)
	case laterLine:
		g.fail("c19-later-cache-control-line-ignored", fmt.Sprintf("%s: version %d reused although a second Cache-Control header line of its response forbade it", where, o.v), in)
	case nocache:
		g.fail("c19-nocache-maxage-reused", fmt.Sprintf("%s: version %d served with 'Cache-Control: no-cache, max-age=n' reused without revalidation", where, o.v), in)
	case failureOnly:
		g.fail("c19-failure-returned", fmt.Sprintf("%s: version %d was only ever received in a non-200 response", where, o.v), in)
	}
}

// checkFinal: what sits in the cache at the end.
func (g *gen) checkFinal(in Input, res *result, recv []request, w *world) {
	check := func(k string, d dumpObs, viaRaw bool) {
		if !d.hit {
			return
		}
		if ev, isEmb := in.Cfg.embedded(k); isEmb {
			if viaRaw {
				g.fail("c19-embedded-in-cache", fmt.Sprintf("embedded URL %q has an entry in the cache map (version %d)", k, d.v), in)
			} else if d.v != ev {
				g.fail("c19-embedded-overwritten", fmt.Sprintf("Get(%q) returns version %d, embedded is %d", k, d.v, ev), in)
			}
			return
		}
		var just, failure, forbidden, late, nocache, laterLine bool
		for _, r := range recv {
			if r.key != k || r.node || r.ans.down || !r.ans.json || r.ans.v != d.v {
				continue
			}
			if r.ans.code != 200 {
				failure = true
				continue
			}
			if r.ans.pol.forbidsStore() {
				if r.ans.pol.laterLineMatters() {
					laterLine = true
				} else {
					forbidden = true
				}
				continue
			}
			ok, life, amb := r.ans.pol.specPermits()
			if !ok {
				life = 0
			}
			switch {
			case amb || d.zero || d.exp <= r.at+life:
				just = true
			case r.ans.pol.laterLineMatters():
				laterLine = true
			case r.ans.pol.K == pNoCacheMaxAge:
				nocache = true
			case r.ans.pol.spec(false).revalidate:
				forbidden = true // no-cache in another spelling, stored as fresh
			default:
				late = true
			}
		}
		switch {
		case just:
		case laterLine:
			g.fail("c19-later-cache-control-line-ignored", fmt.Sprintf("cache entry %q version %d is stored as fresh until %d although a second Cache-Control header line of its response forbade it", k, d.v, d.exp), in)
		case nocache:
			g.fail("c19-nocache-maxage-reused", fmt.Sprintf("cache entry %q version %d, received with 'Cache-Control: no-cache, max-age=n', is stored as fresh until %d", k, d.v, d.exp), in)
		case late:
			g.fail("c19-expiry-too-late", fmt.Sprintf("cache entry %q version %d expires at %d, later than its response allows", k, d.v, d.exp), in)
		case forbidden:
			g.fail("c19-forbidden-stored", fmt.Sprintf("cache entry %q version %d comes from a response that forbids storing", k, d.v), in)
		case failure:
			g.fail("c19-failure-cached", fmt.Sprintf("cache entry %q version %d comes from a non-200 response", k, d.v), in)
		default:
			g.fail("c19-cache-entry-unjustified", fmt.Sprintf("cache entry %q version %d was never received from the origin", k, d.v), in)
		}
	}
	for i, k := range res.keys {
		check(k, res.dump[i], false)
		if res.hasRaw {
			check(k, res.raw[i], true)
		}
	}
}

// ---------------------------------------------------------------- engine-level cases

type eresult struct {
	in   Input
	gets []dumpObs // one per get/raw op, in order
}

func (g *gen) runEngine(in Input) (*eresult, error) {
	clk := &vclock{}
	r0 := time.Now()
	cfg := in.Cfg
	var eng loaders.CacheEngine
	var raw func() (map[string]loaders.VerifCacheEntry, bool)
	if cfg.Mode == 0 {
		inner, err := loaders.NewMemoryCacheEngine()
		if err != nil {
			return nil, err
		}
		eng = &vcEngine{inner: inner, clk: clk, mine: map[string]*ld.RemoteDocument{}}
		raw = func() (map[string]loaders.VerifCacheEntry, bool) { return loaders.VerifMemoryCacheEntries(inner) }
	} else {
		var err error
		eng, raw, err = buildEngine(cfg, clk)
		if err != nil {
			return nil, err
		}
	}
	w := &world{cfg: cfg, clk: clk, engine: eng, raw: raw, r0: r0}
	res := &eresult{in: in}
	last := map[string]int{}
	for i, op := range in.EOps {
		switch op.T {
		case "set":
			doc := &ld.RemoteDocument{DocumentURL: op.K, Document: map[string]interface{}{"v": float64(op.V)}}
			if err := eng.Set(op.K, doc, time.Now().Add(time.Duration(op.Dt)*time.Second)); err != nil {
				return nil, err
			}
			last[op.K] = op.V
		case "tick":
			clk.offset += time.Duration(op.Dt) * time.Second
		case "get":
			d := w.dumpGet(op.K)
			res.gets = append(res.gets, d)
			ev, isEmb := cfg.embedded(op.K)
			lv, wasSet := last[op.K]
			switch {
			case isEmb && (!d.hit || d.v != ev):
				g.fail("c19-embedded-overwritten", fmt.Sprintf("engine op %d: Get(%q) = hit=%v v=%d, embedded version is %d", i, op.K, d.hit, d.v, ev), in)
			case !isEmb && wasSet && (!d.hit || d.v != lv):
				g.fail("c19-engine-lost-entry", fmt.Sprintf("engine op %d: Get(%q) = hit=%v v=%d after Set of version %d", i, op.K, d.hit, d.v, lv), in)
			case !isEmb && !wasSet && d.hit:
				g.fail("c19-cache-entry-unjustified", fmt.Sprintf("engine op %d: Get(%q) hits, nothing was set", i, op.K), in)
			}
		case "raw":
			ds, ok := w.dumpRaw([]string{op.K})
			if !ok {
				return nil, errors.New("raw map not readable")
			}
			res.gets = append(res.gets, ds[0])
			if _, isEmb := cfg.embedded(op.K); isEmb && ds[0].hit {
				g.fail("c19-embedded-in-cache", fmt.Sprintf("engine op %d: embedded URL %q has an entry in the cache map", i, op.K), in)
			}
		}
	}
	return res, nil
}

// ---------------------------------------------------------------- recorded primitives

type ccRow struct {
	p       Policy
	store   bool
	has     bool
	life    int64
	nocache bool
	spec    verdict // the RFC's verdict on the header set (all Cache-Control lines)
}

// ccTable calls the real cachecontrol function the loader calls, once per header set used.
func (g *gen) ccTable() []ccRow {
	var ps []Policy
	for p := range g.pols {
		ps = append(ps, p)
	}
	sort.Slice(ps, func(i, j int) bool {
		if ps[i].K != ps[j].K {
			return ps[i].K < ps[j].K
		}
		return ps[i].N < ps[j].N
	})
	var rows []ccRow
	for _, p := range ps {
		req, _ := http.NewRequest("GET", "http://oracle.test/", http.NoBody)
		req.Header.Add("Accept", "application/ld+json, application/json;q=0.9")
		t := time.Now()
		res := &http.Response{StatusCode: 200, Header: p.headers(t), Request: req}
		// the loader hands the library ONE Cache-Control line: all lines of the response, comma joined
		// (fix f797550); the primitives are recorded on exactly that text
		if cc := res.Header.Values("Cache-Control"); len(cc) > 1 {
			res.Header.Set("Cache-Control", strings.Join(cc, ", "))
		}
		reasons, exp, err := cachecontrol.CachableResponse(req, res, cachecontrol.Options{})
		row := ccRow{p: p, store: err == nil && len(reasons) == 0, spec: p.spec(false)}
		if err == nil && !exp.IsZero() {
			row.has, row.life = true, round100(exp.Sub(t))
		}
		// the second primitive the loader calls (requiresRevalidation)
		dir, perr := cacheobject.ParseResponseCacheControl(res.Header.Get("Cache-Control"))
		row.nocache = perr == nil && dir != nil && dir.NoCachePresent
		rows = append(rows, row)
	}
	return rows
}

// the dependency itself must honour no-store / private and give no lifetime without freshness
// information (the assumption of theorem C19_no_reuse_headers)
func (g *gen) checkTable(rows []ccRow) {
	for _, r := range rows {
		if r.spec.ambiguous {
			continue
		}
		if r.spec.forbid && r.store {
			g.rep.Fail("c19-cachecontrol-stores-forbidden", "cachecontrol accepts "+r.p.name(), map[string]any{"policy": r.p})
		}
		if r.spec.revalidate && !r.nocache {
			g.rep.Fail("c19-cachecontrol-misses-no-cache", "cacheobject does not report no-cache for "+r.p.name(), map[string]any{"policy": r.p})
		}
		if r.spec.nofresh && r.has && r.p.K != pExpiresDate && r.p.K != pExpires {
			g.rep.Fail("c19-cachecontrol-invents-lifetime", "cachecontrol gives a lifetime for "+r.p.name(), map[string]any{"policy": r.p})
		}
	}
}

// ---------------------------------------------------------------- Coq output

func sint(v int64) string {
	if v < 0 {
		return fmt.Sprintf("true %d", -v)
	}
	return fmt.Sprintf("false %d", v)
}

func coqDump(d dumpObs) string {
	switch {
	case d.err:
		return "DErr"
	case !d.hit:
		return "DMiss"
	case d.zero:
		return fmt.Sprintf("(DHit %d true false 0)", d.v)
	default:
		return fmt.Sprintf("(DHit %d false %s)", d.v, sint(d.exp))
	}
}

func coqCfg(f *coqgen.File, c Cfg, urltab []string) string {
	var emb []string
	// later options overwrite earlier ones in the Go map; the model's assoc takes the first match
	seen := map[string]bool{}
	for i := len(c.Emb) - 1; i >= 0; i-- {
		e := c.Emb[i]
		if seen[e.U] {
			continue
		}
		seen[e.U] = true
		emb = append(emb, fmt.Sprintf("(%s,%d)", f.Str(e.U), e.V))
	}
	return fmt.Sprintf("(RCfg %d [%s] %s %s [%s])", c.Mode, strings.Join(emb, ";"), coqgen.Bool(c.Cli), f.Str(c.GW),
		strings.Join(urltab, ";"))
}

func coqReqs(f *coqgen.File, rs []request) string {
	var parts []string
	for i := len(rs) - 1; i >= 0; i-- { // newest first, like the model's log
		parts = append(parts, fmt.Sprintf("(%s,%s)", coqgen.Bool(rs[i].node), f.Str(rs[i].key)))
	}
	return "[" + strings.Join(parts, ";") + "]"
}

func (g *gen) coqHistory(f *coqgen.File, id int, r *result) string {
	// recorded primitive: http.NewRequest on every key a Load can hand to it
	var urltab []string
	seen := map[string]bool{}
	for _, op := range r.in.Ops {
		target := op.U
		if op.T == "serve" && op.Alt != "" {
			target = op.Alt
		} else if op.T != "load" {
			continue
		}
		rt := expectedRoute(r.in.Cfg, target)
		if rt.reject || rt.node || seen[rt.key] {
			continue
		}
		seen[rt.key] = true
		_, err := http.NewRequest("GET", rt.key, http.NoBody)
		urltab = append(urltab, fmt.Sprintf("(%s,%s)", f.Str(rt.key), coqgen.Bool(err == nil)))
	}
	var ops, obs, keys, dmp, raw []string
	li := 0
	for _, op := range r.in.Ops {
		switch op.T {
		case "serve":
			p := Policy{K: pNone}
			if op.P != nil {
				p = op.P.canon()
			}
			if op.Alt != "" {
				ops = append(ops, fmt.Sprintf("RServeAlt %s %d %s %d %d %s %s %s", f.Str(op.U), op.Code, coqgen.Bool(op.JSON), op.V, p.K, sint(p.N), f.Str(op.Alt), coqgen.Bool(jsonMediaType(op.contentType()))))
			} else if p.K == pRaw {
				ops = append(ops, fmt.Sprintf("RServeRaw %s %d %s %d %s", f.Str(op.U), op.Code, coqgen.Bool(op.JSON), op.V, p.coqLines()))
			} else {
				ops = append(ops, fmt.Sprintf("RServe %s %d %s %d %d %s", f.Str(op.U), op.Code, coqgen.Bool(op.JSON), op.V, p.K, sint(p.N)))
			}
		case "down":
			ops = append(ops, "RDown "+f.Str(op.U))
		case "tick":
			ops = append(ops, fmt.Sprintf("RTick %d", op.Dt))
		case "load":
			ops = append(ops, "RLoad "+f.Str(op.U))
			o := r.loads[li]
			li++
			switch {
			case o.panic:
				obs = append(obs, "ObPanic")
			case o.exhausted:
				obs = append(obs, "ObExhausted "+coqReqs(f, o.reqs))
			case o.ok:
				v := o.v
				if v < 0 {
					v = 4000000 // a document without version never agrees
				}
				obs = append(obs, fmt.Sprintf("ObDoc %d %s", v, coqReqs(f, o.reqs)))
			default:
				obs = append(obs, "ObErr "+coqReqs(f, o.reqs))
			}
		}
	}
	for i, k := range r.keys {
		keys = append(keys, f.Str(k))
		dmp = append(dmp, coqDump(r.dump[i]))
		if r.hasRaw {
			raw = append(raw, coqDump(r.raw[i]))
		}
	}
	return fmt.Sprintf("mkh %d %s\n   [%s]\n   [%s]\n   [%s] [%s] [%s]", id, coqCfg(f, r.in.Cfg, urltab),
		strings.Join(ops, ";"), strings.Join(obs, ";"), strings.Join(keys, ";"), strings.Join(dmp, ";"), strings.Join(raw, ";"))
}

func (g *gen) coqEngine(f *coqgen.File, id int, r *eresult) string {
	var ops []string
	gi := 0
	for _, op := range r.in.EOps {
		switch op.T {
		case "set":
			ops = append(ops, fmt.Sprintf("ESet %s %d %s", f.Str(op.K), op.V, sint(op.Dt)))
		case "tick":
			ops = append(ops, fmt.Sprintf("ETick %d", op.Dt))
		case "get":
			ops = append(ops, fmt.Sprintf("EGet %s %s", f.Str(op.K), coqDump(r.gets[gi])))
			gi++
		case "raw":
			ops = append(ops, fmt.Sprintf("ERaw %s %s", f.Str(op.K), coqDump(r.gets[gi])))
			gi++
		}
	}
	return fmt.Sprintf("mke %d %s [%s]", id, coqCfg(f, r.in.Cfg, nil), strings.Join(ops, ";"))
}

const shardSize = 400

func (g *gen) writeShards(rows []ccRow) error {
	type item struct {
		h *result
		e *eresult
	}
	var items []item
	for _, h := range g.cases {
		items = append(items, item{h: h})
	}
	for _, e := range g.ecs {
		items = append(items, item{e: e})
	}
	n := len(items)
	for s := 0; s*shardSize < n; s++ {
		lo, hi := s*shardSize, (s+1)*shardSize
		if hi > n {
			hi = n
		}
		f := coqgen.NewFile("From GSP Require Import Loader.Model Loader.Run.")
		name := filepath.Join(g.cfg.OutDir, fmt.Sprintf("cases_C19_%03d.v", s))
		var tab, hs, es []string
		for _, r := range rows {
			amb := r.spec.ambiguous
			key := fmt.Sprintf("CCE %d %s", r.p.K, sint(r.p.N))
			if r.p.K == pRaw {
				// the row of the ONE line the library sees: the comma-joined text of the set's lines
				key = "CCT " + r.p.coqText()
			}
			tab = append(tab, fmt.Sprintf("%s %s %s %s %s %s %s %s", key, coqgen.Bool(r.store), coqgen.Bool(r.has), sint(r.life), coqgen.Bool(r.nocache),
				coqgen.Bool(r.spec.forbid && !amb), coqgen.Bool(r.spec.revalidate && !amb), coqgen.Bool(r.spec.nofresh && !amb)))
		}
		for i := lo; i < hi; i++ {
			if items[i].h != nil {
				hs = append(hs, g.coqHistory(f, i, items[i].h))
				g.rep.Case(name, i, items[i].h.in)
			} else {
				es = append(es, g.coqEngine(f, i, items[i].e))
				g.rep.Case(name, i, items[i].e.in)
			}
		}
		f.Add("Definition cctab_ : list ccentry := " + coqgen.List(tab) + ".")
		f.Add("Definition hcases_ : list hcase := " + coqgen.List(hs) + ".")
		f.Add("Definition ecases_ : list ecase := " + coqgen.List(es) + ".")
		f.Add("Definition M := Eval vm_compute in mismatches cctab_ hcases_ ecases_.")
		f.Add("Print M.")
		if err := f.Write(name); err != nil {
			return err
		}
		g.rep.Shards = append(g.rep.Shards, name)
	}
	return nil
}

// ---------------------------------------------------------------- generators

var (
	httpPool    = []string{"http://a.test/d1", "https://b.test/ctx/v1.json", "http://c.test/x?y=1", "https://a.test/d1", "http://a.test/d2"}
	ipfsPool    = []string{"ipfs://QmA/schema.json", "ipfs:///QmB", "ipfs://QmC", "ipfs://"}
	otherPool   = []string{"ftp://a.test/d1", "file:///etc/hosts", "bogus", "", "HTTP://a.test/d1", "httpx://a.test/d1", "ipfs:/QmA", "//a.test/d1", " http://a.test/d1"}
	invalidPool = []string{"http://a.test/%zz", "http://a.test/\x7f"}
	fragEmbPool = []string{"https://schema.example/vocab#", "https://schema.example/kyc.jsonld#v2", "http://a.test/d1#v2", "https://schema.example/vocab#Person"}
	gwPool      = []string{"http://gw.test", "https://gw.test/", "http://gw.test//", "http://gw.test/sub"}
	codePool    = []int{404, 500, 201, 204, 304, 403, 410}
	lifePool    = []int64{1000, 2000, 3000, 5000}
	tickPool    = []int64{1000, 1000, 2000, 3000, 4000}
)

func (g *gen) pick(pool []string) string { return pool[g.cfg.Rng.Intn(len(pool))] }

func (g *gen) genPolicy() *Policy {
	r := g.cfg.Rng
	kinds := []int{pMaxAge, pMaxAge, pMaxAge, pSMaxAge, pPublicMaxAge, pExpiresDate, pExpiresDate, pExpires, pNoStore, pNoStore,
		pPrivate, pPrivateMaxAge, pNone, pNone, pNoCache, pExpiresInvalid, pMalformed, pBadDate, pNoStoreMaxAge, pMustRevalidate, pNoCacheMaxAge, pNoCacheMaxAge}
	p := Policy{K: kinds[r.Intn(len(kinds))]}
	if r.Intn(100) < 22 {
		// the same directives in another spelling / on several header lines
		return &Policy{K: pRaw, N: int64(r.Intn(len(rawSets)))}
	}
	if p.hasN() {
		p.N = lifePool[r.Intn(len(lifePool))]
		if r.Intn(10) == 0 {
			p.N = 0
		}
		if (p.K == pExpiresDate || p.K == pExpires) && r.Intn(6) == 0 {
			p.N = -1000
		}
	}
	return &p
}

func (g *gen) genHistory() Input {
	r := g.cfg.Rng
	cfg := Cfg{}
	switch x := r.Intn(100); {
	case x < 15:
		cfg.Mode = 0
	case x < 25:
		cfg.Mode = 1
	case x < 70:
		cfg.Mode = 2
	case x < 85:
		cfg.Mode = 3
	case x < 90:
		cfg.Mode = 4
	default:
		cfg.Mode = 5
	}
	ipfs := r.Intn(4) // client / gateway / both / none
	cfg.Cli = ipfs == 0 || ipfs == 2
	if ipfs == 1 || ipfs == 2 {
		cfg.GW = g.pick(gwPool)
	}
	// URLs of this history: 3-4
	var urls []string
	add := func(u string) {
		for _, x := range urls {
			if x == u {
				return
			}
		}
		urls = append(urls, u)
	}
	add(g.pick(httpPool))
	if r.Intn(2) == 0 {
		add(g.pick(httpPool))
	}
	if r.Intn(10) < 6 {
		add(g.pick(ipfsPool))
	}
	if r.Intn(10) < 4 {
		add(g.pick(otherPool))
	}
	if r.Intn(10) == 0 {
		add(g.pick(invalidPool))
	}
	for len(urls) < 3 {
		add(g.pick(httpPool))
	}
	if len(urls) > 4 {
		urls = urls[:4]
	}
	// URLs with a fragment.  A pair that differs only in the fragment (each has its own cache entry
	// and its own scripted body), and - memory engine only - documents EMBEDDED under a URL with a
	// fragment ("#" alone included: such a URL is only ever used embedded, because net/http drops an
	// empty fragment from the request URL, which the model does not describe).
	var fragEmb []string
	if r.Intn(100) < 18 {
		add("http://a.test/d1#v1")
		add("http://a.test/d1#v2")
	}
	if cfg.Mode == 2 && r.Intn(100) < 25 {
		fragEmb = append(fragEmb, fragEmbPool[r.Intn(len(fragEmbPool))])
		if r.Intn(2) == 0 {
			fragEmb = append(fragEmb, fragEmbPool[r.Intn(len(fragEmbPool))])
		}
		for _, u := range fragEmb {
			add(u)
		}
	}
	// keys the origin can be scripted at
	var keys []string
	for _, u := range urls {
		rt := expectedRoute(cfg, u)
		if rt.reject {
			keys = append(keys, u) // serving there must not matter
			continue
		}
		keys = append(keys, rt.key)
		if strings.HasPrefix(u, "ipfs://") && r.Intn(3) == 0 {
			// also script the channel that must NOT be used
			alt := cfg
			alt.Cli = !cfg.Cli
			if alt.GW == "" {
				alt.GW = "http://gw.test"
			}
			keys = append(keys, expectedRoute(alt, u).key)
		}
	}
	if cfg.Mode == 2 {
		n := 0
		for _, k := range keys {
			if r.Intn(3) == 0 {
				cfg.Emb = append(cfg.Emb, Emb{U: k, V: 900 + n})
				n++
			}
		}
		if r.Intn(8) == 0 && len(cfg.Emb) > 0 { // the same URL embedded twice: the last one wins
			cfg.Emb = append(cfg.Emb, Emb{U: cfg.Emb[0].U, V: 950})
		}
		for _, u := range fragEmb {
			if _, ok := cfg.embedded(u); !ok {
				cfg.Emb = append(cfg.Emb, Emb{U: u, V: 960 + len(cfg.Emb)})
			}
		}
	}
	length := 1 + r.Intn(40)
	in := Input{Kind: "history", Cfg: cfg}
	version := 0
	// loads prefer the URLs that can reach an origin (weights 3 : 1)
	var weighted []string
	for _, u := range urls {
		weighted = append(weighted, u)
		if !expectedRoute(cfg, u).reject {
			weighted = append(weighted, u, u)
		}
	}
	urls = weighted
	// most histories start with something being served
	for _, k := range keys {
		if len(in.Ops) < length-1 && r.Intn(10) < 6 {
			version++
			in.Ops = append(in.Ops, Op{T: "serve", U: k, Code: 200, JSON: true, V: version, P: g.genPolicy()})
		}
	}
	for i := len(in.Ops); i < length; i++ {
		switch x := r.Intn(100); {
		case x < 45:
			in.Ops = append(in.Ops, Op{T: "load", U: urls[r.Intn(len(urls))]})
		case x < 75:
			version++
			op := Op{T: "serve", U: keys[r.Intn(len(keys))], Code: 200, JSON: true, V: version, P: g.genPolicy()}
			if r.Intn(100) < 15 {
				op.Code = codePool[r.Intn(len(codePool))]
			}
			if r.Intn(100) < 8 {
				op.JSON = false
			}
			in.Ops = append(in.Ops, op)
		case x < 80:
			in.Ops = append(in.Ops, Op{T: "down", U: keys[r.Intn(len(keys))]})
		default:
			if cfg.Mode == 0 {
				// the default engine lives inside the loader: no virtual clock can be injected
				in.Ops = append(in.Ops, Op{T: "load", U: urls[r.Intn(len(urls))]})
				continue
			}
			dt := tickPool[r.Intn(len(tickPool))]
			if r.Intn(10) == 0 {
				dt = 0
			}
			in.Ops = append(in.Ops, Op{T: "tick", Dt: dt})
		}
	}
	return in
}

func (g *gen) genEngine() Input {
	r := g.cfg.Rng
	cfg := Cfg{Mode: 2}
	if r.Intn(5) == 0 {
		cfg.Mode = 0
	}
	keys := []string{"http://a.test/d1", "https://b.test/ctx/v1.json", "ipfs://QmA/schema.json", "k",
		"https://schema.example/vocab#", "http://a.test/d1#v2"}
	if cfg.Mode == 2 {
		for i, k := range keys {
			if r.Intn(2) == 0 {
				cfg.Emb = append(cfg.Emb, Emb{U: k, V: 900 + i})
			}
		}
	}
	in := Input{Kind: "engine", Cfg: cfg}
	n := 1 + r.Intn(20)
	for i := 0; i < n; i++ {
		k := keys[r.Intn(len(keys))]
		switch r.Intn(5) {
		case 0, 1:
			dts := []int64{1000, 2000, -1000, 0, 3000}
			in.EOps = append(in.EOps, EOp{T: "set", K: k, V: i + 1, Dt: dts[r.Intn(len(dts))]})
		case 2:
			in.EOps = append(in.EOps, EOp{T: "get", K: k})
		case 3:
			in.EOps = append(in.EOps, EOp{T: "raw", K: k})
		default:
			in.EOps = append(in.EOps, EOp{T: "tick", Dt: tickPool[r.Intn(len(tickPool))]})
		}
	}
	for _, k := range keys {
		in.EOps = append(in.EOps, EOp{T: "get", K: k}, EOp{T: "raw", K: k})
	}
	return in
}

// fixed histories that walk through every clause of the property once
func scripted() []Input {
	a := "http://a.test/d1"
	pol := func(k int, n int64) *Policy { return &Policy{K: k, N: n} }
	serve := func(u string, v int, p *Policy) Op { return Op{T: "serve", U: u, Code: 200, JSON: true, V: v, P: p} }
	load := func(u string) Op { return Op{T: "load", U: u} }
	tick := func(dt int64) Op { return Op{T: "tick", Dt: dt} }
	base := []Op{
		serve(a, 1, pol(pMaxAge, 3000)), load(a), serve(a, 2, pol(pNoStore, 0)), load(a), tick(2000), load(a), tick(1000), load(a),
		serve(a, 3, pol(pNone, 0)), load(a), serve(a, 4, pol(pMaxAge, 1000)), load(a),
		{T: "serve", U: a, Code: 404, JSON: true, V: 5, P: pol(pMaxAge, 5000)}, load(a), tick(1000), load(a), load(a),
		{T: "serve", U: a, Code: 200, JSON: false, V: 6, P: pol(pMaxAge, 5000)}, load(a), {T: "down", U: a}, load(a),
		serve(a, 7, pol(pPrivate, 0)), load(a), serve(a, 8, pol(pExpiresDate, 2000)), load(a), tick(1000), load(a), tick(1000), load(a),
	}
	var out []Input
	for mode := 0; mode <= 5; mode++ {
		ops := base
		if mode == 0 {
			ops = nil
			for _, o := range base {
				if o.T != "tick" {
					ops = append(ops, o)
				}
			}
		}
		out = append(out, Input{Kind: "history", Cfg: Cfg{Mode: mode}, Ops: ops})
	}
	e := "https://b.test/ctx/v1.json"
	out = append(out, Input{Kind: "history", Cfg: Cfg{Mode: 2, Emb: []Emb{{U: e, V: 900}}},
		Ops: []Op{load(e), serve(e, 1, pol(pMaxAge, 1000)), load(e), tick(4000), load(e), tick(4000), load(e), {T: "down", U: e}, load(e)}})
	// regression: minimal input of the defect c19-nocache-maxage-reused (fixed in /repo by da1a3b4)
	out = append(out, Input{Kind: "history", Cfg: Cfg{Mode: 2},
		Ops: []Op{serve(a, 1, pol(pNoCacheMaxAge, 3000)), load(a), serve(a, 2, pol(pNoCacheMaxAge, 3000)), tick(1000), load(a)}})
	// fragments: documents embedded under URLs with a fragment are served verbatim without a request
	// whatever the origin does; URLs differing only in the fragment have separate entries and bodies
	{
		e1, e2 := "https://schema.example/vocab#", "https://schema.example/kyc.jsonld#v2"
		f1, f2 := "http://a.test/d1#v1", "http://a.test/d1#v2"
		out = append(out, Input{Kind: "history", Cfg: Cfg{Mode: 2, Emb: []Emb{{U: e1, V: 901}, {U: e2, V: 902}}},
			Ops: []Op{load(e1), load(e2), serve(e2, 1, pol(pMaxAge, 3000)), serve("https://schema.example/kyc.jsonld", 2, pol(pMaxAge, 3000)),
				serve("https://schema.example/vocab", 3, pol(pMaxAge, 3000)), load(e1), load(e2), tick(4000), load(e1), load(e2),
				serve(f1, 4, pol(pMaxAge, 3000)), serve(f2, 5, pol(pMaxAge, 3000)), load(f1), load(f2), load(f1), load(f2),
				serve(f1, 6, pol(pNoStore, 0)), tick(1000), load(f1), load(f2), tick(3000), load(f1), load(f2)}})
		out = append(out, Input{Kind: "history", Cfg: Cfg{Mode: 0},
			Ops: []Op{serve(f1, 1, pol(pMaxAge, 3000)), serve(f2, 2, pol(pMaxAge, 3000)), serve(a, 3, pol(pMaxAge, 3000)),
				load(f1), load(f2), load(a), load(f1), load(f2), load(a)}})
	}
	// the same with the directive in another letter case, and with no-cache / no-store on a second
	// Cache-Control header line
	for _, id := range []int64{0, 1, 12, 11} {
		out = append(out, Input{Kind: "history", Cfg: Cfg{Mode: 2},
			Ops: []Op{serve(a, 1, pol(pRaw, id)), load(a), serve(a, 2, pol(pRaw, id)), tick(1000), load(a)}})
	}
	i := "ipfs://QmA/schema.json"
	gwk := "http://gw.test/ipfs/QmA/schema.json"
	for _, c := range []Cfg{{Mode: 2, Cli: true}, {Mode: 2, GW: "http://gw.test/"}, {Mode: 2, Cli: true, GW: "http://gw.test/"}, {Mode: 2}} {
		out = append(out, Input{Kind: "history", Cfg: c, Ops: []Op{
			serve(i, 1, pol(pMaxAge, 3000)), serve(gwk, 2, pol(pMaxAge, 3000)), load(i), load(i), tick(3000), load(i),
			load("ftp://a.test/d1"), load("bogus"), load("")}})
	}
	return out
}

// genLinkObs: histories in which responses may carry `Link: <t>; rel="alternate"` (observation stream).
func (g *gen) genLinkObs() Input {
	r := g.cfg.Rng
	cfg := Cfg{Mode: []int{2, 2, 2, 0, 1, 3, 5}[r.Intn(7)]}
	urls := []string{"http://a.test/u", "http://a.test/alt", "https://b.test/alt2"}
	switch r.Intn(4) {
	case 0:
		cfg.Cli = true
		urls = append(urls, "ipfs://QmA/schema.json")
	case 1:
		cfg.GW = "http://gw.test/"
		urls = append(urls, "ipfs://QmA/schema.json")
	case 2:
		urls = append(urls, "ftp://a.test/d1")
	}
	var keys []string
	for _, u := range urls {
		if rt := expectedRoute(cfg, u); !rt.reject {
			keys = append(keys, rt.key)
		}
	}
	if cfg.Mode == 2 && r.Intn(4) == 0 {
		cfg.Emb = append(cfg.Emb, Emb{U: keys[r.Intn(len(keys))], V: 900})
	}
	in := Input{Kind: "linkobs", Cfg: cfg}
	version := 0
	serve := func(k string) {
		version++
		op := Op{T: "serve", U: k, Code: 200, JSON: true, V: version, P: g.genPolicy()}
		for op.P.K == pRaw { // the case-file op for alternate links carries a named header set
			op.P = g.genPolicy()
		}
		if r.Intn(100) < 45 && !strings.HasPrefix(k, "ipfs://") {
			op.Alt = urls[r.Intn(len(urls))] // may be k itself, may be an unsupported scheme
			op.JSON = r.Intn(3) == 0
			op.CT = ctPool[r.Intn(len(ctPool))]
			if jsonMediaType(op.CT) {
				op.JSON = r.Intn(5) != 0 // the link is not followed: the body is what is parsed
			}
		}
		if r.Intn(100) < 8 {
			op.Code = codePool[r.Intn(len(codePool))]
		}
		in.Ops = append(in.Ops, op)
	}
	for _, k := range keys {
		if r.Intn(10) < 8 {
			serve(k)
		}
	}
	n := 2 + r.Intn(20)
	for i := 0; i < n; i++ {
		switch x := r.Intn(100); {
		case x < 50:
			in.Ops = append(in.Ops, Op{T: "load", U: urls[r.Intn(len(urls))]})
		case x < 78:
			serve(keys[r.Intn(len(keys))])
		case x < 82:
			in.Ops = append(in.Ops, Op{T: "down", U: keys[r.Intn(len(keys))]})
		default:
			if cfg.Mode == 0 {
				continue
			}
			in.Ops = append(in.Ops, Op{T: "tick", Dt: tickPool[r.Intn(len(tickPool))]})
		}
	}
	return in
}

var ctPool = []string{"", "", "", "text/html; charset=utf-8", "application/json", "application/json; charset=utf-8",
	"application/ld+json", "application/ld+json; charset=utf-8", "application/vc+json", "Application/JSON; charset=UTF-8",
	"application/xml", "application/json;charset=utf-8"}

// fixed histories of the observation stream: the witnesses of C19_link_reuse_refuted (O-L2) and
// C19_link_diverges_refuted (O-L1), a two-cycle, and a chain that ends well
func scriptedLinkObs() []Input {
	u, a, b := "http://a.test/u", "http://a.test/alt", "https://b.test/alt2"
	pol := func(k int, n int64) *Policy { return &Policy{K: k, N: n} }
	alt := func(k string, p *Policy, t string) Op {
		return Op{T: "serve", U: k, Code: 200, JSON: false, P: p, Alt: t}
	}
	doc := func(k string, v int, p *Policy) Op { return Op{T: "serve", U: k, Code: 200, JSON: true, V: v, P: p} }
	load := func(k string) Op { return Op{T: "load", U: k} }
	return []Input{
		{Kind: "linkobs", Cfg: Cfg{Mode: 2}, Ops: []Op{alt(u, pol(pMaxAge, 3000), a), doc(a, 1, pol(pNoStore, 0)), load(u),
			doc(a, 2, pol(pNoStore, 0)), {T: "tick", Dt: 1000}, load(u), {T: "tick", Dt: 2000}, load(u)}},
		{Kind: "linkobs", Cfg: Cfg{Mode: 1}, Ops: []Op{alt(u, pol(pNoStore, 0), u), load(u)}},
		// JSON media types (with and without parameters): the alternate link must NOT be followed
		{Kind: "linkobs", Cfg: Cfg{Mode: 2}, Ops: []Op{
			{T: "serve", U: u, Code: 200, JSON: true, V: 1, P: pol(pMaxAge, 1000), Alt: a, CT: "application/json; charset=utf-8"},
			doc(a, 2, pol(pMaxAge, 1000)), load(u),
			{T: "serve", U: b, Code: 200, JSON: true, V: 3, P: pol(pNoStore, 0), Alt: a, CT: "application/json"}, load(b),
			{T: "serve", U: b, Code: 200, JSON: true, V: 4, P: pol(pNoStore, 0), Alt: a, CT: "application/ld+json; charset=utf-8"}, load(b),
			{T: "serve", U: b, Code: 200, JSON: true, V: 5, P: pol(pNoStore, 0), Alt: a, CT: "text/html; charset=utf-8"}, load(b)}},
		{Kind: "linkobs", Cfg: Cfg{Mode: 2}, Ops: []Op{alt(u, pol(pMaxAge, 1000), a), alt(a, pol(pMaxAge, 1000), u), load(u), load(a)}},
		{Kind: "linkobs", Cfg: Cfg{Mode: 2}, Ops: []Op{alt(u, pol(pMaxAge, 1000), a), alt(a, pol(pMaxAge, 2000), b), doc(b, 1, pol(pMaxAge, 3000)),
			load(u), load(a), load(b), {T: "tick", Dt: 1000}, load(u), load(a), load(b)}},
		{Kind: "linkobs", Cfg: Cfg{Mode: 2, Cli: true}, Ops: []Op{alt(u, pol(pMaxAge, 1000), "ipfs://QmA/schema.json"),
			doc("ipfs://QmA/schema.json", 1, pol(pNone, 0)), load(u), load(u), alt(a, pol(pNone, 0), "ftp://a.test/d1"), load(a)}},
	}
}

// enumerate: EVERY history of length 1..maxLen over one URL and the alphabet
// {serve max-age=1000, serve no-store, serve (no headers), serve no-cache,max-age=1000, serve 404+max-age,
//
//	load, tick 1000}, memory engine without embedded documents.
func enumerate(maxLen int) []Input {
	a := "http://a.test/d1"
	const nsym = 7
	var out []Input
	for l := 1; l <= maxLen; l++ {
		total := 1
		for i := 0; i < l; i++ {
			total *= nsym
		}
		for code := 0; code < total; code++ {
			in := Input{Kind: "history", Cfg: Cfg{Mode: 2}}
			c, v := code, 0
			for i := 0; i < l; i++ {
				sym := c % nsym
				c /= nsym
				v++
				switch sym {
				case 0:
					in.Ops = append(in.Ops, Op{T: "serve", U: a, Code: 200, JSON: true, V: v, P: &Policy{K: pMaxAge, N: 1000}})
				case 1:
					in.Ops = append(in.Ops, Op{T: "serve", U: a, Code: 200, JSON: true, V: v, P: &Policy{K: pNoStore}})
				case 2:
					in.Ops = append(in.Ops, Op{T: "serve", U: a, Code: 200, JSON: true, V: v, P: &Policy{K: pNone}})
				case 3:
					in.Ops = append(in.Ops, Op{T: "serve", U: a, Code: 200, JSON: true, V: v, P: &Policy{K: pNoCacheMaxAge, N: 1000}})
				case 4:
					in.Ops = append(in.Ops, Op{T: "serve", U: a, Code: 404, JSON: true, V: v, P: &Policy{K: pMaxAge, N: 1000}})
				case 5:
					in.Ops = append(in.Ops, Op{T: "load", U: a})
				default:
					in.Ops = append(in.Ops, Op{T: "tick", Dt: 1000})
				}
			}
			out = append(out, in)
		}
	}
	return out
}

// ---------------------------------------------------------------- driver

func nontrivial(r *result) bool {
	// at least one load that did not end in an error, after a serve
	served := false
	for _, op := range r.in.Ops {
		if op.T == "serve" {
			served = true
		}
	}
	if !served {
		return false
	}
	for _, o := range r.loads {
		if o.ok {
			return true
		}
	}
	return false
}

func (g *gen) addHistory(in Input) error {
	res, err := g.runHistory(in)
	if err != nil {
		return err
	}
	g.cases = append(g.cases, res)
	rep := g.rep
	rep.Evaluations++
	if in.Kind == "linkobs" {
		rep.Count("linkobs-history")
		b, _ := json.Marshal(in)
		rep.Distinct(string(b))
		return nil
	}
	rep.Count(fmt.Sprintf("mode-%d", in.Cfg.Mode))
	switch {
	case in.Cfg.Cli && in.Cfg.GW != "":
		rep.Count("ipfs-client+gateway")
	case in.Cfg.Cli:
		rep.Count("ipfs-client")
	case in.Cfg.GW != "":
		rep.Count("ipfs-gateway")
	default:
		rep.Count("ipfs-none")
	}
	if len(in.Cfg.Emb) > 0 {
		rep.Count("with-embedded")
	}
	li := 0
	for _, op := range in.Ops {
		if op.T == "serve" && op.P != nil {
			if op.P.K == pRaw {
				rep.Count("policy-raw-variant")
			} else {
				rep.Count("policy-" + op.P.name())
			}
		}
		if op.T != "load" {
			continue
		}
		o := res.loads[li]
		li++
		rt := expectedRoute(in.Cfg, op.U)
		_, isEmb := in.Cfg.embedded(rt.key)
		switch {
		case rt.reject:
			rep.Count("load-rejected-scheme")
		case isEmb && !rt.node:
			rep.Count("load-embedded")
		case o.ok && len(o.reqs) == 0:
			rep.Count("load-from-cache")
		case o.ok:
			rep.Count("load-fetched")
		case len(o.reqs) == 0:
			rep.Count("load-error-without-request")
		default:
			rep.Count("load-error-after-request")
		}
		if rt.node {
			rep.Count("load-via-ipfs-client")
		} else if !rt.reject && strings.HasPrefix(op.U, "ipfs://") {
			rep.Count("load-via-gateway")
		}
	}
	if nontrivial(res) {
		b, _ := json.Marshal(in)
		rep.Distinct(string(b))
	}
	return nil
}

func (g *gen) addEngine(in Input) error {
	res, err := g.runEngine(in)
	if err != nil {
		return err
	}
	g.ecs = append(g.ecs, res)
	g.rep.Evaluations++
	g.rep.Count("engine-script")
	b, _ := json.Marshal(in)
	g.rep.Distinct(string(b))
	return nil
}

func (g *gen) sample(r *result) {
	var outs []string
	for _, o := range r.loads {
		switch {
		case o.panic:
			outs = append(outs, "panic")
		case o.ok:
			outs = append(outs, fmt.Sprintf("v%d/%dreq", o.v, len(o.reqs)))
		default:
			outs = append(outs, fmt.Sprintf("err/%dreq", len(o.reqs)))
		}
	}
	g.rep.Sample(map[string]any{"input": r.in, "loads": outs})
}

func Run(cfg *common.Config) (*common.Report, error) {
	rep := common.NewReport("C19")
	rep.Correspondence = "Loader.Run.mismatches: observe/dump/rawdump over fold_left step (Loader/Model.v load, load_http, fetch, engine_get, engine_set) vs loaders.NewDocumentLoader(...).LoadDocument + memoryCacheEngine.Get/Set, on per-load outcome, requests per load and final cache contents"
	rep.Rule = "random histories of length 1..40 over 3-4 URLs (http, https, ipfs, unsupported and unparsable ones) x cache mode (default, off, memory engine +/- embedded, third-party engine ok / Get fails / Set fails) x IPFS (client, gateway, both, none) x 16 header sets x statuses {200,201,204,304,403,404,410,500} x JSON/garbage body x transport failure x ticks of k*1000 s; plus fixed walk-through histories and engine-level Set/Get scripts. distinct = distinct histories in which a Serve occurs and at least one Load returns a document (so the fetch/cache branches are reached), plus distinct engine scripts."
	g := &gen{cfg: cfg, rep: rep, pols: map[Policy]bool{}, urls: map[string]bool{}}
	if cfg.Replay != "" {
		return replay(cfg, g)
	}
	for _, in := range scripted() {
		if err := g.addHistory(in); err != nil {
			return nil, err
		}
	}
	maxLen := cfg.Pick(3, 4)
	enum := enumerate(maxLen)
	for _, in := range enum {
		if err := g.addHistory(in); err != nil {
			return nil, err
		}
	}
	rep.Notes = append(rep.Notes, fmt.Sprintf("small scope: all %d histories of length 1..%d over one URL and 7 symbols (4 header sets, 404, load, tick) were enumerated (memory engine)", len(enum), maxLen))
	n := cfg.Pick(1600, 16000)
	for i := 0; i < n; i++ {
		if err := g.addHistory(g.genHistory()); err != nil {
			return nil, err
		}
	}
	for i := 0; i < cfg.Pick(150, 1500); i++ {
		if err := g.addEngine(g.genEngine()); err != nil {
			return nil, err
		}
	}
	// observation stream: rel=alternate Link headers (outside the property's quantifier): compared
	// with the model like everything else, but not judged by the oracles
	for _, in := range scriptedLinkObs() {
		if err := g.addHistory(in); err != nil {
			return nil, err
		}
	}
	for i := 0; i < cfg.Pick(150, 1500); i++ {
		if err := g.addHistory(g.genLinkObs()); err != nil {
			return nil, err
		}
	}
	for i, r := range g.cases {
		if i%211 == 3 {
			g.sample(r)
		}
	}
	rows := g.ccTable()
	g.checkTable(rows)
	var tab []string
	for _, r := range rows {
		if r.p.hasN() && r.p.N != 1000 && r.p.K != pRaw {
			continue
		}
		lt := "zero-time"
		if r.has {
			lt = fmt.Sprintf("+%ds", r.life)
		}
		tab = append(tab, fmt.Sprintf("%s(n=%d): store=%v expiry=%s no-cache=%v", r.p.name(), r.p.N, r.store, lt, r.nocache))
	}
	rep.Notes = append(rep.Notes, fmt.Sprintf("recorded cachecontrol.CachableResponse table, %d header sets; rows for n=1000: %s", len(rows), strings.Join(tab, "; ")))
	rep.Notes = append(rep.Notes,
		"virtual clock: CacheEngine wrapper shifts expiry by the simulated offset; the default engine (mode 0) cannot be wrapped, its histories contain no ticks",
		"expiry times are compared after rounding to 100 s",
		"observation stream (kind linkobs): responses with `Link: rel=alternate` are outside C19's quantifier; these histories are compared model-vs-implementation only, the counters linkobs-O-L1-* / linkobs-O-L2-* in the distribution record how often the real loader exhausted the per-load request budget (unbounded recursion, C19_link_diverges_refuted) and returned, without a request, an alternate document whose own response did not permit reuse (C19_link_reuse_refuted)")
	if err := g.writeShards(rows); err != nil {
		return nil, err
	}
	return rep, nil
}

func replay(cfg *common.Config, g *gen) (*common.Report, error) {
	var rf struct {
		Input Input `json:"input"`
	}
	if err := common.ReadJSON(cfg.Replay, &rf); err != nil {
		return nil, err
	}
	in := rf.Input
	switch in.Kind {
	case "engine":
		if err := g.addEngine(in); err != nil {
			return nil, err
		}
		fmt.Printf("replay: engine script, %d ops, gets=%+v\n", len(in.EOps), g.ecs[0].gets)
	default:
		if in.Kind != "linkobs" {
			in.Kind = "history"
		}
		if err := g.addHistory(in); err != nil {
			return nil, err
		}
		g.sample(g.cases[0])
		for i, o := range g.cases[0].loads {
			fmt.Printf("replay: load #%d -> ok=%v v=%d panic=%v requests=%d %s\n", i, o.ok, o.v, o.panic, len(o.reqs), o.msg)
		}
	}
	rows := g.ccTable()
	g.checkTable(rows)
	if err := g.writeShards(rows); err != nil {
		return nil, err
	}
	return g.rep, nil
}
