// Package ctxload: an offline ld.DocumentLoader serving embedded copies of the
// standard contexts (W3C credentials v1, iden3 proofs, KYC v3/v101, citizenship,
// delivery-address) plus contexts registered at run time by generators.
package ctxload

import (
	"embed"
	"encoding/json"
	"fmt"
	"sync"

	"github.com/piprate/json-gold/ld"
)

//go:embed data/*
var data embed.FS

const (
	URLCredentialsV1   = "https://www.w3.org/2018/credentials/v1"
	URLIden3Proofs     = "https://schema.iden3.io/core/jsonld/iden3proofs.jsonld"
	URLKYCv3           = "https://raw.githubusercontent.com/iden3/claim-schema-vocab/main/schemas/json-ld/kyc-v3.json-ld"
	URLKYCv101         = "https://raw.githubusercontent.com/iden3/claim-schema-vocab/main/schemas/json-ld/kyc-v101.json-ld"
	URLIden3CredV2     = "https://raw.githubusercontent.com/iden3/claim-schema-vocab/main/schemas/json-ld/iden3credential-v2.json-ld"
	URLCitizenship     = "https://w3id.org/citizenship/v1"
	URLDeliveryAddress = "https://example.com/schema-delivery-address.json-ld"
)

var standard = map[string]string{
	URLCredentialsV1:   "data/credentials-v1.jsonld",
	URLIden3Proofs:     "data/iden3proofs.json-ld",
	URLKYCv3:           "data/kyc-v3.json-ld",
	URLKYCv101:         "data/kyc-v101.json-ld",
	URLIden3CredV2:     "data/iden3credential-v2.json-ld",
	URLCitizenship:     "data/citizenship-v1.json-ld",
	URLDeliveryAddress: "data/schema-delivery-address.json-ld",
}

// Loader is safe for concurrent use.  Documents are handed out by pointer and
// must be treated as read-only (as the repository's own cache does).
type Loader struct {
	mu    sync.RWMutex
	docs  map[string]*ld.RemoteDocument
	raw   map[string][]byte
	Fail  map[string]bool // URLs that must fail to load
	Loads map[string]int
}

func New() *Loader {
	l := &Loader{docs: map[string]*ld.RemoteDocument{}, raw: map[string][]byte{}, Fail: map[string]bool{}, Loads: map[string]int{}}
	for u, f := range standard {
		b, err := data.ReadFile(f)
		if err != nil {
			panic(err)
		}
		if err := l.Add(u, b); err != nil {
			panic(fmt.Sprintf("%s: %v", f, err))
		}
	}
	return l
}

// Add registers (or replaces) the document served at url.
func (l *Loader) Add(url string, doc []byte) error {
	var v any
	if err := json.Unmarshal(doc, &v); err != nil {
		return err
	}
	l.mu.Lock()
	defer l.mu.Unlock()
	l.docs[url] = &ld.RemoteDocument{DocumentURL: url, Document: v}
	l.raw[url] = append([]byte{}, doc...)
	return nil
}

// Raw returns the bytes registered for url (nil if unknown).
func (l *Loader) Raw(url string) []byte {
	l.mu.RLock()
	defer l.mu.RUnlock()
	return l.raw[url]
}

func (l *Loader) LoadDocument(u string) (*ld.RemoteDocument, error) {
	l.mu.Lock()
	l.Loads[u]++
	fail := l.Fail[u]
	d, ok := l.docs[u]
	l.mu.Unlock()
	if fail || !ok {
		return nil, ld.NewJsonLdError(ld.LoadingDocumentFailed, fmt.Errorf("offline loader: no document for %s", u))
	}
	return d, nil
}
