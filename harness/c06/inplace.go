package c06

import (
	"encoding/json"
	"fmt"
	"reflect"

	"github.com/iden3/go-schema-processor/v2/verifiable"
)

// In-place modes: the modification is applied to the Go value that was already
// issued from and checked (Mode "inplace": exported fields assigned one by one,
// the credentialSubject map edited in place; Mode "over": json.Unmarshal of the
// modified document over the same variable), instead of decoding the modified
// document into a fresh value.  The verdict must be the one a fresh value with
// the same content gets: a W3CCredential must not remember anything about what
// it contained when it was last merklized.

// assignInPlace makes *dst hold the content of *src without replacing the struct value:
// every exported field except Proof is assigned; the subject map is edited in place.
func assignInPlace(dst, src *verifiable.W3CCredential) {
	dv, sv := reflect.ValueOf(dst).Elem(), reflect.ValueOf(src).Elem()
	t := dv.Type()
	for i := 0; i < t.NumField(); i++ {
		f := t.Field(i)
		if !f.IsExported() || f.Name == "Proof" {
			continue
		}
		if f.Name == "CredentialSubject" && dst.CredentialSubject != nil && src.CredentialSubject != nil {
			for k := range dst.CredentialSubject {
				if _, ok := src.CredentialSubject[k]; !ok {
					delete(dst.CredentialSubject, k)
				}
			}
			for k, v := range src.CredentialSubject {
				dst.CredentialSubject[k] = v
			}
			continue
		}
		dv.Field(i).Set(sv.Field(i))
	}
}

// withoutProof re-encodes the value (what a fresh decode of the same content is made from).
func withoutProof(vc *verifiable.W3CCredential) ([]byte, error) {
	b, err := json.Marshal(vc)
	if err != nil {
		return nil, err
	}
	var m map[string]any
	if err := json.Unmarshal(b, &m); err != nil {
		return nil, err
	}
	delete(m, "proof")
	return json.Marshal(m)
}

func (g *gen) execInPlace(in *Input) (r result) {
	defer func() {
		if p := recover(); p != nil {
			r.class, r.msg = "panic", fmt.Sprint(p)
		}
	}()
	vc, err := parseVC(in.Cred)
	if err != nil {
		r.issueClass, r.issueMsg, r.class = "err", "credential does not parse: "+err.Error(), "skipped"
		return r
	}
	// issue from and check the very object that is modified afterwards
	r.issueClass, r.issued, r.issueMsg = g.issue(vc, in.Opts, in.NilOpts, in.Hasher, in.Loader)
	if r.issueClass != "ok" {
		r.class = "skipped"
		return r
	}
	r.claim = r.issued
	r.firstClass, _ = g.check(vc, r.claim, in.Hasher, in.Loader)
	switch in.Mode {
	case "over":
		if err := json.Unmarshal(in.ModCred, vc); err != nil {
			r.class, r.msg = "skipped", "unmarshal over: "+err.Error()
			return r
		}
	default:
		m, err := parseVC(in.ModCred)
		if err != nil {
			r.class, r.msg = "skipped", "modified credential does not parse: "+err.Error()
			return r
		}
		assignInPlace(vc, m)
	}
	r.class, r.msg = g.check(vc, r.claim, in.Hasher, in.Loader)
	if r.class == "skipped" {
		return r
	}
	r.verified = true
	r.accept = r.class == "accept"
	// the same content in a fresh value
	b, err := withoutProof(vc)
	if err != nil {
		r.class, r.msg = "skipped", err.Error()
		r.verified = false
		return r
	}
	r.vcJSON = b
	fresh, err := parseVC(b)
	if err != nil {
		r.freshClass = "unparseable"
		return r
	}
	r.freshClass, _ = g.check(fresh, r.claim, in.Hasher, in.Loader)
	fresh2, _ := parseVC(b)
	ex := g.exact(fresh2, r.claim, in.Hasher, in.Loader)
	r.exact = &ex
	return r
}

func (g *gen) judgeInPlace(in *Input, r *result) {
	if r.firstClass != "" && r.firstClass != "accept" {
		g.rep.Fail("c06-complete-rejected", "the claim issued from this object does not pass the binding check on it", in)
	}
	if r.verified && r.freshClass != "" && r.freshClass != r.class {
		g.rep.Fail("c06-inplace-differs", fmt.Sprintf("site %s (%s): the modified object gets %s, a fresh value with the same content gets %s", in.Site, in.Mode, r.class, r.freshClass), in)
	}
}
