package c06

import (
	"encoding/json"
	"errors"
	"fmt"
	"strings"

	"github.com/iden3/go-schema-processor/v2/verifiable"

	"vharness/credgen"
)

// VPSpec describes a credential carrying several proof objects and one
// VerifyProof call: the correspondence for the order of steps in VerifyProof
// (selection by type, GetCoreClaim, binding check, dispatch).
type VPSpec struct {
	Proofs  []VPProof `json:"proofs"`
	Request string    `json:"request"` // the proof type asked of VerifyProof
	Seed    int64     `json:"seed"`
}

// VPProof is one proof object of the bundle.
type VPProof struct {
	Make     string   `json:"make"`                // bjj | smt | common (an object with type and coreClaim only)
	AsType   string   `json:"as_type"`             // the "type" member written ("" = the natural one)
	Carried  []string `json:"carried,omitempty"`   // slots of the claim written as coreClaim (nil = the issued claim)
	BadClaim bool     `json:"bad_claim,omitempty"` // coreClaim is not a claim (GetCoreClaim fails)
}

type vpObs struct {
	class   string // accept | not-found | not-supported | reject | panic | skipped
	msg     string
	proofs  []vpProofObs
	request string
}

type vpProofObs struct {
	typ    string
	claim  *[8]string // nil = unreadable
	restOK bool       // the proof-type specific material was produced honestly for the carried claim
}

func naturalType(mk string) string {
	switch mk {
	case "smt":
		return string(verifiable.Iden3SparseMerkleTreeProofType)
	case "bjj":
		return string(verifiable.BJJSignatureProofType)
	}
	return "C06OtherProof2021"
}

func (g *gen) execVP(in *Input, r *result) (o vpObs) {
	defer func() {
		if p := recover(); p != nil {
			o.class, o.msg = "panic", fmt.Sprint(p)
		}
	}()
	sp := in.VP
	o.request = sp.Request
	id, err := newIssuer(sp.Seed)
	if err != nil {
		return vpObs{class: "skipped", msg: err.Error()}
	}
	signed, err := slotsToClaim(r.issued)
	if err != nil {
		return vpObs{class: "skipped", msg: err.Error()}
	}
	resolver := stubDID{id: id, published: map[string]bool{}}
	proofs := []any{}
	for _, p := range sp.Proofs {
		carried := signed
		cs := r.issued
		if p.Carried != nil {
			s, err := parseSlots(p.Carried)
			if err != nil {
				return vpObs{class: "skipped", msg: err.Error()}
			}
			if carried, err = slotsToClaim(s); err != nil {
				return vpObs{class: "skipped", msg: err.Error()}
			}
			cs = s
		}
		asType := p.AsType
		if asType == "" {
			asType = naturalType(p.Make)
		}
		var b []byte
		switch p.Make {
		case "smt":
			var st string
			b, st, err = id.bundleSMT(in.Cred, signed, carried, asType)
			resolver.published[st] = true
		case "bjj":
			b, err = id.bundle(in.Cred, signed, carried, asType)
		default:
			ch, _ := carried.Hex()
			b, err = json.Marshal(map[string]any{"proof": []any{map[string]any{"type": asType, "coreClaim": ch}}})
		}
		if err != nil {
			return vpObs{class: "skipped", msg: err.Error()}
		}
		var m map[string]any
		_ = json.Unmarshal(b, &m)
		po := m["proof"].([]any)[0].(map[string]any)
		ob := vpProofObs{typ: asType, restOK: slotsEqual(cs, r.issued) && p.Make != "common"}
		// a proof object written under the type of the other kind lacks that kind's material
		if asType != naturalType(p.Make) {
			ob.restOK = false
		}
		if !p.BadClaim {
			ss := slotStrings(cs)
			var a [8]string
			copy(a[:], ss)
			ob.claim = &a
		}
		proofs = append(proofs, po)
		o.proofs = append(o.proofs, ob)
	}
	var doc map[string]any
	if err := json.Unmarshal(in.Cred, &doc); err != nil {
		return vpObs{class: "skipped", msg: err.Error()}
	}
	doc["proof"] = proofs
	b, _ := json.Marshal(doc)
	full, err := parseVC(b)
	if err != nil {
		o.class, o.msg = "skipped", "bundle does not parse: "+err.Error()
		return o
	}
	// an unreadable claim cannot come through JSON for the typed proofs (their decoders validate
	// the hex string); it is written into the decoded objects
	for i, p := range sp.Proofs {
		if !p.BadClaim || i >= len(full.Proof) {
			continue
		}
		switch x := full.Proof[i].(type) {
		case *verifiable.BJJSignatureProof2021:
			x.CoreClaim = "zz"
		case *verifiable.Iden3SparseMerkleTreeProof:
			x.CoreClaim = "zz"
		case *verifiable.CommonProof:
			(*x)["coreClaim"] = "zz"
		default:
			o.class, o.msg = "skipped", fmt.Sprintf("proof object of unexpected Go type %T", x)
			return o
		}
	}
	reg := verifiable.CredentialStatusResolverRegistry{}
	reg.Register(e2eStatusType, stubStatus{id})
	err = full.VerifyProof(bg, verifiable.ProofType(sp.Request), resolver,
		verifiable.WithStatusResolverRegistry(&reg), verifiable.VerifWithMerklizeOptions(g.mzOpts(0)...))
	switch {
	case err == nil:
		o.class = "accept"
	case errors.Is(err, verifiable.ErrProofNotFound):
		o.class = "not-found"
	case errors.Is(err, verifiable.ErrProofNotSupported):
		o.class = "not-supported"
	default:
		o.class, o.msg = "reject", err.Error()
	}
	return o
}

// expectVP: the property's reading of VerifyProof, stated on the bundle alone:
// the first proof of the requested type decides; it must carry a readable claim
// that the credential re-derives; only then does the type-specific part count.
func (g *gen) expectVP(in *Input, r *result, o vpObs) string {
	for _, p := range o.proofs {
		if p.typ != o.request {
			continue
		}
		if p.claim == nil {
			return "reject"
		}
		s, _ := parseSlots(p.claim[:])
		vc, _ := parseVC(in.Cred)
		if !g.exact(vc, s, 0) {
			return "reject"
		}
		if o.request != string(verifiable.BJJSignatureProofType) && o.request != string(verifiable.Iden3SparseMerkleTreeProofType) {
			return "not-supported"
		}
		if p.restOK {
			return "accept"
		}
		return "reject"
	}
	return "not-found"
}

func (g *gen) generateVP(schs []*schemaInfo) []*Input {
	var ins []*Input
	bjj, smt, other := naturalType("bjj"), naturalType("smt"), naturalType("common")
	seed := g.cfg.Rng.Int63()
	for si, sch := range schs {
		if si == 1 && !g.cfg.Thorough() {
			continue
		}
		sp := g.credSpecs(sch)[0]
		o := credgen.Opts{RevNonce: 31, Version: 2, Upd: true}
		probe := g.base(sch, sp, o, "vp")
		g.register(probe)
		vc, _ := parseVC(probe.Cred)
		cls, slots, _ := g.issue(vc, o, false, 0)
		if cls != "ok" {
			continue
		}
		bad, _ := flipBit(slots, 3, 0)     // data slot: rejected by the binding check
		renonce, _ := flipBit(slots, 4, 5) // nonce: passes the binding check, fails the signature / inclusion
		tam, ren := slotStrings(bad), slotStrings(renonce)
		add := func(req string, ps ...VPProof) {
			in := g.base(sch, sp, o, "vp")
			in.VP = &VPSpec{Proofs: ps, Request: req, Seed: seed}
			var names []string
			for _, p := range ps {
				n := p.Make
				if p.AsType != "" {
					n += "-as-" + p.AsType
				}
				if p.Carried != nil {
					n += "-tampered"
				}
				if p.BadClaim {
					n += "-unreadable"
				}
				names = append(names, n)
			}
			in.Site = "vp:" + strings.Join(names, ",") + "?" + req
			ins = append(ins, in)
		}
		for _, req := range []string{bjj, smt, other, "Missing2021"} {
			add(req, VPProof{Make: "bjj"}, VPProof{Make: "smt"}, VPProof{Make: "common"})
			add(req, VPProof{Make: "common"}, VPProof{Make: "smt"}, VPProof{Make: "bjj"})
			add(req, VPProof{Make: "bjj", Carried: tam}, VPProof{Make: "smt", Carried: tam}, VPProof{Make: "common", Carried: tam})
			add(req, VPProof{Make: "bjj", Carried: ren}, VPProof{Make: "smt", Carried: ren}, VPProof{Make: "common", Carried: ren})
			add(req, VPProof{Make: "bjj", BadClaim: true}, VPProof{Make: "smt", BadClaim: true}, VPProof{Make: "common", BadClaim: true})
			add(req)
		}
		// the first proof of the requested type decides
		add(bjj, VPProof{Make: "bjj", Carried: tam}, VPProof{Make: "bjj"})
		add(bjj, VPProof{Make: "bjj"}, VPProof{Make: "bjj", Carried: tam})
		add(smt, VPProof{Make: "smt", Carried: tam}, VPProof{Make: "smt"})
		add(smt, VPProof{Make: "smt"}, VPProof{Make: "smt", Carried: tam})
		add(other, VPProof{Make: "common", Carried: tam}, VPProof{Make: "common"})
		// a proof object of one kind written under the type of the other
		add(smt, VPProof{Make: "bjj", AsType: smt})
		add(smt, VPProof{Make: "bjj", AsType: smt, Carried: tam})
		add(other, VPProof{Make: "common", BadClaim: true})
	}
	return ins
}
