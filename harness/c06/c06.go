// Package c06: a proof is accepted only for the credential its claim was derived
// from (property C06).  Plays the issuer with W3CCredential.ToCoreClaim over an
// option grid, then runs the binding check (VerifVerifyCoreClaim =
// verifyCredentialCoreClaim, and VerifyProof end to end on BJJ-signed bundles)
// on the unchanged pair (completeness), on every single-site modification of
// the credential document and on single-site modifications of the claim
// (soundness).  Implementation-side oracles are independent of the Coq model;
// the shards replay the same calls on Claim/Binding.v.
package c06

import (
	"context"
	"encoding/json"
	"fmt"
	"math/big"
	"os"
	"path/filepath"
	"runtime"
	"sort"
	"strings"
	"sync"

	core "github.com/iden3/go-iden3-core/v2"
	"github.com/iden3/go-schema-processor/v2/merklize"
	"github.com/iden3/go-schema-processor/v2/verifiable"

	"vharness/common"
	"vharness/coqgen"
	"vharness/credgen"
	"vharness/hashers"
)

func init() { common.Register("C06", Run) }

var bg = context.Background()

// Input is one self-contained case (also the replay format).
type Input struct {
	Kind      string                     `json:"kind"`   // complete | doc | claim | o7 | e2e
	Schema    string                     `json:"schema"` // own-merk | own-ser | kyc-v3
	Merklized bool                       `json:"merklized"`
	Paths     []string                   `json:"paths"`              // subject field paths (field table of the model)
	Contexts  map[string]json.RawMessage `json:"contexts,omitempty"` // context documents to serve besides the embedded ones
	Cred      json.RawMessage            `json:"credential"`         // the document at issuance
	Opts      credgen.Opts               `json:"options"`            // issuance options
	NilOpts   bool                       `json:"nil_options,omitempty"`
	Site      string                     `json:"site,omitempty"`  // where the single modification is
	Field     string                     `json:"field,omitempty"` // bit field / subject field of the site
	Bound     bool                       `json:"bound"`           // the property requires the modified pair to be rejected
	ModCred   json.RawMessage            `json:"modified_credential,omitempty"`
	ModClaim  []string                   `json:"modified_claim,omitempty"` // 8 slot integers
	Hasher    int                        `json:"hasher,omitempty"`         // o7: index of the non-default hasher used at issuance
	VerifyH   int                        `json:"verify_hasher,omitempty"`  // o7: hasher given to the verifier (0 = default)
	E2E       *E2E                       `json:"e2e,omitempty"`
	VP        *VPSpec                    `json:"verify_proof,omitempty"`
	Mode      string                     `json:"mode,omitempty"`    // doc modifications: "" = fresh value, "inplace" = edit the checked Go value, "over" = json.Unmarshal over it
	Loader    int                        `json:"loader,omitempty"`  // which document loader the case uses (0 = main)
	History   []HistStep                 `json:"history,omitempty"` // calls made earlier in the same process, in order
}

// HistStep is an earlier issuance + binding check in the same process, possibly
// through another document loader that serves other documents under the same URLs.
type HistStep struct {
	Loader   int                        `json:"loader"`
	Contexts map[string]json.RawMessage `json:"contexts,omitempty"`
	Cred     json.RawMessage            `json:"credential"`
	Opts     credgen.Opts               `json:"options"`
}

// result of running one case on the implementation
type result struct {
	issueClass string // ok | err | panic
	issueMsg   string
	issued     [8]*big.Int
	verified   bool // a binding check was run
	vcJSON     []byte
	claim      [8]*big.Int // the claim given to the check
	accept     bool
	class      string // accept | reject | panic | skipped
	msg        string
	exact      *bool  // exactness oracle: does re-derivation under the read-back options reproduce the claim?
	firstClass string // in-place modes: the check on the object before it is modified
	freshClass string // in-place modes: the check on a fresh value with the same content
	e2eAccept  *bool
	e2eMsg     string
	vp         *vpObs
}

type rec struct {
	in  *Input
	res result
	coq bool // goes into a shard
}

type issueRes struct {
	cls   string
	slots [8]*big.Int
	msg   string
}

type gen struct {
	mu     sync.Mutex
	issued map[string]issueRes
	cfg    *common.Config
	rep    *common.Report
	env    *credgen.Env
	envs   []*credgen.Env // document loaders by index; envs[0] == env
	views  map[string]credgen.View
	recs   []*rec
	alt    []merklize.Hasher
}

func newGen(cfg *common.Config) *gen {
	g := &gen{cfg: cfg, rep: common.NewReport("C06"), env: credgen.NewEnv(), issued: map[string]issueRes{}}
	// ToCoreClaim(ctx, nil) has no way to receive merklizer options: it uses the package default
	// document loader, which is pointed at the offline loader (public API)
	merklize.SetDocumentLoader(g.env.Loader)
	g.envs = []*credgen.Env{g.env, credgen.NewEnv(), credgen.NewEnv()}
	for _, p := range hashers.TreePrimes() {
		g.alt = append(g.alt, hashers.Mod{P: p})
	}
	return g
}

// unsafeMode as Input.Hasher: default hasher, merklizer option WithSafeMode(false) at issuance and verification
const unsafeMode = -1

func (g *gen) envOf(ld int) *credgen.Env {
	if ld < 0 || ld >= len(g.envs) {
		return g.env
	}
	return g.envs[ld]
}

func (g *gen) mzOpts(h int, ld ...int) []merklize.MerklizeOption {
	e := g.env
	if len(ld) > 0 {
		e = g.envOf(ld[0])
	}
	o := e.MerklizeOpts()
	if h > 0 && h <= len(g.alt) {
		o = append(o, merklize.WithHasher(g.alt[h-1]))
	}
	if h == unsafeMode {
		o = append(o, merklize.WithSafeMode(false))
	}
	return o
}

func parseVC(b []byte) (*verifiable.W3CCredential, error) {
	var vc verifiable.W3CCredential
	if err := json.Unmarshal(b, &vc); err != nil {
		return nil, err
	}
	return &vc, nil
}

func slotsToClaim(s [8]*big.Int) (*core.Claim, error) { return core.NewClaimFromBigInts(s) }

func slotsEqual(a, b [8]*big.Int) bool {
	for i := range a {
		if a[i] == nil || b[i] == nil || a[i].Cmp(b[i]) != 0 {
			return false
		}
	}
	return true
}

func slotStrings(s [8]*big.Int) []string {
	out := make([]string, 8)
	for i := range s {
		out[i] = s[i].String()
	}
	return out
}

func parseSlots(ss []string) ([8]*big.Int, error) {
	var out [8]*big.Int
	if len(ss) != 8 {
		return out, fmt.Errorf("claim needs 8 slots")
	}
	for i, s := range ss {
		z, ok := new(big.Int).SetString(s, 10)
		if !ok {
			return out, fmt.Errorf("bad slot %q", s)
		}
		out[i] = z
	}
	return out, nil
}

// issue plays the issuer: ToCoreClaim, decoded with the harness's own decoder.
func (g *gen) issue(vc *verifiable.W3CCredential, o credgen.Opts, nilOpts bool, h int, ld ...int) (cls string, slots [8]*big.Int, msg string) {
	defer func() {
		if r := recover(); r != nil {
			cls, msg = "panic", fmt.Sprint(r)
		}
	}()
	var opts *verifiable.CoreClaimOptions
	if !nilOpts {
		opts = &verifiable.CoreClaimOptions{RevNonce: o.RevNonce, Version: o.Version, SubjectPosition: o.Subject,
			MerklizedRootPosition: o.Root, Updatable: o.Upd, MerklizerOpts: g.mzOpts(h, ld...)}
	}
	cl, err := vc.ToCoreClaim(bg, opts)
	if err != nil {
		return "err", slots, err.Error()
	}
	s, err := credgen.Slots(cl)
	if err != nil {
		return "panic", slots, err.Error()
	}
	return "ok", s, ""
}

// check runs the binding check.
func (g *gen) check(vc *verifiable.W3CCredential, slots [8]*big.Int, h int, ld ...int) (cls string, msg string) {
	defer func() {
		if r := recover(); r != nil {
			cls, msg = "panic", fmt.Sprint(r)
		}
	}()
	cl, err := slotsToClaim(slots)
	if err != nil {
		return "skipped", err.Error()
	}
	err = vc.VerifVerifyCoreClaim(bg, cl, g.mzOpts(h, ld...))
	if err != nil {
		return "reject", err.Error()
	}
	return "accept", ""
}

// exact: the property's first sentence, evaluated with the public API and the
// harness's own decoder only: re-deriving the claim from the credential with
// the positions, nonce, version and flags carried by the claim reproduces it.
func (g *gen) exact(vc *verifiable.W3CCredential, slots [8]*big.Int, h int, ld ...int) bool {
	rb := readBack(slots)
	if !rb.OK {
		return false
	}
	cls, s, _ := g.issue(vc, credgen.Opts{RevNonce: rb.Nonce, Version: rb.Version, Subject: rb.Subject, Root: rb.Root, Upd: rb.Upd}, false, h, ld...)
	return cls == "ok" && slotsEqual(s, slots)
}

func (g *gen) register(in *Input) {
	reg := func(ld int, ctxs map[string]json.RawMessage) {
		l := g.envOf(ld).Loader
		for u, d := range ctxs {
			if string(l.Raw(u)) != string(d) {
				_ = l.Add(u, d)
			}
		}
	}
	reg(in.Loader, in.Contexts)
	for _, h := range in.History {
		reg(h.Loader, h.Contexts)
	}
}

// exec runs one case on the implementation (no reporting).
func (g *gen) exec(in *Input) result {
	var r result
	if in.Mode != "" && in.Kind == "doc" && in.E2E == nil {
		return g.execInPlace(in)
	}
	vc, err := parseVC(in.Cred)
	if err != nil {
		r.issueClass, r.issueMsg, r.class = "err", "credential does not parse: "+err.Error(), "skipped"
		return r
	}
	// earlier calls of the same process (the implementation must not remember anything from them)
	for _, h := range in.History {
		if hv, err := parseVC(h.Cred); err == nil {
			if cls, s, _ := g.issue(hv, h.Opts, false, 0, h.Loader); cls == "ok" {
				g.check(hv, s, 0, h.Loader)
			}
		}
	}
	// the issuance of one (credential, options) pair is shared by all its modifications
	ob, _ := json.Marshal(in.Opts)
	key := fmt.Sprintf("%s|%s|%v|%d|%d", in.Cred, ob, in.NilOpts, in.Hasher, in.Loader)
	g.mu.Lock()
	ic, hit := g.issued[key]
	g.mu.Unlock()
	if !hit || in.Kind == "complete" || len(in.History) > 0 {
		ic.cls, ic.slots, ic.msg = g.issue(vc, in.Opts, in.NilOpts, in.Hasher, in.Loader)
		g.mu.Lock()
		g.issued[key] = ic
		g.mu.Unlock()
	}
	r.issueClass, r.issued, r.issueMsg = ic.cls, ic.slots, ic.msg
	if r.issueClass != "ok" {
		r.class = "skipped"
		return r
	}
	if in.E2E != nil {
		g.execE2E(in, vc, &r)
		return r
	}
	if in.VP != nil {
		o := g.execVP(in, &r)
		r.vp = &o
		r.class, r.msg = o.class, o.msg
		return r
	}
	target := vc
	r.vcJSON = in.Cred
	r.claim = r.issued
	switch in.Kind {
	case "doc":
		t, err := parseVC(in.ModCred)
		if err != nil {
			r.class, r.msg = "skipped", "modified credential does not parse: "+err.Error()
			return r
		}
		target = t
		r.vcJSON = in.ModCred
	case "claim":
		s, err := parseSlots(in.ModClaim)
		if err != nil {
			r.class, r.msg = "skipped", err.Error()
			return r
		}
		r.claim = s
	}
	vh := in.Hasher
	if in.Kind == "o7" {
		vh = in.VerifyH
	}
	r.class, r.msg = g.check(target, r.claim, vh, in.Loader)
	if r.class == "skipped" {
		return r
	}
	r.verified = true
	r.accept = r.class == "accept"
	if !in.Bound || in.Kind == "complete" || in.Kind == "o7" || os.Getenv("C06_EXACT_ALL") != "" {
		ex := g.exact(target, r.claim, vh, in.Loader)
		r.exact = &ex
	}
	return r
}

// judge evaluates the implementation-side oracles of one executed case.
func (g *gen) judge(in *Input, r *result) {
	rep := g.rep
	if r.issueClass == "panic" || r.class == "panic" {
		rep.Fail("c06-panic", "panic: "+r.issueMsg+r.msg, in)
		return
	}
	if in.E2E != nil {
		g.judgeE2E(in, r)
		return
	}
	if in.VP != nil && r.vp != nil && r.vp.class != "skipped" {
		want := g.expectVP(in, r, *r.vp)
		if want != r.vp.class {
			cls := "c06-verifyproof-order"
			if r.vp.class == "accept" {
				cls = "c06-e2e-tamper-accepted"
			} else if want == "accept" {
				cls = "c06-e2e-complete-rejected"
			}
			rep.Fail(cls, fmt.Sprintf("%s: VerifyProof gives %s (%s), the binding-first reading gives %s", in.Site, r.vp.class, r.vp.msg, want), in)
		}
		return
	}
	if !r.verified {
		return
	}
	switch in.Kind {
	case "complete":
		if !r.accept {
			rep.Fail("c06-complete-rejected", "the claim produced at issuance does not pass the binding check: "+r.msg, in)
		}
		// idempotence through the claim (what completeness rests on), by the harness's own decoder
		if r.exact != nil && !*r.exact {
			rep.Fail("c06-readback-not-idempotent", "ToCoreClaim under the options read back from the issued claim gives another claim", in)
		}
	case "o7":
		if in.VerifyH == in.Hasher && !r.accept {
			rep.Fail("c06-complete-rejected", "issued and verified under the same merklizer options, rejected: "+r.msg, in)
		}
		if r.exact != nil && *r.exact != r.accept {
			rep.Fail("c06-binding-inexact", fmt.Sprintf("binding check says accept=%v, re-derivation reproduces the claim=%v", r.accept, *r.exact), in)
		}
	case "doc", "claim":
		if in.Mode != "" {
			g.judgeInPlace(in, r)
		}
		if r.exact != nil && *r.exact != r.accept {
			rep.Fail("c06-binding-inexact", fmt.Sprintf("site %s: binding check says accept=%v, re-derivation reproduces the claim=%v", in.Site, r.accept, *r.exact), in)
		}
		if in.Bound && r.accept {
			cls := "c06-doc-tamper-accepted"
			if in.Kind == "claim" {
				cls = "c06-claim-tamper-accepted"
			}
			if strings.HasPrefix(in.Site, "nul:") {
				cls = "c06-string-trailing-nul-accepted"
			}
			rep.Fail(cls, "modified at "+in.Site+" and still accepted", in)
		}
	}
}

func (g *gen) count(in *Input, r *result) {
	rep := g.rep
	rep.Evaluations++
	k := in.Kind
	if len(in.History) > 0 || in.Loader != 0 {
		k = "history-" + k
	}
	if in.Mode != "" {
		k = in.Mode + "-" + k
	}
	if in.E2E != nil {
		k = "e2e-" + in.E2E.Kind
		if in.E2E.Proof == "smt" {
			k = "e2e-smt-" + in.E2E.Kind
		}
	}
	cls := r.class
	if in.E2E != nil && r.e2eAccept != nil {
		cls = "reject"
		if *r.e2eAccept {
			cls = "accept"
		}
	}
	if r.issueClass != "ok" {
		cls = "issue-" + r.issueClass
	}
	site := ""
	if in.Site != "" && in.VP == nil {
		site = ":" + siteClass(in)
	}
	rep.Count(fmt.Sprintf("%s:%s%s:%s", k, in.Schema, site, cls))
	if in.Site != "" || in.Opts != (credgen.Opts{}) {
		b, _ := json.Marshal(in)
		rep.Distinct(string(b))
	}
}

func siteClass(in *Input) string {
	if in.Kind == "claim" || (in.E2E != nil && in.E2E.Kind == "claim") {
		return in.Field
	}
	s := in.Site
	if i := strings.Index(s, ":"); i >= 0 {
		verb, rest := s[:i], s[i+1:]
		if j := strings.Index(rest, "."); j >= 0 && strings.HasPrefix(rest, "credentialSubject") {
			rest = "subject-field"
			if in.Field == "" {
				rest = s[i+1:]
			}
		}
		return verb + ":" + rest
	}
	return s
}

// runAll executes the cases in parallel (deterministic order of results).
func (g *gen) runAll(ins []*Input, coq func(i int) bool) {
	for _, in := range ins {
		g.register(in)
	}
	res := make([]result, len(ins))
	var wg sync.WaitGroup
	sem := make(chan struct{}, runtime.NumCPU())
	for i := range ins {
		wg.Add(1)
		sem <- struct{}{}
		go func(i int) {
			defer wg.Done()
			defer func() { <-sem }()
			res[i] = g.exec(ins[i])
		}(i)
	}
	wg.Wait()
	for i, in := range ins {
		r := res[i]
		g.judge(in, &r)
		g.count(in, &r)
		g.recs = append(g.recs, &rec{in: in, res: r, coq: coq(i) && in.E2E == nil && in.Kind != "o7" && in.Hasher == 0})
		if in.VP != nil {
			g.rep.Count("vp-request:" + r.class)
		}
		if i == 0 || i == len(ins)/2 {
			g.rep.Sample(map[string]any{"kind": in.Kind, "schema": in.Schema, "site": in.Site, "options": in.Opts,
				"issue": r.issueClass, "binding_check": r.class, "message": r.msg})
		}
	}
}

// ---------------------------------------------------------------------------
// generation
// ---------------------------------------------------------------------------

func optionGrid() []credgen.Opts {
	var out []credgen.Opts
	for _, sp := range []string{"", "index", "value"} {
		for _, rp := range []string{"", "index", "value"} {
			for _, upd := range []bool{false, true} {
				for _, ver := range []uint32{0, 1, 1<<32 - 1} {
					for _, n := range []uint64{0, 1, 1<<64 - 1} {
						out = append(out, credgen.Opts{RevNonce: n, Version: ver, Subject: sp, Root: rp, Upd: upd})
					}
				}
			}
		}
	}
	return out
}

func (g *gen) base(sch *schemaInfo, sp credSpec, o credgen.Opts, kind string) *Input {
	doc := buildDoc(sp)
	b, _ := json.Marshal(doc)
	in := &Input{Kind: kind, Schema: sch.Label, Merklized: sch.Merklized, Paths: sch.AllPaths, Cred: b, Opts: o}
	in.Contexts = map[string]json.RawMessage{servicesURL: servicesContext()}
	if sch.Doc != nil {
		in.Contexts[sch.URL] = sch.Doc
	}
	return in
}

func (g *gen) credSpecs(sch *schemaInfo) []credSpec {
	did := credgen.MakeDID(7)
	did2 := credgen.MakeDID(12)
	specs := []credSpec{
		{Schema: sch, Subject: did, Expiration: i64(4102444800), Status: 2, Variant: 0},
		{Schema: sch, Subject: did2, Status: 1, Variant: 1},
		{Schema: sch, Expiration: i64(1893456000), Variant: 2},
		{Schema: sch, Variant: 3, NoServices: true},
		{Schema: sch, Subject: did, Expiration: i64(-86400), Variant: 4}, // before 1970
	}
	if sch.Label != "kyc-v3" {
		specs = append(specs, credSpec{Schema: sch, Subject: did, Expiration: i64(2000000000), NoSubjectType: true, Status: 1, Variant: 5})
		specs = append(specs, credSpec{Schema: sch, Subject: did2, Zero: true, Variant: 6})
	}
	return specs
}

func (g *gen) generate() {
	rng := g.cfg.Rng
	grid := optionGrid()
	schs := schemas()

	// 1. completeness over the option grid
	var ins []*Input
	for _, sch := range schs {
		for si, sp := range g.credSpecs(sch) {
			var os []credgen.Opts
			if g.cfg.Thorough() || (si == 0 && sch.Label == "own-merk") {
				os = grid
			} else if si == 0 && sch.Label == "own-ser" {
				for _, o := range grid {
					if o.Root == "" {
						os = append(os, o)
					}
				}
				os = append(os, credgen.Opts{Root: "index"}, credgen.Opts{Root: "value", Subject: "value"})
			} else {
				for k := 0; k < 6; k++ {
					os = append(os, grid[rng.Intn(len(grid))])
				}
				os = append(os, credgen.Opts{}, credgen.Opts{Subject: "value", Root: "value", Upd: true, Version: 7, RevNonce: 99})
			}
			os = append(os, credgen.Opts{Subject: "bogus"}, credgen.Opts{Root: "bogus"})
			for _, o := range os {
				ins = append(ins, g.base(sch, sp, o, "complete"))
			}
			n := g.base(sch, sp, credgen.Opts{}, "complete")
			n.NilOpts = true
			ins = append(ins, n)
		}
	}
	nComplete := len(ins)
	g.runAll(ins, func(i int) bool { return g.cfg.Thorough() || i%2 == 0 || i >= nComplete-40 })
	_ = nComplete

	// 2. every single-site modification of the credential document
	ins = nil
	docOpts := []credgen.Opts{{}, {Subject: "value", Root: "value", Upd: true, Version: 3, RevNonce: 12345678901234567890}}
	for _, sch := range schs {
		for si, sp := range g.credSpecs(sch) {
			doc := buildDoc(sp)
			mods := docMods(doc, sch)
			for oi, o := range docOpts {
				if !sch.Merklized {
					o.Root = ""
				}
				if !g.cfg.Thorough() && (oi == 1 && si > 0 || si == 2 || si == 4) {
					continue
				}
				for _, m := range mods {
					in := g.base(sch, sp, o, "doc")
					mb, _ := json.Marshal(m.Doc)
					in.ModCred, in.Site, in.Field = mb, m.Site, m.Field
					in.Bound = boundSite(sch, m, !sp.NoSubjectType)
					ins = append(ins, in)
				}
			}
		}
	}
	// the same modifications applied to the already issued-from and checked Go value
	{
		var extra []*Input
		n := 0
		for _, in := range ins {
			if in.Opts != (credgen.Opts{}) && in.Opts.RevNonce != 0 {
				continue
			}
			n++
			if !g.cfg.Thorough() && n%6 != 0 {
				continue
			}
			c := *in
			c.Mode = "inplace"
			extra = append(extra, &c)
			if n%2 == 0 {
				o := *in
				o.Mode = "over"
				o.Bound = false // encoding/json merges into the existing value: judged against a fresh value with the resulting content
				extra = append(extra, &o)
			}
		}
		ins = append(ins, extra...)
	}
	// probe: a string leaf extended by a NUL byte (observation O5 of DESIGN.md: HashBytes pads with zeros)
	for _, sch := range schs {
		if sch.Label != "own-merk" {
			continue
		}
		sp := g.credSpecs(sch)[0]
		doc := cloneDoc(buildDoc(sp))
		cs := doc["credentialSubject"].(map[string]any)
		cs["name"] = cs["name"].(string) + "\x00"
		in := g.base(sch, sp, credgen.Opts{}, "doc")
		mb, _ := json.Marshal(doc)
		in.ModCred, in.Site, in.Field, in.Bound = mb, "nul:credentialSubject.name", "name", true
		ins = append(ins, in)
	}
	g.runAll(ins, func(i int) bool { return true })

	// 3. single-site modifications of the claim
	ins = nil
	type pick struct {
		sch *schemaInfo
		sp  int
		o   credgen.Opts
		all bool
	}
	picks := []pick{
		{schs[0], 0, credgen.Opts{RevNonce: 77, Version: 5}, true},
		{schs[0], 0, credgen.Opts{Subject: "value", Root: "value", Upd: true, Version: 1<<32 - 1, RevNonce: 1<<64 - 1}, true},
		{schs[1], 0, credgen.Opts{RevNonce: 5, Subject: "index"}, true},
		{schs[0], 3, credgen.Opts{}, false},
		{schs[1], 2, credgen.Opts{Upd: true, Version: 9}, false},
		{schs[2], 0, credgen.Opts{RevNonce: 74881362}, true},
		{schs[2], 4, credgen.Opts{Root: "value"}, false},
	}
	var coqMask []bool
	for pi, p := range picks {
		if !g.cfg.Thorough() && (pi == 3 || pi == 4 || pi == 6) {
			continue
		}
		sp := g.credSpecs(p.sch)[p.sp]
		probe := g.base(p.sch, sp, p.o, "complete")
		g.register(probe)
		vc, _ := parseVC(probe.Cred)
		cls, slots, msg := g.issue(vc, p.o, false, 0)
		if cls != "ok" {
			g.rep.Notes = append(g.rep.Notes, "claim modification base did not issue: "+msg)
			continue
		}
		mk := func(m claimMod) *Input {
			in := g.base(p.sch, sp, p.o, "claim")
			in.Site, in.Field, in.ModClaim = m.Site, m.Field, slotStrings(m.Slots)
			in.Bound = !optionField(m.Field) && m.Field != "v0"
			return in
		}
		for _, m := range fieldMods(slots) {
			ins = append(ins, mk(m))
			coqMask = append(coqMask, true)
		}
		if p.all && g.cfg.Thorough() {
			// every single-bit change; a few per bit field go to the Coq model, all go through the implementation-side oracles
			seen := map[string]int{}
			for _, m := range allBitFlips(slots) {
				ins = append(ins, mk(m))
				seen[m.Field]++
				coqMask = append(coqMask, seen[m.Field] <= 2 || rng.Intn(40) == 0)
			}
		} else {
			for _, m := range sampledFlips(slots, rng, 2) {
				ins = append(ins, mk(m))
				coqMask = append(coqMask, true)
			}
		}
	}
	g.runAll(ins, func(i int) bool { return coqMask[i] })

	// 4. merklizer options are not carried by the claim (reading note O7)
	ins = nil
	for h := 1; h <= len(g.alt) && h <= 2; h++ {
		sch := schs[0]
		sp := g.credSpecs(sch)[0]
		for _, vh := range []int{h, 0} {
			in := g.base(sch, sp, credgen.Opts{RevNonce: 3}, "o7")
			in.Hasher, in.VerifyH = h, vh
			ins = append(ins, in)
		}
	}
	g.runAll(ins, func(i int) bool { return false })

	// 5. end to end: VerifyProof on signed bundles
	g.generateE2E(schs)

	// 6. VerifyProof's order of steps on bundles with several proof objects
	g.runAll(g.generateVP(schs), func(int) bool { return true })

	// 7. histories: the same context URLs and type resolving differently through two loaders
	g.runAll(g.generateHistory(), func(int) bool { return true })

	// 8. subject identifiers that are not DIDs
	g.runAll(g.generateNonDID(schs), func(int) bool { return true })

	// 9. one serialized schema per subset of the four data slots
	g.runAll(g.generateSlotSubsets(), func(int) bool { return true })

	// 10. credentials that carry an undefined member already at issuance
	g.runAll(g.generateUndefined(schs), func(int) bool { return true })

	// observations that are not failures (readings recorded in coq/Claim/README_Binding.md)
	var optAcc, optAll, idAcc, o7rej, e2eOpt int
	for _, r := range g.recs {
		in := r.in
		switch {
		case in.Kind == "claim" && optionField(in.Field):
			optAll++
			if r.res.accept {
				optAcc++
			}
		case in.Kind == "doc" && in.Site == "change:id" && r.res.accept:
			idAcc++
		case in.Kind == "o7" && in.VerifyH != in.Hasher && !r.res.accept:
			o7rej++
		case in.E2E != nil && in.E2E.Kind == "claim" && optionField(in.Field) && r.res.e2eAccept != nil && !*r.res.e2eAccept:
			e2eOpt++
		}
	}
	g.rep.Notes = append(g.rep.Notes,
		fmt.Sprintf("nonce/version/updatable are options read back from the claim: %d of %d such single-field changes pass the binding check alone (the claim of the same credential under other options); %d such changes were rejected end to end by the signature / inclusion proof", optAcc, optAll, e2eOpt),
		fmt.Sprintf("the credential's own top-level id is the object of no statement: %d changes of it accepted (site change:id, not required to be rejected)", idAcc),
		fmt.Sprintf("reading note O7: %d credentials issued under a non-default hasher rejected by a verifier using the default one (merklizer options are not carried by the claim)", o7rej))
}

// ---------------------------------------------------------------------------
// shards
// ---------------------------------------------------------------------------

const shardSize = 350

func limbsList(s [8]*big.Int) string {
	var l []string
	for _, x := range s {
		l = append(l, coqgen.Limbs(x))
	}
	return "[" + strings.Join(l, "; ") + "]"
}

func rawvCoq(f *coqgen.File, r *credgen.RawV) string {
	if r == nil {
		return "None"
	}
	return "(Some (" + r.Coq(f) + "))"
}

// viewCoq renders `mk_cred ...` (constructors of Claim/Run.v) with the term list given by name.
func viewCoq(f *coqgen.File, v credgen.View, ctxName string) string {
	mz := "None"
	if v.MzOK {
		var keys []string
		for k := range v.Fields {
			keys = append(keys, k)
		}
		sort.Strings(keys)
		var fl []string
		for _, k := range keys {
			fl = append(fl, fmt.Sprintf("(%s, %s)", f.Str(k), coqgen.OptLimbs(v.Fields[k])))
		}
		mz = fmt.Sprintf("(Some (mk_mz %s %s %s [%s]))", rawvCoq(f, v.CsType), rawvCoq(f, v.TopType), coqgen.Limbs(v.Root), strings.Join(fl, "; "))
	}
	subj := "None"
	if v.Subject != nil {
		subj = "(Some " + f.Str(*v.Subject) + ")"
	}
	exp := "None"
	if v.Exp != nil {
		exp = "(Some " + coqgen.SNumI(*v.Exp) + ")"
	}
	return fmt.Sprintf("mk_cred %s %s %s %s", mz, subj, exp, ctxName)
}

func (g *gen) writeShards() error {
	var rs []*rec
	for _, r := range g.recs {
		if r.coq && r.res.issueClass != "panic" {
			rs = append(rs, r)
		}
	}
	// the credential views are computed in parallel up front
	{
		type job struct {
			key   string
			ld    int
			js    []byte
			paths []string
		}
		seen := map[string]bool{}
		var jobs []job
		addJob := func(ld int, js []byte, paths []string) {
			k := fmt.Sprintf("%d|%s", ld, js)
			if js != nil && !seen[k] {
				seen[k] = true
				jobs = append(jobs, job{k, ld, js, paths})
			}
		}
		for _, r := range rs {
			if r.in.Kind == "complete" || r.in.VP != nil {
				addJob(r.in.Loader, r.in.Cred, r.in.Paths)
			}
			if r.res.verified {
				addJob(r.in.Loader, r.res.vcJSON, r.in.Paths)
			}
		}
		g.views = map[string]credgen.View{}
		var wg sync.WaitGroup
		sem := make(chan struct{}, runtime.NumCPU())
		for _, j := range jobs {
			wg.Add(1)
			sem <- struct{}{}
			go func(j job) {
				defer wg.Done()
				defer func() { <-sem }()
				vc, err := parseVC(j.js)
				if err != nil {
					return
				}
				v := g.ownView(j.ld, vc, j.paths)
				g.mu.Lock()
				g.views[j.key] = v
				g.mu.Unlock()
			}(j)
		}
		wg.Wait()
	}
	for s := 0; s*shardSize < len(rs); s++ {
		lo, hi := s*shardSize, (s+1)*shardSize
		if hi > len(rs) {
			hi = len(rs)
		}
		f := coqgen.NewFile("From GSP Require Import Claim.Model Claim.Run Claim.Binding Claim.BindingRun.")
		or := credgen.NewOracles()
		name := filepath.Join(g.cfg.OutDir, fmt.Sprintf("cases_C06_%03d.v", s))
		credIdx := map[string]int{}
		var credDefs []string
		ctxIdx := map[string]string{}
		var ctxDefs []string
		viewOf := func(vcJSON []byte, paths []string, ld int) (int, error) {
			ckey := fmt.Sprintf("%d|%s", ld, vcJSON)
			if i, ok := credIdx[ckey]; ok {
				return i, nil
			}
			vc, err := parseVC(vcJSON)
			if err != nil {
				return 0, err
			}
			v, ok := g.views[ckey]
			if !ok {
				v = g.ownView(ld, vc, paths)
			}
			or.Note(v)
			// term lists are shared between the credentials of one @context array (per loader)
			ck := fmt.Sprintf("%d|%v|%s", ld, v.CtxOK, strings.Join(vc.Context, " "))
			cn, ok := ctxIdx[ck]
			if !ok {
				cn = fmt.Sprintf("ctx%d", len(ctxIdx))
				ctxIdx[ck] = cn
				ctxDefs = append(ctxDefs, fmt.Sprintf("Definition %s : option (list term) := %s.", cn, credgen.TermsCoq(f, v.Terms, v.CtxOK)))
			}
			full := viewCoq(f, v, cn)
			i := len(credIdx)
			credIdx[ckey] = i
			credDefs = append(credDefs, fmt.Sprintf("Definition cred%d := %s.", i, full))
			return i, nil
		}
		var ics, bcs, vcs []string
		id := 0
		for _, r := range rs[lo:hi] {
			in, res := r.in, r.res
			if in.VP != nil {
				if res.vp == nil || res.vp.class == "skipped" || res.vp.class == "panic" {
					continue
				}
				ci, err := viewOf(in.Cred, in.Paths, in.Loader)
				if err != nil {
					continue
				}
				var ps []string
				for _, p := range res.vp.proofs {
					cl := "None"
					if p.claim != nil {
						s, _ := parseSlots(p.claim[:])
						cl = "(Some " + limbsList(s) + ")"
					}
					ps = append(ps, fmt.Sprintf("mkp %s %s %s", f.Str(p.typ), cl, coqgen.Bool(p.restOK)))
				}
				obs := map[string]string{"accept": "PAccept", "not-found": "PNotFound", "not-supported": "PNotSupported", "reject": "PReject"}[res.vp.class]
				vcs = append(vcs, fmt.Sprintf("mkv %d %d [%s] %s %s", id, ci, strings.Join(ps, "; "), f.Str(res.vp.request), obs))
				g.rep.Case(name, id, in)
				id++
				continue
			}
			if in.Kind == "complete" {
				ci, err := viewOf(in.Cred, in.Paths, in.Loader)
				if err != nil {
					continue
				}
				obs := "OErr"
				if res.issueClass == "ok" {
					obs = "OClaim " + limbsList(res.issued)
				}
				o := "(Some (" + in.Opts.Coq(f) + "))"
				if in.NilOpts {
					o = "None"
				}
				ics = append(ics, fmt.Sprintf("mki %d %d %s (%s)", id, ci, o, obs))
				g.rep.Case(name, id, in)
				id++
			}
			if !res.verified {
				continue
			}
			ci, err := viewOf(res.vcJSON, in.Paths, in.Loader)
			if err != nil {
				continue
			}
			obs := "BReject"
			if res.accept {
				obs = "BAccept"
			}
			bcs = append(bcs, fmt.Sprintf("mkb %d %d %s %s", id, ci, limbsList(res.claim), obs))
			g.rep.Case(name, id, in)
			id++
		}
		f.Add(ctxDefs...)
		f.Add(credDefs...)
		var cl []string
		for i := range credDefs {
			cl = append(cl, fmt.Sprintf("cred%d", i))
		}
		f.Add("Definition creds : list cred := [" + strings.Join(cl, "; ") + "].")
		f.Add("Definition oracles := " + or.Coq(f) + ".")
		f.Add("Definition icases : list icase := " + coqgen.List(ics) + ".")
		f.Add("Definition bcases : list bcase := " + coqgen.List(bcs) + ".")
		f.Add("Definition vcases : list vcase := " + coqgen.List(vcs) + ".")
		f.Add("Definition M := Eval vm_compute in (imismatches oracles creds icases ++ bmismatches oracles creds bcases ++ vmismatches oracles creds vcases).")
		f.Add("Print M.")
		if err := f.Write(name); err != nil {
			return err
		}
		g.rep.Shards = append(g.rep.Shards, name)
	}
	return nil
}

// ---------------------------------------------------------------------------
// entry point
// ---------------------------------------------------------------------------

func Run(cfg *common.Config) (*common.Report, error) {
	g := newGen(cfg)
	g.rep.Rule = "non-trivial = a case with a modification site or with non-zero issuance options; distinct = distinct (credential, options, modification) inputs"
	g.rep.Correspondence = "Claim/Binding.v verify_binding (on Claim/Model.v to_core_claim) vs W3CCredential.verifyCredentialCoreClaim (through VerifVerifyCoreClaim) on accept/reject, " +
		"and Claim/Model.v to_core_claim vs W3CCredential.ToCoreClaim on the 8 raw slots / error, for the same credential view, options and claim"
	if cfg.Replay != "" {
		var payload struct {
			Input json.RawMessage `json:"input"`
		}
		if err := common.ReadJSON(cfg.Replay, &payload); err != nil {
			return nil, err
		}
		var in Input
		if err := json.Unmarshal(payload.Input, &in); err != nil {
			return nil, fmt.Errorf("replay file has no usable input: %v", err)
		}
		g.runAll([]*Input{&in}, func(int) bool { return true })
		if err := g.writeShards(); err != nil {
			return nil, err
		}
		return g.rep, nil
	}
	g.generate()
	if err := g.writeShards(); err != nil {
		return nil, err
	}
	return g.rep, nil
}
