package c06

import (
	"context"
	"encoding/hex"
	"encoding/json"
	"fmt"
	"math/big"
	"math/rand"
	"strings"

	core "github.com/iden3/go-iden3-core/v2"
	"github.com/iden3/go-iden3-core/v2/w3c"
	"github.com/iden3/go-iden3-crypto/babyjub"
	"github.com/iden3/go-iden3-crypto/poseidon"
	"github.com/iden3/go-merkletree-sql/v2"
	"github.com/iden3/go-merkletree-sql/v2/db/memory"
	"github.com/iden3/go-schema-processor/v2/verifiable"

	"vharness/credgen"
)

// E2E describes an end-to-end case: the issuance claim is signed by a synthetic
// issuer (BabyJubJub key drawn from Seed, genesis state, auth claim in its claims
// tree), the proof is attached to the credential and W3CCredential.VerifyProof
// is called with stub DID / status resolvers that answer honestly.
type E2E struct {
	Kind      string `json:"kind"` // complete | doc | claim | type
	Seed      int64  `json:"seed"`
	Proof     string `json:"proof"`      // bjj (default) | smt: which proof the issuer produces
	ProofType string `json:"proof_type"` // the type asked of VerifyProof ("" = the produced one)
	AsType    string `json:"as_type"`    // the "type" member written into the proof object
}

const e2eStatusType = "Iden3ReverseSparseMerkleTreeProof"

type issuerID struct {
	sk       babyjub.PrivateKey
	auth     *core.Claim
	claims   *merkletree.MerkleTree
	state    *big.Int
	did      *w3c.DID
	authMTP  *merkletree.Proof
	stateHex string
	ctrHex   string
}

func hexOf(z *big.Int) string {
	h, err := merkletree.NewHashFromBigInt(z)
	if err != nil {
		panic(err)
	}
	return h.Hex()
}

func newIssuer(seed int64) (*issuerID, error) {
	rng := rand.New(rand.NewSource(seed))
	id := &issuerID{}
	for i := range id.sk {
		id.sk[i] = byte(rng.Intn(256))
	}
	pk := id.sk.Public()
	auth, err := core.NewClaim(core.AuthSchemaHash, core.WithIndexDataInts(pk.X, pk.Y), core.WithRevocationNonce(0))
	if err != nil {
		return nil, err
	}
	id.auth = auth
	t, err := merkletree.NewMerkleTree(bg, memory.NewMemoryStorage(), 40)
	if err != nil {
		return nil, err
	}
	hi, hv, err := auth.HiHv()
	if err != nil {
		return nil, err
	}
	if err := t.Add(bg, hi, hv); err != nil {
		return nil, err
	}
	id.claims = t
	ctr := t.Root().BigInt()
	st, err := poseidon.Hash([]*big.Int{ctr, big.NewInt(0), big.NewInt(0)})
	if err != nil {
		return nil, err
	}
	id.state = st
	typ, err := core.BuildDIDType(core.DIDMethodPolygonID, core.Polygon, core.Mumbai)
	if err != nil {
		return nil, err
	}
	did, err := core.NewDIDFromIdenState(typ, st)
	if err != nil {
		return nil, err
	}
	id.did = did
	p, _, err := t.GenerateProof(bg, hi, nil)
	if err != nil {
		return nil, err
	}
	id.authMTP = p
	id.stateHex, id.ctrHex = hexOf(st), hexOf(ctr)
	return id, nil
}

func (id *issuerID) sign(c *core.Claim) (string, error) {
	hi, hv, err := c.HiHv()
	if err != nil {
		return "", err
	}
	m, err := poseidon.Hash([]*big.Int{hi, hv})
	if err != nil {
		return "", err
	}
	s := id.sk.SignPoseidon(m).Compress()
	return hex.EncodeToString(s[:]), nil
}

// stubDID knows the issuer's genesis state (not published: the genesis rule applies)
// and the states it published later.
type stubDID struct {
	id        *issuerID
	published map[string]bool
}

func (s stubDID) Resolve(_ context.Context, did *w3c.DID) (verifiable.DIDDocument, error) {
	c := *did
	c.Query = ""
	st := strings.TrimPrefix(did.Query, "state=")
	if c.String() != s.id.did.String() || (st != s.id.stateHex && !s.published[st]) {
		return verifiable.DIDDocument{}, fmt.Errorf("stub resolver: unknown %s", did.String())
	}
	base := c.String()
	doc := verifiable.DIDDocument{Context: "https://www.w3.org/ns/did/v1", ID: base}
	vm := verifiable.CommonVerificationMethod{ID: base + "#stateInfo", Type: "Iden3StateInfo2023", Controller: base}
	if s.published[st] {
		t := true
		vm.IdentityState.Published = &t
	}
	doc.VerificationMethod = append(doc.VerificationMethod, vm)
	return doc, nil
}

// bundleSMT adds `signed` to the issuer's claims tree (a new, published state) and attaches the
// inclusion proof, carrying `carried` as coreClaim.
func (id *issuerID) bundleSMT(doc []byte, signed, carried *core.Claim, asType string) ([]byte, string, error) {
	hi, hv, err := signed.HiHv()
	if err != nil {
		return nil, "", err
	}
	if err := id.claims.Add(bg, hi, hv); err != nil && err != merkletree.ErrEntryIndexAlreadyExists {
		return nil, "", err
	}
	ctr := id.claims.Root().BigInt()
	st, err := poseidon.Hash([]*big.Int{ctr, big.NewInt(0), big.NewInt(0)})
	if err != nil {
		return nil, "", err
	}
	p, _, err := id.claims.GenerateProof(bg, hi, nil)
	if err != nil {
		return nil, "", err
	}
	ch, err := carried.Hex()
	if err != nil {
		return nil, "", err
	}
	proof := map[string]any{
		"type": asType,
		"issuerData": map[string]any{
			"id":    id.did.String(),
			"state": map[string]any{"value": hexOf(st), "claimsTreeRoot": hexOf(ctr)},
		},
		"coreClaim": ch,
		"mtp":       p,
	}
	var m map[string]any
	if err := json.Unmarshal(doc, &m); err != nil {
		return nil, "", err
	}
	m["proof"] = []any{proof}
	b, err := json.Marshal(m)
	return b, hexOf(st), err
}

type stubStatus struct{ id *issuerID }

func (s stubStatus) Resolve(_ context.Context, _ verifiable.CredentialStatus) (verifiable.RevocationStatus, error) {
	var out verifiable.RevocationStatus
	b, _ := json.Marshal(map[string]any{
		"issuer": map[string]any{"state": s.id.stateHex, "claimsTreeRoot": s.id.ctrHex},
		"mtp":    map[string]any{"existence": false, "siblings": []string{}},
	})
	err := json.Unmarshal(b, &out)
	return out, err
}

// bundle attaches a BJJ proof over `signed` (carrying `carried` as coreClaim) to the document.
func (id *issuerID) bundle(doc []byte, signed, carried *core.Claim, asType string) ([]byte, error) {
	sig, err := id.sign(signed)
	if err != nil {
		return nil, err
	}
	ch, err := carried.Hex()
	if err != nil {
		return nil, err
	}
	ah, err := id.auth.Hex()
	if err != nil {
		return nil, err
	}
	proof := map[string]any{
		"type": asType,
		"issuerData": map[string]any{
			"id":            id.did.String(),
			"state":         map[string]any{"value": id.stateHex, "claimsTreeRoot": id.ctrHex},
			"authCoreClaim": ah,
			"mtp":           id.authMTP,
			"credentialStatus": map[string]any{
				"id": "https://status.example/issuer", "type": e2eStatusType, "revocationNonce": 0,
			},
		},
		"coreClaim": ch,
		"signature": sig,
	}
	var m map[string]any
	if err := json.Unmarshal(doc, &m); err != nil {
		return nil, err
	}
	m["proof"] = []any{proof}
	return json.Marshal(m)
}

func (g *gen) execE2E(in *Input, vc *verifiable.W3CCredential, r *result) {
	defer func() {
		if p := recover(); p != nil {
			r.class, r.msg = "panic", fmt.Sprint(p)
		}
	}()
	id, err := newIssuer(in.E2E.Seed)
	if err != nil {
		r.class, r.msg = "skipped", "issuer: "+err.Error()
		return
	}
	signed, err := slotsToClaim(r.issued)
	if err != nil {
		r.class, r.msg = "skipped", err.Error()
		return
	}
	carried := signed
	r.claim = r.issued
	doc := []byte(in.Cred)
	switch in.E2E.Kind {
	case "doc":
		if in.Mode != "inplace" {
			doc = []byte(in.ModCred)
		}
	case "claim":
		s, err := parseSlots(in.ModClaim)
		if err != nil {
			r.class, r.msg = "skipped", err.Error()
			return
		}
		carried, err = slotsToClaim(s)
		if err != nil {
			r.class, r.msg = "skipped", err.Error()
			return
		}
		r.claim = s
	}
	produced := verifiable.BJJSignatureProofType
	if in.E2E.Proof == "smt" {
		produced = verifiable.Iden3SparseMerkleTreeProofType
	}
	asType := in.E2E.AsType
	if asType == "" {
		asType = string(produced)
	}
	resolver := stubDID{id: id, published: map[string]bool{}}
	var b []byte
	if in.E2E.Proof == "smt" {
		var st string
		b, st, err = id.bundleSMT(doc, signed, carried, asType)
		resolver.published[st] = true
	} else {
		b, err = id.bundle(doc, signed, carried, asType)
	}
	if err != nil {
		r.class, r.msg = "skipped", "bundle: "+err.Error()
		return
	}
	full, err := parseVC(b)
	if err != nil {
		r.class, r.msg = "skipped", "bundle does not parse: "+err.Error()
		return
	}
	reg := verifiable.CredentialStatusResolverRegistry{}
	reg.Register(e2eStatusType, stubStatus{id})
	pt := verifiable.ProofType(in.E2E.ProofType)
	if pt == "" {
		pt = produced
	}
	if in.Mode == "inplace" && in.E2E.Kind == "doc" {
		// verify the honest bundle, then edit the same Go value in place and verify again
		first := full.VerifyProof(bg, pt, resolver,
			verifiable.WithStatusResolverRegistry(&reg), verifiable.VerifWithMerklizeOptions(g.mzOpts(0)...))
		r.firstClass = "accept"
		if first != nil {
			r.firstClass = "reject"
		}
		m, perr := parseVC(in.ModCred)
		if perr != nil {
			r.class, r.msg = "skipped", "modified credential does not parse: "+perr.Error()
			return
		}
		assignInPlace(full, m)
	}
	err = full.VerifyProof(bg, pt, resolver,
		verifiable.WithStatusResolverRegistry(&reg), verifiable.VerifWithMerklizeOptions(g.mzOpts(0)...))
	acc := err == nil
	r.e2eAccept = &acc
	r.class = "reject"
	if acc {
		r.class = "accept"
	} else {
		r.e2eMsg = err.Error()
		r.msg = err.Error()
	}
	// the binding check alone on the same pair (what VerifyProof must have run first)
	bc, _ := g.check(full, r.claim, 0)
	r.verified = bc == "accept" || bc == "reject"
	r.accept = bc == "accept"
}

func (g *gen) judgeE2E(in *Input, r *result) {
	if r.e2eAccept == nil {
		return
	}
	rep := g.rep
	switch in.E2E.Kind {
	case "complete":
		if !*r.e2eAccept {
			rep.Fail("c06-e2e-complete-rejected", "VerifyProof rejects an honest bundle: "+r.e2eMsg, in)
		}
	case "doc", "claim":
		if in.Mode == "inplace" && r.firstClass == "reject" {
			rep.Fail("c06-e2e-complete-rejected", "VerifyProof rejects the honest bundle before the in-place edit", in)
		}
		if in.Bound && *r.e2eAccept {
			rep.Fail("c06-e2e-tamper-accepted", "VerifyProof accepts a bundle modified at "+in.Site, in)
		}
	case "type":
		if *r.e2eAccept {
			rep.Fail("c06-e2e-tamper-accepted", "VerifyProof accepts a proof of another type", in)
		}
	}
	// C06_first: whenever the binding check fails on the selected proof's claim, VerifyProof fails
	if r.verified && !r.accept && *r.e2eAccept {
		rep.Fail("c06-first-skipped", "binding check rejects the pair but VerifyProof accepts it", in)
	}
	// ... and it fails with the binding check's error, whatever the rest of the proof says
	if r.verified && !r.accept && !*r.e2eAccept && in.E2E.Kind != "type" {
		if !strings.Contains(r.e2eMsg, "proof generated for another credential") &&
			!strings.Contains(r.e2eMsg, "merklized") && !strings.Contains(r.e2eMsg, "position") {
			// informative only: error strings are not observables of the property
			rep.Count("e2e-note:binding-rejects-other-message")
		}
	}
}

func (g *gen) generateE2E(schs []*schemaInfo) {
	var ins []*Input
	seed := g.cfg.Rng.Int63()
	for si, sch := range schs {
		specs := g.credSpecs(sch)
		for pi, sp := range specs {
			if !g.cfg.Thorough() && pi > 1 {
				continue
			}
			o := credgen.Opts{RevNonce: 1000 + uint64(pi), Version: uint32(si)}
			if pi%2 == 1 && sch.Merklized {
				o.Root, o.Subject, o.Upd = "value", "value", true
			}
			c := g.base(sch, sp, o, "e2e")
			c.E2E = &E2E{Kind: "complete", Seed: seed + int64(pi)}
			ins = append(ins, c)
			c2 := g.base(sch, sp, o, "e2e")
			c2.E2E = &E2E{Kind: "complete", Seed: seed + int64(pi), Proof: "smt"}
			ins = append(ins, c2)
			// another proof type asked
			t1 := g.base(sch, sp, o, "e2e")
			t1.E2E = &E2E{Kind: "type", Seed: seed, ProofType: string(verifiable.Iden3SparseMerkleTreeProofType)}
			t1.Site = "type:requested-other"
			ins = append(ins, t1)
			if pi > 0 && !g.cfg.Thorough() {
				continue
			}
			doc := buildDoc(sp)
			for mi, m := range docMods(doc, sch) {
				in := g.base(sch, sp, o, "e2e")
				mb, _ := json.Marshal(m.Doc)
				in.ModCred, in.Site, in.Field = mb, m.Site, m.Field
				in.Bound = boundSite(sch, m, !sp.NoSubjectType)
				in.E2E = &E2E{Kind: "doc", Seed: seed}
				if mi%2 == 1 {
					in.E2E.Proof = "smt"
				}
				ins = append(ins, in)
				if mi%4 == 0 || g.cfg.Thorough() {
					ip := *in
					e := *in.E2E
					ip.E2E, ip.Mode = &e, "inplace"
					ins = append(ins, &ip)
				}
			}
			vc, _ := parseVC(c.Cred)
			g.register(c)
			cls, slots, _ := g.issue(vc, o, false, 0)
			if cls != "ok" {
				continue
			}
			mods := fieldMods(slots)
			if g.cfg.Thorough() && si < 2 {
				mods = append(mods, allBitFlips(slots)...)
			} else if si == 0 {
				mods = append(mods, sampledFlips(slots, g.cfg.Rng, 1)...)
			}
			for mi, m := range mods {
				in := g.base(sch, sp, o, "e2e")
				in.Site, in.Field, in.ModClaim = m.Site, m.Field, slotStrings(m.Slots)
				in.Bound = true // end to end every change of the signed / included claim must be rejected
				in.E2E = &E2E{Kind: "claim", Seed: seed}
				if mi%2 == 1 {
					in.E2E.Proof = "smt"
				}
				ins = append(ins, in)
			}
		}
	}
	g.runAll(ins, func(int) bool { return false })
}
