package c06

import (
	"bytes"
	"encoding/json"
	"fmt"
	"math/big"

	"github.com/iden3/go-schema-processor/v2/merklize"
	"github.com/iden3/go-schema-processor/v2/verifiable"
	"github.com/piprate/json-gold/ld"

	"vharness/credgen"
)

// ownView computes what the Coq model reads from a credential WITHOUT calling
// W3CCredential.Merklize (nor ToCoreClaim): the value is encoded with
// encoding/json, the proof member removed, and the document handed to
// merklize.MerklizeJSONLD directly, under the merklizer's own defaults (safe mode
// on) and the case's document loader.  A change inside W3CCredential.Merklize
// (fields left out, safe mode switched off, a remembered merklizer) therefore
// shows up as a disagreement between the model and the implementation.
func (g *gen) ownView(ld_ int, vc *verifiable.W3CCredential, paths []string) credgen.View {
	e := g.envOf(ld_)
	v := credgen.View{Fields: map[string]*big.Int{}}
	if id := vc.CredentialSubject["id"]; id != nil {
		s := fmt.Sprintf("%v", id)
		v.Subject = &s
	}
	if vc.Expiration != nil {
		u := vc.Expiration.Unix()
		v.Exp = &u
	}
	doc, err := withoutProof(vc)
	if err != nil {
		return v
	}
	mz, err := merklize.MerklizeJSONLD(bg, bytes.NewReader(doc), merklize.WithDocumentLoader(e.Loader))
	if err != nil {
		return v
	}
	v.MzOK = true
	o := mz.Options()
	raw := func(parts ...interface{}) *credgen.RawV {
		p, err := o.NewPath(parts...)
		if err != nil {
			return nil
		}
		x, err := mz.RawValue(p)
		if err != nil {
			return nil
		}
		r := toRawV(x)
		return &r
	}
	v.CsType = raw("https://www.w3.org/2018/credentials#credentialSubject", "@type")
	v.TopType = raw("@type")
	v.Root = mz.Root().BigInt()
	for _, fp := range paths {
		if fp == "" {
			continue
		}
		v.Fields[fp] = nil
		p, err := mz.ResolveDocPath("credentialSubject." + fp)
		if err != nil {
			continue
		}
		en, err := mz.Entry(p)
		if err != nil {
			continue
		}
		x, err := en.ValueMtEntry()
		if err != nil {
			continue
		}
		v.Fields[fp] = x
	}
	var ctxs []any
	if vc.Context != nil {
		ctxs = make([]any, len(vc.Context))
		for i := range vc.Context {
			ctxs[i] = vc.Context[i]
		}
	}
	if ldCtx, err := ld.NewContext(nil, o.JSONLDOptions()).Parse(ctxs); err == nil {
		v.Terms, v.CtxOK = credgen.TermsOf(ldCtx)
	}
	return v
}

func toRawV(x any) credgen.RawV {
	switch t := x.(type) {
	case string:
		return credgen.RawV{Kind: "str", Str: t}
	case []any:
		r := credgen.RawV{Kind: "arr"}
		for _, e := range t {
			r.Arr = append(r.Arr, toRawV(e))
		}
		return r
	default:
		return credgen.RawV{Kind: "other"}
	}
}

var _ = json.Marshal
