package c06

import (
	"encoding/json"
	"fmt"
	"strings"

	"vharness/credgen"
)

// Histories: the same list of context URLs and the same type served by two
// document loaders, one resolving the schema URL to the serialized
// (iden3_serialization) variant of the context and one to the merklized variant,
// used one after the other in one process, in both orders.  Each case carries
// the earlier calls as History and replays them first, so it is self-contained;
// nothing the implementation did for the earlier credential may influence the
// later one.
func histSchema(url string, ser bool) *schemaInfo {
	all := []string{"name", "count", "price", "active", "since", "ref", "spare", "discount", "info.grade", "info.note"}
	if ser {
		return &schemaInfo{Label: "hist-ser", URL: url, Type: ownType, Other: ownOther, Merklized: false,
			SlotPaths: []string{"count", "info.grade", "active", "name"}, AllPaths: all, Doc: ownContext(ownSerAttr)}
	}
	return &schemaInfo{Label: "hist-merk", URL: url, Type: ownType, Other: ownOther, Merklized: true, AllPaths: all, Doc: ownContext("")}
}

func (g *gen) generateHistory() []*Input {
	var ins []*Input
	type order struct {
		url          string
		firstSer     bool
		first, later int // loader indices
	}
	orders := []order{
		{"https://schemas.example/c06/hist-a.json-ld", true, 1, 2},
		{"https://schemas.example/c06/hist-b.json-ld", false, 2, 1},
	}
	if g.cfg.Thorough() {
		orders = append(orders,
			order{"https://schemas.example/c06/hist-c.json-ld", true, 1, 0},
			order{"https://schemas.example/c06/hist-d.json-ld", false, 0, 2})
	}
	for oi, od := range orders {
		s1, s2 := histSchema(od.url, od.firstSer), histSchema(od.url, !od.firstSer)
		sp1 := g.credSpecs(s1)[0]
		sp2 := g.credSpecs(s2)[1]
		sp1.Schema, sp2.Schema = s1, s2
		o1 := credgen.Opts{RevNonce: 11 + uint64(oi)}
		o2 := credgen.Opts{RevNonce: 21 + uint64(oi), Version: 1, Upd: true}
		// first step
		f := g.base(s1, sp1, o1, "complete")
		f.Loader = od.first
		f.Site = fmt.Sprintf("history:first:%s", s1.Label)
		ins = append(ins, f)
		hist := []HistStep{{Loader: od.first, Contexts: f.Contexts, Cred: f.Cred, Opts: o1}}
		// second step: the same URLs and type now resolve to the other variant
		c := g.base(s2, sp2, o2, "complete")
		c.Loader, c.History = od.later, hist
		c.Site = fmt.Sprintf("history:later:%s", s2.Label)
		ins = append(ins, c)
		doc := buildDoc(sp2)
		for _, m := range docMods(doc, s2) {
			in := g.base(s2, sp2, o2, "doc")
			mb, _ := json.Marshal(m.Doc)
			in.ModCred, in.Site, in.Field = mb, m.Site, m.Field
			in.Bound = boundSite(s2, m, !sp2.NoSubjectType)
			in.Loader, in.History = od.later, hist
			ins = append(ins, in)
		}
		// and back: the first credential again after the second one was handled
		b := g.base(s1, sp1, o1, "complete")
		b.Loader = od.first
		b.History = append(append([]HistStep{}, hist...), HistStep{Loader: od.later, Contexts: c.Contexts, Cred: c.Cred, Opts: o2})
		b.Site = fmt.Sprintf("history:again:%s", s1.Label)
		ins = append(ins, b)
	}
	return ins
}

// Subject identifiers that are not DIDs: ToCoreClaim must refuse the credential
// (w3c.ParseDID / core.IDFromDID error), so completeness is vacuous; should
// issuance succeed, the identifier must still be bound: changing it has to be
// rejected for the original claim, merklized or not.
func (g *gen) generateNonDID(schs []*schemaInfo) []*Input {
	raws := []any{
		"https://example.com/customers/alice",
		"urn:uuid:6f1c2a0e-7b1d-4c55-9a3e-0d2f4b6a8c10",
		"mailto:alice@example.com",
		"customers/alice",
		"",
		"did:example:alice", // a DID of a method core.IDFromDID does not know
		"DID:iden3:polygon:mumbai:wyFiV4w71QgWPn6bYLsZoysFay66gKtVa9kfu6yMZ",
		42,
		true,
	}
	var ins []*Input
	for _, sch := range schs {
		for ri, raw := range raws {
			sp := credSpec{Schema: sch, SubjectRaw: raw, Expiration: i64(1900000000), Status: 1, Variant: 6 + ri}
			os := []credgen.Opts{{}, {Subject: "value", Upd: true, Version: 2, RevNonce: 9}}
			if sch.Merklized {
				os[1].Root = "value"
			}
			for _, o := range os {
				c := g.base(sch, sp, o, "complete")
				c.Site = fmt.Sprintf("subject-id:%T", raw)
				if s, ok := raw.(string); ok {
					c.Site = "subject-id:" + s
				}
				ins = append(ins, c)
			}
			for _, m := range docMods(buildDoc(sp), sch) {
				if m.Site != "change:credentialSubject.id" && m.Site != "remove:credentialSubject.id" {
					continue
				}
				in := g.base(sch, sp, os[0], "doc")
				mb, _ := json.Marshal(m.Doc)
				in.ModCred, in.Site, in.Field = mb, m.Site, m.Field
				in.Bound = true
				ins = append(ins, in)
			}
		}
	}
	return ins
}

// Slot subsets: one non-merklized schema per non-empty subset of the four data
// slots (quick: the singletons and the pairs; thorough: all 15).  Every field
// the attribute names must be bound by the claim: changing or removing it has to
// be rejected; the fields it does not name are outside the claim.
func (g *gen) generateSlotSubsets() []*Input {
	type slot struct{ key, path string }
	// two assignments: fields of four kinds; and integer / dateTime fields only, whose values in the
	// credential encode to 0 (0, the epoch), so that an honest slot is all-zero
	families := []struct {
		tag   string
		zero  bool
		slots []slot
	}{
		{"ser", false, []slot{{"slotIndexA", "count"}, {"slotIndexB", "info.grade"}, {"slotValueA", "active"}, {"slotValueB", "name"}}},
		{"ser0", true, []slot{{"slotIndexA", "count"}, {"slotIndexB", "info.grade"}, {"slotValueA", "since"}, {"slotValueB", "discount"}}},
	}
	all := []string{"name", "count", "price", "active", "since", "ref", "spare", "discount", "info.grade", "info.note"}
	var ins []*Input
	for fi, fam := range families {
		for mask := 1; mask < 16; mask++ {
			n := 0
			var parts, paths, names []string
			for i, s := range fam.slots {
				if mask&(1<<i) != 0 {
					n++
					parts = append(parts, s.key+"="+s.path)
					paths = append(paths, s.path)
					names = append(names, s.key[4:])
				}
			}
			if !g.cfg.Thorough() && (n == 3 || (n == 2 && (fam.zero || (mask != 9 && mask != 6))) || (n == 4 && !fam.zero)) {
				continue
			}
			label := fam.tag + "-" + strings.Join(names, "+")
			sch := &schemaInfo{Label: label, URL: fmt.Sprintf("https://schemas.example/c06/slots-%d-%d.json-ld", fi, mask), Type: ownType, Other: ownOther,
				Merklized: false, SlotPaths: paths, AllPaths: all, Doc: ownContext("iden3:v1:" + strings.Join(parts, "&"))}
			sp := g.credSpecs(sch)[mask%2]
			sp.Zero = fam.zero
			o := credgen.Opts{RevNonce: uint64(mask), Version: uint32(mask % 3), Upd: mask%2 == 0}
			ins = append(ins, g.base(sch, sp, o, "complete"))
			for _, m := range docMods(buildDoc(sp), sch) {
				named := false
				for _, s := range fam.slots {
					if m.Field == s.path {
						named = true
					}
				}
				if !named {
					continue
				}
				in := g.base(sch, sp, o, "doc")
				mb, _ := json.Marshal(m.Doc)
				in.ModCred, in.Site, in.Field = mb, m.Site, m.Field
				in.Bound = boundSite(sch, m, !sp.NoSubjectType)
				ins = append(ins, in)
			}
		}
	}
	return ins
}

// Undefined members at issuance: under the default options (safe mode on) ToCoreClaim must
// refuse the credential; under an explicit WithSafeMode(false) at issuance and verification it is
// accepted and the undefined member makes no statement (not bound by design: exactness decides).
func (g *gen) generateUndefined(schs []*schemaInfo) []*Input {
	var ins []*Input
	for _, sch := range schs {
		sp := g.credSpecs(sch)[0]
		doc := cloneDoc(buildDoc(sp))
		cs := doc["credentialSubject"].(map[string]any)
		cs["isAdmin"] = true
		doc["credentialStatus"].(map[string]any)["bypass"] = "yes"
		b, _ := json.Marshal(doc)
		for _, h := range []int{0, unsafeMode} {
			o := credgen.Opts{RevNonce: 41, Version: 1}
			c := g.base(sch, sp, o, "complete")
			c.Cred, c.Hasher = b, h
			c.Site = "undefined-member:safe-mode-on"
			if h == unsafeMode {
				c.Site = "undefined-member:safe-mode-off"
			}
			ins = append(ins, c)
			for si, ed := range []func(d map[string]any){
				func(d map[string]any) { d["credentialSubject"].(map[string]any)["isAdmin"] = false },
				func(d map[string]any) { delete(d["credentialSubject"].(map[string]any), "isAdmin") },
				func(d map[string]any) { d["credentialStatus"].(map[string]any)["bypass"] = "no" },
				func(d map[string]any) { d["issuer"] = otherDID },
			} {
				m := cloneDoc(doc)
				ed(m)
				mb, _ := json.Marshal(m)
				in := g.base(sch, sp, o, "doc")
				in.Cred, in.Hasher, in.ModCred = b, h, mb
				in.Site = []string{"change:undefined:credentialSubject.isAdmin", "remove:undefined:credentialSubject.isAdmin", "change:undefined:credentialStatus.bypass", "change:issuer"}[si]
				// with safe mode off the undefined members make no statement; the issuer does (merklized schemas)
				in.Bound = si == 3 && sch.Merklized
				ins = append(ins, in)
			}
		}
	}
	return ins
}
