package c06

import (
	"encoding/json"
	"fmt"
	"math/big"
	"math/rand"
	"sort"
	"strconv"
	"strings"
	"time"

	"vharness/ctxload"
)

// ---------------------------------------------------------------------------
// schemas (JSON-LD contexts served by the offline loader)
// ---------------------------------------------------------------------------

const (
	xsd         = "http://www.w3.org/2001/XMLSchema#"
	ownMerkURL  = "https://schemas.example/c06/merk.json-ld"
	ownSerURL   = "https://schemas.example/c06/ser.json-ld"
	ownType     = "C06Cred"
	ownOther    = "C06Other"
	ownSerAttr  = "iden3:v1:slotIndexA=count&slotIndexB=info.grade&slotValueA=active&slotValueB=name"
	kycType     = "KYCAgeCredential"
	kycOther    = "KYCCountryOfResidenceCredential"
	statusRev   = "Iden3ReverseSparseMerkleTreeProof"
	statusComm  = "Iden3commRevocationStatusV1.0"
	statusPlain = "SparseMerkleTreeProof"
)

// the subject vocabulary of the generated schemas: one field per value kind
func scoped(vocab string, ser string) map[string]any {
	m := map[string]any{
		"@version":   1.1,
		"@protected": true,
		"@propagate": true,
		"id":         "@id",
		"type":       "@type",
		"v":          vocab,
		"xsd":        xsd,
		"name":       map[string]any{"@id": "v:name", "@type": "xsd:string"},
		"count":      map[string]any{"@id": "v:count", "@type": "xsd:integer"},
		"price":      map[string]any{"@id": "v:price", "@type": "xsd:double"},
		"active":     map[string]any{"@id": "v:active", "@type": "xsd:boolean"},
		"since":      map[string]any{"@id": "v:since", "@type": "xsd:dateTime"},
		"ref":        map[string]any{"@id": "v:ref", "@type": "@id"},
		"spare":      map[string]any{"@id": "v:spare", "@type": "xsd:string"},
		"discount":   map[string]any{"@id": "v:discount", "@type": "xsd:integer"},
		"tags":       map[string]any{"@id": "v:tags", "@type": "xsd:string"},
		"info": map[string]any{
			"@id": "v:info",
			"@context": map[string]any{
				"grade": map[string]any{"@id": "v:grade", "@type": "xsd:integer"},
				"note":  map[string]any{"@id": "v:note", "@type": "xsd:string"},
			},
		},
	}
	if ser != "" {
		m["iden3_serialization"] = ser
	}
	return m
}

func ownContext(ser string) []byte {
	top := map[string]any{
		"@version":   1.1,
		"@protected": true,
		"id":         "@id",
		"type":       "@type",
		ownType:      map[string]any{"@id": "urn:c06:types#" + ownType, "@context": scoped("urn:c06:vocab#", ser)},
		ownOther:     map[string]any{"@id": "urn:c06:types#" + ownOther, "@context": scoped("urn:c06:vocab#", ser)},
	}
	b, _ := json.Marshal(map[string]any{"@context": []any{top}})
	return b
}

// servicesURL serves the terms of the optional W3CCredential members that no embedded
// context defines (displayMethod and the iden3 refresh service / display method types).
const servicesURL = "https://schemas.example/c06/services.json-ld"

func servicesContext() []byte {
	b, _ := json.Marshal(map[string]any{"@context": map[string]any{
		"@version":                  1.1,
		"@protected":                true,
		"displayMethod":             map[string]any{"@id": "urn:c06:svc#displayMethod", "@type": "@id"},
		"Iden3BasicDisplayMethodV1": "urn:c06:svc#Iden3BasicDisplayMethodV1",
		"C06OtherDisplayMethod":     "urn:c06:svc#C06OtherDisplayMethod",
		"Iden3RefreshService2023":   "urn:c06:svc#Iden3RefreshService2023",
	}})
	return b
}

// schemaInfo: what the generator knows about a schema.
type schemaInfo struct {
	Label     string // own-merk | own-ser | kyc-v3
	URL       string
	Type      string
	Other     string // another type term of the same context with the same vocabulary
	Merklized bool
	SlotPaths []string // field paths the serialization attribute names
	AllPaths  []string // every subject leaf path (the model's field table)
	Doc       []byte   // nil for the embedded standard contexts
}

func schemas() []*schemaInfo {
	all := []string{"name", "count", "price", "active", "since", "ref", "spare", "discount", "info.grade", "info.note"}
	return []*schemaInfo{
		{Label: "own-merk", URL: ownMerkURL, Type: ownType, Other: ownOther, Merklized: true, AllPaths: all, Doc: ownContext("")},
		{Label: "own-ser", URL: ownSerURL, Type: ownType, Other: ownOther, Merklized: false,
			SlotPaths: []string{"count", "info.grade", "active", "name"}, AllPaths: all, Doc: ownContext(ownSerAttr)},
		{Label: "kyc-v3", URL: ctxload.URLKYCv3, Type: kycType, Other: kycOther, Merklized: true,
			AllPaths: []string{"birthday", "documentType"}},
	}
}

// ---------------------------------------------------------------------------
// credential documents
// ---------------------------------------------------------------------------

type credSpec struct {
	Schema        *schemaInfo
	Subject       string // "" = no subject id
	SubjectRaw    any    // non-nil: written as credentialSubject.id as is (non-DID identifiers, non-strings)
	Expiration    *int64 // unix seconds, nil = none
	Status        int    // 0 none, 1 plain, 2 with statusIssuer
	NoSubjectType bool
	NoServices    bool // no refreshService / displayMethod members
	Zero          bool // the integer / dateTime fields hold values whose encoding is 0 (0, the epoch)
	Variant       int  // value variant
}

func i64(v int64) *int64 { return &v }

func buildDoc(sp credSpec) map[string]any {
	cs := map[string]any{}
	if !sp.NoSubjectType {
		cs["type"] = sp.Schema.Type
	}
	if sp.SubjectRaw != nil {
		cs["id"] = sp.SubjectRaw
	} else if sp.Subject != "" {
		cs["id"] = sp.Subject
	}
	k := sp.Variant
	if sp.Schema.Label == "kyc-v3" {
		cs["birthday"] = 19960424 + k
		cs["documentType"] = 2 + k
	} else {
		cs["name"] = fmt.Sprintf("Alice %d", k)
		cs["count"] = 42 + k
		cs["price"] = 123.5 + float64(k)
		cs["active"] = k%2 == 0
		cs["since"] = time.Unix(1614834367+int64(k)*86400, 0).UTC().Format(time.RFC3339)
		cs["ref"] = fmt.Sprintf("urn:c06:ref:%d", k)
		cs["info"] = map[string]any{"grade": 7 + k, "note": fmt.Sprintf("note %d", k)}
		if k%3 == 1 {
			cs["tags"] = []any{"red", "green"}
		}
		if sp.Zero {
			cs["count"] = 0
			cs["discount"] = 0
			cs["since"] = "1970-01-01T00:00:00Z"
			cs["info"] = map[string]any{"grade": 0, "note": fmt.Sprintf("note %d", k)}
		}
	}
	doc := map[string]any{
		"@context":          []any{ctxload.URLCredentialsV1, ctxload.URLIden3Proofs, servicesURL, sp.Schema.URL},
		"id":                fmt.Sprintf("urn:uuid:8a2a7b06-3c7f-4e0b-9d52-%012d", 100+k),
		"type":              []any{"VerifiableCredential", sp.Schema.Type},
		"issuer":            "did:iden3:polygon:mumbai:wyFiV4w71QgWPn6bYLsZoysFay66gKtVa9kfu6yMZ",
		"issuanceDate":      "2023-01-02T03:04:05Z",
		"credentialSubject": cs,
		"credentialSchema":  map[string]any{"id": "https://schemas.example/c06/schema.json", "type": "JsonSchema2023"},
	}
	if !sp.NoServices {
		doc["refreshService"] = map[string]any{"id": fmt.Sprintf("https://refresh.example/v1/%d", k), "type": "Iden3RefreshService2023"}
		doc["displayMethod"] = map[string]any{"id": fmt.Sprintf("ipfs://QmC06Display%d", k), "type": "Iden3BasicDisplayMethodV1"}
	}
	if sp.Expiration != nil {
		doc["expirationDate"] = time.Unix(*sp.Expiration, 0).UTC().Format(time.RFC3339)
	}
	if sp.Status > 0 {
		st := map[string]any{
			"id":              "https://status.example/node?state=ab12",
			"type":            statusRev,
			"revocationNonce": 74881362 + k,
		}
		if sp.Status > 1 {
			st["statusIssuer"] = map[string]any{
				"id":              "https://status.example/agent/74881362",
				"type":            statusPlain,
				"revocationNonce": 74881362 + k,
			}
		}
		doc["credentialStatus"] = st
	}
	return doc
}

func cloneJSON(v any) any {
	b, _ := json.Marshal(v)
	var out any
	d := json.NewDecoder(strings.NewReader(string(b)))
	d.UseNumber()
	_ = d.Decode(&out)
	return out
}

func cloneDoc(doc map[string]any) map[string]any { return cloneJSON(doc).(map[string]any) }

// ---------------------------------------------------------------------------
// single-site modifications of a credential document
// ---------------------------------------------------------------------------

// docMod is one modified document.  Site names the place; Field is the subject
// field path for subject leaves ("" otherwise).
type docMod struct {
	Site  string
	Field string
	Doc   map[string]any
}

const otherDID = "did:polygonid:polygon:mumbai:2qH2mPVRN7ZDCnEofjeh8Qd2Uo3YsEhTVhKhjB8xs4"
const otherDID2 = "did:iden3:polygon:mumbai:x3HstHLj2rTp6HHXk2WczYP7w3rpCsRbwCMeaQ2H2"

func bumpTime(s string) (string, bool) {
	t, err := time.Parse(time.RFC3339Nano, s)
	if err != nil {
		return "", false
	}
	return t.Add(time.Second).Format(time.RFC3339Nano), true
}

// changed values for one leaf (each a genuine change of meaning)
func changedLeaf(path []string, v any) []any {
	key := path[len(path)-1]
	switch x := v.(type) {
	case json.Number:
		if i, err := strconv.ParseInt(string(x), 10, 64); err == nil {
			return []any{json.Number(strconv.FormatInt(i+1, 10))}
		}
		f, _ := strconv.ParseFloat(string(x), 64)
		return []any{f + 0.25}
	case bool:
		return []any{!x}
	case string:
		full := strings.Join(path, ".")
		switch {
		case key == "issuanceDate" || key == "expirationDate" || key == "since":
			if s, ok := bumpTime(x); ok {
				return []any{s}
			}
			return nil
		case full == "credentialSubject.id" && !strings.HasPrefix(x, "did:"):
			// an identifier that is not a DID is changed into another one that is not a DID
			return []any{x + "x", otherDID}
		case full == "credentialSubject.id" || key == "issuer":
			if x == otherDID {
				return []any{otherDID2}
			}
			return []any{otherDID}
		case key == "type" && path[0] == "credentialStatus" && len(path) == 2:
			if x == statusRev {
				return []any{statusComm}
			}
			return []any{statusRev}
		case key == "type" && path[0] == "credentialStatus":
			if x == statusPlain {
				return []any{statusRev}
			}
			return []any{statusPlain}
		case key == "type" && path[0] == "refreshService":
			if x == "Iden3RefreshService2023" {
				return []any{"ManualRefreshService2018"}
			}
			return []any{"Iden3RefreshService2023"}
		case key == "type" && path[0] == "displayMethod":
			if x == "Iden3BasicDisplayMethodV1" {
				return []any{"C06OtherDisplayMethod"}
			}
			return []any{"Iden3BasicDisplayMethodV1"}
		case key == "type" && path[0] == "credentialSchema":
			if x == "JsonSchema2023" {
				return []any{"JsonSchemaValidator2018"}
			}
			return []any{"JsonSchema2023"}
		default:
			return []any{x + "x"}
		}
	}
	return nil
}

func setPath(doc map[string]any, path []string, v any, del bool) {
	var cur any = doc
	for i, p := range path {
		last := i == len(path)-1
		switch c := cur.(type) {
		case map[string]any:
			if last {
				if del {
					delete(c, p)
				} else {
					c[p] = v
				}
				return
			}
			cur = c[p]
		case []any:
			idx, _ := strconv.Atoi(p)
			if last {
				c[idx] = v
				return
			}
			cur = c[idx]
		}
	}
}

func docMods(doc map[string]any, sch *schemaInfo) []docMod {
	var out []docMod
	add := func(site, field string, f func(d map[string]any)) {
		d := cloneDoc(doc)
		f(d)
		out = append(out, docMod{Site: site, Field: field, Doc: d})
	}
	base := cloneDoc(doc) // json.Number everywhere
	var walk func(path []string, v any)
	walk = func(path []string, v any) {
		switch x := v.(type) {
		case map[string]any:
			keys := make([]string, 0, len(x))
			for k := range x {
				keys = append(keys, k)
			}
			sort.Strings(keys)
			for _, k := range keys {
				walk(append(append([]string{}, path...), k), x[k])
			}
		case []any:
			for i, e := range x {
				walk(append(append([]string{}, path...), strconv.Itoa(i)), e)
			}
		default:
			full := strings.Join(path, ".")
			field := ""
			if path[0] == "credentialSubject" && len(path) > 1 && path[1] != "id" && path[1] != "type" {
				field = strings.Join(path[1:], ".")
				// strip array indices from the field path
				var fp []string
				for _, p := range path[1:] {
					if _, err := strconv.Atoi(p); err != nil {
						fp = append(fp, p)
					}
				}
				field = strings.Join(fp, ".")
			}
			for _, nv := range changedLeaf(path, v) {
				p := append([]string{}, path...)
				val := nv
				add("change:"+full, field, func(d map[string]any) { setPath(d, p, val, false) })
			}
		}
	}
	keys := make([]string, 0, len(base))
	for k := range base {
		if k == "@context" || k == "proof" || k == "type" {
			continue
		}
		keys = append(keys, k)
	}
	sort.Strings(keys)
	for _, k := range keys {
		walk([]string{k}, base[k])
	}
	// types
	types := base["type"].([]any)
	for i, t := range types {
		i := i
		nt := sch.Other
		if t == "VerifiableCredential" {
			nt = "VerifiablePresentation"
		}
		add(fmt.Sprintf("change:type.%d", i), "", func(d map[string]any) { d["type"].([]any)[i] = nt })
	}
	add("add:type", "", func(d map[string]any) { d["type"] = append(d["type"].([]any), sch.Other) })
	cs := base["credentialSubject"].(map[string]any)
	if t, ok := cs["type"]; ok && t == sch.Type {
		add("change:credentialSubject.type", "", func(d map[string]any) { d["credentialSubject"].(map[string]any)["type"] = sch.Other })
	}
	// structural single-site changes
	if _, ok := base["expirationDate"]; ok {
		add("remove:expirationDate", "", func(d map[string]any) { delete(d, "expirationDate") })
	} else {
		add("add:expirationDate", "", func(d map[string]any) { d["expirationDate"] = "2030-01-01T00:00:00Z" })
	}
	if _, ok := cs["id"]; ok {
		add("remove:credentialSubject.id", "", func(d map[string]any) { delete(d["credentialSubject"].(map[string]any), "id") })
	} else {
		add("add:credentialSubject.id", "", func(d map[string]any) { d["credentialSubject"].(map[string]any)["id"] = otherDID })
	}
	// members that no context defines: with the JSON-LD safe mode (the default) the document no
	// longer merklizes, so the pair must be rejected whatever the schema.  (A top-level undefined
	// member cannot be carried by the W3CCredential struct; the open maps can.)
	add("add:undefined:credentialSubject", "", func(d map[string]any) { d["credentialSubject"].(map[string]any)["isAdmin"] = true })
	if _, ok := cs["info"].(map[string]any); ok {
		add("add:undefined:credentialSubject.info", "", func(d map[string]any) {
			d["credentialSubject"].(map[string]any)["info"].(map[string]any)["clearance"] = "top"
		})
	}
	if st, ok := base["credentialStatus"].(map[string]any); ok {
		add("add:undefined:credentialStatus", "", func(d map[string]any) { d["credentialStatus"].(map[string]any)["bypass"] = "yes" })
		if _, ok := st["statusIssuer"].(map[string]any); ok {
			add("add:undefined:credentialStatus.statusIssuer", "", func(d map[string]any) {
				d["credentialStatus"].(map[string]any)["statusIssuer"].(map[string]any)["bypass"] = 1
			})
		}
	}
	for _, member := range []string{"refreshService", "displayMethod"} {
		member := member
		if _, ok := base[member]; ok {
			add("remove:"+member, "", func(d map[string]any) { delete(d, member) })
		} else {
			add("add:"+member, "", func(d map[string]any) {
				tp := "Iden3RefreshService2023"
				if member == "displayMethod" {
					tp = "Iden3BasicDisplayMethodV1"
				}
				d[member] = map[string]any{"id": "https://services.example/added", "type": tp}
			})
		}
	}
	if _, ok := base["credentialStatus"]; ok {
		add("remove:credentialStatus", "", func(d map[string]any) { delete(d, "credentialStatus") })
		if _, ok := base["credentialStatus"].(map[string]any)["statusIssuer"]; ok {
			add("remove:credentialStatus.statusIssuer", "", func(d map[string]any) { delete(d["credentialStatus"].(map[string]any), "statusIssuer") })
		}
	}
	for _, fp := range sch.AllPaths {
		parts := strings.Split(fp, ".")
		var cur any = cs
		present := true
		for _, p := range parts {
			m, ok := cur.(map[string]any)
			if !ok {
				present = false
				break
			}
			cur, present = m[p]
			if !present {
				break
			}
		}
		fp := fp
		if present {
			add("remove:credentialSubject."+fp, fp, func(d map[string]any) {
				setPath(d, append([]string{"credentialSubject"}, parts...), nil, true)
			})
		} else if len(parts) == 1 && fp == "spare" {
			add("add:credentialSubject."+fp, fp, func(d map[string]any) { d["credentialSubject"].(map[string]any)[fp] = "extra" })
		}
	}
	if tg, ok := cs["tags"].([]any); ok && len(tg) > 0 {
		add("add:credentialSubject.tags", "tags", func(d map[string]any) {
			m := d["credentialSubject"].(map[string]any)
			m["tags"] = append(m["tags"].([]any), "blue")
		})
		add("remove:credentialSubject.tags.0", "tags", func(d map[string]any) {
			m := d["credentialSubject"].(map[string]any)
			m["tags"] = m["tags"].([]any)[1:]
		})
	}
	return out
}

// boundSite: does the property require rejection of a change at this site?
// Merklized credentials: every statement is under the root, so every site.
// Serialized credentials: the claim carries the type, the four slot fields,
// the subject id and the expiration; the other statements are not in the claim.
func boundSite(sch *schemaInfo, m docMod, hasSubjectType bool) bool {
	s := m.Site
	if strings.HasPrefix(s, "add:undefined:") {
		return true
	}
	if s == "change:id" {
		// the credential's own identifier is the IRI of the root node: it is the object of no
		// statement, the merklizer has no entry for it, and ToCoreClaim does not read it
		return false
	}
	if sch.Merklized {
		return true
	}
	switch {
	case strings.HasSuffix(s, ":expirationDate"), strings.HasSuffix(s, ":credentialSubject.id"):
		return true
	case s == "change:credentialSubject.type":
		return true
	case strings.HasPrefix(s, "change:type.") || s == "add:type":
		return !hasSubjectType
	}
	if m.Field != "" {
		for _, p := range sch.SlotPaths {
			if p == m.Field {
				return true
			}
		}
	}
	return false
}

// ---------------------------------------------------------------------------
// single-site modifications of a claim
// ---------------------------------------------------------------------------

var fieldQ, _ = new(big.Int).SetString("21888242871839275222246405745257275088548364400416034343698204186575808495617", 10)

var slotNames = [8]string{"i0", "i1", "i2", "i3", "v0", "v1", "v2", "v3"}

// fieldOfBit names the bit field a bit of a slot belongs to.
func fieldOfBit(slot, bit int) string {
	switch slot {
	case 0:
		switch {
		case bit < 128:
			return "schema"
		case bit < 131:
			return "subject-flag"
		case bit == 131:
			return "expiration-flag"
		case bit == 132:
			return "updatable"
		case bit < 136:
			return "merklized-flag"
		case bit < 160:
			return "flags-reserved"
		case bit < 192:
			return "version"
		default:
			return "i0-reserved"
		}
	case 1:
		if bit < 248 {
			return "index-id"
		}
		return "i1-reserved"
	case 2:
		return "index-a"
	case 3:
		return "index-b"
	case 4:
		switch {
		case bit < 64:
			return "nonce"
		case bit < 128:
			return "expiration"
		default:
			return "v0-reserved"
		}
	case 5:
		if bit < 248 {
			return "value-id"
		}
		return "v1-reserved"
	case 6:
		return "value-a"
	default:
		return "value-b"
	}
}

// optionField: a field that verifyCredentialCoreClaim reads back as an option
// and that ToCoreClaim copies into the claim unchanged.  A change there yields
// the claim of the same credential under other options: the binding check
// alone accepts it (exactness); the signature / inclusion proof protects it.
func optionField(f string) bool { return f == "nonce" || f == "version" || f == "updatable" }

type claimMod struct {
	Site  string
	Field string
	Slots [8]*big.Int
}

func flipBit(slots [8]*big.Int, slot, bit int) ([8]*big.Int, bool) {
	var out [8]*big.Int
	for i := range slots {
		out[i] = new(big.Int).Set(slots[i])
	}
	out[slot].Xor(out[slot], new(big.Int).Lsh(big.NewInt(1), uint(bit)))
	return out, out[slot].Cmp(fieldQ) < 0
}

// allBitFlips: every single-bit change of the claim that is still a claim
// (every slot below the field modulus).
func allBitFlips(slots [8]*big.Int) []claimMod {
	var out []claimMod
	for s := 0; s < 8; s++ {
		for b := 0; b < 254; b++ {
			m, ok := flipBit(slots, s, b)
			if !ok {
				continue
			}
			out = append(out, claimMod{Site: fmt.Sprintf("flip:%s.%d", slotNames[s], b), Field: fieldOfBit(s, b), Slots: m})
		}
	}
	return out
}

// sampledFlips: per bit field the lowest and the highest bit and k random ones;
// every bit of the one-bit and three-bit flag fields.
func sampledFlips(slots [8]*big.Int, rng *rand.Rand, k int) []claimMod {
	all := allBitFlips(slots)
	by := map[string][]int{}
	var order []string
	for i, m := range all {
		if _, ok := by[m.Field]; !ok {
			order = append(order, m.Field)
		}
		by[m.Field] = append(by[m.Field], i)
	}
	var out []claimMod
	for _, f := range order {
		idx := by[f]
		pick := map[int]bool{idx[0]: true, idx[len(idx)-1]: true}
		if len(idx) <= 3 {
			for _, i := range idx {
				pick[i] = true
			}
		}
		for j := 0; j < k; j++ {
			pick[idx[rng.Intn(len(idx))]] = true
		}
		for _, i := range idx {
			if pick[i] {
				out = append(out, all[i])
			}
		}
	}
	return out
}

// fieldMods: one arithmetic change per bit field (value +1 within the field's
// width, wrapping), plus slot-level changes.
func fieldMods(slots [8]*big.Int) []claimMod {
	type fd struct {
		slot, off, w int
	}
	fields := []fd{{0, 0, 128}, {0, 128, 3}, {0, 131, 1}, {0, 132, 1}, {0, 133, 3}, {0, 136, 24}, {0, 160, 32}, {0, 192, 61},
		{1, 0, 248}, {2, 0, 253}, {3, 0, 253}, {4, 0, 64}, {4, 64, 64}, {4, 128, 125}, {5, 0, 248}, {6, 0, 253}, {7, 0, 253}}
	var out []claimMod
	for _, f := range fields {
		for _, delta := range []int64{1, -1} {
			var m [8]*big.Int
			for i := range slots {
				m[i] = new(big.Int).Set(slots[i])
			}
			mask := new(big.Int).Sub(new(big.Int).Lsh(big.NewInt(1), uint(f.w)), big.NewInt(1))
			cur := new(big.Int).And(new(big.Int).Rsh(m[f.slot], uint(f.off)), mask)
			nv := new(big.Int).And(new(big.Int).Add(cur, big.NewInt(delta)), mask)
			m[f.slot].Sub(m[f.slot], new(big.Int).Lsh(cur, uint(f.off)))
			m[f.slot].Add(m[f.slot], new(big.Int).Lsh(nv, uint(f.off)))
			if m[f.slot].Cmp(fieldQ) >= 0 || m[f.slot].Cmp(slots[f.slot]) == 0 {
				continue
			}
			out = append(out, claimMod{Site: fmt.Sprintf("add%+d:%s[%d+%d]", delta, slotNames[f.slot], f.off, f.w),
				Field: fieldOfBit(f.slot, f.off), Slots: m})
		}
	}
	// swap the index and value halves; zero one slot
	{
		var m [8]*big.Int
		for i := range slots {
			m[i] = new(big.Int).Set(slots[(i+4)%8])
		}
		same := true
		for i := range m {
			if m[i].Cmp(slots[i]) != 0 {
				same = false
			}
		}
		if !same {
			out = append(out, claimMod{Site: "swap:index-value", Field: "slots", Slots: m})
		}
	}
	for s := 0; s < 8; s++ {
		if slots[s].Sign() == 0 {
			continue
		}
		var m [8]*big.Int
		for i := range slots {
			m[i] = new(big.Int).Set(slots[i])
		}
		m[s] = big.NewInt(0)
		fld := "slots"
		if s == 4 {
			// zeroing v0 changes nonce and expiration together
			fld = "v0"
		}
		out = append(out, claimMod{Site: "zero:" + slotNames[s], Field: fld, Slots: m})
	}
	return out
}

// ---------------------------------------------------------------------------
// the harness's own decoder of the options a claim carries
// ---------------------------------------------------------------------------

type readback struct {
	OK      bool
	Nonce   uint64
	Version uint32
	Subject string
	Root    string
	Upd     bool
}

func readBack(slots [8]*big.Int) readback {
	flags := new(big.Int).Rsh(slots[0], 128).Uint64() & 0xff
	var r readback
	switch flags & 7 {
	case 0:
		r.Subject = ""
	case 2:
		r.Subject = "index"
	case 3:
		r.Subject = "value"
	default:
		return r
	}
	switch flags >> 5 {
	case 0:
		r.Root = ""
	case 1:
		r.Root = "index"
	case 2:
		r.Root = "value"
	default:
		return r
	}
	r.Upd = flags&16 != 0
	r.Version = uint32(new(big.Int).And(new(big.Int).Rsh(slots[0], 160), big.NewInt(0xffffffff)).Uint64())
	r.Nonce = new(big.Int).And(slots[4], new(big.Int).SetUint64(^uint64(0))).Uint64()
	r.OK = true
	return r
}
