package main

import (
	_ "vharness/c10"
)
