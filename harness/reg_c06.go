package main

import (
	_ "vharness/c06"
)
