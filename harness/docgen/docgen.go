// Package docgen generates JSON-LD documents together with their contexts and
// the generator's own account of the facts they state (used by the
// implementation-side oracles of C01/C02/C03/C10/C13/C15/C16).
//
// Shapes: nesting, property- and type-scoped contexts, prefixes, aliases of
// @id/@type, typed and untyped literals of every supported kind, arrays of
// literals / IRIs / blank-node objects / IRI-identified objects, mixed arrays,
// repeated values, @graph containers (named graphs), shared nodes, reference
// cycles, empty strings, undefined properties.
package docgen

import (
	"encoding/json"
	"fmt"
	"math"
	"math/rand"
	"sort"
	"strconv"
	"strings"
	"time"

	"github.com/piprate/json-gold/ld"
)

const (
	Vocab   = "http://ex.org/v#"
	XSD     = "http://www.w3.org/2001/XMLSchema#"
	RDFType = "http://www.w3.org/1999/02/22-rdf-syntax-ns#type"
)

// PropDef describes one property of a type in the generated schema.
type PropDef struct {
	Term     string // compact term used in documents
	IRI      string // expanded property IRI
	Kind     string // "lit" | "iri" | "node"
	Datatype string // declared XSD datatype ("" = untyped) for Kind lit
	Multi    bool   // may hold several values
	Graph    bool   // @container: @graph (Kind node only)
	Child    *TypeDef
	scoped   bool // the term is (re)defined in a property-scoped context of the parent
}

// TypeDef describes a node type.
type TypeDef struct {
	Term       string
	IRI        string
	Props      []*PropDef
	TypeScoped bool // properties are defined in the type's scoped context
}

// Fact is one expected leaf: path pattern (indices replaced by "*"), value, datatype.
type Fact struct {
	Pattern  string `json:"pattern"`
	Value    string `json:"value"` // canonical rendering (see RenderValue)
	Datatype string `json:"datatype"`
}

// Leaf remembers where a literal sits in the document (for mutation / lookup).
type Leaf struct {
	DocPath []string `json:"doc_path"` // compact terms / indices from the root
	Fact    Fact     `json:"fact"`
	Raw     any      `json:"raw"` // the JSON value written in the document
	Kind    string   `json:"kind"`
}

// Doc is a generated document.
type Doc struct {
	Bytes    []byte
	Obj      map[string]any
	Root     *TypeDef
	Facts    []Fact // expected facts of the VALID document (multiset)
	Leaves   []Leaf
	Features map[string]bool
	Expect   string // "ok" | "error" (shared node, cycle, empty string, undefined property in safe mode)
	Why      string
}

type Gen struct {
	Rng     *rand.Rand
	nTerm   int
	nID     int
	Inline  bool              // contexts inline (true) or by URL (false; registered via Register)
	CtxURLs map[string][]byte // contexts to be served by URL
	UseAlias bool
}

func New(rng *rand.Rand) *Gen {
	return &Gen{Rng: rng, Inline: true, CtxURLs: map[string][]byte{}}
}

var litTypes = []string{"", "", XSD + "string", XSD + "integer", XSD + "boolean", XSD + "dateTime", XSD + "double",
	XSD + "positiveInteger", XSD + "nonNegativeInteger", XSD + "negativeInteger", XSD + "nonPositiveInteger", Vocab + "customType"}

func (g *Gen) term(prefix string) string {
	g.nTerm++
	return fmt.Sprintf("%s%d", prefix, g.nTerm)
}

// Schema builds a random type tree of the given depth.
func (g *Gen) Schema(depth int) *TypeDef {
	t := &TypeDef{Term: g.term("T"), TypeScoped: g.Rng.Intn(3) == 0}
	t.IRI = Vocab + t.Term
	n := 1 + g.Rng.Intn(4)
	for i := 0; i < n; i++ {
		p := &PropDef{Term: g.term("p")}
		p.IRI = Vocab + p.Term
		r := g.Rng.Intn(10)
		switch {
		case r < 6 || depth == 0:
			p.Kind = "lit"
			p.Datatype = litTypes[g.Rng.Intn(len(litTypes))]
			p.Multi = g.Rng.Intn(3) == 0
		case r < 7:
			p.Kind = "iri"
			p.Multi = g.Rng.Intn(3) == 0
		default:
			p.Kind = "node"
			p.Multi = g.Rng.Intn(2) == 0
			p.Child = g.Schema(depth - 1)
			p.Graph = g.Rng.Intn(8) == 0
			p.scoped = g.Rng.Intn(3) == 0
		}
		t.Props = append(t.Props, p)
	}
	return t
}

func (g *Gen) termDef(p *PropDef, usePrefix bool) any {
	id := p.IRI
	if usePrefix {
		id = "ex:" + p.Term
	}
	def := map[string]any{"@id": id}
	switch p.Kind {
	case "lit":
		if p.Datatype != "" {
			dt := p.Datatype
			if strings.HasPrefix(dt, XSD) && usePrefix {
				dt = "xsd:" + dt[len(XSD):]
			}
			def["@type"] = dt
		} else if g.Rng.Intn(2) == 0 {
			return id // simple string term definition
		}
	case "iri":
		def["@type"] = "@id"
	case "node":
		if p.Graph {
			def["@container"] = "@graph"
		}
		if p.scoped && p.Child != nil {
			// property-scoped context defining the child's type and properties
			def["@context"] = g.typeContext(p.Child, usePrefix, true)
		}
	}
	return def
}

// typeContext returns the context entries needed for type t (and, recursively, its children).
func (g *Gen) typeContext(t *TypeDef, usePrefix, top bool) map[string]any {
	ctx := map[string]any{}
	tid := t.IRI
	if usePrefix {
		tid = "ex:" + t.Term
	}
	props := map[string]any{}
	for _, p := range t.Props {
		props[p.Term] = g.termDef(p, usePrefix)
	}
	if t.TypeScoped {
		ctx[t.Term] = map[string]any{"@id": tid, "@context": props}
	} else {
		ctx[t.Term] = tid
		for k, v := range props {
			ctx[k] = v
		}
	}
	for _, p := range t.Props {
		if p.Kind == "node" && p.Child != nil && !p.scoped {
			for k, v := range g.typeContext(p.Child, usePrefix, false) {
				ctx[k] = v
			}
		}
	}
	return ctx
}

// Context builds the @context value for the schema.
func (g *Gen) Context(t *TypeDef) (any, map[string]bool) {
	feat := map[string]bool{}
	usePrefix := g.Rng.Intn(3) == 0
	ctx := g.typeContext(t, usePrefix, true)
	if usePrefix {
		ctx["ex"] = Vocab
		ctx["xsd"] = XSD
		feat["prefix"] = true
	}
	if g.UseAlias {
		ctx["id"] = "@id"
		ctx["type"] = "@type"
		feat["alias"] = true
	}
	return ctx, feat
}

func (g *Gen) idKey() string {
	if g.UseAlias {
		return "id"
	}
	return "@id"
}
func (g *Gen) typeKey() string {
	if g.UseAlias {
		return "type"
	}
	return "@type"
}

func (g *Gen) iri() string {
	g.nID++
	return fmt.Sprintf("urn:n:%d", g.nID)
}

// RenderValue gives the canonical string the oracles compare: integers in
// decimal, booleans true/false, times as Unix nanoseconds, strings verbatim.
func RenderInt(s string) string { return "int:" + s }

func (g *Gen) literal(dt string) (raw any, value string, outDT string, kind string) {
	r := g.Rng
	switch dt {
	case "":
		switch r.Intn(5) {
		case 0:
			v := int64(r.Intn(2000) - 1000)
			return float64(v), "int:" + strconv.FormatInt(v, 10), XSD + "integer", "native-int"
		case 1:
			b := r.Intn(2) == 0
			return b, "bool:" + strconv.FormatBool(b), XSD + "boolean", "native-bool"
		case 2:
			f := float64(r.Intn(100000))/64 + 0.015625
			return f, "str:" + ld.GetCanonicalDouble(f), XSD + "double", "native-double"
		default:
			s := g.str()
			return s, "str:" + s, XSD + "string", "native-string"
		}
	case XSD + "string":
		s := g.str()
		return s, "str:" + s, dt, "string"
	case XSD + "boolean":
		b := r.Intn(2) == 0
		if r.Intn(2) == 0 {
			return b, "bool:" + strconv.FormatBool(b), dt, "bool-native"
		}
		return strconv.FormatBool(b), "bool:" + strconv.FormatBool(b), dt, "bool-string"
	case XSD + "dateTime":
		t := time.Unix(int64(r.Intn(4_000_000_000))-1_000_000_000, int64(r.Intn(1000))*1_000_000).UTC()
		if r.Intn(4) == 0 {
			d := time.Date(t.Year(), t.Month(), t.Day(), 0, 0, 0, 0, time.UTC)
			return d.Format("2006-01-02"), "time:" + strconv.FormatInt(d.UnixNano(), 10), dt, "date"
		}
		off := []int{0, 3600, -7200, 19800}[r.Intn(4)]
		s := t.In(time.FixedZone("", off)).Format(time.RFC3339Nano)
		return s, "time:" + strconv.FormatInt(t.UnixNano(), 10), dt, "datetime"
	case XSD + "double":
		f := float64(r.Intn(100000))/64 + 0.015625
		if r.Intn(3) == 0 {
			f = float64(r.Intn(1000))
		}
		if r.Intn(2) == 0 {
			return f, "str:" + ld.GetCanonicalDouble(f), dt, "double-native"
		}
		s := strconv.FormatFloat(f, 'f', -1, 64)
		return s, "str:" + ld.GetCanonicalDouble(f), dt, "double-string"
	case XSD + "integer", XSD + "positiveInteger", XSD + "nonNegativeInteger", XSD + "negativeInteger", XSD + "nonPositiveInteger":
		var v int64
		switch dt {
		case XSD + "integer":
			v = int64(r.Intn(2_000_000)) - 1_000_000
		case XSD + "positiveInteger":
			v = 1 + int64(r.Intn(1_000_000))
		case XSD + "nonNegativeInteger":
			v = int64(r.Intn(1_000_000))
		case XSD + "negativeInteger":
			v = -1 - int64(r.Intn(1_000_000))
		default:
			v = -int64(r.Intn(1_000_000))
		}
		if r.Intn(2) == 0 {
			return float64(v), "int:" + strconv.FormatInt(v, 10), dt, "int-native"
		}
		return strconv.FormatInt(v, 10), "int:" + strconv.FormatInt(v, 10), dt, "int-string"
	default:
		s := g.str()
		return s, "str:" + s, dt, "custom"
	}
}

var words = []string{"alpha", "beta", "gamma", "delta", "x", "y", "z", "hello world", "42", "true", "2020-01-01", "a b c", "ünï", "q\"uote"}

func (g *Gen) str() string {
	if g.Rng.Intn(4) == 0 {
		return fmt.Sprintf("s%d", g.Rng.Intn(50))
	}
	return words[g.Rng.Intn(len(words))]
}

type buildCtx struct {
	facts  []Fact
	leaves []Leaf
	feat   map[string]bool
	ids    []string
}

func pat(prefix []string, more ...string) string {
	return strings.Join(append(append([]string{}, prefix...), more...), " / ")
}

// node builds one node object of type t; prefix = expected path pattern so far.
func (g *Gen) node(t *TypeDef, prefix []string, docPath []string, bc *buildCtx, withID bool) map[string]any {
	obj := map[string]any{}
	if withID {
		id := g.iri()
		obj[g.idKey()] = id
		bc.ids = append(bc.ids, id)
	}
	obj[g.typeKey()] = t.Term
	bc.facts = append(bc.facts, Fact{Pattern: pat(prefix, RDFType), Value: "str:" + t.IRI, Datatype: ""})
	if t.TypeScoped {
		bc.feat["type-scoped"] = true
	}
	for _, p := range t.Props {
		if g.Rng.Intn(6) == 0 {
			continue // property absent
		}
		n := 1
		if p.Multi {
			n = []int{0, 1, 2, 2, 3, 4}[g.Rng.Intn(6)]
		}
		switch p.Kind {
		case "lit", "iri":
			type lv struct {
				raw  any
				fact Fact
				kind string
			}
			var vals []lv
			seen := map[string]bool{}
			for i := 0; i < n; i++ {
				var raw any
				var f Fact
				var kind string
				if p.Kind == "iri" {
					s := fmt.Sprintf("urn:v:%d", g.Rng.Intn(6))
					raw, f, kind = s, Fact{Value: "str:" + s}, "iri"
				} else {
					r, v, dt, k := g.literal(p.Datatype)
					raw, f, kind = r, Fact{Value: v, Datatype: dt}, k
				}
				if i > 0 && g.Rng.Intn(5) == 0 {
					// repeated value: RDF is a set, the duplicate collapses
					raw, f, kind = vals[0].raw, vals[0].fact, vals[0].kind
					bc.feat["repeated-value"] = true
				}
				vals = append(vals, lv{raw, f, kind})
				seen[f.Value+"|"+f.Datatype] = true
			}
			distinct := len(seen)
			var arr []any
			emitted := map[string]bool{}
			for i, v := range vals {
				arr = append(arr, v.raw)
				key := v.fact.Value + "|" + v.fact.Datatype
				f := v.fact
				if distinct > 1 {
					f.Pattern = pat(prefix, p.IRI, "*")
				} else {
					f.Pattern = pat(prefix, p.IRI)
				}
				if !emitted[key] {
					emitted[key] = true
					bc.facts = append(bc.facts, f)
				}
				dp := append(append([]string{}, docPath...), p.Term)
				if n != 1 {
					dp = append(dp, strconv.Itoa(i))
				}
				bc.leaves = append(bc.leaves, Leaf{DocPath: dp, Fact: f, Raw: v.raw, Kind: v.kind})
				bc.feat["kind:"+v.kind] = true
			}
			switch {
			case n == 0:
				obj[p.Term] = []any{}
				bc.feat["empty-array"] = true
			case n == 1 && g.Rng.Intn(4) != 0:
				obj[p.Term] = arr[0]
			default:
				obj[p.Term] = arr
				if n > 1 {
					bc.feat["array-of-"+p.Kind] = true
				}
			}
		case "node":
			var arr []any
			for i := 0; i < n; i++ {
				cp := append(append([]string{}, prefix...), p.IRI)
				if n > 1 {
					cp = append(cp, "*")
				}
				dp := append(append([]string{}, docPath...), p.Term)
				if n != 1 {
					dp = append(dp, strconv.Itoa(i))
				}
				withID := g.Rng.Intn(3) == 0 && !p.Graph
				child := g.node(p.Child, cp, dp, bc, withID)
				if withID {
					// an IRI-identified child is also an IRI-valued statement of the parent
					f := Fact{Value: "str:" + child[g.idKey()].(string)}
					if n > 1 {
						f.Pattern = pat(prefix, p.IRI, "*")
					} else {
						f.Pattern = pat(prefix, p.IRI)
					}
					bc.facts = append(bc.facts, f)
					bc.feat["iri-object"] = true
				} else {
					bc.feat["blank-object"] = true
				}
				arr = append(arr, child)
			}
			if p.Graph && n > 0 {
				bc.feat["named-graph"] = true
			}
			if p.scoped {
				bc.feat["property-scoped"] = true
			}
			switch {
			case n == 0:
				obj[p.Term] = []any{}
			case n == 1 && g.Rng.Intn(4) != 0:
				obj[p.Term] = arr[0]
			default:
				obj[p.Term] = arr
				if n > 1 {
					bc.feat["array-of-node"] = true
				}
			}
		}
	}
	return obj
}

// Valid generates a document that must merklize successfully, with its expected facts.
func (g *Gen) Valid(depth int) *Doc {
	g.UseAlias = g.Rng.Intn(3) == 0
	t := g.Schema(depth)
	ctx, feat := g.Context(t)
	bc := &buildCtx{feat: feat}
	obj := g.node(t, nil, nil, bc, g.Rng.Intn(2) == 0)
	g.attachContext(obj, ctx, feat)
	d := &Doc{Obj: obj, Root: t, Facts: bc.facts, Leaves: bc.leaves, Features: feat, Expect: "ok"}
	d.Bytes, _ = json.Marshal(obj)
	return d
}

func (g *Gen) attachContext(obj map[string]any, ctx any, feat map[string]bool) {
	if !g.Inline || g.Rng.Intn(4) == 0 && len(g.CtxURLs) < 10000 {
		url := fmt.Sprintf("https://ctx.example/%d.jsonld", len(g.CtxURLs))
		b, _ := json.Marshal(map[string]any{"@context": ctx})
		g.CtxURLs[url] = b
		if g.Rng.Intn(2) == 0 {
			obj["@context"] = url
		} else {
			obj["@context"] = []any{url}
		}
		feat["remote-context"] = true
		return
	}
	obj["@context"] = ctx
}

// ---- special streams ----

// Shared: one IRI-identified node referenced from two different properties -> must be rejected.
func (g *Gen) Shared() *Doc {
	g.UseAlias = false
	shared := map[string]any{"@id": "urn:shared:1", Vocab + "name": "x"}
	var obj map[string]any
	switch g.Rng.Intn(3) {
	case 0:
		obj = map[string]any{"@id": "urn:root", Vocab + "a": shared, Vocab + "b": map[string]any{"@id": "urn:shared:1"}}
	case 1:
		obj = map[string]any{"@id": "urn:root", Vocab + "a": map[string]any{"@id": "urn:m", Vocab + "c": shared},
			Vocab + "b": map[string]any{"@id": "urn:k", Vocab + "d": map[string]any{"@id": "urn:shared:1"}}}
	default:
		obj = map[string]any{"@id": "urn:root", Vocab + "a": []any{shared, map[string]any{"@id": "urn:o", Vocab + "e": map[string]any{"@id": "urn:shared:1"}}}}
	}
	d := &Doc{Obj: obj, Expect: "error", Why: "shared-node", Features: map[string]bool{"shared-node": true}}
	d.Bytes, _ = json.Marshal(obj)
	return d
}

// Cycle: reference cycles of length 1..4 -> error (never a hang).
func (g *Gen) Cycle() *Doc {
	n := 1 + g.Rng.Intn(4)
	// urn:c0 -> urn:c1 -> ... -> urn:c(n-1) -> urn:c0
	var build func(i int) map[string]any
	build = func(i int) map[string]any {
		o := map[string]any{"@id": fmt.Sprintf("urn:c%d", i), Vocab + "name": fmt.Sprintf("n%d", i)}
		if i == n-1 {
			o[Vocab+"next"] = map[string]any{"@id": "urn:c0"}
		} else {
			o[Vocab+"next"] = build(i + 1)
		}
		return o
	}
	obj := build(0)
	if g.Rng.Intn(2) == 0 {
		obj = map[string]any{"@id": "urn:root", Vocab + "entry": obj}
	}
	d := &Doc{Obj: obj, Expect: "error", Why: fmt.Sprintf("cycle-%d", n), Features: map[string]bool{"cycle": true}}
	d.Bytes, _ = json.Marshal(obj)
	return d
}

// EmptyString: a document with an empty string value -> error (never a panic).
func (g *Gen) EmptyString() *Doc {
	obj := map[string]any{"@id": "urn:root", Vocab + "name": ""}
	if g.Rng.Intn(2) == 0 {
		obj = map[string]any{Vocab + "a": map[string]any{Vocab + "name": []any{"x", ""}}}
	}
	d := &Doc{Obj: obj, Expect: "error", Why: "empty-string", Features: map[string]bool{"empty-string": true}}
	d.Bytes, _ = json.Marshal(obj)
	return d
}

// Odd: shapes whose outcome is decided by the model only (no generator-side expectation).
func (g *Gen) Odd() *Doc {
	var obj map[string]any
	why := ""
	switch g.Rng.Intn(7) {
	case 0:
		obj = map[string]any{"@id": "urn:root", Vocab + "p": map[string]any{}}
		why = "empty-blank-leaf"
	case 1:
		obj = map[string]any{Vocab + "p": []any{"lit", map[string]any{Vocab + "q": "x"}}}
		why = "mixed-array"
	case 2:
		obj = map[string]any{Vocab + "p": []any{map[string]any{Vocab + "q": "x"}, map[string]any{}}}
		why = "blank-sibling-empty"
	case 3:
		obj = map[string]any{"@id": "urn:a", Vocab + "p": "x", "@reverse": map[string]any{Vocab + "r": map[string]any{"@id": "urn:b"}}}
		why = "reverse"
	case 4:
		obj = map[string]any{"@graph": []any{map[string]any{"@id": "urn:a", Vocab + "p": "x"}, map[string]any{"@id": "urn:b", Vocab + "p": "x"}}}
		why = "two-roots-same-property"
	case 5:
		obj = map[string]any{"@id": "urn:a", Vocab + "p": map[string]any{"@list": []any{"a", "b"}}}
		why = "list"
	default:
		obj = map[string]any{"@id": "urn:a", Vocab + "p": map[string]any{"@value": "hi", "@language": "en"}, Vocab + "q": []any{map[string]any{"@value": "x", "@language": "en"}, map[string]any{"@value": "x", "@language": "fr"}}}
		why = "language"
	}
	d := &Doc{Obj: obj, Expect: "model", Why: why, Features: map[string]bool{"odd:" + why: true}}
	d.Bytes, _ = json.Marshal(obj)
	return d
}

// ---- canonical rendering of implementation values for the oracles ----

// RenderGoValue renders an entry value (int64, *big.Int, bool, string, time.Time) like Fact.Value.
func RenderGoValue(v any) string {
	switch x := v.(type) {
	case bool:
		return "bool:" + strconv.FormatBool(x)
	case string:
		return "str:" + x
	case int64:
		return "int:" + strconv.FormatInt(x, 10)
	case time.Time:
		return "time:" + strconv.FormatInt(x.UnixNano(), 10)
	case fmt.Stringer:
		return "int:" + x.String()
	default:
		return fmt.Sprintf("?%T:%v", v, v)
	}
}

// PatternOf replaces integer parts by "*".
func PatternOf(parts []any) string {
	var s []string
	for _, p := range parts {
		switch x := p.(type) {
		case string:
			s = append(s, x)
		default:
			_ = x
			s = append(s, "*")
		}
	}
	return strings.Join(s, " / ")
}

// SortFacts sorts a fact multiset canonically.
func SortFacts(f []Fact) {
	sort.Slice(f, func(i, j int) bool {
		if f[i].Pattern != f[j].Pattern {
			return f[i].Pattern < f[j].Pattern
		}
		if f[i].Value != f[j].Value {
			return f[i].Value < f[j].Value
		}
		return f[i].Datatype < f[j].Datatype
	})
}

var _ = math.Abs
