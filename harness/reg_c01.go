package main

import (
	_ "vharness/c01"
)
