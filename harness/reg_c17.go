package main

import (
	_ "vharness/c17"
)
