// Package common: configuration, report format and registry shared by all
// property drivers of the harness.
package common

import (
	"encoding/json"
	"fmt"
	"math/rand"
	"os"
	"path/filepath"
	"sort"
)

type Config struct {
	Property string
	Seed     int64
	Tier     string // quick | thorough
	OutDir   string // scratch directory for shards and the report
	Replay   string // path of a replay file, or ""
	Rng      *rand.Rand
}

func (c *Config) Thorough() bool { return c.Tier == "thorough" }

// Pick returns q in the quick tier and t in the thorough tier.
func (c *Config) Pick(q, t int) int {
	if c.Thorough() {
		return t
	}
	return q
}

// Failure is a violation of the property observed on the implementation alone
// (the search side of the check), with the concrete input as replay.
type Failure struct {
	Class string          `json:"class"` // classifier name (matched against known_findings.json)
	What  string          `json:"what"`
	Input json.RawMessage `json:"input"`
}

// CaseRef lets the engine turn a disagreeing case id of a shard into a replay.
type CaseRef struct {
	Shard string          `json:"shard"`
	ID    int             `json:"id"`
	Input json.RawMessage `json:"input"`
}

type Report struct {
	Property           string         `json:"property"`
	Evaluations        int            `json:"evaluations"`
	DistinctNontrivial int            `json:"distinct_nontrivial"`
	Rule               string         `json:"rule"`
	Distribution       map[string]int `json:"distribution"`
	Samples            []any          `json:"samples"`
	Shards             []string       `json:"shards"`
	Correspondence     string         `json:"correspondence"` // name of the model/impl relation evaluated in the shards
	Cases              []CaseRef      `json:"cases"`
	Failures           []Failure      `json:"failures"`
	Exhaustive         bool           `json:"exhaustive"`
	Notes              []string       `json:"notes"`
	distinct           map[string]bool
}

func NewReport(prop string) *Report {
	return &Report{Property: prop, Distribution: map[string]int{}, distinct: map[string]bool{}}
}

func (r *Report) Count(key string) { r.Distribution[key]++ }

// Distinct records a canonicalised non-trivial case; duplicates are counted once.
func (r *Report) Distinct(canon string) {
	if !r.distinct[canon] {
		r.distinct[canon] = true
		r.DistinctNontrivial++
	}
}

func (r *Report) Sample(v any) {
	if len(r.Samples) < 8 {
		r.Samples = append(r.Samples, v)
	}
}

func (r *Report) Fail(class, what string, input any) {
	b, _ := json.Marshal(input)
	r.Failures = append(r.Failures, Failure{Class: class, What: what, Input: b})
}

func (r *Report) Case(shard string, id int, input any) {
	b, _ := json.Marshal(input)
	r.Cases = append(r.Cases, CaseRef{Shard: filepath.Base(shard), ID: id, Input: b})
}

func (r *Report) Write(dir string) error {
	b, err := json.MarshalIndent(r, "", " ")
	if err != nil {
		return err
	}
	return os.WriteFile(filepath.Join(dir, "report.json"), b, 0o644)
}

type Driver func(cfg *Config) (*Report, error)

var registry = map[string]Driver{}

func Register(prop string, d Driver) { registry[prop] = d }

func Lookup(prop string) (Driver, error) {
	d, ok := registry[prop]
	if !ok {
		var ks []string
		for k := range registry {
			ks = append(ks, k)
		}
		sort.Strings(ks)
		return nil, fmt.Errorf("no driver for %q (have %v)", prop, ks)
	}
	return d, nil
}

func ReadJSON(path string, v any) error {
	b, err := os.ReadFile(path)
	if err != nil {
		return err
	}
	return json.Unmarshal(b, v)
}
