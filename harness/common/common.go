// Package common: configuration, report format and registry shared by all
// property drivers of the harness.
package common

import (
	"bytes"
	"encoding/json"
	"flag"
	"fmt"
	"math/rand"
	"os"
	"path/filepath"
	"sort"
)

type Config struct {
	Property string
	Seed     int64
	Tier     string // quick | thorough
	OutDir   string // scratch directory for shards and the report
	Replay   string // path of a replay file, or ""
	Rng      *rand.Rand
}

func (c *Config) Thorough() bool { return c.Tier == "thorough" }

// Pick returns q in the quick tier and t in the thorough tier.
func (c *Config) Pick(q, t int) int {
	if c.Thorough() {
		return t
	}
	return q
}

// Failure is a violation of the property observed on the implementation alone
// (the search side of the check), with the concrete input as replay.
type Failure struct {
	Class string          `json:"class"` // classifier name (matched against known_findings.json)
	What  string          `json:"what"`
	Input json.RawMessage `json:"input"`
}

// CaseRef lets the engine turn a disagreeing case id of a shard into a replay.
type CaseRef struct {
	Shard string          `json:"shard"`
	ID    int             `json:"id"`
	Input json.RawMessage `json:"input"`
}

type Report struct {
	Property           string         `json:"property"`
	Evaluations        int            `json:"evaluations"`
	DistinctNontrivial int            `json:"distinct_nontrivial"`
	Rule               string         `json:"rule"`
	Distribution       map[string]int `json:"distribution"`
	Samples            []any          `json:"samples"`
	Shards             []string       `json:"shards"`
	Correspondence     string         `json:"correspondence"` // name of the model/impl relation evaluated in the shards
	Cases              []CaseRef      `json:"cases"`
	Failures           []Failure      `json:"failures"`
	Exhaustive         bool           `json:"exhaustive"`
	Notes              []string       `json:"notes"`
	distinct           map[string]bool
}

func NewReport(prop string) *Report {
	return &Report{Property: prop, Distribution: map[string]int{}, distinct: map[string]bool{}}
}

func (r *Report) Count(key string) { r.Distribution[key]++ }

// Distinct records a canonicalised non-trivial case; duplicates are counted once.
func (r *Report) Distinct(canon string) {
	if !r.distinct[canon] {
		r.distinct[canon] = true
		r.DistinctNontrivial++
	}
}

func (r *Report) Sample(v any) {
	if len(r.Samples) < 8 {
		r.Samples = append(r.Samples, v)
	}
}

func (r *Report) Fail(class, what string, input any) {
	b, _ := json.Marshal(input)
	r.Failures = append(r.Failures, Failure{Class: class, What: what, Input: b})
}

func (r *Report) Case(shard string, id int, input any) {
	b, _ := json.Marshal(input)
	r.Cases = append(r.Cases, CaseRef{Shard: filepath.Base(shard), ID: id, Input: b})
}

func (r *Report) Write(dir string) error {
	b, err := json.MarshalIndent(r, "", " ")
	if err != nil {
		return err
	}
	return os.WriteFile(filepath.Join(dir, "report.json"), b, 0o644)
}

type Driver func(cfg *Config) (*Report, error)

var registry = map[string]Driver{}

func Register(prop string, d Driver) { registry[prop] = d }

func Lookup(prop string) (Driver, error) {
	d, ok := registry[prop]
	if !ok {
		var ks []string
		for k := range registry {
			ks = append(ks, k)
		}
		sort.Strings(ks)
		return nil, fmt.Errorf("no driver for %q (have %v)", prop, ks)
	}
	return d, nil
}

func ReadJSON(path string, v any) error {
	b, err := os.ReadFile(path)
	if err != nil {
		return err
	}
	return json.Unmarshal(b, v)
}

// Translator regenerates Coq sources under coq/Generated from /repo's Go source.
type Translator func(outDir string) error

var translators = map[string]Translator{}

func RegisterTranslator(name string, t Translator) { translators[name] = t }

// WriteIfChanged keeps timestamps stable so that make does not rebuild needlessly.
func WriteIfChanged(path string, data []byte) error {
	old, err := os.ReadFile(path)
	if err == nil && bytes.Equal(old, data) {
		return nil
	}
	return os.WriteFile(path, data, 0o644)
}

func runTranslators(outDir string) int {
	var names []string
	for n := range translators {
		names = append(names, n)
	}
	sort.Strings(names)
	rc := 0
	for _, n := range names {
		if err := translators[n](outDir); err != nil {
			fmt.Fprintf(os.Stderr, "translator %s: %v\n", n, err)
			rc = 4
		}
	}
	return rc
}

// Main is the entry point shared by the aggregated binary and the per-property
// development binaries (harness/cmd/vh-*/main.go).
func Main() {
	prop := flag.String("prop", "", "property id (C01..C20)")
	seed := flag.Int64("seed", 1, "PRNG seed")
	tier := flag.String("tier", "quick", "quick|thorough")
	out := flag.String("out", "", "output directory")
	replay := flag.String("replay", "", "replay file")
	flag.Parse()
	if *prop == "TRANSLATE" && *out != "" {
		os.Exit(runTranslators(*out))
	}
	if *prop == "" || *out == "" {
		fmt.Fprintln(os.Stderr, "usage: vharness -prop Cxx -out DIR [-seed N] [-tier quick|thorough] [-replay F]")
		os.Exit(2)
	}
	d, err := Lookup(*prop)
	if err != nil {
		fmt.Fprintln(os.Stderr, err)
		os.Exit(2)
	}
	if err := os.MkdirAll(*out, 0o755); err != nil {
		fmt.Fprintln(os.Stderr, err)
		os.Exit(2)
	}
	cfg := &Config{Property: *prop, Seed: *seed, Tier: *tier, OutDir: *out, Replay: *replay,
		Rng: rand.New(rand.NewSource(*seed))}
	rep, err := d(cfg)
	if err != nil {
		fmt.Fprintln(os.Stderr, "harness error:", err)
		os.Exit(3)
	}
	if err := rep.Write(*out); err != nil {
		fmt.Fprintln(os.Stderr, err)
		os.Exit(3)
	}
}

// RepoDir is the tree the harness was built against: /repo, or the scratch
// worktree named by VERIF_REPO (seeded-change self test).  Translators and
// drivers that read Go sources or spawn `go` commands must use it.
func RepoDir() string {
	if d := os.Getenv("VERIF_REPO"); d != "" {
		return d
	}
	return "/repo"
}
