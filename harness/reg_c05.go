package main

import (
	_ "vharness/c05"
)
