package main

import (
	_ "vharness/smt"
)
