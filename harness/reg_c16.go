package main

import (
	_ "vharness/c16"
)
