// Package c08: property C08 — sparse-Merkle-tree issuance proof verification is sound
// and complete.  Every claim inserted in a synthetic issuer's claims tree must verify with
// the proof generated from that tree; then one fault at a time is injected and
// W3CCredential.VerifyProof(Iden3SparseMerkleTreeProof) must reject exactly when the
// property's conjunction fails.  Every case is also evaluated by the Coq model
// (coq/Verify/Run78.v, mismatches8).
package c08

import (
	"fmt"
	"math/big"
	"math/rand"
	"runtime"
	"time"

	"vharness/common"
	"vharness/issuer"
)

func init() { common.Register("C08", Run) }

func catalogue(sc *issuer.Scenario, rng *rand.Rand) []issuer.Mut {
	att := sc.Attacker
	altHex, _ := sc.ClaimAlt.Hex()
	unrelHex, _ := sc.Unrelated.Hex()
	attState := att.State() // the attacker's tree now contains the credential's claim
	ms := []issuer.Mut{
		{"honest", "accept", func(p *issuer.ProofJ, e *issuer.Env) {}},
		// ---- never-issued claims
		{"never-issued-claim-with-its-nonexistence-proof", "reject", func(p *issuer.ProofJ, e *issuer.Env) {
			// before the repair (D4) this verified: a genuine NON-existence proof
			p.CoreClaim, p.MTP = issuer.S(altHex), sc.NonMember.Clone()
		}},
		{"never-issued-claim-nonexistence-proof-flag-flipped", "reject", func(p *issuer.ProofJ, e *issuer.Env) {
			p.CoreClaim, p.MTP = issuer.S(altHex), sc.NonMember.Clone()
			p.MTP.Existence = true
		}},
		{"never-issued-claim-with-other-claims-proof", "reject", func(p *issuer.ProofJ, e *issuer.Env) { p.CoreClaim = issuer.S(altHex) }},
		{"claim-unrelated", "reject", func(p *issuer.ProofJ, e *issuer.Env) { p.CoreClaim = issuer.S(unrelHex) }},
		{"proof-of-other-credential", "reject", func(p *issuer.ProofJ, e *issuer.Env) {
			// a completely valid proof, of another credential of the same issuer: only the
			// claim/credential binding stands in the way
			p.CoreClaim, p.MTP = issuer.S(unrelHex), sc.UnrelatedProof.Clone()
		}},
		{"claim-removed", "reject", func(p *issuer.ProofJ, e *issuer.Env) { p.CoreClaim = nil }},
		{"claim-malformed", "reject", func(p *issuer.ProofJ, e *issuer.Env) { p.CoreClaim = issuer.S((*p.CoreClaim)[:64]) }},
		// ---- proof from another tree (the escalating attack of D5)
		{"mtp-from-attacker-tree", "reject", func(p *issuer.ProofJ, e *issuer.Env) { p.MTP = sc.AttackerSMT.Clone() }},
		{"mtp-and-claims-root-from-attacker-tree", "reject", func(p *issuer.ProofJ, e *issuer.Env) {
			// before the repair (D5) this verified: honest state value next to an unrelated claims root
			p.MTP = sc.AttackerSMT.Clone()
			p.IssuerData.State.ClaimsTreeRoot = issuer.S(issuer.HexOf(attState.CTR))
		}},
		{"attacker-whole-state-unpublished", "reject", func(p *issuer.ProofJ, e *issuer.Env) {
			p.MTP = sc.AttackerSMT.Clone()
			p.IssuerData.State = issuer.StateJOf(attState, false)
			e.DID = append(e.DID, issuer.DIDAnswer{DID: sc.Issuer.DID.String(), State: issuer.HexOf(attState.State), Published: issuer.BP(false)})
		}},
		{"attacker-whole-state-unknown-to-resolver", "reject", func(p *issuer.ProofJ, e *issuer.Env) {
			p.MTP = sc.AttackerSMT.Clone()
			p.IssuerData.State = issuer.StateJOf(attState, false)
		}},
		{"mtp-removed", "reject", func(p *issuer.ProofJ, e *issuer.Env) { p.MTP = nil }},
		{"mtp-of-other-leaf", "reject", func(p *issuer.ProofJ, e *issuer.Env) { p.MTP = sc.BJJ.IssuerData.MTP.Clone() }},
		// ---- members this proof type does not look at
		{"auth-claim-removed", "accept", func(p *issuer.ProofJ, e *issuer.Env) { p.IssuerData.AuthCoreClaim = nil }},
		{"auth-mtp-removed", "accept", func(p *issuer.ProofJ, e *issuer.Env) { p.IssuerData.MTP = nil }},
		{"status-removed", "accept", func(p *issuer.ProofJ, e *issuer.Env) { p.IssuerData.CredentialStatus = nil }},
		{"status-registry-empty", "accept", func(p *issuer.ProofJ, e *issuer.Env) { e.Reg = nil }},
		{"only-bjj-proof-present", "reject", nil},
	}
	ms = append(ms, issuer.MTPFaults("mtp-", func(p *issuer.ProofJ, e *issuer.Env) **issuer.MTPJ { return &p.MTP }, sc.SMT.MTP, rng)...)
	ms = append(ms, issuer.StateFaults(sc, rng)...)
	ms = append(ms, issuer.DIDFaults(sc)...)
	ms = append(ms, issuer.NearMissFaults(sc)...)
	return ms
}

// multiProof: credentials carrying several proofs.  VerifyProof takes the FIRST proof of the
// requested type, binds ITS core claim to the credential and verifies exactly that proof.
func multiProof(sc *issuer.Scenario) []*issuer.Case {
	altHex, _ := sc.ClaimAlt.Hex()
	unrelHex, _ := sc.Unrelated.Hex()
	// decoy: names a claim that binds to the credential but was never inserted in the tree
	decoy := sc.SMT.Clone()
	decoy.CoreClaim = issuer.S(altHex)
	// a genuine issuance proof of ANOTHER credential's claim of the same issuer
	other := sc.SMT.Clone()
	other.CoreClaim, other.MTP = issuer.S(unrelHex), sc.UnrelatedProof.Clone()
	genuine := func() *issuer.ProofJ { return sc.SMT.Clone() }
	mk := func(name, expect string, ps ...*issuer.ProofJ) *issuer.Case {
		return sc.CaseOf("smt", "multi-proof:"+name, expect, nil, sc.Env.Clone(), ps...)
	}
	return []*issuer.Case{
		mk("decoy-then-genuine", "reject", decoy.Clone(), genuine()),
		mk("decoy-then-genuine-of-other-credential", "reject", decoy.Clone(), other.Clone()),
		mk("genuine-then-decoy", "accept", genuine(), decoy.Clone()),
		mk("genuine-of-other-credential-then-genuine", "reject", other.Clone(), genuine()),
		mk("genuine-twice", "accept", genuine(), genuine()),
		mk("bjj-then-smt", "accept", sc.BJJ.Clone(), genuine()),
		mk("bjj-decoy-genuine", "reject", sc.BJJ.Clone(), decoy.Clone(), genuine()),
		mk("smt-then-bjj", "accept", genuine(), sc.BJJ.Clone()),
	}
}

// Scenarios of a run.
func Scenarios(cfg *common.Config) []issuer.Params {
	rng := cfg.Rng
	var ps []issuer.Params
	sizes := []int{0, 1, 2, 7, 30, 199}
	pubs := []*bool{issuer.BP(false), nil, issuer.BP(true)}
	n := cfg.Pick(10, 60)
	for i := 0; i < n; i++ {
		p := issuer.Params{NClaims: sizes[i%len(sizes)], NRevoked: []int{0, 3, 0}[i%3], OmitZero: i%2 == 1,
			RootPos: []string{"index", "value"}[(i/2)%2], SubjectPos: []string{"index", "value", "none"}[i%3], Updatable: i%5 == 0}
		if cfg.Thorough() && i >= len(sizes) {
			p.NClaims = rng.Intn(200)
		}
		p.Genesis = i%4 == 3
		if p.Genesis {
			p.Published = pubs[(i/4)%3]
		} else {
			p.Published = issuer.BP(true)
		}
		if i%3 != 0 {
			for d := 1; d <= 1+rng.Intn(cfg.Pick(12, 36)); d += 1 + rng.Intn(3) {
				p.Deep = append(p.Deep, d)
			}
		}
		if i%6 == 5 {
			// a leaf sharing 38 low path bits: the deepest position a tree of 40 levels allows
			p.Deep = append(p.Deep, 38)
		}
		ps = append(ps, p)
	}
	return ps
}

func Run(cfg *common.Config) (*common.Report, error) {
	d := issuer.NewDriver(cfg, "C08", false)
	rep := d.Rep
	rep.Correspondence = "Verify.Run78.mismatches8: verify_proof_top (verify_smt ..) (coq/Verify/Top78.v, SMTProof.v, Issuer.v, Status.v, SMT/Model.v) vs verifiable.W3CCredential.VerifyProof(Iden3SparseMerkleTreeProof) with a stub DID resolver"
	rep.Rule = "synthetic issuers (claims trees of 2..205 leaves incl. leaves sharing up to 38 low path bits with the proved leaf, genesis and later states, 5 DID method/network types) x (honest bundle + one fault at a time: existence flag, every sibling, aux node, claim, every root, state, DID, resolver answer, proofs from other trees, every optional member removed). distinct = distinct (credential JSON, environment) pairs; every case is non-trivial (it reaches VerifyProof with a decodable credential or exercises a decoder error)."
	if cfg.Replay != "" {
		return d.Replay()
	}
	for si, p := range Scenarios(cfg) {
		sc, err := issuer.Build(cfg.Rng, p)
		if err != nil {
			return nil, fmt.Errorf("scenario %d (%s): %w", si, p, err)
		}
		ms := catalogue(sc, cfg.Rng)
		var cs []*issuer.Case
		for _, m := range ms {
			proof, env := sc.SMT.Clone(), sc.Env.Clone()
			if m.F == nil {
				cs = append(cs, sc.CaseOf("smt", m.Name, m.Expect, nil, env, sc.BJJ.Clone()))
				continue
			}
			m.F(proof, &env)
			extra := []*issuer.ProofJ{}
			if cfg.Rng.Intn(3) == 0 {
				extra = append(extra, sc.BJJ.Clone())
			}
			cs = append(cs, sc.CaseOf("smt", m.Name, m.Expect, proof, env, extra...))
		}
		cs = append(cs, multiProof(sc)...)
		for len(ms) < len(cs) {
			ms = append(ms, issuer.Mut{Name: cs[len(ms)].Fault, Expect: cs[len(ms)].Expect})
		}
		outs, specs, err := d.DoBatch(cs)
		if err != nil {
			return nil, err
		}
		for i, m := range ms {
			if (m.Name == "honest" && len(rep.Samples) < 3) || (len(rep.Samples) < 8 && cfg.Rng.Intn(60) == 0) {
				rep.Sample(map[string]any{"scenario": sc.Name, "fault": m.Name, "expect": m.Expect,
					"impl": []string{"accept", "reject", "panic"}[outs[i].Obs], "error": outs[i].Msg, "reference": specs[i],
					"siblings": len(sc.SMT.MTP.Siblings)})
			}
		}
	}
	if cfg.Thorough() {
		if err := weakProbes(cfg, d); err != nil {
			return nil, err
		}
	}
	return rep, d.Flush()
}

// weakProbes (thorough only, time-boxed): for an honest issuer state, grind one sibling until
// the root recomputed for a NEVER-ISSUED claim partially agrees with the true claims tree root,
// and present that forged bundle: it must be rejected.
func weakProbes(cfg *common.Config, d *issuer.Driver) error {
	scs, err := issuer.ProbeTargets(cfg.Rng, 48)
	if err != nil {
		return err
	}
	sc0 := scs[0]
	hi, hv, err := sc0.ClaimAlt.HiHv() // sc0's credential, version 1: binds, was never inserted anywhere
	if err != nil {
		return err
	}
	altHex, _ := sc0.ClaimAlt.Hex()
	var targets []*big.Int
	for _, sc := range scs {
		targets = append(targets, sc.Snap.CTR)
	}
	t0 := time.Now()
	res := issuer.WeakProbe(hi, hv, targets, new(big.Int).SetInt64(cfg.Rng.Int63n(1<<40)), 100*time.Second)
	d.Rep.Notes = append(d.Rep.Notes, fmt.Sprintf("weak comparison probes (one never-issued claim, forged one-sibling existence proof, %d honest issuer states as targets): %d candidate siblings hashed in %.0f s on %d cores; partial agreements found: %s",
		len(targets), res.Tried, time.Since(t0).Seconds(), runtime.NumCPU(), res.FoundString()))
	d.Rep.Distribution["weak-probe-candidates"] = int(res.Tried)
	for _, kind := range []string{"prefix8", "suffix8", "low32"} {
		h, ok := res.Found[kind]
		if !ok {
			continue
		}
		sc := scs[h.Target]
		proof, env := sc.SMT.Clone(), sc.Env.Clone()
		proof.CoreClaim = issuer.S(altHex)
		proof.MTP = &issuer.MTPJ{Existence: true, Siblings: []string{h.Sibling.String()}}
		if _, _, err := d.Do(sc0.CaseOf("smt", "weak-compare-"+kind, "reject", proof, env)); err != nil {
			return err
		}
	}
	return nil
}
