// Package c04: value encoding (property C04).  Runs merklize.HashValueWithHasher,
// Value.MtEntry and RDFEntry.ValueMtEntry on boundary grids and spellings for
// several primes; evaluates independent oracles on the implementation's results;
// writes shards for the Coq model Value/Model.v.
package c04

import (
	"encoding/json"
	"fmt"
	"math"
	"math/big"
	"path/filepath"
	"strconv"
	"strings"
	"time"

	"github.com/iden3/go-iden3-crypto/constants"
	"github.com/iden3/go-schema-processor/v2/merklize"
	"github.com/piprate/json-gold/ld"

	"vharness/common"
	"vharness/coqgen"
	"vharness/floats"
	"vharness/hashers"
)

func init() { common.Register("C04", Run) }

const xsd = "http://www.w3.org/2001/XMLSchema#"

var intTypes = []string{"integer", "positiveInteger", "nonNegativeInteger", "negativeInteger", "nonPositiveInteger"}

// Input is one call on the implementation.
type Input struct {
	Kind   string   `json:"kind"` // "hash" = HashValueWithHasher, "mk" = NewValue(..).MtEntry
	Hasher int      `json:"hasher"`
	Prime  string   `json:"prime"`
	DT     string   `json:"datatype,omitempty"`
	GoKind string   `json:"go_kind"` // string,int,uint,bool,float,other | xbool,xbig,xint64,xtime,xstr
	Str    string   `json:"str,omitempty"`
	Int    *big.Int `json:"int,omitempty"`
	Bool   bool     `json:"bool,omitempty"`
	Bits   uint64   `json:"float_bits,omitempty"`
	Unix   int64    `json:"unix,omitempty"`
	Nanos  int64    `json:"nanos,omitempty"`
	GoType string   `json:"go_type,omitempty"` // concrete Go type used for ints
}

type obs struct {
	ok    bool
	val   *big.Int
	panic bool
	msg   string
}

// goValue builds the Go value passed to HashValue.
func (in *Input) goValue() any {
	switch in.GoKind {
	case "string":
		return in.Str
	case "int":
		switch in.GoType {
		case "int":
			return int(in.Int.Int64())
		case "int32":
			return int32(in.Int.Int64())
		case "int16":
			return int16(in.Int.Int64())
		case "int8":
			return int8(in.Int.Int64())
		default:
			return in.Int.Int64()
		}
	case "uint":
		switch in.GoType {
		case "uint":
			return uint(in.Int.Uint64())
		case "uint32":
			return uint32(in.Int.Uint64())
		case "uint8":
			return uint8(in.Int.Uint64())
		default:
			return in.Int.Uint64()
		}
	case "bool":
		return in.Bool
	case "float":
		return math.Float64frombits(in.Bits)
	default:
		return []int{1}
	}
}

func (in *Input) xValue() any {
	switch in.GoKind {
	case "xbool":
		return in.Bool
	case "xbig":
		return new(big.Int).Set(in.Int)
	case "xint64":
		return in.Int.Int64()
	case "xtime":
		return time.Unix(in.Unix, in.Nanos).UTC()
	default:
		return in.Str
	}
}

func (in *Input) coq(f *coqgen.File) string {
	if in.Kind == "hash" {
		var v string
		switch in.GoKind {
		case "string":
			v = "RGStr " + f.Str(in.Str)
		case "int":
			v = "RGInt " + coqgen.SNum(in.Int)
		case "uint":
			v = "RGUint " + coqgen.SNum(in.Int)
		case "bool":
			v = "RGBool " + coqgen.Bool(in.Bool)
		case "float":
			v = "RGFloat " + coqgen.Limbs(floats.BitsBig(in.Bits))
		default:
			v = "RGOther"
		}
		return fmt.Sprintf("IHashValue %s (%s)", f.Str(in.DT), v)
	}
	var x string
	switch in.GoKind {
	case "xbool":
		x = "RXBool " + coqgen.Bool(in.Bool)
	case "xbig":
		x = "RXBig " + coqgen.SNum(in.Int)
	case "xint64":
		x = "RXInt64 " + coqgen.SNum(in.Int)
	case "xtime":
		x = fmt.Sprintf("RXTime %s %s", coqgen.SNumI(in.Unix), coqgen.SNumI(in.Nanos))
	default:
		x = "RXStr " + f.Str(in.Str)
	}
	return fmt.Sprintf("IMkValue (%s)", x)
}

func runImpl(h merklize.Hasher, in *Input) (o obs) {
	defer func() {
		if r := recover(); r != nil {
			o = obs{panic: true, msg: fmt.Sprint(r)}
		}
	}()
	if in.Kind == "hash" {
		v, err := merklize.HashValueWithHasher(h, in.DT, in.goValue())
		if err != nil {
			return obs{msg: err.Error()}
		}
		if v == nil {
			return obs{panic: true, msg: "nil result with nil error"}
		}
		return obs{ok: true, val: v}
	}
	val, err := merklize.NewValue(h, in.xValue())
	if err != nil {
		return obs{msg: err.Error()}
	}
	v, err := val.MtEntry()
	if err != nil {
		return obs{msg: err.Error()}
	}
	if v == nil {
		return obs{panic: true, msg: "nil result with nil error"}
	}
	return obs{ok: true, val: v}
}

type gen struct {
	cfg    *common.Config
	rep    *common.Report
	recs   []*hashers.Recorder
	primes []*big.Int
	fr     *floats.Rec
	cases  []*Input
	obs    []obs
}

func (g *gen) add(in *Input) obs {
	in.Prime = g.primes[in.Hasher].String()
	if in.Kind == "hash" && in.DT == xsd+"double" {
		switch in.GoKind {
		case "string":
			g.fr.AddStr(in.Str)
		case "int":
			g.fr.AddInt(in.Int, false)
		case "uint":
			g.fr.AddInt(in.Int, true)
		}
	}
	if in.Kind == "hash" && in.GoKind == "float" {
		g.fr.AddBits(in.Bits)
	}
	o := runImpl(g.recs[in.Hasher], in)
	g.cases = append(g.cases, in)
	g.obs = append(g.obs, o)
	g.rep.Evaluations++
	b, _ := json.Marshal(in)
	g.rep.Distinct(string(b))
	cls := "err"
	if o.ok {
		cls = "ok"
	} else if o.panic {
		cls = "panic"
	}
	g.rep.Count(in.Kind + ":" + in.GoKind + ":" + shortDT(in.DT) + ":" + cls)
	if o.panic {
		g.rep.Fail("c04-panic", "panic or nil/nil result: "+o.msg, in)
	}
	if in.Kind == "hash" && in.GoKind == "string" {
		g.datasetPath(in, o)
	}
	return o
}

// datasetPath: the same lexical form as the object literal of a one-quad RDF dataset, through EntriesFromRDFWithHasher and
// RDFEntry.ValueMtEntry (the route a merklized document takes).  The encoding of a value does not depend on the entry point:
// same outcome class and same field element as HashValueWithHasher (which the Coq model is compared with).
func (g *gen) datasetPath(in *Input, o obs) {
	d := func() (d obs) {
		defer func() {
			if r := recover(); r != nil {
				d = obs{panic: true, msg: fmt.Sprint(r)}
			}
		}()
		ds := ld.NewRDFDataset()
		ds.Graphs["@default"] = []*ld.Quad{ld.NewQuad(ld.NewIRI("urn:c04:s"), ld.NewIRI("urn:c04:p"),
			ld.NewLiteral(in.Str, in.DT, ""), "")}
		es, err := merklize.EntriesFromRDFWithHasher(ds, g.recs[in.Hasher])
		if err != nil {
			return obs{msg: err.Error()}
		}
		if len(es) != 1 {
			return obs{panic: true, msg: fmt.Sprintf("%d entries for one quad", len(es))}
		}
		v, err := es[0].ValueMtEntry()
		if err != nil {
			return obs{msg: err.Error()}
		}
		if v == nil {
			return obs{panic: true, msg: "nil result with nil error"}
		}
		return obs{ok: true, val: v}
	}()
	g.rep.Evaluations++
	g.rep.Count("dataset-path:" + shortDT(in.DT))
	if d.panic {
		g.rep.Fail("c04-panic", "dataset path: panic or nil/nil result: "+d.msg, in)
		return
	}
	if d.ok != o.ok || (d.ok && d.val.Cmp(o.val) != 0) {
		g.rep.Fail("c04-dataset-path-differs", fmt.Sprintf("HashValueWithHasher: ok=%v %v (%s); as the literal of a dataset: ok=%v %v (%s)",
			o.ok, o.val, o.msg, d.ok, d.val, d.msg), in)
	}
}

func shortDT(dt string) string {
	if strings.HasPrefix(dt, xsd) {
		return dt[len(xsd):]
	}
	if dt == "" {
		return "-"
	}
	return "other"
}

// independent statement of the ranges (from the property text)
func rangeOf(ty string, p *big.Int) (lo, hi *big.Int) {
	half := new(big.Int).Rsh(new(big.Int).Sub(p, big.NewInt(1)), 1) // (p-1)/2
	neg := new(big.Int).Neg(half)
	pm1 := new(big.Int).Sub(p, big.NewInt(1))
	switch ty {
	case "integer":
		return neg, half
	case "positiveInteger":
		return big.NewInt(1), pm1
	case "nonNegativeInteger":
		return big.NewInt(0), pm1
	case "negativeInteger":
		return neg, big.NewInt(-1)
	default:
		return neg, big.NewInt(0)
	}
}

func expectInt(ty string, p, z *big.Int) (bool, *big.Int) {
	lo, hi := rangeOf(ty, p)
	if z.Cmp(lo) < 0 || z.Cmp(hi) > 0 {
		return false, nil
	}
	if z.Sign() < 0 {
		return true, new(big.Int).Add(p, z)
	}
	return true, new(big.Int).Set(z)
}

// spellings of an integer z inside the modelled grammar
func spellings(g *gen, z *big.Int) []string {
	s := z.String()
	abs := new(big.Int).Abs(z).String()
	sign := ""
	if z.Sign() < 0 {
		sign = "-"
	}
	out := []string{s, sign + "00" + abs, s + ".0", s + ".000", s + "e0", s + "E+0", s + "/1", sign + abs + "0e-1", sign + abs + "00E-2", s + "."}
	if z.Sign() >= 0 {
		out = append(out, "+"+abs)
	}
	// m * 10^k form
	t := strings.TrimRight(abs, "0")
	if t != "" && len(t) < len(abs) {
		out = append(out, fmt.Sprintf("%s%se%d", sign, t, len(abs)-len(t)))
	}
	if len(abs) > 1 {
		out = append(out, fmt.Sprintf("%s%s.%sE%d", sign, abs[:1], abs[1:], len(abs)-1))
	}
	two := new(big.Int).Mul(z, big.NewInt(2))
	out = append(out, two.String()+"/2")
	return out
}

func (g *gen) intStream() {
	for hi, p := range g.primes {
		small := p.Cmp(big.NewInt(64)) < 0
		for _, ty := range intTypes {
			dt := xsd + ty
			var zs []*big.Int
			if small {
				for v := -p.Int64() - 2; v <= p.Int64()+2; v++ {
					zs = append(zs, big.NewInt(v))
				}
			} else {
				half := new(big.Int).Rsh(p, 1)
				for _, b := range []*big.Int{big.NewInt(0), half, new(big.Int).Neg(half), p, new(big.Int).Neg(p)} {
					for d := int64(-2); d <= 2; d++ {
						zs = append(zs, new(big.Int).Add(b, big.NewInt(d)))
					}
				}
				for i := 0; i < g.cfg.Pick(2, 12); i++ {
					r := new(big.Int).Rand(g.cfg.Rng, new(big.Int).Lsh(p, 1))
					zs = append(zs, r.Sub(r, p))
				}
			}
			seenEnc := map[string]string{}
			for _, z := range zs {
				wantOK, wantV := expectInt(ty, p, z)
				sp := spellings(g, z)
				if small || g.cfg.Thorough() {
					// all spellings
				} else {
					// canonical + 3 random spellings
					pick := []string{sp[0]}
					for i := 0; i < 3; i++ {
						pick = append(pick, sp[g.cfg.Rng.Intn(len(sp))])
					}
					sp = pick
				}
				if small && !g.cfg.Thorough() && len(sp) > 4 {
					sp = append([]string{sp[0]}, sp[1+g.cfg.Rng.Intn(len(sp)-1)], sp[1+g.cfg.Rng.Intn(len(sp)-1)])
				}
				for _, s := range sp {
					in := &Input{Kind: "hash", Hasher: hi, DT: dt, GoKind: "string", Str: s}
					o := g.add(in)
					g.checkInt(in, o, ty, p, z, wantOK, wantV)
				}
				// Go-typed spellings
				if z.IsInt64() {
					gts := []string{"int64", "int"}
					if z.Int64() >= math.MinInt32 && z.Int64() <= math.MaxInt32 {
						gts = append(gts, "int32")
					}
					if z.Int64() >= -128 && z.Int64() <= 127 {
						gts = append(gts, "int8")
					}
					gt := gts[g.cfg.Rng.Intn(len(gts))]
					in := &Input{Kind: "hash", Hasher: hi, DT: dt, GoKind: "int", Int: z, GoType: gt}
					o := g.add(in)
					g.checkInt(in, o, ty, p, z, wantOK, wantV)
					// float64 spelling when exactly representable below 2^53
					if z.Int64() > -(1<<53) && z.Int64() < (1<<53) {
						in := &Input{Kind: "hash", Hasher: hi, DT: dt, GoKind: "float", Bits: math.Float64bits(float64(z.Int64()))}
						o := g.add(in)
						g.checkInt(in, o, ty, p, z, wantOK, wantV)
					}
				}
				if wantOK {
					if prev, dup := seenEnc[wantV.String()]; dup && prev != z.String() {
						g.rep.Fail("c04-int-collision", fmt.Sprintf("%s: %s and %s share encoding %s (p=%s)", ty, prev, z, wantV, p), map[string]any{"type": ty, "prime": p.String(), "a": prev, "b": z.String()})
					}
					seenEnc[wantV.String()] = z.String()
				}
				// non-integral neighbours must be rejected
				for _, s := range []string{z.String() + ".5", new(big.Int).Add(new(big.Int).Mul(z, big.NewInt(10)), big.NewInt(5)).String() + "e-1"} {
					if small && g.cfg.Rng.Intn(4) != 0 {
						continue
					}
					in := &Input{Kind: "hash", Hasher: hi, DT: dt, GoKind: "string", Str: s}
					o := g.add(in)
					if o.ok {
						g.rep.Fail("c04-nonintegral-accepted", fmt.Sprintf("%s accepted %q", ty, s), in)
					}
				}
			}
		}
	}
	// malformed lexical forms (outside every accepted grammar)
	bad := []string{"", "abc", "1e", "--1", "1.2.3", "+", "-", ".", "e5", "1/0", "1/", "/1", " 1", "1 ", "1e+", "1e1.5", "1,5", "0x", "1/2/3", "١", "1e1000001", "1e-1000001", "NaN", "Inf", "1/-2", "+-1"}
	for hi := range g.primes {
		for _, ty := range intTypes {
			for _, s := range bad {
				if hi > 0 && g.cfg.Rng.Intn(6) != 0 {
					continue
				}
				in := &Input{Kind: "hash", Hasher: hi, DT: xsd + ty, GoKind: "string", Str: s}
				o := g.add(in)
				if o.ok {
					g.rep.Fail("c04-illformed-accepted", fmt.Sprintf("%s accepted %q", ty, s), in)
				}
			}
		}
	}
}

func (g *gen) checkInt(in *Input, o obs, ty string, p, z *big.Int, wantOK bool, wantV *big.Int) {
	if o.panic {
		return
	}
	if wantOK != o.ok {
		g.rep.Fail("c04-int-range", fmt.Sprintf("%s p=%s z=%s: accepted=%v, expected %v (%s)", ty, p, z, o.ok, wantOK, o.msg), in)
		return
	}
	if wantOK && o.val.Cmp(wantV) != 0 {
		g.rep.Fail("c04-int-value", fmt.Sprintf("%s p=%s z=%s: got %s want %s", ty, p, z, o.val, wantV), in)
	}
}

func (g *gen) boolStream() {
	dt := xsd + "boolean"
	for hi := range g.primes {
		h := g.recs[hi]
		one, _ := h.Inner.Hash([]*big.Int{big.NewInt(1)})
		zero, _ := h.Inner.Hash([]*big.Int{big.NewInt(0)})
		chk := func(in *Input, o obs, want *bool) {
			if o.panic {
				return
			}
			if want == nil {
				if o.ok {
					g.rep.Fail("c04-bool-accepted", fmt.Sprintf("boolean accepted %v", in), in)
				}
				return
			}
			w := zero
			if *want {
				w = one
			}
			if !o.ok || o.val.Cmp(w) != 0 {
				g.rep.Fail("c04-bool-value", fmt.Sprintf("boolean %v: got %v (%s) want %s", in.Str, o.val, o.msg, w), in)
			}
		}
		t, f := true, false
		for _, s := range []string{"true", "1", "1.0E0"} {
			in := &Input{Kind: "hash", Hasher: hi, DT: dt, GoKind: "string", Str: s}
			chk(in, g.add(in), &t)
		}
		for _, s := range []string{"false", "0", "0.0E0"} {
			in := &Input{Kind: "hash", Hasher: hi, DT: dt, GoKind: "string", Str: s}
			chk(in, g.add(in), &f)
		}
		for _, s := range []string{"TRUE", "True", "yes", "2", "", "01", "1.0", "0.0e0", "t", " true", "true ", "-0", "+1", "1.0E00"} {
			in := &Input{Kind: "hash", Hasher: hi, DT: dt, GoKind: "string", Str: s}
			chk(in, g.add(in), nil)
		}
		for _, b := range []bool{true, false} {
			b := b
			in := &Input{Kind: "hash", Hasher: hi, DT: dt, GoKind: "bool", Bool: b}
			chk(in, g.add(in), &b)
			v := int64(0)
			fl := 0.0
			if b {
				v, fl = 1, 1.0
			}
			in = &Input{Kind: "hash", Hasher: hi, DT: dt, GoKind: "int", Int: big.NewInt(v), GoType: "int64"}
			chk(in, g.add(in), &b)
			in = &Input{Kind: "hash", Hasher: hi, DT: dt, GoKind: "float", Bits: math.Float64bits(fl)}
			chk(in, g.add(in), &b)
			in = &Input{Kind: "mk", Hasher: hi, GoKind: "xbool", Bool: b}
			chk(in, g.add(in), &b)
		}
		if one != nil && zero != nil && one.Cmp(zero) == 0 && g.primes[hi].Cmp(big.NewInt(64)) > 0 {
			g.rep.Fail("c04-bool-collision", "H([0]) = H([1])", map[string]any{"prime": g.primes[hi].String()})
		}
		in := &Input{Kind: "hash", Hasher: hi, DT: dt, GoKind: "float", Bits: math.Float64bits(2)}
		chk(in, g.add(in), nil)
		in = &Input{Kind: "hash", Hasher: hi, DT: dt, GoKind: "int", Int: big.NewInt(2), GoType: "int"}
		chk(in, g.add(in), nil)
	}
}

func daysIn(m, y int) int {
	switch m {
	case 2:
		if y%4 == 0 && (y%100 != 0 || y%400 == 0) {
			return 29
		}
		return 28
	case 4, 6, 9, 11:
		return 30
	}
	return 31
}

func (g *gen) timeStream() {
	dt := xsd + "dateTime"
	rng := g.cfg.Rng
	n := g.cfg.Pick(240, 3000)
	seen := map[string]string{}
	for i := 0; i < n; i++ {
		hi := 0
		if i%3 == 1 {
			hi = rng.Intn(len(g.primes))
		}
		p := g.primes[hi]
		y := 1 + rng.Intn(9999)
		switch rng.Intn(8) {
		case 0:
			y = 1969 + rng.Intn(3)
		case 1:
			y = []int{0, 1, 9999, 1600, 2000, 1900, 2100, 2024}[rng.Intn(8)]
		}
		mo := 1 + rng.Intn(12)
		d := 1 + rng.Intn(daysIn(mo, y))
		if rng.Intn(6) == 0 {
			d = daysIn(mo, y)
		}
		hh, mi, ss := rng.Intn(24), rng.Intn(60), rng.Intn(60)
		nd := rng.Intn(13) // fractional digits
		frac := ""
		for k := 0; k < nd; k++ {
			frac += string(rune('0' + rng.Intn(10)))
		}
		ns := int64(0)
		if nd > 0 {
			f9 := (frac + "000000000")[:9]
			ns, _ = strconv.ParseInt(f9, 10, 64)
		}
		// instant, computed independently of the spelling
		base := time.Date(y, time.Month(mo), d, hh, mi, ss, 0, time.UTC).Unix()
		if i%3 == 0 {
			// machine-word boundaries of the instant: +-2^63 ns (1677-09-21 / 2262-04-11), +-2^31 s,
			// 2^32 s, the epoch, year 1 / 9999 edges, and their neighbourhoods up to a year away
			bs := []int64{-9223372037, 9223372036, -2147483648, 2147483647, 4294967295, 0,
				-62135596800, 253402300799, -11644473600, 32503680000, 9223372036 + 100*86400, -9223372037 - 100*86400}
			ds := []int64{0, 1, -1, 2, -2, 60, -60, 86400, -86400, 30 * 86400, -30 * 86400, 200 * 86400, -200 * 86400}
			base = bs[rng.Intn(len(bs))] + ds[rng.Intn(len(ds))]
			if rng.Intn(3) == 0 {
				base += rng.Int63n(2*365*86400) - 365*86400
			}
			if base < -62135596800+2*86400 {
				base = -62135596800 + 2*86400
			}
			if base > 253402300799-2*86400 {
				base = 253402300799 - 2*86400
			}
			if nd > 0 && rng.Intn(2) == 0 {
				frac = []string{"854775807", "854775808", "145224192", "145224191", "999999999", "000000001"}[rng.Intn(6)]
				nd = 9
				ns, _ = strconv.ParseInt(frac, 10, 64)
			}
		}
		offs := []int{0, 0, 60, -60, 3600, -3600, 5*3600 + 30*60, -(9*3600 + 45*60), 14 * 3600, -12 * 3600, 24 * 3600, 23*3600 + 59*60}
		// the same instant written with several offsets
		nsp := 1 + rng.Intn(3)
		var encs []*big.Int
		for k := 0; k < nsp; k++ {
			off := offs[rng.Intn(len(offs))]
			local := time.Unix(base+int64(off), 0).UTC()
			if local.Year() < 0 || local.Year() > 9999 {
				continue
			}
			sep := "."
			if rng.Intn(5) == 0 {
				sep = ","
			}
			hs := fmt.Sprintf("%02d", local.Hour())
			if local.Hour() < 10 && rng.Intn(8) == 0 {
				hs = fmt.Sprintf("%d", local.Hour()) // Go accepts a one-digit hour
			}
			s := fmt.Sprintf("%04d-%02d-%02dT%s:%02d:%02d", local.Year(), int(local.Month()), local.Day(), hs, local.Minute(), local.Second())
			if nd > 0 {
				s += sep + frac
			}
			if off == 0 && rng.Intn(2) == 0 {
				s += "Z"
			} else {
				sg := "+"
				a := off
				if off < 0 {
					sg, a = "-", -off
				}
				s += fmt.Sprintf("%s%02d:%02d", sg, a/3600, (a%3600)/60)
			}
			in := &Input{Kind: "hash", Hasher: hi, DT: dt, GoKind: "string", Str: s}
			o := g.add(in)
			want := new(big.Int).Mul(big.NewInt(base), big.NewInt(1_000_000_000))
			want.Add(want, big.NewInt(ns))
			want.Mod(want, p)
			if !o.panic && (!o.ok || o.val.Cmp(want) != 0) {
				g.rep.Fail("c04-time-value", fmt.Sprintf("%q: got %v (%s) want %s", s, o.val, o.msg, want), in)
			}
			if o.ok {
				encs = append(encs, o.val)
			}
			if hi == 0 && o.ok {
				key := o.val.String()
				inst := fmt.Sprintf("%d.%09d", base, ns)
				if prev, dup := seen[key]; dup && prev != inst {
					g.rep.Fail("c04-time-collision", fmt.Sprintf("instants %s and %s share encoding", prev, inst), in)
				}
				seen[key] = inst
			}
		}
		// the Go-typed route must agree
		in := &Input{Kind: "mk", Hasher: hi, GoKind: "xtime", Unix: base, Nanos: ns}
		o := g.add(in)
		for _, e := range encs {
			if o.ok && e.Cmp(o.val) != 0 {
				g.rep.Fail("c04-time-typed", "time.Time value and lexical form encode differently", in)
			}
		}
		// bare date = midnight UTC
		if i%4 == 0 {
			s := fmt.Sprintf("%04d-%02d-%02d", y, mo, d)
			in := &Input{Kind: "hash", Hasher: hi, DT: dt, GoKind: "string", Str: s}
			o := g.add(in)
			mid := time.Date(y, time.Month(mo), d, 0, 0, 0, 0, time.UTC).Unix()
			want := new(big.Int).Mul(big.NewInt(mid), big.NewInt(1_000_000_000))
			want.Mod(want, p)
			if !o.panic && (!o.ok || o.val.Cmp(want) != 0) {
				g.rep.Fail("c04-date-value", fmt.Sprintf("%q: got %v want %s", s, o.val, want), in)
			}
		}
	}
	bad := []string{"", "2020-13-01T00:00:00Z", "2020-00-10T00:00:00Z", "2020-02-30T00:00:00Z", "2021-02-29T00:00:00Z", "2020-01-32",
		"2020-01-01T24:00:00Z", "2020-01-01T00:60:00Z", "2020-01-01T00:00:60Z", "2020-01-01T00:00:00", "2020-01-01t00:00:00Z",
		"2020-01-01 00:00:00Z", "01-02-2006", "2020-1-01T00:00:00Z", "2020-01-1T00:00:00Z", "20-01-01T00:00:00Z", "2020-01-01T00:00:00z",
		"2020-01-01T00:00:00+25:00", "2020-01-01T00:00:00+00:61", "2020-01-01T00:00:00+0000", "2020-01-01T00:00:00Z ", "2020-01-01T00:00:00.Z",
		"2020-01-01T00:00Z", "2020-01-01T00:00:00+1:00", "2020-01-01T00:00:00*01:00", "2020-01-00", "2020-04-31", "1900-02-29", "abcd-01-01", "2020-01-01T00:0:00Z"}
	for _, s := range bad {
		in := &Input{Kind: "hash", Hasher: 0, DT: dt, GoKind: "string", Str: s}
		o := g.add(in)
		if o.ok {
			g.rep.Fail("c04-illformed-accepted", fmt.Sprintf("dateTime accepted %q", s), in)
		}
	}
	// quirks accepted by Go's layout parser (inside the modelled grammar)
	for _, s := range []string{"2020-01-01T00:00:00+24:00", "2020-01-01T00:00:00-00:60", "2000-02-29T23:59:59.9999999999999Z", "0000-01-01T00:00:00Z", "9999-12-31T23:59:59,5+00:00", "2020-06-01T7:08:09Z"} {
		in := &Input{Kind: "hash", Hasher: 0, DT: dt, GoKind: "string", Str: s}
		g.add(in)
	}
}

// floatIntStream: Go float64 values under the INTEGER datatypes (what RawValue hands out for a JSON number): the value the
// library must encode is the one the JSON-LD processor writes for that number: the exact integer when the float is integral
// and fits int64, otherwise the integer denoted by the canonical double (1.0E19 -> 10^19; 16 significant digits), an error when
// that is not integral (NaN, Inf, fractions).  Includes the int64 boundary, where an overflowing int64(v) conversion would show.
func (g *gen) floatIntStream() {
	rng := g.cfg.Rng
	fl := []float64{0, 1, -1, math.Copysign(0, -1), 0.5, -1.5, 1e-7, 1 << 53, 1<<53 + 2, 1 << 62, 1 << 63, 1<<63 + 2048, -(1 << 63), -(1 << 63) - 2048,
		1e19, -1e19, 18446744073709551616, 1e21, 1e22, -1e22, 1e30, 1e80, math.MaxFloat64, math.Inf(1), math.Inf(-1), math.NaN(),
		9223372036854774784, -9223372036854774784, 4611686018427387904}
	for i := 0; i < g.cfg.Pick(12, 300); i++ {
		e := 50 + rng.Intn(40)
		f := math.Ldexp(float64(1+rng.Int63n(1<<52)), e-52)
		if rng.Intn(2) == 0 {
			f = -f
		}
		fl = append(fl, f)
	}
	tys := []string{"integer", "nonNegativeInteger", "positiveInteger", "negativeInteger", "nonPositiveInteger"}
	for _, f := range fl {
		for hi := range g.primes {
			if hi > 1 && rng.Intn(4) != 0 {
				continue
			}
			p := g.primes[hi]
			for _, ty := range tys {
				if ty != "integer" && rng.Intn(2) == 0 {
					continue
				}
				in := &Input{Kind: "hash", Hasher: hi, DT: xsd + ty, GoKind: "float", Bits: math.Float64bits(f)}
				o := g.add(in)
				if o.panic {
					continue
				}
				var z *big.Int
				if !math.IsNaN(f) && !math.IsInf(f, 0) {
					if math.Abs(f) < 9223372036854775808 && f == math.Trunc(f) {
						z = big.NewInt(int64(f))
					} else if f == -9223372036854775808 {
						z = big.NewInt(math.MinInt64)
					} else if r, ok := new(big.Rat).SetString(ld.GetCanonicalDouble(f)); ok && r.IsInt() {
						z = new(big.Int).Set(r.Num())
					}
				}
				if z == nil {
					if o.ok {
						g.rep.Fail("c04-float-nonintegral-accepted", fmt.Sprintf("%s: float64 %v accepted as %s", ty, f, o.val), in)
					}
					continue
				}
				wantOK, wantV := expectInt(ty, p, z)
				g.checkInt(in, o, ty, p, z, wantOK, wantV)
			}
		}
	}
}

func (g *gen) doubleStream() {
	dt := xsd + "double"
	rng := g.cfg.Rng
	strs := []string{"1", "1.5", "1e3", "0", "-0", "0.1", "1E400", "1e-400", "123456789012345678", "abc", "", "NaN", "Inf", "-Inf", "0x1p4", "1_000", "1.0E0", "2.5E-3", " 1"}
	for _, s := range strs {
		for hi := range g.primes {
			if hi > 1 && rng.Intn(5) != 0 {
				continue
			}
			in := &Input{Kind: "hash", Hasher: hi, DT: dt, GoKind: "string", Str: s}
			o := g.add(in)
			g.checkDouble(in, o)
		}
	}
	fl := []float64{0, 1, -1, 0.5, 1e21, 1e-7, 123456.789, math.MaxFloat64, math.SmallestNonzeroFloat64, 1 << 53, math.Inf(1), math.NaN()}
	for i := 0; i < g.cfg.Pick(10, 200); i++ {
		fl = append(fl, math.Float64frombits(rng.Uint64()))
		fl = append(fl, float64(rng.Intn(1000000))/float64(1+rng.Intn(1000)))
	}
	for _, f := range fl {
		in := &Input{Kind: "hash", Hasher: 0, DT: dt, GoKind: "float", Bits: math.Float64bits(f)}
		o := g.add(in)
		g.checkDouble(in, o)
	}
	ints := []*big.Int{big.NewInt(0), big.NewInt(1), big.NewInt(-1), big.NewInt(1 << 53), big.NewInt(1<<53 + 1), big.NewInt(-(1<<53 + 1)),
		big.NewInt(math.MaxInt64), big.NewInt(math.MinInt64), big.NewInt(math.MaxInt64 - 1), big.NewInt(1 << 62), big.NewInt(123456789)}
	for i := 0; i < g.cfg.Pick(6, 100); i++ {
		ints = append(ints, big.NewInt(rng.Int63()-rng.Int63()))
	}
	for _, z := range ints {
		in := &Input{Kind: "hash", Hasher: 0, DT: dt, GoKind: "int", Int: z, GoType: "int64"}
		o := g.add(in)
		g.checkDouble(in, o)
	}
	uints := []*big.Int{new(big.Int).SetUint64(math.MaxUint64), new(big.Int).SetUint64(math.MaxUint64 - 1), new(big.Int).SetUint64(1 << 63), new(big.Int).SetUint64(1<<53 + 1), big.NewInt(7)}
	for _, z := range uints {
		in := &Input{Kind: "hash", Hasher: 0, DT: dt, GoKind: "uint", Int: z, GoType: "uint64"}
		o := g.add(in)
		g.checkDouble(in, o)
		// unsigned Go ints are unsupported outside xsd:double
		in = &Input{Kind: "hash", Hasher: 0, DT: xsd + "integer", GoKind: "uint", Int: z, GoType: "uint64"}
		g.add(in)
	}
}

// double: hash of the JSON-LD canonical form; integers that float64 can not
// represent exactly are rejected.
func (g *gen) checkDouble(in *Input, o obs) {
	if o.panic {
		return
	}
	h := g.recs[in.Hasher].Inner
	var canon string
	switch in.GoKind {
	case "string":
		f, err := strconv.ParseFloat(in.Str, 64)
		if err != nil {
			if o.ok {
				g.rep.Fail("c04-illformed-accepted", fmt.Sprintf("double accepted %q", in.Str), in)
			}
			return
		}
		canon = ld.GetCanonicalDouble(f)
	case "float":
		canon = ld.GetCanonicalDouble(math.Float64frombits(in.Bits))
	case "int", "uint":
		var f float64
		if in.GoKind == "uint" {
			f = float64(in.Int.Uint64())
		} else {
			f = float64(in.Int.Int64())
		}
		// the implementation's precision guard: the canonical decimal form of
		// float64(v) must denote exactly v (stricter than exact representability)
		c := ld.GetCanonicalDouble(f)
		r, okr := new(big.Rat).SetString(c)
		exact := okr && r.IsInt() && r.Num().Cmp(in.Int) == 0
		if !exact {
			if o.ok {
				g.rep.Fail("c04-double-precision", fmt.Sprintf("integer %s differs from its canonical double %s but was accepted", in.Int, c), in)
			}
			return
		}
		canon = ld.GetCanonicalDouble(f)
	}
	want, err := h.HashBytes([]byte(canon))
	if err != nil {
		return
	}
	// NaN/Inf canonical forms re-parse; whatever the canonical form, equal hashes are required
	if !o.ok {
		if _, e2 := strconv.ParseFloat(canon, 64); e2 == nil {
			g.rep.Fail("c04-double-value", fmt.Sprintf("double %v rejected: %s", in, o.msg), in)
		}
		return
	}
	if o.val.Cmp(want) != 0 {
		g.rep.Fail("c04-double-value", fmt.Sprintf("double %v: got %s want H(%q)=%s", in, o.val, canon, want), in)
	}
}

func (g *gen) stringStream() {
	rng := g.cfg.Rng
	dts := []string{xsd + "string", "", "http://ex.org/custom", xsd + "date", xsd + "anyURI", xsd + "int", xsd + "long", xsd + "float", xsd + "decimal"}
	strs := []string{"", "a", "hello world", "0", "true", strings.Repeat("x", 31), strings.Repeat("y", 32), strings.Repeat("z", 31*16+5), "with \"quotes\"", "tab\tnewline\n", "ünïcödé ✓", "a\x00", "a\x00\x00"}
	for i := 0; i < g.cfg.Pick(10, 150); i++ {
		b := make([]byte, rng.Intn(70))
		for j := range b {
			b[j] = byte(32 + rng.Intn(95))
		}
		strs = append(strs, string(b))
	}
	for _, s := range strs {
		dt := dts[rng.Intn(len(dts))]
		hi := rng.Intn(len(g.primes))
		if s == "" {
			hi = 0
		}
		in := &Input{Kind: "hash", Hasher: hi, DT: dt, GoKind: "string", Str: s}
		o := g.add(in)
		want, err := g.recs[hi].Inner.HashBytes([]byte(s))
		if !o.panic {
			if err != nil && o.ok {
				g.rep.Fail("c04-string-value", "string accepted although the byte hash failed", in)
			}
			if err == nil && (!o.ok || o.val.Cmp(want) != 0) {
				g.rep.Fail("c04-string-value", fmt.Sprintf("string %q under %q: got %v want %s", s, dt, o.val, want), in)
			}
		}
		in = &Input{Kind: "mk", Hasher: hi, GoKind: "xstr", Str: s}
		g.add(in)
	}
	// unsupported Go values
	for _, dt := range []string{xsd + "string", xsd + "integer", xsd + "double"} {
		in := &Input{Kind: "hash", Hasher: 0, DT: dt, GoKind: "other"}
		o := g.add(in)
		if o.ok {
			g.rep.Fail("c04-illformed-accepted", "unsupported Go value accepted", in)
		}
	}
}

func (g *gen) typedStream() {
	rng := g.cfg.Rng
	for hi, p := range g.primes {
		half := new(big.Int).Rsh(p, 1)
		var zs []*big.Int
		for _, b := range []*big.Int{big.NewInt(0), half, new(big.Int).Neg(half), p} {
			for d := int64(-2); d <= 2; d++ {
				zs = append(zs, new(big.Int).Add(b, big.NewInt(d)))
			}
		}
		for i := 0; i < g.cfg.Pick(2, 20); i++ {
			r := new(big.Int).Rand(rng, new(big.Int).Lsh(p, 1))
			zs = append(zs, r.Sub(r, p))
		}
		for _, z := range zs {
			in := &Input{Kind: "mk", Hasher: hi, GoKind: "xbig", Int: z}
			o := g.add(in)
			wantOK, wantV := expectInt("integer", p, z)
			if z.Sign() >= 0 {
				wantOK = z.Cmp(p) < 0
				wantV = z
			}
			if !o.panic && (o.ok != wantOK || (o.ok && o.val.Cmp(wantV) != 0)) {
				g.rep.Fail("c04-bigint-value", fmt.Sprintf("*big.Int %s p=%s: got %v ok=%v", z, p, o.val, o.ok), in)
			}
			// Go-typed int64 under every hasher (the small-prime hashers hand out their stored modulus: an in-place
			// computation on Prime()'s result shows in the following cases and in the final modulus comparison);
			// mkValueInt has no range check (observation O2): the model mirrors that, no impl-side expectation
			if z.IsInt64() {
				in := &Input{Kind: "mk", Hasher: hi, GoKind: "xint64", Int: z}
				g.add(in)
			}
		}
		if hi == 0 {
			for _, v := range []int64{0, 1, -1, math.MaxInt64, math.MinInt64, 42, -42} {
				in := &Input{Kind: "mk", Hasher: hi, GoKind: "xint64", Int: big.NewInt(v)}
				g.add(in)
			}
		}
	}
}

// entryAgrees: RDFEntry.ValueMtEntry must equal Value.MtEntry for the same Go value
func (g *gen) entryAgrees() {
	for i, in := range g.cases {
		if in.Kind != "mk" {
			continue
		}
		h := g.recs[in.Hasher]
		o := g.obs[i]
		func() {
			defer func() {
				if r := recover(); r != nil {
					g.rep.Fail("c04-panic", fmt.Sprint(r), in)
				}
			}()
			p, err := merklize.Options{Hasher: h}.NewPath("k")
			if err != nil {
				return
			}
			e, err := merklize.Options{Hasher: h}.NewRDFEntry(p, in.xValue())
			if err != nil {
				return
			}
			v, err := e.ValueMtEntry()
			if (err == nil) != o.ok || (o.ok && v.Cmp(o.val) != 0) {
				g.rep.Fail("c04-value-vs-entry", "Value.MtEntry and RDFEntry.ValueMtEntry differ", in)
			}
			// the encoding of a value survives the entry's binary form (the route a serialized merklizer takes): decode into an
			// entry prepared with the same options, as Merklizer.UnmarshalBinary does
			blob, err := e.MarshalBinary()
			if err != nil {
				return
			}
			p2, _ := merklize.Options{Hasher: h}.NewPath("")
			e2, err := merklize.Options{Hasher: h}.NewRDFEntry(p2, "")
			if err != nil {
				return
			}
			g.rep.Evaluations++
			g.rep.Count("entry-binary-roundtrip")
			if err := e2.UnmarshalBinary(blob); err != nil {
				g.rep.Fail("c04-entry-roundtrip", "an entry the library encoded does not decode: "+err.Error(), in)
				return
			}
			v2, err := e2.ValueMtEntry()
			if (err == nil) != o.ok || (o.ok && v2.Cmp(o.val) != 0) {
				g.rep.Fail("c04-entry-roundtrip", fmt.Sprintf("the value encodes as %v before and %v after the entry's binary round trip", o.val, v2), in)
			}
		}()
	}
}

const shardSize = 400

func (g *gen) writeShards() error {
	n := len(g.cases)
	for s := 0; s*shardSize < n; s++ {
		lo, hi := s*shardSize, (s+1)*shardSize
		if hi > n {
			hi = n
		}
		f := coqgen.NewFile("From GSP Require Import Value.Time Value.Model Value.Run.")
		var hs []string
		for _, r := range g.recs {
			hs = append(hs, r.Coq(f))
		}
		var cs []string
		name := filepath.Join(g.cfg.OutDir, fmt.Sprintf("cases_C04_%03d.v", s))
		for i := lo; i < hi; i++ {
			in, o := g.cases[i], g.obs[i]
			var ob string
			switch {
			case o.ok:
				ob = "VOk " + coqgen.Limbs(o.val)
			case o.panic:
				ob = "VPanic"
			default:
				ob = "VErr"
			}
			cs = append(cs, fmt.Sprintf("mkc %d %d (%s) (%s)", i, in.Hasher, in.coq(f), ob))
			g.rep.Case(name, i, in)
		}
		f.Add("Definition hashers_ : list raw_hasher := " + coqgen.List(hs) + ".")
		f.Add("Definition floats_ : raw_floats := " + g.fr.Coq(f) + ".")
		f.Add("Definition cases_ : list vcase := " + coqgen.List(cs) + ".")
		f.Add("Definition M := Eval vm_compute in vmismatches hashers_ floats_ cases_.")
		f.Add("Print M.")
		if err := f.Write(name); err != nil {
			return err
		}
		g.rep.Shards = append(g.rep.Shards, name)
	}
	return nil
}

func Run(cfg *common.Config) (*common.Report, error) {
	rep := common.NewReport("C04")
	rep.Correspondence = "Value.Run.vmismatches: value_to_hash / mk_value_entry (Value/Model.v) vs merklize.HashValueWithHasher / Value.MtEntry"
	rep.Rule = "boundary grid (lo-2..lo+2, -2..2, hi-2..hi+2, p-2..p+2; whole field for p<64) x 5 integer types x 9 primes x lexical/Go-typed spellings; boolean forms; dateTime instants x offsets x fraction digits; doubles; strings; malformed stream. distinct = distinct (hasher,datatype,Go kind,value) tuples; every case is non-trivial (it reaches a datatype branch)."
	g := &gen{cfg: cfg, rep: rep, fr: floats.New()}
	// hasher 0: the repository's default; then small primes
	g.recs = append(g.recs, hashers.NewRecorder(hashers.Default()))
	g.primes = append(g.primes, new(big.Int).Set(constants.Q))
	for _, p := range hashers.SmallPrimes() {
		// the hasher hands out its stored modulus (ShareP); g.primes keeps a private copy to compare with at the end
		g.recs = append(g.recs, hashers.NewRecorder(hashers.Mod{P: new(big.Int).Set(p), Name: "mod" + p.String(), ShareP: true}))
		g.primes = append(g.primes, new(big.Int).Set(p))
	}
	if cfg.Replay != "" {
		return replay(cfg, g)
	}
	g.intStream()
	g.boolStream()
	g.timeStream()
	g.floatIntStream()
	g.doubleStream()
	g.stringStream()
	g.typedStream()
	g.entryAgrees()
	for i, r := range g.recs {
		if r.Inner.Prime().Cmp(g.primes[i]) != 0 {
			rep.Fail("c04-hasher-prime-mutated", fmt.Sprintf("the library changed the *big.Int returned by Hasher.Prime(): %s became %s", g.primes[i], r.Inner.Prime()), map[string]any{"hasher": i, "prime": g.primes[i].String()})
		}
	}
	for i, in := range g.cases {
		if i%97 == 0 {
			rep.Sample(map[string]any{"input": in, "ok": g.obs[i].ok, "value": fmt.Sprint(g.obs[i].val)})
		}
	}
	rep.Exhaustive = false
	rep.Notes = append(rep.Notes, "for primes < 64 every integer in [-p-2, p+2] is enumerated for every integer type (whole field)")
	if err := g.writeShards(); err != nil {
		return nil, err
	}
	return rep, nil
}

// replay re-runs the single input stored in a replay file.
func replay(cfg *common.Config, g *gen) (*common.Report, error) {
	var rf struct {
		Input Input `json:"input"`
	}
	if err := common.ReadJSON(cfg.Replay, &rf); err != nil {
		return nil, err
	}
	in := rf.Input
	o := g.add(&in)
	g.rep.Sample(map[string]any{"input": in, "ok": o.ok, "panic": o.panic, "value": fmt.Sprint(o.val), "msg": o.msg})
	fmt.Printf("replay: input=%+v -> ok=%v panic=%v value=%v msg=%q\n", in, o.ok, o.panic, o.val, o.msg)
	if err := g.writeShards(); err != nil {
		return nil, err
	}
	return g.rep, nil
}
