package main

import (
	_ "vharness/c13"
)
