package main

import (
	_ "vharness/c03"
)
