package c11

// Generator of schemas / contexts / documents for C11.  Unlike docgen (unique
// terms), it can define the SAME term differently in a type-scoped context and in
// an enclosing context, emit @propagate, local contexts in nested nodes and arrays
// whose members have different types.  The generator carries its own account of
// the JSON-LD semantics (env: term -> IRI in force, type-scoped definitions are
// dropped when a nested node is entered unless @propagate:true), independent of
// json-gold and of the Coq model; the implementation-side oracles use it.

import (
	"encoding/json"
	"fmt"
	"math/rand"
	"sort"
	"strconv"
	"strings"
	"time"
)

const (
	vocab   = "http://ex.org/v#"
	xsd     = "http://www.w3.org/2001/XMLSchema#"
	rdfType = "http://www.w3.org/1999/02/22-rdf-syntax-ns#type"
)

type prop struct {
	Term, IRI  string
	Kind       string // lit | iri | node
	DT         string // declared datatype, "" = none
	Multi      bool
	Child      *typ
	Alt        *typ   // second member type of a heterogeneous node array
	Scoped     bool   // the child's terms live in this property's scoped context
	NoProp     bool   // the property-scoped context says @propagate:false
	Graph      bool   // @container: @graph: the value is a named graph
	DeclPrefix string // the property-scoped context declares this prefix; everything defined below uses it
}

type typ struct {
	Term, IRI  string
	Props      []*prop
	TypeScoped bool
	Propagate  int               // 0: absent, 1: @propagate true, 2: @propagate false (explicit)
	Shadow     map[string]tdefn  // extra (re)definitions placed in the type-scoped context
	LocalCtx   map[string]string // term -> IRI redefined by a local @context inside nodes of this type
	DeclPrefix string            // the (propagated) type-scoped context declares this prefix; everything defined below uses it
	Second     *typ              // nodes of this type also carry this second (type-scoped) type
	Third      *typ              // ... and this third one
	FixedID    string            // every node of this type carries this @id (the same node in several named graphs)
	Shared     *prop             // a term every type of the node defines in its scoped context, each with another IRI
	Redecl     *redecl           // this type's scoped context re-declares ANOTHER type term with another scoped context
}

// redecl: {"<Term>": {"@id": IRI, "@context": {"<Field>": FieldIRI}}} inside a type-scoped context.  JSON-LD looks
// every @type value of a node up in the context active BEFORE the node's type-scoped contexts, so it has no effect
// on the node that carries both types.
type redecl struct{ Term, IRI, Field, FieldIRI string }

// extras: the further types of a multi-typed node
func (t *typ) extras() []*typ {
	var out []*typ
	if t.Second != nil {
		out = append(out, t.Second)
	}
	if t.Third != nil {
		out = append(out, t.Third)
	}
	return out
}

// typesSorted: all types of the node in the order JSON-LD applies their scoped contexts
func (t *typ) typesSorted() []*typ {
	all := append([]*typ{t}, t.extras()...)
	sort.Slice(all, func(i, j int) bool { return all[i].Term < all[j].Term })
	return all
}

// leaf: one field of the document reachable by a dotted path.
type leaf struct {
	DocPath  []string `json:"doc_path"`
	Parts    []any    `json:"parts"`    // expected path: IRIs and document indices
	DT       string   `json:"datatype"` // datatype expected on the entry
	Declared string   `json:"declared"` // datatype declared in the context ("" = none)
	Value    string   `json:"value"`    // canonical rendering (docgen.RenderGoValue format)
	Raw      any      `json:"raw"`
	// context side
	TypeTerm   string   `json:"type_term"` // type of the enclosing typed node that roots Rel
	TypeIRI    string   `json:"type_iri"`
	PrefixLen  int      `json:"prefix_len"`  // number of expected parts before that node's fields
	Rel        []string `json:"rel"`         // field path relative to that node
	CtxOK      bool     `json:"ctx_ok"`      // the generator expects the context-only resolvers to resolve TypeTerm.Rel
	Leak       bool     `json:"leak"`        // the leaf sits under a type-scoped redefinition that must NOT be visible (D8 class)
	Member     bool     `json:"member"`      // reached through member >= 1 of a node array (the resolver walks member 0 instead)
	Hetero     bool     `json:"hetero"`      // reached through a heterogeneous array (stored numbering may differ from document order)
	ArrayLen   int      `json:"array_len"`   // >0: the leaf is member of a literal array of that length
	SingleWrap bool     `json:"single_wrap"` // the leaf is the only member of a one-element array
}

type nodeInfo struct {
	DocPath    []string `json:"doc_path"`
	Parts      []any    `json:"parts"`
	TypeTerm   string   `json:"type_term"`
	TypeIRI    string   `json:"type_iri"`
	IsType     bool     `json:"is_type"`     // the type term carries a scoped context (TypeIDFromContext accepts it)
	TopVisible bool     `json:"top_visible"` // the type term is defined at the top level of the context document
	Multi      bool     `json:"multi"`       // the node carries several types (rdf:type entries are indexed)
}

type gdoc struct {
	Obj      map[string]any
	Ctx      any // the @context value (inline form)
	CtxDoc   map[string]any
	Root     *typ
	Leaves   []leaf
	Nodes    []nodeInfo
	Features map[string]bool
	Remote   string // URL when the context is served by URL
}

// tdefn: what a term means in some context: IRI and type mapping.
type tdefn struct{ IRI, DT string }

type gen struct {
	digitTerms int
	localPfx   string // prefix declared by an enclosing scoped context (in force while its definitions are emitted)
	top        env
	r          *rand.Rand
	n          int
	alias      bool
	prefix     bool
	features   map[string]bool
	leaves     []leaf
	nodes      []nodeInfo
	topDefs    map[string]any
}

// term: a fresh term name.  Some names START with a digit ("2fa17", "3ds5Version", "0x9"): they are terms like any
// other, not array indices (only a segment made of digits alone is an index).
func (g *gen) term(p string) string {
	g.n++
	if g.r != nil && g.r.Intn(7) == 0 {
		g.digitTerms++
		switch g.r.Intn(3) {
		case 0:
			return fmt.Sprintf("%dfa%d", 2+g.r.Intn(7), g.n)
		case 1:
			return fmt.Sprintf("3ds%dVersion", g.n)
		default:
			return fmt.Sprintf("0x%d", g.n)
		}
	}
	return fmt.Sprintf("%s%d", p, g.n)
}

var declTypes = []string{"", "", "", xsd + "string", xsd + "integer", xsd + "boolean", xsd + "dateTime", vocab + "customType", xsd + "positiveInteger"}

func (g *gen) schema(depth int, force string) *typ {
	t := &typ{Term: g.term("T"), TypeScoped: g.r.Intn(2) == 0}
	t.IRI = vocab + t.Term
	n := 1 + g.r.Intn(3)
	for i := 0; i < n; i++ {
		p := &prop{Term: g.term("p")}
		p.IRI = vocab + p.Term
		r := g.r.Intn(10)
		switch {
		case r < 5 || depth == 0:
			p.Kind = "lit"
			p.DT = declTypes[g.r.Intn(len(declTypes))]
			p.Multi = g.r.Intn(3) == 0
		case r < 6:
			p.Kind = "iri"
			p.Multi = g.r.Intn(4) == 0
		default:
			p.Kind = "node"
			p.Multi = g.r.Intn(3) == 0
			p.Child = g.schema(depth-1, "")
			p.Scoped = g.r.Intn(3) == 0
		}
		t.Props = append(t.Props, p)
	}
	return t
}

func (t *typ) firstLit() *prop {
	for _, p := range t.Props {
		if p.Kind == "lit" {
			return p
		}
	}
	return nil
}

// shadowSchema: the D8 seed.  T (type-scoped) -> inner (node) -> C with a literal
// `leaf`; T's scoped context ALSO defines `leaf`, with another IRI.
// mode: "leak" (C's terms defined in an enclosing context: the redefinition must not be
// visible in the nested node), "propagate" (the type-scoped context says @propagate:true:
// it IS visible), "rescoped" (inner is property-scoped and defines leaf again), "ctype"
// (C is type-scoped itself and defines leaf again), "same" (the redefinition is identical).
func (g *gen) shadowSchema(mode string) *typ {
	c := &typ{Term: g.term("T")}
	c.IRI = vocab + c.Term
	lf := &prop{Term: g.term("p"), Kind: "lit", DT: []string{"", xsd + "string", xsd + "integer"}[g.r.Intn(3)]}
	lf.IRI = vocab + lf.Term
	c.Props = []*prop{lf}
	if g.r.Intn(2) == 0 {
		o := &prop{Term: g.term("p"), Kind: "lit"}
		o.IRI = vocab + o.Term
		c.Props = append(c.Props, o)
	}
	t := &typ{Term: g.term("T"), TypeScoped: true, Shadow: map[string]tdefn{}}
	t.IRI = vocab + t.Term
	inner := &prop{Term: g.term("p"), Kind: "node", Child: c, Multi: g.r.Intn(4) == 0}
	inner.IRI = vocab + inner.Term
	own := &prop{Term: g.term("p"), Kind: "lit", DT: xsd + "string"}
	own.IRI = vocab + own.Term
	t.Props = []*prop{own, inner}
	sdt := lf.DT
	if g.r.Intn(2) == 0 {
		sdt = []string{"", xsd + "string", xsd + "integer"}[g.r.Intn(3)]
	}
	t.Shadow[lf.Term] = tdefn{vocab + lf.Term + "_T", sdt}
	switch mode {
	case "propagate":
		t.Propagate = 1
	case "rescoped":
		inner.Scoped = true
	case "ctype":
		c.TypeScoped = true
	case "same":
		t.Shadow[lf.Term] = tdefn{lf.IRI, lf.DT}
	case "explicit":
		t.Propagate = 2
	}
	return t
}

// heteroSchema: a node array whose members have two different type-scoped types that
// define the same term with different IRIs.
func (g *gen) heteroSchema() *typ {
	shared := g.term("p")
	mk := func(suffix string) *typ {
		a := &typ{Term: g.term("T"), TypeScoped: true}
		a.IRI = vocab + a.Term
		p := &prop{Term: shared, IRI: vocab + shared + suffix, Kind: "lit", DT: []string{"", xsd + "string"}[g.r.Intn(2)]}
		a.Props = []*prop{p}
		return a
	}
	a, b := mk("_A"), mk("_B")
	t := &typ{Term: g.term("T"), TypeScoped: g.r.Intn(2) == 0}
	t.IRI = vocab + t.Term
	items := &prop{Term: g.term("p"), Kind: "node", Multi: true, Child: a, Alt: b}
	items.IRI = vocab + items.Term
	t.Props = []*prop{items}
	return t
}

// graphSchema: two or three @container:@graph properties (e.g. several credentials of one holder) whose named
// graphs contain a node with the SAME @id and the same nested property names.  The graphs are distinct, so every
// field is stored under <graph property>/<nested property>/<field>, without any index.
func (g *gen) graphSchema() *typ {
	lit := func(dt string) *prop {
		p := &prop{Term: g.term("p"), Kind: "lit", DT: dt}
		p.IRI = vocab + p.Term
		return p
	}
	addr := &typ{Term: g.term("T")}
	addr.IRI = vocab + addr.Term
	addr.Props = []*prop{lit(""), lit(xsd + "string")}
	g.n++
	holder := &typ{Term: g.term("T"), FixedID: fmt.Sprintf("urn:holder:%d", g.n), TypeScoped: g.r.Intn(2) == 0}
	holder.IRI = vocab + holder.Term
	address := &prop{Term: g.term("p"), Kind: "node", Child: addr}
	address.IRI = vocab + address.Term
	holder.Props = []*prop{lit(xsd + "integer"), address}
	t := &typ{Term: g.term("T"), TypeScoped: g.r.Intn(2) == 0}
	t.IRI = vocab + t.Term
	t.Props = []*prop{lit("")}
	for i, n := 0, 2+g.r.Intn(2); i < n; i++ {
		gp := &prop{Term: g.term("p"), Kind: "node", Child: holder, Graph: true}
		gp.IRI = vocab + gp.Term
		t.Props = append(t.Props, gp)
	}
	return t
}

// prefixSchema: the iden3 schema-builder layout.  A prefix is declared only inside a scoped context (the
// propagated type-scoped context of the root type, or a property-scoped context) and used by the
// property-scoped contexts nested below it, at depth 2 and 3: Type.prop.nested(.nested2).
func (g *gen) prefixSchema() *typ {
	lit := func() *prop {
		p := &prop{Term: g.term("p"), Kind: "lit", DT: []string{"", xsd + "string", xsd + "integer", vocab + "customType"}[g.r.Intn(4)], Multi: g.r.Intn(4) == 0}
		p.IRI = vocab + p.Term
		return p
	}
	plain := func(props ...*prop) *typ {
		c := &typ{Term: g.term("T")}
		c.IRI = vocab + c.Term
		c.Props = props
		return c
	}
	scopedNode := func(child *typ) *prop {
		p := &prop{Term: g.term("p"), Kind: "node", Child: child, Scoped: true, Multi: g.r.Intn(4) == 0}
		p.IRI = vocab + p.Term
		return p
	}
	g.n++
	pfx := fmt.Sprintf("dv%d-vocab", g.n)
	deep := plain(lit(), lit())
	mid := plain(lit(), scopedNode(deep)) // depth 3 below the root type
	inner := scopedNode(mid)              // depth 2
	t := &typ{Term: g.term("T"), TypeScoped: true}
	t.IRI = vocab + t.Term
	t.Props = []*prop{lit(), inner}
	if g.r.Intn(2) == 0 {
		// declared by the root type's scoped context, which propagates
		t.DeclPrefix, t.Propagate = pfx, 1
	} else {
		// declared by the outer property-scoped context, used by the one nested in it
		inner.DeclPrefix = pfx
	}
	return t
}

// dualSchema: a node carrying two type-scoped types; the scoped context of the type that sorts first
// re-declares the term of the other type with a different scoped context (which must have no effect).
func (g *gen) dualSchema() *typ {
	mk := func() *typ {
		a := &typ{Term: g.term("T"), TypeScoped: true}
		a.IRI = vocab + a.Term
		n := 1 + g.r.Intn(2)
		for i := 0; i < n; i++ {
			p := &prop{Term: g.term("p"), Kind: "lit", DT: []string{"", xsd + "string", xsd + "integer"}[g.r.Intn(3)]}
			p.IRI = vocab + p.Term
			a.Props = append(a.Props, p)
		}
		return a
	}
	a, b := mk(), mk()
	first, other := a, b
	if b.Term < a.Term {
		first, other = b, a
	}
	if g.r.Intn(4) != 0 {
		f := other.Props[0]
		first.Redecl = &redecl{Term: other.Term, IRI: other.IRI, Field: f.Term, FieldIRI: f.IRI + "_R"}
	}
	a.Second = b
	all := []*typ{a, b}
	if g.r.Intn(2) == 0 {
		a.Third = mk()
		all = append(all, a.Third)
	}
	if g.r.Intn(3) != 0 {
		// every type defines the same term in its scoped context, each with another IRI (and maybe datatype)
		shared := g.term("p")
		for _, x := range all {
			dt := []string{"", xsd + "string"}[g.r.Intn(2)]
			x.Shadow = map[string]tdefn{shared: {vocab + shared + "_" + x.Term, dt}}
		}
		a.Shared = &prop{Term: shared, Kind: "lit"}
	}
	if g.r.Intn(2) == 0 {
		return a
	}
	t := &typ{Term: g.term("T"), TypeScoped: g.r.Intn(2) == 0}
	t.IRI = vocab + t.Term
	who := &prop{Term: g.term("p"), Kind: "node", Child: a, Multi: g.r.Intn(3) == 0, Scoped: g.r.Intn(3) == 0}
	who.IRI = vocab + who.Term
	own := &prop{Term: g.term("p"), Kind: "lit"}
	own.IRI = vocab + own.Term
	t.Props = []*prop{own, who}
	return t
}

func (g *gen) id(iri string) string {
	if g.localPfx != "" && strings.HasPrefix(iri, vocab) {
		return g.localPfx + ":" + iri[len(vocab):]
	}
	if g.prefix && strings.HasPrefix(iri, vocab) {
		return "ex:" + iri[len(vocab):]
	}
	if g.prefix && strings.HasPrefix(iri, xsd) {
		return "xsd:" + iri[len(xsd):]
	}
	return iri
}

func (g *gen) termDef(p *prop) any {
	def := map[string]any{"@id": g.id(p.IRI)}
	switch p.Kind {
	case "lit":
		if p.DT != "" {
			def["@type"] = g.id(p.DT)
		} else if g.r.Intn(2) == 0 {
			return g.id(p.IRI)
		}
	case "iri":
		def["@type"] = "@id"
	case "node":
		if p.Graph {
			def["@container"] = "@graph"
		}
		if p.Scoped && p.Child != nil {
			sc := map[string]any{}
			old := g.localPfx
			if p.DeclPrefix != "" {
				g.localPfx = p.DeclPrefix
				sc[p.DeclPrefix] = vocab
			}
			g.typeDefs(p.Child, sc)
			if p.Alt != nil {
				g.typeDefs(p.Alt, sc)
			}
			g.localPfx = old
			if p.NoProp {
				sc["@propagate"] = false
			}
			def["@context"] = sc
		}
	}
	return def
}

// typeDefs adds to out (a propagating context) what is needed for nodes of type t.
func (g *gen) typeDefs(t *typ, out map[string]any) {
	props := map[string]any{}
	oldPfx := g.localPfx
	if t.TypeScoped && t.DeclPrefix != "" {
		g.localPfx = t.DeclPrefix
		props[t.DeclPrefix] = vocab
	}
	for _, p := range t.Props {
		props[p.Term] = g.termDef(p)
	}
	g.localPfx = oldPfx
	if t.TypeScoped {
		for k, sd := range t.Shadow {
			if sd.DT != "" {
				props[k] = map[string]any{"@id": g.id(sd.IRI), "@type": g.id(sd.DT)}
			} else if g.r.Intn(2) == 0 {
				props[k] = map[string]any{"@id": g.id(sd.IRI)}
			} else {
				props[k] = g.id(sd.IRI)
			}
		}
		if rd := t.Redecl; rd != nil {
			props[rd.Term] = map[string]any{"@id": g.id(rd.IRI), "@context": map[string]any{rd.Field: g.id(rd.FieldIRI)}}
		}
		switch t.Propagate {
		case 1:
			props["@propagate"] = true
		case 2:
			props["@propagate"] = false
		}
		out[t.Term] = map[string]any{"@id": g.id(t.IRI), "@context": props}
	} else {
		out[t.Term] = g.id(t.IRI)
		for k, v := range props {
			out[k] = v
		}
	}
	for _, x := range t.extras() {
		g.typeDefs(x, out)
	}
	for _, p := range t.Props {
		if p.Kind == "node" && !p.Scoped {
			g.typeDefs(p.Child, out)
			if p.Alt != nil {
				g.typeDefs(p.Alt, out)
			}
		}
	}
}

func (g *gen) context(t *typ) map[string]any {
	ctx := map[string]any{}
	g.typeDefs(t, ctx)
	if g.prefix {
		ctx["ex"] = vocab
		ctx["xsd"] = xsd
	}
	if g.alias {
		ctx["id"] = "@id"
		ctx["type"] = "@type"
	}
	if g.r.Intn(3) == 0 {
		ctx["@version"] = 1.1
	}
	return ctx
}

func (g *gen) idKey() string {
	if g.alias {
		return "id"
	}
	return "@id"
}
func (g *gen) typeKey() string {
	if g.alias {
		return "type"
	}
	return "@type"
}

var words = []string{"alpha", "beta", "gamma", "delta", "x", "y", "hello world", "42", "true", "a b c"}

// literal returns raw JSON value, canonical rendering, entry datatype.  i makes array members distinct.
func (g *gen) literal(dt string, i int) (any, string, string) {
	r := g.r
	switch dt {
	case "":
		switch r.Intn(3) {
		case 0:
			v := int64(r.Intn(1000))*10 + int64(i)
			return float64(v), "int:" + strconv.FormatInt(v, 10), xsd + "integer"
		case 1:
			if i == 0 {
				b := r.Intn(2) == 0
				return b, "bool:" + strconv.FormatBool(b), xsd + "boolean"
			}
			fallthrough
		default:
			s := fmt.Sprintf("%s-%d", words[r.Intn(len(words))], i)
			return s, "str:" + s, xsd + "string"
		}
	case xsd + "string", vocab + "customType":
		s := fmt.Sprintf("%s-%d", words[r.Intn(len(words))], i)
		return s, "str:" + s, dt
	case xsd + "boolean":
		b := i%2 == 0
		return b, "bool:" + strconv.FormatBool(b), dt
	case xsd + "dateTime":
		t := time.Unix(int64(r.Intn(2_000_000_000))+int64(i), 0).UTC()
		return t.Format(time.RFC3339), "time:" + strconv.FormatInt(t.UnixNano(), 10), dt
	default: // integer kinds
		v := int64(1+r.Intn(100000))*10 + int64(i)
		if r.Intn(2) == 0 {
			return float64(v), "int:" + strconv.FormatInt(v, 10), dt
		}
		return strconv.FormatInt(v, 10), "int:" + strconv.FormatInt(v, 10), dt
	}
}

type env map[string]tdefn // term -> definition in force

func (e env) with(m map[string]tdefn) env {
	o := env{}
	for k, v := range e {
		o[k] = v
	}
	for k, v := range m {
		o[k] = v
	}
	return o
}

// defsOf: the definitions typeDefs(t) contributes to a propagating context.
func propDefn(p *prop) tdefn {
	switch p.Kind {
	case "lit":
		return tdefn{p.IRI, p.DT}
	case "iri":
		return tdefn{p.IRI, "@id"}
	}
	return tdefn{p.IRI, ""}
}

func defsOf(t *typ, out map[string]tdefn) {
	if !t.TypeScoped {
		for _, p := range t.Props {
			out[p.Term] = propDefn(p)
		}
	}
	for _, p := range t.Props {
		if p.Kind == "node" && !p.Scoped {
			defsOf(p.Child, out)
			if p.Alt != nil {
				defsOf(p.Alt, out)
			}
		}
	}
}

type ctxRoot struct { // innermost node from which the context-only resolvers can start
	typeTerm  string
	typeIRI   string
	prefixLen int
	docLen    int
	ok        bool // every step since that node is visible to a context-only walk
}

func cp[T any](s []T) []T { return append([]T{}, s...) }

// node builds a node of type t.  penv: definitions that propagate into this node
// (type-scoped ones of the ancestors already dropped).  leak: set of terms for which an
// ancestor's non-propagated type-scoped context holds a DIFFERENT definition (what the
// repository's resolvers wrongly keep seeing).
func (g *gen) node(t *typ, penv env, leak map[string]bool, docPath []string, parts []any, root *ctxRoot, topVisible bool, member bool, hetero bool) map[string]any {
	obj := map[string]any{}
	if t.FixedID != "" {
		obj[g.idKey()] = t.FixedID
		g.features["same-id-in-several-graphs"] = true
	} else if g.r.Intn(3) == 0 {
		g.n++
		obj[g.idKey()] = fmt.Sprintf("urn:n:%d", g.n)
	}
	obj[g.typeKey()] = t.Term
	if t.Second != nil {
		// the types are written in any order; JSON-LD applies their scoped contexts in lexicographic order
		var written []any
		for _, x := range append([]*typ{t}, t.extras()...) {
			written = append(written, x.Term)
			if x.Redecl != nil {
				g.features["type-term-redeclared"] = true
			}
		}
		g.r.Shuffle(len(written), func(i, j int) { written[i], written[j] = written[j], written[i] })
		obj[g.typeKey()] = written
		g.features[fmt.Sprintf("types:%d", len(written))] = true
		inOrder := true
		for i := 1; i < len(written); i++ {
			if written[i-1].(string) > written[i].(string) {
				inOrder = false
			}
		}
		if !inOrder {
			g.features["types-written-unsorted"] = true
		}
		if t.Shared != nil {
			g.features["types-conflicting-term"] = true
		}
	}
	if t.LocalCtx != nil {
		lc := map[string]any{}
		for k, v := range t.LocalCtx {
			lc[k] = v
		}
		obj["@context"] = lc
		lcd := map[string]tdefn{}
		for k, v := range t.LocalCtx {
			lcd[k] = tdefn{v, ""}
		}
		penv = penv.with(lcd)
		g.features["local-context"] = true
	}
	active := penv
	myLeak := map[string]bool{}
	for k := range leak {
		if _, redefined := t.LocalCtx[k]; !redefined {
			myLeak[k] = true
		}
	}
	if t.TypeScoped && t.DeclPrefix != "" {
		g.features["prefix-declared-in-type-scoped"] = true
	}
	for _, p := range t.Props {
		if p.DeclPrefix != "" {
			g.features["prefix-declared-in-property-scoped"] = true
		}
	}
	if t.TypeScoped {
		g.features["type-scoped"] = true
		ts := map[string]tdefn{}
		for _, p := range t.Props {
			ts[p.Term] = propDefn(p)
		}
		for k, v := range t.Shadow {
			ts[k] = v
		}
		if t.Second != nil {
			// all types of the node, in the order their scoped contexts are applied: the last one wins
			for _, x := range t.typesSorted() {
				for _, p := range x.Props {
					ts[p.Term] = propDefn(p)
				}
				for k, v := range x.Shadow {
					ts[k] = v
				}
			}
		}
		active = penv.with(ts)
		// this node's own type-scoped definitions win here, also for the resolvers
		for k := range ts {
			delete(myLeak, k)
		}
		if t.Propagate == 1 {
			penv = active
			g.features["propagate-true"] = true
		}
		if t.Propagate == 2 {
			g.features["propagate-false-explicit"] = true
		}
	}
	g.nodes = append(g.nodes, nodeInfo{DocPath: cp(docPath), Parts: cp(parts), TypeTerm: t.Term, TypeIRI: t.IRI, IsType: t.TypeScoped, TopVisible: topVisible, Multi: t.Second != nil})
	for _, x := range t.extras() {
		g.nodes = append(g.nodes, nodeInfo{DocPath: cp(docPath), Parts: cp(parts), TypeTerm: x.Term, TypeIRI: x.IRI, IsType: true, TopVisible: topVisible, Multi: true})
	}
	// context-only resolvers (type term + field path): they can start at a type term defined
	// at the top level of the context document and walk through properties (incl. their
	// property-scoped contexts); they cannot enter a nested type-scoped context, and a local
	// @context inside the document is invisible to them.
	var myRoot ctxRoot
	if root == nil || t.TypeScoped || (topVisible && g.r.Intn(3) == 0) {
		ok := topVisible && t.LocalCtx == nil
		if !t.TypeScoped {
			// a context-only walk starting at a plain type sees the top-level definitions of its terms
			for _, p := range t.Props {
				if penv[p.Term] != g.top[p.Term] {
					ok = false
				}
			}
		}
		myRoot = ctxRoot{typeTerm: t.Term, typeIRI: t.IRI, prefixLen: len(parts), docLen: len(docPath), ok: ok}
	} else {
		myRoot = *root
		myRoot.ok = myRoot.ok && t.LocalCtx == nil
	}
	// terms a nested node must not see but the resolvers will: type-scoped definitions that
	// differ from the propagating environment
	childLeak := map[string]bool{}
	for k := range myLeak {
		childLeak[k] = true
	}
	if t.TypeScoped && t.Propagate != 1 {
		for k, v := range active {
			if pv, ok := penv[k]; ok && pv != v {
				childLeak[k] = true
			}
		}
	}
	allProps := t.Props
	nOwn := len(t.Props)
	firstRoot := myRoot
	owner := map[*prop]*typ{}
	if t.Second != nil {
		allProps = append([]*prop{}, t.Props...)
		for _, x := range t.extras() {
			for _, p := range x.Props {
				owner[p] = x
				allProps = append(allProps, p)
			}
		}
		if t.Shared != nil {
			// the conflicting term: the definition of the type applied LAST is the one in force
			sorted := t.typesSorted()
			owner[t.Shared] = sorted[len(sorted)-1]
			allProps = append(allProps, t.Shared)
		}
	}
	for pi, p := range allProps {
		myRoot = firstRoot
		if x := owner[p]; pi >= nOwn && x != nil && x != t {
			// a field of another type of the node: the context-only resolvers start at that type's term
			myRoot = ctxRoot{typeTerm: x.Term, typeIRI: x.IRI, prefixLen: len(parts), docLen: len(docPath), ok: topVisible && t.LocalCtx == nil}
		}
		iri := active[p.Term].IRI
		declared := active[p.Term].DT
		n := 1
		if p.Multi {
			n = []int{0, 1, 2, 2, 3}[g.r.Intn(5)]
		}
		if p.Alt != nil {
			n = 2 + g.r.Intn(2)
		}
		if declared == xsd+"boolean" && n > 2 {
			n = 2 // only two distinct values exist
		}
		switch p.Kind {
		case "lit", "iri":
			var arr []any
			wrap := n == 1 && g.r.Intn(4) == 0
			for i := 0; i < n; i++ {
				dp := append(cp(docPath), p.Term)
				pp := append(cp(parts), iri)
				if n >= 2 {
					dp = append(dp, strconv.Itoa(i))
					pp = append(pp, i)
				}
				var raw any
				var val, dt string
				if p.Kind == "iri" {
					s := fmt.Sprintf("urn:v:%d", i*7+g.r.Intn(7))
					raw, val, dt = s, "str:"+s, ""
				} else {
					raw, val, dt = g.literal(declared, i)
				}
				arr = append(arr, raw)
				lf := leaf{DocPath: dp, Parts: pp, DT: dt, Declared: declared, Value: val, Raw: raw, Hetero: hetero,
					TypeTerm: myRoot.typeTerm, TypeIRI: myRoot.typeIRI, PrefixLen: myRoot.prefixLen, Rel: cp(dp[myRoot.docLen:]), CtxOK: myRoot.ok,
					Leak: myLeak[p.Term], Member: member, SingleWrap: wrap}
				if n >= 2 {
					lf.ArrayLen = n
				}
				if p.Kind == "iri" {
					lf.Declared = ""
				}
				g.leaves = append(g.leaves, lf)
			}
			switch {
			case n == 0:
				obj[p.Term] = []any{}
				g.features["empty-array"] = true
			case n == 1 && !wrap:
				obj[p.Term] = arr[0]
			default:
				obj[p.Term] = arr
				if n >= 2 {
					g.features["array-of-"+p.Kind] = true
				} else {
					g.features["single-member-array"] = true
				}
			}
		case "node":
			if p.Graph {
				g.features["graph-container"] = true
			}
			var arr []any
			cenv := penv
			cleak := childLeak
			if p.Scoped {
				g.features["property-scoped"] = true
				d := map[string]tdefn{}
				defsOf(p.Child, d)
				if p.Alt != nil {
					defsOf(p.Alt, d)
				}
				cenv = penv.with(d)
				cleak = map[string]bool{}
				for k := range childLeak {
					if _, redefined := d[k]; !redefined {
						cleak[k] = true
					}
				}
			}
			for i := 0; i < n; i++ {
				dp := append(cp(docPath), p.Term)
				pp := append(cp(parts), iri)
				if n >= 2 {
					dp = append(dp, strconv.Itoa(i))
					pp = append(pp, i)
				}
				ct := p.Child
				if p.Alt != nil && i%2 == 1 {
					ct = p.Alt
				}
				if p.Alt != nil {
					g.features["hetero-array"] = true
				}
				arr = append(arr, g.node(ct, cenv, cleak, dp, pp, &myRoot, topVisible && !p.Scoped, member || i >= 1, hetero || p.Alt != nil))
			}
			switch {
			case n == 0:
				obj[p.Term] = []any{}
			case n == 1 && g.r.Intn(4) != 0:
				obj[p.Term] = arr[0]
			default:
				obj[p.Term] = arr
				if n >= 2 {
					g.features["array-of-node"] = true
				}
			}
		}
	}
	return obj
}

// build makes one document for the schema t.
func (g *gen) build(t *typ) *gdoc {
	g.features = map[string]bool{}
	g.leaves, g.nodes = nil, nil
	ctx := g.context(t)
	if g.prefix {
		g.features["prefix"] = true
	}
	if g.alias {
		g.features["alias"] = true
	}
	top := map[string]tdefn{}
	defsOf(t, top)
	g.top = env(top)
	obj := g.node(t, env(top), map[string]bool{}, nil, nil, nil, true, false, false)
	d := &gdoc{Obj: obj, Ctx: ctx, CtxDoc: map[string]any{"@context": ctx}, Root: t, Leaves: g.leaves, Nodes: g.nodes, Features: g.features}
	obj["@context"] = ctx
	return d
}

func newGen(r *rand.Rand) *gen { return &gen{r: r} }

func (g *gen) randomDoc() *gdoc {
	g.alias = g.r.Intn(3) == 0
	g.prefix = g.r.Intn(3) == 0
	var t *typ
	kind := g.r.Intn(16)
	switch {
	case kind == 15:
		t = g.graphSchema()
	case kind == 13:
		t = g.prefixSchema()
	case kind == 12 || kind == 14:
		t = g.dualSchema()
	case kind < 6:
		t = g.schema(1+g.r.Intn(3), "")
	case kind < 9:
		modes := []string{"leak", "leak", "propagate", "rescoped", "ctype", "same", "explicit"}
		t = g.shadowSchema(modes[g.r.Intn(len(modes))])
	case kind < 10:
		t = g.heteroSchema()
	default:
		// nested: a random schema with a shadow schema or a hetero schema hanging below a node property
		t = g.schema(1, "")
		var sub *typ
		if g.r.Intn(2) == 0 {
			sub = g.shadowSchema([]string{"leak", "propagate", "same"}[g.r.Intn(3)])
		} else {
			sub = g.heteroSchema()
		}
		p := &prop{Term: g.term("p"), Kind: "node", Child: sub, Scoped: g.r.Intn(2) == 0, Multi: g.r.Intn(3) == 0}
		p.IRI = vocab + p.Term
		t.Props = append(t.Props, p)
	}
	if g.r.Intn(8) == 0 {
		// a local @context inside the nodes of one nested type, redefining one of its literal terms
		var cands []*typ
		var walk func(x *typ, top bool)
		walk = func(x *typ, top bool) {
			if !top && x.firstLit() != nil && !x.TypeScoped {
				cands = append(cands, x)
			}
			for _, p := range x.Props {
				if p.Child != nil {
					walk(p.Child, false)
				}
			}
		}
		walk(t, true)
		if len(cands) > 0 {
			c := cands[g.r.Intn(len(cands))]
			lp := c.firstLit()
			lp.DT = "" // the local redefinition is a plain string term: no type mapping
			c.LocalCtx = map[string]string{lp.Term: lp.IRI + "_L"}
		}
	}
	return g.build(t)
}

func sortedKeys[V any](m map[string]V) []string {
	var ks []string
	for k := range m {
		ks = append(ks, k)
	}
	sort.Strings(ks)
	return ks
}

func mustJSON(v any) []byte {
	b, err := json.Marshal(v)
	if err != nil {
		panic(err)
	}
	return b
}
