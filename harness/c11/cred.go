package c11

// W3C-credential-shaped documents: the type identifier resolved from the schema
// context must be the subject's stored rdf:type and the preimage of the claim's
// schema hash (verifiable.W3CCredential.ToCoreClaim).

import (
	"context"
	"encoding/json"
	"fmt"

	"github.com/iden3/go-schema-processor/v2/merklize"
	"github.com/iden3/go-schema-processor/v2/utils"
	"github.com/iden3/go-schema-processor/v2/verifiable"

	"vharness/ctxload"
)

const credSubjectIRI = "https://www.w3.org/2018/credentials#credentialSubject"

func (d *drv) credCase(g *gen) *caseInput {
	g.alias, g.prefix = true, g.r.Intn(2) == 0
	t := g.schema(g.r.Intn(2), "")
	t.TypeScoped = true
	g.features = map[string]bool{}
	g.leaves, g.nodes = nil, nil
	// iden3-style schema context
	inner := map[string]any{}
	g.typeDefs(t, inner)
	def := inner[t.Term].(map[string]any)
	sc := def["@context"].(map[string]any)
	sc["@version"] = 1.1
	sc["@protected"] = true
	sc["id"] = "@id"
	sc["type"] = "@type"
	if g.prefix {
		sc["ex"] = vocab
		sc["xsd"] = xsd
	}
	top := map[string]any{"@version": 1.1, "@protected": true, "id": "@id", "type": "@type"}
	for k, v := range inner {
		top[k] = v
	}
	if g.prefix {
		top["ex"] = vocab
		top["xsd"] = xsd
	}
	ctxDoc := map[string]any{"@context": []any{top}}
	d.nURL++
	url := fmt.Sprintf("https://ctx.example/c11/cred-%d.jsonld", d.nURL)

	penv := map[string]tdefn{}
	defsOf(t, penv)
	g.top = env(penv)
	subject := g.node(t, env(penv), map[string]bool{}, []string{"credentialSubject"}, []any{credSubjectIRI}, nil, true, false, false)
	delete(subject, "id") // no subject DID: the claim then carries no subject id
	g.n++
	cred := map[string]any{
		"@context":          []any{ctxload.URLCredentialsV1, url},
		"id":                fmt.Sprintf("urn:uuid:c11-%d", g.n),
		"type":              []any{"VerifiableCredential", t.Term},
		"issuanceDate":      "2023-05-01T10:00:00Z",
		"issuer":            "did:example:issuer",
		"credentialSubject": subject,
		"credentialSchema":  map[string]any{"id": "https://schema.example/c11.json", "type": "JsonSchemaValidator2018"},
	}
	in := &caseInput{Kind: "cred", Leaves: g.leaves, Nodes: g.nodes, Loader: map[string]json.RawMessage{url: mustJSON(ctxDoc)},
		Ctx: mustJSON(ctxDoc), CredType: t.Term, Features: append(sortedKeys(g.features), "credential")}
	// the document is what W3CCredential.Merklize feeds to MerklizeJSONLD: the struct re-marshalled
	var vc verifiable.W3CCredential
	raw := mustJSON(cred)
	if err := json.Unmarshal(raw, &vc); err != nil {
		in.Doc = raw
		return in
	}
	in.Doc = mustJSON(vc)
	return in
}

func (d *drv) credOracle(in *caseInput, c *ccase) {
	key := "schema-hash"
	if in.Only != "" && in.Only != key {
		return
	}
	var vc verifiable.W3CCredential
	if err := json.Unmarshal(in.Doc, &vc); err != nil {
		d.fail(in, "c11-generator", "credential does not unmarshal: "+err.Error(), key)
		return
	}
	id, err := d.opts().TypeIDFromContext(in.Ctx, in.CredType)
	if err != nil {
		d.fail(in, "c11-type-id", "TypeIDFromContext failed on a credential type: "+err.Error(), key)
		return
	}
	claim, err := vc.ToCoreClaim(context.Background(), &verifiable.CoreClaimOptions{
		MerklizerOpts: []merklize.MerklizeOption{merklize.WithDocumentLoader(d.loader)}})
	if err != nil {
		d.fail(in, "c11-generator", "ToCoreClaim failed: "+err.Error(), key)
		return
	}
	d.rep.Count("schema-hash")
	want := utils.CreateSchemaHash([]byte(id))
	if claim.GetSchemaHash() != want {
		d.fail(in, "c11-schema-hash", fmt.Sprintf("claim schema hash %x is not the hash of the type id %q resolved from the context", claim.GetSchemaHash(), id), key)
	}
}
