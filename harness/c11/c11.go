// Package c11: schema-side, document-side and stored paths agree (property C11).
//
// Streams: generated schemas -> contexts (top-level, type-scoped with / without
// redefinitions and @propagate, property-scoped, prefixes, keyword aliases, local
// contexts, inline or served by URL) -> conforming documents (nesting, arrays of
// literals / IRIs / nodes, heterogeneous node arrays); W3C-credential-shaped
// documents (schema hash); probes: out-of-range / misplaced numeric segments,
// unresolvable paths, contexts that fail to load.
//
// Implementation-side oracles (independent of the Coq model): for every field,
// ResolveDocPath == expected path == key of a stored entry (Entry + existence
// proof) holding the field's value; FieldPathFromContext == that path without the
// type prefix; declared datatype == JSONLDType == TypeFromContext;
// TypeIDFromContext == stored rdf:type == preimage of the claim's schema hash;
// probes must be errors.
// Correspondence (Coq): JsonLD.Run.cmismatches — the resolver models against every
// resolver answer, `facts` against the stored entries.
package c11

import (
	"bytes"
	"context"
	"encoding/json"
	"fmt"
	"math/big"
	"path/filepath"
	"sort"
	"strconv"
	"strings"

	"github.com/iden3/go-iden3-crypto/constants"
	"github.com/iden3/go-schema-processor/v2/merklize"

	"vharness/common"
	"vharness/coqgen"
	"vharness/ctxload"
	"vharness/docgen"
	"vharness/hashers"
	"vharness/mzrun"
)

func init() { common.Register("C11", Run) }

// probe: a query that must be answered with an error.
type probe struct {
	Kind string   `json:"kind"` // index-oob | index-on-scalar | index-on-single | index-into-string | missing-index | unresolvable | failing-context
	Path []string `json:"path"`
	Type string   `json:"type,omitempty"`
	Rel  []string `json:"rel,omitempty"`
}

// caseInput is everything needed to re-run one case (replay).
type caseInput struct {
	Kind     string                     `json:"kind"`            // doc | cred | failing | switch
	Prime    json.RawMessage            `json:"prime,omitempty"` // switch: what the URLs of Loader served BEFORE (same context bytes, other content)
	Doc      json.RawMessage            `json:"doc"`
	Ctx      json.RawMessage            `json:"ctx"`
	Loader   map[string]json.RawMessage `json:"loader,omitempty"`
	Leaves   []leaf                     `json:"leaves,omitempty"`
	Nodes    []nodeInfo                 `json:"nodes,omitempty"`
	Probes   []probe                    `json:"probes,omitempty"`
	Features []string                   `json:"features,omitempty"`
	CredType string                     `json:"cred_type,omitempty"`
	Hasher   int                        `json:"hasher,omitempty"`     // index into hasherSet (0 = default Poseidon)
	MzOpts   bool                       `json:"mz_options,omitempty"` // the resolvers are called on Merklizer.Options()
	Only     string                     `json:"only,omitempty"`       // set on a failure: the dotted path / probe that failed
}

type query struct {
	kind   string // QDoc QCtx QField QTypeID QTypeOf
	a, b   []string
	parts  []any
	str    string
	failed bool
}

// keyQuery: the tree keys the implementation reported for one field
type keyQuery struct {
	ty, field, pi []string
	pre           []any
	ks, kd, ke    *big.Int // nil = error / not observed (kePresent tells which)
	ksErr, kdErr  bool
	keSeen        bool
}

// primTable: primitive calls of the case's hasher made by the HARNESS on the real hasher (HashBytes of every
// string part, Hash of every list of part hashes): what the Coq model may look up, never a composite answer
type primTable struct {
	h      merklize.Hasher
	bytes  map[string]*big.Int // nil value = the primitive failed
	hash   map[string]hashRec
	order  []string
	horder []string
}
type hashRec struct {
	in  []*big.Int
	out *big.Int
}

func newPrimTable(h merklize.Hasher) *primTable {
	return &primTable{h: h, bytes: map[string]*big.Int{}, hash: map[string]hashRec{}}
}

func (t *primTable) addPath(parts []any) {
	var ks []*big.Int
	for _, p := range parts {
		switch v := p.(type) {
		case string:
			z, seen := t.bytes[v]
			if !seen {
				var err error
				z, err = t.h.HashBytes([]byte(v))
				if err != nil {
					z = nil
				}
				t.bytes[v] = z
				t.order = append(t.order, v)
			}
			if z == nil {
				return
			}
			ks = append(ks, z)
		case int:
			ks = append(ks, big.NewInt(int64(v)))
		}
	}
	var sb strings.Builder
	for _, k := range ks {
		sb.WriteString(k.String() + ",")
	}
	if _, seen := t.hash[sb.String()]; !seen {
		out, err := t.h.Hash(ks)
		if err != nil {
			out = nil
		}
		t.hash[sb.String()] = hashRec{in: ks, out: out}
		t.horder = append(t.horder, sb.String())
	}
}

func (t *primTable) coq(f *coqgen.File) string {
	var hs, bs []string
	for _, k := range t.horder {
		r := t.hash[k]
		var in []string
		for _, x := range r.in {
			in = append(in, coqgen.Limbs(x))
		}
		hs = append(hs, fmt.Sprintf("([%s], %s)", strings.Join(in, ";"), coqgen.OptLimbs(r.out)))
	}
	for _, s := range t.order {
		bs = append(bs, fmt.Sprintf("(%s, %s)", f.Str(s), coqgen.OptLimbs(t.bytes[s])))
	}
	return fmt.Sprintf("(mkrh %s [%s] [%s])", coqgen.Limbs(t.h.Prime()), strings.Join(hs, ";\n    "), strings.Join(bs, ";\n    "))
}

type ccase struct {
	keys    []keyQuery
	prims   *primTable
	in      *caseInput
	entries []mzrun.EntryView
	eClass  string // ok | err | skip
	queries []query
}

type drv struct {
	cfg    *common.Config
	rep    *common.Report
	loader *ctxload.Loader
	cases  []*ccase
	nURL   int
	cur    *merklize.Options
	hs     []namedHasher
}

func normParts(p []any) []any {
	out := make([]any, len(p))
	for i, x := range p {
		switch v := x.(type) {
		case float64:
			out[i] = int(v)
		default:
			out[i] = x
		}
	}
	return out
}

func partsEqual(a, b []any) bool {
	if len(a) != len(b) {
		return false
	}
	for i := range a {
		if a[i] != b[i] {
			return false
		}
	}
	return true
}

func samePattern(a, b []any) bool {
	if len(a) != len(b) {
		return false
	}
	for i := range a {
		_, ai := a[i].(int)
		_, bi := b[i].(int)
		if ai != bi || (!ai && a[i] != b[i]) {
			return false
		}
	}
	return true
}

func hasIndex(p []any) bool {
	for _, x := range p {
		if _, ok := x.(int); ok {
			return true
		}
	}
	return false
}

// exactKey: the expected key is stable under the canonical renumbering: no index at all, or
// one trailing index of a literal array (a permutation of the members keeps every key present).
func exactKey(p []any) bool {
	for i, x := range p {
		if _, ok := x.(int); ok && i != len(p)-1 {
			return false
		}
	}
	return true
}

func indexPositions(p []string) []int {
	var out []int
	for i, s := range p {
		if _, err := strconv.Atoi(s); err == nil {
			out = append(out, i)
		}
	}
	return out
}

func noIndices(p []string) []string {
	var out []string
	for _, s := range p {
		if _, err := strconv.Atoi(s); err != nil {
			out = append(out, s)
		}
	}
	return out
}

// opts: the Options of the case being run (offline loader + the case's hasher)
func (d *drv) opts() merklize.Options {
	if d.cur != nil {
		return *d.cur
	}
	return merklize.Options{DocumentLoader: d.loader}
}

type namedHasher struct {
	name string
	h    merklize.Hasher
}

// hasherSet: default; same Prime but another HashBytes; same Prime but another Hash; another Prime.
func hasherSet() []namedHasher {
	return []namedHasher{
		{"default", nil},
		{"salted-bytes", hashers.Mod{P: new(big.Int).Set(constants.Q), SaltBytes: []byte("salt:"), Name: "salted-bytes"}},
		{"salted-hash", hashers.Mod{P: new(big.Int).Set(constants.Q), SaltElem: big.NewInt(7), Name: "salted-hash"}},
		{"mod2^31-1", hashers.Mod{P: big.NewInt(2147483647), Name: "mod2^31-1"}},
	}
}

// failure classifier: the two known input classes get their narrow names.
func classify(lf *leaf, def string) string {
	if lf != nil && lf.Leak {
		return "c11-type-scoped-leak"
	}
	if lf != nil && lf.Member {
		return "c11-array-member-zero"
	}
	return def
}

const maxStoredPerClass = 25

// fail reports a failing input.  The replay input is trimmed to the field / probe concerned;
// at most maxStoredPerClass inputs per classifier are kept in the report (all are counted).
// context-side resolvers never look at the document: only the leak class applies to them
func classifyCtx(lf *leaf, def string) string {
	if lf != nil && lf.Leak {
		return "c11-type-scoped-leak"
	}
	return def
}

func (d *drv) fail(in *caseInput, class, what, only string) {
	d.rep.Count("failures:" + class)
	if d.rep.Distribution["failures:"+class] > maxStoredPerClass {
		return
	}
	cp := *in
	cp.Only = only
	if only != "" {
		cp.Leaves, cp.Probes, cp.Nodes = nil, nil, nil
		for _, lf := range in.Leaves {
			if strings.Join(lf.DocPath, ".") == only {
				cp.Leaves = append(cp.Leaves, lf)
			}
		}
		for _, pr := range in.Probes {
			if pr.Kind+":"+strings.Join(pr.Path, ".") == only {
				cp.Probes = append(cp.Probes, pr)
			}
		}
		for _, ni := range in.Nodes {
			if "type:"+ni.TypeTerm == only {
				cp.Nodes = append(cp.Nodes, ni)
			}
		}
	}
	d.rep.Fail(class, what, &cp)
}

// every path part a resolver returns is an expanded IRI (the generators' IRIs are http(s): / urn:)
// or an index: never a compact IRI or a bare term
func unexpandedPart(parts []any) (string, bool) {
	for _, x := range parts {
		if s, ok := x.(string); ok && !strings.HasPrefix(s, "http://") && !strings.HasPrefix(s, "https://") && !strings.HasPrefix(s, "urn:") {
			return s, true
		}
	}
	return "", false
}

func (d *drv) checkExpanded(in *caseInput, what string, p merklize.Path, err error, only string) {
	if err != nil {
		return
	}
	if s, bad := unexpandedPart(p.Parts()); bad {
		d.fail(in, "c11-unexpanded-part", fmt.Sprintf("%s = %v: part %q is not an expanded IRI", what, p.Parts(), s), only)
	}
}

// aliasOracle: a Path returned by a resolver is a value.  By-value copies are extended with Prepend / Append
// (several rounds, different parts); the original must keep its Parts() and MtEntry(), and every copy must equal
// the path built in one go — immediately and after all the other copies have been extended.
func (d *drv) aliasOracle(in *caseInput, what string, orig merklize.Path, only string) {
	snap := append([]any{}, orig.Parts()...)
	k0, e0 := orig.MtEntry()
	rounds := []struct{ pre, post []any }{
		{pre: []any{"urn:alias:A"}},
		{pre: []any{"urn:alias:B", 7}},
		{post: []any{"urn:alias:C"}},
		{pre: []any{"urn:alias:D"}, post: []any{3}},
		{post: []any{"urn:alias:E", 1}},
		{pre: []any{"urn:alias:F"}},
	}
	d.rep.Count("path-value-copies")
	var copies []merklize.Path
	var wants [][]any
	for _, r := range rounds {
		c := orig // by-value copy
		if len(r.pre) > 0 {
			_ = c.Prepend(r.pre...)
		}
		if len(r.post) > 0 {
			_ = c.Append(r.post...)
		}
		want := append(append(append([]any{}, r.pre...), snap...), r.post...)
		if !partsEqual(c.Parts(), want) {
			d.fail(in, "c11-path-aliasing", fmt.Sprintf("%s: a copy extended with Prepend(%v)/Append(%v) is %v, expected %v", what, r.pre, r.post, c.Parts(), want), only)
			return
		}
		copies, wants = append(copies, c), append(wants, want)
	}
	if !partsEqual(orig.Parts(), snap) {
		d.fail(in, "c11-path-aliasing", fmt.Sprintf("%s = %v changed to %v after Prepend/Append on by-value COPIES of it", what, snap, orig.Parts()), only)
		return
	}
	if k1, e1 := orig.MtEntry(); (e0 == nil) != (e1 == nil) || (e0 == nil && k0.Cmp(k1) != 0) {
		d.fail(in, "c11-path-aliasing", fmt.Sprintf("%s: MtEntry of the path changed after Prepend/Append on copies", what), only)
		return
	}
	for i, c := range copies {
		if !partsEqual(c.Parts(), wants[i]) {
			class := "c11-path-aliasing"
			if len(rounds[i].pre) == 0 {
				// a copy that was only appended to, overwritten by a later Append on another copy
				class = "c11-path-append-aliasing"
			}
			d.fail(in, class, fmt.Sprintf("%s: copy %d (Prepend %v, Append %v) became %v after other copies were extended, expected %v", what, i, rounds[i].pre, rounds[i].post, c.Parts(), wants[i]), only)
			return
		}
		built, _ := d.opts().NewPath(wants[i]...)
		kb, eb := built.MtEntry()
		if kc, ec := c.MtEntry(); (eb == nil) != (ec == nil) || (eb == nil && kb.Cmp(kc) != 0) {
			d.fail(in, "c11-path-aliasing", fmt.Sprintf("%s: copy %d hashes differently from the path built in one go", what, i), only)
			return
		}
	}
}

func (c *ccase) recP(kind string, a, b []string, p merklize.Path, err error) {
	q := query{kind: kind, a: a, b: b, failed: err != nil}
	if err == nil {
		q.parts = p.Parts()
	}
	c.queries = append(c.queries, q)
}
func (c *ccase) recS(kind string, a []string, s string, err error) {
	c.queries = append(c.queries, query{kind: kind, a: a, str: s, failed: err != nil})
}

// runCase executes one case: implementation, oracles, observations.
func (d *drv) runCase(in *caseInput) {
	c := &ccase{in: in, eClass: "skip"}
	d.cases = append(d.cases, c)
	d.rep.Evaluations++
	d.rep.Count("kind:" + in.Kind)
	for _, f := range in.Features {
		d.rep.Count("feature:" + f)
	}
	for u, b := range in.Loader {
		_ = d.loader.Add(u, b)
	}
	if in.Hasher < 0 || in.Hasher >= len(d.hs) {
		in.Hasher = 0
	}
	hs := d.hs[in.Hasher]
	d.rep.Count("hasher:" + hs.name)
	o := merklize.Options{DocumentLoader: d.loader, Hasher: hs.h}
	d.cur = &o
	defer func() { d.cur = nil }()
	eff := hs.h
	if eff == nil {
		eff = merklize.PoseidonHasher{}
	}
	c.prims = newPrimTable(eff)
	if in.Kind == "switch" && in.Prime != nil {
		// the same context bytes were resolved before, when the loader served other content:
		// the resolvers must not remember that answer
		for u := range in.Loader {
			_ = d.loader.Add(u, in.Prime)
		}
		for _, lf := range in.Leaves {
			full := strings.Join(append([]string{lf.TypeTerm}, lf.Rel...), ".")
			_, _ = o.PathFromContext(in.Ctx, full)
			_, _ = o.FieldPathFromContext(in.Ctx, lf.TypeTerm, strings.Join(lf.Rel, "."))
			_, _ = o.TypeFromContext(in.Ctx, strings.Join(append([]string{lf.TypeTerm}, noIndices(lf.Rel)...), "."))
			_, _ = o.NewPathFromDocument(in.Doc, strings.Join(lf.DocPath, "."))
		}
		for _, ni := range in.Nodes {
			_, _ = o.TypeIDFromContext(in.Ctx, ni.TypeTerm)
		}
		for u, b := range in.Loader {
			_ = d.loader.Add(u, b)
		}
	}
	mopts := []merklize.MerklizeOption{merklize.WithDocumentLoader(d.loader)}
	if hs.h != nil {
		mopts = append(mopts, merklize.WithHasher(hs.h))
	}
	mz, mo := mzrun.Merklize(in.Doc, mopts...)
	if mz != nil && in.MzOpts {
		o = mz.Options() // the options a caller takes from the merklizer itself
		d.rep.Count("options-from-merklizer")
	}
	d.rep.Count("merklize:" + mo.Class)
	var stored map[string]mzrun.EntryView
	switch mo.Class {
	case "ok":
		stored = mzrun.MapEntries(mz)
		for _, k := range sortedKeys(stored) {
			c.entries = append(c.entries, stored[k])
		}
		c.eClass = "ok"
		for _, f := range in.Features {
			if f == "graph-container" {
				// named graphs are not part of the Coq subset model: `facts` is not compared for these
				// documents (the resolver queries are); the implementation-side oracles do the work
				c.eClass = "skip"
			}
		}
	case "err":
		c.eClass = "err"
		if in.Kind != "failing" && in.Kind != "shared" {
			d.fail(in, "c11-generator", "generated document was rejected by MerklizeJSONLD: "+mo.Msg, "")
		}
	default:
		d.fail(in, "c11-"+mo.Class, "MerklizeJSONLD: "+mo.Msg, "")
	}
	if in.Kind == "shared" {
		// `facts` does not model node sharing: the entries are not compared for these documents
		c.eClass = "skip"
		if mo.Class == "ok" {
			d.fail(in, "c11-shared-node-accepted", "a document in which one @id node is referenced from two fields has no unique path per field, but was merklized", "")
		}
	}
	if in.Kind == "failing" && mo.Class == "ok" {
		d.fail(in, "c11-failing-context", "a document whose context cannot be loaded was merklized", "")
	}

	resolveDoc := func(path string) (merklize.Path, error) {
		if mz != nil {
			return mz.ResolveDocPath(path)
		}
		return o.NewPathFromDocument(in.Doc, path)
	}

	for i := range in.Leaves {
		lf := &in.Leaves[i]
		lf.Parts = normParts(lf.Parts)
		path := strings.Join(lf.DocPath, ".")
		if in.Only != "" && in.Only != path {
			continue
		}
		d.rep.Count("leaf")
		// ---- document side
		p, err := resolveDoc(path)
		c.recP("QDoc", lf.DocPath, nil, p, err)
		d.checkExpanded(in, "ResolveDocPath("+path+")", p, err, path)
		if err == nil && i%2 == 1 {
			d.aliasOracle(in, "ResolveDocPath("+path+")", p, path)
		}
		var failedDoc bool
		switch {
		case err != nil:
			d.fail(in, classify(lf, "c11-doc-path-error"), fmt.Sprintf("ResolveDocPath(%q) failed for an existing field: %v", path, err), path)
			failedDoc = true
		case mz == nil:
		case !partsEqual(p.Parts(), lf.Parts):
			d.fail(in, classify(lf, "c11-doc-path-differs"), fmt.Sprintf("ResolveDocPath(%q) = %v, the field is stored under %v", path, p.Parts(), lf.Parts), path)
			failedDoc = true
		case !exactKey(lf.Parts):
			// the stored numbering of array members is the canonical order of the RDF dataset, not
			// the document order (cf. D13): below a node array the resolved key may belong to another
			// member or, when the members differ in shape, to none.  Not counted as a C11 failure
			// ("up to the canonical renumbering of array indices"); the pattern-level check below applies.
			if _, err := mz.Entry(p); err != nil {
				d.rep.Count("renumbering:resolved-key-absent")
			} else {
				d.rep.Count("renumbering:resolved-key-present")
			}
		default:
			e, err := mz.Entry(p)
			if err != nil {
				d.fail(in, classify(lf, "c11-doc-path-not-stored"), fmt.Sprintf("ResolveDocPath(%q) = %v denotes no stored entry: %v", path, p.Parts(), err), path)
				failedDoc = true
				break
			}
			proof, _, err := mz.Proof(context.Background(), p)
			if err != nil || !proof.Existence {
				d.fail(in, classify(lf, "c11-no-proof"), fmt.Sprintf("no existence proof for %v", p.Parts()), path)
			}
			if dt, err := mz.JSONLDType(p); (err != nil || dt != lf.DT) && (!hasIndex(lf.Parts) || lf.Declared != "") {
				d.fail(in, classify(lf, "c11-datatype"), fmt.Sprintf("JSONLDType(%v) = %q (%v), expected %q", p.Parts(), dt, err, lf.DT), path)
			}
			if !hasIndex(lf.Parts) {
				if got := docgen.RenderGoValue(mzrun.View(e).Value); got != lf.Value {
					d.fail(in, classify(lf, "c11-value"), fmt.Sprintf("entry at %v holds %s, the field holds %s", p.Parts(), got, lf.Value), path)
				}
			}
		}
		// the field itself must be stored under the expected path (up to the numbering of indices)
		if mz != nil && !failedDoc {
			found := false
			for _, e := range c.entries {
				if samePattern(e.Parts, lf.Parts) && docgen.RenderGoValue(e.Value) == lf.Value && e.Datatype == lf.DT &&
					(hasIndex(lf.Parts) || partsEqual(e.Parts, lf.Parts)) {
					found = true
					break
				}
			}
			if !found {
				d.fail(in, classify(lf, "c11-field-not-stored"), fmt.Sprintf("no stored entry %v = %s (%s)", lf.Parts, lf.Value, lf.DT), path)
			}
		}
		// ---- context side
		rel := strings.Join(lf.Rel, ".")
		fp, err := o.FieldPathFromContext(in.Ctx, lf.TypeTerm, rel)
		c.recP("QField", []string{lf.TypeTerm}, lf.Rel, fp, err)
		full := append([]string{lf.TypeTerm}, lf.Rel...)
		cp, err2 := o.PathFromContext(in.Ctx, strings.Join(full, "."))
		c.recP("QCtx", full, nil, cp, err2)
		if err == nil {
			d.aliasOracle(in, "FieldPathFromContext("+lf.TypeTerm+", "+rel+")", fp, path)
		}
		if err2 == nil && i%2 == 0 {
			d.aliasOracle(in, "PathFromContext("+strings.Join(full, ".")+")", cp, path)
		}
		d.checkExpanded(in, "FieldPathFromContext("+lf.TypeTerm+", "+rel+")", fp, err, path)
		d.checkExpanded(in, "PathFromContext("+strings.Join(full, ".")+")", cp, err2, path)
		tpath := append([]string{lf.TypeTerm}, noIndices(lf.Rel)...)
		ty, err3 := o.TypeFromContext(in.Ctx, strings.Join(tpath, "."))
		c.recS("QTypeOf", tpath, ty, err3)
		if len(indexPositions(lf.Rel)) > 0 {
			// the same path WITH its indices (ending in an index for a member of a literal array, indices in
			// every position below node arrays): an error or exactly the recorded datatype, never ("", nil)
			ipath := append([]string{lf.TypeTerm}, lf.Rel...)
			ity, ierr := o.TypeFromContext(in.Ctx, strings.Join(ipath, "."))
			c.recS("QTypeOf", ipath, ity, ierr)
			d.rep.Count("type-of-indexed-path")
			if ierr == nil && lf.CtxOK && lf.Declared != "" {
				switch {
				case ity == "":
					d.fail(in, classifyCtx(lf, "c11-empty-type-no-error"), fmt.Sprintf("TypeFromContext(%s) = (\"\", nil): an empty type without an error; the entry is recorded as %q", strings.Join(ipath, "."), lf.DT), path)
				case ity != lf.DT:
					d.fail(in, classifyCtx(lf, "c11-datatype-ctx"), fmt.Sprintf("TypeFromContext(%s) = %q, the entry is recorded as %q", strings.Join(ipath, "."), ity, lf.DT), path)
				}
			}
			if pty, perr := merklize.TypeFromContext(in.Ctx, strings.Join(ipath, ".")); (perr == nil) != (ierr == nil) || pty != ity {
				d.fail(in, "c11-variant", "TypeFromContext differs from Options.TypeFromContext", path)
			}
		}
		if lf.CtxOK {
			want := lf.Parts[lf.PrefixLen:]
			switch {
			case err != nil:
				d.fail(in, classifyCtx(lf, "c11-ctx-path-error"), fmt.Sprintf("FieldPathFromContext(%s, %s): %v", lf.TypeTerm, rel, err), path)
			case !partsEqual(fp.Parts(), want):
				d.fail(in, classifyCtx(lf, "c11-ctx-vs-doc"), fmt.Sprintf("FieldPathFromContext(%s, %s) = %v, document-side path without the type prefix = %v", lf.TypeTerm, rel, fp.Parts(), want), path)
			}
			switch {
			case err2 != nil:
				d.fail(in, classifyCtx(lf, "c11-ctx-path-error"), fmt.Sprintf("PathFromContext(%s): %v", strings.Join(full, "."), err2), path)
			case !partsEqual(cp.Parts(), append([]any{lf.TypeIRI}, want...)):
				d.fail(in, classifyCtx(lf, "c11-ctx-vs-doc"), fmt.Sprintf("PathFromContext(%s) = %v, expected type IRI + %v", strings.Join(full, "."), cp.Parts(), want), path)
			}
			if lf.Declared != "" && err3 == nil && ty == "" {
				d.fail(in, classifyCtx(lf, "c11-empty-type-no-error"), fmt.Sprintf("TypeFromContext(%s) = (\"\", nil): an empty type without an error; declared and recorded datatype %q", strings.Join(tpath, "."), lf.Declared), path)
			} else if lf.Declared != "" {
				if err3 != nil || ty != lf.Declared {
					d.fail(in, classifyCtx(lf, "c11-datatype-ctx"), fmt.Sprintf("TypeFromContext(%s) = %q (%v), declared and recorded datatype %q", strings.Join(tpath, "."), ty, err3, lf.Declared), path)
				}
			}
		}
		// the tree KEY: schema-side path (type prefix restored) == document-side path == key of the stored entry
		if mz != nil && err == nil && lf.CtxOK && !lf.Leak && !lf.Member && exactKey(lf.Parts) && partsEqual(fp.Parts(), lf.Parts[lf.PrefixLen:]) {
			d.rep.Count("key-comparison")
			sp := fp
			if lf.PrefixLen > 0 {
				_ = sp.Prepend(lf.Parts[:lf.PrefixLen]...)
			}
			ks, es := sp.MtEntry()
			dp, ed := mz.ResolveDocPath(path)
			// observations for the Coq model of the keys (JsonLD/KeyModel.v)
			kq := keyQuery{ty: []string{lf.TypeTerm}, field: lf.Rel, pi: lf.DocPath, pre: lf.Parts[:lf.PrefixLen], ks: ks, ksErr: es != nil}
			c.prims.addPath(lf.Parts)
			if ed == nil {
				kd0, e0 := dp.MtEntry()
				kq.kd, kq.kdErr = kd0, e0 != nil
				if e, err := mz.Entry(dp); err == nil {
					if ke0, err := e.KeyMtEntry(); err == nil {
						kq.ke, kq.keSeen = ke0, true
					}
				}
			} else {
				kq.kdErr = true
			}
			c.keys = append(c.keys, kq)
			switch {
			case es != nil:
				d.fail(in, "c11-key-mismatch", fmt.Sprintf("schema-side path %v does not hash: %v", sp.Parts(), es), path)
			case ed == nil:
				kd, e2 := dp.MtEntry()
				if e2 != nil || kd.Cmp(ks) != 0 {
					d.fail(in, "c11-key-mismatch", fmt.Sprintf("[hasher %s] FieldPathFromContext(%s, %s) and ResolveDocPath(%s) have the same parts %v but different tree keys (%v vs %v)", hs.name, lf.TypeTerm, rel, path, sp.Parts(), ks, kd), path)
					break
				}
				fallthrough
			default:
				if _, e := mz.Entry(sp); e != nil {
					d.fail(in, "c11-key-mismatch", fmt.Sprintf("[hasher %s] the schema-side path %v denotes no stored entry: %v", hs.name, sp.Parts(), e), path)
				} else if proof, _, e := mz.Proof(context.Background(), sp); e != nil || !proof.Existence {
					d.fail(in, "c11-key-mismatch", fmt.Sprintf("[hasher %s] no existence proof under the schema-side path %v", hs.name, sp.Parts()), path)
				}
			}
		}
		if i%5 == 0 {
			// package-level wrappers == Options variants (default loader is the offline one)
			p2, e2 := merklize.NewFieldPathFromContext(in.Ctx, lf.TypeTerm, rel)
			if (e2 == nil) != (err == nil) || (err == nil && !partsEqual(p2.Parts(), fp.Parts())) {
				d.fail(in, "c11-variant", "NewFieldPathFromContext differs from Options.FieldPathFromContext", path)
			}
			p4, e4 := merklize.NewPathFromContext(in.Ctx, strings.Join(full, "."))
			if (e4 == nil) != (err2 == nil) || (err2 == nil && !partsEqual(p4.Parts(), cp.Parts())) {
				d.fail(in, "c11-variant", "NewPathFromContext differs from Options.PathFromContext", path)
			}
			p3, e3 := merklize.NewPathFromDocument(in.Doc, path)
			if pd, ed := o.NewPathFromDocument(in.Doc, path); (e3 == nil) != (ed == nil) || (ed == nil && !partsEqual(p3.Parts(), pd.Parts())) {
				d.fail(in, "c11-variant", "NewPathFromDocument differs from Options.NewPathFromDocument", path)
			}
		}
	}

	for i := range in.Nodes {
		ni := &in.Nodes[i]
		ni.Parts = normParts(ni.Parts)
		key := "type:" + ni.TypeTerm
		if in.Only != "" && in.Only != key {
			continue
		}
		id, err := o.TypeIDFromContext(in.Ctx, ni.TypeTerm)
		c.recS("QTypeID", []string{ni.TypeTerm}, id, err)
		if id2, err2 := merklize.TypeIDFromContext(in.Ctx, ni.TypeTerm); (err2 == nil) != (err == nil) || id2 != id {
			d.fail(in, "c11-variant", "TypeIDFromContext differs from Options.TypeIDFromContext", key)
		}
		if !(ni.IsType && ni.TopVisible) {
			if err == nil && id != ni.TypeIRI {
				d.fail(in, "c11-type-id", fmt.Sprintf("TypeIDFromContext(%s) = %q, the type's IRI is %q", ni.TypeTerm, id, ni.TypeIRI), key)
			}
			continue
		}
		d.rep.Count("typed-node")
		if err != nil || id != ni.TypeIRI {
			d.fail(in, "c11-type-id", fmt.Sprintf("TypeIDFromContext(%s) = %q (%v), expected %q", ni.TypeTerm, id, err, ni.TypeIRI), key)
			continue
		}
		if mz != nil {
			// the subject's stored type (up to the numbering of array members)
			want := append(append([]any{}, ni.Parts...), rdfType)
			if ni.Multi {
				want = append(want, 0) // several types: the rdf:type entries are indexed
			}
			found := false
			for _, e := range c.entries {
				if samePattern(e.Parts, want) && (hasIndex(want) || partsEqual(e.Parts, want)) && docgen.RenderGoValue(e.Value) == "str:"+id {
					found = true
					break
				}
			}
			if !found {
				d.fail(in, "c11-type-id", fmt.Sprintf("TypeIDFromContext(%s) = %q is not the subject type stored at %v", ni.TypeTerm, id, want), key)
			}
		}
	}

	for i := range in.Probes {
		pr := &in.Probes[i]
		path := strings.Join(pr.Path, ".")
		key := pr.Kind + ":" + path
		if in.Only != "" && in.Only != key {
			continue
		}
		d.rep.Count("probe:" + pr.Kind)
		p, err := resolveDoc(path)
		c.recP("QDoc", pr.Path, nil, p, err)
		if err == nil {
			class := "c11-unresolvable-accepted"
			if strings.HasPrefix(pr.Kind, "index-") {
				class = "c11-index-unchecked"
			}
			if pr.Kind == "index-on-scalar" || pr.Kind == "index-into-string" {
				// D14 non-array part: kept by fix 7a3eec3 (pinned by the repository's TestIPFSContext)
				class = "c11-index-on-non-array"
			}
			if pr.Kind == "missing-index" {
				class = "c11-index-missing"
			}
			if pr.Kind == "index-on-single" {
				// not covered by fix 7a3eec3: the source document holds a one-member array, the
				// stored entry carries no index
				class = "c11-index-single-member"
			}
			if pr.Kind == "failing-context" {
				class = "c11-failing-context"
			}
			what := fmt.Sprintf("[%s] ResolveDocPath(%q) = %v instead of an error", pr.Kind, path, p.Parts())
			if mz != nil {
				if _, e := mz.Entry(p); e != nil {
					what += "; the path denotes no stored entry"
				} else {
					what += "; (an entry exists under that key)"
				}
			}
			d.fail(in, class, what, key)
		}
		if pr.Type != "" {
			full := append([]string{pr.Type}, pr.Rel...)
			fp, e1 := o.FieldPathFromContext(in.Ctx, pr.Type, strings.Join(pr.Rel, "."))
			c.recP("QField", []string{pr.Type}, pr.Rel, fp, e1)
			cp, e2 := o.PathFromContext(in.Ctx, strings.Join(full, "."))
			c.recP("QCtx", full, nil, cp, e2)
			ty, e3 := o.TypeFromContext(in.Ctx, strings.Join(full, "."))
			c.recS("QTypeOf", full, ty, e3)
			class := "c11-unresolvable-accepted"
			if pr.Kind == "failing-context" {
				class = "c11-failing-context"
			}
			if e1 == nil {
				d.fail(in, class, fmt.Sprintf("[%s] FieldPathFromContext(%s, %s) = %v instead of an error", pr.Kind, pr.Type, strings.Join(pr.Rel, "."), fp.Parts()), key)
			}
			if e2 == nil {
				d.fail(in, class, fmt.Sprintf("[%s] PathFromContext(%s) = %v instead of an error", pr.Kind, strings.Join(full, "."), cp.Parts()), key)
			}
			if e3 == nil {
				d.fail(in, class, fmt.Sprintf("[%s] TypeFromContext(%s) = %q with a nil error", pr.Kind, strings.Join(full, "."), ty), key)
			}
		}
	}
	if in.Kind == "cred" {
		d.credOracle(in, c)
	}
	if in.Kind == "switch" && len(in.Leaves) > 0 && (in.Only == "" || in.Only == "reload") {
		// ... and when the loader can no longer serve the context, they must fail
		for u := range in.Loader {
			d.loader.Fail[u] = true
		}
		lf := in.Leaves[0]
		full := strings.Join(append([]string{lf.TypeTerm}, lf.Rel...), ".")
		if p, err := o.PathFromContext(in.Ctx, full); err == nil {
			d.fail(in, "c11-context-not-reloaded", fmt.Sprintf("PathFromContext(%s) = %v although the context can no longer be loaded", full, p.Parts()), "reload")
		}
		if s, err := o.TypeFromContext(in.Ctx, strings.Join(append([]string{lf.TypeTerm}, noIndices(lf.Rel)...), ".")); err == nil {
			d.fail(in, "c11-context-not-reloaded", fmt.Sprintf("TypeFromContext = %q although the context can no longer be loaded", s), "reload")
		}
		if s, err := o.TypeIDFromContext(in.Ctx, lf.TypeTerm); err == nil {
			d.fail(in, "c11-context-not-reloaded", fmt.Sprintf("TypeIDFromContext = %q although the context can no longer be loaded", s), "reload")
		}
		for u := range in.Loader {
			delete(d.loader.Fail, u)
		}
	}
	b, _ := json.Marshal(struct {
		D json.RawMessage
		C json.RawMessage
	}{in.Doc, in.Ctx})
	d.rep.Distinct(string(b))
	if d.rep.Evaluations%29 == 1 {
		d.rep.Sample(map[string]any{"doc": string(in.Doc), "leaves": len(in.Leaves), "entries": len(c.entries), "features": in.Features})
	}
}

// ---- building cases from generated documents ----

func (d *drv) fromDoc(g *gen, gd *gdoc) *caseInput {
	r := d.cfg.Rng
	in := &caseInput{Kind: "doc", Leaves: gd.Leaves, Nodes: gd.Nodes, Features: sortedKeys(gd.Features), Loader: map[string]json.RawMessage{}}
	if r.Intn(2) == 0 {
		in.Hasher = 1 + r.Intn(3)
	}
	in.MzOpts = r.Intn(2) == 0
	in.Ctx = mustJSON(gd.CtxDoc)
	if r.Intn(4) == 0 {
		d.nURL++
		url := fmt.Sprintf("https://ctx.example/c11/%d.jsonld", d.nURL)
		in.Loader[url] = in.Ctx
		if r.Intn(2) == 0 {
			gd.Obj["@context"] = url
		} else {
			gd.Obj["@context"] = []any{url}
		}
		in.Features = append(in.Features, "remote-context")
	}
	in.Doc = mustJSON(gd.Obj)
	// probes
	unknown := func() string { g.n++; return fmt.Sprintf("nope%d", g.n) }
	for i, lf := range gd.Leaves {
		if lf.Leak || lf.Member {
			continue
		}
		dp := lf.DocPath
		switch {
		case lf.ArrayLen > 0 && r.Intn(2) == 0:
			q := cp(dp)
			q[len(q)-1] = strconv.Itoa(lf.ArrayLen + r.Intn(4))
			in.Probes = append(in.Probes, probe{Kind: "index-oob", Path: q})
		case lf.ArrayLen == 0 && lf.SingleWrap && r.Intn(2) == 0:
			in.Probes = append(in.Probes, probe{Kind: "index-on-single", Path: append(cp(dp), "0")})
		case lf.ArrayLen == 0 && !lf.SingleWrap && r.Intn(4) == 0:
			in.Probes = append(in.Probes, probe{Kind: "index-on-scalar", Path: append(cp(dp), strconv.Itoa(r.Intn(3)))})
		case lf.ArrayLen == 0 && r.Intn(8) == 0:
			in.Probes = append(in.Probes, probe{Kind: "index-into-string", Path: append(cp(dp), "0", "1")})
		}
		if idx := indexPositions(dp); len(idx) > 0 && !lf.Hetero && r.Intn(3) == 0 {
			// a multi-member array addressed without its index: no single field is denoted
			j := idx[r.Intn(len(idx))]
			q := append(cp(dp[:j]), dp[j+1:]...)
			in.Probes = append(in.Probes, probe{Kind: "missing-index", Path: q})
		}
		if i%3 == 0 && r.Intn(2) == 0 {
			// unresolvable: an unknown term at a random non-index position
			q := cp(dp)
			var pos []int
			for j, s := range q {
				if _, err := strconv.Atoi(s); err != nil {
					pos = append(pos, j)
				}
			}
			j := pos[r.Intn(len(pos))]
			q[j] = unknown()
			pr := probe{Kind: "unresolvable", Path: q}
			if k := len(dp) - len(lf.Rel); j >= k {
				pr.Type = lf.TypeTerm
				pr.Rel = cp(q[k:])
			} else if r.Intn(2) == 0 {
				pr.Type = unknown()
				pr.Rel = cp(lf.Rel)
			}
			in.Probes = append(in.Probes, pr)
		}
	}
	return in
}

// switchCase: the context document handed to the context-side resolvers only imports a URL; the same bytes
// are resolved twice, the loader serving different content in between (and finally nothing).
func (d *drv) switchCase(g *gen) *caseInput {
	g.alias, g.prefix = g.r.Intn(2) == 0, g.r.Intn(2) == 0
	t := g.schema(1+g.r.Intn(2), "")
	gd := g.build(t)
	d.nURL++
	url := fmt.Sprintf("https://ctx.example/c11/switch-%d.jsonld", d.nURL)
	now := mustJSON(gd.CtxDoc)
	before := bytes.ReplaceAll(now, []byte("http://ex.org/v#"), []byte("http://ex.org/before#"))
	gd.Obj["@context"] = url
	return &caseInput{Kind: "switch", Doc: mustJSON(gd.Obj), Ctx: mustJSON(map[string]any{"@context": url}),
		Loader: map[string]json.RawMessage{url: now}, Prime: before, Leaves: gd.Leaves, Nodes: gd.Nodes,
		Features: append(sortedKeys(gd.Features), "loader-switch")}
}

// sharedCase: one IRI-identified node referenced from two fields (friend:{id:X,age:30}, spouse:{id:X}).  There is no
// unique path for its fields: MerklizeJSONLD must reject the document; if it is accepted, the document-side path of
// every field must still be the key of a stored entry (the ordinary field oracles run).
func (d *drv) sharedCase(g *gen) *caseInput {
	r := d.cfg.Rng
	g.alias, g.prefix = false, false
	T, C := g.term("T"), g.term("T")
	friend, spouse, age, name := g.term("p"), g.term("p"), g.term("p"), g.term("p")
	iri := func(t string) string { return vocab + t }
	ctx := map[string]any{T: iri(T), C: iri(C), friend: iri(friend), spouse: iri(spouse),
		age: map[string]any{"@id": iri(age), "@type": xsd + "integer"}, name: iri(name)}
	g.n++
	x := fmt.Sprintf("urn:shared:%d", g.n)
	full := map[string]any{"@id": x, "@type": C, age: float64(30 + r.Intn(40))}
	ref := map[string]any{"@id": x}
	if r.Intn(2) == 0 {
		ref[name] = "n"
	}
	first, second := friend, spouse
	if r.Intn(2) == 0 {
		first, second = spouse, friend
	}
	doc := map[string]any{"@context": ctx, "@type": T, first: full, second: ref}
	lf := leaf{DocPath: []string{first, age}, Parts: []any{iri(first), iri(age)}, DT: xsd + "integer", Declared: xsd + "integer",
		Value: fmt.Sprintf("int:%d", int64(full[age].(float64))), Raw: full[age], TypeTerm: C, TypeIRI: iri(C), PrefixLen: 1, Rel: []string{age}, CtxOK: true}
	return &caseInput{Kind: "shared", Doc: mustJSON(doc), Ctx: mustJSON(map[string]any{"@context": ctx}), Leaves: []leaf{lf},
		Features: []string{"shared-node"}}
}

// failing: contexts that cannot be loaded (top-level URL, or the URL of a scoped context).
func (d *drv) failingCase(g *gen) *caseInput {
	r := d.cfg.Rng
	g.alias, g.prefix = false, false
	t := g.schema(1, "")
	t.TypeScoped = true
	gd := g.build(t)
	d.nURL++
	missing := fmt.Sprintf("https://ctx.example/c11/missing-%d.jsonld", d.nURL)
	in := &caseInput{Kind: "failing", Loader: map[string]json.RawMessage{}}
	ctx := gd.Ctx.(map[string]any)
	lit := t.firstLit()
	field := "x"
	if lit != nil {
		field = lit.Term
	}
	switch r.Intn(3) {
	case 0: // the document's only context is a URL nobody serves
		gd.Obj["@context"] = missing
		in.Ctx = mustJSON(map[string]any{"@context": missing})
		in.Features = []string{"failing:top-url"}
	case 1: // the type's scoped context is such a URL
		ctx[t.Term] = map[string]any{"@id": t.IRI, "@context": missing}
		in.Ctx = mustJSON(gd.CtxDoc)
		in.Features = []string{"failing:type-scoped-url"}
	default: // the type's scoped context is an array whose second member is such a URL
		def := ctx[t.Term].(map[string]any)
		def["@context"] = []any{def["@context"], missing}
		in.Ctx = mustJSON(gd.CtxDoc)
		in.Features = []string{"failing:type-scoped-array-url"}
	}
	in.Doc = mustJSON(gd.Obj)
	in.Probes = []probe{{Kind: "failing-context", Path: []string{field}, Type: t.Term, Rel: []string{field}}}
	return in
}

// ---- Coq rendering ----

type jintern struct {
	f    *coqgen.File
	docs map[string]string
}

func jsonCoq(f *coqgen.File, v any) string {
	switch x := v.(type) {
	case nil:
		return "JNull"
	case bool:
		return "(JBool " + coqgen.Bool(x) + ")"
	case float64:
		if x == float64(int64(x)) && x < 1e15 && x > -1e15 {
			return "(JI " + coqgen.SNumI(int64(x)) + ")"
		}
		return "(JDbl " + f.Str(strconv.FormatFloat(x, 'g', -1, 64)) + ")"
	case string:
		return "(JStr " + f.Str(x) + ")"
	case []any:
		var l []string
		for _, e := range x {
			l = append(l, jsonCoq(f, e))
		}
		return "(JArr [" + strings.Join(l, "; ") + "])"
	case map[string]any:
		var l []string
		for _, k := range sortedKeys(x) {
			l = append(l, "("+f.Str(k)+", "+jsonCoq(f, x[k])+")")
		}
		return "(JObj [" + strings.Join(l, ";\n   ") + "])"
	default:
		return "(JStr " + f.Str(fmt.Sprintf("<?%T>", v)) + ")"
	}
}

func (ji *jintern) doc(b []byte) string {
	if n, ok := ji.docs[string(b)]; ok {
		return n
	}
	var v any
	if err := json.Unmarshal(b, &v); err != nil {
		v = "<invalid json>"
	}
	n := fmt.Sprintf("j%d", len(ji.docs))
	ji.docs[string(b)] = n
	ji.f.Add(fmt.Sprintf("Definition %s : json := %s.", n, jsonCoq(ji.f, v)))
	return n
}

func strList(f *coqgen.File, l []string) string {
	var s []string
	for _, x := range l {
		s = append(s, f.Str(x))
	}
	return "[" + strings.Join(s, ";") + "]"
}

var verbatimExcluded = map[string]bool{
	xsd + "boolean": true, xsd + "integer": true, xsd + "positiveInteger": true, xsd + "nonNegativeInteger": true,
	xsd + "negativeInteger": true, xsd + "nonPositiveInteger": true, xsd + "dateTime": true, xsd + "double": true,
}

func (d *drv) caseCoq(ji *jintern, id int, c *ccase) string {
	f := ji.f
	var ld []string
	for _, u := range sortedKeys(c.in.Loader) {
		ld = append(ld, "("+f.Str(u)+", "+ji.doc(c.in.Loader[u])+")")
	}
	if c.in.Kind == "cred" {
		for _, u := range []string{ctxload.URLCredentialsV1} {
			ld = append(ld, "("+f.Str(u)+", "+ji.doc(d.loader.Raw(u))+")")
		}
	}
	var es string
	switch c.eClass {
	case "ok":
		var l []string
		for _, e := range c.entries {
			v := "None"
			if s, ok := e.Value.(string); ok && !verbatimExcluded[e.Datatype] {
				v = "(Some " + f.Str(s) + ")"
			}
			l = append(l, fmt.Sprintf("(%s, %s, %s)", mzrun.PartsCoq(f, e.Parts), f.Str(e.Datatype), v))
		}
		es = "(EEntries [" + strings.Join(l, ";\n    ") + "])"
	case "err":
		es = "EErr"
	default:
		es = "ESkip"
	}
	var qs []string
	for _, q := range c.queries {
		pobs := "PErr"
		if !q.failed {
			pobs = "(POk " + mzrun.PartsCoq(f, q.parts) + ")"
		}
		sobs := "SErr"
		if !q.failed {
			sobs = "(SOk " + f.Str(q.str) + ")"
		}
		switch q.kind {
		case "QDoc", "QCtx":
			qs = append(qs, fmt.Sprintf("%s %s %s", q.kind, strList(f, q.a), pobs))
		case "QField":
			qs = append(qs, fmt.Sprintf("QField %s %s %s", strList(f, q.a), strList(f, q.b), pobs))
		case "QTypeID":
			qs = append(qs, fmt.Sprintf("QTypeID %s %s", f.Str(q.a[0]), sobs))
		case "QTypeOf":
			qs = append(qs, fmt.Sprintf("QTypeOf %s %s", strList(f, q.a), sobs))
		}
	}
	kobs := func(z *big.Int, isErr, seen bool) string {
		switch {
		case isErr:
			return "KErr"
		case z == nil || !seen:
			return "KNone"
		default:
			return "(KOk " + coqgen.Limbs(z) + ")"
		}
	}
	for _, k := range c.keys {
		qs = append(qs, fmt.Sprintf("QKeys %s %s %s %s %s %s %s", strList(f, k.ty), strList(f, k.field), mzrun.PartsCoq(f, k.pre), strList(f, k.pi),
			kobs(k.ks, k.ksErr, true), kobs(k.kd, k.kdErr, true), kobs(k.ke, false, k.keSeen)))
	}
	prims := "(mkrh [] [] [])"
	if c.prims != nil {
		prims = c.prims.coq(f)
	}
	return fmt.Sprintf("mkcc %d %s [%s] %s %s\n  %s\n  [%s]", id, prims, strings.Join(ld, "; "), ji.doc(c.in.Doc), ji.doc(c.in.Ctx), es, strings.Join(qs, ";\n   "))
}

const shardSize = 40

func (d *drv) writeShards() error {
	n := len(d.cases)
	for s := 0; s*shardSize < n; s++ {
		lo, hi := s*shardSize, (s+1)*shardSize
		if hi > n {
			hi = n
		}
		f := coqgen.NewFile("From GSP Require Import Value.Run RDF.Model RDF.Run JsonLD.Model JsonLD.Resolvers JsonLD.KeyModel JsonLD.Run.")
		ji := &jintern{f: f, docs: map[string]string{}}
		name := filepath.Join(d.cfg.OutDir, fmt.Sprintf("cases_C11_%03d.v", s))
		var cs []string
		for i := lo; i < hi; i++ {
			cs = append(cs, d.caseCoq(ji, i, d.cases[i]))
			d.rep.Case(name, i, d.cases[i].in)
		}
		f.Add("Definition cases_ : list ccase := " + coqgen.List(cs) + ".")
		f.Add("Definition M := Eval vm_compute in cmismatches cases_.")
		f.Add("Print M.")
		if err := f.Write(name); err != nil {
			return err
		}
		d.rep.Shards = append(d.rep.Shards, name)
	}
	return nil
}

func Run(cfg *common.Config) (*common.Report, error) {
	rep := common.NewReport("C11")
	rep.Correspondence = "JsonLD.Run.cmismatches: path_from_document / path_from_context / field_path_from_context / type_id_from_context / type_from_context (JsonLD/Resolvers.v) vs Merklizer.ResolveDocPath (Options.NewPathFromDocument) / Options.PathFromContext / FieldPathFromContext / TypeIDFromContext / TypeFromContext on the same context + document + path (path parts or error class); facts (JsonLD/Model.v) vs the entries MerklizeJSONLD stored (hook VerifEntries) as multisets of (path up to index numbering, datatype, string value)"
	rep.Rule = "documents generated from random schema trees (depth<=3; type-scoped contexts with/without redefinitions and @propagate, property-scoped contexts, prefixes, keyword aliases, local contexts, remote contexts, arrays of literals/IRIs/nodes, heterogeneous node arrays), W3C-credential-shaped documents, contexts that fail to load; every field of every document is queried through all resolvers, plus out-of-range / misplaced index probes and unresolvable-path probes. distinct = distinct (document, context document) pairs; all are non-trivial (>= 1 field, >= 1 scoped or aliased context feature or a probe)."
	d := &drv{cfg: cfg, rep: rep, loader: ctxload.New(), hs: hasherSet()}
	merklize.SetDocumentLoader(d.loader)
	if cfg.Replay != "" {
		var rf struct {
			Input caseInput `json:"input"`
		}
		if err := common.ReadJSON(cfg.Replay, &rf); err != nil {
			return nil, err
		}
		d.runCase(&rf.Input)
		for _, c := range d.cases {
			fmt.Printf("replay: merklize=%s, %d entries, %d queries\n", c.eClass, len(c.entries), len(c.queries))
			for _, e := range c.entries {
				fmt.Printf("  stored %v -> %s (%s)\n", e.Parts, docgen.RenderGoValue(e.Value), e.Datatype)
			}
			for _, q := range c.queries {
				fmt.Printf("  %s %v %v -> parts=%v str=%q failed=%v\n", q.kind, q.a, q.b, q.parts, q.str, q.failed)
			}
		}
		for _, f := range rep.Failures {
			fmt.Printf("replay: FAIL [%s] %s\n", f.Class, f.What)
		}
		return rep, d.writeShards()
	}
	g := newGen(cfg.Rng)
	for i := 0; i < cfg.Pick(160, 4000); i++ {
		gd := g.randomDoc()
		d.runCase(d.fromDoc(g, gd))
	}
	for i := 0; i < cfg.Pick(12, 200); i++ {
		d.runCase(d.failingCase(g))
	}
	for i := 0; i < cfg.Pick(16, 300); i++ {
		d.runCase(d.credCase(g))
	}
	for i := 0; i < cfg.Pick(10, 200); i++ {
		d.runCase(d.switchCase(g))
	}
	for i := 0; i < cfg.Pick(8, 100); i++ {
		d.runCase(d.sharedCase(g))
	}
	rep.Distribution["terms-with-leading-digit"] = g.digitTerms
	sort.Strings(rep.Notes)
	return rep, d.writeShards()
}
