package issuer

// Fault catalogue pieces shared by C07 and C08.

import (
	"fmt"

	"github.com/iden3/go-iden3-crypto/poseidon"
	"math/big"
	"math/rand"
	"strings"
)

// Mut is one fault: a name, what the property demands of the result, and the edit.
type Mut struct {
	Name   string
	Expect string
	F      func(p *ProofJ, e *Env)
}

func BP(b bool) *bool { return &b }

func AddOne(dec string) string {
	z, ok := new(big.Int).SetString(dec, 10)
	if !ok {
		return "1"
	}
	return z.Add(z, big.NewInt(1)).String()
}

// flipHexBit flips bit `bit` of byte `idx` of a hex string.
func FlipHexBit(h string, idx int, bit uint) string {
	b := []byte(h)
	if 2*idx+1 >= len(b) {
		return h
	}
	var v byte
	fmt.Sscanf(string(b[2*idx:2*idx+2]), "%02x", &v)
	v ^= 1 << bit
	copy(b[2*idx:], fmt.Sprintf("%02x", v))
	return string(b)
}

// MTPFaults: faults on a Merkle proof that must make it fail, given where it lives.
func MTPFaults(prefix string, get func(p *ProofJ, e *Env) **MTPJ, honest *MTPJ, rng *rand.Rand) []Mut {
	var ms []Mut
	add := func(name, expect string, f func(m *MTPJ) *MTPJ) {
		ms = append(ms, Mut{prefix + name, expect, func(p *ProofJ, e *Env) {
			slot := get(p, e)
			*slot = f((*slot).Clone())
		}})
	}
	add("existence-flag", "reject", func(m *MTPJ) *MTPJ { m.Existence = !m.Existence; return m })
	for i := range honest.Siblings {
		i := i
		add(fmt.Sprintf("sibling#%d", i), "reject", func(m *MTPJ) *MTPJ { m.Siblings[i] = AddOne(m.Siblings[i]); return m })
	}
	if n := len(honest.Siblings); n > 0 {
		add("sibling-dropped", "reject", func(m *MTPJ) *MTPJ { m.Siblings = m.Siblings[:n-1]; return m })
		add("sibling-not-in-field", "reject", func(m *MTPJ) *MTPJ { m.Siblings[0] = Q.String(); return m })
	}
	// empty ("0") siblings added to an otherwise valid proof: every level hashes, so the root
	// changes (a verifier that strips trailing empty siblings would accept)
	for _, k := range []int{1, 2} {
		k := k
		add(fmt.Sprintf("zero-siblings-appended-%d", k), "reject", func(m *MTPJ) *MTPJ {
			for i := 0; i < k; i++ {
				m.Siblings = append(m.Siblings, "0")
			}
			return m
		})
	}
	for _, to := range []int{40, 64} {
		to := to
		add(fmt.Sprintf("zero-siblings-padded-to-%d", to), "reject", func(m *MTPJ) *MTPJ {
			for len(m.Siblings) < to {
				m.Siblings = append(m.Siblings, "0")
			}
			return m
		})
	}
	add("zero-sibling-prepended", "reject", func(m *MTPJ) *MTPJ { m.Siblings = append([]string{"0"}, m.Siblings...); return m })
	if n := len(honest.Siblings); n >= 1 {
		add("zero-sibling-inserted-in-the-middle", "reject", func(m *MTPJ) *MTPJ {
			at := (n + 1) / 2
			out := append([]string{}, m.Siblings[:at]...)
			out = append(out, "0")
			m.Siblings = append(out, m.Siblings[at:]...)
			return m
		})
	}
	add("siblings-300-nonzero", "reject", func(m *MTPJ) *MTPJ {
		// more siblings than the library's bitmap has bits: a decode error since c1afc2d
		for len(m.Siblings) < 300 {
			m.Siblings = append(m.Siblings, RandField(rng).String())
		}
		return m
	})
	add("sibling-null", "reject", func(m *MTPJ) *MTPJ { m.Siblings = append(m.Siblings, "null-sibling"); return m })
	add("sibling-appended", "reject", func(m *MTPJ) *MTPJ {
		m.Siblings = append(m.Siblings, RandField(rng).String())
		return m
	})
	if honest.NodeAux != nil {
		add("aux-key", "reject", func(m *MTPJ) *MTPJ { m.NodeAux.Key = S(AddOne(*m.NodeAux.Key)); return m })
		add("aux-value", "reject", func(m *MTPJ) *MTPJ { m.NodeAux.Value = S(AddOne(*m.NodeAux.Value)); return m })
		add("aux-removed", "reject", func(m *MTPJ) *MTPJ { m.NodeAux = nil; return m })
		add("aux-value-missing", "reject", func(m *MTPJ) *MTPJ { m.NodeAux.Value = nil; return m })
	} else {
		add("aux-incomplete", "reject", func(m *MTPJ) *MTPJ {
			m.NodeAux = &AuxJ{Key: S(RandField(rng).String())}
			return m
		})
		if honest.Existence {
			// RootFromProof ignores NodeAux on an existence proof: harmless
			add("aux-added-complete", "accept", func(m *MTPJ) *MTPJ {
				m.NodeAux = &AuxJ{Key: S(RandField(rng).String()), Value: S(RandField(rng).String())}
				return m
			})
		} else {
			add("aux-added-complete", "reject", func(m *MTPJ) *MTPJ {
				m.NodeAux = &AuxJ{Key: S(RandField(rng).String()), Value: S(RandField(rng).String())}
				return m
			})
		}
	}
	return ms
}

// StateFaults: faults on issuerData.state shared by C07 and C08.
func StateFaults(sc *Scenario, rng *rand.Rand) []Mut {
	rnd := func() *string { return S(HexOf(RandField(rng))) }
	zeroExp := func(z *big.Int) string {
		if z.Sign() == 0 {
			return "accept"
		}
		return "reject"
	}
	ms := []Mut{
		{"state-value-random", "reject", func(p *ProofJ, e *Env) { p.IssuerData.State.Value = rnd() }},
		{"state-value-removed", "reject", func(p *ProofJ, e *Env) { p.IssuerData.State.Value = nil }},
		{"state-value-malformed", "reject", func(p *ProofJ, e *Env) { p.IssuerData.State.Value = S("zz") }},
		{"state-value-short", "reject", func(p *ProofJ, e *Env) { p.IssuerData.State.Value = S((*p.IssuerData.State.Value)[:62]) }},
		{"state-value-0x-prefixed", "accept", func(p *ProofJ, e *Env) { p.IssuerData.State.Value = S("0x" + *p.IssuerData.State.Value) }},
		{"roots-uppercase-hex", "accept", func(p *ProofJ, e *Env) {
			p.IssuerData.State.Value = S(strings.ToUpper(*p.IssuerData.State.Value))
			p.IssuerData.State.ClaimsTreeRoot = S(strings.ToUpper(*p.IssuerData.State.ClaimsTreeRoot))
		}},
		{"state-value-33-bytes", "reject", func(p *ProofJ, e *Env) { p.IssuerData.State.Value = S(*p.IssuerData.State.Value + "00") }},
		{"state-value-odd-length", "reject", func(p *ProofJ, e *Env) { p.IssuerData.State.Value = S(*p.IssuerData.State.Value + "0") }},
		{"state-value-attacker-published", "reject", func(p *ProofJ, e *Env) {
			// a state the resolver would call published, unrelated to the roots given
			as := sc.Attacker.State()
			p.IssuerData.State.Value = S(HexOf(as.State))
			e.DID = append(e.DID, DIDAnswer{DID: *p.IssuerData.ID, State: HexOf(as.State), Published: BP(true)})
		}},
		{"claims-root-random", "reject", func(p *ProofJ, e *Env) { p.IssuerData.State.ClaimsTreeRoot = rnd() }},
		{"claims-root-removed", "reject", func(p *ProofJ, e *Env) { p.IssuerData.State.ClaimsTreeRoot = nil }},
		{"claims-root-malformed", "reject", func(p *ProofJ, e *Env) { p.IssuerData.State.ClaimsTreeRoot = S("0x12") }},
		{"claims-root-is-state", "reject", func(p *ProofJ, e *Env) { p.IssuerData.State.ClaimsTreeRoot = p.IssuerData.State.Value }},
		{"revocation-root-random", "reject", func(p *ProofJ, e *Env) { p.IssuerData.State.RevocationTreeRoot = rnd() }},
		{"revocation-root-removed", zeroExp(sc.Snap.RTR), func(p *ProofJ, e *Env) { p.IssuerData.State.RevocationTreeRoot = nil }},
		{"revocation-root-malformed", "reject", func(p *ProofJ, e *Env) { p.IssuerData.State.RevocationTreeRoot = S("nothex") }},
		{"roots-root-random", "reject", func(p *ProofJ, e *Env) { p.IssuerData.State.RootOfRoots = rnd() }},
		{"roots-root-removed", zeroExp(sc.Snap.ROR), func(p *ProofJ, e *Env) { p.IssuerData.State.RootOfRoots = nil }},
		{"roots-swapped", "reject", func(p *ProofJ, e *Env) {
			s := &p.IssuerData.State
			s.RevocationTreeRoot, s.RootOfRoots = S(HexOf(sc.Snap.ROR)), S(HexOf(sc.Snap.RTR))
			if sc.Snap.ROR.Cmp(sc.Snap.RTR) == 0 {
				s.RootOfRoots = rnd()
			}
		}},
		{"zero-roots-explicit", "accept", func(p *ProofJ, e *Env) {
			s := &p.IssuerData.State
			s.RevocationTreeRoot, s.RootOfRoots = S(HexOf(sc.Snap.RTR)), S(HexOf(sc.Snap.ROR))
		}},
	}
	return ms
}

// DIDFaults: faults on issuerData.id and on the DID resolver's answer.
func DIDFaults(sc *Scenario) []Mut {
	st := HexOf(sc.Snap.State)
	did := sc.Issuer.DID.String()
	setAns := func(a DIDAnswer) func(p *ProofJ, e *Env) {
		return func(p *ProofJ, e *Env) { a.DID, a.State = did, st; e.DID = []DIDAnswer{a} }
	}
	genExp := "reject"
	if sc.P.Genesis {
		genExp = "accept"
	}
	return []Mut{
		{"did-other-identity", "reject", func(p *ProofJ, e *Env) { p.IssuerData.ID = S(sc.Attacker.DID.String()) }},
		{"did-other-identity-resolver-unpublished", "reject", func(p *ProofJ, e *Env) {
			p.IssuerData.ID = S(sc.Attacker.DID.String())
			e.DID = append(e.DID, DIDAnswer{DID: sc.Attacker.DID.String(), State: st, Published: BP(false)})
		}},
		{"did-other-identity-resolver-published", "accept", func(p *ProofJ, e *Env) {
			// the resolver is the authority on publication: if it says that this state is a
			// published state of that DID, every clause of the property holds
			p.IssuerData.ID = S(sc.Attacker.DID.String())
			e.DID = append(e.DID, DIDAnswer{DID: sc.Attacker.DID.String(), State: st, Published: BP(true)})
		}},
		{"did-with-extra-query", "accept", func(p *ProofJ, e *Env) {
			// the verifier replaces the query by state=...: the same identity
			p.IssuerData.ID = S(did + "?service=x")
		}},
		{"did-malformed", "reject", func(p *ProofJ, e *Env) { p.IssuerData.ID = S("did:") }},
		{"did-removed", "reject", func(p *ProofJ, e *Env) { p.IssuerData.ID = nil }},
		{"resolver-error", "reject", setAns(DIDAnswer{Err: true})},
		{"resolver-unknown", "reject", func(p *ProofJ, e *Env) { e.DID = nil }},
		{"resolver-no-state-info", "reject", setAns(DIDAnswer{NoStateInfo: true})},
		{"resolver-unpublished-false", genExp, setAns(DIDAnswer{Published: BP(false)})},
		{"resolver-unpublished-absent", genExp, setAns(DIDAnswer{Published: nil})},
		{"resolver-published-true", "accept", setAns(DIDAnswer{Published: BP(true)})},
		// documents with several verification methods, in every order: the FIRST state-info
		// entry decides
		{"resolver-doc-state-info-first", "accept", setAns(DIDAnswer{VMs: []VMJ{{StateInfo: true, Published: BP(true)}, {}, {}}})},
		{"resolver-doc-state-info-middle", "accept", setAns(DIDAnswer{VMs: []VMJ{{}, {StateInfo: true, Published: BP(true)}, {}}})},
		{"resolver-doc-state-info-last", "accept", setAns(DIDAnswer{VMs: []VMJ{{}, {}, {StateInfo: true, Published: BP(true)}}})},
		{"resolver-doc-state-info-only", "accept", setAns(DIDAnswer{VMs: []VMJ{{StateInfo: true, Published: BP(true)}}})},
		{"resolver-doc-two-state-infos-published-first", "accept", setAns(DIDAnswer{VMs: []VMJ{{StateInfo: true, Published: BP(true)}, {StateInfo: true, Published: BP(false)}}})},
		{"resolver-doc-two-state-infos-unpublished-first", genExp, setAns(DIDAnswer{VMs: []VMJ{{}, {StateInfo: true, Published: BP(false)}, {StateInfo: true, Published: BP(true)}}})},
		{"resolver-doc-two-state-infos-absent-first", genExp, setAns(DIDAnswer{VMs: []VMJ{{StateInfo: true}, {StateInfo: true, Published: BP(true)}, {}}})},
		{"resolver-doc-unpublished-first-key-last", genExp, setAns(DIDAnswer{VMs: []VMJ{{StateInfo: true, Published: BP(false)}, {}}})},
		{"resolver-doc-no-methods", "reject", setAns(DIDAnswer{VMs: []VMJ{}})},
		{"resolver-doc-keys-only", "reject", setAns(DIDAnswer{VMs: []VMJ{{}, {}}})},
	}
}

// NearMiss is one value close to x in some representation (all kept inside [0, q)).
type NearMiss struct {
	Name string
	Z    *big.Int
}

// NearMisses of a hash value: a comparison weakened to a prefix, a display form, the low bits
// or any other truncation lets at least one of them through.
func NearMisses(x *big.Int) []NearMiss {
	in := func(z *big.Int) bool { return z.Sign() >= 0 && z.Cmp(Q) < 0 && z.Cmp(x) != 0 }
	add := func(d *big.Int) *big.Int {
		if z := new(big.Int).Add(x, d); in(z) {
			return z
		}
		return new(big.Int).Sub(x, d)
	}
	pow := func(b, e int64) *big.Int { return new(big.Int).Exp(big.NewInt(b), big.NewInt(e), nil) }
	var out []NearMiss
	put := func(n string, z *big.Int) {
		if in(z) {
			out = append(out, NearMiss{n, z})
		}
	}
	put("plus-1", add(big.NewInt(1)))
	put("minus-1", add(big.NewInt(-1)))
	put("plus-2^64", add(pow(2, 64)))
	put("minus-10^40", add(new(big.Int).Neg(pow(10, 40))))
	// last decimal digit changed
	d := new(big.Int).Mod(x, big.NewInt(10)).Int64()
	put("last-decimal-digit", new(big.Int).Add(new(big.Int).Sub(x, big.NewInt(d)), big.NewInt((d+5)%10)))
	// lowest / highest byte of the 32-byte value changed
	put("low-byte", new(big.Int).Xor(x, big.NewInt(0x80)))
	for bit := 248; bit >= 200; bit-- {
		if z := new(big.Int).Xor(x, new(big.Int).Lsh(big.NewInt(1), uint(bit))); in(z) {
			put("high-byte", z)
			break
		}
	}
	return out
}

func hash3(a, b, c *big.Int) *big.Int {
	h, err := poseidon.Hash([]*big.Int{a, b, c})
	if err != nil {
		panic(err)
	}
	return h
}

// NearMissFaults: every hash of issuerData.state that the verifier compares is replaced by a
// near miss and everything DOWNSTREAM is recomputed consistently (state := Poseidon of the new
// roots, the resolver reports the new state as published), so that only the targeted
// comparison can reject: root-from-proof vs claimsTreeRoot, and state value vs Poseidon[roots].
func NearMissFaults(sc *Scenario) []Mut {
	var ms []Mut
	publish := func(p *ProofJ, e *Env, st *big.Int) {
		if p.IssuerData.ID != nil {
			e.DID = append(e.DID, DIDAnswer{DID: *p.IssuerData.ID, State: HexOf(st), Published: BP(true)})
		}
	}
	for _, nm := range NearMisses(sc.Snap.CTR) {
		nm := nm
		ms = append(ms, Mut{"near-miss-claims-root-" + nm.Name, "reject", func(p *ProofJ, e *Env) {
			st := hash3(nm.Z, sc.Snap.RTR, sc.Snap.ROR)
			p.IssuerData.State = StateJOf(Snapshot{State: st, CTR: nm.Z, RTR: sc.Snap.RTR, ROR: sc.Snap.ROR}, false)
			publish(p, e, st)
		}})
	}
	for _, nm := range NearMisses(sc.Snap.State) {
		nm := nm
		ms = append(ms, Mut{"near-miss-state-value-" + nm.Name, "reject", func(p *ProofJ, e *Env) {
			p.IssuerData.State.Value = S(HexOf(nm.Z))
			publish(p, e, nm.Z)
		}})
	}
	return ms
}

// NearMissStatusFaults (C07): the same for the status answer: its state, and its revocation
// root with the answer's state recomputed (only the proof-root comparison can reject).
func NearMissStatusFaults(sc *Scenario) []Mut {
	var ms []Mut
	for _, nm := range NearMisses(sc.Snap.State) {
		nm := nm
		ms = append(ms, Mut{"near-miss-status-state-" + nm.Name, "reject", func(p *ProofJ, e *Env) {
			e.Reg[0].Answer.Issuer.State = S(HexOf(nm.Z))
		}})
	}
	for _, nm := range NearMisses(sc.Snap.RTR) {
		nm := nm
		ms = append(ms, Mut{"near-miss-status-revocation-root-" + nm.Name, "reject", func(p *ProofJ, e *Env) {
			a := e.Reg[0].Answer
			a.Issuer.RevocationTreeRoot = S(HexOf(nm.Z))
			a.Issuer.ClaimsTreeRoot, a.Issuer.RootOfRoots = S(HexOf(sc.Snap.CTR)), S(HexOf(sc.Snap.ROR))
			a.Issuer.State = S(HexOf(hash3(sc.Snap.CTR, nm.Z, sc.Snap.ROR)))
		}})
	}
	return ms
}
