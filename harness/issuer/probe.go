package issuer

// Weak-comparison probes (thorough tier only): brute-force search for a forged one-sibling
// Merkle proof whose recomputed root AGREES PARTIALLY with the true claims tree root (leading
// 8 decimal digits, trailing 8 decimal digits, low 32 bits).  A verifier that compares roots in
// full rejects all of them; one that compares a display form or a truncation accepts.

import (
	"context"
	"fmt"
	"math/big"
	"math/rand"
	"runtime"
	"sort"
	"sync"
	"sync/atomic"
	"time"

	"github.com/iden3/go-iden3-crypto/poseidon"
)

// Hit is one partial agreement: the sibling, and which target root it agrees with.
type Hit struct {
	Sibling *big.Int
	Target  int
}

// ProbeResult: hits per agreement kind, and the number of candidates hashed.
type ProbeResult struct {
	Found map[string]Hit // "prefix8" | "suffix8" | "low32"
	Tried int64
}

var tenTo8 = big.NewInt(100000000)
var mask32 = big.NewInt(0xFFFFFFFF)

func prefix8(z *big.Int) string {
	s := z.String()
	if len(s) < 8 {
		return s
	}
	return s[:8]
}

// WeakProbe searches siblings s = start, start+1, ... such that the root of the one-level
// existence proof {siblings: [s]} for the leaf (k, v) partially agrees with ONE OF the target
// roots (an attacker may pick any published state of any issuer: the credential does not have
// to name the issuer whose state the proof names).  It stops when a leading-digits AND a
// trailing-digits agreement are found, or the budget is spent.
func WeakProbe(k, v *big.Int, targets []*big.Int, start *big.Int, budget time.Duration) ProbeResult {
	res := ProbeResult{Found: map[string]Hit{}}
	leaf, err := poseidon.Hash([]*big.Int{k, v, big.NewInt(1)})
	if err != nil {
		return res
	}
	right := k.Bit(0) == 1 // the leaf is the right child at level 0
	pre, suf, low := map[string]int{}, map[uint64]int{}, map[uint64]int{}
	full := map[string]bool{}
	for i, t := range targets {
		pre[prefix8(t)] = i
		suf[new(big.Int).Mod(t, tenTo8).Uint64()] = i
		low[new(big.Int).And(t, mask32).Uint64()] = i
		full[t.String()] = true
	}
	ctx, cancel := context.WithTimeout(context.Background(), budget)
	defer cancel()
	var mu sync.Mutex
	var tried int64
	n := runtime.NumCPU()
	var wg sync.WaitGroup
	for w := 0; w < n; w++ {
		wg.Add(1)
		go func(w int) {
			defer wg.Done()
			s := new(big.Int).Add(start, big.NewInt(int64(w)))
			step := big.NewInt(int64(n))
			in := make([]*big.Int, 2)
			tmp := new(big.Int)
			var local int64
			for {
				if local&255 == 0 {
					select {
					case <-ctx.Done():
						atomic.AddInt64(&tried, local)
						return
					default:
					}
				}
				if right {
					in[0], in[1] = s, leaf
				} else {
					in[0], in[1] = leaf, s
				}
				r, err := poseidon.Hash(in)
				local++
				if err == nil {
					kind, ti := "", 0
					rs := r.String()
					p8 := rs
					if len(p8) > 8 {
						p8 = p8[:8]
					}
					if i, ok := pre[p8]; ok {
						kind, ti = "prefix8", i
					} else if i, ok := suf[tmp.Mod(r, tenTo8).Uint64()]; ok {
						kind, ti = "suffix8", i
					} else if i, ok := low[tmp.And(r, mask32).Uint64()]; ok {
						kind, ti = "low32", i
					}
					if kind != "" && !full[rs] {
						mu.Lock()
						if _, ok := res.Found[kind]; !ok {
							res.Found[kind] = Hit{Sibling: new(big.Int).Set(s), Target: ti}
						}
						_, a := res.Found["prefix8"]
						_, b := res.Found["suffix8"]
						mu.Unlock()
						if a && b { // low 32 bits (about 2^32/targets hashes) only if it turns up meanwhile
							cancel()
						}
					}
				}
				s = new(big.Int).Add(s, step)
			}
		}(w)
	}
	wg.Wait()
	res.Tried = tried
	return res
}

// ProbeTargets builds n small honest issuers (published, non-genesis states).
func ProbeTargets(rng *rand.Rand, n int) ([]*Scenario, error) {
	var scs []*Scenario
	for i := 0; i < n; i++ {
		sc, err := Build(rng, Params{NClaims: i % 4, NRevoked: i % 3, Published: BP(true), RootPos: "index", OmitZero: i%2 == 0})
		if err != nil {
			return nil, err
		}
		scs = append(scs, sc)
	}
	return scs, nil
}

// FoundString renders the hits for the evidence.
func (r ProbeResult) FoundString() string {
	var ks []string
	for k, h := range r.Found {
		ks = append(ks, fmt.Sprintf("%s: sibling %s vs target #%d", k, h.Sibling, h.Target))
	}
	sort.Strings(ks)
	return fmt.Sprint(ks)
}
