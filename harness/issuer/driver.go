package issuer

// Shared driver of C07 and C08: runs W3CCredential.VerifyProof on each case, evaluates
// the implementation-side oracles, writes the Coq case files.

import (
	"encoding/json"
	"fmt"
	"path/filepath"
	"sort"
	"strings"
	"sync"

	"github.com/iden3/go-schema-processor/v2/verifiable"

	"vharness/common"
)

// Case is one credential + environment handed to VerifyProof (also the replay format).
type Case struct {
	Kind     string          `json:"kind"`     // "bjj" | "smt"
	Scenario string          `json:"scenario"` // how the honest bundle was built
	Fault    string          `json:"fault"`    // "" / "honest:..." = no fault
	Expect   string          `json:"expect"`   // "accept" | "reject": what the property demands
	Cred     json.RawMessage `json:"credential"`
	Env      Env             `json:"env"`
}

// Outcome of the implementation.
type Outcome struct {
	Obs      int      // 0 accept, 1 reject, 2 panic
	Msg      string   // error text (reported to humans only, never compared)
	DIDCalls []string // what the DID resolver was asked ("<did>?state=<hex>")
	Nonces   []uint64 // nonces the status resolvers were asked about
}

// RunImpl calls the public API exactly as a verifier does.
func RunImpl(c *Case) (out Outcome) {
	defer func() {
		if r := recover(); r != nil {
			out = Outcome{Obs: 2, Msg: fmt.Sprint(r)}
		}
	}()
	var vc verifiable.W3CCredential
	if err := json.Unmarshal(c.Cred, &vc); err != nil {
		return Outcome{Obs: 1, Msg: "credential does not decode: " + err.Error()}
	}
	reg := &verifiable.CredentialStatusResolverRegistry{}
	var stubs []*StubStatusResolver
	for _, e := range c.Env.Reg {
		st := &StubStatusResolver{Answer: e.Answer}
		stubs = append(stubs, st)
		reg.Register(verifiable.CredentialStatusType(e.Type), st)
	}
	didr := &StubDIDResolver{Script: c.Env.DID}
	pt := verifiable.Iden3SparseMerkleTreeProofType
	if c.Kind == "bjj" {
		pt = verifiable.BJJSignatureProofType
	}
	err := vc.VerifyProof(bg, pt, didr, verifiable.WithStatusResolverRegistry(reg),
		verifiable.VerifWithMerklizeOptions(MerklizeOpts()...))
	out = Outcome{Obs: 0, DIDCalls: didr.Calls}
	for _, st := range stubs {
		for _, cs := range st.Seen {
			out.Nonces = append(out.Nonces, cs.RevocationNonce)
		}
	}
	if err != nil {
		out.Obs, out.Msg = 1, err.Error()
	}
	return out
}

// Driver collects cases and writes shards.
type Driver struct {
	Cfg       *common.Config
	Rep       *common.Report
	Prop      string // "C07" | "C08"
	BJJ       bool
	ShardSize int
	cur       *Shard
	nShard    int
	n         int
	curName   string
}

func NewDriver(cfg *common.Config, prop string, bjj bool) *Driver {
	return &Driver{Cfg: cfg, Rep: common.NewReport(prop), Prop: prop, BJJ: bjj, ShardSize: 60}
}

func (d *Driver) lc() string { return strings.ToLower(d.Prop) }

func (d *Driver) shardName() string {
	return filepath.Join(d.Cfg.OutDir, fmt.Sprintf("cases_%s_%03d.v", d.Prop, d.nShard))
}

// Flush writes the current shard.
func (d *Driver) Flush() error {
	if d.cur == nil || d.cur.N() == 0 {
		return nil
	}
	name := d.curName
	if err := d.cur.Write(name); err != nil {
		return err
	}
	d.Rep.Shards = append(d.Rep.Shards, name)
	d.cur = nil
	d.nShard++
	return nil
}

func firstFalse(cl map[string]bool) string {
	var ks []string
	for k, v := range cl {
		if !v {
			ks = append(ks, k)
		}
	}
	sort.Strings(ks)
	if len(ks) == 0 {
		return "none"
	}
	return strings.Join(ks, "+")
}

// DoBatch runs the implementation and the decoders of a batch concurrently (they are
// pure), then the oracles and the case-file entries in order.
func (d *Driver) DoBatch(cs []*Case) ([]Outcome, []bool, error) {
	outs := make([]Outcome, len(cs))
	tops := make([]Top, len(cs))
	sem := make(chan struct{}, 8)
	var wg sync.WaitGroup
	for i := range cs {
		wg.Add(1)
		sem <- struct{}{}
		go func(i int) {
			defer wg.Done()
			defer func() { <-sem }()
			outs[i] = RunImpl(cs[i])
			tops[i] = Project(cs[i].Cred, d.BJJ)
		}(i)
	}
	wg.Wait()
	specs := make([]bool, len(cs))
	for i, c := range cs {
		var err error
		if specs[i], err = d.finish(c, outs[i], tops[i]); err != nil {
			return outs, specs, err
		}
	}
	return outs, specs, nil
}

// Do runs one case: implementation, oracles, case-file entry.
func (d *Driver) Do(c *Case) (Outcome, bool, error) {
	out := RunImpl(c)
	top := Project(c.Cred, d.BJJ)
	spec, err := d.finish(c, out, top)
	return out, spec, err
}

func (d *Driver) finish(c *Case, out Outcome, top Top) (bool, error) {
	if d.cur == nil {
		d.cur = NewShard(d.BJJ)
		d.curName = d.shardName()
	}
	id := d.n
	d.n++
	spec, clauses := d.cur.Rec.Spec(top, c.Env)
	spec = spec && top.ParseOK
	d.cur.Add(id, top, c.Env, out.Obs)
	d.Rep.Case(d.curName, id, c)
	d.Rep.Evaluations++
	d.Rep.Distinct(string(c.Cred) + fmt.Sprint(c.Env))
	fk := c.Fault
	if i := strings.IndexAny(fk, "#"); i >= 0 {
		fk = fk[:i]
	}
	d.Rep.Count(fmt.Sprintf("%s:%s:%s", fk, c.Expect, []string{"accept", "reject", "panic"}[out.Obs]))

	// ---- implementation-side oracles ----
	lc := d.lc()
	switch {
	case out.Obs == 2:
		d.Rep.Fail(lc+"-panic", fmt.Sprintf("VerifyProof panicked (%s; fault %q): %s", c.Scenario, c.Fault, out.Msg), c)
	case out.Obs == 0 && !spec:
		d.Rep.Fail(lc+"-accepts-without-"+firstFalse(clauses),
			fmt.Sprintf("VerifyProof accepted although the property's clause(s) %s fail (%s; fault %q)", firstFalse(clauses), c.Scenario, c.Fault), c)
	case out.Obs == 1 && spec:
		d.Rep.Fail(lc+"-rejects-valid",
			fmt.Sprintf("VerifyProof rejected a bundle satisfying every clause (%s; fault %q): %s", c.Scenario, c.Fault, out.Msg), c)
	}
	// an accepted bundle: the resolvers must have been asked about exactly this DID and state,
	// and (BJJ) about exactly the auth claim's nonce
	if out.Obs == 0 && top.Typed != nil && top.Typed.DID != nil && top.Typed.State.Value.Kind == 2 {
		want := top.Typed.DIDStr + "?state=" + HexOf256(top.Typed.State.Value.Z)
		if len(out.DIDCalls) != 1 || out.DIDCalls[0] != want {
			d.Rep.Fail(lc+"-resolver-not-asked-about-state", fmt.Sprintf("accepted, but the DID resolver was asked %v instead of [%s] (%s; fault %q)", out.DIDCalls, want, c.Scenario, c.Fault), c)
		}
		if d.BJJ && top.Typed.Auth != nil && (len(out.Nonces) != 1 || out.Nonces[0] != top.Typed.Auth.nonce()) {
			d.Rep.Fail(lc+"-status-not-asked-about-auth-nonce", fmt.Sprintf("accepted, but the status resolver was asked about %v, auth claim nonce %d (%s; fault %q)", out.Nonces, top.Typed.Auth.nonce(), c.Scenario, c.Fault), c)
		}
	}
	// what the fault catalogue says the property demands
	if c.Expect == "reject" && out.Obs == 0 {
		d.Rep.Fail(lc+"-fault-accepted-"+fk, fmt.Sprintf("faulted bundle accepted (%s; fault %q)", c.Scenario, c.Fault), c)
	}
	bigNonce := strings.Contains(c.Scenario, "nonce-not-float64")
	if c.Expect == "accept" && out.Obs == 1 {
		cls := lc + "-honest-rejected"
		if bigNonce && strings.Contains(out.Msg, "revocation nonce mismatch") {
			// the status entry's uint64 nonce went through interface{} -> float64
			cls = lc + "-honest-rejected-nonce-not-float64"
		}
		d.Rep.Fail(cls, fmt.Sprintf("honest bundle rejected (%s; %q): %s", c.Scenario, c.Fault, out.Msg), c)
	}
	// self-check of the harness: the catalogue and the reference evaluation must agree
	if (c.Expect == "accept") != spec && (c.Expect == "accept" || c.Expect == "reject") && !bigNonce {
		d.Rep.Fail(lc+"-harness-expectation", fmt.Sprintf("catalogue expects %s but the reference evaluation says %v (%s; fault %q; failing: %s)",
			c.Expect, spec, c.Scenario, c.Fault, firstFalse(clauses)), c)
	}
	if d.cur.N() >= d.ShardSize {
		if err := d.Flush(); err != nil {
			return spec, err
		}
	}
	return spec, nil
}

// Replay re-runs the case stored in a replay file.
func (d *Driver) Replay() (*common.Report, error) {
	var rf struct {
		Input Case `json:"input"`
	}
	if err := common.ReadJSON(d.Cfg.Replay, &rf); err != nil {
		return nil, err
	}
	c := rf.Input
	out, spec, err := d.Do(&c)
	if err != nil {
		return nil, err
	}
	fmt.Printf("replay: %s fault=%q expect=%s -> impl=%s (%s) reference=%v\n", c.Scenario, c.Fault, c.Expect,
		[]string{"accept", "reject", "panic"}[out.Obs], out.Msg, spec)
	d.Rep.Sample(map[string]any{"scenario": c.Scenario, "fault": c.Fault, "impl": out.Obs, "msg": out.Msg, "reference": spec})
	return d.Rep, d.Flush()
}
