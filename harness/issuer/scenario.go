package issuer

import (
	"fmt"
	"math/big"
	"math/rand"

	core "github.com/iden3/go-iden3-core/v2"
	"github.com/iden3/go-schema-processor/v2/verifiable"
)

// Params of a synthetic issuance scenario.
type Params struct {
	NClaims   int   // random extra leaves in the claims tree
	Deep      []int // extra leaves sharing that many low path bits with the proved leaf
	NRevoked  int   // random revoked nonces
	RevDeep   []int // revoked nonces sharing that many low bits with the auth nonce
	Genesis   bool  // the proof names the genesis state
	Published *bool // what the DID resolver says about the state (nil = member absent)
	OmitZero  bool  // zero roots are left out of the proof
	AuthNonce uint64
	// KeyPerturb: the auth claim holds coordinates other than the signing key's, and the claims
	// tree, state and DID are built around THAT claim ("" = the real key): x+1, x-1, x-neg
	// (the other sign), y+1, y-1, swap, identity (0,1), order2 (0,-1)
	KeyPerturb string
	RootPos    string // merklized root position of the credential's claim
	// SubjectPos: where the claim carries the subject id: "index" (also for ""), "value", or
	// "none" = the credential has no credentialSubject.id
	SubjectPos string
	Updatable  bool
}

func (p Params) String() string {
	pub := "nil"
	if p.Published != nil {
		pub = fmt.Sprint(*p.Published)
	}
	return fmt.Sprintf("claims=%d deep=%v revoked=%d revdeep=%v genesis=%v published=%s omitzero=%v authnonce=%d rootpos=%s subjectpos=%s upd=%v",
		p.NClaims, p.Deep, p.NRevoked, p.RevDeep, p.Genesis, pub, p.OmitZero, p.AuthNonce, p.RootPos, p.SubjectPos, p.Updatable)
}

// Scenario is an honest issuance plus the material faults are made of.
type Scenario struct {
	Name      string
	P         Params
	Issuer    *Identity
	Attacker  *Identity // an unrelated identity with its own key, trees and DID
	Cred      map[string]any
	Claim     *core.Claim // the credential's core claim
	ClaimAlt  *core.Claim // same credential, version 1: still binds, other hash
	Unrelated *core.Claim // claim of another credential
	Snap      Snapshot
	BJJ       *ProofJ
	SMT       *ProofJ
	Env       Env
	// status answers used by faults
	Revoked       *StatusAnswerJ // a consistent answer in which the auth nonce IS revoked
	AttackerProof *MTPJ          // inclusion proof of the attacker's auth claim in the attacker's tree
	AttackerSMT   *MTPJ          // inclusion proof of the credential's claim in the attacker's tree
	// RevokedMirror (auth nonce N >= 2^63 only): from a tree in which N IS revoked, the genuine
	// non-existence proof of 2^64-N (what a verifier that converts the nonce through int64 and
	// lets the library take the absolute value would check)
	RevokedMirror  *StatusAnswerJ
	OtherIssuer    *StatusAnswerJ // a consistent non-revocation answer built from the attacker's trees
	UnrelatedProof *MTPJ          // inclusion proof of Unrelated (which IS in the issuer's tree)
	UnrelatedSig   string         // the issuer's signature over Unrelated
	AttackerAbsent *MTPJ          // genuine non-existence proof of the attacker's auth claim in the issuer's tree
	NonMember      *MTPJ          // genuine non-existence proof of ClaimAlt's index in the issuer's tree
}

func RandField(rng *rand.Rand) *big.Int { return new(big.Int).Rand(rng, Q) }

func claimHex(c *core.Claim) string {
	h, err := c.Hex()
	if err != nil {
		panic(err)
	}
	return h
}

func flipBit(k *big.Int, d int) *big.Int {
	r := new(big.Int).Set(k)
	if r.Bit(d) == 1 {
		r.SetBit(r, d, 0)
	} else {
		r.SetBit(r, d, 1)
	}
	if r.Cmp(Q) >= 0 { // only possible when a high bit was set
		r.SetBit(r, d, 0)
	}
	return r
}

// addDeep inserts a leaf sharing exactly the d low path bits of k.
func addDeep(id *Identity, rng *rand.Rand, k *big.Int, d int) {
	nk := flipBit(k, d)
	// randomise the bits above d
	hi := new(big.Int).Rand(rng, new(big.Int).Lsh(big.NewInt(1), 200))
	nk.And(nk, new(big.Int).Sub(new(big.Int).Lsh(big.NewInt(1), uint(d+1)), big.NewInt(1)))
	nk.Or(nk, hi.Lsh(hi, uint(d+1)))
	_ = id.AddRaw(nk, RandField(rng)) // ErrEntryIndexAlreadyExists etc. are harmless here
}

// Build creates a scenario.
func Build(rng *rand.Rand, p Params) (*Scenario, error) {
	sc := &Scenario{P: p, Name: p.String()}
	if float64(p.AuthNonce) != float64(uint64(float64(p.AuthNonce))) || uint64(float64(p.AuthNonce)) != p.AuthNonce {
		sc.Name += " nonce-not-float64"
	}
	is, err := NewUnsealedKey(rng, p.AuthNonce, p.KeyPerturb)
	if err != nil {
		return nil, err
	}
	if p.KeyPerturb != "" {
		sc.Name += " auth-claim-key=" + p.KeyPerturb
	}
	att, err := NewUnsealed(rng, uint64(rng.Int63n(1<<53)))
	if err != nil {
		return nil, err
	}
	for i := 0; i < 3; i++ {
		_ = att.AddRaw(RandField(rng), RandField(rng))
	}
	if err := att.Seal(rng); err != nil {
		return nil, err
	}
	sc.Attacker = att
	subject, err := NewUnsealed(rng, 0)
	if err != nil {
		return nil, err
	}
	if err := subject.Seal(rng); err != nil {
		return nil, err
	}
	if !p.Genesis {
		if err := is.Seal(rng); err != nil {
			return nil, err
		}
	}
	// the credential names its issuer; at genesis the DID does not exist yet, so the
	// credential's `issuer` member names another identity (VerifyProof does not relate
	// vc.Issuer to issuerData.id)
	issuerField := att.DID.String()
	if !p.Genesis {
		issuerField = is.DID.String()
	}
	credNonce := uint64(rng.Int63())
	subjectID, subjectPos := subject.DID.String(), "index"
	switch p.SubjectPos {
	case "value":
		subjectPos = "value"
	case "none":
		subjectID = ""
	}
	sc.Cred = NewCredential(rng, issuerField, subjectID, credNonce)
	opts := verifiable.CoreClaimOptions{RevNonce: credNonce, Version: 0, SubjectPosition: subjectPos,
		MerklizedRootPosition: p.RootPos, Updatable: p.Updatable}
	if sc.Claim, err = CoreClaimOf(sc.Cred, opts); err != nil {
		return nil, err
	}
	opts.Version = 1
	if sc.ClaimAlt, err = CoreClaimOf(sc.Cred, opts); err != nil {
		return nil, err
	}
	subject2, err := NewUnsealed(rng, 0)
	if err != nil {
		return nil, err
	}
	if err := subject2.Seal(rng); err != nil {
		return nil, err
	}
	other := NewCredential(rng, issuerField, subject2.DID.String(), credNonce+1) // another subject: another index
	opts.Version = 0
	opts.RevNonce = credNonce + 1
	opts.SubjectPosition = "index" // the other credential always has its own subject in the index
	if sc.Unrelated, err = CoreClaimOf(other, opts); err != nil {
		return nil, err
	}
	// populate the trees
	if err := is.AddClaim(sc.Claim); err != nil {
		return nil, err
	}
	if err := is.AddClaim(sc.Unrelated); err != nil {
		return nil, err
	}
	for i := 0; i < p.NClaims; i++ {
		_ = is.AddRaw(RandField(rng), RandField(rng))
	}
	hi, _, _ := sc.Claim.HiHv()
	ahi, _, _ := is.Auth.HiHv()
	for _, d := range p.Deep {
		addDeep(is, rng, hi, d)
		addDeep(is, rng, ahi, d)
	}
	for i := 0; i < p.NRevoked; i++ {
		n := uint64(rng.Int63())
		if n != p.AuthNonce {
			_ = is.Revoke(n)
		}
	}
	for _, d := range p.RevDeep {
		n := p.AuthNonce ^ (1 << uint(d)) ^ (uint64(rng.Int63()) &^ ((1 << uint(d+1)) - 1))
		if p.AuthNonce >= 1<<63 {
			n |= 1 << 63 // keep the cluster in the upper half as well
		}
		if n != p.AuthNonce && n != -p.AuthNonce {
			_ = is.Revoke(n)
		}
	}
	if p.Genesis {
		if err := is.Seal(rng); err != nil {
			return nil, err
		}
	} else if err := is.Advance(); err != nil {
		return nil, err
	}
	sc.Issuer = is
	sc.Snap = is.State()
	did := is.DID.String()

	authProof, err := is.ClaimsProof(ahi)
	if err != nil {
		return nil, err
	}
	claimProof, err := is.ClaimsProof(hi)
	if err != nil {
		return nil, err
	}
	sig, err := is.Sign(sc.Claim)
	if err != nil {
		return nil, err
	}
	statusURL := "https://status.example/" + did
	sc.BJJ = &ProofJ{Type: string(verifiable.BJJSignatureProofType),
		IssuerData: IssuerDataJ{ID: S(did), State: StateJOf(sc.Snap, p.OmitZero), AuthCoreClaim: S(claimHex(is.Auth)),
			MTP: authProof, CredentialStatus: StatusEntry(statusURL, p.AuthNonce)},
		CoreClaim: S(claimHex(sc.Claim)), Signature: S(sig)}
	sc.SMT = &ProofJ{Type: string(verifiable.Iden3SparseMerkleTreeProofType),
		IssuerData: IssuerDataJ{ID: S(did), State: StateJOf(sc.Snap, p.OmitZero), AuthCoreClaim: S(claimHex(is.Auth)),
			MTP: authProof, CredentialStatus: StatusEntry(statusURL, p.AuthNonce)},
		CoreClaim: S(claimHex(sc.Claim)), MTP: claimProof}
	ans, err := is.RevocationAnswer(p.AuthNonce, p.OmitZero)
	if err != nil {
		return nil, err
	}
	honestDoc := DIDAnswer{DID: did, State: HexOf(sc.Snap.State), Published: p.Published}
	switch rng.Intn(3) {
	case 0: // state info first, keys after it
		honestDoc.VMs = []VMJ{{StateInfo: true, Published: p.Published}, {}, {}}
	case 1: // in the middle
		honestDoc.VMs = []VMJ{{}, {StateInfo: true, Published: p.Published}, {}}
	} // else the default: [key, state info]
	sc.Env = Env{
		DID: []DIDAnswer{honestDoc},
		Reg: []RegEntry{{Type: StatusType, Answer: ans}},
	}
	// material for faults
	if sc.OtherIssuer, err = att.RevocationAnswer(p.AuthNonce, false); err != nil {
		return nil, err
	}
	if err := att.Revoke(p.AuthNonce); err != nil {
		return nil, err
	}
	if sc.Revoked, err = att.RevocationAnswer(p.AuthNonce, false); err != nil {
		return nil, err
	}
	if p.AuthNonce >= 1<<63 {
		for _, d := range p.RevDeep {
			n := p.AuthNonce ^ (1 << uint(d)) ^ (uint64(rng.Int63()) &^ ((1 << uint(d+1)) - 1))
			if n != p.AuthNonce && n != -p.AuthNonce {
				_ = att.Revoke(n)
			}
		}
		if sc.RevokedMirror, err = att.RevocationAnswer(-p.AuthNonce, false); err != nil {
			return nil, err
		}
	}
	aahi, _, _ := att.Auth.HiHv()
	if sc.AttackerProof, err = att.ClaimsProof(aahi); err != nil {
		return nil, err
	}
	if err := att.AddClaim(sc.Claim); err != nil {
		return nil, err
	}
	if sc.AttackerSMT, err = att.ClaimsProof(hi); err != nil {
		return nil, err
	}
	uhi, _, _ := sc.Unrelated.HiHv()
	if sc.UnrelatedProof, err = is.ClaimsProof(uhi); err != nil {
		return nil, err
	}
	if sc.UnrelatedSig, err = is.Sign(sc.Unrelated); err != nil {
		return nil, err
	}
	if sc.AttackerAbsent, err = is.ClaimsProof(aahi); err != nil {
		return nil, err
	}
	althi, _, _ := sc.ClaimAlt.HiHv()
	if sc.NonMember, err = is.ClaimsProof(althi); err != nil {
		return nil, err
	}
	return sc, nil
}

// NewUnsealed creates an identity whose genesis state is not fixed yet.
func NewUnsealed(rng *rand.Rand, authNonce uint64) (*Identity, error) {
	return NewUnsealedKey(rng, authNonce, "")
}

// PerturbKey returns the coordinates the auth claim will hold.
func PerturbKey(x, y *big.Int, kind string) (*big.Int, *big.Int) {
	one := big.NewInt(1)
	mod := func(z *big.Int) *big.Int { return z.Mod(z, Q) }
	switch kind {
	case "x+1":
		return mod(new(big.Int).Add(x, one)), y
	case "x-1":
		return mod(new(big.Int).Sub(x, one)), y
	case "x-neg":
		return mod(new(big.Int).Neg(x)), y
	case "y+1":
		return x, mod(new(big.Int).Add(y, one))
	case "y-1":
		return x, mod(new(big.Int).Sub(y, one))
	case "swap":
		return y, x
	case "identity":
		return big.NewInt(0), big.NewInt(1)
	case "order2":
		return big.NewInt(0), new(big.Int).Sub(Q, one)
	}
	return x, y
}

// KeyPerturbations the C07 generator goes through.
var KeyPerturbations = []string{"x+1", "x-1", "x-neg", "y+1", "y-1", "swap", "identity", "order2"}

// NewUnsealedKey: as NewUnsealed, the auth claim holding perturbed key coordinates.
func NewUnsealedKey(rng *rand.Rand, authNonce uint64, perturb string) (*Identity, error) {
	id := &Identity{SK: RandKey(rng), AuthNonce: authNonce}
	id.PK = id.SK.Public()
	cx, cy := PerturbKey(id.PK.X, id.PK.Y, perturb)
	auth, err := core.NewClaim(core.AuthSchemaHash,
		core.WithIndexDataInts(cx, cy), core.WithRevocationNonce(authNonce))
	if err != nil {
		return nil, err
	}
	id.Auth = auth
	id.Claims, id.Rev, id.Roots = newTree(), newTree(), newTree()
	return id, id.AddClaim(auth)
}

// Seal fixes the genesis state at the current trees and derives the DID from it.
func (id *Identity) Seal(rng *rand.Rand) error {
	st := id.State()
	id.Genesis = st.State
	id.Typ = didType(rng)
	did, err := core.NewDIDFromIdenState(id.Typ, id.Genesis)
	if err != nil {
		return err
	}
	id.DID = did
	id.ID, err = core.IDFromDID(*did)
	return err
}

// CaseOf renders a case from a (possibly faulted) proof and environment.
func (sc *Scenario) CaseOf(kind, fault, expect string, proof *ProofJ, env Env, extra ...*ProofJ) *Case {
	ps := []*ProofJ{}
	if proof != nil {
		ps = append(ps, proof)
	}
	ps = append(ps, extra...)
	b, err := WithProofs(sc.Cred, ps...)
	if err != nil {
		panic(err)
	}
	return &Case{Kind: kind, Scenario: sc.Name, Fault: fault, Expect: expect, Cred: b, Env: env}
}
