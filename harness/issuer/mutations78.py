import subprocess, os, shutil, json, sys, glob
from collections import Counter
X='/tmp/v78x'; H='/tmp/v78h'
ENV=dict(os.environ, GOFLAGS='-mod=mod', GOPROXY='off', GOSUMDB='off', GOTOOLCHAIN='local', CGO_ENABLED='0')
def sh(cmd, cwd=None):
    p=subprocess.run(cmd, shell=True, cwd=cwd, env=ENV, stdout=subprocess.PIPE, stderr=subprocess.STDOUT, text=True)
    return p.returncode, p.stdout
MUTS=[
 ('sig-check-deleted','credential.go','''	valid := publicKey.VerifyPoseidon(claimHash, sig)
	if !valid {''','''	valid := publicKey.VerifyPoseidon(claimHash, sig)
	if false && !valid {''', 'C07'),
 ('genesis-check-deleted','credential.go','''		if !isGenesisState {
			return errors.New("issuer state not published and not genesis")
		}
	}

	err = validateAuthClaimRevocation''','''		if false && !isGenesisState {
			return errors.New("issuer state not published and not genesis")
		}
	}

	err = validateAuthClaimRevocation''','C07'),
 ('genesis-check-deleted-smt','credential.go','''		if !isGenesisState {
			return errors.New("issuer state not published and not genesis")
		}
	}

	// 3. root from proof''','''		if false && !isGenesisState {
			return errors.New("issuer state not published and not genesis")
		}
	}

	// 3. root from proof''','C08'),
 ('nonce-comparison-deleted','credential.go','if credStatus.RevocationNonce != authClaim.GetRevocationNonce() {','if false && credStatus.RevocationNonce != authClaim.GetRevocationNonce() {','C07'),
 ('revoked-branch-deleted','credential_status.go','if revocationStatus.MTP.Existence {','if false && revocationStatus.MTP.Existence {','C07'),
 ('missing-root-as-state','credential_status.go','''	rtrHash := &merkletree.HashZero
	if i.RevocationTreeRoot != nil {''','''	rtrHash, _ := merkletree.NewHashFromHex(*i.State)
	if i.RevocationTreeRoot != nil {''','C07'),
 ('existence-check-deleted-smt(D4)','credential.go','''	if !proof.MTP.Existence {
		return errors.New("merkle tree proof is not a proof of existence")
	}''','','C08'),
 ('issuer-state-check-deleted-smt(D5)','credential.go','''	// 4. claims tree root is the one committed to by the issuer state
	err = validateIssuerState(proof.IssuerData.State)
	if err != nil {
		return err
	}
''','','C08'),
 ('issuer-state-check-deleted-bjj(D5)','credential.go','''	err = validateIssuerState(proof.IssuerData.State)
	if err != nil {
		return err
	}

	issuerDID, err := w3c.ParseDID(proof.IssuerData.ID)
	if err != nil {
		return err
	}

	if proof.IssuerData.State.Value == nil {
		return errors.New("issuer state value is not set")
	}
	issuerStateHash, err := merkletree.NewHashFromHex(*proof.IssuerData.State.Value)
	if err != nil {
		return fmt.Errorf("invalid state formant: %v", err)
	}

	issuerDID.Query = fmt.Sprintf("state=%s", issuerStateHash.Hex())

	didDoc, err := didResolver.Resolve(ctx, issuerDID)
	if err != nil {
		return err
	}

	vm, err := getIden3StateInfo2023FromDIDDocument(didDoc)
	if err != nil {
		return err
	}

	// Published or genesis
	if vm.IdentityState.Published == nil || !*vm.IdentityState.Published {
		var (
			isGenesisState bool
			issuerID       core.ID
		)
		issuerID, err = core.IDFromDID(*issuerDID)
		if err != nil {
			return err
		}
		isGenesisState, err = core.CheckGenesisStateID(issuerID.BigInt(), issuerStateHash.BigInt())
		if err != nil {
			return err
		}
		if !isGenesisState {
			return errors.New("issuer state not published and not genesis")
		}
	}

	err = validateAuthClaimRevocation''','''	issuerDID, err := w3c.ParseDID(proof.IssuerData.ID)
	if err != nil {
		return err
	}

	if proof.IssuerData.State.Value == nil {
		return errors.New("issuer state value is not set")
	}
	issuerStateHash, err := merkletree.NewHashFromHex(*proof.IssuerData.State.Value)
	if err != nil {
		return fmt.Errorf("invalid state formant: %v", err)
	}

	issuerDID.Query = fmt.Sprintf("state=%s", issuerStateHash.Hex())

	didDoc, err := didResolver.Resolve(ctx, issuerDID)
	if err != nil {
		return err
	}

	vm, err := getIden3StateInfo2023FromDIDDocument(didDoc)
	if err != nil {
		return err
	}

	// Published or genesis
	if vm.IdentityState.Published == nil || !*vm.IdentityState.Published {
		var (
			isGenesisState bool
			issuerID       core.ID
		)
		issuerID, err = core.IDFromDID(*issuerDID)
		if err != nil {
			return err
		}
		isGenesisState, err = core.CheckGenesisStateID(issuerID.BigInt(), issuerStateHash.BigInt())
		if err != nil {
			return err
		}
		if !isGenesisState {
			return errors.New("issuer state not published and not genesis")
		}
	}

	err = validateAuthClaimRevocation''','C07'),
 ('auth-inclusion-deleted','credential.go','''	err = verifyAuthClaimInclusion(proof.IssuerData, authClaim)
	if err != nil {
		return err
	}
''','','C07'),
 ('auth-inclusion-existence-flag-ignored','credential.go','''	if !issuerData.MTP.Existence {
		return errors.New("auth claim merkle tree proof is not a proof of existence")
	}''','','C07'),
 ('published-nil-treated-as-published','credential.go','''	if vm.IdentityState.Published == nil || !*vm.IdentityState.Published {
		var (
			isGenesisState bool
			issuerID       core.ID
		)
		issuerID, err = core.IDFromDID(*issuerDID)
		if err != nil {
			return err
		}
		isGenesisState, err = core.CheckGenesisStateID(issuerID.BigInt(), issuerStateHash.BigInt())
		if err != nil {
			return err
		}
		if !isGenesisState {
			return errors.New("issuer state not published and not genesis")
		}
	}

	// 3.''','''	if vm.IdentityState.Published != nil && !*vm.IdentityState.Published {
		var (
			isGenesisState bool
			issuerID       core.ID
		)
		issuerID, err = core.IDFromDID(*issuerDID)
		if err != nil {
			return err
		}
		isGenesisState, err = core.CheckGenesisStateID(issuerID.BigInt(), issuerStateHash.BigInt())
		if err != nil {
			return err
		}
		if !isGenesisState {
			return errors.New("issuer state not published and not genesis")
		}
	}

	// 3.''','C08'),
 ('root-compare-deleted-smt','credential.go','if rootFromProof.BigInt().Cmp(issuerClaimsTreeRoot.BigInt()) != 0 {','if false && rootFromProof.BigInt().Cmp(issuerClaimsTreeRoot.BigInt()) != 0 {','C08'),
 ('nil-check-removed-mtp-smt','credential.go','''	if proof.MTP == nil {
		return errors.New("merkle tree proof is not set")
	}
	if !proof.MTP.Existence {''','''	if !proof.MTP.Existence {''','C08'),
 ('tree-state-compare-ge','credential_status.go','return wantState.Cmp(stateHash.BigInt()) == 0, nil','return wantState.Cmp(stateHash.BigInt()) >= 0, nil','C08'),
 ('status-nonce-through-int64','credential_status.go','revNonce := new(big.Int).SetUint64(credStatus.RevocationNonce)','revNonce := big.NewInt(int64(credStatus.RevocationNonce))','C07'),
 ('binding-check-deleted','credential.go','''	err = vc.verifyCredentialCoreClaim(ctx, coreClaim, verifyConfig.merklizeOptions)
	if err != nil {
		return errors.WithStack(err)
	}''','''	_ = vc.verifyCredentialCoreClaim''','C08'),
]
only=sys.argv[1:] 
shutil.rmtree(H, ignore_errors=True)
sh('mkdir -p %s && cd /verif/harness && tar cf - --exclude=bin --exclude=vharness . | (cd %s && tar xf -)'%(H,H))
gm=open(H+'/go.mod').read().replace('=> /repo','=> '+X)
open(H+'/go.mod','w').write(gm)
for name,fn,old,new,prop in MUTS:
    if only and name not in only and prop not in only: continue
    shutil.rmtree(X, ignore_errors=True)
    sh('cp -r /repo %s'%X)
    p=X+'/verifiable/'+fn
    s=open(p).read()
    if s.count(old)!=1:
        print('MUT',name,'pattern count',s.count(old)); continue
    open(p,'w').write(s.replace(old,new))
    rc,out=sh('cd %s && go build -tags verif ./verifiable/'%X)
    if rc!=0:
        # try fixing unused imports
        print('MUT',name,'does not compile:',out[-400:]); continue
    pk='./cmd/vh-'+prop.lower()
    rc,out=sh('go build -tags verif -o /tmp/v78bin %s'%pk, cwd=H)
    if rc!=0: print('MUT',name,'harness build failed',out[-600:]); continue
    od='/tmp/v78out'; shutil.rmtree(od, ignore_errors=True); os.makedirs(od)
    rc,out=sh('/tmp/v78bin -prop %s -out %s -seed 1 -tier quick'%(prop,od))
    if rc!=0: print('MUT',name,'harness run failed',out[-600:]); continue
    r=json.load(open(od+'/report.json'))
    c=Counter(f['class'] for f in (r['failures'] or []))
    # coq shards: run all, count mismatches
    shards=sorted(glob.glob(od+'/cases_*.v'))
    rc,out=sh("ls cases_*.v | xargs -P 8 -I{} sh -c 'ulimit -s unlimited; coqc -Q /verif/coq GSP {} 2>&1 | tr \"\\n\" \" \"; echo'", cwd=od)
    import re
    mm=0; bad=0
    for line in out.split('\n'):
        m=re.search(r'M = \[(.*?)\]',line)
        if m: mm+=len(re.findall(r'\d+',m.group(1)))
        elif line.strip(): bad+=1
    print('MUT %-40s %s impl-oracle failures=%d classes=%s | coq mismatches=%d shard-errors=%d'%(name,prop,len(r['failures'] or []),dict(c.most_common(4)),mm,bad))
shutil.rmtree(X, ignore_errors=True); shutil.rmtree(H, ignore_errors=True); shutil.rmtree('/tmp/v78out', ignore_errors=True)
try: os.remove('/tmp/v78bin')
except: pass
