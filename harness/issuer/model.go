package issuer

// Projection of a credential + proof onto the inputs of the Coq models
// (coq/Verify/Top78.v, BJJ.v, SMTProof.v), the recorder of primitive calls, the
// reference evaluation of the properties' conjunctions (implementation-side oracle,
// independent of /repo's verification code) and the rendering of case files.

import (
	"encoding/hex"
	"encoding/json"
	"fmt"
	"math/big"
	"sort"
	"strings"

	core "github.com/iden3/go-iden3-core/v2"
	"github.com/iden3/go-iden3-core/v2/w3c"
	"github.com/iden3/go-iden3-crypto/babyjub"
	"github.com/iden3/go-iden3-crypto/constants"
	"github.com/iden3/go-iden3-crypto/poseidon"
	"github.com/iden3/go-merkletree-sql/v2"
	"github.com/iden3/go-schema-processor/v2/verifiable"

	"vharness/coqgen"
)

var Q = constants.Q

// ---------------------------------------------------------------------------
// decoded views
// ---------------------------------------------------------------------------

// Hexf: a *string that should hold a 32-byte hex value. Kind 0 = nil, 1 = does not
// decode, 2 = Z.
type Hexf struct {
	Kind int
	Z    *big.Int
	Raw  *string // the member as it stands in the proof (the Coq model decodes it itself)
}

func hexfOf(s *string) Hexf {
	if s == nil {
		return Hexf{}
	}
	cp := *s
	h, err := merkletree.NewHashFromHex(*s)
	if err != nil {
		return Hexf{Kind: 1, Raw: &cp}
	}
	return Hexf{Kind: 2, Z: h.BigInt(), Raw: &cp}
}

// coqStr renders the raw member for the case file.
func (h Hexf) coqStr(f *coqgen.File) string {
	if h.Raw == nil {
		return "None"
	}
	return "(Some " + f.Str(*h.Raw) + ")"
}

func (h Hexf) orZero() (*big.Int, bool) {
	switch h.Kind {
	case 0:
		return big.NewInt(0), true
	case 2:
		return h.Z, true
	}
	return nil, false
}

type RProof struct {
	Ex     bool
	Sibs   []*big.Int
	HasAux bool
	AuxK   *big.Int // nil = NodeAux.Key is nil
	AuxV   *big.Int
}

func rproofOf(p *merkletree.Proof) *RProof {
	if p == nil {
		return nil
	}
	r := &RProof{Ex: p.Existence}
	for _, s := range p.AllSiblings() {
		r.Sibs = append(r.Sibs, s.BigInt())
	}
	if p.NodeAux != nil {
		r.HasAux = true
		if p.NodeAux.Key != nil {
			r.AuxK = p.NodeAux.Key.BigInt()
		}
		if p.NodeAux.Value != nil {
			r.AuxV = p.NodeAux.Value.BigInt()
		}
	}
	return r
}

// RProofOfJ decodes the JSON shape of a proof (decimal strings) into the model's view.
func RProofOfJ(m *MTPJ) *RProof {
	if m == nil {
		return nil
	}
	r := &RProof{Ex: m.Existence}
	for _, s := range m.Siblings {
		z, _ := new(big.Int).SetString(s, 10)
		r.Sibs = append(r.Sibs, z)
	}
	if m.NodeAux != nil {
		r.HasAux = true
		if m.NodeAux.Key != nil {
			r.AuxK, _ = new(big.Int).SetString(*m.NodeAux.Key, 10)
		}
		if m.NodeAux.Value != nil {
			r.AuxV, _ = new(big.Int).SetString(*m.NodeAux.Value, 10)
		}
	}
	return r
}

func optLimbs(z *big.Int) string { return coqgen.OptLimbs(z) }

func (p *RProof) coq() string {
	var ss []string
	for _, s := range p.Sibs {
		ss = append(ss, coqgen.Limbs(s))
	}
	aux := "None"
	if p.HasAux {
		aux = fmt.Sprintf("(Some (%s, %s))", optLimbs(p.AuxK), optLimbs(p.AuxV))
	}
	return fmt.Sprintf("mkrp_ %s [%s] %s", coqgen.Bool(p.Ex), strings.Join(ss, ";"), aux)
}

type Claim8 [8]*big.Int

func claim8Of(c *core.Claim) *Claim8 {
	var r Claim8
	copy(r[:], c.RawSlotsAsInts())
	return &r
}

func (c *Claim8) coq() string {
	var ss []string
	for _, s := range c {
		ss = append(ss, coqgen.Limbs(s))
	}
	return "mkcl " + strings.Join(ss, " ")
}

func (c *Claim8) nonce() uint64 {
	return new(big.Int).And(c[4], new(big.Int).SetUint64(^uint64(0))).Uint64()
}

// StatusView: issuerData.credentialStatus after JSON decoding.
// Kind 0 = not an object, 1 = object that does not decode as CredentialStatus,
// 2 = object that decodes (Type may be "").
type StatusView struct {
	Kind  int
	Type  string
	Nonce uint64
	// Raw: the object is {"id": string?, "type": string, "revocationNonce": <integer literal>}
	// and Raw is that literal; then the Coq model performs the decode step itself (through
	// the recorded encoding/json round trip of the literal)
	Raw     *big.Int
	RawType string
	// JSON: the status object as it stands in the proof, when every member is representable
	// for the Coq decoder (Top78.decode_cs); then the model decodes the object itself
	JSON *JV
}

// JV is a JSON value as Top78.jv tells values apart.
type JV struct {
	Kind string // null | str | num | obj | bad
	S    string
	N    *big.Int
	O    []JKV
}
type JKV struct {
	K string
	V *JV
}

var statusFields = []string{"id", "type", "revocationNonce", "statusIssuer"}

// jvOf converts a value decoded with UseNumber; ok=false if it cannot be represented
// faithfully (a number that is not a plain non-negative integer literal, a key that matches a
// field name only case-insensitively, too deep).
func jvOf(v any, depth int) (*JV, bool) {
	if depth > 6 {
		return nil, false
	}
	switch x := v.(type) {
	case nil:
		return &JV{Kind: "null"}, true
	case string:
		return &JV{Kind: "str", S: x}, true
	case json.Number:
		for _, c := range string(x) {
			if c < '0' || c > '9' {
				return nil, false
			}
		}
		z, ok := new(big.Int).SetString(string(x), 10)
		if !ok {
			return nil, false
		}
		return &JV{Kind: "num", N: z}, true
	case map[string]any:
		o := &JV{Kind: "obj"}
		for _, k := range sortedKeys(x) {
			for _, f := range statusFields {
				if strings.EqualFold(k, f) && k != f {
					return nil, false
				}
			}
			c, ok := jvOf(x[k], depth+1)
			if !ok {
				return nil, false
			}
			o.O = append(o.O, JKV{k, c})
		}
		return o, true
	}
	return &JV{Kind: "bad"}, true
}

func (j *JV) nums(out *[]*big.Int) {
	if j.Kind == "num" {
		*out = append(*out, j.N)
	}
	for _, kv := range j.O {
		kv.V.nums(out)
	}
}

func (j *JV) coq(f *coqgen.File) string {
	switch j.Kind {
	case "null":
		return "RJNull"
	case "str":
		return "RJStr " + f.Str(j.S)
	case "num":
		return "RJNum " + coqgen.Limbs(j.N)
	case "obj":
		return "RJObj " + j.members(f)
	}
	return "RJBad"
}

func (j *JV) members(f *coqgen.File) string {
	var ms []string
	for _, kv := range j.O {
		ms = append(ms, fmt.Sprintf("(%s, %s)", f.Str(kv.K), kv.V.coq(f)))
	}
	return "[" + strings.Join(ms, "; ") + "]"
}

type StateView struct{ Value, CTR, RTR, ROR Hexf }

func stateViewOf(s verifiable.State) StateView {
	return StateView{hexfOf(s.Value), hexfOf(s.ClaimsTreeRoot), hexfOf(s.RevocationTreeRoot), hexfOf(s.RootOfRoots)}
}

func (s StateView) coq(f *coqgen.File) string {
	return fmt.Sprintf("mkst_ %s %s %s %s", s.Value.coqStr(f), s.CTR.coqStr(f), s.RTR.coqStr(f), s.ROR.coqStr(f))
}

// View is the decoded typed proof (BJJ: Auth, Sig, AuthMTP, Status; SMT: MTP).
type View struct {
	BJJ    bool
	Claim  *Claim8
	Auth   *Claim8 // nil = authCoreClaim does not decode
	Sig    *big.Int
	SigObj *babyjub.Signature
	MTP    *RProof // BJJ: issuerData.mtp; SMT: mtp
	State  StateView
	DIDStr string
	DID    *w3c.DID // nil = ParseDID fails
	Status StatusView
}

// Top mirrors Top78.vp_input.
type Top struct {
	ParseOK bool // the credential JSON decoded
	Found   bool
	ClaimOK bool
	Binding bool
	Typed   *View
	VC      *verifiable.W3CCredential
	IsType  bool  // this proof's type is the requested one
	All     []Top // every proof of the credential, in order (set on the selected entry only)
}

// Project decodes credential JSON and re-does, with the library's own decoders, the
// steps of VerifyProof that precede the proof-specific verifier - for EVERY proof of the
// credential (Top.All, in order); the returned Top is the entry the property speaks about:
// the first proof of the requested type.
func Project(credJSON []byte, bjj bool) Top {
	var vc verifiable.W3CCredential
	if err := json.Unmarshal(credJSON, &vc); err != nil {
		// the model represents an undecodable credential as an undecodable typed proof
		t := Top{Found: true, ClaimOK: true, Binding: true, IsType: true}
		t.All = []Top{t}
		return t
	}
	pt := verifiable.Iden3SparseMerkleTreeProofType
	if bjj {
		pt = verifiable.BJJSignatureProofType
	}
	var all []Top
	for i, p := range vc.Proof {
		if p.ProofType() != pt {
			all = append(all, Top{ParseOK: true})
			continue
		}
		all = append(all, projectProof(credJSON, &vc, p, i, bjj))
	}
	sel := Top{ParseOK: true, VC: &vc}
	for _, e := range all {
		if e.IsType {
			sel = e
			break
		}
	}
	sel.All = all
	return sel
}

// projectProof: steps 2-4 of VerifyProof for the proof at position idx.
func projectProof(credJSON []byte, vc *verifiable.W3CCredential, cp verifiable.CredentialProof, idx int, bjj bool) (t Top) {
	t = Top{ParseOK: true, VC: vc, IsType: true, Found: true}
	defer func() {
		if r := recover(); r != nil {
			// a decoder panicked: the implementation run will show the same; leave Typed nil
			t.Typed = nil
		}
	}()
	pt := verifiable.Iden3SparseMerkleTreeProofType
	if bjj {
		pt = verifiable.BJJSignatureProofType
	}
	cc, err := cp.GetCoreClaim()
	if err != nil {
		return t
	}
	t.ClaimOK = true
	if err := vc.VerifVerifyCoreClaim(bg, cc, MerklizeOpts()); err != nil {
		return t
	}
	t.Binding = true
	raw, err := json.Marshal(cp)
	if err != nil {
		return t
	}
	v := &View{BJJ: bjj, Claim: claim8Of(cc)}
	var idata verifiable.IssuerData
	if bjj {
		var p verifiable.BJJSignatureProof2021
		if err := json.Unmarshal(raw, &p); err != nil {
			return t
		}
		idata = p.IssuerData
		var ac core.Claim
		if err := ac.FromHex(p.IssuerData.AuthCoreClaim); err == nil {
			v.Auth = claim8Of(&ac)
		}
		if sb, err := hex.DecodeString(p.Signature); err == nil {
			var buf [64]byte
			copy(buf[:], sb)
			if so, err := new(babyjub.Signature).Decompress(buf); err == nil && so != nil {
				v.Sig = new(big.Int).SetBytes(buf[:])
				v.SigObj = so
			}
		}
		v.MTP = rproofOf(p.IssuerData.MTP)
		v.Status = statusViewOf(p.IssuerData.CredentialStatus)
		v.Status.Raw, v.Status.RawType = rawNonceLiteral(credJSON, string(pt), idx)
		v.Status.JSON = rawStatusJSON(credJSON, idx)
	} else {
		var p verifiable.Iden3SparseMerkleTreeProof
		if err := json.Unmarshal(raw, &p); err != nil {
			return t
		}
		idata = p.IssuerData
		v.MTP = rproofOf(p.MTP)
	}
	v.State = stateViewOf(idata.State)
	v.DIDStr = idata.ID
	if d, err := w3c.ParseDID(idata.ID); err == nil {
		v.DID = d
		// DIDs are identified by their form without the query (the verifier overwrites the
		// query with state=..., the stub resolver is keyed the same way)
		v.DIDStr, _ = SplitDID(d)
	}
	t.Typed = v
	return t
}

// rawNonceLiteral finds issuerData.credentialStatus of the first proof of the given type in
// the credential text and returns its revocationNonce when the status is an object with only
// a string id, a string type and a non-negative integer literal as nonce.
func rawNonceLiteral(credJSON []byte, proofType string, idx int) (*big.Int, string) {
	dec := json.NewDecoder(strings.NewReader(string(credJSON)))
	dec.UseNumber()
	var doc map[string]any
	if err := dec.Decode(&doc); err != nil {
		return nil, ""
	}
	var proofs []any
	switch p := doc["proof"].(type) {
	case []any:
		proofs = p
	case map[string]any:
		proofs = []any{p}
	}
	for i, pi := range proofs {
		po, ok := pi.(map[string]any)
		if i != idx || !ok || po["type"] != proofType {
			continue
		}
		idata, _ := po["issuerData"].(map[string]any)
		cs, ok := idata["credentialStatus"].(map[string]any)
		if !ok {
			return nil, ""
		}
		for k, v := range cs {
			switch k {
			case "id", "type":
				if _, ok := v.(string); !ok {
					return nil, ""
				}
			case "revocationNonce":
			default:
				return nil, ""
			}
		}
		if _, ok := cs["type"].(string); !ok {
			return nil, ""
		}
		num, ok := cs["revocationNonce"].(json.Number)
		if !ok {
			return nil, ""
		}
		for _, c := range string(num) {
			if c < '0' || c > '9' {
				return nil, ""
			}
		}
		z, ok := new(big.Int).SetString(string(num), 10)
		if !ok {
			return nil, ""
		}
		return z, cs["type"].(string)
	}
	return nil, ""
}

// rawStatusJSON finds issuerData.credentialStatus of the proof at position idx in the
// credential text and converts it for the Coq decoder (nil if it is not an object or not
// representable).
func rawStatusJSON(credJSON []byte, idx int) *JV {
	dec := json.NewDecoder(strings.NewReader(string(credJSON)))
	dec.UseNumber()
	var doc map[string]any
	if err := dec.Decode(&doc); err != nil {
		return nil
	}
	var proofs []any
	switch p := doc["proof"].(type) {
	case []any:
		proofs = p
	case map[string]any:
		proofs = []any{p}
	}
	if idx >= len(proofs) {
		return nil
	}
	po, _ := proofs[idx].(map[string]any)
	idata, _ := po["issuerData"].(map[string]any)
	cs, ok := idata["credentialStatus"].(map[string]any)
	if !ok {
		return nil
	}
	j, ok := jvOf(cs, 0)
	if !ok {
		return nil
	}
	return j
}

func statusViewOf(cs any) StatusView {
	obj, ok := cs.(map[string]any)
	if !ok {
		return StatusView{}
	}
	b, err := json.Marshal(obj)
	if err != nil {
		return StatusView{Kind: 1}
	}
	var typed verifiable.CredentialStatus
	if err := json.Unmarshal(b, &typed); err != nil {
		return StatusView{Kind: 1}
	}
	return StatusView{Kind: 2, Type: string(typed.Type), Nonce: typed.RevocationNonce}
}

// AnswerView is a status resolver's answer as the verifier sees it.
type AnswerView struct {
	State StateView // State.Value = issuer.state
	MTP   *RProof
}

// answerViewOf decodes a scripted answer the way the stub resolver delivers it
// (nil = the resolver returns an error).
func answerViewOf(a *StatusAnswerJ) *AnswerView {
	if a == nil || a.Err {
		return nil
	}
	b, err := json.Marshal(map[string]any{"issuer": a.Issuer, "mtp": a.MTP})
	if err != nil {
		return nil
	}
	var out verifiable.RevocationStatus
	if err := json.Unmarshal(b, &out); err != nil {
		return nil
	}
	return &AnswerView{
		State: StateView{hexfOf(out.Issuer.State), hexfOf(out.Issuer.ClaimsTreeRoot),
			hexfOf(out.Issuer.RevocationTreeRoot), hexfOf(out.Issuer.RootOfRoots)},
		MTP: rproofOf(&out.MTP)}
}

// ---------------------------------------------------------------------------
// recorder of primitive calls
// ---------------------------------------------------------------------------

type posCall struct {
	in  []*big.Int
	out *big.Int
}
type sigCall struct {
	x, y, m, s *big.Int
	ok         bool
}
type iddCall struct {
	did   int
	state *big.Int
	id    *big.Int // nil = error
}
type genCall struct {
	id, state *big.Int
	res       *bool // nil = error
}

type jrtCall struct {
	n   *big.Int
	out *big.Int // nil = the round trip fails
}

type Recorder struct {
	jrt  map[string]jrtCall
	pos  map[string]posCall
	sig  map[string]sigCall
	idd  map[string]iddCall
	gen  map[string]genCall
	dids map[string]int
}

func NewRecorder() *Recorder {
	return &Recorder{jrt: map[string]jrtCall{}, pos: map[string]posCall{}, sig: map[string]sigCall{}, idd: map[string]iddCall{},
		gen: map[string]genCall{}, dids: map[string]int{}}
}

func zkey(in ...*big.Int) string {
	var sb strings.Builder
	for _, x := range in {
		sb.WriteString(x.Text(36))
		sb.WriteByte(',')
	}
	return sb.String()
}

// H is poseidon.Hash on inputs the library accepts (all < Q); nil otherwise.
func (r *Recorder) H(in ...*big.Int) *big.Int {
	for _, x := range in {
		if x == nil || x.Sign() < 0 || x.Cmp(Q) >= 0 {
			return nil
		}
	}
	k := zkey(in...)
	if c, ok := r.pos[k]; ok {
		return c.out
	}
	out, err := poseidon.Hash(in)
	if err != nil {
		panic(fmt.Sprintf("poseidon refused in-field inputs: %v", err))
	}
	cp := make([]*big.Int, len(in))
	for i, x := range in {
		cp[i] = new(big.Int).Set(x)
	}
	r.pos[k] = posCall{in: cp, out: out}
	return out
}

// JSONRoundTrip is what encoding/json does to an integer literal that is decoded into an
// interface{} (float64), re-encoded and decoded into a uint64; recorded.
func (r *Recorder) JSONRoundTrip(n *big.Int) *big.Int {
	k := n.String()
	if c, ok := r.jrt[k]; ok {
		return c.out
	}
	var out *big.Int
	var v any
	if err := json.Unmarshal([]byte(k), &v); err == nil {
		if b, err := json.Marshal(v); err == nil {
			var u uint64
			if err := json.Unmarshal(b, &u); err == nil {
				out = new(big.Int).SetUint64(u)
			}
		}
	}
	r.jrt[k] = jrtCall{n, out}
	return out
}

// DIDNum numbers the distinct DID strings of a shard.
func (r *Recorder) DIDNum(s string) int {
	if n, ok := r.dids[s]; ok {
		return n
	}
	n := len(r.dids)
	r.dids[s] = n
	return n
}

// SigVerify is PublicKey{x,y}.VerifyPoseidon(m, sig), recorded.
func (r *Recorder) SigVerify(x, y, m, sigZ *big.Int, sig *babyjub.Signature) bool {
	k := zkey(x, y, m, sigZ)
	if c, ok := r.sig[k]; ok {
		return c.ok
	}
	pk := babyjub.PublicKey{X: x, Y: y}
	ok := func() (ok bool) {
		defer func() {
			if recover() != nil {
				ok = false
			}
		}()
		return pk.VerifyPoseidon(m, sig)
	}()
	r.sig[k] = sigCall{x, y, m, sigZ, ok}
	return ok
}

// IDFromDID is core.IDFromDID of the DID carrying ?state=<hex of state>, recorded.
func (r *Recorder) IDFromDID(did *w3c.DID, didStr string, state *big.Int) *big.Int {
	n := r.DIDNum(didStr)
	k := fmt.Sprintf("%d,%s", n, state.Text(36))
	if c, ok := r.idd[k]; ok {
		return c.id
	}
	d := *did
	d.Query = "state=" + HexOf256(state)
	var out *big.Int
	if id, err := core.IDFromDID(d); err == nil {
		out = id.BigInt()
	}
	r.idd[k] = iddCall{n, state, out}
	return out
}

// HexOf256 renders any 0 <= z < 2^256 as Hash.Hex() does.
func HexOf256(z *big.Int) string {
	var h merkletree.Hash
	b := z.Bytes() // big-endian
	for i := 0; i < len(b) && i < 32; i++ {
		h[i] = b[len(b)-1-i]
	}
	return h.Hex()
}

// GenesisCheck is core.CheckGenesisStateID, recorded (nil = error).
func (r *Recorder) GenesisCheck(id, state *big.Int) *bool {
	k := zkey(id, state)
	if c, ok := r.gen[k]; ok {
		return c.res
	}
	var res *bool
	func() {
		defer func() { _ = recover() }()
		if ok, err := core.CheckGenesisStateID(id, state); err == nil {
			res = &ok
		}
	}()
	r.gen[k] = genCall{id, state, res}
	return res
}

func bitOf(k *big.Int, lvl int) bool { return k.Bit(lvl) == 1 }

// Root re-computes merkletree.RootFromProof from recorded primitive hashes.
// mode: 0 = as the proof says, 1 = force existence, 2 = force non-existence.
// nil = the library would answer an error.
func (r *Recorder) Root(p *RProof, k, v *big.Int, mode int) *big.Int {
	if p == nil || k.Cmp(Q) >= 0 || v.Cmp(Q) >= 0 {
		return nil
	}
	if p.HasAux && (p.AuxK == nil || p.AuxV == nil) {
		// rootFromMerkleTreeProof refuses a proof with an incomplete auxiliary node; the hash
		// of a complete one is recorded below
		return nil
	}
	ex := p.Ex
	if mode == 1 {
		ex = true
	} else if mode == 2 {
		ex = false
	}
	var mid *big.Int
	switch {
	case ex:
		mid = r.H(k, v, big.NewInt(1))
	case !p.HasAux:
		mid = big.NewInt(0)
	default:
		mid = r.H(p.AuxK, p.AuxV, big.NewInt(1)) // recorded even when k = aux key
		if k.Cmp(p.AuxK) == 0 {
			return nil
		}
	}
	if mid == nil {
		return nil
	}
	bad := len(p.Sibs) > 240
	for lvl := len(p.Sibs) - 1; lvl >= 0; lvl-- {
		s := p.Sibs[lvl]
		if bitOf(k, lvl) {
			mid = r.H(s, mid)
		} else {
			mid = r.H(mid, s)
		}
		if mid == nil {
			return nil
		}
	}
	if bad {
		return nil
	}
	return mid
}

// recordAll makes every primitive call a proof can give rise to (so that the Coq-side
// closure check passes whatever path the model takes).
func (r *Recorder) recordMTP(p *RProof, k, v *big.Int) {
	if p == nil || k == nil || v == nil {
		return
	}
	r.Root(p, k, v, 1)
	r.Root(p, k, v, 2)
}

func (r *Recorder) claimHiHv(c *Claim8) (hi, hv *big.Int) {
	return r.H(c[0], c[1], c[2], c[3]), r.H(c[4], c[5], c[6], c[7])
}

// stateOK: Poseidon[ctr, rtr, ror] = value, absent roots = 0.
func (r *Recorder) stateOK(s StateView) bool {
	// the hash of the three numbers is recorded whenever they exist (closure check), but
	// counts only if every given root is well-formed hex
	num := func(h Hexf) *big.Int {
		if h.Kind == 2 {
			return h.Z
		}
		return big.NewInt(0)
	}
	h := r.H(num(s.CTR), num(s.RTR), num(s.ROR))
	wellFormed := s.CTR.Kind != 1 && s.RTR.Kind != 1 && s.ROR.Kind != 1
	return wellFormed && s.Value.Kind == 2 && h != nil && h.Cmp(s.Value.Z) == 0
}

// publishedOrGenesis evaluates the DID clause against the resolver script.
func (r *Recorder) publishedOrGenesis(v *View, env Env) bool {
	if v.DID == nil || v.State.Value.Kind != 2 {
		return false
	}
	st := v.State.Value.Z
	// primitive calls recorded regardless of the resolver's answer
	id := r.IDFromDID(v.DID, v.DIDStr, st)
	var gen *bool
	if id != nil {
		gen = r.GenesisCheck(id, st)
	}
	base, _ := SplitDID(v.DID)
	for _, a := range env.DID {
		if a.DID == base && a.State == HexOf256(st) {
			if a.Err {
				return false
			}
			// the FIRST Iden3StateInfo2023 method decides
			for _, m := range a.Methods() {
				if m.StateInfo {
					if m.Published != nil && *m.Published {
						return true
					}
					return id != nil && gen != nil && *gen
				}
			}
			return false
		}
	}
	return false
}

// statusOK: the nonce matches the auth claim and the status validates as non-revoked.
func (r *Recorder) statusOK(v *View, env Env) bool {
	// record the calls for every registered answer (closure)
	for _, e := range env.Reg {
		if av := answerViewOf(e.Answer); av != nil {
			r.stateOK(av.State)
			if v.Status.Kind == 2 {
				r.recordMTP(av.MTP, new(big.Int).SetUint64(v.Status.Nonce), big.NewInt(0))
			}
		}
	}
	if v.Status.Kind != 2 || v.Status.Type == "" || v.Auth == nil {
		return false
	}
	if v.Status.Nonce != v.Auth.nonce() {
		return false
	}
	var av *AnswerView
	found := false
	for _, e := range env.Reg {
		if e.Type == v.Status.Type {
			found = true
			av = answerViewOf(e.Answer)
		}
	}
	if !found || av == nil {
		return false
	}
	if !r.stateOK(av.State) {
		return false
	}
	rr, ok := av.State.RTR.orZero()
	if !ok {
		return false
	}
	root := r.Root(av.MTP, new(big.Int).SetUint64(v.Status.Nonce), big.NewInt(0), 0)
	return root != nil && root.Cmp(rr) == 0 && !av.MTP.Ex
}

// Spec evaluates the property's conjunction on a decoded bundle (every clause is
// evaluated, none short-circuits, so all primitive calls are recorded).
// The map says which clauses hold.
func (r *Recorder) Spec(t Top, env Env) (bool, map[string]bool) {
	cl := map[string]bool{"found": t.Found, "claim": t.ClaimOK, "binding": t.Binding, "typed": t.Typed != nil}
	if t.Typed == nil {
		return false, cl
	}
	v := t.Typed
	hi, hv := r.claimHiHv(v.Claim)
	if v.BJJ {
		msg := r.H(hi, hv)
		cl["signature"] = false
		if v.Auth != nil && v.Sig != nil && msg != nil {
			cl["signature"] = r.SigVerify(v.Auth[2], v.Auth[3], msg, v.Sig, v.SigObj)
		}
		cl["inclusion"] = false
		if v.Auth != nil {
			ahi, ahv := r.claimHiHv(v.Auth)
			r.recordMTP(v.MTP, ahi, ahv)
			if v.MTP != nil && v.MTP.Ex && v.State.CTR.Kind == 2 && ahi != nil && ahv != nil {
				root := r.Root(v.MTP, ahi, ahv, 0)
				cl["inclusion"] = root != nil && root.Cmp(v.State.CTR.Z) == 0
			}
		}
		cl["status"] = r.statusOK(v, env)
	} else {
		r.recordMTP(v.MTP, hi, hv)
		cl["inclusion"] = false
		if v.MTP != nil && v.MTP.Ex && v.State.CTR.Kind == 2 && hi != nil && hv != nil {
			root := r.Root(v.MTP, hi, hv, 0)
			cl["inclusion"] = root != nil && root.Cmp(v.State.CTR.Z) == 0
		}
	}
	cl["state"] = r.stateOK(v.State)
	cl["published-or-genesis"] = r.publishedOrGenesis(v, env)
	all := true
	for _, b := range cl {
		all = all && b
	}
	return all, cl
}

// ---------------------------------------------------------------------------
// Coq rendering
// ---------------------------------------------------------------------------

// Shard accumulates the cases of one case file.
type Shard struct {
	F     *coqgen.File
	Rec   *Recorder
	BJJ   bool
	defs  map[string]string
	lines []string
	cases []string
}

func NewShard(bjj bool) *Shard {
	return &Shard{F: coqgen.NewFile("From GSP Require Import SMT.Model Verify.Status Verify.Issuer Verify.BJJ Verify.SMTProof Verify.Top78 Verify.Run78."),
		Rec: NewRecorder(), BJJ: bjj, defs: map[string]string{}}
}

func (s *Shard) N() int { return len(s.cases) }

func (s *Shard) def(prefix, text string) string {
	if n, ok := s.defs[text]; ok {
		return n
	}
	n := fmt.Sprintf("%s%d", prefix, len(s.defs))
	s.defs[text] = n
	s.lines = append(s.lines, fmt.Sprintf("Definition %s := %s.", n, text))
	return n
}

func optOf(name string, present bool) string {
	if !present {
		return "None"
	}
	return "(Some " + name + ")"
}

func (s *Shard) envCoq(env Env) string {
	var ds []string
	for _, a := range env.DID {
		h := hexfOf(&a.State)
		if h.Kind != 2 {
			continue // a state that is not 32 bytes of hex can never be asked for
		}
		ans := "DErr"
		if !a.Err {
			var vms []string
			for _, m := range a.Methods() {
				switch {
				case !m.StateInfo:
					vms = append(vms, "VMOther")
				case m.Published == nil:
					vms = append(vms, "VMStateInfo None")
				default:
					vms = append(vms, fmt.Sprintf("VMStateInfo (Some %s)", coqgen.Bool(*m.Published)))
				}
			}
			ans = "(did_doc [" + strings.Join(vms, ";") + "])"
		}
		ds = append(ds, fmt.Sprintf("((%d, %s), %s)", s.Rec.DIDNum(a.DID), coqgen.Limbs(h.Z), ans))
	}
	var rs []string
	for _, e := range env.Reg {
		av := answerViewOf(e.Answer)
		a := "None"
		if av != nil {
			p := s.def("p", av.MTP.coq())
			a = "(Some " + s.def("an", fmt.Sprintf("mkans_ %s %s %s %s %s", av.State.Value.coqStr(s.F), av.State.CTR.coqStr(s.F),
				av.State.RTR.coqStr(s.F), av.State.ROR.coqStr(s.F), p)) + ")"
		}
		rs = append(rs, fmt.Sprintf("(%s, %s)", s.F.Str(e.Type), a))
	}
	return s.def("e", fmt.Sprintf("mkenv [%s] [%s]", strings.Join(ds, ";"), strings.Join(rs, ";")))
}

// Add renders one case (the credential's whole proof list). obs: 0 accept, 1 reject, 2 panic.
func (s *Shard) Add(id int, t Top, env Env, obs int) {
	envName := s.envCoq(env)
	var entries []string
	for _, e := range t.All {
		if !e.IsType {
			entries = append(entries, "pe false true true None")
			continue
		}
		entries = append(entries, fmt.Sprintf("pe true %s %s %s", coqgen.Bool(e.ClaimOK), coqgen.Bool(e.Binding), s.bundleCoq(e.Typed)))
	}
	ctor := "c8"
	if s.BJJ {
		ctor = "c7"
	}
	s.cases = append(s.cases, fmt.Sprintf("%s %d [%s] %s %d", ctor, id, strings.Join(entries, "; "), envName, obs))
}

// bundleCoq renders an option bundle.
func (s *Shard) bundleCoq(v *View) string {
	if v == nil {
		return "None"
	}
	cl := s.def("cl", v.Claim.coq())
	mtp := "None"
	if v.MTP != nil {
		mtp = optOf(s.def("p", v.MTP.coq()), true)
	}
	st := s.def("st", v.State.coq(s.F))
	did := "None"
	if v.DID != nil {
		did = fmt.Sprintf("(Some %d)", s.Rec.DIDNum(v.DIDStr))
	}
	if !s.BJJ {
		return optOf(s.def("b", fmt.Sprintf("mksmt_ %s %s %s %s", cl, mtp, st, did)), true)
	}
	auth := "None"
	if v.Auth != nil {
		auth = optOf(s.def("cl", v.Auth.coq()), true)
	}
	sig := optLimbs(v.Sig)
	status := "SOther"
	switch {
	case v.Status.JSON != nil:
		var ns []*big.Int
		v.Status.JSON.nums(&ns)
		for _, n := range ns {
			s.Rec.JSONRoundTrip(n)
		}
		status = "(SJson " + v.Status.JSON.members(s.F) + ")"
	case v.Status.Raw != nil:
		s.Rec.JSONRoundTrip(v.Status.Raw)
		status = fmt.Sprintf("(SRaw %s %s)", s.F.Str(v.Status.RawType), coqgen.Limbs(v.Status.Raw))
	case v.Status.Kind == 1:
		status = "(SObj None)"
	case v.Status.Kind == 2:
		status = fmt.Sprintf("(SObj (Some (%s, %s)))", s.F.Str(v.Status.Type),
			coqgen.Limbs(new(big.Int).SetUint64(v.Status.Nonce)))
	}
	return optOf(s.def("b", fmt.Sprintf("mkbjj_ T_ %s %s %s %s %s %s %s", cl, auth, sig, mtp, st, did, status)), true)
}

func sortedKeys[V any](m map[string]V) []string {
	var ks []string
	for k := range m {
		ks = append(ks, k)
	}
	sort.Strings(ks)
	return ks
}

func (s *Shard) tablesCoq() string {
	r := s.Rec
	var pos, sg, idd, gen, jrt []string
	for _, k := range sortedKeys(r.jrt) {
		c := r.jrt[k]
		jrt = append(jrt, fmt.Sprintf("(%s, %s)", coqgen.Limbs(c.n), optLimbs(c.out)))
	}
	for _, k := range sortedKeys(r.pos) {
		c := r.pos[k]
		var in []string
		for _, x := range c.in {
			in = append(in, coqgen.Limbs(x))
		}
		pos = append(pos, fmt.Sprintf("([%s], %s)", strings.Join(in, ";"), coqgen.Limbs(c.out)))
	}
	for _, k := range sortedKeys(r.sig) {
		c := r.sig[k]
		sg = append(sg, fmt.Sprintf("((%s, %s, %s, %s), %s)", coqgen.Limbs(c.x), coqgen.Limbs(c.y),
			coqgen.Limbs(c.m), coqgen.Limbs(c.s), coqgen.Bool(c.ok)))
	}
	for _, k := range sortedKeys(r.idd) {
		c := r.idd[k]
		idd = append(idd, fmt.Sprintf("((%d, %s), %s)", c.did, coqgen.Limbs(c.state), optLimbs(c.id)))
	}
	for _, k := range sortedKeys(r.gen) {
		c := r.gen[k]
		res := "None"
		if c.res != nil {
			res = "(Some " + coqgen.Bool(*c.res) + ")"
		}
		gen = append(gen, fmt.Sprintf("((%s, %s), %s)", coqgen.Limbs(c.id), coqgen.Limbs(c.state), res))
	}
	return fmt.Sprintf("mktab %s\n %s\n %s\n %s\n %s\n %s", coqgen.Limbs(Q), coqgen.List(pos), coqgen.List(sg),
		coqgen.List(idd), coqgen.List(gen), coqgen.List(jrt))
}

// Write emits the case file.
func (s *Shard) Write(path string) error {
	s.F.Add("Definition T_ := " + s.tablesCoq() + ".")
	for _, l := range s.lines {
		s.F.Add(l)
	}
	if s.BJJ {
		s.F.Add("Definition cases_ : list case7 := " + coqgen.List(s.cases) + ".")
		s.F.Add("Definition M := Eval vm_compute in mismatches7 T_ cases_.")
	} else {
		s.F.Add("Definition cases_ : list case8 := " + coqgen.List(s.cases) + ".")
		s.F.Add("Definition M := Eval vm_compute in mismatches8 T_ cases_.")
	}
	s.F.Add("Print M.")
	return s.F.Write(path)
}
