// Package issuer: synthetic iden3 issuers for the proof-verification properties
// (C07 BJJ signature proofs, C08 sparse-Merkle-tree proofs).
//
// An Identity owns a BabyJubJub key, an auth claim, and the three trees of the iden3
// identity state (claims, revocation, roots) kept in go-merkletree-sql memory storage.
// Its DID is derived from its genesis state.  It issues W3C credentials (offline: the
// contexts come from harness/ctxload), signs their core claims, produces inclusion
// proofs and revocation-status answers.  The stub DID resolver and stub status resolver
// play scripted answers and are handed to VerifyProof through its public parameters.
package issuer

import (
	"context"
	"encoding/hex"
	"encoding/json"
	"fmt"
	"math/big"
	"math/rand"
	"strings"

	core "github.com/iden3/go-iden3-core/v2"
	"github.com/iden3/go-iden3-core/v2/w3c"
	"github.com/iden3/go-iden3-crypto/babyjub"
	"github.com/iden3/go-iden3-crypto/poseidon"
	"github.com/iden3/go-merkletree-sql/v2"
	"github.com/iden3/go-merkletree-sql/v2/db/memory"
	"github.com/iden3/go-schema-processor/v2/merklize"
	"github.com/iden3/go-schema-processor/v2/verifiable"

	"vharness/ctxload"
)

const MaxLevels = 40

var bg = context.Background()

// Identity is a synthetic issuer (or holder).
type Identity struct {
	SK        babyjub.PrivateKey
	PK        *babyjub.PublicKey
	Auth      *core.Claim
	AuthNonce uint64
	Claims    *merkletree.MerkleTree
	Rev       *merkletree.MerkleTree
	Roots     *merkletree.MerkleTree
	Genesis   *big.Int
	DID       *w3c.DID
	ID        core.ID
	Typ       [2]byte
	Revoked   []uint64
	NClaims   int // leaves of the claims tree
}

func newTree() *merkletree.MerkleTree {
	t, err := merkletree.NewMerkleTree(bg, memory.NewMemoryStorage(), MaxLevels)
	if err != nil {
		panic(err)
	}
	return t
}

// RandKey draws a BabyJubJub private key from rng (never from crypto/rand).
func RandKey(rng *rand.Rand) babyjub.PrivateKey {
	var k babyjub.PrivateKey
	for i := range k {
		k[i] = byte(rng.Intn(256))
	}
	return k
}

// DIDTypes the generator draws from.
var DIDTypes = [][3]string{
	{"polygonid", "polygon", "mumbai"},
	{"polygonid", "polygon", "main"},
	{"iden3", "polygon", "mumbai"},
	{"iden3", "eth", "main"},
	{"iden3", "readonly", ""},
}

func didType(rng *rand.Rand) [2]byte {
	for {
		t := DIDTypes[rng.Intn(len(DIDTypes))]
		net := core.NetworkID(t[2])
		if t[2] == "" {
			net = core.NoNetwork
		}
		typ, err := core.BuildDIDType(core.DIDMethod(t[0]), core.Blockchain(t[1]), net)
		if err == nil {
			return typ
		}
	}
}

func (id *Identity) AddClaim(c *core.Claim) error {
	hi, hv, err := c.HiHv()
	if err != nil {
		return err
	}
	if err := id.Claims.Add(bg, hi, hv); err != nil {
		return err
	}
	id.NClaims++
	return nil
}

// AddRaw inserts an arbitrary leaf into the claims tree (used to shape the tree:
// deep paths, many leaves).
func (id *Identity) AddRaw(k, v *big.Int) error {
	if err := id.Claims.Add(bg, k, v); err != nil {
		return err
	}
	id.NClaims++
	return nil
}

func (id *Identity) Revoke(nonce uint64) error {
	if err := id.Rev.Add(bg, new(big.Int).SetUint64(nonce), big.NewInt(0)); err != nil {
		return err
	}
	id.Revoked = append(id.Revoked, nonce)
	return nil
}

// Advance records the current claims root in the roots tree (what an issuer does when
// it publishes a new state).
func (id *Identity) Advance() error {
	err := id.Roots.Add(bg, id.Claims.Root().BigInt(), big.NewInt(0))
	if err == merkletree.ErrEntryIndexAlreadyExists {
		return nil
	}
	return err
}

// Snapshot of the identity state.
type Snapshot struct {
	State, CTR, RTR, ROR *big.Int
}

func (id *Identity) State() Snapshot {
	ctr, rtr, ror := id.Claims.Root().BigInt(), id.Rev.Root().BigInt(), id.Roots.Root().BigInt()
	st, err := poseidon.Hash([]*big.Int{ctr, rtr, ror})
	if err != nil {
		panic(err)
	}
	return Snapshot{State: st, CTR: ctr, RTR: rtr, ROR: ror}
}

func (id *Identity) IsGenesis() bool { return id.State().State.Cmp(id.Genesis) == 0 }

// HexOf renders a field element the way the proofs carry hashes (little-endian hex).
func HexOf(z *big.Int) string {
	h, err := merkletree.NewHashFromBigInt(z)
	if err != nil {
		panic(err)
	}
	return h.Hex()
}

// Sign signs Poseidon[hi, hv] of the claim.
func (id *Identity) Sign(c *core.Claim) (string, error) {
	hi, hv, err := c.HiHv()
	if err != nil {
		return "", err
	}
	m, err := poseidon.Hash([]*big.Int{hi, hv})
	if err != nil {
		return "", err
	}
	s := id.SK.SignPoseidon(m).Compress()
	return hex.EncodeToString(s[:]), nil
}

// ---------------------------------------------------------------------------
// JSON shapes of the proofs (every member optional, so that a fault can remove it)
// ---------------------------------------------------------------------------

type AuxJ struct {
	Key   *string `json:"key,omitempty"`
	Value *string `json:"value,omitempty"`
}

type MTPJ struct {
	Existence bool     `json:"existence"`
	Siblings  []string `json:"siblings"`
	NodeAux   *AuxJ    `json:"node_aux,omitempty"`
}

func (m *MTPJ) Clone() *MTPJ {
	if m == nil {
		return nil
	}
	c := &MTPJ{Existence: m.Existence, Siblings: append([]string{}, m.Siblings...)}
	if m.NodeAux != nil {
		a := *m.NodeAux
		c.NodeAux = &a
	}
	return c
}

type StateJ struct {
	RootOfRoots        *string `json:"rootOfRoots,omitempty"`
	ClaimsTreeRoot     *string `json:"claimsTreeRoot,omitempty"`
	RevocationTreeRoot *string `json:"revocationTreeRoot,omitempty"`
	Value              *string `json:"value,omitempty"`
}

type IssuerDataJ struct {
	ID               *string `json:"id,omitempty"`
	State            StateJ  `json:"state"`
	AuthCoreClaim    *string `json:"authCoreClaim,omitempty"`
	MTP              *MTPJ   `json:"mtp,omitempty"`
	CredentialStatus any     `json:"credentialStatus,omitempty"`
}

type ProofJ struct {
	Type       string      `json:"type"`
	IssuerData IssuerDataJ `json:"issuerData"`
	CoreClaim  *string     `json:"coreClaim,omitempty"`
	Signature  *string     `json:"signature,omitempty"`
	MTP        *MTPJ       `json:"mtp,omitempty"`
}

func (p *ProofJ) Clone() *ProofJ {
	b, _ := json.Marshal(p)
	var c ProofJ
	if err := json.Unmarshal(b, &c); err != nil {
		panic(err)
	}
	return &c
}

func S(s string) *string { return &s }

func MTPFromProof(p *merkletree.Proof) *MTPJ {
	m := &MTPJ{Existence: p.Existence, Siblings: []string{}}
	for _, s := range p.AllSiblings() {
		m.Siblings = append(m.Siblings, s.BigInt().String())
	}
	if p.NodeAux != nil {
		m.NodeAux = &AuxJ{Key: S(p.NodeAux.Key.BigInt().String()), Value: S(p.NodeAux.Value.BigInt().String())}
	}
	return m
}

// StateJOf renders a snapshot; zero roots are omitted when omitZero (both forms occur in
// real proofs).
func StateJOf(s Snapshot, omitZero bool) StateJ {
	j := StateJ{Value: S(HexOf(s.State)), ClaimsTreeRoot: S(HexOf(s.CTR))}
	if !(omitZero && s.RTR.Sign() == 0) {
		j.RevocationTreeRoot = S(HexOf(s.RTR))
	}
	if !(omitZero && s.ROR.Sign() == 0) {
		j.RootOfRoots = S(HexOf(s.ROR))
	}
	return j
}

// StatusType of the synthetic credential status entries.
const StatusType = "SparseMerkleTreeProof"

func StatusEntry(idURL string, nonce uint64) map[string]any {
	return map[string]any{"id": idURL, "type": StatusType, "revocationNonce": nonce}
}

// ClaimsProof generates the inclusion (or non-inclusion) proof of key k in the claims tree.
func (id *Identity) ClaimsProof(k *big.Int) (*MTPJ, error) {
	p, _, err := id.Claims.GenerateProof(bg, k, nil)
	if err != nil {
		return nil, err
	}
	return MTPFromProof(p), nil
}

// TreeStateJ is the `issuer` member of a revocation-status answer.
type TreeStateJ struct {
	State              *string `json:"state,omitempty"`
	RootOfRoots        *string `json:"rootOfRoots,omitempty"`
	ClaimsTreeRoot     *string `json:"claimsTreeRoot,omitempty"`
	RevocationTreeRoot *string `json:"revocationTreeRoot,omitempty"`
}

// StatusAnswerJ is a scripted answer of the stub status resolver.
type StatusAnswerJ struct {
	Err    bool       `json:"err,omitempty"`
	Issuer TreeStateJ `json:"issuer"`
	MTP    *MTPJ      `json:"mtp,omitempty"`
}

func (a *StatusAnswerJ) Clone() *StatusAnswerJ {
	if a == nil {
		return nil
	}
	b, _ := json.Marshal(a)
	var c StatusAnswerJ
	_ = json.Unmarshal(b, &c)
	return &c
}

// RevocationAnswer is the honest answer about nonce at the current state.
func (id *Identity) RevocationAnswer(nonce uint64, omitZero bool) (*StatusAnswerJ, error) {
	p, _, err := id.Rev.GenerateProof(bg, new(big.Int).SetUint64(nonce), nil)
	if err != nil {
		return nil, err
	}
	s := id.State()
	sj := StateJOf(s, omitZero)
	return &StatusAnswerJ{
		Issuer: TreeStateJ{State: sj.Value, ClaimsTreeRoot: sj.ClaimsTreeRoot,
			RevocationTreeRoot: sj.RevocationTreeRoot, RootOfRoots: sj.RootOfRoots},
		MTP: MTPFromProof(p)}, nil
}

// ---------------------------------------------------------------------------
// credentials
// ---------------------------------------------------------------------------

// Loader is the offline document loader shared by everything in this package.
var Loader = ctxload.New()

func MerklizeOpts() []merklize.MerklizeOption {
	return []merklize.MerklizeOption{merklize.WithDocumentLoader(Loader)}
}

// NewCredential builds a KYCAgeCredential (kyc-v3 context, merklized) issued by issuerDID.
func NewCredential(rng *rand.Rand, issuerDID, subjectDID string, revNonce uint64) map[string]any {
	c := newCredential(rng, issuerDID, subjectDID, revNonce)
	if subjectDID == "" { // a credential without credentialSubject.id
		delete(c["credentialSubject"].(map[string]any), "id")
	}
	return c
}

func newCredential(rng *rand.Rand, issuerDID, subjectDID string, revNonce uint64) map[string]any {
	return map[string]any{
		"id":             fmt.Sprintf("urn:uuid:%08x-a00e-11ee-8f57-%012x", rng.Uint32(), rng.Int63n(1<<47)),
		"@context":       []any{ctxload.URLCredentialsV1, ctxload.URLIden3Proofs, ctxload.URLKYCv3},
		"type":           []any{"VerifiableCredential", "KYCAgeCredential"},
		"expirationDate": fmt.Sprintf("20%02d-03-21T21:14:48+02:00", 30+rng.Intn(60)),
		"issuanceDate":   fmt.Sprintf("2023-12-%02dT16:35:46.737547+02:00", 1+rng.Intn(28)),
		"credentialSubject": map[string]any{
			"birthday":     19000101 + rng.Intn(1000000),
			"documentType": rng.Intn(1000),
			"id":           subjectDID,
			"type":         "KYCAgeCredential",
		},
		"credentialStatus": StatusEntry("https://status.example/"+issuerDID, revNonce),
		"issuer":           issuerDID,
		"credentialSchema": map[string]any{
			"id":   "https://raw.githubusercontent.com/iden3/claim-schema-vocab/main/schemas/json/KYCAgeCredential-v3.json",
			"type": "JsonSchema2023",
		},
	}
}

// CoreClaimOf derives the core claim of a credential exactly as an issuer does.
func CoreClaimOf(cred map[string]any, opts verifiable.CoreClaimOptions) (*core.Claim, error) {
	b, err := json.Marshal(cred)
	if err != nil {
		return nil, err
	}
	var vc verifiable.W3CCredential
	if err := json.Unmarshal(b, &vc); err != nil {
		return nil, err
	}
	opts.MerklizerOpts = MerklizeOpts()
	return vc.ToCoreClaim(bg, &opts)
}

// WithProofs returns the credential JSON carrying the given proofs.
func WithProofs(cred map[string]any, proofs ...*ProofJ) ([]byte, error) {
	c := map[string]any{}
	for k, v := range cred {
		c[k] = v
	}
	ps := []any{}
	for _, p := range proofs {
		ps = append(ps, p)
	}
	c["proof"] = ps
	return json.Marshal(c)
}

// ---------------------------------------------------------------------------
// stub resolvers
// ---------------------------------------------------------------------------

// DIDAnswer is a scripted answer of the stub DID resolver.
type DIDAnswer struct {
	DID         string `json:"did"`   // DID without query
	State       string `json:"state"` // hex, as it appears in the query
	Err         bool   `json:"err,omitempty"`
	NoStateInfo bool   `json:"no_state_info,omitempty"` // document without Iden3StateInfo2023
	Published   *bool  `json:"published,omitempty"`
	// VMs, when set, lists the document's verification methods explicitly (in order);
	// otherwise the document is [another key, state info(Published)] or [another key].
	VMs []VMJ `json:"vms,omitempty"`
}

// VMJ is one verification method of a scripted DID document.
type VMJ struct {
	StateInfo bool  `json:"state_info"`          // type Iden3StateInfo2023 (else a key method)
	Published *bool `json:"published,omitempty"` // its identity state's `published` member
}

// Methods returns the verification methods of the scripted document, in order.
func (a DIDAnswer) Methods() []VMJ {
	if a.VMs != nil {
		return a.VMs
	}
	if a.NoStateInfo {
		return []VMJ{{}}
	}
	return []VMJ{{}, {StateInfo: true, Published: a.Published}}
}

// StubDIDResolver answers only what its script says; everything else is an error.
type StubDIDResolver struct {
	Script []DIDAnswer
	Calls  []string
}

// SplitDID separates a DID carrying ?state=<hex> into the bare DID and the state.
func SplitDID(did *w3c.DID) (string, string) {
	c := *did
	c.Query = ""
	st := strings.TrimPrefix(did.Query, "state=")
	return c.String(), st
}

func (r *StubDIDResolver) Resolve(_ context.Context, did *w3c.DID) (verifiable.DIDDocument, error) {
	base, st := SplitDID(did)
	r.Calls = append(r.Calls, base+"?"+did.Query)
	for _, a := range r.Script {
		if a.DID == base && a.State == st {
			if a.Err {
				return verifiable.DIDDocument{}, fmt.Errorf("stub resolver: scripted failure")
			}
			doc := verifiable.DIDDocument{Context: "https://www.w3.org/ns/did/v1", ID: base}
			for i, m := range a.Methods() {
				vm := verifiable.CommonVerificationMethod{ID: fmt.Sprintf("%s#vm-%d", base, i), Type: "EcdsaSecp256k1RecoveryMethod2020", Controller: base}
				if m.StateInfo {
					vm.Type = "Iden3StateInfo2023"
					vm.IdentityState.Published = m.Published
				}
				doc.VerificationMethod = append(doc.VerificationMethod, vm)
			}
			// through JSON, as a universal resolver's answer arrives
			b, err := json.Marshal(doc)
			if err != nil {
				return verifiable.DIDDocument{}, err
			}
			var out verifiable.DIDDocument
			if err := json.Unmarshal(b, &out); err != nil {
				return verifiable.DIDDocument{}, err
			}
			return out, nil
		}
	}
	return verifiable.DIDDocument{}, fmt.Errorf("stub resolver: unknown %s state %s", base, st)
}

// StubStatusResolver plays one scripted answer whatever it is asked.
type StubStatusResolver struct {
	Answer *StatusAnswerJ
	Seen   []verifiable.CredentialStatus
}

func (r *StubStatusResolver) Resolve(_ context.Context, cs verifiable.CredentialStatus) (verifiable.RevocationStatus, error) {
	r.Seen = append(r.Seen, cs)
	var out verifiable.RevocationStatus
	if r.Answer == nil || r.Answer.Err {
		return out, fmt.Errorf("stub status resolver: scripted failure")
	}
	// through JSON, as a real resolver's answer arrives
	b, err := json.Marshal(map[string]any{"issuer": r.Answer.Issuer, "mtp": r.Answer.MTP})
	if err != nil {
		return out, err
	}
	err = json.Unmarshal(b, &out)
	return out, err
}

// RegEntry is one registration in the status resolver registry handed to VerifyProof.
type RegEntry struct {
	Type   string         `json:"type"`
	Answer *StatusAnswerJ `json:"answer"` // nil = the resolver fails
}

// Env is everything VerifyProof is given besides the credential.
type Env struct {
	DID []DIDAnswer `json:"did"`
	Reg []RegEntry  `json:"reg"`
}

func (e Env) Clone() Env {
	b, _ := json.Marshal(e)
	var c Env
	_ = json.Unmarshal(b, &c)
	return c
}
