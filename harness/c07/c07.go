// Package c07: property C07 — BJJ-signature proof verification is sound and complete.
// Synthetic issuers issue and sign credentials; every honest bundle must verify; then one
// fault at a time is injected and W3CCredential.VerifyProof(BJJSignature2021) must reject
// exactly when the property's conjunction fails.  Every case is also evaluated by the Coq
// model (coq/Verify/Run78.v, mismatches7).
package c07

import (
	"encoding/json"
	"fmt"
	"math/big"
	"math/rand"
	"runtime"
	"time"

	"vharness/common"
	"vharness/issuer"
)

func init() { common.Register("C07", Run) }

func catalogue(sc *issuer.Scenario, rng *rand.Rand) []issuer.Mut {
	att := sc.Attacker
	attSig, _ := att.Sign(sc.Claim)
	altSig, _ := sc.Issuer.Sign(sc.ClaimAlt)
	attAuthHex, _ := att.Auth.Hex()
	altHex, _ := sc.ClaimAlt.Hex()
	unrelHex, _ := sc.Unrelated.Hex()
	attState := att.State()
	ms := []issuer.Mut{
		{"honest", "accept", func(p *issuer.ProofJ, e *issuer.Env) {}},
		// ---- signature
		{"signature-bit-S", "reject", func(p *issuer.ProofJ, e *issuer.Env) {
			p.Signature = issuer.S(issuer.FlipHexBit(*p.Signature, 32+rng.Intn(20), uint(rng.Intn(8))))
		}},
		{"signature-bit-R", "reject", func(p *issuer.ProofJ, e *issuer.Env) {
			p.Signature = issuer.S(issuer.FlipHexBit(*p.Signature, rng.Intn(31), uint(rng.Intn(8))))
		}},
		{"signature-other-key", "reject", func(p *issuer.ProofJ, e *issuer.Env) { p.Signature = issuer.S(attSig) }},
		{"signature-of-other-claim", "reject", func(p *issuer.ProofJ, e *issuer.Env) { p.Signature = issuer.S(altSig) }},
		{"signature-removed", "reject", func(p *issuer.ProofJ, e *issuer.Env) { p.Signature = nil }},
		{"signature-short", "reject", func(p *issuer.ProofJ, e *issuer.Env) { p.Signature = issuer.S((*p.Signature)[:64]) }},
		{"signature-not-hex", "reject", func(p *issuer.ProofJ, e *issuer.Env) { p.Signature = issuer.S("xy" + (*p.Signature)[2:]) }},
		// ---- claim
		{"claim-other-version", "reject", func(p *issuer.ProofJ, e *issuer.Env) { p.CoreClaim = issuer.S(altHex) }},
		{"claim-unrelated", "reject", func(p *issuer.ProofJ, e *issuer.Env) { p.CoreClaim = issuer.S(unrelHex) }},
		{"proof-of-other-credential", "reject", func(p *issuer.ProofJ, e *issuer.Env) {
			// a completely valid proof, of another credential of the same issuer: only the
			// claim/credential binding stands in the way
			p.CoreClaim, p.Signature = issuer.S(unrelHex), issuer.S(sc.UnrelatedSig)
		}},
		{"claim-removed", "reject", func(p *issuer.ProofJ, e *issuer.Env) { p.CoreClaim = nil }},
		{"claim-malformed", "reject", func(p *issuer.ProofJ, e *issuer.Env) { p.CoreClaim = issuer.S((*p.CoreClaim)[:100]) }},
		// ---- auth claim / key (the escalating attack of D5)
		{"attacker-key-and-auth-claim", "reject", func(p *issuer.ProofJ, e *issuer.Env) {
			p.Signature, p.IssuerData.AuthCoreClaim = issuer.S(attSig), issuer.S(attAuthHex)
		}},
		{"attacker-key-auth-claim-nonce-aligned", "reject", func(p *issuer.ProofJ, e *issuer.Env) {
			// the status entry follows the attacker's nonce and an honest-looking answer exists for it
			p.Signature, p.IssuerData.AuthCoreClaim = issuer.S(attSig), issuer.S(attAuthHex)
			p.IssuerData.CredentialStatus = issuer.StatusEntry("https://status.example/x", att.AuthNonce)
			if a, err := sc.Issuer.RevocationAnswer(att.AuthNonce, false); err == nil {
				e.Reg = []issuer.RegEntry{{Type: issuer.StatusType, Answer: a}}
			}
		}},
		{"attacker-key-auth-claim-with-its-nonexistence-proof", "reject", func(p *issuer.ProofJ, e *issuer.Env) {
			// the BJJ twin of D4: a genuine NON-existence proof of the attacker's auth claim in the
			// honest claims tree, everything else consistent
			p.Signature, p.IssuerData.AuthCoreClaim, p.IssuerData.MTP = issuer.S(attSig), issuer.S(attAuthHex), sc.AttackerAbsent.Clone()
			p.IssuerData.CredentialStatus = issuer.StatusEntry("https://status.example/x", att.AuthNonce)
			if a, err := sc.Issuer.RevocationAnswer(att.AuthNonce, false); err == nil {
				e.Reg = []issuer.RegEntry{{Type: issuer.StatusType, Answer: a}}
			}
		}},
		{"attacker-key-auth-claim-mtp", "reject", func(p *issuer.ProofJ, e *issuer.Env) {
			p.Signature, p.IssuerData.AuthCoreClaim, p.IssuerData.MTP = issuer.S(attSig), issuer.S(attAuthHex), sc.AttackerProof.Clone()
		}},
		{"attacker-key-auth-claim-mtp-claims-root", "reject", func(p *issuer.ProofJ, e *issuer.Env) {
			// before the repair this verified: honest state value next to the attacker's claims root
			p.Signature, p.IssuerData.AuthCoreClaim, p.IssuerData.MTP = issuer.S(attSig), issuer.S(attAuthHex), sc.AttackerProof.Clone()
			p.IssuerData.CredentialStatus = issuer.StatusEntry("https://status.example/x", att.AuthNonce)
			if a, err := sc.Issuer.RevocationAnswer(att.AuthNonce, false); err == nil {
				e.Reg = []issuer.RegEntry{{Type: issuer.StatusType, Answer: a}}
			}
			// the claims root at the time AttackerProof was generated
			p.IssuerData.State.ClaimsTreeRoot = issuer.S(attackerProofRoot(sc))
		}},
		{"attacker-whole-state", "reject", func(p *issuer.ProofJ, e *issuer.Env) {
			// a fully consistent attacker identity under the honest issuer's DID: only the
			// resolver / genesis clause stands in the way
			p.Signature, p.IssuerData.AuthCoreClaim = issuer.S(attSig), issuer.S(attAuthHex)
			if m, err := att.ClaimsProof(hiOf(att)); err == nil {
				p.IssuerData.MTP = m
			}
			p.IssuerData.State = issuer.StateJOf(attState, false)
			p.IssuerData.CredentialStatus = issuer.StatusEntry("https://status.example/x", att.AuthNonce)
			if a, err := sc.Issuer.RevocationAnswer(att.AuthNonce, false); err == nil {
				e.Reg = []issuer.RegEntry{{Type: issuer.StatusType, Answer: a}}
			}
			e.DID = append(e.DID, issuer.DIDAnswer{DID: sc.Issuer.DID.String(), State: issuer.HexOf(attState.State), Published: issuer.BP(false)})
		}},
		{"auth-claim-removed", "reject", func(p *issuer.ProofJ, e *issuer.Env) { p.IssuerData.AuthCoreClaim = nil }},
		{"auth-claim-malformed", "reject", func(p *issuer.ProofJ, e *issuer.Env) { p.IssuerData.AuthCoreClaim = issuer.S("00") }},
		{"auth-claim-other-nonce", "reject", func(p *issuer.ProofJ, e *issuer.Env) {
			// same key, different nonce: not the leaf that is in the tree
			c := sc.Issuer.Auth.Clone()
			c.SetRevocationNonce(sc.P.AuthNonce + 1)
			h, _ := c.Hex()
			p.IssuerData.AuthCoreClaim = issuer.S(h)
			p.IssuerData.CredentialStatus = issuer.StatusEntry("https://status.example/x", sc.P.AuthNonce+1)
			if a, err := sc.Issuer.RevocationAnswer(sc.P.AuthNonce+1, false); err == nil {
				e.Reg = []issuer.RegEntry{{Type: issuer.StatusType, Answer: a}}
			}
		}},
		// ---- inclusion proof of the auth claim
		{"auth-mtp-removed", "reject", func(p *issuer.ProofJ, e *issuer.Env) { p.IssuerData.MTP = nil }},
		{"auth-mtp-of-other-leaf", "reject", func(p *issuer.ProofJ, e *issuer.Env) { p.IssuerData.MTP = sc.SMT.MTP.Clone() }},
		{"auth-mtp-from-attacker-tree", "reject", func(p *issuer.ProofJ, e *issuer.Env) { p.IssuerData.MTP = sc.AttackerProof.Clone() }},
		// ---- status entry
		{"status-nonce-mismatch", "reject", func(p *issuer.ProofJ, e *issuer.Env) {
			p.IssuerData.CredentialStatus = issuer.StatusEntry("https://status.example/x", sc.P.AuthNonce+1)
			if a, err := sc.Issuer.RevocationAnswer(sc.P.AuthNonce+1, false); err == nil {
				e.Reg = []issuer.RegEntry{{Type: issuer.StatusType, Answer: a}}
			}
		}},
		{"status-revoked", "reject", func(p *issuer.ProofJ, e *issuer.Env) {
			e.Reg = []issuer.RegEntry{{Type: issuer.StatusType, Answer: sc.Revoked.Clone()}}
		}},
		{"status-removed", "reject", func(p *issuer.ProofJ, e *issuer.Env) { p.IssuerData.CredentialStatus = nil }},
		{"status-not-an-object", "reject", func(p *issuer.ProofJ, e *issuer.Env) { p.IssuerData.CredentialStatus = "https://status.example/x" }},
		{"status-without-type", "reject", func(p *issuer.ProofJ, e *issuer.Env) {
			p.IssuerData.CredentialStatus = map[string]any{"id": "https://status.example/x", "revocationNonce": sc.P.AuthNonce}
		}},
		{"status-nonce-is-string", "reject", func(p *issuer.ProofJ, e *issuer.Env) {
			p.IssuerData.CredentialStatus = map[string]any{"id": "x", "type": issuer.StatusType, "revocationNonce": fmt.Sprint(sc.P.AuthNonce)}
		}},
		{"status-nonce-beyond-uint64", "reject", func(p *issuer.ProofJ, e *issuer.Env) {
			p.IssuerData.CredentialStatus = map[string]any{"id": "x", "type": issuer.StatusType, "revocationNonce": json.Number("18446744073709551621")}
		}},
		{"status-nonce-plus-2^64", "reject", func(p *issuer.ProofJ, e *issuer.Env) {
			z := new(big.Int).Add(new(big.Int).SetUint64(sc.P.AuthNonce), new(big.Int).Lsh(big.NewInt(1), 64))
			p.IssuerData.CredentialStatus = map[string]any{"id": "x", "type": issuer.StatusType, "revocationNonce": json.Number(z.String())}
		}},
		{"status-type-unregistered", "reject", func(p *issuer.ProofJ, e *issuer.Env) {
			p.IssuerData.CredentialStatus = map[string]any{"id": "x", "type": "Iden3ReverseSparseMerkleTreeProof", "revocationNonce": sc.P.AuthNonce}
		}},
		{"status-type-other-registered", "accept", func(p *issuer.ProofJ, e *issuer.Env) {
			p.IssuerData.CredentialStatus = map[string]any{"id": "x", "type": "Iden3commRevocationStatusV1.0", "revocationNonce": sc.P.AuthNonce}
			e.Reg = append(e.Reg, issuer.RegEntry{Type: "Iden3commRevocationStatusV1.0", Answer: e.Reg[0].Answer.Clone()})
			e.Reg[0].Answer = nil
		}},
		// ---- a nested statusIssuer entry is NOT a fallback for the auth claim's status: when the
		// primary entry cannot be resolved the verification fails, whatever statusIssuer says
		{"status-primary-resolver-error-statusissuer-same-nonce", "reject", func(p *issuer.ProofJ, e *issuer.Env) {
			st := issuer.StatusEntry("https://status.example/x", sc.P.AuthNonce)
			st["statusIssuer"] = map[string]any{"id": "https://backup.example/x", "type": "Iden3commRevocationStatusV1.0", "revocationNonce": sc.P.AuthNonce}
			p.IssuerData.CredentialStatus = st
			e.Reg = append(e.Reg, issuer.RegEntry{Type: "Iden3commRevocationStatusV1.0", Answer: e.Reg[0].Answer.Clone()})
			e.Reg[0].Answer = nil
		}},
		{"status-primary-unregistered-statusissuer-other-nonce", "reject", func(p *issuer.ProofJ, e *issuer.Env) {
			st := map[string]any{"id": "x", "type": "Iden3ReverseSparseMerkleTreeProof", "revocationNonce": sc.P.AuthNonce}
			st["statusIssuer"] = map[string]any{"id": "https://backup.example/x", "type": issuer.StatusType, "revocationNonce": sc.P.AuthNonce + 1}
			p.IssuerData.CredentialStatus = st
			if a, err := sc.Issuer.RevocationAnswer(sc.P.AuthNonce+1, false); err == nil {
				e.Reg = []issuer.RegEntry{{Type: issuer.StatusType, Answer: a}}
			}
		}},
		{"status-primary-resolver-error-statusissuer-other-nonce", "reject", func(p *issuer.ProofJ, e *issuer.Env) {
			st := issuer.StatusEntry("https://status.example/x", sc.P.AuthNonce)
			st["statusIssuer"] = map[string]any{"id": "https://backup.example/x", "type": "Iden3commRevocationStatusV1.0", "revocationNonce": sc.P.AuthNonce + 1}
			p.IssuerData.CredentialStatus = st
			if a, err := sc.Issuer.RevocationAnswer(sc.P.AuthNonce+1, false); err == nil {
				e.Reg = []issuer.RegEntry{{Type: issuer.StatusType, Answer: nil}, {Type: "Iden3commRevocationStatusV1.0", Answer: a}}
			}
		}},
		{"status-primary-resolver-error-statusissuer-revoked", "reject", func(p *issuer.ProofJ, e *issuer.Env) {
			st := issuer.StatusEntry("https://status.example/x", sc.P.AuthNonce)
			st["statusIssuer"] = map[string]any{"id": "https://backup.example/x", "type": "Iden3commRevocationStatusV1.0", "revocationNonce": sc.P.AuthNonce}
			p.IssuerData.CredentialStatus = st
			e.Reg = []issuer.RegEntry{{Type: issuer.StatusType, Answer: nil}, {Type: "Iden3commRevocationStatusV1.0", Answer: sc.Revoked.Clone()}}
		}},
		{"status-primary-revoked-statusissuer-unrevoked", "reject", func(p *issuer.ProofJ, e *issuer.Env) {
			st := issuer.StatusEntry("https://status.example/x", sc.P.AuthNonce)
			st["statusIssuer"] = map[string]any{"id": "https://backup.example/x", "type": "Iden3commRevocationStatusV1.0", "revocationNonce": sc.P.AuthNonce}
			p.IssuerData.CredentialStatus = st
			e.Reg = []issuer.RegEntry{{Type: issuer.StatusType, Answer: sc.Revoked.Clone()}, {Type: "Iden3commRevocationStatusV1.0", Answer: e.Reg[0].Answer.Clone()}}
		}},
		{"status-primary-fine-statusissuer-unresolvable", "accept", func(p *issuer.ProofJ, e *issuer.Env) {
			st := issuer.StatusEntry("https://status.example/x", sc.P.AuthNonce)
			st["statusIssuer"] = map[string]any{"id": "https://backup.example/x", "type": "NoSuchStatusType", "revocationNonce": sc.P.AuthNonce + 9}
			p.IssuerData.CredentialStatus = st
		}},
		// ---- decoding of the status object (model: Top78.decode_cs)
		{"status-statusissuer-not-an-object", "reject", func(p *issuer.ProofJ, e *issuer.Env) {
			st := issuer.StatusEntry("https://status.example/x", sc.P.AuthNonce)
			st["statusIssuer"] = "https://backup.example/x"
			p.IssuerData.CredentialStatus = st
		}},
		{"status-statusissuer-nested-malformed", "reject", func(p *issuer.ProofJ, e *issuer.Env) {
			st := issuer.StatusEntry("https://status.example/x", sc.P.AuthNonce)
			st["statusIssuer"] = map[string]any{"type": "T", "statusIssuer": map[string]any{"revocationNonce": "7"}}
			p.IssuerData.CredentialStatus = st
		}},
		{"status-statusissuer-null-and-unknown-members", "accept", func(p *issuer.ProofJ, e *issuer.Env) {
			st := issuer.StatusEntry("https://status.example/x", sc.P.AuthNonce)
			st["statusIssuer"] = nil
			st["x-extra"] = []any{1, true}
			st["id"] = nil
			p.IssuerData.CredentialStatus = st
		}},
		{"status-id-is-a-number", "reject", func(p *issuer.ProofJ, e *issuer.Env) {
			st := issuer.StatusEntry("https://status.example/x", sc.P.AuthNonce)
			st["id"] = 5
			p.IssuerData.CredentialStatus = st
		}},
		{"status-type-null", "reject", func(p *issuer.ProofJ, e *issuer.Env) {
			st := issuer.StatusEntry("https://status.example/x", sc.P.AuthNonce)
			st["type"] = nil
			p.IssuerData.CredentialStatus = st
		}},
		{"status-nonce-null", map[bool]string{true: "accept", false: "reject"}[sc.P.AuthNonce == 0], func(p *issuer.ProofJ, e *issuer.Env) {
			st := issuer.StatusEntry("https://status.example/x", sc.P.AuthNonce)
			st["revocationNonce"] = nil // decodes as 0
			p.IssuerData.CredentialStatus = st
		}},
		{"status-resolver-error", "reject", func(p *issuer.ProofJ, e *issuer.Env) { e.Reg[0].Answer = nil }},
		{"status-registry-empty", "reject", func(p *issuer.ProofJ, e *issuer.Env) { e.Reg = nil }},
		// ---- status answer (C09's clauses, one fault each)
		{"status-answer-state", "reject", func(p *issuer.ProofJ, e *issuer.Env) {
			e.Reg[0].Answer.Issuer.State = issuer.S(issuer.HexOf(issuer.RandField(rng)))
		}},
		{"status-answer-state-removed", "reject", func(p *issuer.ProofJ, e *issuer.Env) { e.Reg[0].Answer.Issuer.State = nil }},
		{"status-answer-claims-root", "reject", func(p *issuer.ProofJ, e *issuer.Env) {
			e.Reg[0].Answer.Issuer.ClaimsTreeRoot = issuer.S(issuer.HexOf(issuer.RandField(rng)))
		}},
		{"status-answer-revocation-root", "reject", func(p *issuer.ProofJ, e *issuer.Env) {
			e.Reg[0].Answer.Issuer.RevocationTreeRoot = issuer.S(issuer.HexOf(issuer.RandField(rng)))
		}},
		{"status-answer-roots-root", "reject", func(p *issuer.ProofJ, e *issuer.Env) {
			e.Reg[0].Answer.Issuer.RootOfRoots = issuer.S(issuer.HexOf(issuer.RandField(rng)))
		}},
		{"status-answer-of-other-issuer", "accept", func(p *issuer.ProofJ, e *issuer.Env) {
			// the verifier does not relate the status answer's state to the proof's state (C09
			// states internal consistency only); recorded as accepted, not as a violation
			e.Reg[0].Answer = sc.OtherIssuer.Clone()
		}},
		// ---- another proof type only
		{"only-smt-proof-present", "reject", nil},
	}
	if sc.RevokedMirror != nil {
		ms = append(ms, issuer.Mut{Name: "status-proof-for-2^64-minus-nonce-after-revocation", Expect: "reject", F: func(p *issuer.ProofJ, e *issuer.Env) {
			// the auth nonce N >= 2^63 IS revoked in the answering tree; the proof is the genuine
			// non-existence proof of 2^64-N
			e.Reg[0].Answer = sc.RevokedMirror.Clone()
		}})
	}
	// status answer's Merkle proof
	honestAns := sc.Env.Reg[0].Answer
	ms = append(ms, issuer.MTPFaults("status-mtp-", func(p *issuer.ProofJ, e *issuer.Env) **issuer.MTPJ { return &e.Reg[0].Answer.MTP }, honestAns.MTP, rng)...)
	// auth claim's Merkle proof
	ms = append(ms, issuer.MTPFaults("auth-mtp-", func(p *issuer.ProofJ, e *issuer.Env) **issuer.MTPJ { return &p.IssuerData.MTP }, sc.BJJ.IssuerData.MTP, rng)...)
	ms = append(ms, issuer.StateFaults(sc, rng)...)
	ms = append(ms, issuer.DIDFaults(sc)...)
	ms = append(ms, issuer.NearMissFaults(sc)...)
	ms = append(ms, issuer.NearMissStatusFaults(sc)...)
	return ms
}

func hiOf(id *issuer.Identity) *big.Int {
	hi, _, _ := id.Auth.HiHv()
	return hi
}

// attackerProofRoot recomputes the claims root the attacker's auth proof was generated
// against (the attacker's tree grew afterwards).
func attackerProofRoot(sc *issuer.Scenario) string {
	r := issuer.NewRecorder()
	top := issuer.RProofOfJ(sc.AttackerProof)
	hi, hv, _ := sc.Attacker.Auth.HiHv()
	root := r.Root(top, hi, hv, 0)
	if root == nil {
		return issuer.HexOf(big.NewInt(0))
	}
	return issuer.HexOf(root)
}

// multiProof: credentials carrying several proofs.  VerifyProof takes the FIRST proof of the
// requested type, binds ITS core claim to the credential and verifies exactly that proof.
func multiProof(sc *issuer.Scenario) []*issuer.Case {
	altHex, _ := sc.ClaimAlt.Hex()
	unrelHex, _ := sc.Unrelated.Hex()
	// decoy: names a claim that binds to the credential but was never signed
	decoy := sc.BJJ.Clone()
	decoy.CoreClaim = issuer.S(altHex)
	// a genuine signature proof of ANOTHER credential's claim of the same issuer
	other := sc.BJJ.Clone()
	other.CoreClaim, other.Signature = issuer.S(unrelHex), issuer.S(sc.UnrelatedSig)
	genuine := func() *issuer.ProofJ { return sc.BJJ.Clone() }
	mk := func(name, expect string, ps ...*issuer.ProofJ) *issuer.Case {
		return sc.CaseOf("bjj", "multi-proof:"+name, expect, nil, sc.Env.Clone(), ps...)
	}
	return []*issuer.Case{
		mk("decoy-then-genuine", "reject", decoy.Clone(), genuine()),
		mk("decoy-then-genuine-of-other-credential", "reject", decoy.Clone(), other.Clone()),
		mk("genuine-then-decoy", "accept", genuine(), decoy.Clone()),
		mk("genuine-of-other-credential-then-genuine", "reject", other.Clone(), genuine()),
		mk("genuine-twice", "accept", genuine(), genuine()),
		mk("smt-then-bjj", "accept", sc.SMT.Clone(), genuine()),
		mk("smt-decoy-genuine", "reject", sc.SMT.Clone(), decoy.Clone(), genuine()),
		mk("bjj-then-smt", "accept", genuine(), sc.SMT.Clone()),
	}
}

// Scenarios of a run.
func Scenarios(cfg *common.Config) []issuer.Params {
	rng := cfg.Rng
	var ps []issuer.Params
	sizes := []int{0, 1, 3, 12, 40}
	pubs := []*bool{issuer.BP(true), issuer.BP(false), nil}
	n := cfg.Pick(8, 40)
	for i := 0; i < n; i++ {
		p := issuer.Params{NClaims: sizes[i%len(sizes)], OmitZero: i%2 == 0,
			RootPos: []string{"index", "value"}[i%2], SubjectPos: []string{"index", "value", "none"}[i%3], Updatable: i%3 == 0}
		// revocation tree: empty in every fourth scenario (so that omitted / explicit zero
		// roots both occur on honest bundles), else random and clustered nonces
		emptyRev := i%4 == 0 || i%4 == 3
		if !emptyRev {
			p.NRevoked = []int{1, 5, 20}[i%3]
			for d := 0; d <= rng.Intn(cfg.Pick(5, 30)); d += 1 + rng.Intn(3) {
				p.RevDeep = append(p.RevDeep, d)
			}
		}
		if cfg.Thorough() && i >= 8 {
			p.NClaims = rng.Intn(41)
			if !emptyRev {
				p.NRevoked = rng.Intn(21)
			}
		}
		p.Genesis = i%3 == 1
		if p.Genesis {
			p.Published = pubs[(i/3)%3]
		} else {
			p.Published = issuer.BP(true)
		}
		if i%2 == 1 {
			p.AuthNonce = uint64(rng.Int63n(1 << 53))
		}
		if i%3 != 2 {
			for d := 1; d <= 1+rng.Intn(cfg.Pick(6, 30)); d += 1 + rng.Intn(3) {
				p.Deep = append(p.Deep, d)
			}
		}
		ps = append(ps, p)
	}
	return ps
}

func Run(cfg *common.Config) (*common.Report, error) {
	d := issuer.NewDriver(cfg, "C07", true)
	rep := d.Rep
	rep.Correspondence = "Verify.Run78.mismatches7: verify_proof_top (verify_bjj ..) (coq/Verify/Top78.v, BJJ.v, Issuer.v, Status.v) vs verifiable.W3CCredential.VerifyProof(BJJSignature2021) with stub DID / status resolvers"
	rep.Rule = "synthetic issuers (random BabyJubJub keys, claims trees of 2..45 leaves with deep paths, 0..25 revoked nonces, genesis and later states, 5 DID method/network types) x (honest bundle + one fault at a time: signature, key, claim, auth claim, inclusion proof incl. every sibling, every root, state, DID, resolver answer, status entry, status answer incl. every sibling, every optional member removed). distinct = distinct (credential JSON, environment) pairs; every case is non-trivial (it reaches VerifyProof with a decodable credential or exercises a decoder error)."
	if cfg.Replay != "" {
		return d.Replay()
	}
	// one honest bundle whose auth nonce does not survive a float64 round trip
	{
		p := issuer.Params{NClaims: 2, Published: issuer.BP(true), AuthNonce: 1<<53 + 1, RootPos: "index"}
		sc, err := issuer.Build(cfg.Rng, p)
		if err != nil {
			return nil, err
		}
		if _, _, err := d.Do(sc.CaseOf("bjj", "honest", "accept", sc.BJJ.Clone(), sc.Env.Clone())); err != nil {
			return nil, err
		}
	}
	scs := Scenarios(cfg)
	// issuers whose auth nonce is >= 2^63 and survives the decoder's float64 round trip
	// (a * 10^11 with a odd: exactly representable, printed back digit for digit), with a
	// revocation tree clustered along that nonce's path beyond bit 12 (N and 2^64-N share
	// exactly the 12 low bits): a verifier that loses the top bit of the nonce is caught both on
	// the honest bundle and on the forged-after-revocation fault
	for i := 0; i < cfg.Pick(1, 6); i++ {
		a := uint64(92233721+cfg.Rng.Intn(184467440-92233721)) | 1
		scs = append(scs, issuer.Params{NClaims: 3, NRevoked: 2, RevDeep: []int{13, 14 + cfg.Rng.Intn(6), 22 + cfg.Rng.Intn(20)},
			Published: issuer.BP(true), AuthNonce: a * 100000000000, RootPos: "index", OmitZero: i%2 == 0})
	}
	for si, p := range scs {
		sc, err := issuer.Build(cfg.Rng, p)
		if err != nil {
			return nil, fmt.Errorf("scenario %d (%s): %w", si, p, err)
		}
		ms := catalogue(sc, cfg.Rng)
		var cs []*issuer.Case
		for _, m := range ms {
			proof, env := sc.BJJ.Clone(), sc.Env.Clone()
			if m.F == nil { // only an SMT proof in the credential
				cs = append(cs, sc.CaseOf("bjj", m.Name, m.Expect, nil, env, sc.SMT.Clone()))
				continue
			}
			m.F(proof, &env)
			extra := []*issuer.ProofJ{}
			if cfg.Rng.Intn(3) == 0 {
				extra = append(extra, sc.SMT.Clone()) // a second proof of the other type rides along
			}
			cs = append(cs, sc.CaseOf("bjj", m.Name, m.Expect, proof, env, extra...))
		}
		cs = append(cs, multiProof(sc)...)
		for len(ms) < len(cs) {
			ms = append(ms, issuer.Mut{Name: cs[len(ms)].Fault, Expect: cs[len(ms)].Expect})
		}
		outs, specs, err := d.DoBatch(cs)
		if err != nil {
			return nil, err
		}
		for i, m := range ms {
			if (m.Name == "honest" && len(rep.Samples) < 3) || (len(rep.Samples) < 8 && cfg.Rng.Intn(60) == 0) {
				rep.Sample(map[string]any{"scenario": sc.Name, "fault": m.Name, "expect": m.Expect,
					"impl": []string{"accept", "reject", "panic"}[outs[i].Obs], "error": outs[i].Msg, "reference": specs[i]})
			}
		}
	}
	// auth claim key coordinates perturbed CONSISTENTLY: the claim in the tree (and so the state
	// and the DID) holds (X', Y') while the credential is signed with the real key (X, Y): the
	// signature is not valid under the key held in the claim, the bundle must be rejected
	for i, kind := range issuer.KeyPerturbations {
		p := issuer.Params{NClaims: i % 3, Published: issuer.BP(true), RootPos: "index", KeyPerturb: kind,
			Genesis: i%2 == 1, OmitZero: i%2 == 0, AuthNonce: uint64(cfg.Rng.Int63n(1 << 53))}
		sc, err := issuer.Build(cfg.Rng, p)
		if err != nil {
			return nil, fmt.Errorf("perturbed key %s: %w", kind, err)
		}
		if _, _, err := d.Do(sc.CaseOf("bjj", "auth-claim-key-perturbed-consistently:"+kind, "reject", sc.BJJ.Clone(), sc.Env.Clone())); err != nil {
			return nil, err
		}
	}
	if cfg.Thorough() {
		if err := weakProbes(cfg, d); err != nil {
			return nil, err
		}
	}
	return rep, d.Flush()
}

// weakProbes (thorough only, time-boxed): grind one sibling until the root recomputed for the
// ATTACKER's auth claim (in nobody's tree) partially agrees with the honest claims tree root,
// everything else consistent with the attacker's key: the bundle must be rejected.
func weakProbes(cfg *common.Config, d *issuer.Driver) error {
	scs, err := issuer.ProbeTargets(cfg.Rng, 48)
	if err != nil {
		return err
	}
	sc0 := scs[0]
	att := sc0.Attacker
	ahi, ahv, err := att.Auth.HiHv()
	if err != nil {
		return err
	}
	attSig, _ := att.Sign(sc0.Claim)
	attAuthHex, _ := att.Auth.Hex()
	var targets []*big.Int
	for _, sc := range scs {
		targets = append(targets, sc.Snap.CTR)
	}
	t0 := time.Now()
	res := issuer.WeakProbe(ahi, ahv, targets, new(big.Int).SetInt64(cfg.Rng.Int63n(1<<40)), 100*time.Second)
	d.Rep.Notes = append(d.Rep.Notes, fmt.Sprintf("weak comparison probes (attacker auth claim, forged one-sibling existence proof, %d honest issuer states as targets): %d candidate siblings hashed in %.0f s on %d cores; partial agreements found: %s",
		len(targets), res.Tried, time.Since(t0).Seconds(), runtime.NumCPU(), res.FoundString()))
	d.Rep.Distribution["weak-probe-candidates"] = int(res.Tried)
	for _, kind := range []string{"prefix8", "suffix8", "low32"} {
		h, ok := res.Found[kind]
		if !ok {
			continue
		}
		sc := scs[h.Target]
		p, e := sc.BJJ.Clone(), sc.Env.Clone()
		p.CoreClaim = sc0.BJJ.CoreClaim
		p.Signature, p.IssuerData.AuthCoreClaim = issuer.S(attSig), issuer.S(attAuthHex)
		p.IssuerData.MTP = &issuer.MTPJ{Existence: true, Siblings: []string{h.Sibling.String()}}
		p.IssuerData.CredentialStatus = issuer.StatusEntry("https://status.example/x", att.AuthNonce)
		if a, err := sc.Issuer.RevocationAnswer(att.AuthNonce, false); err == nil {
			e.Reg = []issuer.RegEntry{{Type: issuer.StatusType, Answer: a}}
		}
		if _, _, err := d.Do(sc0.CaseOf("bjj", "weak-compare-"+kind, "reject", p, e)); err != nil {
			return err
		}
	}
	return nil
}
