// Package hashers: hasher configurations used across properties and a recorder
// that logs every primitive call (Hash / HashBytes) the implementation makes, so
// that the Coq model can be evaluated against tables of *primitive* answers only.
package hashers

import (
	"errors"
	"fmt"
	"math/big"
	"sort"
	"strings"
	"sync"

	"github.com/iden3/go-iden3-crypto/constants"
	"github.com/iden3/go-iden3-crypto/poseidon"
	"github.com/iden3/go-schema-processor/v2/merklize"

	"vharness/coqgen"
)

// Mod is Poseidon reduced modulo a (possibly small) prime, optionally salted.
type Mod struct {
	P         *big.Int
	SaltBytes []byte   // prepended to every HashBytes message
	SaltElem  *big.Int // appended to every Hash input (nil = none)
	Name      string
	// ShareP: Prime() hands out the stored modulus itself instead of a copy (the Hasher interface allows it);
	// code under test that computes in place on the returned value then corrupts the hasher, which shows.
	ShareP bool
}

func (m Mod) Prime() *big.Int {
	if m.ShareP {
		return m.P
	}
	return new(big.Int).Set(m.P)
}

func (m Mod) Hash(in []*big.Int) (*big.Int, error) {
	inp := make([]*big.Int, 0, len(in)+1)
	for _, x := range in {
		if x == nil {
			return nil, errors.New("nil input")
		}
		if x.Sign() < 0 || x.Cmp(constants.Q) >= 0 {
			return nil, errors.New("input not in field")
		}
		inp = append(inp, x)
	}
	if m.SaltElem != nil {
		inp = append(inp, m.SaltElem)
	}
	h, err := poseidon.Hash(inp)
	if err != nil {
		return nil, err
	}
	return h.Mod(h, m.P), nil
}

func (m Mod) HashBytes(msg []byte) (*big.Int, error) {
	b := append(append([]byte{}, m.SaltBytes...), msg...)
	h, err := poseidon.HashBytes(b)
	if err != nil {
		return nil, err
	}
	if h == nil {
		return nil, errors.New("empty message")
	}
	return h.Mod(h, m.P), nil
}

func bi(s string) *big.Int { z, _ := new(big.Int).SetString(s, 10); return z }

// Families returns the hasher configurations; index 0 is always the repository's
// own default PoseidonHasher.
func Default() merklize.Hasher { return merklize.PoseidonHasher{} }

func SmallPrimes() []*big.Int {
	return []*big.Int{big.NewInt(3), big.NewInt(5), big.NewInt(7), big.NewInt(11), big.NewInt(13),
		big.NewInt(251), big.NewInt(65521), bi("2305843009213693951")}
}

func TreePrimes() []*big.Int {
	return []*big.Int{big.NewInt(65521), big.NewInt(2147483647), bi("2305843009213693951")}
}

// Recorder wraps a hasher and logs primitive calls.
type Recorder struct {
	Inner merklize.Hasher
	mu    sync.Mutex
	hash  map[string]hashCall
	bytes map[string]*big.Int // nil value = error
	berr  map[string]bool
}

type hashCall struct {
	in  []*big.Int
	out *big.Int // nil = error
}

func NewRecorder(inner merklize.Hasher) *Recorder {
	return &Recorder{Inner: inner, hash: map[string]hashCall{}, bytes: map[string]*big.Int{}, berr: map[string]bool{}}
}

func (r *Recorder) Prime() *big.Int { return r.Inner.Prime() }

func key(in []*big.Int) string {
	var sb strings.Builder
	for _, x := range in {
		if x == nil {
			sb.WriteString("nil,")
		} else {
			sb.WriteString(x.String() + ",")
		}
	}
	return sb.String()
}

func (r *Recorder) Hash(in []*big.Int) (*big.Int, error) {
	out, err := r.Inner.Hash(in)
	r.mu.Lock()
	defer r.mu.Unlock()
	cp := make([]*big.Int, len(in))
	for i, x := range in {
		if x != nil {
			cp[i] = new(big.Int).Set(x)
		}
	}
	c := hashCall{in: cp}
	if err == nil && out != nil {
		c.out = new(big.Int).Set(out)
	}
	r.hash[key(in)] = c
	return out, err
}

func (r *Recorder) HashBytes(msg []byte) (*big.Int, error) {
	out, err := r.Inner.HashBytes(msg)
	r.mu.Lock()
	defer r.mu.Unlock()
	if err == nil && out != nil {
		r.bytes[string(msg)] = new(big.Int).Set(out)
	} else {
		r.bytes[string(msg)] = nil
	}
	return out, err
}

// Coq renders the recorder as a `raw_hasher` term; strings are interned in f.
func (r *Recorder) Coq(f *coqgen.File) string {
	r.mu.Lock()
	defer r.mu.Unlock()
	var hk []string
	for k := range r.hash {
		hk = append(hk, k)
	}
	sort.Strings(hk)
	var hs []string
	for _, k := range hk {
		c := r.hash[k]
		var ins []string
		bad := false
		for _, x := range c.in {
			if x == nil || x.Sign() < 0 {
				bad = true
				break
			}
			ins = append(ins, coqgen.Limbs(x))
		}
		if bad {
			continue // a nil/negative input can not be expressed; the model reports a miss
		}
		hs = append(hs, fmt.Sprintf("([%s], %s)", strings.Join(ins, ";"), coqgen.OptLimbs(c.out)))
	}
	var bk []string
	for k := range r.bytes {
		bk = append(bk, k)
	}
	sort.Strings(bk)
	var bs []string
	for _, k := range bk {
		bs = append(bs, fmt.Sprintf("(%s, %s)", f.Str(k), coqgen.OptLimbs(r.bytes[k])))
	}
	return fmt.Sprintf("{| rh_prime := %s;\n rh_hash := %s;\n rh_bytes := %s |}",
		coqgen.Limbs(r.Inner.Prime()), coqgen.List(hs), coqgen.List(bs))
}
