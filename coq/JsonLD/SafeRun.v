(* JsonLD/SafeRun.v — evaluation of per-run case files for C15.

   A case carries: the remote contexts (URL -> document), the document, the
   document the harness obtained by removing the members it knows to be
   undefined, a table of PRIMITIVE pipeline runs recorded by the harness through
   the public API without MerklizeJSONLD (json-gold Normalize with fresh options,
   EntriesFromRDFWithHasher, AddEntriesToMerkleTree -> root; proc.Compact with
   SafeMode=false -> ok/error), the implementation's outcome of
   MerklizeJSONLD under several option lists, and the list of dropped members
   the harness established by single-key attribution runs on the implementation.

   The model decides by itself which keys are undefined, which of them make safe
   mode reject, what the stripped document is, and how the options reach
   Normalize / Compact; only the root of a given document comes from the table. *)
From Coq Require Import ZArith List String Ascii Bool Uint63 NArith.
From GSP Require Import Base.Prelude Base.Decode JsonLD.Safe.
Import ListNotations.
Open Scope list_scope.

Fixpoint json_eqb (a b : json) {struct a} : bool :=
  match a, b with
  | JNull, JNull => true
  | JBool x, JBool y => Bool.eqb x y
  | JNum x, JNum y => String.eqb x y
  | JStr x, JStr y => String.eqb x y
  | JArr la, JArr lb =>
      (fix arr (la lb : list json) {struct la} : bool :=
         match la, lb with
         | [], [] => true
         | x :: ta, y :: tb => json_eqb x y && arr ta tb
         | _, _ => false
         end) la lb
  | JObj ma, JObj mb =>
      (fix obj (ma mb : list (string * json)) {struct ma} : bool :=
         match ma, mb with
         | [], [] => true
         | (k, x) :: ta, (k', y) :: tb => String.eqb k k' && json_eqb x y && obj ta tb
         | _, _ => false
         end) ma mb
  | _, _ => false
  end.

(* fuel for context processing: nesting depth of remote contexts / term dependencies *)
Definition run_fuel : nat := 40.

Inductive rpelem := RK (s : string) | RI (i : int).
Definition pelem_eqb (a : pelem) (b : rpelem) : bool :=
  match a, b with
  | PK x, RK y => String.eqb x y
  | PI x, RI y => Z.eqb (Z.of_N x) (Uint63.to_Z y)
  | _, _ => false
  end.
Fixpoint path_eqb (a : path) (b : list rpelem) : bool :=
  match a, b with
  | [], [] => true
  | x :: a', y :: b' => pelem_eqb x y && path_eqb a' b'
  | _, _ => false
  end.
(* observed dropped member: path, and whether safe mode failed to report it *)
Definition rocc := (list rpelem * bool)%type.
Fixpoint occs_eqb (a : list occ) (b : list rocc) : bool :=
  match a, b with
  | [], [] => true
  | (p, s) :: a', (q, t) :: b' => path_eqb p q && Bool.eqb s t && occs_eqb a' b'
  | _, _ => false
  end.

(* recorded primitive pipeline result of one document: the root (Normalize ..
   AddEntriesToMerkleTree into a new tree), whether proc.Compact(SafeMode=false)
   succeeds, and the (key hash, value hash) of every entry EntriesFromRDF returns
   (None: it returns an error) *)
Inductive pres := PRoot (root : limbs) | PErr.
Definition prow := (json * pres * bool * option (list (limbs * limbs)))%type.
Definition ptable := list prow.

Fixpoint plookup (d : json) (t : ptable) : option (pres * bool * option (list (limbs * limbs))) :=
  match t with
  | [] => None
  | (k, r, c, e) :: t' => if json_eqb k d then Some (r, c, e) else plookup d t'
  end.

(* the backend of a case: expansion is the identity on the document — with [scan],
   provided the contexts can be processed under the given loader view (decided by the
   model's own context processing; used for the runs whose loader stops answering,
   switched off elsewhere to keep the evaluation cheap) —, ToRDF is the identity, the
   entries (as key/value hashes) and the compaction outcome come from the table; a miss
   is a Panic and therefore a disagreement.  The tree steps (one Add per entry,
   duplicate keys, failing Add) are the model's. *)
Definition table_backend (scan : bool) (t : ptable) : backend json json (Z * Z) unit :=
  {| b_expand := fun ld d => if scan then
                               match undefined_occ ld run_fuel d with
                               | Ok _ => Ok d
                               | Err e => Err e
                               | Panic w => Panic w
                               | Diverge => Diverge
                               end
                             else Ok d;
     b_to_rdf := fun d => Ok d;
     b_entries := fun d => match plookup d t with
                           | Some (_, _, Some es) =>
                               Ok (map (fun kv => (z_of_limbs (fst kv), z_of_limbs (snd kv))) es)
                           | Some (_, _, None) => Err "entries"
                           | None => Panic "oracle-miss"
                           end;
     b_kv := fun e => Ok e;
     b_compact := fun d => match plookup d t with
                           | Some (_, true, _) => Ok tt
                           | Some (_, false, _) => Err "compact"
                           | None => Panic "oracle-miss"
                           end |}.

Inductive robs := ORoot (root : limbs) | OErr | OPanic | OHang.
(* outcome class; on success into a NEW tree the implementation's root must be the
   root the table records for that document (the model holds the same leaves: it
   added exactly the table's entries) *)
Definition ragree (t : ptable) (d : json) (r : res (list (Z * Z) * mtree)) (o : robs) : bool :=
  match r, o with
  | Ok _, ORoot l =>
      match plookup d t with
      | Some (PRoot root, _, _) => Z.eqb (z_of_limbs root) (z_of_limbs l)
      | _ => false
      end
  | Err _, OErr => true
  | Panic _, OPanic => true
  | _, _ => false
  end.

(* the loader of a case: serves the documents of the table; [allowed] restricts
   what it serves during one phase (None = everything) *)
Definition view_of (t : list (string * json)) (allowed : option (list string)) : lview :=
  fun u =>
    if match allowed with Some a => str_in u a | None => true end
    then match sassoc u t with Some d => Ok d | None => Err "no such document" end
    else Err "fetch failed".
Definition loader_of (t : list (string * json)) (a1 a2 : option (list string)) : option dloader :=
  Some {| dl_normalize := view_of t a1; dl_compact := view_of t a2 |}.

(* options of a run: RLoader = WithDocumentLoader(the case's loader), RNilLoader =
   WithDocumentLoader(nil) *)
Inductive ropt := RSafe (b : bool) | RLoader | RNilLoader | ROther.
Definition opt_of (full : option dloader) (o : ropt) : mz_option :=
  match o with
  | RSafe b => WithSafeMode b
  | RLoader => WithDocumentLoader full
  | RNilLoader => WithDocumentLoader None
  | ROther => OOther
  end.

(* one MerklizeJSONLD call: is the process-wide default loader nil (else it is the
   case's loader), the options, the outcome *)
Definition run := (bool * list ropt * robs)%type.
(* one call with a scripted loader: URLs served while Normalize runs, URLs served
   while Compact runs, safe mode, outcome *)
Definition frun := (list string * list string * bool * robs)%type.

(* one call on the stripped document (default options) with a caller-supplied tree:
   the 0-based index of the Add call that fails, the key hash already present in
   the tree, the outcome *)
Definition trun := (option int * option limbs * robs)%type.
Definition tree_of (r : trun) : mtree :=
  let '(fa, pre, _) := r in
  {| t_leaves := match pre with Some k => [(z_of_limbs k, (-1)%Z)] | None => [] end;
     t_adds := match pre with Some _ => 1 | None => 0 end;
     t_fail_at := match fa with Some i => Some (Z.to_nat (Uint63.to_Z i)) | None => None end |}.

Record c15case := {
  k_id : int;
  k_loader : list (string * json);
  k_doc : json;
  k_stripped : json;
  k_table : ptable;
  k_runs : list run;
  k_flaky : list frun;
  k_trees : list trun;
  k_stripped_unsafe : robs;                (* MerklizeJSONLD(stripped, WithSafeMode(false)) *)
  k_dropped : option (list rocc)           (* None: the implementation could not establish it *)
}.
Definition mkc15 (id : int) (ld : list (string * json)) (d s : json) (t : ptable)
           (runs : list run) (fl : list frun) (tr : list trun) (su : robs) (dr : option (list rocc)) : c15case :=
  {| k_id := id; k_loader := ld; k_doc := d; k_stripped := s; k_table := t; k_runs := runs;
     k_flaky := fl; k_trees := tr; k_stripped_unsafe := su; k_dropped := dr |}.

Definition case_ok (c : c15case) : bool :=
  let full := loader_of (k_loader c) None None in
  let ld := view_of (k_loader c) None in
  let B := table_backend false (k_table c) in
  let Bs := table_backend true (k_table c) in
  let sd := strip_undefined ld run_fuel (k_doc c) in
  (* option plumbing (mode AND loader configuration) + safe-mode decision + root *)
  forallb (fun r : run =>
             let '(default_nil, opts, obs) := r in
             ragree (k_table c) (k_doc c)
                    (MerklizeJSONLD run_fuel B (if default_nil then None else full)
                                    (map (opt_of full) opts) (k_doc c)) obs)
          (k_runs c)
  (* loaders that stop serving at some point of the call *)
  && forallb (fun r : frun =>
             let '(a1, a2, safe, obs) := r in
             ragree (k_table c) (k_doc c) (MerklizeJSONLD run_fuel Bs None
                       [WithDocumentLoader (loader_of (k_loader c) (Some a1) (Some a2)); WithSafeMode safe]
                       (k_doc c)) obs)
          (k_flaky c)
  (* caller-supplied trees: a failing Add step / an occupied path must fail the call *)
  && forallb (fun r : trun =>
             ragree (k_table c) (k_stripped c)
                    (MerklizeJSONLD run_fuel B None [WithDocumentLoader full; WithMerkleTree (tree_of r)]
                                    (k_stripped c)) (snd r))
          (k_trees c)
  (* the model's stripped document is the one the harness built ... *)
  && json_eqb sd (k_stripped c)
  (* ... and merklizing it without safe mode gives what the implementation gives (C15_unsafe) *)
  && ragree (k_table c) sd (merklize_doc run_fuel B false full fresh_tree sd) (k_stripped_unsafe c)
  (* the stripped document has no undefined key left *)
  && match undefined_occ ld run_fuel sd with Ok [] => true | _ => false end
  (* which members were dropped, and which of them safe mode reports *)
  && match k_dropped c with
     | Some dr => match undefined_occ ld run_fuel (k_doc c) with
                  | Ok os => occs_eqb os dr
                  | _ => false
                  end
     | None => true
     end.

Definition c15_mismatches (cs : list c15case) : list int :=
  map k_id (filter (fun c => negb (case_ok c)) cs).
