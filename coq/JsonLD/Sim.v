(* JsonLD/Sim.v — the resolvers' contexts and the document's contexts agree on
   every term that no ancestor's type-scoped context (re)defined: the machinery
   behind C11_doc_vs_store.  (Part of the C11 theory; separate file for build time.) *)
From Coq Require Import ZArith List String Ascii Bool Arith Lia.
From GSP Require Import Base.Prelude RDF.Model JsonLD.Model JsonLD.Resolvers JsonLD.Theory.
Import ListNotations.
Open Scope string_scope.
Open Scope list_scope.

(* agreement of two term maps on a set of terms *)
Definition simA (Ag : string -> Prop) (T1 T2 : terms) : Prop :=
  forall t, Ag t -> assoc String.eqb t T1 = assoc String.eqb t T2.

Lemma simA_weaken : forall (Ag Ag' : string -> Prop) T1 T2,
  (forall t, Ag' t -> Ag t) -> simA Ag T1 T2 -> simA Ag' T1 T2.
Proof. intros Ag Ag' T1 T2 H S t Ht. apply S. apply H. exact Ht. Qed.

Lemma assoc_upsert : forall (T : terms) k d t,
  assoc String.eqb t (upsert String.eqb k d T) = if String.eqb k t then Some d else assoc String.eqb t T.
Proof.
  induction T as [|[a b] T IH]; intros k d t; simpl.
  - destruct (String.eqb k t); reflexivity.
  - destruct (String.eqb a k) eqn:Eak; simpl.
    + apply String.eqb_eq in Eak. subst a.
      destruct (String.eqb k t); reflexivity.
    + destruct (String.eqb a t) eqn:Eat.
      * apply String.eqb_eq in Eat. subst a.
        rewrite String.eqb_sym in Eak. rewrite Eak. reflexivity.
      * apply IH.
Qed.

(* ---- strings a local context refers to ---- *)
Definition with_prefix (s : string) : list string :=
  s :: match split_colon s with Some (p, _) => [p] | None => [] end.
Definition opt_str (o : option json) : list string :=
  match o with Some (JStr s) => [s] | _ => [] end.
Definition def_strings (v : json) : list string :=
  match v with
  | JStr s => [s]
  | JObj m => opt_str (jget "@id" m) ++ opt_str (jget "@type" m)
  | _ => []
  end.
Definition ctx_refs (L : members) : list string :=
  flat_map (fun kv : string * json => flat_map with_prefix (def_strings (snd kv))) L.

(* the two term maps agree on everything L refers to without defining it *)
Definition agree_refs (L : members) (T1 T2 : terms) : Prop :=
  forall x, In x (ctx_refs L) -> jmem x L = false -> assoc String.eqb x T1 = assoc String.eqb x T2.

Lemma expand_agree : forall rec1 rec2 T1 T2 L v,
  (forall x, rec1 x = rec2 x) ->
  (forall x, In x (with_prefix v) -> jmem x L = false -> assoc String.eqb x T1 = assoc String.eqb x T2) ->
  expand_in_ctx rec1 T1 L v = expand_in_ctx rec2 T2 L v.
Proof.
  intros rec1 rec2 T1 T2 L v Hrec Hag. unfold expand_in_ctx.
  destruct (is_keyword v); [reflexivity|].
  destruct (keyword_like v); [reflexivity|].
  destruct (jmem v L) eqn:Hv.
  - rewrite Hrec. reflexivity.
  - rewrite (Hag v) by (unfold with_prefix; simpl; auto).
    destruct (assoc String.eqb v T2); [reflexivity|].
    destruct (split_colon v) as [[pfx sfx]|] eqn:Hsp; [|reflexivity].
    destruct (String.eqb pfx "_" || starts_with "//" sfx); [reflexivity|].
    destruct (jmem pfx L) eqn:Hp.
    + rewrite Hrec. reflexivity.
    + rewrite (Hag pfx); [reflexivity| |exact Hp].
      unfold with_prefix. rewrite Hsp. simpl. auto.
Qed.

Lemma in_ctx_refs : forall L t v s x,
  In (t, v) L -> In s (def_strings v) -> In x (with_prefix s) -> In x (ctx_refs L).
Proof.
  intros L t v s x HL Hs Hx. unfold ctx_refs. apply in_flat_map.
  exists (t, v). split; [exact HL|]. simpl. apply in_flat_map. exists s. auto.
Qed.

Lemma def_of_agree : forall n T1 T2 L t,
  agree_refs L T1 T2 -> def_of n T1 L t = def_of n T2 L t.
Proof.
  induction n as [|n IH]; intros T1 T2 L t Hag; [reflexivity|].
  simpl. destruct (jget t L) as [v|] eqn:Hget; [|reflexivity].
  pose proof (jget_in t L v Hget) as HinL.
  assert (E : forall s, In s (def_strings v) ->
              expand_in_ctx (def_of n T1 L) T1 L s = expand_in_ctx (def_of n T2 L) T2 L s).
  { intros s Hs. apply expand_agree.
    - intro x. apply IH. exact Hag.
    - intros x Hx Hm. apply Hag; [|exact Hm]. eapply in_ctx_refs; eauto. }
  destruct v as [|b|z|s|s|l|m]; try reflexivity.
  - (* JStr s *)
    simpl.
    destruct (is_keyword t); [reflexivity|].
    destruct (keyword_like t); [reflexivity|].
    destruct (has_colon t || has_slash t); [reflexivity|].
    simpl.
    destruct (String.eqb s t); [reflexivity|].
    destruct (negb (is_keyword s) && keyword_like s); [reflexivity|].
    rewrite (E s) by (simpl; auto). reflexivity.
  - (* JObj m *)
    simpl.
    destruct (is_keyword t); [reflexivity|].
    destruct (keyword_like t); [reflexivity|].
    destruct (has_colon t || has_slash t); [reflexivity|].
    destruct (negb (forallb (fun k => str_mem k valid_def_keys) (jkeys m))); [reflexivity|].
    destruct (negb (forallb (fun k => str_mem k subset_def_keys) (jkeys m))); [reflexivity|].
    destruct (jget "@id" m) as [[|b|z|s|idStr|l|m']|] eqn:Hid; try reflexivity.
    destruct (String.eqb idStr t); [reflexivity|].
    destruct (negb (is_keyword idStr) && keyword_like idStr); [reflexivity|].
    rewrite (E idStr) by (simpl; rewrite Hid; simpl; auto).
    destruct (expand_in_ctx (def_of n T2 L) T2 L idStr) as [id| | |]; try reflexivity.
    simpl.
    destruct (negb (is_keyword id || is_abs_iri id)); [reflexivity|].
    destruct (String.eqb id "@context"); [reflexivity|].
    destruct (jget "@type" m) as [[|b|z|s|ts|l|m']|] eqn:Hty; try reflexivity.
    destruct (str_mem ts ["@id"; "@vocab"; "@json"; "@none"]); [reflexivity|].
    rewrite (E ts); [reflexivity|].
    simpl. rewrite Hid, Hty. simpl. auto.
Qed.
