(* JsonLD/Sim.v — the resolvers' contexts and the document's contexts agree on
   every term that no ancestor's type-scoped context (re)defined: the machinery
   behind C11_doc_vs_store.  (Part of the C11 theory; separate file for build time.) *)
From Coq Require Import ZArith List String Ascii Bool Arith Lia.
From GSP Require Import Base.Prelude RDF.Model JsonLD.Model JsonLD.Resolvers JsonLD.Theory.
Import ListNotations.
Open Scope string_scope.
Open Scope list_scope.

(* agreement of two term maps on a set of terms *)
Definition simA (Ag : string -> Prop) (T1 T2 : terms) : Prop :=
  forall t, Ag t -> assoc String.eqb t T1 = assoc String.eqb t T2.

Lemma simA_weaken : forall (Ag Ag' : string -> Prop) T1 T2,
  (forall t, Ag' t -> Ag t) -> simA Ag T1 T2 -> simA Ag' T1 T2.
Proof. intros Ag Ag' T1 T2 H S t Ht. apply S. apply H. exact Ht. Qed.

Lemma assoc_upsert : forall (T : terms) k d t,
  assoc String.eqb t (upsert String.eqb k d T) = if String.eqb k t then Some d else assoc String.eqb t T.
Proof.
  induction T as [|[a b] T IH]; intros k d t; simpl.
  - destruct (String.eqb k t); reflexivity.
  - destruct (String.eqb a k) eqn:Eak; simpl.
    + apply String.eqb_eq in Eak. subst a.
      destruct (String.eqb k t); reflexivity.
    + destruct (String.eqb a t) eqn:Eat.
      * apply String.eqb_eq in Eat. subst a.
        rewrite String.eqb_sym in Eak. rewrite Eak. reflexivity.
      * apply IH.
Qed.

(* ---- strings a local context refers to ---- *)
Definition with_prefix (s : string) : list string :=
  s :: match split_colon s with Some (p, _) => [p] | None => [] end.
Definition opt_list {A} (o : option A) : list A := match o with Some x => [x] | None => [] end.
Definition def_strings (v : json) : list string := opt_list (id_string v) ++ opt_list (type_string v).
Definition ctx_refs (L : members) : list string :=
  flat_map (fun kv : string * json => flat_map with_prefix (def_strings (snd kv))) L.

(* the two term maps agree on everything L refers to without defining it *)
Definition agree_refs (L : members) (T1 T2 : terms) : Prop :=
  forall x, In x (ctx_refs L) -> jmem x L = false -> assoc String.eqb x T1 = assoc String.eqb x T2.

Lemma expand_agree : forall rec1 rec2 T1 T2 L v,
  (forall x, rec1 x = rec2 x) ->
  (forall x, In x (with_prefix v) -> jmem x L = false -> assoc String.eqb x T1 = assoc String.eqb x T2) ->
  expand_in_ctx rec1 T1 L v = expand_in_ctx rec2 T2 L v.
Proof.
  intros rec1 rec2 T1 T2 L v Hrec Hag. unfold expand_in_ctx.
  destruct (is_keyword v); [reflexivity|].
  destruct (keyword_like v); [reflexivity|].
  destruct (jmem v L) eqn:Hv.
  - rewrite Hrec. reflexivity.
  - rewrite (Hag v) by (unfold with_prefix; simpl; auto).
    destruct (assoc String.eqb v T2); [reflexivity|].
    destruct (split_colon v) as [[pfx sfx]|] eqn:Hsp; [|reflexivity].
    destruct (String.eqb pfx "_" || starts_with "//" sfx); [reflexivity|].
    destruct (jmem pfx L) eqn:Hp.
    + rewrite Hrec. reflexivity.
    + rewrite (Hag pfx); [reflexivity| |exact Hp].
      unfold with_prefix. rewrite Hsp. simpl. auto.
Qed.

Lemma in_ctx_refs : forall L t v s x,
  In (t, v) L -> In s (def_strings v) -> In x (with_prefix s) -> In x (ctx_refs L).
Proof.
  intros L t v s x HL Hs Hx. unfold ctx_refs. apply in_flat_map.
  exists (t, v). split; [exact HL|]. simpl. apply in_flat_map. exists s. auto.
Qed.

Lemma def_of_S : forall n T L t,
  def_of (S n) T L t =
  match jget t L with
  | None => Err "internal:no-such-key"
  | Some v => def_core t v (option_map (expand_in_ctx (def_of n T L) T L) (id_string v))
                           (option_map (expand_in_ctx (def_of n T L) T L) (type_string v))
  end.
Proof. reflexivity. Qed.

Lemma def_of_agree : forall n T1 T2 L t,
  agree_refs L T1 T2 -> def_of n T1 L t = def_of n T2 L t.
Proof.
  induction n as [|n IH]; intros T1 T2 L t Hag; [reflexivity|].
  rewrite !def_of_S. destruct (jget t L) as [v|] eqn:Hget; [|reflexivity].
  pose proof (jget_in t L v Hget) as HinL.
  assert (E : forall s, In s (def_strings v) ->
              expand_in_ctx (def_of n T1 L) T1 L s = expand_in_ctx (def_of n T2 L) T2 L s).
  { intros s Hs. apply expand_agree.
    - intro x. apply IH. exact Hag.
    - intros x Hx Hm. apply Hag; [|exact Hm]. eapply in_ctx_refs; eauto. }
  f_equal.
  - destruct (id_string v) as [s|] eqn:Hi; [|reflexivity]. cbn [option_map]. f_equal.
    apply E. unfold def_strings. rewrite Hi. cbn [opt_list app]. left. reflexivity.
  - destruct (type_string v) as [s|] eqn:Hi; [|reflexivity]. cbn [option_map]. f_equal.
    apply E. unfold def_strings. rewrite Hi. apply in_or_app. right. left. reflexivity.
Qed.

(* ---- define_all / parse_obj / parse_terms preserve and extend agreement ---- *)
Definition skip_key (k : string) : bool := str_mem k non_term_keys || String.eqb k "@propagate".
Definition term_keys_of (ks : list string) : list string := filter (fun k => negb (skip_key k)) ks.

Lemma define_all_cons : forall T L k r acc,
  define_all T L (k :: r) acc =
  if skip_key k then define_all T L r acc
  else d <- def_of (S (List.length L)) T L k ;; define_all T L r (upsert String.eqb k d acc).
Proof. reflexivity. Qed.

Lemma define_all_sim : forall T1 T2 L ks (Ag : string -> Prop) A1 A2 R1 R2,
  agree_refs L T1 T2 ->
  simA Ag A1 A2 ->
  define_all T1 L ks A1 = Ok R1 -> define_all T2 L ks A2 = Ok R2 ->
  simA (fun t => Ag t \/ In t (term_keys_of ks)) R1 R2.
Proof.
  intros T1 T2 L ks. induction ks as [|k r IH]; intros Ag A1 A2 R1 R2 Hag Hs H1 H2.
  - cbn in H1, H2. inversion H1; inversion H2; subst.
    intros t [Ht|[]]. apply Hs. exact Ht.
  - rewrite define_all_cons in H1, H2. unfold term_keys_of. cbn [filter].
    destruct (skip_key k) eqn:Hsk; cbn [negb].
    + exact (IH Ag A1 A2 R1 R2 Hag Hs H1 H2).
    + rewrite (def_of_agree _ T1 T2 L k Hag) in H1.
      destruct (def_of (S (List.length L)) T2 L k) as [d| | |]; try discriminate.
      cbn [bind] in H1, H2.
      assert (Hs' : simA (fun t => Ag t \/ t = k) (upsert String.eqb k d A1) (upsert String.eqb k d A2)).
      { intros t Ht. rewrite !assoc_upsert.
        destruct (String.eqb k t) eqn:E; [reflexivity|].
        destruct Ht as [Ht|Ht]; [apply Hs; exact Ht|].
        subst t. rewrite String.eqb_refl in E. discriminate. }
      pose proof (IH _ _ _ _ _ Hag Hs' H1 H2) as Hr.
      intros t Ht. apply Hr.
      destruct Ht as [Ht|[Ht|Ht]]; [left; left; exact Ht | left; right; symmetry; exact Ht | right; exact Ht].
Qed.

Definition ctx_obj_of (m0 : members) : members :=
  match jget "@context" m0 with Some (JObj m') => m' | _ => m0 end.
Definition term_keys (L : members) : list string := term_keys_of (jkeys L).

Lemma parse_obj_ok : forall T m0 R,
  parse_obj T m0 = Ok R ->
  define_all T (ctx_obj_of m0) (jkeys (ctx_obj_of m0)) T = Ok R.
Proof.
  intros T m0 R H. unfold parse_obj in H. unfold ctx_obj_of.
  apply bind_ok in H. destruct H as [m [Hm H]].
  assert (Em : m = match jget "@context" m0 with Some (JObj m') => m' | _ => m0 end).
  { destruct (jget "@context" m0) as [[| | | | | |m']|]; inversion Hm; reflexivity. }
  rewrite <- Em.
  destruct (existsb (fun k => jmem k m) unsupported_ctx_keys); [discriminate|].
  apply bind_ok in H. destruct H as [u1 [_ H]].
  apply bind_ok in H. destruct H as [u2 [_ H]]. exact H.
Qed.

Lemma parse_obj_sim : forall (Ag : string -> Prop) T1 T2 m0 R1 R2,
  simA Ag T1 T2 ->
  (forall x, In x (ctx_refs (ctx_obj_of m0)) -> jmem x (ctx_obj_of m0) = false -> Ag x) ->
  parse_obj T1 m0 = Ok R1 -> parse_obj T2 m0 = Ok R2 ->
  simA (fun t => Ag t \/ In t (term_keys (ctx_obj_of m0))) R1 R2.
Proof.
  intros Ag T1 T2 m0 R1 R2 Hs Hcl H1 H2.
  apply parse_obj_ok in H1. apply parse_obj_ok in H2.
  eapply define_all_sim; [|exact Hs|exact H1|exact H2].
  intros x Hx Hm. apply Hs. apply Hcl; assumption.
Qed.

(* the context objects Context.parse visits (through arrays and the loader) *)
Fixpoint lc_items (n : nat) (ld : loader) (lc : json) : list members :=
  match n with
  | O => []
  | S n' =>
      flat_map (fun c =>
        match c with
        | JObj m => [ctx_obj_of m]
        | JStr url =>
            match assoc String.eqb url ld with
            | Some (JObj dm) => match jget "@context" dm with Some inner => lc_items n' ld inner | None => [] end
            | _ => []
            end
        | _ => []
        end) (arrayify lc)
  end.
Definition lc_keys (n : nat) (ld : loader) (lc : json) : list string := flat_map term_keys (lc_items n ld lc).

(* every context object refers only to terms it defines itself or to agreed terms *)
Definition closed_lc (Ag : string -> Prop) (n : nat) (ld : loader) (lc : json) : Prop :=
  forall L, In L (lc_items n ld lc) -> forall x, In x (ctx_refs L) -> jmem x L = false -> Ag x.

Definition pstep (n' : nat) (ld : loader) (acc : res terms) (c : json) : res terms :=
  r <- acc ;; parse_item (parse_terms n' ld) ld r c.

Lemma parse_terms_S : forall n ld T lc,
  parse_terms (S n) ld T lc = fold_left (pstep n ld) (arrayify lc) (Ok T).
Proof. reflexivity. Qed.

Lemma fold_pstep_not_ok : forall n ld l e R,
  (forall a, e <> Ok a) -> fold_left (pstep n ld) l e <> Ok R.
Proof.
  intros n ld l. induction l as [|c l IH]; intros e R He; cbn [fold_left].
  - apply He.
  - apply IH. intros a. unfold pstep. destruct e; cbn [bind]; try discriminate. exfalso. eapply He; reflexivity.
Qed.

Lemma fold_pstep_cons_ok : forall n ld c l A R,
  fold_left (pstep n ld) (c :: l) (Ok A) = Ok R ->
  exists B, parse_item (parse_terms n ld) ld A c = Ok B /\ fold_left (pstep n ld) l (Ok B) = Ok R.
Proof.
  intros n ld c l A R H. cbn [fold_left] in H. unfold pstep at 2 in H. cbn [bind] in H.
  destruct (parse_item (parse_terms n ld) ld A c) as [B| | |] eqn:E.
  - exists B. auto.
  - exfalso. eapply fold_pstep_not_ok; [|exact H]. intros a; discriminate.
  - exfalso. eapply fold_pstep_not_ok; [|exact H]. intros a; discriminate.
  - exfalso. eapply fold_pstep_not_ok; [|exact H]. intros a; discriminate.
Qed.

Definition item_objs (n' : nat) (ld : loader) (c : json) : list members :=
  match c with
  | JObj m => [ctx_obj_of m]
  | JStr url =>
      match assoc String.eqb url ld with
      | Some (JObj dm) => match jget "@context" dm with Some inner => lc_items n' ld inner | None => [] end
      | _ => []
      end
  | _ => []
  end.

Lemma lc_items_S : forall n ld lc, lc_items (S n) ld lc = flat_map (item_objs n ld) (arrayify lc).
Proof. reflexivity. Qed.

Lemma parse_terms_sim : forall n ld lc (Ag : string -> Prop) T1 T2 R1 R2,
  simA Ag T1 T2 -> closed_lc Ag n ld lc ->
  parse_terms n ld T1 lc = Ok R1 -> parse_terms n ld T2 lc = Ok R2 ->
  simA (fun t => Ag t \/ In t (lc_keys n ld lc)) R1 R2.
Proof.
  induction n as [|n IHn]; intros ld lc Ag T1 T2 R1 R2 Hs Hcl H1 H2.
  - cbn in H1. discriminate.
  - rewrite parse_terms_S in H1, H2. unfold lc_keys. rewrite lc_items_S.
    unfold closed_lc in Hcl. rewrite lc_items_S in Hcl.
    revert Ag T1 T2 Hs Hcl H1 H2.
    generalize (arrayify lc) as l. induction l as [|c l IHl]; intros Ag T1 T2 Hs Hcl H1 H2.
    + cbn in H1, H2. inversion H1; inversion H2; subst. intros t [Ht|[]]. apply Hs; exact Ht.
    + apply fold_pstep_cons_ok in H1. destruct H1 as [B1 [Hi1 H1]].
      apply fold_pstep_cons_ok in H2. destruct H2 as [B2 [Hi2 H2]].
      assert (Hstep : simA (fun t => Ag t \/ In t (flat_map term_keys (item_objs n ld c))) B1 B2).
      { destruct c as [|b|z|s|url|l0|m]; cbn [parse_item] in Hi1, Hi2; try discriminate.
        - inversion Hi1; inversion Hi2; subst. intros t _. reflexivity.
        - cbn [item_objs].
          destruct (assoc String.eqb url ld) as [[| | | | | |dm]|] eqn:Ea; try discriminate.
          destruct (jget "@context" dm) as [inner|] eqn:Ec; [|discriminate].
          apply (IHn ld inner Ag T1 T2 B1 B2 Hs); [|exact Hi1|exact Hi2].
          intros L HL. apply Hcl. cbn [flat_map]. apply in_or_app. left.
          cbn [item_objs]. rewrite Ea, Ec. exact HL.
        - cbn [item_objs flat_map]. rewrite app_nil_r.
          apply (parse_obj_sim Ag T1 T2 m B1 B2 Hs); [|exact Hi1|exact Hi2].
          intros x Hx Hm. apply (Hcl (ctx_obj_of m)); [|exact Hx|exact Hm].
          cbn [flat_map item_objs]. left. reflexivity. }
      assert (Hcl' : forall L, In L (flat_map (item_objs n ld) l) ->
                     forall x, In x (ctx_refs L) -> jmem x L = false ->
                     Ag x \/ In x (flat_map term_keys (item_objs n ld c))).
      { intros L HL x Hx Hm. left. apply (Hcl L); [|exact Hx|exact Hm].
        cbn [flat_map]. apply in_or_app. right. exact HL. }
      pose proof (IHl _ B1 B2 Hstep Hcl' H1 H2) as Hr.
      intros t Ht. apply Hr. cbn [flat_map] in Ht. rewrite flat_map_app in Ht.
      destruct Ht as [Ht|Ht]; [left; left; exact Ht|].
      apply in_app_or in Ht. destruct Ht as [Ht|Ht]; [left; right; exact Ht|right; exact Ht].
Qed.

(* ---- contexts ---- *)
Definition simC (Ag : string -> Prop) (Gr Gs : ctx) : Prop := simA Ag (c_terms Gr) (c_terms Gs).

Lemma simC_term_def : forall Ag Gr Gs t, simC Ag Gr Gs -> Ag t -> term_def Gr t = term_def Gs t.
Proof. intros Ag Gr Gs t H Ht. unfold term_def. apply H. exact Ht. Qed.

Lemma parse_sim : forall ld lc (Ag : string -> Prop) Gr Gs b1 b2 Gr' Gs',
  simC Ag Gr Gs -> closed_lc Ag parse_fuel ld lc ->
  parse parse_fuel ld Gr lc b1 = Ok Gr' -> parse parse_fuel ld Gs lc b2 = Ok Gs' ->
  simC (fun t => Ag t \/ In t (lc_keys parse_fuel ld lc)) Gr' Gs'.
Proof.
  intros ld lc Ag Gr Gs b1 b2 Gr' Gs' Hs Hcl H1 H2.
  apply parse_terms_of in H1. apply parse_terms_of in H2.
  unfold simC. eapply parse_terms_sim; eauto.
Qed.

Definition opt_cparse (ld : loader) (G : ctx) (o : option json) : res ctx :=
  match o with Some s => cparse ld G s | None => Ok G end.
Definition opt_keys (ld : loader) (o : option json) : list string :=
  match o with Some s => lc_keys parse_fuel ld s | None => [] end.
Definition closed_opt (Ag : string -> Prop) (ld : loader) (o : option json) : Prop :=
  match o with Some s => closed_lc Ag parse_fuel ld s | None => True end.

Lemma opt_cparse_sim : forall ld o (Ag : string -> Prop) Gr Gs Gr' Gs',
  simC Ag Gr Gs -> closed_opt Ag ld o ->
  opt_cparse ld Gr o = Ok Gr' -> opt_cparse ld Gs o = Ok Gs' ->
  simC (fun t => Ag t \/ In t (opt_keys ld o)) Gr' Gs'.
Proof.
  intros ld o Ag Gr Gs Gr' Gs' Hs Hcl H1 H2. destruct o as [s|]; cbn in *.
  - unfold cparse in H1, H2. eapply parse_sim; eauto.
  - inversion H1; inversion H2; subst. intros t [Ht|[]]. apply Hs; exact Ht.
Qed.

(* ---- keys without a colon expand through their term definition only ---- *)
Lemma split_colon_aux_none : forall s acc, has_colon s = false -> split_colon_aux acc s = None.
Proof.
  induction s as [|c s IH]; intros acc H; cbn in *; [reflexivity|].
  apply orb_false_iff in H. destruct H as [Hc Hs]. rewrite Hc. apply IH. exact Hs.
Qed.

Lemma split_colon_none : forall s, has_colon s = false -> split_colon s = None.
Proof.
  intros s H. destruct s as [|c s]; [reflexivity|].
  unfold split_colon. cbn in H. apply orb_false_iff in H. destruct H as [Hc Hs].
  rewrite Hc. cbn [split_colon_aux]. rewrite Hc. apply split_colon_aux_none. exact Hs.
Qed.

Lemma expand_doc_agree : forall G1 G2 k,
  has_colon k = false -> term_def G1 k = term_def G2 k -> expand_doc G1 true k = expand_doc G2 true k.
Proof.
  intros G1 G2 k Hc Hd. unfold expand_doc. rewrite Hd. rewrite (split_colon_none k Hc). reflexivity.
Qed.

Lemma find_ext_in : forall {A} (f g : A -> bool) l, (forall x, In x l -> f x = g x) -> find f l = find g l.
Proof.
  intros A f g l. induction l as [|h t IH]; intros H; cbn; [reflexivity|].
  rewrite (H h) by (left; reflexivity). destruct (g h); [reflexivity|].
  apply IH. intros x Hx. apply H. right. exact Hx.
Qed.

Lemma str_ins_in : forall s l x, In x (str_ins s l) -> x = s \/ In x l.
Proof.
  intros s l. induction l as [|h t IH]; intros x H; cbn in H.
  - destruct H as [H|[]]. left. symmetry. exact H.
  - destruct (str_leb s h).
    + destruct H as [H|H]; [left; symmetry; exact H|right; exact H].
    + destruct H as [H|H]; [right; left; exact H|].
      destruct (IH x H) as [E|E]; [left; exact E|right; right; exact E].
Qed.

Lemma sort_strings_in : forall l x, In x (sort_strings l) -> In x l.
Proof.
  induction l as [|h t IH]; intros x H; cbn in H; [exact H|].
  apply str_ins_in in H. destruct H as [H|H]; [left; symmetry; exact H|right; apply IH; exact H].
Qed.

(* same @type key on both sides *)
Lemma type_key_agree : forall (Ag : string -> Prop) Gr Gs m,
  simC Ag Gr Gs ->
  (forall k, In k (jkeys m) -> has_colon k = false /\
     (Ag k \/ (expand_doc Gr true k <> "@type" /\ expand_doc Gs true k <> "@type"))) ->
  type_key Gr m = type_key Gs m.
Proof.
  intros Ag Gr Gs m Hs Hk. unfold type_key. apply find_ext_in.
  intros k Hin. apply sort_strings_in in Hin. destruct (Hk k Hin) as [Hc [Ha|[Hr Hsn]]].
  - rewrite (expand_doc_agree Gr Gs k Hc (simC_term_def Ag Gr Gs k Hs Ha)). reflexivity.
  - destruct (String.eqb (expand_doc Gr true k) "@type") eqn:E1.
    + apply String.eqb_eq in E1. contradiction.
    + destruct (String.eqb (expand_doc Gs true k) "@type") eqn:E2; [|reflexivity].
      apply String.eqb_eq in E2. contradiction.
Qed.

(* ---- type-scoped contexts ---- *)
Definition ts_step (P : ctx -> json -> res ctx) (G3 : ctx) (acc : res ctx) (tt : string) : res ctx :=
  r <- acc ;;
  match term_def G3 tt with
  | Some d => match td_ctx d with Some c => P r c | None => Ok r end
  | None => Ok r
  end.

Lemma apply_type_scoped_fold : forall P G3 tys,
  apply_type_scoped P G3 tys = fold_left (ts_step P G3) tys (Ok G3).
Proof. reflexivity. Qed.

Lemma fold_ts_not_ok : forall P G3 l e R, (forall a, e <> Ok a) -> fold_left (ts_step P G3) l e <> Ok R.
Proof.
  intros P G3 l. induction l as [|c l IH]; intros e R He; cbn [fold_left].
  - apply He.
  - apply IH. intros a. unfold ts_step. destruct e; cbn [bind]; try discriminate. exfalso. eapply He; reflexivity.
Qed.

Definition type_ctx (G3 : ctx) (tt : string) : option json :=
  match term_def G3 tt with Some d => td_ctx d | None => None end.

Lemma fold_ts_cons_ok : forall P G3 tt l A R,
  fold_left (ts_step P G3) (tt :: l) (Ok A) = Ok R ->
  exists B, match type_ctx G3 tt with Some c => P A c | None => Ok A end = Ok B /\
            fold_left (ts_step P G3) l (Ok B) = Ok R.
Proof.
  intros P G3 tt l A R H. cbn [fold_left] in H. unfold ts_step at 2 in H. cbn [bind] in H.
  unfold type_ctx.
  destruct (term_def G3 tt) as [d|].
  - destruct (td_ctx d) as [c|].
    + destruct (P A c) as [B| | |] eqn:E; [exists B; auto| | |];
        exfalso; (eapply fold_ts_not_ok; [|exact H]); intros a; discriminate.
    + exists A. auto.
  - exists A. auto.
Qed.

Lemma type_scoped_sim : forall ld (Ag0 : string -> Prop) Gr1 G3 tys,
  (forall tt, In tt tys -> type_ctx Gr1 tt = type_ctx G3 tt /\ closed_opt Ag0 ld (type_ctx G3 tt)) ->
  forall (Ag : string -> Prop) A B Gr2 G4,
  (forall t, Ag0 t -> Ag t) ->
  simC Ag A B ->
  fold_left (ts_step (cparse ld) Gr1) tys (Ok A) = Ok Gr2 ->
  fold_left (ts_step (cparse_typescoped ld) G3) tys (Ok B) = Ok G4 ->
  simC (fun t => Ag t \/ In t (flat_map (fun tt => opt_keys ld (type_ctx G3 tt)) tys)) Gr2 G4.
Proof.
  intros ld Ag0 Gr1 G3 tys. induction tys as [|tt l IH]; intros Htt Ag A B Gr2 G4 Hsub Hs H1 H2.
  - cbn in H1, H2. inversion H1; inversion H2; subst. intros t [Ht|[]]. apply Hs; exact Ht.
  - apply fold_ts_cons_ok in H1. destruct H1 as [A' [Ha H1]].
    apply fold_ts_cons_ok in H2. destruct H2 as [B' [Hb H2]].
    destruct (Htt tt (or_introl eq_refl)) as [Heq Hcl]. rewrite Heq in Ha.
    assert (Hs' : simC (fun t => Ag t \/ In t (opt_keys ld (type_ctx G3 tt))) A' B').
    { destruct (type_ctx G3 tt) as [c|]; cbn [opt_keys].
      - unfold cparse in Ha. unfold cparse_typescoped in Hb.
        eapply parse_sim; [exact Hs| |exact Ha|exact Hb].
        cbn [closed_opt] in Hcl. intros L HL x Hx Hm. apply Hsub. eapply Hcl; eauto.
      - inversion Ha; inversion Hb; subst. intros t [Ht|[]]. apply Hs; exact Ht. }
    assert (Htt' : forall tt0, In tt0 l -> type_ctx Gr1 tt0 = type_ctx G3 tt0 /\ closed_opt Ag0 ld (type_ctx G3 tt0)).
    { intros tt0 Hin. apply Htt. right. exact Hin. }
    assert (Hsub' : forall t, Ag0 t -> Ag t \/ In t (opt_keys ld (type_ctx G3 tt))) by (intros t Ht; left; apply Hsub; exact Ht).
    pose proof (IH Htt' _ A' B' Gr2 G4 Hsub' Hs' H1 H2) as Hr.
    intros t Ht. apply Hr. cbn [flat_map] in Ht.
    destruct Ht as [Ht|Ht]; [left; left; exact Ht|].
    apply in_app_or in Ht. destruct Ht as [Ht|Ht]; [left; right; exact Ht|right; exact Ht].
Qed.

(* ---- entering a node: resolver (no revert, Context.Parse everywhere) vs document semantics ---- *)
Definition sorted_types (v : json) (tys : list string) : list string :=
  match v with JArr _ => sort_strings tys | _ => tys end.

Definition node_types (G3 : ctx) (m : members) : list string :=
  match type_key G3 m with
  | Some k => match jget k m with
              | Some v => match type_values v with Ok tys => sorted_types v tys | _ => [] end
              | None => []
              end
  | None => []
  end.

(* terms on which the contexts still agree after the type-scoped contexts of the parent
   have been reverted on the document side (and kept by the resolver) *)
Definition Ag_revert (Ag : string -> Prop) (GsP : ctx) : string -> Prop :=
  fun t => Ag t /\ term_def (revert GsP) t = term_def GsP t.
Definition Ag_local (Ag : string -> Prop) (ld : loader) (GsP : ctx) (scoped : option json) (m : members)
  : string -> Prop :=
  fun t => (Ag_revert Ag GsP t \/ In t (opt_keys ld scoped)) \/ In t (opt_keys ld (jget "@context" m)).
Definition Ag_node (Ag : string -> Prop) (ld : loader) (GsP : ctx) (scoped : option json) (m : members) (G3 : ctx)
  : string -> Prop :=
  fun t => Ag_local Ag ld GsP scoped m t \/
           In t (flat_map (fun tt => opt_keys ld (type_ctx G3 tt)) (node_types G3 m)).

Record node_ok (ld : loader) (Ag : string -> Prop) (GsP : ctx) (scoped : option json) (m : members)
  (Gr1 G3 : ctx) : Prop := {
  nk_scoped : closed_opt (Ag_revert Ag GsP) ld scoped;
  nk_local : closed_opt (fun t => Ag_revert Ag GsP t \/ In t (opt_keys ld scoped)) ld (jget "@context" m);
  nk_keys : forall k, In k (jkeys m) -> has_colon k = false /\
              (Ag_local Ag ld GsP scoped m k \/
               (expand_doc Gr1 true k <> "@type" /\ expand_doc G3 true k <> "@type"));
  nk_types : forall tt, In tt (node_types G3 m) ->
              Ag_local Ag ld GsP scoped m tt /\ closed_opt (Ag_local Ag ld GsP scoped m) ld (type_ctx G3 tt)
}.

Lemma revert_sim : forall (Ag : string -> Prop) GrP GsP,
  simC Ag GrP GsP -> simC (Ag_revert Ag GsP) GrP (revert GsP).
Proof.
  intros Ag GrP GsP Hs t [Ht Hr]. rewrite (Hs t Ht). unfold term_def in Hr. symmetry. exact Hr.
Qed.

Lemma simC_weaken : forall (Ag Ag' : string -> Prop) G1 G2,
  (forall t, Ag' t -> Ag t) -> simC Ag G1 G2 -> simC Ag' G1 G2.
Proof. intros. eapply simA_weaken; eauto. Qed.

Lemma type_ctx_agree : forall (Ag : string -> Prop) Gr Gs tt, simC Ag Gr Gs -> Ag tt -> type_ctx Gr tt = type_ctx Gs tt.
Proof. intros Ag Gr Gs tt H Ht. unfold type_ctx. rewrite (simC_term_def Ag Gr Gs tt H Ht). reflexivity. Qed.

Lemma enter_sim : forall ld (Ag : string -> Prop) GrP GsP scoped m GrIn Gr2 G3 G4,
  simC Ag GrP GsP ->
  opt_cparse ld GrP scoped = Ok GrIn ->
  resolver_enter ld GrIn m = Ok Gr2 ->
  enter_node ld GsP scoped m = Ok (G3, G4) ->
  (forall Gr1, opt_cparse ld GrIn (jget "@context" m) = Ok Gr1 -> node_ok ld Ag GsP scoped m Gr1 G3) ->
  simC (Ag_node Ag ld GsP scoped m G3) Gr2 G4.
Proof.
  intros ld Ag GrP GsP scoped m GrIn Gr2 G3 G4 Hs Hin Hr He Hok.
  unfold resolver_enter in Hr.
  change (match jget "@context" m with Some c => cparse ld GrIn c | None => Ok GrIn end)
    with (opt_cparse ld GrIn (jget "@context" m)) in Hr.
  apply bind_ok in Hr. destruct Hr as [Gr1 [Hr1 Hr]].
  specialize (Hok Gr1 Hr1). destruct Hok as [Hc1 Hc2 Hkeys Htys].
  unfold enter_node in He.
  change (match scoped with Some s => cparse ld (revert GsP) s | None => Ok (revert GsP) end)
    with (opt_cparse ld (revert GsP) scoped) in He.
  apply bind_ok in He. destruct He as [G2 [He2 He]].
  change (match jget "@context" m with Some c => cparse ld G2 c | None => Ok G2 end)
    with (opt_cparse ld G2 (jget "@context" m)) in He.
  apply bind_ok in He. destruct He as [G3' [He3 He]].
  pose proof (revert_sim Ag GrP GsP Hs) as S1.
  pose proof (opt_cparse_sim ld scoped _ _ _ _ _ S1 Hc1 Hin He2) as S2.
  pose proof (opt_cparse_sim ld (jget "@context" m) _ _ _ _ _ S2 Hc2 Hr1 He3) as S3.
  assert (E3 : G3' = G3).
  { destruct (type_key G3' m).
    - apply bind_ok in He. destruct He as [tys [_ He]].
      apply bind_ok in He. destruct He as [G4' [_ He]]. inversion He. reflexivity.
    - inversion He. reflexivity. }
  subst G3'.
  fold (Ag_local Ag ld GsP scoped m) in S3.
  assert (Ek : type_key Gr1 m = type_key G3 m).
  { eapply type_key_agree; [exact S3|]. exact Hkeys. }
  rewrite Ek in Hr. unfold node_types in Htys. unfold Ag_node, node_types.
  destruct (type_key G3 m) as [k|].
  - destruct (jget k m) as [v|] eqn:Hv.
    + unfold resolver_types in Hr.
      apply bind_ok in Hr. destruct Hr as [tys [Hr0 Hr]].
      apply bind_ok in Hr0. destruct Hr0 as [tys0 [Htv Hr0]]. inversion Hr0; subst tys.
      apply bind_ok in He. destruct He as [tys1 [Htv1 He]].
      rewrite Htv in Htv1. inversion Htv1; subst tys1.
      apply bind_ok in He. destruct He as [G4' [He4 He]]. inversion He; subst G4'.
      rewrite Htv in Htys. rewrite Htv.
      rewrite apply_type_scoped_fold in Hr, He4.
      assert (Es : match v with JArr _ => sort_strings tys0 | _ => tys0 end = sorted_types v tys0) by reflexivity.
      rewrite Es in He4. fold (sorted_types v tys0) in Hr.
      eapply (type_scoped_sim ld (Ag_local Ag ld GsP scoped m) Gr1 G3 (sorted_types v tys0)); try eassumption.
      * intros tt Htt. destruct (Htys tt Htt) as [Ha Hcl]. split; [|exact Hcl].
        eapply type_ctx_agree; eauto.
      * auto.
    + cbn in Hr, He. inversion Hr; subst Gr2. inversion He; subst G4.
      intros t [Ht|[]]. apply S3. exact Ht.
  - inversion Hr; subst Gr2. inversion He; subst G4.
    intros t [Ht|[]]. apply S3. exact Ht.
Qed.

(* ---- unfolding lemmas for the document-side resolver ---- *)
Definition getv (term : string) (m : members) : json :=
  match jget term m with Some v => v | None => JNull end.

Lemma pfd_nil : forall ld G doc acc, pfd ld [] G doc acc = Ok [].
Proof. reflexivity. Qed.

Lemma pfd_num : forall ld i r G doc acc, is_num i = true ->
  pfd ld (i :: r) G doc acc =
  if Z.leb (num_val i) max_int32 then
    match doc with
    | JArr l => match nth_error l (Z.to_nat (num_val i)) with
                | Some x => more <- pfd ld r G x false ;; Ok (PInt (num_val i) :: more)
                | None => Err "index-out-of-range"
                end
    | _ => more <- pfd ld r G doc true ;; Ok (PInt (num_val i) :: more)
    end
  else Err "parse-int".
Proof. intros. cbn [pfd]. rewrite H. reflexivity. Qed.

Lemma pfd_term : forall ld t r G doc acc, is_num t = false ->
  pfd ld (t :: r) G doc acc =
  (m <- resolver_object doc acc ;;
   G2 <- resolver_enter ld (match G with Some g => g | None => empty_ctx end) m ;;
   match term_def G2 t with
   | None => Err "no-id-for-term"
   | Some d =>
       G3 <- opt_cparse ld G2 (td_ctx d) ;;
       more <- pfd ld r (Some G3) (getv t m) true ;;
       Ok (PStr (td_id d) :: more)
   end).
Proof. intros. cbn [pfd]. rewrite H. reflexivity. Qed.

Lemma pfd_arr_head : forall ld t r G m' tl, is_num t = false ->
  pfd ld (t :: r) G (JArr (JObj m' :: tl)) true = pfd ld (t :: r) G (JObj m') true.
Proof. intros ld t r G m' tl Hn. rewrite !pfd_term by exact Hn. reflexivity. Qed.

Lemma pfd_none : forall ld pi doc acc, pfd ld pi None doc acc = pfd ld pi (Some empty_ctx) doc acc.
Proof.
  intros ld pi. induction pi as [|t r IH]; intros doc acc; [reflexivity|].
  destruct (is_num t) eqn:Hn.
  - rewrite !pfd_num by exact Hn.
    destruct (Z.leb (num_val t) max_int32); [|reflexivity].
    destruct doc as [| | | | |l|]; try (rewrite IH; reflexivity).
    destruct (nth_error l (Z.to_nat (num_val t))); [|reflexivity]. rewrite IH. reflexivity.
  - rewrite !pfd_term by exact Hn. reflexivity.
Qed.

(* ---- the side conditions along the path: nothing the walk uses below a node was
   defined or changed by a type-scoped context of an ancestor ---- *)
Fixpoint ok_along (ld : loader) (pi : list string) (Ag : string -> Prop) (GrP GsP : ctx)
  (scoped : option json) (m : members) {struct pi} : Prop :=
  match pi with
  | [] => True
  | term :: rest =>
      forall GrIn Gr2 G3 G4,
        opt_cparse ld GrP scoped = Ok GrIn ->
        resolver_enter ld GrIn m = Ok Gr2 ->
        enter_node ld GsP scoped m = Ok (G3, G4) ->
        (forall Gr1, opt_cparse ld GrIn (jget "@context" m) = Ok Gr1 -> node_ok ld Ag GsP scoped m Gr1 G3) /\
        Ag_node Ag ld GsP scoped m G3 term /\
        forall d, term_def G4 term = Some d ->
          match jget term m with
          | Some (JArr []) => True
          | Some (JArr [x]) =>
              match x with
              | JObj m' => ok_along ld rest (Ag_node Ag ld GsP scoped m G3) Gr2 G4 (td_ctx d) m'
              | _ => True
              end
          | Some (JArr l) =>
              match rest with
              | i :: rest' =>
                  match nth_error l (Z.to_nat (num_val i)) with
                  | Some (JObj m') =>
                      ok_along ld rest' (Ag_node Ag ld GsP scoped m G3) Gr2 G4 (td_ctx d) m'
                  | _ => True
                  end
              | [] => True
              end
          | Some (JObj m') => ok_along ld rest (Ag_node Ag ld GsP scoped m G3) Gr2 G4 (td_ctx d) m'
          | _ => True
          end
  end.

Lemma expand_doc_def : forall G t d,
  is_keyword (expand_doc G true t) = false ->
  String.eqb (expand_doc G true t) "" = false ->
  term_def G t = Some d -> expand_doc G true t = td_id d.
Proof.
  intros G t d Hk He Hd. unfold expand_doc in *.
  destruct (is_keyword t) eqn:E1; [congruence|].
  destruct (keyword_like t) eqn:E2; [cbn in He; discriminate|].
  rewrite Hd. reflexivity.
Qed.

Lemma field_step_scalar_path : forall ld G4 d x pe rec l,
  is_scalar x = true ->
  field_step ld G4 d x pe [] rec = Ok l -> leaf_path l = pe.
Proof.
  intros ld G4 d x pe rec l Hs H.
  destruct x; cbn in Hs; try discriminate; cbn [field_step] in H;
    apply bind_ok in H; destruct H as [fs [Hsf H]];
    destruct (scalar_fact_shape _ _ _ _ _ _ Hsf) as [f0 [Hfs [Hp _]]]; subst fs;
    inversion H; subst l; unfold leaf_path; cbn; exact Hp.
Qed.

Lemma field_step_scalar_rest : forall ld G4 d x pe r rec l,
  is_scalar x = true -> field_step ld G4 d x pe r rec = Ok l -> r = [].
Proof.
  intros ld G4 d x pe r rec l Hs H.
  destruct r; [reflexivity|]. destruct x; cbn in Hs; try discriminate; cbn [field_step] in H; discriminate.
Qed.

(* the statement for one path (induction hypothesis) *)
Definition main_stmt (ld : loader) (pi : list string) : Prop :=
  forall (Ag : string -> Prop) GrP GsP scoped m GrIn G3 G4 acc p l,
  simC Ag GrP GsP ->
  opt_cparse ld GrP scoped = Ok GrIn ->
  pfd ld pi (Some GrIn) (JObj m) acc = Ok p ->
  enter_node ld GsP scoped m = Ok (G3, G4) ->
  field_at ld pi G3 G4 m = Ok l ->
  ok_along ld pi Ag GrP GsP scoped m ->
  p = leaf_path l.

(* continuing into the node object m' (both walks), given the statement for the rest *)
Lemma step_into_object : forall ld r (Ag' : string -> Prop) Gr2 G4 d G3r m' more pe l acc,
  main_stmt ld r ->
  simC Ag' Gr2 G4 ->
  opt_cparse ld Gr2 (td_ctx d) = Ok G3r ->
  pfd ld r (Some G3r) (JObj m') acc = Ok more ->
  field_step ld G4 (Some d) (JObj m') pe r (field_at ld r) = Ok l ->
  ok_along ld r Ag' Gr2 G4 (td_ctx d) m' ->
  leaf_path l = pe ++ more.
Proof.
  intros ld r Ag' Gr2 G4 d G3r m' more pe l acc IH Hs Hc Hp Hf Hok.
  cbn [field_step] in Hf.
  apply bind_ok in Hf. destruct Hf as [cc [Hent Hf]].
  apply bind_ok in Hf. destruct Hf as [l0 [Hrec Hf]].
  destruct l0 as [[q dt] v]. inversion Hf; subst l. unfold leaf_path. cbn [fst].
  destruct cc as [G3' G4'].
  rewrite (IH Ag' Gr2 G4 (td_ctx d) m' G3r G3' G4' acc more (q, dt, v) Hs Hc Hp Hent Hrec Hok).
  reflexivity.
Qed.

Lemma main_len : forall ld N pi, (List.length pi <= N)%nat -> main_stmt ld pi.
Proof.
  intros ld N. induction N as [|N IHN]; intros pi Hlen.
  - destruct pi; [|cbn in Hlen; lia].
    intros Ag GrP GsP scoped m GrIn G3 G4 acc p l _ _ _ _ Hf _. cbn in Hf. discriminate.
  - destruct pi as [|term rest].
    { intros Ag GrP GsP scoped m GrIn G3 G4 acc p l _ _ _ _ Hf _. cbn in Hf. discriminate. }
    cbn [List.length] in Hlen.
    assert (IHrest : main_stmt ld rest) by (apply IHN; lia).
    intros Ag GrP GsP scoped m GrIn G3 G4 acc p l Hs Hin Hp He Hf Hok.
    (* document side *)
    cbn [field_at] in Hf.
    destruct (is_num term || String.eqb term "@context") eqn:Hk0; [discriminate|].
    apply orb_false_iff in Hk0. destruct Hk0 as [Hnum Hkctx].
    destruct (jget term m) as [v|] eqn:Hget; [|discriminate].
    remember (expand_doc G4 true term) as e eqn:Hedef.
    destruct (is_keyword e) eqn:Hkw; [discriminate|].
    destruct (String.eqb e "" || negb (has_colon e)) eqn:Hundef; [discriminate|].
    apply orb_false_iff in Hundef. destruct Hundef as [Hne _].
    (* resolver side *)
    rewrite (pfd_term ld term rest _ _ _ Hnum) in Hp.
    assert (Hobj : resolver_object (JObj m) acc = Ok m) by reflexivity.
    rewrite Hobj in Hp. cbn [bind] in Hp.
    apply bind_ok in Hp. destruct Hp as [Gr2 [Hr2 Hp]].
    destruct (term_def Gr2 term) as [d|] eqn:Hd; [|discriminate].
    apply bind_ok in Hp. destruct Hp as [G3r [Hc3 Hp]].
    apply bind_ok in Hp. destruct Hp as [more [Hmore Hp]]. inversion Hp; subst p. clear Hp.
    unfold getv in Hmore. rewrite Hget in Hmore.
    (* side conditions at this node *)
    cbn [ok_along] in Hok.
    destruct (Hok GrIn Gr2 G3 G4 Hin Hr2 He) as [Hnode [Hterm Hcont]].
    pose proof (enter_sim ld Ag GrP GsP scoped m GrIn Gr2 G3 G4 Hs Hin Hr2 He Hnode) as Hs'.
    assert (Hd4 : term_def G4 term = Some d).
    { rewrite <- (simC_term_def _ Gr2 G4 term Hs' Hterm). exact Hd. }
    assert (Hee : e = td_id d).
    { subst e. apply expand_doc_def; assumption. }
    specialize (Hcont d Hd4). rewrite Hget in Hcont.
    rewrite Hd4 in Hf.
    (* by cases on the value *)
    assert (Hleaf : forall x pe, is_scalar x = true ->
              field_step ld G4 (Some d) x pe rest (field_at ld rest) = Ok l ->
              rest = [] /\ leaf_path l = pe).
    { intros x pe Hsc Hst. pose proof (field_step_scalar_rest _ _ _ _ _ _ _ _ Hsc Hst) as Er.
      split; [exact Er|]. subst rest. eapply field_step_scalar_path; eauto. }
    destruct v as [|b|z|s|s|l0|m'].
    + (* JNull *) destruct rest as [|i r']; [cbn in Hf; discriminate|].
      destruct (is_num i); [discriminate|]. cbn in Hf. discriminate.
    + assert (Hx : field_step ld G4 (Some d) (JBool b) [PStr e] rest (field_at ld rest) = Ok l).
      { destruct rest as [|i r']; [exact Hf|]. destruct (is_num i); [discriminate|exact Hf]. }
      destruct (Hleaf (JBool b) [PStr e] eq_refl Hx) as [Er Hl]. subst rest. rewrite pfd_nil in Hmore.
      inversion Hmore; subst more. rewrite Hl, Hee. reflexivity.
    + assert (Hx : field_step ld G4 (Some d) (JInt z) [PStr e] rest (field_at ld rest) = Ok l).
      { destruct rest as [|i r']; [exact Hf|]. destruct (is_num i); [discriminate|exact Hf]. }
      destruct (Hleaf (JInt z) [PStr e] eq_refl Hx) as [Er Hl]. subst rest. rewrite pfd_nil in Hmore.
      inversion Hmore; subst more. rewrite Hl, Hee. reflexivity.
    + assert (Hx : field_step ld G4 (Some d) (JDbl s) [PStr e] rest (field_at ld rest) = Ok l).
      { destruct rest as [|i r']; [exact Hf|]. destruct (is_num i); [discriminate|exact Hf]. }
      destruct (Hleaf (JDbl s) [PStr e] eq_refl Hx) as [Er Hl]. subst rest. rewrite pfd_nil in Hmore.
      inversion Hmore; subst more. rewrite Hl, Hee. reflexivity.
    + assert (Hx : field_step ld G4 (Some d) (JStr s) [PStr e] rest (field_at ld rest) = Ok l).
      { destruct rest as [|i r']; [exact Hf|]. destruct (is_num i); [discriminate|exact Hf]. }
      destruct (Hleaf (JStr s) [PStr e] eq_refl Hx) as [Er Hl]. subst rest. rewrite pfd_nil in Hmore.
      inversion Hmore; subst more. rewrite Hl, Hee. reflexivity.
    + (* JArr *)
      destruct l0 as [|x1 [|x2 l']]; [discriminate| |].
      * (* single member *)
        assert (Hx : field_step ld G4 (Some d) x1 [PStr e] rest (field_at ld rest) = Ok l).
        { destruct rest as [|i r']; [exact Hf|]. destruct (is_num i); [discriminate|exact Hf]. }
        destruct x1 as [|b|z|s|s|l1|m'].
        -- cbn in Hx. discriminate.
        -- destruct (Hleaf (JBool b) [PStr e] eq_refl Hx) as [Er Hl]. subst rest. rewrite pfd_nil in Hmore.
           inversion Hmore; subst more. rewrite Hl, Hee. reflexivity.
        -- destruct (Hleaf (JInt z) [PStr e] eq_refl Hx) as [Er Hl]. subst rest. rewrite pfd_nil in Hmore.
           inversion Hmore; subst more. rewrite Hl, Hee. reflexivity.
        -- destruct (Hleaf (JDbl s) [PStr e] eq_refl Hx) as [Er Hl]. subst rest. rewrite pfd_nil in Hmore.
           inversion Hmore; subst more. rewrite Hl, Hee. reflexivity.
        -- destruct (Hleaf (JStr s) [PStr e] eq_refl Hx) as [Er Hl]. subst rest. rewrite pfd_nil in Hmore.
           inversion Hmore; subst more. rewrite Hl, Hee. reflexivity.
        -- cbn in Hx. discriminate.
        -- assert (Hmore' : pfd ld rest (Some G3r) (JObj m') true = Ok more).
           { destruct rest as [|t0 r0]; [exact Hmore|].
             destruct (is_num t0) eqn:Ht0.
             - cbn [field_step] in Hx. apply bind_ok in Hx. destruct Hx as [cc [_ Hx]].
               apply bind_ok in Hx. destruct Hx as [l0 [Hx _]]. cbn [field_at] in Hx. rewrite Ht0 in Hx.
               cbn in Hx. discriminate.
             - rewrite pfd_arr_head in Hmore by exact Ht0. exact Hmore. }
           rewrite (step_into_object ld rest _ Gr2 G4 d G3r m' more [PStr e] l true IHrest Hs' Hc3 Hmore' Hx Hcont).
           rewrite Hee. reflexivity.
      * (* at least two members: an index is required *)
        destruct rest as [|i rest']; [discriminate|].
        destruct (is_num i) eqn:Hinum; [|discriminate].
        destruct (nth_error (x1 :: x2 :: l') (Z.to_nat (num_val i))) as [x|] eqn:Hnth; [|discriminate].
        rewrite (pfd_num ld i rest' _ _ _ Hinum) in Hmore.
        destruct (Z.leb (num_val i) max_int32); [|discriminate].
        rewrite Hnth in Hmore.
        apply bind_ok in Hmore. destruct Hmore as [more' [Hmore' Hmore]]. inversion Hmore; subst more. clear Hmore.
        assert (IHrest' : main_stmt ld rest') by (apply IHN; cbn in Hlen; lia).
        assert (Hleaf' : forall pe, is_scalar x = true ->
              field_step ld G4 (Some d) x pe rest' (field_at ld rest') = Ok l ->
              rest' = [] /\ leaf_path l = pe).
        { intros pe Hsc Hst. pose proof (field_step_scalar_rest _ _ _ _ _ _ _ _ Hsc Hst) as Er.
          split; [exact Er|]. subst rest'. eapply field_step_scalar_path; eauto. }
        destruct x as [|b|z|s|s|l1|m'].
        -- cbn in Hf. discriminate.
        -- destruct (Hleaf' _ eq_refl Hf) as [Er Hl]. subst rest'. rewrite pfd_nil in Hmore'.
           inversion Hmore'; subst more'. rewrite Hl, Hee. reflexivity.
        -- destruct (Hleaf' _ eq_refl Hf) as [Er Hl]. subst rest'. rewrite pfd_nil in Hmore'.
           inversion Hmore'; subst more'. rewrite Hl, Hee. reflexivity.
        -- destruct (Hleaf' _ eq_refl Hf) as [Er Hl]. subst rest'. rewrite pfd_nil in Hmore'.
           inversion Hmore'; subst more'. rewrite Hl, Hee. reflexivity.
        -- destruct (Hleaf' _ eq_refl Hf) as [Er Hl]. subst rest'. rewrite pfd_nil in Hmore'.
           inversion Hmore'; subst more'. rewrite Hl, Hee. reflexivity.
        -- cbn in Hf. discriminate.
        -- rewrite (step_into_object ld rest' _ Gr2 G4 d G3r m' more' [PStr e; PInt (num_val i)] l false
                      IHrest' Hs' Hc3 Hmore' Hf Hcont).
           rewrite Hee. reflexivity.
    + (* JObj *)
      assert (Hx : field_step ld G4 (Some d) (JObj m') [PStr e] rest (field_at ld rest) = Ok l).
      { destruct rest as [|i r']; [exact Hf|]. destruct (is_num i); [discriminate|exact Hf]. }
      rewrite (step_into_object ld rest _ Gr2 G4 d G3r m' more [PStr e] l true IHrest Hs' Hc3 Hmore Hx Hcont).
      rewrite Hee. reflexivity.
Qed.

(* ------------------------------------------------------------------ *)
(* C11_doc_vs_store                                                    *)
(* ------------------------------------------------------------------ *)

Lemma simC_refl : forall (Ag : string -> Prop) G, simC Ag G G.
Proof. intros Ag G t _. reflexivity. Qed.

(* The path the (faithful) document-side resolver returns is the path under which
   the document states the field, and that fact is one of the document's facts —
   provided nothing the walk uses below a node was defined or changed by a
   type-scoped context of an ancestor (ok_along).  Since fix 7a3eec3 the resolver
   continues in the selected member of an array, so no condition on the members is
   needed.  That every array is addressed with its index (D31) and that a one-member
   array is addressed without one are part of `doc_field ... = Ok _`. *)
Theorem doc_vs_store : forall ld m pi p p' dt v fs,
  path_from_document ld (JObj m) pi = Ok p ->
  doc_field ld (JObj m) pi = Ok (p', dt, v) ->
  ok_along ld pi (fun _ => True) empty_ctx empty_ctx None m ->
  facts ld (JObj m) = Ok fs ->
  p = p' /\ exists f, In f fs /\ f_path f = p /\ f_dt f = dt /\ f_val f = v.
Proof.
  intros ld m pi p p' dt v fs Hp Hd Hok Hf.
  assert (E : p = p').
  { unfold path_from_document in Hp. rewrite pfd_none in Hp.
    unfold doc_field in Hd. apply bind_ok in Hd. destruct Hd as [[G3 G4] [Hent Hd]].
    cbn [fst snd] in Hd.
    exact (main_len ld (List.length pi) pi (le_n _) (fun _ => True) empty_ctx empty_ctx None m empty_ctx
             G3 G4 false p (p', dt, v) (simC_refl _ _) eq_refl Hp Hent Hd Hok). }
  split; [exact E|]. subst p'.
  eapply field_is_fact; eauto.
Qed.

(* non-vacuity: a document with a type-scoped context (defining the property `inner`)
   and a nested node using a term of the enclosing context satisfies the side conditions *)
Definition ok_doc_members : members :=
  [("@context", JObj [("T", JObj [("@id", JStr "http://e/T");
                                  ("@context", JObj [("inner", JStr "http://e/inner")])]);
                       ("leaf", JObj [("@id", JStr "http://e/leaf");
                                      ("@type", JStr "http://www.w3.org/2001/XMLSchema#integer")])]);
   ("@type", JStr "T");
   ("inner", JObj [("leaf", JInt 5)])].

Lemma root_agreed : forall ld scoped m t, Ag_local (fun _ => True) ld empty_ctx scoped m t.
Proof. intros. left. left. split; [exact I|reflexivity]. Qed.

Example ok_doc_side_conditions :
  ok_along [] ["inner"; "leaf"] (fun _ => True) empty_ctx empty_ctx None ok_doc_members.
Proof.
  cbn [ok_along]. intros GrIn Gr2 G3 G4 H1 H2 H3.
  cbn in H1. inversion H1; subst GrIn. clear H1.
  vm_compute in H2. inversion H2; subst Gr2. clear H2.
  vm_compute in H3. inversion H3; subst G3 G4. clear H3.
  split; [|split].
  - intros Gr1 HG1. vm_compute in HG1. inversion HG1; subst Gr1. clear HG1.
    constructor.
    + exact I.
    + intros L HL x Hx Hm. left. split; [exact I|reflexivity].
    + intros k Hk. cbn in Hk.
      destruct Hk as [<-|[<-|[<-|[]]]]; (split; [reflexivity|left; apply root_agreed]).
    + intros tt Htt. split; [apply root_agreed|].
      vm_compute in Htt. destruct Htt as [<-|[]].
      intros L HL x Hx Hm. apply root_agreed.
  - left. apply root_agreed.
  - intros d Hd. vm_compute in Hd. inversion Hd; subst d. clear Hd.
    cbn [jget ok_doc_members String.eqb Ascii.eqb Bool.eqb]. cbn.
    intros GrIn Gr2 G3 G4 H1 H2 H3.
    cbn in H1. inversion H1; subst GrIn. clear H1.
    vm_compute in H2. inversion H2; subst Gr2. clear H2.
    vm_compute in H3. inversion H3; subst G3 G4. clear H3.
    assert (Hleaf : forall t, t = "leaf" ->
      Ag_revert (Ag_node (fun _ => True) [] empty_ctx None ok_doc_members
        {| c_terms := [("T", {| td_id := "http://e/T"; td_type := None;
                                td_ctx := Some (JObj [("inner", JStr "http://e/inner")]); td_prefix := false |});
                       ("leaf", {| td_id := "http://e/leaf"; td_type := Some "http://www.w3.org/2001/XMLSchema#integer";
                                   td_ctx := None; td_prefix := false |})];
           c_prev := None |})
        {| c_terms := [("T", {| td_id := "http://e/T"; td_type := None;
                                td_ctx := Some (JObj [("inner", JStr "http://e/inner")]); td_prefix := false |});
                       ("leaf", {| td_id := "http://e/leaf"; td_type := Some "http://www.w3.org/2001/XMLSchema#integer";
                                   td_ctx := None; td_prefix := false |});
                       ("inner", {| td_id := "http://e/inner"; td_type := None; td_ctx := None; td_prefix := false |})];
           c_prev := Some [("T", {| td_id := "http://e/T"; td_type := None;
                                    td_ctx := Some (JObj [("inner", JStr "http://e/inner")]); td_prefix := false |});
                           ("leaf", {| td_id := "http://e/leaf"; td_type := Some "http://www.w3.org/2001/XMLSchema#integer";
                                       td_ctx := None; td_prefix := false |})] |} t).
    { intros t ->. split; [left; apply root_agreed|reflexivity]. }
    split; [|split].
    + intros Gr1 HG1. cbn in HG1. inversion HG1; subst Gr1. clear HG1.
      constructor.
      * exact I.
      * exact I.
      * intros k Hk. cbn in Hk. destruct Hk as [<-|[]].
        split; [reflexivity|]. left. left. left. apply Hleaf. reflexivity.
      * intros tt Htt. vm_compute in Htt. destruct Htt.
    + left. left. left. apply Hleaf. reflexivity.
    + intros d _. exact I.
Qed.

Example ok_doc_paths_agree :
  path_from_document [] (JObj ok_doc_members) ["inner"; "leaf"] = Ok [PStr "http://e/inner"; PStr "http://e/leaf"] /\
  doc_field [] (JObj ok_doc_members) ["inner"; "leaf"]
    = Ok ([PStr "http://e/inner"; PStr "http://e/leaf"], "http://www.w3.org/2001/XMLSchema#integer", JInt 5).
Proof. split; vm_compute; reflexivity. Qed.


(* ------------------------------------------------------------------ *)
(* C11_datatype                                                        *)
(* ------------------------------------------------------------------ *)

Definition is_datatype (t : string) : bool :=
  negb (String.eqb t "@id" || String.eqb t "@vocab" || String.eqb t "@none" || String.eqb t "@json").

(* the datatype declared by the term definition in force is the datatype recorded for the fact *)
Lemma declared_datatype_recorded : forall G d dp p v t fs,
  td_type d = Some t -> is_datatype t = true ->
  scalar_fact G (Some d) dp p v = Ok fs ->
  exists f, fs = [f] /\ f_dt f = t /\ f_val f = v /\ f_path f = p.
Proof.
  intros G d dp p v t fs Ht Hdt H. unfold scalar_fact in H. rewrite Ht in H.
  unfold is_datatype in Hdt. apply negb_true_iff in Hdt.
  apply orb_false_iff in Hdt. destruct Hdt as [Hdt H4].
  apply orb_false_iff in Hdt. destruct Hdt as [Hdt H3].
  apply orb_false_iff in Hdt. destruct Hdt as [H1 H2].
  rewrite H1, H2, H3, H4 in H. cbn in H. inversion H. eexists. split; [reflexivity|]. cbn. auto.
Qed.

(* TypeFromContext on (type term, field): the type mapping of the field's definition in the
   context of a node of that type *)
Lemma type_from_context_field : forall ld C ty field s,
  type_from_context ld (JObj [("@context", C)]) [ty; field] = Ok s ->
  exists G dty G2 d G3,
    cparse ld empty_ctx C = Ok G /\ term_def G ty = Some dty /\
    opt_cparse ld G (td_ctx dty) = Ok G2 /\ term_def G2 field = Some d /\
    opt_cparse ld G2 (td_ctx d) = Ok G3 /\ s = type_mapping G3 field.
Proof.
  intros ld C ty field s H. apply type_from_context_ok in H.
  destruct H as [G [G' [HG [Ht Hs]]]]. cbn [tfc] in Ht.
  destruct (term_def G ty) as [dty|] eqn:Hdty; [|discriminate].
  apply bind_ok in Ht. destruct Ht as [G2 [HG2 Ht]].
  destruct (term_def G2 field) as [d|] eqn:Hd; [|discriminate].
  apply bind_ok in Ht. destruct Ht as [G3 [HG3 Ht]]. inversion Ht; subst G'.
  exists G, dty, G2, d, G3. cbn [last] in Hs. repeat split; auto.
Qed.

(* the contexts of a root node of the single type ty *)
Lemma root_contexts : forall ld C m k ty G dty G2 G3 G4,
  jget "@context" m = Some C ->
  cparse ld empty_ctx C = Ok G ->
  enter_node ld empty_ctx None m = Ok (G3, G4) ->
  type_key G m = Some k -> jget k m = Some (JStr ty) ->
  term_def G ty = Some dty ->
  opt_cparse ld G (td_ctx dty) = Ok G2 ->
  G3 = G /\ c_terms G4 = c_terms G2.
Proof.
  intros ld C m k ty G dty G2 G3 G4 HC HG Hent Hk Hty Hdty HG2.
  unfold enter_node in Hent. change (revert empty_ctx) with empty_ctx in Hent.
  cbn [bind] in Hent. rewrite HC, HG in Hent. cbn [bind] in Hent.
  rewrite Hk, Hty in Hent. cbn [type_values bind] in Hent.
  rewrite apply_type_scoped_fold in Hent. cbn [fold_left] in Hent. unfold ts_step in Hent. cbn [bind] in Hent.
  rewrite Hdty in Hent.
  destruct (td_ctx dty) as [c|] eqn:Hc.
  - cbn [opt_cparse] in HG2.
    apply bind_ok in Hent. destruct Hent as [G4' [Hp Hent]]. inversion Hent; subst G4' G3.
    split; [reflexivity|].
    unfold cparse_typescoped in Hp. unfold cparse in HG2.
    apply parse_terms_of in Hp. apply parse_terms_of in HG2. congruence.
  - cbn [opt_cparse] in HG2. inversion HG2; subst G2. cbn in Hent. inversion Hent; subst. auto.
Qed.

(* a scalar field of the root node, whose type is the single term ty: the datatype
   TypeFromContext reports for (ty, field) is the datatype of the fact the document states *)
Theorem datatype_root_field : forall ld C m k ty field v G dt fs p fdt fv,
  jget "@context" m = Some C ->
  cparse ld empty_ctx C = Ok G ->
  type_key G m = Some k -> jget k m = Some (JStr ty) ->
  type_from_context ld (JObj [("@context", C)]) [ty; field] = Ok dt ->
  is_datatype dt = true -> dt <> "" ->
  (forall G' d, term_def G' field = Some d -> td_ctx d = None) ->
  jget field m = Some v -> is_scalar v = true ->
  doc_field ld (JObj m) [field] = Ok (p, fdt, fv) ->
  facts ld (JObj m) = Ok fs ->
  fdt = dt /\ exists x, In x fs /\ f_path x = p /\ f_dt x = dt /\ f_val x = fv.
Proof.
  intros ld C m k ty field v G dt fs p fdt fv HC HG Hk Hty Htf Hdt Hne Hnoctx Hv Hsc Hd Hf.
  assert (E : fdt = dt).
  { apply type_from_context_field in Htf.
    destruct Htf as [G0 [dty [G2 [d [G3' [HG0 [Hdty [HG2 [Hdf [HG3 Hs]]]]]]]]]].
    rewrite HG in HG0. inversion HG0; subst G0. clear HG0.
    rewrite (Hnoctx G2 d Hdf) in HG3. cbn in HG3. inversion HG3; subst G3'. clear HG3.
    unfold type_mapping in Hs. rewrite Hdf in Hs.
    assert (Htd : td_type d = Some dt).
    { destruct (td_type d) as [t|]; [congruence|]. subst dt. congruence. }
    unfold doc_field in Hd. apply bind_ok in Hd. destruct Hd as [[G3 G4] [Hent Hd]].
    destruct (root_contexts ld C m k ty G dty G2 G3 G4 HC HG Hent Hk Hty Hdty HG2) as [E3 Ht4]. subst G3.
    assert (Hd4 : term_def G4 field = Some d) by (rewrite (term_def_ext G4 G2 field Ht4); exact Hdf).
    cbn [fst snd field_at] in Hd.
    destruct (is_num field || String.eqb field "@context"); [discriminate|].
    rewrite Hv in Hd.
    destruct (is_keyword (expand_doc G4 true field)); [discriminate|].
    destruct (String.eqb (expand_doc G4 true field) "" || negb (has_colon (expand_doc G4 true field))); [discriminate|].
    rewrite Hd4 in Hd.
    destruct v as [|b|z|s|s|l|m']; cbn in Hsc; try discriminate; cbn [field_step] in Hd;
      apply bind_ok in Hd; destruct Hd as [fs0 [Hsf Hd]];
      destruct (declared_datatype_recorded _ _ _ _ _ _ _ Htd Hdt Hsf) as [f0 [Efs [Edt _]]]; subst fs0;
      inversion Hd; subst; exact Edt. }
  split; [exact E|]. subst fdt.
  eapply field_is_fact; eauto.
Qed.
