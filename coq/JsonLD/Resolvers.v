(* JsonLD/Resolvers.v — FAITHFUL models of the repository's path / type resolvers
   (merklize/merklize.go), statement by statement, over the context model of
   JsonLD/Model.v.  No proofs here.

     path_from_document     Options.NewPathFromDocument + pathFromDocument (137-157, 335-462)
                            = what Merklizer.ResolveDocPath computes on the source document
     path_from_context      Path.pathFromContext (281-330) / NewPathFromContext
     field_path_from_context Options.FieldPathFromContext (91-112)
     type_id_from_context   Options.TypeIDFromContext (196-231)
     type_from_context      Options.TypeFromContext (239-274, with fix 4b7fa17)

   Faithful includes the behaviour that violates C11 (DESIGN.md section 6):
     * a context applied because of a node's @type is parsed with the public
       Context.Parse (propagate = true) and never reverted when the walk descends
       into a nested node (D8, known finding);
     * an array reached WITHOUT a numeric segment is entered through member 0 whatever
       its length (D31, known finding); a numeric segment on a one-member array is
       accepted although the stored entry carries no index.
     * a numeric segment on a value that is NOT an array is copied without any check
       (D14 non-array part, known finding, pinned by the repository's TestIPFSContext).
   Since fix 7a3eec3 (D14) a numeric segment on an array must be in range, and the walk
   continues in the selected member.
   The dotted path is given already split at "." (strings.Split). *)
From Coq Require Import ZArith List String Ascii Bool Arith.
From GSP Require Import Base.Prelude RDF.Model JsonLD.Model.
Import ListNotations.
Open Scope string_scope.
Open Scope list_scope.

(* the @type switch of pathFromDocument (405-422): array of strings (sorted) | string *)
Definition resolver_types (v : json) : res (list string) :=
  tys <- type_values v ;;
  Ok (match v with JArr _ => sort_strings tys | _ => tys end).

(* lines 383-434: the node's own @context, then the scoped contexts of its types,
   all with Context.Parse *)
Definition resolver_enter (ld : loader) (G : ctx) (m : members) : res ctx :=
  G1 <- match jget "@context" m with Some c => cparse ld G c | None => Ok G end ;;
  match type_key G1 m with
  | None => Ok G1
  | Some k =>
      tys <- match jget k m with Some v => resolver_types v | None => Ok [] end ;;
      apply_type_scoped (cparse ld) G1 tys
  end.

(* lines 361-377: which JSON object the walk looks at *)
Definition resolver_object (doc : json) (accept : bool) : res members :=
  match doc with
  | JArr [] => Err "zero-sized-array"
  | JArr (el :: _) =>
      if accept then
        match el with
        | JObj m => Ok m
        | JArr [] => Err "zero-sized-array"
        | JArr _ => Err "unexpected-array"
        | _ => Err "expect-array-or-object"
        end
      else Err "unexpected-array"
  | JObj m => Ok m
  | _ => Err "expect-array-or-object"
  end.

Fixpoint pfd (ld : loader) (pi : list string) (G : option ctx) (doc : json) (accept : bool) {struct pi}
  : res (list part) :=
  match pi with
  | [] => Ok []
  | term :: rest =>
      if is_num term then
        if Z.leb (num_val term) max_int32 then
          (* fix 7a3eec3: on an array the segment must be in range and the walk continues in
             the selected member; on any other value the old behaviour is kept (pinned by the
             repository's TestIPFSContext): the index is copied, the walk stays on the value *)
          match doc with
          | JArr l =>
              match nth_error l (Z.to_nat (num_val term)) with
              | Some x =>
                  more <- pfd ld rest G x false ;;
                  Ok (PInt (num_val term) :: more)
              | None => Err "index-out-of-range"
              end
          | _ =>
              more <- pfd ld rest G doc true ;;
              Ok (PInt (num_val term) :: more)
          end
        else Err "parse-int"
      else
        m <- resolver_object doc accept ;;
        let G0 := match G with Some g => g | None => empty_ctx end in
        G2 <- resolver_enter ld G0 m ;;
        match term_def G2 term with
        | None => Err "no-id-for-term"
        | Some d =>
            G3 <- match td_ctx d with Some s => cparse ld G2 s | None => Ok G2 end ;;
            more <- pfd ld rest (Some G3) (match jget term m with Some v => v | None => JNull end) true ;;
            Ok (PStr (td_id d) :: more)
        end
  end.

Definition path_from_document (ld : loader) (doc : json) (pi : list string) : res (list part) :=
  match doc with
  | JObj _ => pfd ld pi None doc false
  | _ => Err "unmarshal"
  end.

(* json.Unmarshal(ctxBytes, &map) ; ctxObj["@context"] (a missing member is nil) *)
Definition context_member (cj : json) : res json :=
  match cj with
  | JObj m => Ok (match jget "@context" m with Some c => c | None => JNull end)
  | _ => Err "unmarshal"
  end.

(* pathFromContext, the loop over the path parts *)
Fixpoint pfc (ld : loader) (pi : list string) (G : ctx) : res (list part) :=
  match pi with
  | [] => Ok []
  | term :: rest =>
      if is_num term then
        if Z.leb (num_val term) max_int32 then
          more <- pfc ld rest G ;; Ok (PInt (num_val term) :: more)
        else Err "parse-int"
      else
        match term_def G term with
        | None => Err "no-id-for-term"
        | Some d =>
            G' <- match td_ctx d with Some s => cparse ld G s | None => Ok G end ;;
            more <- pfc ld rest G' ;;
            Ok (PStr (td_id d) :: more)
        end
  end.

Definition path_from_context (ld : loader) (cj : json) (pi : list string) : res (list part) :=
  c <- context_member cj ;;
  G <- cparse ld empty_ctx c ;;
  pfc ld pi G.

(* FieldPathFromContext: fmt.Sprintf("%s.%s", ctxType, fieldPath) then strings.Split:
   ty and field are given split *)
Definition field_path_from_context (ld : loader) (cj : json) (ty : list string) (field : list string)
  : res (list part) :=
  if list_eqb String.eqb ty [""] then Err "ctx-type-empty"
  else if list_eqb String.eqb field [""] then Err "field-empty"
  else
    full <- path_from_context ld cj (ty ++ field) ;;
    tp <- path_from_context ld cj ty ;;
    Ok (skipn (List.length tp) full).

Definition type_id_from_context (ld : loader) (cj : json) (ty : string) : res string :=
  c <- context_member cj ;;
  G <- cparse ld empty_ctx c ;;
  match term_def G ty with
  | None => Err "not-a-type"
  | Some d =>
      match td_ctx d with
      | None => Err "not-a-type"
      | Some _ => Ok (td_id d)
      end
  end.

(* TypeFromContext: the loop, then GetTypeMapping(last part) in the final context *)
Fixpoint tfc (ld : loader) (pi : list string) (G : ctx) : res ctx :=
  match pi with
  | [] => Ok G
  | term :: rest =>
      match term_def G term with
      | None => Err "no-id-for-term"
      | Some d =>
          G' <- match td_ctx d with Some s => cparse ld G s | None => Ok G end ;;
          tfc ld rest G'
      end
  end.

Definition type_mapping (G : ctx) (t : string) : string :=
  match term_def G t with
  | Some d => match td_type d with Some ty => ty | None => "" end
  | None => ""
  end.

Definition type_from_context (ld : loader) (cj : json) (pi : list string) : res string :=
  c <- context_member cj ;;
  G <- cparse ld empty_ctx c ;;
  G' <- tfc ld pi G ;;
  Ok (type_mapping G' (last pi "")).
