(* JsonLD/Theory.v — lemmas and theorems about the JSON-LD subset model (Model.v)
   and the faithful resolver models (Resolvers.v).  Property C11. *)
From Coq Require Import ZArith List String Ascii Bool Arith Lia.
From GSP Require Import Base.Prelude RDF.Model JsonLD.Model JsonLD.Resolvers.
Import ListNotations.
Open Scope string_scope.
Open Scope list_scope.

(* ------------------------------------------------------------------ *)
(* generic helpers                                                     *)
(* ------------------------------------------------------------------ *)

Lemma bind_ok : forall {A B} (r : res A) (f : A -> res B) b,
  (x <- r ;; f x) = Ok b -> exists a, r = Ok a /\ f a = Ok b.
Proof.
  intros A B r f b H. destruct r as [a| | |]; simpl in H; try discriminate.
  exists a. split; [reflexivity|exact H].
Qed.

Lemma bind_err : forall {A B} (r : res A) (f : A -> res B) t,
  r = Err t -> (x <- r ;; f x) = Err t.
Proof. intros A B r f t H. rewrite H. reflexivity. Qed.

Lemma concat_res_in : forall {A} (l : list (res (list A))) fs a x,
  concat_res l = Ok fs -> In (Ok a) l -> In x a -> In x fs.
Proof.
  intros A l. induction l as [|r l IH]; intros fs a x Hc Hin Hx.
  - destruct Hin.
  - simpl in Hc. apply bind_ok in Hc. destruct Hc as [a0 [Hr Hc]].
    apply bind_ok in Hc. destruct Hc as [b0 [Hl Hc]]. inversion Hc; subst fs; clear Hc.
    apply in_or_app. destruct Hin as [Heq|Hin].
    + left. rewrite Hr in Heq. inversion Heq; subst a0. exact Hx.
    + right. eapply IH; eauto.
Qed.

Lemma concat_res_all_ok : forall {A} (l : list (res (list A))) fs r,
  concat_res l = Ok fs -> In r l -> exists a, r = Ok a.
Proof.
  intros A l. induction l as [|r0 l IH]; intros fs r Hc Hin.
  - destruct Hin.
  - simpl in Hc. apply bind_ok in Hc. destruct Hc as [a0 [Hr Hc]].
    apply bind_ok in Hc. destruct Hc as [b0 [Hl Hc]].
    destruct Hin as [Heq|Hin].
    + subst r0. eauto.
    + eapply IH; eauto.
Qed.

(* ------------------------------------------------------------------ *)
(* parse: the term map of the result depends only on the term map      *)
(* ------------------------------------------------------------------ *)

Lemma parse_terms_of : forall n ld G lc b G',
  parse n ld G lc b = Ok G' -> parse_terms n ld (c_terms G) lc = Ok (c_terms G').
Proof.
  intros n ld G lc b G' H. unfold parse in H.
  apply bind_ok in H. destruct H as [T' [HT H]]. inversion H; subst G'. simpl. exact HT.
Qed.

Lemma parse_terms_ext : forall n ld G1 G2 lc b1 b2,
  c_terms G1 = c_terms G2 ->
  match parse n ld G1 lc b1, parse n ld G2 lc b2 with
  | Ok A, Ok B => c_terms A = c_terms B
  | Err t1, Err t2 => t1 = t2
  | Panic w1, Panic w2 => w1 = w2
  | Diverge, Diverge => True
  | _, _ => False
  end.
Proof.
  intros n ld G1 G2 lc b1 b2 Heq. unfold parse. rewrite Heq.
  destruct (parse_terms n ld (c_terms G2) lc); simpl; auto.
Qed.

Lemma cparse_terms_ext : forall ld G1 G2 lc A,
  c_terms G1 = c_terms G2 -> cparse ld G1 lc = Ok A ->
  exists B, cparse ld G2 lc = Ok B /\ c_terms A = c_terms B.
Proof.
  intros ld G1 G2 lc A Heq H. unfold cparse in *.
  pose proof (parse_terms_ext parse_fuel ld G1 G2 lc true true Heq) as P.
  rewrite H in P. destruct (parse parse_fuel ld G2 lc true) as [B| | |]; try contradiction.
  exists B. split; [reflexivity|exact P].
Qed.

Lemma cparse_err_ext : forall ld G1 G2 lc t,
  c_terms G1 = c_terms G2 -> cparse ld G1 lc = Err t -> cparse ld G2 lc = Err t.
Proof.
  intros ld G1 G2 lc t Heq H. unfold cparse in *.
  pose proof (parse_terms_ext parse_fuel ld G1 G2 lc true true Heq) as P.
  rewrite H in P. destruct (parse parse_fuel ld G2 lc true); try contradiction. subst. reflexivity.
Qed.

Lemma term_def_ext : forall G1 G2 t, c_terms G1 = c_terms G2 -> term_def G1 t = term_def G2 t.
Proof. intros G1 G2 t H. unfold term_def. rewrite H. reflexivity. Qed.

(* ------------------------------------------------------------------ *)
(* pathFromContext depends on the context only through its term map    *)
(* ------------------------------------------------------------------ *)

Lemma pfc_ext : forall ld pi G1 G2,
  c_terms G1 = c_terms G2 -> pfc ld pi G1 = pfc ld pi G2.
Proof.
  intros ld pi. induction pi as [|term rest IH]; intros G1 G2 Heq; simpl.
  - reflexivity.
  - destruct (is_num term) eqn:Hnum.
    + destruct (Z.leb (num_val term) max_int32); [|reflexivity].
      rewrite (IH G1 G2 Heq). reflexivity.
    + rewrite (term_def_ext G1 G2 term Heq).
      destruct (term_def G2 term) as [d|]; [|reflexivity].
      destruct (td_ctx d) as [s|].
      * pose proof (parse_terms_ext parse_fuel ld G1 G2 s true true Heq) as P.
        unfold cparse.
        destruct (parse parse_fuel ld G1 s true) as [A| | |];
          destruct (parse parse_fuel ld G2 s true) as [B| | |]; simpl; try contradiction; try reflexivity.
        -- rewrite (IH A B P). reflexivity.
        -- subst. reflexivity.
        -- subst. reflexivity.
      * simpl. rewrite (IH G1 G2 Heq). reflexivity.
Qed.

(* ------------------------------------------------------------------ *)
(* C11_errors: resolvers resolve every segment or fail                 *)
(* ------------------------------------------------------------------ *)

(* a result part answers a path segment: a numeric segment is copied, any other
   segment is the IRI mapping of a term definition *)
Definition seg_part (s : string) (p : part) : Prop :=
  (is_num s = true /\ p = PInt (num_val s)) \/ (is_num s = false /\ exists id, p = PStr id).

Lemma pfc_segments : forall ld pi G p, pfc ld pi G = Ok p -> Forall2 seg_part pi p.
Proof.
  intros ld pi. induction pi as [|term rest IH]; intros G p H; simpl in H.
  - inversion H. constructor.
  - destruct (is_num term) eqn:Hnum.
    + destruct (Z.leb (num_val term) max_int32); [|discriminate].
      apply bind_ok in H. destruct H as [more [Hm H]]. inversion H; subst p.
      constructor; [left; auto | eapply IH; eauto].
    + destruct (term_def G term) as [d|]; [|discriminate].
      apply bind_ok in H. destruct H as [G' [HG H]].
      apply bind_ok in H. destruct H as [more [Hm H]]. inversion H; subst p.
      constructor; [right; split; [auto|eauto] | eapply IH; eauto].
Qed.

Lemma pfd_segments : forall ld pi G doc acc p, pfd ld pi G doc acc = Ok p -> Forall2 seg_part pi p.
Proof.
  intros ld pi. induction pi as [|term rest IH]; intros G doc acc p H; simpl in H.
  - inversion H. constructor.
  - destruct (is_num term) eqn:Hnum.
    + destruct (Z.leb (num_val term) max_int32); [|discriminate].
      assert (Hcase : exists x a more, pfd ld rest G x a = Ok more /\ p = PInt (num_val term) :: more).
      { destruct doc as [| | | | |l|];
          try (apply bind_ok in H; destruct H as [more [Hm H]]; inversion H; eauto).
        destruct (nth_error l (Z.to_nat (num_val term))) as [x|]; [|discriminate].
        apply bind_ok in H. destruct H as [more [Hm H]]. inversion H. eauto. }
      destruct Hcase as [x [a [more [Hm Hp]]]]. subst p.
      constructor; [left; auto | eapply IH; eauto].
    + apply bind_ok in H. destruct H as [m [Hobj H]].
      apply bind_ok in H. destruct H as [G2 [HG2 H]].
      destruct (term_def G2 term) as [d|]; [|discriminate].
      apply bind_ok in H. destruct H as [G3 [HG3 H]].
      apply bind_ok in H. destruct H as [more [Hm H]]. inversion H; subst p.
      constructor; [right; split; [auto|eauto] | eapply IH; eauto].
Qed.

(* an unknown term is never answered with a path (shorter, different or otherwise) *)
Lemma pfc_unknown_term : forall ld pre term rest G p,
  is_num term = false ->
  (forall G', term_def G' term = None) ->
  pfc ld (pre ++ term :: rest) G <> Ok p.
Proof.
  intros ld pre. induction pre as [|a pre IH]; intros term rest G p Hnum Hun H; simpl in H.
  - rewrite Hnum, (Hun G) in H. discriminate.
  - destruct (is_num a).
    + destruct (Z.leb (num_val a) max_int32); [|discriminate].
      apply bind_ok in H. destruct H as [more [Hm _]]. eapply IH; eauto.
    + destruct (term_def G a) as [d|]; [|discriminate].
      apply bind_ok in H. destruct H as [G' [_ H]].
      apply bind_ok in H. destruct H as [more [Hm _]]. eapply IH; eauto.
Qed.

Lemma pfd_unknown_term : forall ld pre term rest G doc acc p,
  is_num term = false ->
  (forall G', term_def G' term = None) ->
  pfd ld (pre ++ term :: rest) G doc acc <> Ok p.
Proof.
  intros ld pre. induction pre as [|a pre IH]; intros term rest G doc acc p Hnum Hun H; simpl in H.
  - rewrite Hnum in H.
    apply bind_ok in H. destruct H as [m [_ H]].
    apply bind_ok in H. destruct H as [G2 [_ H]]. rewrite (Hun G2) in H. discriminate.
  - destruct (is_num a).
    + destruct (Z.leb (num_val a) max_int32); [|discriminate].
      assert (Hcase : exists x a0 more, pfd ld (pre ++ term :: rest) G x a0 = Ok more).
      { destruct doc as [| | | | |l|];
          try (apply bind_ok in H; destruct H as [more [Hm H]]; eauto).
        destruct (nth_error l (Z.to_nat (num_val a))) as [x|]; [|discriminate].
        apply bind_ok in H. destruct H as [more [Hm H]]. eauto. }
      destruct Hcase as [x [a0 [more Hm]]]. eapply IH; eauto.
    + apply bind_ok in H. destruct H as [m [_ H]].
      apply bind_ok in H. destruct H as [G2 [_ H]].
      destruct (term_def G2 a) as [d|]; [|discriminate].
      apply bind_ok in H. destruct H as [G3 [_ H]].
      apply bind_ok in H. destruct H as [more [Hm _]]. eapply IH; eauto.
Qed.

(* a context that fails to parse makes every context-side resolver fail with that error *)
Lemma failing_context_errors : forall ld C t ty pi,
  cparse ld empty_ctx C = Err t ->
  path_from_context ld (JObj [("@context", C)]) pi = Err t /\
  type_from_context ld (JObj [("@context", C)]) pi = Err t /\
  type_id_from_context ld (JObj [("@context", C)]) ty = Err t.
Proof.
  intros ld C t ty pi H.
  unfold path_from_context, type_from_context, type_id_from_context, context_member. simpl.
  rewrite H. simpl. auto.
Qed.

(* fix 4b7fa17: a scoped context that fails to parse is reported by TypeFromContext *)
Lemma tfc_scoped_failure : forall ld term rest G d s t,
  term_def G term = Some d -> td_ctx d = Some s -> cparse ld G s = Err t ->
  tfc ld (term :: rest) G = Err t.
Proof. intros ld term rest G d s t Hd Hs Hp. simpl. rewrite Hd, Hs, Hp. reflexivity. Qed.

Lemma pfc_scoped_failure : forall ld term rest G d s t,
  is_num term = false ->
  term_def G term = Some d -> td_ctx d = Some s -> cparse ld G s = Err t ->
  pfc ld (term :: rest) G = Err t.
Proof. intros ld term rest G d s t Hn Hd Hs Hp. simpl. rewrite Hn, Hd, Hs, Hp. reflexivity. Qed.

Lemma tfc_prefix_err : forall ld pre rest G t,
  tfc ld pre G = Err t -> tfc ld (pre ++ rest) G = Err t.
Proof.
  intros ld pre. induction pre as [|a pre IH]; intros rest G t H; simpl in *.
  - discriminate.
  - destruct (term_def G a) as [d|]; [|exact H].
    destruct (match td_ctx d with Some s => cparse ld G s | None => Ok G end) as [G'| | |]; simpl in *;
      try exact H. eapply IH; eauto.
Qed.

(* the type is never "empty by accident": an Ok answer is the type mapping of the
   last term in the context the walk reached *)
Lemma type_from_context_ok : forall ld C pi s,
  type_from_context ld (JObj [("@context", C)]) pi = Ok s ->
  exists G G', cparse ld empty_ctx C = Ok G /\ tfc ld pi G = Ok G' /\ s = type_mapping G' (last pi "").
Proof.
  intros ld C pi s H. unfold type_from_context, context_member in H. simpl in H.
  apply bind_ok in H. destruct H as [G [HG H]].
  apply bind_ok in H. destruct H as [G' [HG' H]]. inversion H. eauto.
Qed.

Lemma tfc_all_defined : forall ld pi G G',
  tfc ld pi G = Ok G' -> forall t, In t pi -> exists G0 d, term_def G0 t = Some d.
Proof.
  intros ld pi. induction pi as [|a pi IH]; intros G G' H t Hin.
  - destruct Hin.
  - simpl in H. destruct (term_def G a) as [d|] eqn:Hd; [|discriminate].
    apply bind_ok in H. destruct H as [G1 [HG1 H]].
    destruct Hin as [Heq|Hin].
    + subst a. eauto.
    + eapply IH; eauto.
Qed.

(* ------------------------------------------------------------------ *)
(* C11_type_id                                                         *)
(* ------------------------------------------------------------------ *)

Lemma type_id_ok : forall ld C ty id,
  type_id_from_context ld (JObj [("@context", C)]) ty = Ok id ->
  exists G d, cparse ld empty_ctx C = Ok G /\ term_def G ty = Some d /\ td_ctx d <> None /\ id = td_id d.
Proof.
  intros ld C ty id H. unfold type_id_from_context, context_member in H. simpl in H.
  apply bind_ok in H. destruct H as [G [HG H]].
  destruct (term_def G ty) as [d|] eqn:Hd; [|discriminate].
  destruct (td_ctx d) eqn:Hc; [|discriminate]. inversion H.
  exists G, d. repeat split; auto. congruence.
Qed.

Lemma expand_doc_term : forall G t d,
  is_keyword t = false -> keyword_like t = false -> term_def G t = Some d ->
  expand_doc G true t = td_id d.
Proof. intros G t d Hk Hl Hd. unfold expand_doc. rewrite Hk, Hl, Hd. reflexivity. Qed.

Lemma indexed_single : forall {A} (x : A), indexed [x] = [(None, x)].
Proof. reflexivity. Qed.

(* the root node of a document whose @type is the single term ty states the fact
   (rdf:type, id) where id is what TypeIDFromContext resolves ty to *)
Theorem type_id_is_stored_type : forall ld C m k ty id G3 G4 fs,
  jget "@context" m = Some C ->
  enter_node ld empty_ctx None m = Ok (G3, G4) ->
  In (k, JStr ty) m ->
  expand_doc G4 true k = "@type" ->
  is_keyword ty = false -> keyword_like ty = false ->
  type_id_from_context ld (JObj [("@context", C)]) ty = Ok id ->
  facts ld (JObj m) = Ok fs ->
  In {| f_doc := [k]; f_path := [PStr rdf_type]; f_dt := ""; f_val := JStr id |} fs.
Proof.
  intros ld C m k ty id G3 G4 fs HC Hent Hin Hexp Hkw Hkl Hid Hf.
  apply type_id_ok in Hid. destruct Hid as [G [d [HG [Hd [_ Hidd]]]]].
  (* the type-scoped context of the root is parse(empty, C) *)
  assert (HG3 : c_terms G3 = c_terms G).
  { unfold enter_node in Hent. simpl in Hent. rewrite HC in Hent.
    change (revert empty_ctx) with empty_ctx in Hent. rewrite HG in Hent. simpl in Hent.
    destruct (type_key G m) as [k0|].
    - apply bind_ok in Hent. destruct Hent as [tys [_ Hent]].
      apply bind_ok in Hent. destruct Hent as [G4' [_ Hent]]. inversion Hent. reflexivity.
    - inversion Hent. reflexivity. }
  unfold facts in Hf. rewrite Hent in Hf. simpl in Hf.
  unfold facts_fuel in Hf. simpl in Hf.
  eapply concat_res_in; [exact Hf| |].
  - apply in_map_iff. exists (k, JStr ty). split; [|exact Hin].
    unfold member_facts. simpl.
    assert (Hkc : String.eqb k "@context" = false).
    { destruct (String.eqb k "@context") eqn:E; [|reflexivity].
      apply String.eqb_eq in E. subst k. unfold expand_doc in Hexp. simpl in Hexp. discriminate. }
    rewrite Hkc, Hexp. simpl. reflexivity.
  - simpl. left. f_equal.
    rewrite (expand_doc_term G3 ty d Hkw Hkl).
    + congruence.
    + rewrite (term_def_ext G3 G ty HG3). exact Hd.
Qed.

(* ------------------------------------------------------------------ *)
(* C11_ctx_vs_doc                                                      *)
(* ------------------------------------------------------------------ *)

(* the nested nodes the document-side walk passes through contribute no term
   definitions of their own (no local @context, no type-scoped context that
   changes the term map): what a context-only resolver cannot see is not there *)
Fixpoint transparent (ld : loader) (pi : list string) (G : ctx) (doc : json) (acc : bool) : Prop :=
  match pi with
  | [] => True
  | term :: rest =>
      if is_num term then
        (forall l x, doc = JArr l -> nth_error l (Z.to_nat (num_val term)) = Some x ->
                     transparent ld rest G x false) /\
        ((forall l, doc <> JArr l) -> transparent ld rest G doc true)
      else forall m G2, resolver_object doc acc = Ok m -> resolver_enter ld G m = Ok G2 ->
           c_terms G2 = c_terms G /\
           forall d G3, term_def G2 term = Some d ->
             match td_ctx d with Some s => cparse ld G2 s | None => Ok G2 end = Ok G3 ->
             transparent ld rest G3 (match jget term m with Some v => v | None => JNull end) true
  end.

Lemma pfd_pfc : forall ld pi G doc acc p,
  pfd ld pi (Some G) doc acc = Ok p -> transparent ld pi G doc acc -> pfc ld pi G = Ok p.
Proof.
  intros ld pi. induction pi as [|term rest IH]; intros G doc acc p H Htr; simpl in *.
  - exact H.
  - destruct (is_num term) eqn:Hnum.
    + destruct (Z.leb (num_val term) max_int32); [|discriminate].
      destruct Htr as [Htr1 Htr2].
      assert (Hcase : exists more, pfc ld rest G = Ok more /\ p = PInt (num_val term) :: more).
      { destruct doc as [| | | | |l|];
          try (apply bind_ok in H; destruct H as [more [Hm H]]; inversion H; exists more; split; [|reflexivity];
               apply (IH G _ true more Hm); apply Htr2; intros l0 E; discriminate).
        destruct (nth_error l (Z.to_nat (num_val term))) as [x|] eqn:Hnth; [|discriminate].
        apply bind_ok in H. destruct H as [more [Hm H]]. inversion H. exists more. split; [|reflexivity].
        exact (IH G x false more Hm (Htr1 l x eq_refl Hnth)). }
      destruct Hcase as [more [Hm Hp]]. subst p. rewrite Hm. reflexivity.
    + apply bind_ok in H. destruct H as [m [Hobj H]].
      apply bind_ok in H. destruct H as [G2 [HG2 H]].
      destruct (Htr m G2 Hobj HG2) as [Heq Hnext].
      rewrite <- (term_def_ext G2 G term Heq).
      destruct (term_def G2 term) as [d|] eqn:Hd; [|discriminate].
      apply bind_ok in H. destruct H as [G3 [HG3 H]].
      apply bind_ok in H. destruct H as [more [Hm H]]. inversion H; subst p.
      specialize (Hnext d G3 eq_refl HG3).
      pose proof (IH G3 _ true more Hm Hnext) as Hpfc.
      destruct (td_ctx d) as [s|].
      * destruct (cparse_terms_ext ld G2 G s G3 Heq HG3) as [B [HB HBt]].
        rewrite HB. simpl. rewrite <- (pfc_ext ld rest G3 B HBt). rewrite Hpfc. reflexivity.
      * inversion HG3; subst G3. simpl. rewrite <- (pfc_ext ld rest G2 G Heq). rewrite Hpfc. reflexivity.
Qed.

(* field path from the context (type + field path) = the document-side path *)
Theorem ctx_vs_doc : forall ld C m k ty dty pi p G,
  jget "@context" m = Some C ->
  cparse ld empty_ctx C = Ok G ->
  type_key G m = Some k -> jget k m = Some (JStr ty) ->          (* the root node has the single type ty *)
  term_def G ty = Some dty -> is_num ty = false -> ty <> "" ->
  pi <> [] -> pi <> [""] -> (forall t, hd_error pi = Some t -> is_num t = false) ->
  (forall G2, match td_ctx dty with Some s => cparse ld G s | None => Ok G end = Ok G2 ->
     forall t rest, pi = t :: rest -> forall d G3, term_def G2 t = Some d ->
       match td_ctx d with Some s => cparse ld G2 s | None => Ok G2 end = Ok G3 ->
       transparent ld rest G3 (match jget t m with Some v => v | None => JNull end) true) ->
  path_from_document ld (JObj m) pi = Ok p ->
  field_path_from_context ld (JObj [("@context", C)]) [ty] pi = Ok p.
Proof.
  intros ld C m k ty dty pi p G HC HG Hk Hty Hdty Hnty Htyne Hpine Hpine' Hhd Htr Hdoc.
  unfold path_from_document in Hdoc.
  destruct pi as [|t rest]; [congruence|].
  simpl in Hdoc. rewrite (Hhd t eq_refl) in Hdoc.
  apply bind_ok in Hdoc. destruct Hdoc as [G2 [HG2 Hdoc]].
  (* the root: its own @context, then the scoped context of ty *)
  unfold resolver_enter in HG2. rewrite HC in HG2. rewrite HG in HG2. simpl in HG2.
  rewrite Hk, Hty in HG2. simpl in HG2. unfold apply_type_scoped in HG2. simpl in HG2. rewrite Hdty in HG2.
  assert (HG2' : match td_ctx dty with Some s => cparse ld G s | None => Ok G end = Ok G2).
  { destruct (td_ctx dty); exact HG2. }
  destruct (term_def G2 t) as [d|] eqn:Hd; [|discriminate].
  apply bind_ok in Hdoc. destruct Hdoc as [G3 [HG3 Hdoc]].
  apply bind_ok in Hdoc. destruct Hdoc as [more [Hm Hdoc]]. inversion Hdoc; subst p.
  pose proof (Htr G2 HG2' t rest eq_refl d G3 Hd HG3) as Htrans.
  pose proof (pfd_pfc ld rest G3 _ true more Hm Htrans) as Hpfc.
  unfold field_path_from_context.
  assert (E1 : list_eqb String.eqb [ty] [""] = false).
  { simpl. destruct (String.eqb ty "") eqn:E; [apply String.eqb_eq in E; congruence|reflexivity]. }
  rewrite E1.
  assert (E2 : list_eqb String.eqb (t :: rest) [""] = false).
  { simpl. destruct (String.eqb t "") eqn:E; [|reflexivity].
    apply String.eqb_eq in E. subst t. destruct rest; [congruence|reflexivity]. }
  rewrite E2.
  unfold path_from_context, context_member. simpl. rewrite HG. simpl.
  rewrite Hnty, Hdty. rewrite HG2'. simpl.
  rewrite (Hhd t eq_refl), Hd, HG3. simpl. rewrite Hpfc. simpl. reflexivity.
Qed.


(* ------------------------------------------------------------------ *)
(* (A) the field denoted by a dotted path is one of the document's facts *)
(* ------------------------------------------------------------------ *)

Lemma jget_in : forall k m v, jget k m = Some v -> In (k, v) m.
Proof.
  intros k m. induction m as [|[a b] m IH]; intros v H; simpl in H.
  - discriminate.
  - destruct (String.eqb a k) eqn:E.
    + apply String.eqb_eq in E. inversion H; subst. left. reflexivity.
    + right. apply IH. exact H.
Qed.

Lemma index_from_nth : forall {A} (l : list A) i0 i x,
  nth_error l i = Some x -> In ((i0 + i)%nat, x) (index_from i0 l).
Proof.
  intros A l. induction l as [|h t IH]; intros i0 i x H.
  - destruct i; discriminate.
  - destruct i as [|i]; simpl in *.
    + inversion H; subst. left. f_equal. lia.
    + right. replace (i0 + S i)%nat with (S i0 + i)%nat by lia. apply IH. exact H.
Qed.

Lemma digit_val_nonneg : forall c, is_digit c = true -> (0 <= digit_val c)%Z.
Proof.
  intros c H. unfold is_digit in H. unfold digit_val.
  apply andb_true_iff in H. destruct H as [H1 _]. apply Nat.leb_le in H1. lia.
Qed.

Lemma num_val_aux_nonneg : forall s acc, all_chars is_digit s = true -> (0 <= acc)%Z -> (0 <= num_val_aux acc s)%Z.
Proof.
  induction s as [|c s IH]; intros acc H Hacc; simpl in *.
  - exact Hacc.
  - apply andb_true_iff in H. destruct H as [Hc Hs].
    apply IH; [exact Hs|]. pose proof (digit_val_nonneg c Hc). lia.
Qed.

Lemma num_val_nonneg : forall s, is_num s = true -> (0 <= num_val s)%Z.
Proof.
  intros s H. unfold num_val. apply num_val_aux_nonneg; [|lia].
  unfold is_num in H. destruct s; [discriminate|exact H].
Qed.

Lemma scalar_fact_shape : forall G d dp p v fs,
  scalar_fact G d dp p v = Ok fs ->
  exists f, fs = [f] /\ f_path f = p /\
    forall dp2 p2, exists f', scalar_fact G d dp2 p2 v = Ok [f'] /\ f_path f' = p2 /\ f_dt f' = f_dt f /\ f_val f' = f_val f.
Proof.
  intros G d dp p v fs H. unfold scalar_fact in *.
  destruct (match d with Some d' => td_type d' | None => None end) as [t|].
  - destruct (String.eqb t "@id" || String.eqb t "@vocab").
    + destruct v; inversion H; subst; eexists; (split; [reflexivity|split; [reflexivity|]]);
        intros dp2 p2; eexists; (split; [reflexivity|simpl; auto]).
    + destruct (String.eqb t "@none" || String.eqb t "@json"); [discriminate|].
      inversion H; subst. eexists; (split; [reflexivity|split; [reflexivity|]]).
      intros dp2 p2; eexists; (split; [reflexivity|simpl; auto]).
  - inversion H; subst. eexists; (split; [reflexivity|split; [reflexivity|]]).
    intros dp2 p2; eexists; (split; [reflexivity|simpl; auto]).
Qed.

Lemma keyword_not_id_type : forall e, is_keyword e = false ->
  String.eqb e "@id" = false /\ String.eqb e "@type" = false.
Proof.
  intros e H. split.
  - destruct (String.eqb e "@id") eqn:E; [|reflexivity]. apply String.eqb_eq in E. subst e. discriminate.
  - destruct (String.eqb e "@type") eqn:E; [|reflexivity]. apply String.eqb_eq in E. subst e. discriminate.
Qed.

Definition leaf_path (l : leaf) : list part := fst (fst l).
Definition leaf_dt (l : leaf) : string := snd (fst l).
Definition leaf_val (l : leaf) : json := snd l.

(* the statement for one path, used as induction hypothesis *)
Definition in_facts_stmt (ld : loader) (pi : list string) : Prop :=
  forall G3 G4 m l n dp pp fs,
  field_at ld pi G3 G4 m = Ok l ->
  node_facts n ld G3 G4 m dp pp = Ok fs ->
  exists f, In f fs /\ f_path f = pp ++ leaf_path l /\ f_dt f = leaf_dt l /\ f_val f = leaf_val l.

Lemma step_in_item : forall ld G4 d x pe r l n' dp' pp a,
  in_facts_stmt ld r ->
  field_step ld G4 d x pe r (field_at ld r) = Ok l ->
  item_facts (node_facts n' ld) ld G4 d dp' (pp ++ pe) x = Ok a ->
  exists f, In f a /\ f_path f = pp ++ leaf_path l /\ f_dt f = leaf_dt l /\ f_val f = leaf_val l.
Proof.
  intros ld G4 d x pe r l n' dp' pp a IH Hs Hi.
  destruct x as [|b|z|s|s|l0|m']; simpl in Hs, Hi; try discriminate.
  - (* JBool *)
    destruct r; [|discriminate].
    apply bind_ok in Hs. destruct Hs as [fs0 [Hsf Hs]].
    destruct (scalar_fact_shape _ _ _ _ _ _ Hsf) as [f0 [Hfs0 [Hp0 Hind]]]. subst fs0.
    inversion Hs; subst l.
    destruct (Hind dp' (pp ++ pe)) as [f' [Hf' [Hp' [Hdt' Hv']]]].
    rewrite Hf' in Hi. inversion Hi; subst a.
    exists f'. split; [left; reflexivity|]. unfold leaf_path, leaf_dt, leaf_val; simpl.
    rewrite Hp', Hp0. auto.
  - destruct r; [|discriminate].
    apply bind_ok in Hs. destruct Hs as [fs0 [Hsf Hs]].
    destruct (scalar_fact_shape _ _ _ _ _ _ Hsf) as [f0 [Hfs0 [Hp0 Hind]]]. subst fs0.
    inversion Hs; subst l.
    destruct (Hind dp' (pp ++ pe)) as [f' [Hf' [Hp' [Hdt' Hv']]]].
    rewrite Hf' in Hi. inversion Hi; subst a.
    exists f'. split; [left; reflexivity|]. unfold leaf_path, leaf_dt, leaf_val; simpl.
    rewrite Hp', Hp0. auto.
  - destruct r; [|discriminate].
    apply bind_ok in Hs. destruct Hs as [fs0 [Hsf Hs]].
    destruct (scalar_fact_shape _ _ _ _ _ _ Hsf) as [f0 [Hfs0 [Hp0 Hind]]]. subst fs0.
    inversion Hs; subst l.
    destruct (Hind dp' (pp ++ pe)) as [f' [Hf' [Hp' [Hdt' Hv']]]].
    rewrite Hf' in Hi. inversion Hi; subst a.
    exists f'. split; [left; reflexivity|]. unfold leaf_path, leaf_dt, leaf_val; simpl.
    rewrite Hp', Hp0. auto.
  - destruct r; [|discriminate].
    apply bind_ok in Hs. destruct Hs as [fs0 [Hsf Hs]].
    destruct (scalar_fact_shape _ _ _ _ _ _ Hsf) as [f0 [Hfs0 [Hp0 Hind]]]. subst fs0.
    inversion Hs; subst l.
    destruct (Hind dp' (pp ++ pe)) as [f' [Hf' [Hp' [Hdt' Hv']]]].
    rewrite Hf' in Hi. inversion Hi; subst a.
    exists f'. split; [left; reflexivity|]. unfold leaf_path, leaf_dt, leaf_val; simpl.
    rewrite Hp', Hp0. auto.
  - (* JObj *)
    apply bind_ok in Hs. destruct Hs as [cc [Hent Hs]].
    apply bind_ok in Hs. destruct Hs as [l0 [Hrec Hs]].
    destruct l0 as [[q dt] v]. inversion Hs; subst l.
    rewrite Hent in Hi. simpl in Hi.
    apply bind_ok in Hi. destruct Hi as [sub [Hsub Hi]].
    destruct (IH _ _ _ _ _ _ _ _ Hrec Hsub) as [f [Hin [Hp [Hdt Hv]]]].
    exists f. unfold leaf_path, leaf_dt, leaf_val in *; simpl in *.
    split; [|rewrite Hp, app_assoc; auto].
    destruct (find _ (jkeys m')) as [ik|].
    + destruct (jget ik m') as [[| | | |s| |]|]; inversion Hi; subst a; try exact Hin. right. exact Hin.
    + inversion Hi; subst a. exact Hin.
Qed.

Lemma field_in_facts_len : forall ld N pi, (List.length pi <= N)%nat -> in_facts_stmt ld pi.
Proof.
  intros ld N. induction N as [|N IHN]; intros pi Hlen.
  - destruct pi; [|simpl in Hlen; lia].
    intros G3 G4 m l n dp pp fs Hf _. simpl in Hf. discriminate.
  - destruct pi as [|k rest].
    { intros G3 G4 m l n dp pp fs Hf _. simpl in Hf. discriminate. }
    simpl in Hlen.
    assert (IHrest : in_facts_stmt ld rest) by (apply IHN; lia).
    intros G3 G4 m l n dp pp fs Hf Hn.
    destruct n as [|n']; [simpl in Hn; discriminate|].
    simpl in Hf.
    destruct (is_num k || String.eqb k "@context") eqn:Hk0; [discriminate|].
    apply orb_false_iff in Hk0. destruct Hk0 as [Hknum Hkctx].
    destruct (jget k m) as [v|] eqn:Hget; [|discriminate].
    remember (expand_doc G4 true k) as e eqn:He.
    destruct (is_keyword e) eqn:Hkw; [discriminate|].
    destruct (String.eqb e "" || negb (has_colon e)) eqn:Hundef; [discriminate|].
    destruct (keyword_not_id_type e Hkw) as [Hnid Hnty].
    simpl in Hn.
    pose proof (jget_in k m v Hget) as Hin.
    assert (Hmap : In (member_facts (node_facts n' ld) ld G3 G4 dp pp (k, v))
                      (map (member_facts (node_facts n' ld) ld G3 G4 dp pp) m)).
    { apply in_map. exact Hin. }
    destruct (concat_res_all_ok _ _ _ Hn Hmap) as [a Ha].
    assert (Hgoal : exists f, In f a /\ f_path f = pp ++ leaf_path l /\ f_dt f = leaf_dt l /\ f_val f = leaf_val l).
    { unfold member_facts in Ha. simpl in Ha. rewrite Hkctx in Ha. rewrite <- He in Ha.
      rewrite Hnid, Hnty, Hkw, Hundef in Ha.
      (* which item *)
      assert (Hitem : forall io x pe r,
                In (io, x) (items_of v) ->
                ext_path (pp ++ [PStr e]) io = pp ++ pe ->
                in_facts_stmt ld r ->
                field_step ld G4 (term_def G4 k) x pe r (field_at ld r) = Ok l ->
                exists f, In f a /\ f_path f = pp ++ leaf_path l /\ f_dt f = leaf_dt l /\ f_val f = leaf_val l).
      { intros io x pe r Hio Hext IHr Hstep.
        set (F := fun it : option nat * json =>
               item_facts (node_facts n' ld) ld G4 (term_def G4 k) (ext_doc (dp ++ [k]) (fst it))
                          (ext_path (pp ++ [PStr e]) (fst it)) (snd it)) in *.
        assert (HinF : In (F (io, x)) (map F (items_of v))) by (apply in_map; exact Hio).
        destruct (concat_res_all_ok _ _ _ Ha HinF) as [b Hb].
        unfold F in Hb. simpl in Hb. rewrite Hext in Hb.
        destruct (step_in_item _ _ _ _ _ _ _ _ _ _ _ IHr Hstep Hb) as [f [Hfb Hprops]].
        exists f. split; [|exact Hprops].
        eapply concat_res_in; [exact Ha| |exact Hfb].
        rewrite <- Hb in *. unfold F in HinF. simpl in HinF. rewrite Hext in HinF. exact HinF. }
      destruct v as [|b|z|s|s|l0|m'].
      - (* JNull *) destruct rest as [|i rest'].
        + eapply (Hitem None JNull [PStr e] []); simpl; auto.
        + destruct (is_num i); [discriminate|].
          eapply (Hitem None JNull [PStr e] (i :: rest')); simpl; auto.
      - destruct rest as [|i rest'].
        + eapply (Hitem None _ [PStr e] []); simpl; eauto.
        + destruct (is_num i); [discriminate|].
          eapply (Hitem None _ [PStr e] (i :: rest')); simpl; eauto.
      - destruct rest as [|i rest'].
        + eapply (Hitem None _ [PStr e] []); simpl; eauto.
        + destruct (is_num i); [discriminate|].
          eapply (Hitem None _ [PStr e] (i :: rest')); simpl; eauto.
      - destruct rest as [|i rest'].
        + eapply (Hitem None _ [PStr e] []); simpl; eauto.
        + destruct (is_num i); [discriminate|].
          eapply (Hitem None _ [PStr e] (i :: rest')); simpl; eauto.
      - destruct rest as [|i rest'].
        + eapply (Hitem None _ [PStr e] []); simpl; eauto.
        + destruct (is_num i); [discriminate|].
          eapply (Hitem None _ [PStr e] (i :: rest')); simpl; eauto.
      - (* JArr *)
        destruct l0 as [|x1 [|x2 l']]; [discriminate| |].
        + (* single member *)
          destruct rest as [|i rest'].
          * eapply (Hitem None x1 [PStr e] []); simpl; eauto.
          * destruct (is_num i); [discriminate|].
            eapply (Hitem None x1 [PStr e] (i :: rest')); simpl; eauto.
        + destruct rest as [|i rest']; [discriminate|].
          destruct (is_num i) eqn:Hinum; [|discriminate].
          destruct (nth_error (x1 :: x2 :: l') (Z.to_nat (num_val i))) as [x|] eqn:Hnth; [|discriminate].
          eapply (Hitem (Some (Z.to_nat (num_val i))) x [PStr e; PInt (num_val i)] rest').
          * unfold items_of, indexed.
            apply in_map_iff. exists (Z.to_nat (num_val i), x). split; [reflexivity|].
            apply (index_from_nth (x1 :: x2 :: l') 0 (Z.to_nat (num_val i)) x Hnth).
          * simpl. rewrite Z2Nat.id by (apply num_val_nonneg; exact Hinum).
            rewrite <- app_assoc. reflexivity.
          * apply IHN. simpl in Hlen. lia.
          * exact Hf.
      - (* JObj *)
        destruct rest as [|i rest'].
        + eapply (Hitem None _ [PStr e] []); simpl; eauto.
        + destruct (is_num i); [discriminate|].
          eapply (Hitem None _ [PStr e] (i :: rest')); simpl; eauto. }
    destruct Hgoal as [f [Hfa Hprops]].
    exists f. split; [|exact Hprops].
    eapply concat_res_in; [exact Hn| |exact Hfa]. rewrite <- Ha. exact Hmap.
Qed.

Theorem field_is_fact : forall ld doc pi p dt v fs,
  doc_field ld doc pi = Ok (p, dt, v) ->
  facts ld doc = Ok fs ->
  exists f, In f fs /\ f_path f = p /\ f_dt f = dt /\ f_val f = v.
Proof.
  intros ld doc pi p dt v fs Hd Hf.
  unfold doc_field in Hd. unfold facts in Hf.
  destruct doc as [| | | | | |m]; try discriminate.
  apply bind_ok in Hd. destruct Hd as [cc [Hent Hd]].
  rewrite Hent in Hf. cbv beta iota delta [bind] in Hf.
  destruct (field_in_facts_len ld (List.length pi) pi (le_n _) _ _ _ _ _ _ _ _ Hd Hf) as [f [Hin [Hp [Hdt Hv]]]].
  exists f. simpl in Hp. auto.
Qed.

(* ------------------------------------------------------------------ *)
(* refutations on the current tree (witnesses; replayed on /repo they   *)
(* are the findings D8 and D14)                                        *)
(* ------------------------------------------------------------------ *)

Definition part_eqb (a b : part) : bool :=
  match a, b with
  | PStr x, PStr y => String.eqb x y
  | PInt x, PInt y => Z.eqb x y
  | _, _ => false
  end.
Definition path_eqb (a b : list part) : bool := list_eqb part_eqb a b.

Lemma part_eqb_eq : forall a b, part_eqb a b = true <-> a = b.
Proof.
  intros [x|x] [y|y]; simpl; split; intro H; try discriminate; try congruence.
  - apply String.eqb_eq in H. congruence.
  - inversion H. apply String.eqb_refl.
  - apply Z.eqb_eq in H. congruence.
  - inversion H. apply Z.eqb_refl.
Qed.

Lemma path_eqb_eq : forall a b, path_eqb a b = true <-> a = b.
Proof.
  induction a as [|x a IH]; destruct b as [|y b]; simpl; split; intro H; try discriminate; auto.
  - apply andb_true_iff in H. destruct H as [H1 H2].
    apply part_eqb_eq in H1. apply IH in H2. congruence.
  - inversion H; subst. apply andb_true_iff. split; [apply part_eqb_eq; auto | apply IH; auto].
Qed.

(* no fact of the document is stored under path p *)
Definition no_fact_at (ld : loader) (doc : json) (p : list part) : bool :=
  match facts ld doc with
  | Ok fs => negb (existsb (fun f => path_eqb (f_path f) p) fs)
  | _ => false
  end.

Lemma no_fact_at_spec : forall ld doc p,
  no_fact_at ld doc p = true ->
  exists fs, facts ld doc = Ok fs /\ forall f, In f fs -> f_path f <> p.
Proof.
  intros ld doc p H. unfold no_fact_at in H.
  destruct (facts ld doc) as [fs| | |]; try discriminate.
  exists fs. split; [reflexivity|].
  intros f Hin Heq. apply negb_true_iff in H.
  assert (existsb (fun f0 => path_eqb (f_path f0) p) fs = true).
  { apply existsb_exists. exists f. split; [exact Hin|apply path_eqb_eq; exact Heq]. }
  congruence.
Qed.

(* D8: a type-scoped context (no @propagate) defines `leaf` differently from the
   enclosing context; `leaf` is used in a nested node. *)
Definition d8_doc : json :=
  JObj [("@context", JObj [("T", JObj [("@id", JStr "http://e/T");
                                      ("@context", JObj [("inner", JStr "http://e/inner");
                                                         ("leaf", JStr "http://e/leafT")])]);
                           ("leaf", JStr "http://e/leafTop")]);
        ("@type", JStr "T");
        ("inner", JObj [("leaf", JStr "x")])].
Definition d8_ctx : json :=
  JObj [("@context", JObj [("T", JObj [("@id", JStr "http://e/T");
                                      ("@context", JObj [("inner", JStr "http://e/inner");
                                                         ("leaf", JStr "http://e/leafT")])]);
                           ("leaf", JStr "http://e/leafTop")])].

Example d8_resolver : path_from_document [] d8_doc ["inner"; "leaf"]
                      = Ok [PStr "http://e/inner"; PStr "http://e/leafT"].
Proof. vm_compute. reflexivity. Qed.
Example d8_field : doc_field [] d8_doc ["inner"; "leaf"]
                   = Ok ([PStr "http://e/inner"; PStr "http://e/leafTop"], "http://www.w3.org/2001/XMLSchema#string", JStr "x").
Proof. vm_compute. reflexivity. Qed.
Example d8_context_side : field_path_from_context [] d8_ctx ["T"] ["inner"; "leaf"]
                          = Ok [PStr "http://e/inner"; PStr "http://e/leafT"].
Proof. vm_compute. reflexivity. Qed.
Example d8_nothing_stored : no_fact_at [] d8_doc [PStr "http://e/inner"; PStr "http://e/leafT"] = true.
Proof. vm_compute. reflexivity. Qed.

Theorem doc_vs_store_refuted_type_scoped :
  exists ld doc pi p,
    path_from_document ld doc pi = Ok p /\
    (exists p' dt v, doc_field ld doc pi = Ok (p', dt, v) /\ p' <> p) /\
    (exists fs, facts ld doc = Ok fs /\ forall f, In f fs -> f_path f <> p).
Proof.
  exists [], d8_doc, ["inner"; "leaf"], [PStr "http://e/inner"; PStr "http://e/leafT"].
  split; [exact d8_resolver|]. split.
  - exists [PStr "http://e/inner"; PStr "http://e/leafTop"], "http://www.w3.org/2001/XMLSchema#string", (JStr "x").
    split; [exact d8_field|]. intro H. inversion H.
  - apply no_fact_at_spec. exact d8_nothing_stored.
Qed.

(* D14 (array part fixed by 7a3eec3): a numeric segment on an array selects one of its
   members and the walk continues in that member; out of range is an error *)
Theorem numeric_segment_selects_member : forall ld i rest G l acc p,
  is_num i = true ->
  pfd ld (i :: rest) G (JArr l) acc = Ok p ->
  exists x more, nth_error l (Z.to_nat (num_val i)) = Some x /\
                 pfd ld rest G x false = Ok more /\ p = PInt (num_val i) :: more.
Proof.
  intros ld i rest G l acc p Hn H. simpl in H. rewrite Hn in H.
  destruct (Z.leb (num_val i) max_int32); [|discriminate].
  destruct (nth_error l (Z.to_nat (num_val i))) as [x|] eqn:Hnth; [|discriminate].
  apply bind_ok in H. destruct H as [more [Hm H]]. inversion H.
  exists x, more. auto.
Qed.

Theorem numeric_segment_errors : forall ld i rest G l acc,
  is_num i = true ->
  nth_error l (Z.to_nat (num_val i)) = None ->
  exists t, pfd ld (i :: rest) G (JArr l) acc = Err t.
Proof.
  intros ld i rest G l acc Hn Hnth. simpl. rewrite Hn.
  destruct (Z.leb (num_val i) max_int32); [|eauto]. rewrite Hnth. eauto.
Qed.

Definition d14_doc : json :=
  JObj [("@context", JObj [("p", JStr "http://e/p"); ("name", JStr "http://e/name")]);
        ("p", JArr [JStr "a"; JStr "b"]);
        ("name", JStr "x")].

(* the former out-of-range witness is an error now *)
Example d14_out_of_range : path_from_document [] d14_doc ["p"; "5"] = Err "index-out-of-range".
Proof. vm_compute. reflexivity. Qed.
(* ... but not on a value that is not an array (kept: pinned by the repository's TestIPFSContext) *)
Example d14_on_scalar : path_from_document [] d14_doc ["name"; "0"] = Ok [PStr "http://e/name"; PInt 0].
Proof. vm_compute. reflexivity. Qed.
Example d14_into_string : path_from_document [] d14_doc ["name"; "0"; "1"] = Ok [PStr "http://e/name"; PInt 0; PInt 1].
Proof. vm_compute. reflexivity. Qed.

Theorem numeric_segment_on_non_array_refuted :
  exists ld doc pi p,
    path_from_document ld doc pi = Ok p /\
    (exists t, doc_field ld doc pi = Err t) /\
    (exists fs, facts ld doc = Ok fs /\ forall f, In f fs -> f_path f <> p).
Proof.
  exists [], d14_doc, ["name"; "0"], [PStr "http://e/name"; PInt 0].
  split; [exact d14_on_scalar|]. split.
  - exists "index-on-non-array". vm_compute. reflexivity.
  - apply no_fact_at_spec. vm_compute. reflexivity.
Qed.
Example d14_in_range_ok :
  path_from_document [] d14_doc ["p"; "1"] = Ok [PStr "http://e/p"; PInt 1] /\
  doc_field [] d14_doc ["p"; "1"]
   = Ok ([PStr "http://e/p"; PInt 1], "http://www.w3.org/2001/XMLSchema#string", JStr "b").
Proof. split; vm_compute; reflexivity. Qed.

(* members of different types: the selected member decides (former member-0 witness) *)
Definition member0_doc : json :=
  JObj [("@context", JObj [("items", JStr "http://e/items");
                           ("A", JObj [("@id", JStr "http://e/A"); ("@context", JObj [("q", JStr "http://e/qA")])]);
                           ("B", JObj [("@id", JStr "http://e/B"); ("@context", JObj [("q", JStr "http://e/qB")])])]);
        ("items", JArr [JObj [("@type", JStr "A"); ("q", JStr "x")];
                        JObj [("@type", JStr "B"); ("q", JStr "y")]])].

Example member_selected :
  path_from_document [] member0_doc ["items"; "1"; "q"] = Ok [PStr "http://e/items"; PInt 1; PStr "http://e/qB"] /\
  doc_field [] member0_doc ["items"; "1"; "q"]
    = Ok ([PStr "http://e/items"; PInt 1; PStr "http://e/qB"], "http://www.w3.org/2001/XMLSchema#string", JStr "y").
Proof. split; vm_compute; reflexivity. Qed.

(* still refuted (D31, known finding): a multi-member array addressed without its index *)
Theorem missing_index_refuted :
  exists ld doc pi p,
    path_from_document ld doc pi = Ok p /\
    (exists t, doc_field ld doc pi = Err t) /\
    (exists fs, facts ld doc = Ok fs /\ forall f, In f fs -> f_path f <> p).
Proof.
  exists [], d14_doc, ["p"], [PStr "http://e/p"].
  split; [vm_compute; reflexivity|]. split.
  - exists "index-required". vm_compute. reflexivity.
  - apply no_fact_at_spec. vm_compute. reflexivity.
Qed.

(* still refuted: index 0 on a one-member array of the source document (the stored entry
   carries no index) *)
Definition single_doc : json :=
  JObj [("@context", JObj [("p", JStr "http://e/p")]); ("p", JArr [JStr "a"])].

Theorem single_member_index_refuted :
  exists ld doc pi p,
    path_from_document ld doc pi = Ok p /\
    (exists t, doc_field ld doc pi = Err t) /\
    (exists fs, facts ld doc = Ok fs /\ forall f, In f fs -> f_path f <> p).
Proof.
  exists [], single_doc, ["p"; "0"], [PStr "http://e/p"; PInt 0].
  split; [vm_compute; reflexivity|]. split.
  - exists "index-on-single-member". vm_compute. reflexivity.
  - apply no_fact_at_spec. vm_compute. reflexivity.
Qed.
