(* JsonLD/Run.v — evaluation of per-run case files for C11: one case = the
   documents the offline loader serves, a document, a context document, what
   MerklizeJSONLD stored for the document (hook: key parts, datatype, string
   value), and a list of resolver queries with what /repo's resolvers returned.
   Compared: resolver models (Resolvers.v) against the observed path parts /
   strings / error class; `facts` (Model.v) against the stored entries as
   multisets modulo the numbering of array indices. *)
From Coq Require Import ZArith List String Ascii Bool Uint63.
From GSP Require Import Base.Prelude Base.Decode Value.Time Value.Model Value.Run RDF.Model RDF.Run
  JsonLD.Model JsonLD.Resolvers.
Import ListNotations.
Open Scope list_scope.

Inductive pobs := POk (l : list rpart) | PErr.
Inductive sobs := SOk (s : string) | SErr.

Inductive query :=
| QDoc (pi : list string) (o : pobs)               (* Merklizer.ResolveDocPath / NewPathFromDocument *)
| QCtx (pi : list string) (o : pobs)               (* NewPathFromContext *)
| QField (ty field : list string) (o : pobs)       (* NewFieldPathFromContext *)
| QTypeID (ty : string) (o : sobs)                 (* TypeIDFromContext *)
| QTypeOf (pi : list string) (o : sobs).           (* TypeFromContext *)

(* stored entry: key parts, datatype, Some s when the stored value is a Go string of
   a datatype that is kept verbatim *)
Definition oentry := (list rpart * string * option string)%type.
Inductive eobs := EEntries (l : list oentry) | EErr | ESkip.

Record ccase := { c_id : int; c_ld : loader; c_doc : json; c_cj : json; c_entries : eobs; c_queries : list query }.
Definition mkcc (id : int) (ld : loader) (doc cj : json) (e : eobs) (qs : list query) : ccase :=
  {| c_id := id; c_ld := ld; c_doc := doc; c_cj := cj; c_entries := e; c_queries := qs |}.

(* integers of JSON numbers are written as signed limb numbers *)
Definition JI (s : snum) : json := JInt (z_of_snum s).

Definition pagree (r : res (list part)) (o : pobs) : bool :=
  match r, o with
  | Ok p, POk l => parts_eqb p l
  | Err _, PErr => true
  | _, _ => false
  end.
Definition sagree (r : res string) (o : sobs) : bool :=
  match r, o with
  | Ok s, SOk s' => String.eqb s s'
  | Err _, SErr => true
  | _, _ => false
  end.

Definition query_ok (ld : loader) (doc cj : json) (q : query) : bool :=
  match q with
  | QDoc pi o => pagree (path_from_document ld doc pi) o
  | QCtx pi o => pagree (path_from_context ld cj pi) o
  | QField ty f o => pagree (field_path_from_context ld cj ty f) o
  | QTypeID ty o => sagree (type_id_from_context ld cj ty) o
  | QTypeOf pi o => sagree (type_from_context ld cj pi) o
  end.

(* same path up to the values of the integer parts *)
Fixpoint pat_eqb (a : list part) (b : list rpart) : bool :=
  match a, b with
  | [], [] => true
  | PStr x :: a', RPS y :: b' => String.eqb x y && pat_eqb a' b'
  | PInt _ :: a', RPI _ :: b' => pat_eqb a' b'
  | _, _ => false
  end.

Definition kept_verbatim (dt : string) : bool :=
  match classify dt with DOther => negb (String.eqb dt xsd_double) | _ => false end.
Definition fact_value_key (f : fact) : option string :=
  match f_val f with
  | JStr s => if kept_verbatim (f_dt f) then Some s else None
  | _ => None
  end.
Definition fact_matches (f : fact) (e : oentry) : bool :=
  let '(k, dt, v) := e in
  pat_eqb (f_path f) k && String.eqb (f_dt f) dt && option_eqb String.eqb (fact_value_key f) v.

Fixpoint remove_first {A} (p : A -> bool) (l : list A) : option (list A) :=
  match l with
  | [] => None
  | h :: t => if p h then Some t else match remove_first p t with Some t' => Some (h :: t') | None => None end
  end.
Fixpoint multiset_match (fs : list fact) (es : list oentry) : bool :=
  match fs with
  | [] => match es with [] => true | _ => false end
  | f :: r => match remove_first (fact_matches f) es with
              | Some es' => multiset_match r es'
              | None => false
              end
  end.

Definition entries_ok (ld : loader) (doc : json) (o : eobs) : bool :=
  match o with
  | ESkip => true
  | EErr => match facts ld doc with Err _ => true | _ => false end
  | EEntries l => match facts ld doc with Ok fs => multiset_match fs l | _ => false end
  end.

Definition case_ok (c : ccase) : bool :=
  entries_ok (c_ld c) (c_doc c) (c_entries c) &&
  forallb (query_ok (c_ld c) (c_doc c) (c_cj c)) (c_queries c).

Definition cmismatches (cs : list ccase) : list int :=
  fold_right (fun c acc => if case_ok c then acc else c_id c :: acc) [] cs.

(* debugging aid: which parts of a case disagree (0 = entries, i+1 = query i) *)
Definition cdetail (c : ccase) : list nat :=
  (if entries_ok (c_ld c) (c_doc c) (c_entries c) then [] else [O]) ++
  map (fun iq => S (fst iq))
      (filter (fun iq => negb (query_ok (c_ld c) (c_doc c) (c_cj c) (snd iq))) (index_from O (c_queries c))).
