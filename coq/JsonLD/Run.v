(* JsonLD/Run.v — evaluation of per-run case files for C11: one case = the
   documents the offline loader serves, a document, a context document, what
   MerklizeJSONLD stored for the document (hook: key parts, datatype, string
   value), and a list of resolver queries with what /repo's resolvers returned.
   Compared: resolver models (Resolvers.v) against the observed path parts /
   strings / error class; `facts` (Model.v) against the stored entries as
   multisets modulo the numbering of array indices; the tree keys (KeyModel.v: parts of
   the model + the case's hasher, through recorded primitive calls) against the
   MtEntry() of the schema-side path, the document-side path and the stored entry. *)
From Coq Require Import ZArith List String Ascii Bool Uint63.
From GSP Require Import Base.Prelude Base.Decode Value.Time Value.Model Value.Run RDF.Model RDF.Run
  Merklizer.Model JsonLD.Model JsonLD.Resolvers JsonLD.KeyModel.
Import ListNotations.
Open Scope list_scope.

Inductive pobs := POk (l : list rpart) | PErr.
Inductive sobs := SOk (s : string) | SErr.

(* a tree key the implementation reported (Path.MtEntry / RDFEntry.KeyMtEntry) *)
Inductive kobs := KOk (z : limbs) | KErr | KNone.

Inductive query :=
| QDoc (pi : list string) (o : pobs)               (* Merklizer.ResolveDocPath / NewPathFromDocument *)
| QCtx (pi : list string) (o : pobs)               (* NewPathFromContext *)
| QField (ty field : list string) (o : pobs)       (* NewFieldPathFromContext *)
| QTypeID (ty : string) (o : sobs)                 (* TypeIDFromContext *)
| QTypeOf (pi : list string) (o : sobs)            (* TypeFromContext *)
(* tree keys of one field: FieldPathFromContext(ty, field) with the type prefix restored by
   Prepend(pre), ResolveDocPath(pi), and the entry stored for the field *)
| QKeys (ty field : list string) (pre : list rpart) (pi : list string) (ks kd ke : kobs).

(* stored entry: key parts, datatype, Some s when the stored value is a Go string of
   a datatype that is kept verbatim *)
Definition oentry := (list rpart * string * option string)%type.
Inductive eobs := EEntries (l : list oentry) | EErr | ESkip.

(* c_h: the primitive calls (HashBytes of every part, Hash of every part list) of the hasher the
   case runs under, recorded by the harness on the real hasher *)
Record ccase := { c_id : int; c_h : raw_hasher; c_ld : loader; c_doc : json; c_cj : json; c_entries : eobs;
                  c_queries : list query }.
Definition mkcc (id : int) (h : raw_hasher) (ld : loader) (doc cj : json) (e : eobs) (qs : list query) : ccase :=
  {| c_id := id; c_h := h; c_ld := ld; c_doc := doc; c_cj := cj; c_entries := e; c_queries := qs |}.
Definition mkrh (p : limbs) (hs : list (list limbs * option limbs)) (bs : list (string * option limbs)) : raw_hasher :=
  {| rh_prime := p; rh_hash := hs; rh_bytes := bs |}.

Definition part_of (r : rpart) : part :=
  match r with RPS s => PStr s | RPI i => PInt (Uint63.to_Z i) end.
Definition kagree (r : res Z) (o : kobs) : bool :=
  match o, r with
  | KNone, _ => true
  | KOk l, Ok z => Z.eqb z (z_of_limbs l)
  | KErr, Err _ => true
  | _, _ => false          (* includes an oracle miss (Panic) *)
  end.

(* integers of JSON numbers are written as signed limb numbers *)
Definition JI (s : snum) : json := JInt (z_of_snum s).

Definition pagree (r : res (list part)) (o : pobs) : bool :=
  match r, o with
  | Ok p, POk l => parts_eqb p l
  | Err _, PErr => true
  | _, _ => false
  end.
Definition sagree (r : res string) (o : sobs) : bool :=
  match r, o with
  | Ok s, SOk s' => String.eqb s s'
  | Err _, SErr => true
  | _, _ => false
  end.

Definition query_ok (H : hasher) (ld : loader) (doc cj : json) (q : query) : bool :=
  match q with
  | QKeys ty f pre pi ks kd ke =>
      kagree (path_key H (p <- field_path_from_context_p H None ld cj ty f ;;
                          Ok (path_prepend (map part_of pre) p))) ks &&
      kagree (path_key H (path_from_document_p H None ld doc pi)) kd &&
      kagree (path_key H (entry_path H ld doc pi)) ke
  | QDoc pi o => pagree (path_from_document ld doc pi) o
  | QCtx pi o => pagree (path_from_context ld cj pi) o
  | QField ty f o => pagree (field_path_from_context ld cj ty f) o
  | QTypeID ty o => sagree (type_id_from_context ld cj ty) o
  | QTypeOf pi o => sagree (type_from_context ld cj pi) o
  end.

(* same path up to the values of the integer parts *)
Fixpoint pat_eqb (a : list part) (b : list rpart) : bool :=
  match a, b with
  | [], [] => true
  | PStr x :: a', RPS y :: b' => String.eqb x y && pat_eqb a' b'
  | PInt _ :: a', RPI _ :: b' => pat_eqb a' b'
  | _, _ => false
  end.

Definition kept_verbatim (dt : string) : bool :=
  match classify dt with DOther => negb (String.eqb dt xsd_double) | _ => false end.
Definition fact_value_key (f : fact) : option string :=
  match f_val f with
  | JStr s => if kept_verbatim (f_dt f) then Some s else None
  | _ => None
  end.
Definition fact_matches (f : fact) (e : oentry) : bool :=
  let '(k, dt, v) := e in
  pat_eqb (f_path f) k && String.eqb (f_dt f) dt && option_eqb String.eqb (fact_value_key f) v.

Fixpoint remove_first {A} (p : A -> bool) (l : list A) : option (list A) :=
  match l with
  | [] => None
  | h :: t => if p h then Some t else match remove_first p t with Some t' => Some (h :: t') | None => None end
  end.
Fixpoint multiset_match (fs : list fact) (es : list oentry) : bool :=
  match fs with
  | [] => match es with [] => true | _ => false end
  | f :: r => match remove_first (fact_matches f) es with
              | Some es' => multiset_match r es'
              | None => false
              end
  end.

Definition entries_ok (ld : loader) (doc : json) (o : eobs) : bool :=
  match o with
  | ESkip => true
  | EErr => match facts ld doc with Err _ => true | _ => false end
  | EEntries l => match facts ld doc with Ok fs => multiset_match fs l | _ => false end
  end.

Definition case_ok (c : ccase) : bool :=
  entries_ok (c_ld c) (c_doc c) (c_entries c) &&
  forallb (query_ok (mk_hasher (c_h c)) (c_ld c) (c_doc c) (c_cj c)) (c_queries c).

Definition cmismatches (cs : list ccase) : list int :=
  fold_right (fun c acc => if case_ok c then acc else c_id c :: acc) [] cs.

(* debugging aid: which parts of a case disagree (0 = entries, i+1 = query i) *)
Definition cdetail (c : ccase) : list nat :=
  (if entries_ok (c_ld c) (c_doc c) (c_entries c) then [] else [O]) ++
  map (fun iq => S (fst iq))
      (filter (fun iq => negb (query_ok (mk_hasher (c_h c)) (c_ld c) (c_doc c) (c_cj c) (snd iq)))
              (index_from O (c_queries c))).
