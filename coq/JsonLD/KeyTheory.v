(* JsonLD/KeyTheory.v — tree keys of the paths the resolvers return (property C11). *)
From Coq Require Import ZArith List String Ascii Bool Lia.
From GSP Require Import Base.Prelude Value.Model RDF.Model Merklizer.Model JsonLD.Model JsonLD.Resolvers
  JsonLD.Theory JsonLD.KeyModel.
Import ListNotations.
Open Scope list_scope.

(* every resolver result carries the options' hasher *)
Lemma with_options_hasher_ok : forall Hd o r p,
  with_options_hasher Hd o r = Ok p -> exists ps, r = Ok ps /\ p = mkpath ps (Some (get_hasher Hd o)).
Proof.
  intros Hd o r p H. unfold with_options_hasher in H. apply bind_ok in H.
  destruct H as [ps [Hr H]]. inversion H. eauto.
Qed.

Theorem resolver_paths_carry_options_hasher : forall Hd o ld doc cj pi ty field p,
  (path_from_document_p Hd o ld doc pi = Ok p \/
   path_from_context_p Hd o ld cj pi = Ok p \/
   field_path_from_context_p Hd o ld cj ty field = Ok p) ->
  p_hasher p = Some (get_hasher Hd o).
Proof.
  intros Hd o ld doc cj pi ty field p [H|[H|H]];
    apply with_options_hasher_ok in H; destruct H as [ps [_ E]]; subst p; reflexivity.
Qed.

(* the key is a function of (parts, effective hasher) only *)
Theorem key_determined : forall Hd p q,
  p_parts p = p_parts q ->
  hasher_or Hd (p_hasher p) = hasher_or Hd (p_hasher q) ->
  path_mt_entry Hd p = path_mt_entry Hd q.
Proof. intros Hd p q Hp Hh. unfold path_mt_entry. rewrite Hp, Hh. reflexivity. Qed.

(* ... and of the hasher only through the primitive calls Path.MtEntry makes *)
Lemma hash_parts_ext : forall H1 H2 ps,
  (forall s, In (PStr s) ps -> h_bytes H1 s = h_bytes H2 s) -> hash_parts H1 ps = hash_parts H2 ps.
Proof.
  intros H1 H2 ps. induction ps as [|[s|i] t IH]; intros Hb; cbn [hash_parts].
  - reflexivity.
  - rewrite (Hb s) by (left; reflexivity). rewrite IH; [reflexivity|].
    intros s0 Hin. apply Hb. right. exact Hin.
  - rewrite IH; [reflexivity|]. intros s0 Hin. apply Hb. right. exact Hin.
Qed.

Theorem key_determined_by_primitives : forall H1 H2 ps,
  (forall s, In (PStr s) ps -> h_bytes H1 s = h_bytes H2 s) ->
  (forall ks, h_hash H1 ks = h_hash H2 ks) ->
  hash_path H1 ps = hash_path H2 ps.
Proof.
  intros H1 H2 ps Hb Hh. unfold hash_path. rewrite (hash_parts_ext H1 H2 ps Hb).
  destruct (hash_parts H2 ps) as [ks| | |]; cbn [bind]; try reflexivity. rewrite Hh. reflexivity.
Qed.

(* schema-side path (type prefix restored with Prepend) and document-side path with equal
   parts, both resolved through the same Options: equal tree keys *)
Theorem schema_and_document_keys_agree : forall Hd o ld cj doc ty field pi pre ps pd,
  field_path_from_context_p Hd o ld cj ty field = Ok ps ->
  path_from_document_p Hd o ld doc pi = Ok pd ->
  pre ++ p_parts ps = p_parts pd ->
  path_mt_entry Hd (path_prepend pre ps) = path_mt_entry Hd pd.
Proof.
  intros Hd o ld cj doc ty field pi pre ps pd Hs Hdoc Hparts.
  apply with_options_hasher_ok in Hs. destruct Hs as [a [_ Ea]].
  apply with_options_hasher_ok in Hdoc. destruct Hdoc as [b [_ Eb]].
  subst ps pd. apply key_determined; cbn in *; [exact Hparts|reflexivity].
Qed.

(* ... and the key of the stored entry, when the merklizer's hasher is the options' hasher *)
Theorem document_and_stored_keys_agree : forall Hd o ld doc pi pd pe,
  path_from_document_p Hd o ld doc pi = Ok pd ->
  entry_path (get_hasher Hd o) ld doc pi = Ok pe ->
  p_parts pd = p_parts pe ->
  path_mt_entry Hd pd = path_mt_entry Hd pe.
Proof.
  intros Hd o ld doc pi pd pe Hdoc He Hparts.
  apply with_options_hasher_ok in Hdoc. destruct Hdoc as [b [_ Eb]]. subst pd.
  unfold entry_path in He. apply bind_ok in He. destruct He as [l [_ He]]. inversion He; subst pe.
  apply key_determined; cbn in *; [exact Hparts|reflexivity].
Qed.

(* refutation-style example: equal parts, different hashers, different keys (what a resolver
   returning the package default hasher instead of the options' hasher produces: seeded C11-i) *)
Definition toy_bytes (s : string) : ores := OV (Z.of_nat (String.length s)).
Definition toy_hasher_a : hasher := {| h_prime := 101; h_hash := fun l => OV (fold_right Z.add 0%Z l); h_bytes := toy_bytes |}.
Definition toy_hasher_b : hasher := {| h_prime := 101; h_hash := fun l => OV (fold_right Z.add 1%Z l); h_bytes := toy_bytes |}.

Example same_parts_other_hasher_other_key :
  let parts := [PStr "http://e/p"; PInt 1] in
  p_parts (mkpath parts (Some toy_hasher_a)) = p_parts (mkpath parts (Some toy_hasher_b)) /\
  path_mt_entry toy_hasher_a (mkpath parts (Some toy_hasher_a)) = Ok 11%Z /\
  path_mt_entry toy_hasher_a (mkpath parts (Some toy_hasher_b)) = Ok 12%Z.
Proof. cbn. repeat split; vm_compute; reflexivity. Qed.

Theorem key_depends_on_hasher :
  exists Hd p q, p_parts p = p_parts q /\ path_mt_entry Hd p <> path_mt_entry Hd q.
Proof.
  exists toy_hasher_a, (mkpath [PStr "http://e/p"; PInt 1] (Some toy_hasher_a)),
         (mkpath [PStr "http://e/p"; PInt 1] (Some toy_hasher_b)).
  split; [reflexivity|]. vm_compute. intro H. inversion H.
Qed.
