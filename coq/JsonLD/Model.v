(* JsonLD/Model.v — executable model of the JSON-LD SUBSET the generators emit
   (property C11; also the document-level leg of C01/C15).  No proofs here.

   What is modelled (json-gold v0.5.1, ld/context.go, ld/api_expand.go):
     * active context = finite map term -> {IRI mapping; type mapping; raw scoped
       context; prefix flag} + the "previous context" kept by a non-propagated
       (type-scoped) context                     (Context.termDefinitions / previousContext)
     * Context.parse: overlay of a local context: array, URL (through a loader
       table), object with string terms, expanded term definitions
       (@id/@type/@context/@prefix; @container/@protected accepted and ignored),
       prefixes / compact IRIs, aliases of keywords, @propagate, @version
     * createTermDefinition / ExpandIri in context-processing mode, as a function
       of (active terms, local context, term); a dependency cycle inside one local
       context exhausts the fuel = CyclicIRIMapping
     * ExpandIri for document keys / @type values / @id values
     * the document walk of the expansion algorithm restricted to node objects,
       scalars and arrays: property-scoped contexts, type-scoped contexts
       (reverted in nested node objects: RevertToPreviousContext), safe mode
   NOT modelled (the model answers Err "subset:..." or is simply never fed such
   input): @vocab, @base, @language, @direction, @import, @nest, @reverse, @list,
   @set, @index, @included, @json, value objects, nullified terms/contexts,
   protected-term redefinition errors, IRI-shaped context keys, @graph.  *)
From Coq Require Import ZArith List String Ascii Bool Arith.
From GSP Require Import Base.Prelude RDF.Model.
Import ListNotations.
Open Scope string_scope.
Open Scope list_scope.

(* ---- JSON values (encoding/json into interface{}) ---- *)
Inductive json :=
| JNull
| JBool (b : bool)
| JInt (z : Z)            (* a float64 with an integral value *)
| JDbl (s : string)       (* any other number; s = its canonical rendering (opaque) *)
| JStr (s : string)
| JArr (l : list json)
| JObj (m : list (string * json)).

Definition members := list (string * json).

Fixpoint jget (k : string) (m : members) : option json :=
  match m with
  | [] => None
  | (a, v) :: t => if String.eqb a k then Some v else jget k t
  end.
Definition jkeys (m : members) : list string := map fst m.
Fixpoint jmem (k : string) (m : members) : bool :=
  match m with [] => false | (a, _) :: t => String.eqb a k || jmem k t end.

(* ---- string helpers ---- *)
Fixpoint str_mem (s : string) (l : list string) : bool :=
  match l with [] => false | h :: t => String.eqb h s || str_mem s t end.

Definition keywords : list string :=
  ["@base"; "@container"; "@context"; "@default"; "@direction"; "@embed"; "@explicit"; "@json";
   "@id"; "@included"; "@index"; "@first"; "@graph"; "@import"; "@language"; "@list"; "@nest";
   "@none"; "@omitDefault"; "@prefix"; "@preserve"; "@propagate"; "@protected"; "@requireAll";
   "@reverse"; "@set"; "@type"; "@value"; "@version"; "@vocab"].
Definition is_keyword (s : string) : bool := str_mem s keywords.

Definition is_alpha (c : ascii) : bool :=
  let n := nat_of_ascii c in (Nat.leb 65 n && Nat.leb n 90) || (Nat.leb 97 n && Nat.leb n 122).
Fixpoint all_chars (p : ascii -> bool) (s : string) : bool :=
  match s with EmptyString => true | String c t => p c && all_chars p t end.
(* ignoredKeywordPattern ^@[a-zA-Z]+$ *)
Definition keyword_like (s : string) : bool :=
  match s with
  | String "@"%char (String c t) => is_alpha c && all_chars is_alpha t
  | _ => false
  end.

(* strings.Index(s, ":") > 0 : split at the first colon when it is not the first byte *)
Fixpoint split_colon_aux (acc : string -> string) (s : string) : option (string * string) :=
  match s with
  | EmptyString => None
  | String c t => if Ascii.eqb c ":"%char then Some (acc EmptyString, t)
                  else split_colon_aux (fun r => acc (String c r)) t
  end.
Definition split_colon (s : string) : option (string * string) :=
  match s with
  | EmptyString => None
  | String c t => if Ascii.eqb c ":"%char then None else split_colon_aux (fun r => r) s
  end.
Fixpoint has_colon (s : string) : bool :=
  match s with EmptyString => false | String c t => Ascii.eqb c ":"%char || has_colon t end.
Fixpoint has_slash (s : string) : bool :=
  match s with EmptyString => false | String c t => Ascii.eqb c "/"%char || has_slash t end.
Definition starts_with (p s : string) : bool := String.prefix p s.

(* net/url getScheme: ALPHA *( ALPHA / DIGIT / "+" / "-" / "." ) ":" *)
Definition scheme_char (c : ascii) : bool :=
  is_alpha c || is_digit c || Ascii.eqb c "+"%char || Ascii.eqb c "-"%char || Ascii.eqb c "."%char.
(* ld.IsAbsoluteIri: "_:" prefix, or url.Parse succeeds with a scheme.  Modelled for
   strings without control characters / spaces / '%' (the generators' vocabulary). *)
Definition is_abs_iri (s : string) : bool :=
  starts_with "_:" s ||
  match split_colon s with
  | Some (String c t, _) => is_alpha c && all_chars scheme_char t
  | _ => false
  end.

Fixpoint last_char (s : string) : option ascii :=
  match s with
  | EmptyString => None
  | String c EmptyString => Some c
  | String _ t => last_char t
  end.
Definition gen_delims : list ascii := [":"; "/"; "?"; "#"; "["; "]"; "@"]%char.
Definition ends_with_gen_delim (s : string) : bool :=
  match last_char s with
  | Some c => existsb (Ascii.eqb c) gen_delims
  | None => false
  end.

(* numRE ^\d+$ and strconv.ParseInt(term, 10, 32) *)
Definition is_num (s : string) : bool :=
  match s with EmptyString => false | _ => all_chars is_digit s end.
Fixpoint num_val_aux (acc : Z) (s : string) : Z :=
  match s with EmptyString => acc | String c t => num_val_aux (acc * 10 + digit_val c)%Z t end.
Definition num_val (s : string) : Z := num_val_aux 0%Z s.
Definition max_int32 : Z := 2147483647%Z.

(* ---- active context ---- *)
Record tdef := {
  td_id : string;              (* IRI mapping (or keyword, for aliases) *)
  td_type : option string;     (* type mapping *)
  td_ctx : option json;        (* raw scoped context, as json-gold keeps it *)
  td_prefix : bool             (* _prefix *)
}.
Definition terms := list (string * tdef).
Record ctx := {
  c_terms : terms;
  c_prev : option terms        (* previousContext (set by a non-propagated parse) *)
}.
Definition empty_ctx : ctx := {| c_terms := []; c_prev := None |}.
Definition term_def (G : ctx) (t : string) : option tdef := assoc String.eqb t (c_terms G).

(* RevertToPreviousContext *)
Definition revert (G : ctx) : ctx :=
  match c_prev G with
  | None => G
  | Some p => {| c_terms := p; c_prev := None |}
  end.

(* loader: URL -> document (the harness records what the offline loader serves) *)
Definition loader := list (string * json).

(* ---- ExpandIri during context processing (context != nil, relative=false, vocab=true)
   `rec t` = the term definition that createTermDefinition gives to key t of the
   local context L being processed (steps 2 and 4.3 define it first). ---- *)
Definition expand_in_ctx (rec : string -> res tdef) (T : terms) (L : members) (v : string)
  : res string :=
  if is_keyword v then Ok v
  else if keyword_like v then Err "invalid-iri-mapping"      (* ExpandIri returns "" *)
  else if jmem v L then (d <- rec v ;; Ok (td_id d))
  else match assoc String.eqb v T with
  | Some d => Ok (td_id d)
  | None =>
    match split_colon v with
    | Some (pfx, sfx) =>
        if String.eqb pfx "_" || starts_with "//" sfx then Ok v
        else
          pd <- (if jmem pfx L then (d <- rec pfx ;; Ok (Some d)) else Ok (assoc String.eqb pfx T)) ;;
          match pd with
          | Some d =>
              if negb (String.eqb (td_id d) "") && td_prefix d then Ok (td_id d ++ sfx)%string
              else if is_abs_iri v then Ok v else Err "invalid-iri-mapping"
          | None => if is_abs_iri v then Ok v else Err "invalid-iri-mapping"
          end
    | None => Err "invalid-iri-mapping"                       (* relative IRI, no @vocab *)
    end
  end.

Definition valid_def_keys : list string :=
  ["@container"; "@id"; "@language"; "@reverse"; "@type"; "@context"; "@direction"; "@index";
   "@nest"; "@prefix"; "@protected"].
Definition subset_def_keys : list string := ["@container"; "@id"; "@type"; "@context"; "@prefix"; "@protected"].

(* the strings of a term definition that go through ExpandIri *)
Definition id_string (v : json) : option string :=
  match v with
  | JStr s => Some s
  | JObj m => match jget "@id" m with Some (JStr s) => Some s | _ => None end
  | _ => None
  end.
Definition type_string (v : json) : option string :=
  match v with
  | JObj m => match jget "@type" m with Some (JStr s) => Some s | _ => None end
  | _ => None
  end.

(* createTermDefinition for term t with value v, given the results idr / tyr of expanding
   its @id / @type strings (same order of checks and error points as json-gold) *)
Definition def_core (t : string) (v : json) (idr tyr : option (res string)) : res tdef :=
  norm <- match v with
          | JStr s => Ok (true, [("@id", JStr s)])
          | JObj m => Ok (false, m)
          | JNull => Err "subset:null-term"
          | _ => Err "invalid-term-definition"
          end ;;
  let simple := fst norm in
  let m := snd norm in
  if is_keyword t then Err "keyword-redefinition"
  else if keyword_like t then Err "subset:ignored-term"
  else if has_colon t || has_slash t then Err "subset:iri-term"
  else if negb (forallb (fun k => str_mem k valid_def_keys) (jkeys m)) then Err "invalid-term-definition"
  else if negb (forallb (fun k => str_mem k subset_def_keys) (jkeys m)) then Err "subset:term-key"
  else
    match jget "@id" m with
    | Some (JStr idStr) =>
        if String.eqb idStr t then Err "invalid-iri-mapping"   (* no @vocab in the subset *)
        else if negb (is_keyword idStr) && keyword_like idStr then Err "subset:ignored-term"
        else
          id <- match idr with Some r => r | None => Err "internal:no-id-string" end ;;
          if negb (is_keyword id || is_abs_iri id) then Err "invalid-iri-mapping"
          else if String.eqb id "@context" then Err "invalid-keyword-alias"
          else
            ty <- match jget "@type" m with
                  | None => Ok None
                  | Some (JStr ts) =>
                      if str_mem ts ["@id"; "@vocab"; "@json"; "@none"] then Ok (Some ts)
                      else
                        match tyr with
                        | Some (Ok e) => if negb (is_abs_iri e) || starts_with "_:" e
                                         then Err "invalid-type-mapping" else Ok (Some e)
                        | Some (Err tag) => Err tag
                        | Some (Panic w) => Panic w
                        | Some Diverge => Diverge
                        | None => Err "internal:no-type-string"
                        end
                  | Some _ => Err "invalid-type-mapping"
                  end ;;
            pf <- match jget "@prefix" m with
                  | None => Ok (simple && ends_with_gen_delim id)
                  | Some (JBool b) => if is_keyword id then Err "invalid-term-definition" else Ok b
                  | Some _ => Err "invalid-prefix-value"
                  end ;;
            Ok {| td_id := id; td_type := ty; td_ctx := jget "@context" m; td_prefix := pf |}
    | Some JNull => Err "subset:null-term"
    | Some _ => Err "invalid-iri-mapping"
    | None => Err "invalid-iri-mapping"                      (* no colon in t, no @vocab *)
    end.

(* createTermDefinition(L, t): the definition term t gets.  Fuel bounds the
   dependency chain inside L (a cycle = CyclicIRIMapping).  The expansions are
   computed up front (Gallina is pure: same result as computing them on demand). *)
Fixpoint def_of (n : nat) (T : terms) (L : members) (t : string) : res tdef :=
  match n with
  | O => Err "cyclic-iri-mapping"
  | S n' =>
    match jget t L with
    | None => Err "internal:no-such-key"
    | Some v =>
        def_core t v (option_map (expand_in_ctx (def_of n' T L) T L) (id_string v))
                     (option_map (expand_in_ctx (def_of n' T L) T L) (type_string v))
    end
  end.

Definition non_term_keys : list string :=
  ["@base"; "@direction"; "@import"; "@language"; "@protected"; "@version"; "@vocab"].
Definition unsupported_ctx_keys : list string := ["@base"; "@direction"; "@import"; "@language"; "@vocab"].

(* define every key of L (map iteration order is irrelevant: each definition is a
   function of (T, L, key)) *)
Fixpoint define_all (T : terms) (L : members) (ks : list string) (acc : terms) : res terms :=
  match ks with
  | [] => Ok acc
  | k :: r =>
      if str_mem k non_term_keys || String.eqb k "@propagate" then define_all T L r acc
      else d <- def_of (S (List.length L)) T L k ;;
           define_all T L r (upsert String.eqb k d acc)
  end.

(* one context object: the new term map *)
Definition parse_obj (T : terms) (m0 : members) : res terms :=
  m <- match jget "@context" m0 with
       | None | Some JNull => Ok m0
       | Some (JObj m') => Ok m'
       | Some _ => Err "invalid-local-context"
       end ;;
  if existsb (fun k => jmem k m) unsupported_ctx_keys then Err "subset:context-key"
  else
    _ <- match jget "@version" m with
         | None => Ok tt
         | Some (JDbl s) => if String.eqb s "1.1" then Ok tt else Err "invalid-version"
         | Some _ => Err "invalid-version"
         end ;;
    _ <- match jget "@propagate" m with
         | None | Some (JBool _) => Ok tt
         | Some _ => Err "invalid-propagate"
         end ;;
    define_all T m (jkeys m) T.

Definition arrayify (j : json) : list json :=
  match j with JArr l => l | _ => [j] end.

(* one member of the local-context array; rec = parse_terms for a remote context *)
Definition parse_item (rec : terms -> json -> res terms) (ld : loader) (r : terms) (c : json) : res terms :=
  match c with
  | JNull => Ok []
  | JStr url =>
      match assoc String.eqb url ld with
      | None => Err "loading-remote-context-failed"
      | Some (JObj dm) =>
          match jget "@context" dm with
          | Some inner => rec r inner
          | None => Err "invalid-remote-context"
          end
      | Some _ => Err "invalid-remote-context"
      end
  | JObj m => parse_obj r m
  | _ => Err "invalid-local-context"
  end.

(* Context.parse, the term definitions: they do not depend on @propagate / previousContext.
   Fuel bounds the nesting of remote contexts.  A null context resets the term map. *)
Fixpoint parse_terms (n : nat) (ld : loader) (T : terms) (lc : json) : res terms :=
  match n with
  | O => Diverge
  | S n' =>
      fold_left (fun (acc : res terms) (c : json) => r <- acc ;; parse_item (parse_terms n' ld) ld r c)
                (arrayify lc) (Ok T)
  end.

(* propagate: overridden by the @propagate member of the FIRST context object *)
Definition effective_propagate (lc : json) (propagate : bool) : bool :=
  match arrayify lc with
  | JObj m :: _ => match jget "@propagate" m with Some (JBool b) => b | _ => propagate end
  | _ => propagate
  end.

(* Context.parse(localContext, propagate): a non-propagated context remembers the context
   it was applied to as previousContext (unless one is already remembered).
   (Deviation on inputs the generators do not emit: a null context / a remote context that
   itself says @propagate:false also touch previousContext in json-gold.) *)
Definition parse (n : nat) (ld : loader) (G : ctx) (lc : json) (propagate : bool) : res ctx :=
  T' <- parse_terms n ld (c_terms G) lc ;;
  Ok {| c_terms := T';
        c_prev := match arrayify lc with
                  | [] => c_prev G
                  | _ => if effective_propagate lc propagate then c_prev G
                         else match c_prev G with None => Some (c_terms G) | Some p => Some p end
                  end |}.

Definition parse_fuel : nat := 8.
(* Context.Parse (public): propagate = true unless the context says otherwise *)
Definition cparse (ld : loader) (G : ctx) (lc : json) : res ctx := parse parse_fuel ld G lc true.
(* type-scoped: propagate = false unless the context says otherwise *)
Definition cparse_typescoped (ld : loader) (G : ctx) (lc : json) : res ctx := parse parse_fuel ld G lc false.

(* ---- ExpandIri(value, relative, vocab, nil, nil) on documents ---- *)
Definition expand_doc (G : ctx) (vocab : bool) (v : string) : string :=
  if is_keyword v then v
  else if keyword_like v then ""
  else match (if vocab then term_def G v else None) with
  | Some d => td_id d
  | None =>
    match split_colon v with
    | Some (pfx, sfx) =>
        if String.eqb pfx "_" || starts_with "//" sfx then v
        else match term_def G pfx with
             | Some d => if negb (String.eqb (td_id d) "") && td_prefix d then (td_id d ++ sfx)%string else v
             | None => v
             end
    | None => v                                   (* no @vocab, base "" *)
    end
  end.

Definition rdf_type : string := "http://www.w3.org/1999/02/22-rdf-syntax-ns#type".
Definition xsd_ns : string := "http://www.w3.org/2001/XMLSchema#".

(* ---- entering a node object (api_expand.go Expand, map case) ----
   Gin: the active context of the parent; scoped: the property-scoped context of the
   property through which the node is reached (taken from the parent's active
   context BEFORE reverting); top: the node is the document root.
   Result: (type-scoped context = context before the type-scoped contexts are applied,
            active context). *)
Definition type_values (v : json) : res (list string) :=
  match v with
  | JStr s => Ok [s]
  | JArr l =>
      fold_right (fun e acc => a <- acc ;; match e with JStr s => Ok (s :: a) | _ => Err "invalid-type-value" end)
                 (Ok []) l
  | _ => Err "invalid-type-value"
  end.

(* first key (sorted) that expands to @type *)
Definition type_key (G : ctx) (m : members) : option string :=
  find (fun k => String.eqb (expand_doc G true k) "@type") (sort_strings (jkeys m)).

Definition apply_type_scoped (parse_ts : ctx -> json -> res ctx) (G3 : ctx) (tys : list string) : res ctx :=
  fold_left (fun (acc : res ctx) (tt : string) =>
      r <- acc ;;
      match term_def G3 tt with
      | Some d => match td_ctx d with Some c => parse_ts r c | None => Ok r end
      | None => Ok r
      end) tys (Ok G3).

Definition enter_node (ld : loader) (Gin : ctx) (scoped : option json) (m : members) : res (ctx * ctx) :=
  let G1 := revert Gin in
  G2 <- match scoped with Some s => cparse ld G1 s | None => Ok G1 end ;;
  G3 <- match jget "@context" m with Some c => cparse ld G2 c | None => Ok G2 end ;;
  match type_key G3 m with
  | None => Ok (G3, G3)
  | Some k =>
      tys <- match jget k m with Some v => type_values v | None => Ok [] end ;;
      G4 <- apply_type_scoped (cparse_typescoped ld) G3 (match jget k m with Some (JArr _) => sort_strings tys | _ => tys end) ;;
      Ok (G3, G4)
  end.

(* ---- facts: what the document states (one fact per literal / IRI value) ---- *)
Record fact := {
  f_doc : list string;     (* dotted document path of the field (terms and indices) *)
  f_path : list part;      (* expanded path: property IRIs and document indices *)
  f_dt : string;           (* datatype; "" for an IRI value *)
  f_val : json             (* the raw value as written *)
}.

Definition nat_str_digit (n : nat) : ascii := ascii_of_nat (48 + n).
Fixpoint nat_str_aux (fuel n : nat) (acc : string) : string :=
  match fuel with
  | O => acc
  | S f => let acc' := String (nat_str_digit (Nat.modulo n 10)) acc in
           if Nat.ltb n 10 then acc' else nat_str_aux f (Nat.div n 10) acc'
  end.
Definition nat_str (n : nat) : string := nat_str_aux (S n) n EmptyString.

Definition native_dt (v : json) : string :=
  match v with
  | JBool _ => (xsd_ns ++ "boolean")%string
  | JInt _ => (xsd_ns ++ "integer")%string
  | JDbl _ => (xsd_ns ++ "double")%string
  | _ => (xsd_ns ++ "string")%string
  end.

(* a scalar under a property with definition d *)
Definition scalar_fact (G : ctx) (d : option tdef) (dp : list string) (p : list part) (v : json) : res (list fact) :=
  let ty := match d with Some d' => td_type d' | None => None end in
  match ty with
  | Some t =>
      if String.eqb t "@id" || String.eqb t "@vocab" then
        match v with
        | JStr s => Ok [{| f_doc := dp; f_path := p; f_dt := "";
                           f_val := JStr (expand_doc G (String.eqb t "@vocab") s) |}]
        | _ => Ok [{| f_doc := dp; f_path := p; f_dt := native_dt v; f_val := v |}]
        end
      else if String.eqb t "@none" || String.eqb t "@json" then Err "subset:type-mapping"
      else Ok [{| f_doc := dp; f_path := p; f_dt := t; f_val := v |}]
  | None => Ok [{| f_doc := dp; f_path := p; f_dt := native_dt v; f_val := v |}]
  end.

Definition concat_res {A} (l : list (res (list A))) : res (list A) :=
  fold_right (fun r acc => a <- r ;; b <- acc ;; Ok (a ++ b)) (Ok []) l.

(* members of an array: a single member carries no index, otherwise document positions *)
Definition indexed {A} (l : list A) : list (option nat * A) :=
  match l with
  | [x] => [(None, x)]
  | _ => map (fun ix => (Some (fst ix), snd ix)) (index_from 0 l)
  end.
Definition ext_doc (dp : list string) (i : option nat) : list string :=
  match i with Some n => dp ++ [nat_str n] | None => dp end.
Definition ext_path (p : list part) (i : option nat) : list part :=
  match i with Some n => p ++ [PInt (Z.of_nat n)] | None => p end.

Definition is_scalar (v : json) : bool :=
  match v with JBool _ | JInt _ | JDbl _ | JStr _ => true | _ => false end.

(* one value (array member or the property's single value) of property e / definition d;
   rec = the facts of a nested node *)
Definition item_facts (rec : ctx -> ctx -> members -> list string -> list part -> res (list fact))
  (ld : loader) (G4 : ctx) (d : option tdef) (dp' : list string) (p' : list part) (x : json) : res (list fact) :=
  match x with
  | JNull => Ok []
  | JArr _ => Err "subset:nested-array"
  | JObj m' =>
      cc <- enter_node ld G4 (match d with Some d' => td_ctx d' | None => None end) m' ;;
      sub <- rec (fst cc) (snd cc) m' dp' p' ;;
      (* an IRI-identified node is also an IRI-valued statement of its parent *)
      match find (fun k' => String.eqb (expand_doc (snd cc) true k') "@id") (jkeys m') with
      | Some ik => match jget ik m' with
                   | Some (JStr s) => Ok ({| f_doc := dp'; f_path := p'; f_dt := "";
                                             f_val := JStr (expand_doc (snd cc) false s) |} :: sub)
                   | _ => Ok sub
                   end
      | None => Ok sub
      end
  | sv => scalar_fact G4 d dp' p' sv
  end.

Definition items_of (v : json) : list (option nat * json) :=
  match v with JArr l => indexed l | _ => [(None, v)] end.

(* one member (k, v) of a node object *)
Definition member_facts (rec : ctx -> ctx -> members -> list string -> list part -> res (list fact))
  (ld : loader) (G3 G4 : ctx) (dp : list string) (p : list part) (kv : string * json) : res (list fact) :=
  let k := fst kv in
  let v := snd kv in
  if String.eqb k "@context" then Ok []
  else
    let e := expand_doc G4 true k in
    if String.eqb e "@id" then
      match v with JStr _ => Ok [] | _ => Err "invalid-id-value" end
    else if String.eqb e "@type" then
      tys <- type_values v ;;
      Ok (map (fun it : option nat * string =>
             {| f_doc := ext_doc (dp ++ [k]) (fst it);
                f_path := ext_path (p ++ [PStr rdf_type]) (fst it);
                f_dt := ""; f_val := JStr (expand_doc G3 true (snd it)) |}) (indexed tys))
    else if is_keyword e then Err "subset:keyword"
    else if String.eqb e "" || negb (has_colon e) then Err "undefined-property"   (* safe mode *)
    else
      concat_res (map (fun it : option nat * json =>
          item_facts rec ld G4 (term_def G4 k) (ext_doc (dp ++ [k]) (fst it)) (ext_path (p ++ [PStr e]) (fst it)) (snd it))
        (items_of v)).

(* facts of the node object m (active context G4, type-scoped context G3) reached
   under expanded path p / document path dp.  Fuel bounds the nesting depth. *)
Fixpoint node_facts (n : nat) (ld : loader) (G3 G4 : ctx) (m : members) (dp : list string) (p : list part)
  : res (list fact) :=
  match n with
  | O => Diverge
  | S n' => concat_res (map (member_facts (node_facts n' ld) ld G3 G4 dp p) m)
  end.

Definition facts_fuel : nat := 12.
Definition facts (ld : loader) (doc : json) : res (list fact) :=
  match doc with
  | JObj m =>
      cc <- enter_node ld empty_ctx None m ;;
      node_facts facts_fuel ld (fst cc) (snd cc) m [] []
  | _ => Err "not-an-object"
  end.

(* ---- the field denoted by a dotted path (document semantics): the repaired
   resolver — reverts type-scoped contexts, checks numeric segments against the
   document, continues in the selected member.  rec = the same function on the rest. ---- *)
Definition leaf := (list part * string * json)%type.   (* expanded path, datatype, value *)

Definition field_step (ld : loader) (G4 : ctx) (d : option tdef) (el : json) (p : list part)
           (rest : list string) (rec : ctx -> ctx -> members -> res leaf) : res leaf :=
  match el with
  | JObj m' =>
      cc <- enter_node ld G4 (match d with Some d' => td_ctx d' | None => None end) m' ;;
      l <- rec (fst cc) (snd cc) m' ;;
      let '(q, dt, v) := l in Ok (p ++ q, dt, v)
  | JNull | JArr _ => Err "no-such-field"
  | sv =>
      match rest with
      | [] => fs <- scalar_fact G4 d [] p sv ;;
              match fs with
              | [f] => Ok (f_path f, f_dt f, f_val f)
              | _ => Err "no-such-field"
              end
      | _ => Err "no-such-field"
      end
  end.

Fixpoint field_at (ld : loader) (pi : list string) (G3 G4 : ctx) (m : members) {struct pi} : res leaf :=
  match pi with
  | [] => Err "no-such-field"
  | k :: rest =>
      if is_num k || String.eqb k "@context" then Err "no-such-field"
      else
      match jget k m with
      | None => Err "no-such-field"
      | Some v =>
          let e := expand_doc G4 true k in
          if is_keyword e then Err "keyword-not-a-field"
          else if String.eqb e "" || negb (has_colon e) then Err "undefined-property"
          else
            let d := term_def G4 k in
            match v with
            | JArr [] => Err "no-such-field"
            | JArr [x] =>
                match rest with
                | i :: _ => if is_num i then Err "index-on-single-member"
                            else field_step ld G4 d x [PStr e] rest (field_at ld rest)
                | [] => field_step ld G4 d x [PStr e] rest (field_at ld rest)
                end
            | JArr l =>
                match rest with
                | i :: rest' =>
                    if is_num i then
                      match nth_error l (Z.to_nat (num_val i)) with
                      | Some x => field_step ld G4 d x [PStr e; PInt (num_val i)] rest' (field_at ld rest')
                      | None => Err "index-out-of-range"
                      end
                    else Err "index-required"
                | [] => Err "index-required"
                end
            | x =>
                match rest with
                | i :: _ => if is_num i then Err "index-on-non-array"
                            else field_step ld G4 d x [PStr e] rest (field_at ld rest)
                | [] => field_step ld G4 d x [PStr e] rest (field_at ld rest)
                end
            end
      end
  end.

Definition doc_field (ld : loader) (doc : json) (pi : list string) : res leaf :=
  match doc with
  | JObj m =>
      cc <- enter_node ld empty_ctx None m ;;
      field_at ld pi (fst cc) (snd cc) m
  | _ => Err "not-an-object"
  end.
